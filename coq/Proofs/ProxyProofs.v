(* Proofs about Model/Proxy.v (C20). *)
From Coq Require Import ZArith List Bool Lia ZifyBool.
From V Require Import Model.Proxy.
Import ListNotations.
Open Scope Z_scope.
Ltac Zify.zify_post_hook ::= Z.div_mod_to_equations.

(* ================= 1. the retry loop ================= *)
Section Loop.
Variable R : Type.

Lemma bump_result : forall a b (r : cres R), c_result (bump a b r) = c_result r.
Proof. reflexivity. Qed.
Lemma bump_conn : forall a b (r : cres R), c_conn (bump a b r) = c_conn r.
Proof. reflexivity. Qed.

(* a success is the reply of the first attempt that went through, and every earlier attempt failed *)
Lemma call_loop_success : forall t conn (outs : list (outcome R)) r,
  c_result (call_loop t conn outs) = Some r ->
  exists k, (k < t)%nat /\ nth_error outs k = Some (Ok r) /\
    forall j, (j < k)%nat -> exists o, nth_error outs j = Some o /\ is_ok o = false.
Proof.
  induction t as [| t IH]; intros conn outs r H.
  - cbn in H. discriminate.
  - destruct outs as [| o rest]; [cbn in H; discriminate |].
    cbn [call_loop] in H.
    destruct o as [| d | d | r0].
    1-3: rewrite bump_result in H; destruct (IH false rest r H) as [k [Hk [Hn Hb]]];
      exists (S k); split; [lia |]; split; [exact Hn |];
      intros j Hj; destruct j as [| j];
        [eexists; split; [reflexivity | reflexivity] | apply Hb; lia].
    cbn in H. inversion H; subst. exists 0%nat. split; [lia |]. split; [reflexivity |].
    intros j Hj. lia.
Qed.

(* when every attempt fails the call returns an error *)
Lemma call_loop_all_fail : forall t conn (outs : list (outcome R)),
  (forall o, In o (firstn t outs) -> is_ok o = false) ->
  c_result (call_loop t conn outs) = None.
Proof.
  induction t as [| t IH]; intros conn outs H.
  - reflexivity.
  - destruct outs as [| o rest]; [reflexivity |].
    cbn [call_loop]. cbn [firstn] in H.
    assert (Ho : is_ok o = false) by (apply H; left; reflexivity).
    assert (Hr : forall o', In o' (firstn t rest) -> is_ok o' = false) by (intros o' Hi; apply H; right; exact Hi).
    destruct o; try (rewrite bump_result; apply IH; exact Hr).
    cbn in Ho. discriminate.
Qed.

(* and the first attempt that goes through decides *)
Lemma call_loop_first_ok : forall t conn (outs : list (outcome R)) k r,
  (k < t)%nat -> nth_error outs k = Some (Ok r) ->
  (forall j, (j < k)%nat -> exists o, nth_error outs j = Some o /\ is_ok o = false) ->
  c_result (call_loop t conn outs) = Some r.
Proof.
  induction t as [| t IH]; intros conn outs k r Hk Hn Hb; [lia |].
  destruct outs as [| o rest]; [destruct k; discriminate |].
  destruct k as [| k].
  - cbn in Hn. inversion Hn; subst. reflexivity.
  - cbn [nth_error] in Hn.
    destruct (Hb 0%nat ltac:(lia)) as [o0 [E0 F0]]. cbn in E0. inversion E0; subst o0.
    assert (Hb' : forall j, (j < k)%nat -> exists o', nth_error rest j = Some o' /\ is_ok o' = false).
    { intros j Hj. destruct (Hb (S j) ltac:(lia)) as [o' [E F]]. exists o'. split; assumption. }
    cbn [call_loop]. destruct o; try (rewrite bump_result; apply (IH false rest k r); [lia | exact Hn | exact Hb']).
    cbn in F0. discriminate.
Qed.

Lemma call_loop_counts : forall t conn (outs : list (outcome R)),
  let c := call_loop t conn outs in
  (c_attempts c <= t)%nat /\ (c_deliveries c <= c_attempts c)%nat /\ (c_dials c <= c_attempts c)%nat.
Proof.
  induction t as [| t IH]; intros conn outs c; subst c.
  - cbn. lia.
  - destruct outs as [| o rest]; [cbn; lia |].
    cbn [call_loop]. specialize (IH false rest). cbv zeta in IH.
    destruct o as [| d | d | r]; cbn [bump c_attempts c_deliveries c_dials] in *.
    + lia.
    + destruct d, conn; cbn; lia.
    + destruct d, conn; cbn; lia.
    + destruct conn; cbn; lia.
Qed.

Lemma call_loop_success_delivered : forall t conn (outs : list (outcome R)) r,
  c_result (call_loop t conn outs) = Some r ->
  (1 <= c_deliveries (call_loop t conn outs))%nat /\ c_conn (call_loop t conn outs) = true.
Proof.
  induction t as [| t IH]; intros conn outs r H; [cbn in H; discriminate |].
  destruct outs as [| o rest]; [cbn in H; discriminate |].
  cbn [call_loop] in *.
  destruct o as [| d | d | r0].
  1-3: rewrite bump_result in H; destruct (IH false rest r H) as [H1 H2];
    cbn [bump c_deliveries c_conn]; split; [lia | exact H2].
  cbn. split; [lia | reflexivity].
Qed.

(* after an error with all attempts consumed no connection is kept *)
Lemma call_loop_error_conn : forall t conn (outs : list (outcome R)),
  (0 < t)%nat -> (t <= length outs)%nat ->
  c_result (call_loop t conn outs) = None -> c_conn (call_loop t conn outs) = false.
Proof.
  induction t as [| t IH]; intros conn outs Ht Hl H; [lia |].
  destruct outs as [| o rest]; [cbn in Hl; lia |].
  cbn [length] in Hl. cbn [call_loop] in *.
  destruct t as [| t'].
  - destruct o; cbn in *; try reflexivity. discriminate.
  - destruct o; try (rewrite bump_result in H; rewrite bump_conn; apply IH; [lia | lia | exact H]).
    cbn in H. discriminate.
Qed.
(* the reply and the number of deliveries of a call do not depend on the connection it starts with *)
Lemma call_loop_result_conn : forall t c1 c2 (outs : list (outcome R)),
  c_result (call_loop t c1 outs) = c_result (call_loop t c2 outs) /\
  c_deliveries (call_loop t c1 outs) = c_deliveries (call_loop t c2 outs).
Proof.
  induction t as [| t IH]; intros c1 c2 outs; [split; reflexivity |].
  destruct outs as [| o rest]; [split; reflexivity |].
  cbn [call_loop]. destruct o; cbn [bump c_result c_deliveries]; split; reflexivity.
Qed.

Lemma call_seq_results : forall (calls : list (list (outcome R))) conn,
  map c_result (call_seq conn calls) = map (fun outs => c_result (call false outs)) calls /\
  map c_deliveries (call_seq conn calls) = map (fun outs => c_deliveries (call false outs)) calls.
Proof.
  induction calls as [| outs rest IH]; intro conn; [split; reflexivity |].
  cbn [call_seq map]. destruct (IH (c_conn (call conn outs))) as [H1 H2].
  destruct (call_loop_result_conn retries conn false outs) as [E1 E2].
  unfold call in *. rewrite H1, H2, E1, E2. split; reflexivity.
Qed.

Lemma call_seq_length : forall (calls : list (list (outcome R))) conn, length (call_seq conn calls) = length calls.
Proof. induction calls as [| o r IH]; intro conn; [reflexivity |]. cbn [call_seq length]. rewrite IH. reflexivity. Qed.

(* the result of the k-th call is a function of the k-th outcome list only: whatever comes before or after *)
Lemma earlier_results_unaffected : forall conn conn' (pre pre' : list (list (outcome R))) c post post',
  length pre = length pre' ->
  nth_error (map c_result (call_seq conn (pre ++ c :: post))) (length pre) = Some (c_result (call false c)) /\
  nth_error (map c_result (call_seq conn' (pre' ++ c :: post'))) (length pre) = Some (c_result (call false c)).
Proof.
  intros conn conn' pre pre' c post post' Hl.
  destruct (call_seq_results (pre ++ c :: post) conn) as [H _].
  destruct (call_seq_results (pre' ++ c :: post') conn') as [H' _].
  rewrite H, H'. rewrite Hl at 2.
  rewrite !nth_error_map, !nth_error_app2, !Nat.sub_diag by lia. split; reflexivity.
Qed.
End Loop.

(* ================= 2. handler results ================= *)
Section Attempts.
Variable R : Type.
Variable isnull : R -> bool.
Variable denull : R -> R.

(* an attempt the application did not handle successfully never yields a reply: network faults, and
   handler errors WHATEVER their message (server_method makes the message non-empty) *)
Lemma unhandled_not_ok : forall a, handled a = false -> is_ok (outcome_of isnull denull a) = false.
Proof.
  intros a H. destruct a as [| | | | | h]; try reflexivity.
  destruct h as [r | e r]; cbn in H; [discriminate | reflexivity].
Qed.

Lemma firstn_map_in : forall A B (f : A -> B) n l y,
  In y (firstn n (map f l)) -> exists x, In x (firstn n l) /\ y = f x.
Proof.
  intros A B f n. induction n as [| n IH]; intros l y H.
  - cbn in H. contradiction.
  - destruct l as [| a l]; cbn in H; [contradiction |].
    destruct H as [H | H].
    + exists a. split; [left; reflexivity | symmetry; exact H].
    + destruct (IH l y H) as [x [Hx E]]. exists x. split; [right; exact Hx | exact E].
Qed.

Lemma failures_reported : forall conn (l : list (attempt R)),
  (forall a, In a (firstn retries l) -> handled a = false) ->
  c_result (call_attempts isnull denull conn l) = None.
Proof.
  intros conn l H. unfold call_attempts, call. apply call_loop_all_fail.
  intros o Ho. destruct (firstn_map_in _ _ _ _ _ _ Ho) as [a [Ha E]]. subst o.
  apply unhandled_not_ok. apply H. exact Ha.
Qed.

Lemma nth_error_map_some : forall A B (f : A -> B) l k y,
  nth_error (map f l) k = Some y -> exists x, nth_error l k = Some x /\ y = f x.
Proof.
  intros A B f l. induction l as [| a l IH]; intros k y H; destruct k; cbn in H; try discriminate.
  - inversion H. exists a. split; reflexivity.
  - apply IH. exact H.
Qed.

(* every success is the (de-nulled) reply of an attempt in which the handler succeeded *)
Lemma success_source : forall conn (l : list (attempt R)) r,
  c_result (call_attempts isnull denull conn l) = Some r ->
  exists k r0, (k < retries)%nat /\ nth_error l k = Some (APass (HOk r0)) /\ r = denull r0 /\
    forall j, (j < k)%nat -> exists a, nth_error l j = Some a /\ is_ok (outcome_of isnull denull a) = false.
Proof.
  intros conn l r H. unfold call_attempts, call in H.
  destruct (call_loop_success R retries conn _ r H) as [k [Hk [Hn Hb]]].
  destruct (nth_error_map_some _ _ _ _ _ _ Hn) as [a [Ha E]].
  destruct a as [| | | | | h]; cbn in E; try discriminate.
  destruct h as [r0 | e r0]; cbn in E; [| discriminate].
  destruct (isnull (denull r0)); [discriminate |]. inversion E; subst.
  exists k, r0. split; [exact Hk |]. split; [exact Ha |]. split; [reflexivity |].
  intros j Hj. destruct (Hb j Hj) as [o [Ho Fo]].
  destruct (nth_error_map_some _ _ _ _ _ _ Ho) as [a' [Ha' E']]. subst o. exists a'. split; assumption.
Qed.

(* the server never sends null *)
Hypothesis denull_ok : forall r, isnull (denull r) = false.

Lemma handled_ok : forall r, outcome_of isnull denull (APass (HOk r)) = Ok (denull r).
Proof. intro r. cbn. rewrite denull_ok. reflexivity. Qed.

Lemma success_reported : forall conn (l : list (attempt R)) k r,
  (k < retries)%nat -> nth_error l k = Some (APass (HOk r)) ->
  (forall j, (j < k)%nat -> exists a, nth_error l j = Some a /\ handled a = false) ->
  c_result (call_attempts isnull denull conn l) = Some (denull r).
Proof.
  intros conn l k r Hk Hn Hb. unfold call_attempts, call.
  apply (call_loop_first_ok R retries conn _ k (denull r) Hk).
  - rewrite nth_error_map, Hn. cbn [option_map]. rewrite handled_ok. reflexivity.
  - intros j Hj. destruct (Hb j Hj) as [a [Ha Fa]].
    exists (outcome_of isnull denull a). split; [rewrite nth_error_map, Ha; reflexivity | apply unhandled_not_ok; exact Fa].
Qed.

(* in particular a call whose first attempt is handled is a success after exactly one delivery *)
Lemma handled_first : forall conn r (rest : list (attempt R)),
  c_result (call_attempts isnull denull conn (APass (HOk r) :: rest)) = Some (denull r) /\
  c_deliveries (call_attempts isnull denull conn (APass (HOk r) :: rest)) = 1%nat.
Proof.
  intros conn r rest. unfold call_attempts, call, retries. cbn [map call_loop].
  rewrite handled_ok. split; reflexivity.
Qed.
End Attempts.

(* ================= 3. the field mapping ================= *)

Lemma list_ind3 : forall (A : Type) (P : list A -> Prop),
  P [] -> (forall a, P [a]) -> (forall a b, P [a; b]) ->
  (forall a b c r, P r -> P (a :: b :: c :: r)) -> forall l, P l.
Proof.
  intros A P H0 H1 H2 H3.
  assert (H : forall l, P l /\ (forall a, P (a :: l)) /\ (forall a b, P (a :: b :: l))).
  { induction l as [| x l [IH0 [IH1 IH2]]].
    - split; [exact H0 | split; [exact H1 | exact H2]].
    - split; [apply IH1 | split; [intro a; apply IH2 | intros a b; apply H3; exact IH0]]. }
  intro l. apply H.
Qed.

Lemma byte_ok_range : forall z, byte_ok z = true -> 0 <= z < 256.
Proof. intros z H. unfold byte_ok in H. lia. Qed.

Lemma b64_roundtrip : forall l, forallb byte_ok l = true -> b64dec (b64enc l) = Some l.
Proof.
  intro l. induction l as [| a | a b | a b c r IH] using list_ind3; intro H.
  - reflexivity.
  - cbn [forallb] in H. apply andb_true_iff in H. destruct H as [Ha _]. apply byte_ok_range in Ha.
    cbn [b64enc b64dec]. unfold pad. rewrite Z.eqb_refl. cbn [andb is_nil].
    f_equal. f_equal. lia.
  - cbn [forallb] in H. apply andb_true_iff in H. destruct H as [Ha H].
    apply andb_true_iff in H. destruct H as [Hb _].
    apply byte_ok_range in Ha. apply byte_ok_range in Hb.
    cbn [b64enc b64dec]. unfold pad.
    replace ((b mod 16) * 4 =? 64) with false by lia. rewrite Z.eqb_refl. cbn [is_nil].
    f_equal. f_equal; [lia |]. f_equal. lia.
  - cbn [forallb] in H. apply andb_true_iff in H. destruct H as [Ha H].
    apply andb_true_iff in H. destruct H as [Hb H].
    apply andb_true_iff in H. destruct H as [Hc Hr].
    apply byte_ok_range in Ha. apply byte_ok_range in Hb. apply byte_ok_range in Hc.
    cbn [b64enc b64dec]. unfold pad.
    replace ((b mod 16) * 4 + c / 64 =? 64) with false by lia.
    replace (c mod 64 =? 64) with false by lia.
    rewrite (IH Hr). f_equal. f_equal; [lia |]. f_equal; [lia |]. f_equal. lia.
Qed.

Lemma map_opt_map : forall A B C (f : A -> B) (g : B -> option C) (h : A -> C) l,
  (forall x, In x l -> g (f x) = Some (h x)) -> map_opt g (map f l) = Some (map h l).
Proof.
  intros A B C f g h l. induction l as [| a l IH]; intro H.
  - reflexivity.
  - cbn [map map_opt]. rewrite (H a (or_introl eq_refl)), IH; [reflexivity |].
    intros x Hx. apply H. right. exact Hx.
Qed.

Lemma dec_enc_str : forall s, dec_str (enc_str s) = Some (wire_str s).
Proof. intro s. unfold dec_str, enc_str, wire_str. rewrite map_map. reflexivity. Qed.

Lemma wire_str_ok : forall s, str_ok s = true -> wire_str s = s.
Proof.
  induction s as [| c s IH]; intro H; [reflexivity |].
  cbn [str_ok forallb] in H. apply andb_true_iff in H. destruct H as [Hc Hs].
  unfold wire_str in *. cbn [map]. rewrite (IH Hs).
  destruct c; [reflexivity | discriminate].
Qed.

Lemma dec_enc_bytes : forall b, bytes_ok b = true -> dec_bytes (enc_bytes b) = Some b.
Proof.
  intros [l |] H; [| reflexivity]. cbn [enc_bytes dec_bytes]. cbn in H. rewrite (b64_roundtrip l H). reflexivity.
Qed.

Lemma dec_enc_peer : forall p, dec_peer (enc_peer p) = Some (wire_peer p).
Proof. intro p. unfold dec_peer, enc_peer. rewrite !dec_enc_str. reflexivity. Qed.

Lemma dec_enc_itx : forall t, dec_itx (enc_itx t) = Some (wire_itx t).
Proof.
  intro t. unfold dec_itx, enc_itx. cbn [dec_num]. rewrite dec_enc_peer, dec_enc_str. reflexivity.
Qed.

Lemma dec_enc_receipt : forall r, dec_receipt (enc_receipt r) = Some (wire_receipt r).
Proof. intro r. unfold dec_receipt, enc_receipt. rewrite dec_enc_itx. reflexivity. Qed.

Lemma dec_enc_slice : forall A (enc : A -> json) (dec : json -> option A) (w : A -> A) (s : option (list A)),
  (forall x, In x (norm_slice s) -> dec (enc x) = Some (w x)) ->
  dec_slice dec (enc_slice enc s) = Some (omap w s).
Proof.
  intros A enc dec w [l |] H; [| reflexivity].
  cbn [enc_slice dec_slice omap]. rewrite (map_opt_map _ _ _ enc dec w l H). reflexivity.
Qed.

Lemma omap_id : forall A (s : option (list A)), omap (fun x => x) s = s.
Proof. intros A [l |]; [| reflexivity]. cbn. rewrite map_id. reflexivity. Qed.

Lemma oall_in : forall A (f : A -> bool) s x, oall f s = true -> In x (norm_slice s) -> f x = true.
Proof.
  intros A f [l |] x H Hx; cbn in *; [| contradiction].
  rewrite forallb_forall in H. apply H. exact Hx.
Qed.

Lemma dec_enc_txs : forall s, oall bytes_ok s = true -> dec_slice dec_bytes (enc_slice enc_bytes s) = Some s.
Proof.
  intros s H. rewrite (dec_enc_slice _ enc_bytes dec_bytes (fun x => x) s).
  - rewrite omap_id. reflexivity.
  - intros x Hx. apply dec_enc_bytes. eapply oall_in; eassumption.
Qed.

Lemma dec_enc_body : forall b, body_bytes_ok b = true -> dec_body (enc_body b) = Some (wire_body b).
Proof.
  intros b H. unfold body_bytes_ok in H.
  repeat (apply andb_true_iff in H; destruct H as [H ?]).
  unfold dec_body, enc_body. cbn [dec_num].
  rewrite !dec_enc_bytes by assumption. rewrite dec_enc_txs by assumption.
  rewrite (dec_enc_slice _ enc_itx dec_itx wire_itx) by (intros; apply dec_enc_itx).
  rewrite (dec_enc_slice _ enc_receipt dec_receipt wire_receipt) by (intros; apply dec_enc_receipt).
  reflexivity.
Qed.

Lemma dec_enc_sigs : forall s,
  dec_sigs (enc_sigs s) = Some (omap (fun kv => (wire_str (fst kv), wire_str (snd kv))) s).
Proof.
  intros [l |]; [| reflexivity]. cbn [enc_sigs dec_sigs omap].
  rewrite (map_opt_map _ _ _ _ dec_sig (fun kv : gstr * gstr => (wire_str (fst kv), wire_str (snd kv))) l); [reflexivity |].
  intros [k v] _. unfold dec_sig. cbn [fst snd]. rewrite dec_enc_str. unfold wire_str. rewrite map_map. reflexivity.
Qed.

Lemma through_block_wire : forall b, block_bytes_ok b = true -> through_block b = Some (wire_block b).
Proof.
  intros b H. unfold through_block, dec_block, enc_block.
  rewrite (dec_enc_body (bl_body b) H), dec_enc_sigs. reflexivity.
Qed.

Lemma through_cresp_wire : forall c, cresp_bytes_ok c = true -> through_cresp c = Some (wire_cresp c).
Proof.
  intros c H. unfold through_cresp, dec_cresp, enc_cresp.
  rewrite (dec_enc_bytes _ H).
  rewrite (dec_enc_slice _ enc_receipt dec_receipt wire_receipt) by (intros; apply dec_enc_receipt).
  reflexivity.
Qed.

(* with well-formed strings the wire view is the content *)
Lemma wire_peer_ok : forall p, peer_str_ok p = true -> wire_peer p = strip_peer p.
Proof.
  intros p H. unfold peer_str_ok in H. repeat (apply andb_true_iff in H; destruct H as [H ?]).
  unfold wire_peer, strip_peer. rewrite !wire_str_ok by assumption. reflexivity.
Qed.

Lemma wire_itx_ok : forall t, itx_str_ok t = true -> wire_itx t = strip_itx t.
Proof.
  intros t H. unfold itx_str_ok in H. apply andb_true_iff in H. destruct H as [H1 H2].
  unfold wire_itx, strip_itx. rewrite wire_peer_ok, wire_str_ok by assumption. reflexivity.
Qed.

Lemma wire_receipt_ok : forall r, receipt_str_ok r = true -> wire_receipt r = strip_receipt r.
Proof. intros r H. unfold wire_receipt, strip_receipt. rewrite wire_itx_ok by exact H. reflexivity. Qed.

Lemma omap_ext_ok : forall A (f g : A -> A) (ok : A -> bool) s,
  (forall x, ok x = true -> f x = g x) -> oall ok s = true -> omap f s = omap g s.
Proof.
  intros A f g ok [l |] H Ho; [| reflexivity]. cbn in *. f_equal.
  apply map_ext_in. intros x Hx. apply H. rewrite forallb_forall in Ho. apply Ho. exact Hx.
Qed.

Lemma wire_body_ok : forall b, body_str_ok b = true -> wire_body b = strip_body b.
Proof.
  intros b H. unfold body_str_ok in H. apply andb_true_iff in H. destruct H as [H1 H2].
  unfold wire_body, strip_body.
  rewrite (omap_ext_ok _ wire_itx strip_itx itx_str_ok _ wire_itx_ok H1).
  rewrite (omap_ext_ok _ wire_receipt strip_receipt receipt_str_ok _ wire_receipt_ok H2). reflexivity.
Qed.

Lemma wire_block_ok : forall b, block_str_ok b = true -> wire_block b = strip_block b.
Proof.
  intros b H. unfold block_str_ok in H. apply andb_true_iff in H. destruct H as [H1 H2].
  unfold wire_block, strip_block. rewrite (wire_body_ok _ H1). f_equal.
  rewrite (omap_ext_ok _ (fun kv : gstr * gstr => (wire_str (fst kv), wire_str (snd kv))) (fun kv => kv)
             (fun kv => str_ok (fst kv) && str_ok (snd kv)) (bl_sigs b)); [apply omap_id | | exact H2].
  intros [k v] Hkv. cbn [fst snd] in *. apply andb_true_iff in Hkv. destruct Hkv as [Hk Hv].
  rewrite !wire_str_ok by assumption. reflexivity.
Qed.

Lemma wire_cresp_ok : forall c, cresp_str_ok c = true -> wire_cresp c = strip_cresp c.
Proof.
  intros c H. unfold wire_cresp, strip_cresp.
  rewrite (omap_ext_ok _ wire_receipt strip_receipt receipt_str_ok _ wire_receipt_ok H). reflexivity.
Qed.

(* the statements used by Properties/C20.v *)
Lemma roundtrip_block : forall b,
  block_bytes_ok b = true -> block_str_ok b = true -> through_block b = Some (strip_block b).
Proof. intros b H1 H2. rewrite (through_block_wire b H1), (wire_block_ok b H2). reflexivity. Qed.

Lemma roundtrip_cresp : forall c,
  cresp_bytes_ok c = true -> cresp_str_ok c = true -> through_cresp c = Some (strip_cresp c).
Proof. intros c H1 H2. rewrite (through_cresp_wire c H1), (wire_cresp_ok c H2). reflexivity. Qed.

Lemma roundtrip_tx : forall b, bytes_ok b = true -> through_bytes b = Some b.
Proof. exact dec_enc_bytes. Qed.

Lemma no_empty_success : forall (R : Type) conn (outs : list (outcome R)) r,
  c_result (call conn outs) = Some r ->
  exists k, (k < 3)%nat /\ nth_error outs k = Some (Ok r) /\
    forall j, (j < k)%nat -> exists o, nth_error outs j = Some o /\ is_ok o = false.
Proof. intros R conn outs r H. exact (call_loop_success R retries conn outs r H). Qed.

Lemma all_fail_error : forall (R : Type) conn (outs : list (outcome R)),
  (forall o, In o (firstn 3 outs) -> is_ok o = false) -> c_result (call conn outs) = None.
Proof. intros R conn outs H. exact (call_loop_all_fail R retries conn outs H). Qed.

Lemma first_ok_success : forall (R : Type) conn (outs : list (outcome R)) k r,
  (k < 3)%nat -> nth_error outs k = Some (Ok r) ->
  (forall j, (j < k)%nat -> exists o, nth_error outs j = Some o /\ is_ok o = false) ->
  c_result (call conn outs) = Some r.
Proof. intros R conn outs k r. exact (call_loop_first_ok R retries conn outs k r). Qed.

Lemma at_most_three : forall (R : Type) conn (outs : list (outcome R)),
  (c_attempts (call conn outs) <= 3)%nat /\ (c_deliveries (call conn outs) <= 3)%nat /\
  (c_dials (call conn outs) <= 3)%nat.
Proof.
  intros R conn outs. pose proof (call_loop_counts R retries conn outs) as H. cbv zeta in H.
  unfold call. unfold retries in *. lia.
Qed.

Lemma at_least_once : forall (R : Type) conn (outs : list (outcome R)) r,
  c_result (call conn outs) = Some r ->
  (1 <= c_deliveries (call conn outs))%nat /\ c_conn (call conn outs) = true.
Proof. intros R conn outs r H. exact (call_loop_success_delivered R retries conn outs r H). Qed.

Lemma error_drops_connection : forall (R : Type) conn (outs : list (outcome R)),
  (3 <= length outs)%nat -> c_result (call conn outs) = None -> c_conn (call conn outs) = false.
Proof.
  intros R conn outs Hl H. apply (call_loop_error_conn R retries conn outs); [unfold retries; lia | exact Hl | exact H].
Qed.

(* ---------- the library conventions alone (a server that does not normalise): the two former findings ---------- *)
Lemma bytes_denull_ok : forall b, bytes_null (bytes_denull b) = false.
Proof. intros [l |]; reflexivity. Qed.

(* every attempt reaches a handler that fails with an empty error message and returns the zero reply:
   net/rpc alone reports a success; through server_method it is an error after three deliveries *)
Lemma empty_message_raw_and_fixed :
  let l := [APass (HErr true (Some [])); APass (HErr true (Some [])); APass (HErr true (Some []))] in
  c_result (call_attempts_raw bytes_null false l) = Some (Some []) /\
  c_result (call_attempts bytes_null bytes_denull false l) = None /\
  c_deliveries (call_attempts bytes_null bytes_denull false l) = 3%nat.
Proof. vm_compute. repeat split. Qed.

(* the handler succeeds with a nil byte slice: the client library alone rejects the null result three times;
   through server_method the call succeeds with the empty slice after one delivery *)
Lemma nil_reply_raw_and_fixed :
  let l : list (attempt bytes) := [APass (HOk None); APass (HOk None); APass (HOk None)] in
  c_result (call_attempts_raw bytes_null false l) = None /\
  c_deliveries (call_attempts_raw bytes_null false l) = 3%nat /\
  c_result (call_attempts bytes_null bytes_denull false l) = Some (Some []) /\
  c_deliveries (call_attempts bytes_null bytes_denull false l) = 1%nat.
Proof. vm_compute. repeat split. Qed.

(* ---------- NewPeer ---------- *)
Lemma to_valid_ok : forall s, str_ok (to_valid s) = true.
Proof.
  induction s as [| c s IH]; [reflexivity |].
  destruct c as [c | b].
  - cbn [to_valid]. cbn [str_ok forallb schar_ok]. exact IH.
  - destruct s as [| [c' | b'] s'].
    + reflexivity.
    + cbn [to_valid] in *. cbn [str_ok forallb schar_ok] in *. exact IH.
    + exact IH.
Qed.

Lemma to_valid_id : forall s, str_ok s = true -> to_valid s = s.
Proof.
  induction s as [| c s IH]; intro H; [reflexivity |].
  cbn [str_ok forallb] in H. apply andb_true_iff in H. destruct H as [Hc Hs].
  destruct c; [| discriminate]. cbn [to_valid]. rewrite (IH Hs). reflexivity.
Qed.

Lemma to_valid_idem : forall s, to_valid (to_valid s) = to_valid s.
Proof. intro s. apply to_valid_id. apply to_valid_ok. Qed.

Lemma new_peer_ok : forall key net mon, str_ok key = true -> peer_str_ok (new_peer key net mon) = true.
Proof.
  intros key net mon H. unfold peer_str_ok, new_peer. cbn [p_net p_key p_mon].
  rewrite !to_valid_ok, H. reflexivity.
Qed.

(* the wire does not change a peer made by NewPeer *)
Lemma new_peer_wire : forall key net mon, str_ok key = true ->
  wire_peer (new_peer key net mon) = new_peer key net mon.
Proof.
  intros key net mon H. rewrite (wire_peer_ok _ (new_peer_ok key net mon H)). reflexivity.
Qed.

(* internal transactions as the code builds them: the peer through NewPeer (or decoded from JSON, which is the
   same as far as validity goes), key and signature produced by the hex / base-36 encoders *)
Definition built_itx (t : itx) : Prop :=
  exists key net mon, str_ok key = true /\ str_ok (it_sig t) = true /\ it_peer t = new_peer key net mon.
Definition built_block (b : block) : Prop :=
  (forall t, In t (norm_slice (bo_itxs (bl_body b))) -> built_itx t) /\
  (forall r, In r (norm_slice (bo_receipts (bl_body b))) -> built_itx (rc_itx r)) /\
  oall (fun kv => str_ok (fst kv) && str_ok (snd kv)) (bl_sigs b) = true.
Definition built_cresp (c : cresp) : Prop :=
  forall r, In r (norm_slice (cr_receipts c)) -> built_itx (rc_itx r).

Lemma built_itx_ok : forall t, built_itx t -> itx_str_ok t = true.
Proof.
  intros t [key [net [mon [Hk [Hs Hp]]]]]. unfold itx_str_ok. rewrite Hp, (new_peer_ok key net mon Hk), Hs. reflexivity.
Qed.

Lemma oall_of_in : forall A (f : A -> bool) s, (forall x, In x (norm_slice s) -> f x = true) -> oall f s = true.
Proof. intros A f [l |] H; [| reflexivity]. cbn in *. apply forallb_forall. exact H. Qed.

Lemma built_block_ok : forall b, built_block b -> block_str_ok b = true.
Proof.
  intros b [H1 [H2 H3]]. unfold block_str_ok, body_str_ok.
  rewrite (oall_of_in _ itx_str_ok _ (fun t Ht => built_itx_ok t (H1 t Ht))).
  rewrite (oall_of_in _ receipt_str_ok _ (fun r Hr => built_itx_ok _ (H2 r Hr))).
  rewrite H3. reflexivity.
Qed.

Lemma roundtrip_built_block : forall b,
  block_bytes_ok b = true -> built_block b -> through_block b = Some (strip_block b).
Proof. intros b H1 H2. apply roundtrip_block; [exact H1 | apply built_block_ok; exact H2]. Qed.

Lemma roundtrip_built_cresp : forall c,
  cresp_bytes_ok c = true -> built_cresp c -> through_cresp c = Some (strip_cresp c).
Proof.
  intros c H1 H2. apply roundtrip_cresp; [exact H1 |]. unfold cresp_str_ok.
  apply oall_of_in. intros r Hr. apply built_itx_ok. apply H2. exact Hr.
Qed.

(* a Peer that does not come from NewPeer (a literal with a stray byte in the moniker) still changes *)
Definition bad_peer := mkPeer [Good 97] [Good 48] [Good 109; Bad 255] 0.
Definition bad_block :=
  mkBlock (mkBody 1 2 3 (Some []) None (Some [255; 0]) (Some [Some [1; 2; 3; 4]; None; Some []])
                  (Some [mkItx 0 bad_peer []]) None) None None [] false.
Lemma invalid_utf8_witness :
  block_bytes_ok bad_block = true /\ through_block bad_block <> Some (strip_block bad_block) /\
  through_block bad_block = Some (wire_block bad_block).
Proof. split; [reflexivity |]. split; [vm_compute; discriminate | vm_compute; reflexivity]. Qed.
