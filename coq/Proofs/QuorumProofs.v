From Coq Require Import ZArith List Bool Lia ZifyBool Permutation.
From V Require Import Model.Quorum.
Import ListNotations.
Open Scope Z_scope.
Ltac Zify.zify_post_hook ::= Z.div_mod_to_equations.

(** * Arithmetic *)

Lemma sm_least n : 0 <= n -> 3 * sm n > 2 * n /\ 3 * (sm n - 1) <= 2 * n.
Proof. unfold sm; intros; lia. Qed.

Lemma sm_is_least n m : 0 <= n -> 3 * m > 2 * n -> sm n <= m.
Proof. unfold sm; intros; lia. Qed.

Lemma sm_le_n n : 1 <= n -> sm n <= n.
Proof. unfold sm; intros; lia. Qed.

Lemma sm_two_gt n a b i : 0 <= n -> sm n <= a -> sm n <= b -> a + b <= n + i -> 3 * i > n.
Proof. unfold sm; intros; lia. Qed.

Lemma sm_gt_two_faulty n f : 0 <= f -> 3 * f < n -> sm n > 2 * f.
Proof. unfold sm; intros; lia. Qed.

Lemma tc_ceil sl n : 1 < sl -> 0 <= n -> 3 * tc sl n >= n /\ 3 * (tc sl n - 1) < n.
Proof. unfold tc; intros; destruct (sl <=? 1) eqn:E; lia. Qed.

Lemma trusted_gt_third k sl n : 1 <= n -> n <= sl -> trusted k sl n = true -> 3 * k > n.
Proof. unfold trusted, tc; intros; destruct (sl <=? 1) eqn:E; lia. Qed.

(* exact characterisation: for n >= 2 the code needs k > ceil(n/3), i.e. 3(k-1) >= n,
   which is slightly stricter than 3k > n (e.g. n = 4 needs 3 signatures). *)
Lemma trusted_iff k sl n : 2 <= n -> n = sl -> (trusted k sl n = true <-> 3 * (k - 1) >= n).
Proof. unfold trusted, tc; intros; destruct (sl <=? 1) eqn:E; lia. Qed.

Lemma trusted_one_iff sl n : 1 <= n -> n = sl -> (trusted 1 sl n = true <-> n = 1).
Proof. unfold trusted, tc; intros; destruct (sl <=? 1) eqn:E; lia. Qed.

Lemma trusted_exceeds_faulty k sl n f :
  1 <= n -> n <= sl -> 0 <= f -> 3 * f < n -> trusted k sl n = true -> k > f.
Proof. intros; pose proof (trusted_gt_third k sl n); lia. Qed.

(** * Finite sets as duplicate-free lists of keys *)

Lemma mem_key_In k l : mem_key k l = true <-> In k l.
Proof.
  induction l as [|x r IH]; simpl; [split; [discriminate|tauto]|].
  destruct (Z.eqb_spec x k); [split; auto|]. rewrite IH; split; [auto|intros [?|?]; [contradiction|auto]].
Qed.

Lemma mem_key_false k l : mem_key k l = false <-> ~ In k l.
Proof. rewrite <- mem_key_In; destruct (mem_key k l); split; congruence. Qed.

Lemma dedup_In k l : In k (dedup l) <-> In k l.
Proof.
  induction l as [|x r IH]; simpl; [tauto|].
  destruct (mem_key x r) eqn:E.
  - rewrite IH; split; [auto|intros [->|?]; [apply mem_key_In; auto|auto]].
  - simpl; rewrite IH; tauto.
Qed.

Lemma dedup_NoDup l : NoDup (dedup l).
Proof.
  induction l as [|x r IH]; simpl; [constructor|].
  destruct (mem_key x r) eqn:E; [auto|].
  constructor; [rewrite dedup_In; apply mem_key_false; auto|auto].
Qed.

Lemma dedup_id l : NoDup l -> dedup l = l.
Proof.
  induction 1 as [|x r Hx Hr IH]; simpl; [reflexivity|].
  apply mem_key_false in Hx; rewrite Hx, IH; reflexivity.
Qed.

Definition inter (a b : list Z) : list Z := filter (fun x => mem_key x b) a.
Definition diff (a b : list Z) : list Z := filter (fun x => negb (mem_key x b)) a.

Lemma filter_split {A} (f : A -> bool) l :
  length l = (length (filter f l) + length (filter (fun x => negb (f x)) l))%nat.
Proof. induction l as [|x r IH]; simpl; [reflexivity|]; destruct (f x); simpl; lia. Qed.

Lemma NoDup_filter {A} (f : A -> bool) l : NoDup l -> NoDup (filter f l).
Proof.
  induction 1 as [|x r Hx Hr IH]; simpl; [constructor|].
  destruct (f x); [constructor; [rewrite filter_In; tauto|auto]|auto].
Qed.

Lemma NoDup_app_intro {A} (l1 l2 : list A) :
  NoDup l1 -> NoDup l2 -> (forall x, In x l1 -> ~ In x l2) -> NoDup (l1 ++ l2).
Proof.
  induction 1 as [|x r Hx Hr IH]; simpl; intros H2 Hd; [auto|].
  constructor.
  - rewrite in_app_iff; intros [?|?]; [contradiction|]. apply (Hd x); simpl; auto.
  - apply IH; [auto|]. intros y Hy; apply Hd; simpl; auto.
Qed.

(* inclusion-exclusion, as an inequality *)
Lemma inter_lower (u a b : list Z) :
  NoDup a -> NoDup b -> incl a u -> incl b u ->
  (length a + length b <= length u + length (inter a b))%nat.
Proof.
  intros Ha Hb Hau Hbu.
  assert (Hnd : NoDup (b ++ diff a b)).
  { apply NoDup_app_intro; auto.
    - apply NoDup_filter; auto.
    - intros x Hx Hx'. apply filter_In in Hx' as [_ Hx'].
      apply mem_key_In in Hx. rewrite Hx in Hx'. discriminate. }
  assert (Hin : incl (b ++ diff a b) u).
  { intros x Hx; apply in_app_iff in Hx as [Hx|Hx]; [auto|].
    apply filter_In in Hx as [Hx _]; auto. }
  pose proof (NoDup_incl_length Hnd Hin) as Hl.
  rewrite app_length in Hl.
  pose proof (filter_split (fun x => mem_key x b) a) as Hs.
  unfold inter, diff in *. lia.
Qed.

Lemma inter_incl_l a b : incl (inter a b) a.
Proof. intros x Hx; apply filter_In in Hx; tauto. Qed.
Lemma inter_incl_r a b : incl (inter a b) b.
Proof. intros x Hx; apply filter_In in Hx as [_ Hx]; apply mem_key_In; auto. Qed.

(** Any two supermajorities of an n-set share more than n/3 members. *)
Lemma sm_intersect (u a b : list Z) :
  NoDup u -> NoDup a -> NoDup b -> incl a u -> incl b u ->
  let n := Z.of_nat (length u) in
  sm n <= Z.of_nat (length a) -> sm n <= Z.of_nat (length b) ->
  3 * Z.of_nat (length (inter a b)) > n.
Proof.
  intros Hu Ha Hb Hau Hbu n H1 H2.
  pose proof (inter_lower u a b Ha Hb Hau Hbu) as Hl.
  apply (sm_two_gt n (Z.of_nat (length a)) (Z.of_nat (length b))); subst n; lia.
Qed.

(** A supermajority contains more honest than faulty members when 3f < n. *)
Lemma sm_honest_majority (u a flt : list Z) :
  NoDup u -> NoDup a -> NoDup flt -> incl a u -> incl flt u ->
  let n := Z.of_nat (length u) in
  3 * Z.of_nat (length flt) < n -> sm n <= Z.of_nat (length a) ->
  Z.of_nat (length (diff a flt)) > Z.of_nat (length (inter a flt)).
Proof.
  intros Hu Ha Hf Hau Hfu n Hf3 Hsm.
  pose proof (filter_split (fun x => mem_key x flt) a) as Hs.
  assert (Hle : (length (inter a flt) <= length flt)%nat).
  { apply NoDup_incl_length; [apply NoDup_filter; auto|apply inter_incl_r]. }
  pose proof (sm_gt_two_faulty n (Z.of_nat (length flt))).
  unfold inter, diff in *. lia.
Qed.

(** A trusted block (k distinct valid signers out of the n-set) has an honest signer. *)
Lemma trusted_has_honest (u signers flt : list Z) :
  NoDup u -> NoDup signers -> NoDup flt -> incl signers u -> incl flt u ->
  let n := Z.of_nat (length u) in
  1 <= n -> 3 * Z.of_nat (length flt) < n ->
  trusted (Z.of_nat (length signers)) n n = true ->
  exists s, In s signers /\ ~ In s flt.
Proof.
  intros Hu Hs Hf Hsu Hfu n Hn Hf3 Ht.
  pose proof (trusted_exceeds_faulty _ n n (Z.of_nat (length flt)) Hn ltac:(lia) ltac:(lia) Hf3 Ht) as Hk.
  destruct (diff signers flt) as [|s r] eqn:E.
  - exfalso.
    pose proof (filter_split (fun x => mem_key x flt) signers) as Hsp.
    assert (Hle : (length (inter signers flt) <= length flt)%nat).
    { apply NoDup_incl_length; [apply NoDup_filter; auto|apply inter_incl_r]. }
    unfold diff in E. unfold inter in Hle. cbv beta in Hsp. rewrite E in Hsp. simpl in Hsp. lia.
  - exists s. assert (Hin : In s (diff signers flt)) by (rewrite E; simpl; auto).
    apply filter_In in Hin as [H1 H2]. split; auto.
    apply mem_key_false. destruct (mem_key s flt); [discriminate|reflexivity].
Qed.

(** * Peer sets built by any add/remove sequence have distinct keys, so the
    thresholds are computed on the number of distinct validators. *)

Definition id_of_key_fun (ps : peerset) : Prop :=
  forall p q, In p ps -> In q ps -> pkey p = pkey q -> pid p = pid q.

Lemma keys_with_removed ps p :
  NoDup (keys ps) -> NoDup (keys (with_removed ps p)).
Proof.
  unfold keys, with_removed. induction ps as [|q r IH]; simpl; intros H; [constructor|].
  inversion H as [|? ? Hq Hr]; subst.
  destruct (Z.eqb (pkey q) (pkey p)); simpl; [auto|].
  constructor; [|auto]. intros Hin; apply Hq.
  apply in_map_iff in Hin as [x [Hx Hin]]. apply filter_In in Hin as [Hin _].
  apply in_map_iff; eauto.
Qed.

(* id is a function of the key over the whole repertoire of peers that ever occur *)
Definition idfun (idf : Z -> Z) (p : peer) : Prop := pid p = idf (pkey p).

Lemma keys_with_new idf ps p :
  Forall (idfun idf) ps -> idfun idf p ->
  NoDup (keys ps) -> NoDup (keys (with_new ps p)).
Proof.
  unfold with_new; intros Hf Hp Hnd.
  destruct (mem_key (pid p) (ids ps)) eqn:E; [auto|].
  unfold keys; rewrite map_app; simpl.
  apply NoDup_app_intro; [auto|constructor; [simpl; tauto|constructor]|].
  intros k Hk [<-|[]].
  apply mem_key_false in E. apply E.
  apply in_map_iff in Hk as [q [Hq Hin]].
  rewrite Forall_forall in Hf. specialize (Hf q Hin).
  unfold ids; apply in_map_iff. exists q; split; [|auto].
  unfold idfun in *; congruence.
Qed.

Definition op_peer (o : psop) := match o with OpAdd p | OpRemove p => p end.

Lemma Forall_with_new (P : peer -> Prop) ps p : Forall P ps -> P p -> Forall P (with_new ps p).
Proof.
  unfold with_new; intros; destruct (mem_key _ _); [auto|].
  apply Forall_app; split; auto.
Qed.
Lemma Forall_with_removed (P : peer -> Prop) ps p : Forall P ps -> Forall P (with_removed ps p).
Proof. unfold with_removed; intros H. rewrite Forall_forall in *; intros x Hx; apply filter_In in Hx as [Hx _]; auto. Qed.

Lemma run_keys_NoDup idf ops ps0 :
  Forall (idfun idf) ps0 -> NoDup (keys ps0) ->
  Forall (fun o => idfun idf (op_peer o)) ops ->
  NoDup (keys (fold_left ps_step ops ps0)) /\ Forall (idfun idf) (fold_left ps_step ops ps0).
Proof.
  revert ps0; induction ops as [|o ops IH]; simpl; intros ps0 Hf Hnd Hops; [auto|].
  inversion Hops as [|? ? Ho Hrest]; subst.
  apply IH; auto; destruct o as [p|p]; simpl in *.
  - apply Forall_with_new; auto.
  - apply Forall_with_removed; auto.
  - eapply keys_with_new; eauto.
  - apply keys_with_removed; auto.
Qed.

Lemma ps_len_distinct ps : NoDup (keys ps) -> ps_len ps = ps_slice_len ps.
Proof. unfold ps_len, ps_slice_len; intros H; rewrite dedup_id by auto. unfold keys; rewrite map_length; reflexivity. Qed.

Lemma ps_len_le_slice ps : ps_len ps <= ps_slice_len ps.
Proof.
  unfold ps_len, ps_slice_len, keys. rewrite <- (map_length pkey ps).
  generalize (map pkey ps) as l. induction l as [|x r IH]; simpl; [lia|].
  destruct (mem_key x r); simpl length; lia.
Qed.

(** Thresholds of any set reachable by add/remove operations are those of its
    number of distinct validators. *)
Lemma thresholds_use_distinct_count idf ops :
  Forall (fun o => idfun idf (op_peer o)) ops ->
  let ps := ps_run ops in
  let n := Z.of_nat (length (dedup (keys ps))) in
  NoDup (keys ps) /\ super_majority ps = sm n /\ trust_count ps = tc n n.
Proof.
  intros Hops ps n.
  destruct (run_keys_NoDup idf ops [] ltac:(constructor) ltac:(constructor) Hops) as [Hnd _].
  fold (ps_run ops) in Hnd. fold ps in Hnd.
  split; [auto|]. split; [reflexivity|].
  unfold trust_count. rewrite <- (ps_len_distinct ps Hnd). reflexivity.
Qed.

(** Even for a hostile slice with repeated keys, "trusted" implies more than a third
    of the distinct keys. *)
Lemma trusted_hostile_slice k ps :
  1 <= ps_len ps -> trusted k (ps_slice_len ps) (ps_len ps) = true -> 3 * k > ps_len ps.
Proof. intros; eapply trusted_gt_third; eauto. apply ps_len_le_slice. Qed.
