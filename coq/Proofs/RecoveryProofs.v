(* C11 crash recovery: proofs about Model/Recovery.v. *)
From Coq Require Import ZArith List Bool Lia ZifyBool.
From RecordUpdate Require Import RecordSet.
From V Require Import Model.ZMap Model.Quorum Model.Voting Model.HgImpl Model.Recovery
  Proofs.ZMapFacts Proofs.HgFrames Proofs.HgDagFrames Proofs.AdmissionProofs Proofs.HgBlockFrames Proofs.BlockInv
  Proofs.HgSim Proofs.HgRepFrames.
Import ListNotations RecordSetNotations.
Open Scope Z_scope.

(** * Node operations *)
Definition to_hop (o : nop) : hop := match o with NInsert e => HInsert e | NSigPool => HSigPool end.
Lemma nstep_hstep st o : nstep st o = hstep st (to_hop o).
Proof. destruct o; reflexivity. Qed.
Lemma nrun_hrun ops : forall st, nrun st ops = hrun st (map to_hop ops).
Proof. induction ops as [|o r IH]; intros st; cbn; [reflexivity|]. rewrite <- nstep_hstep. apply IH. Qed.
Lemma nrun_app st ops ops' : nrun st (ops ++ ops') = nrun (nrun st ops) ops'.
Proof. unfold nrun. apply fold_left_app. Qed.
Lemma run_app st l l' : run st (l ++ l') = run (run st l) l'.
Proof. unfold run. apply fold_left_app. Qed.

(* premises on the events a node is ever offered: hash ordinals identify events *)
Definition wf (all : list event) : Prop := ids_determine all /\ (forall e, In e all -> 0 <= e_id e).

Record ninv (all : list event) (st : hg) : Prop := {
  n_dag : dag_ok st;
  n_from : from_attempts st all;
  n_binv : binv st
}.

Lemma ninv_init all self_ genesis oracle_ : ninv all (init_hg self_ genesis oracle_).
Proof.
  constructor; [apply dag_ok_init| |apply binv_init].
  intros x es H. exfalso.
  pose proof (dag_ok_init self_ genesis oracle_) as OK.
  unfold init_hg in H. destruct (set_peerset (empty_hg self_) 0 genesis) as [st|] eqn:S.
  - pose proof (set_peerset_frame _ _ _ _ S) as [Fe _]. specialize (Fe x). unfold get_event in H.
    change (events (st <| validators := genesis |> <| oracle := oracle_ |>)) with (events st) in H.
    rewrite H in Fe. cbn in Fe. unfold empty_hg in Fe. cbn in Fe. rewrite zget_empty in Fe. discriminate.
  - unfold get_event, empty_hg in H. cbn in H. rewrite zget_empty in H. discriminate.
Qed.

Lemma nstep_ninv all st o : wf all -> (forall e, o = NInsert e -> In e all) -> ninv all st -> ninv all (nstep st o).
Proof.
  intros [ID Pos] Hin [OK FA BI]. destruct o as [e|]; cbn [nstep].
  - specialize (Hin e eq_refl). destruct (step_inv st e all OK FA ID Hin (Pos e Hin)) as [OK' FA'].
    constructor; [exact OK'|exact FA'|apply step_binv; exact BI].
  - pose proof (process_sigpool_frame st) as F.
    constructor; [eapply dag_ok_frame; eauto|eapply from_attempts_frame; eauto|apply process_sigpool_binv; exact BI].
Qed.

Lemma incl_op_events_cons o r all : incl (op_events (o :: r)) all ->
  (forall e, o = NInsert e -> In e all) /\ incl (op_events r) all.
Proof.
  intros H. split.
  - intros e ->. apply H. cbn. left. reflexivity.
  - intros e He. apply H. unfold op_events. cbn [flat_map]. apply in_or_app. right. exact He.
Qed.

Lemma nrun_ninv all ops : forall st, wf all -> incl (op_events ops) all -> ninv all st -> ninv all (nrun st ops).
Proof.
  induction ops as [|o r IH]; intros st W I N; cbn; [exact N|].
  destruct (incl_op_events_cons _ _ _ I) as [I1 I2]. apply IH; auto. apply nstep_ninv; auto.
Qed.

(* a rejected insertion attempt leaves the whole state unchanged *)
Lemma reject_noop all st e : wf all -> ninv all st -> In e all -> fst (insert_and_run st e) <> InsOk -> step st e = st.
Proof.
  intros [ID Pos] [OK FA _] Hin Hr. unfold step. unfold insert_and_run in *.
  destruct (insert_event st e) as [r s] eqn:E.
  destruct (insert_event_inv st e all r s OK FA ID Hin (Pos e Hin) E) as [_ [_ Hns]].
  destruct r; cbn [fst snd] in *; try congruence; eapply insert_reject_noop; eauto; discriminate.
Qed.

(** * Same insertions, different ProcessSigPool schedules *)

Lemma run_simr fl evs : forall a b, simr fl a b -> simr fl (run a evs) (run b evs).
Proof.
  induction evs as [|e r IH]; intros a b S; cbn; [exact S|]. apply IH. apply step_simr. exact S.
Qed.

Lemma run_binv evs : forall st, binv st -> binv (run st evs).
Proof. induction evs as [|e r IH]; intros st OK; cbn; [exact OK|]. apply IH, step_binv, OK. Qed.

Lemma accepted_cons_ok st e r : fst (insert_and_run st e) = InsOk ->
  accepted st (NInsert e :: r) = e :: accepted (step st e) r.
Proof.
  intros H. cbn [accepted]. unfold step. destruct (insert_and_run st e) as [res s]. cbn [fst snd] in *. subst res. reflexivity.
Qed.
Lemma accepted_cons_rej st e r : fst (insert_and_run st e) <> InsOk ->
  accepted st (NInsert e :: r) = accepted (step st e) r.
Proof.
  intros H. cbn [accepted]. unfold step. destruct (insert_and_run st e) as [res s]. cbn [fst snd] in *.
  destruct res; try reflexivity. congruence.
Qed.

Lemma ins_result_dec (r : ins_result) : {r = InsOk} + {r <> InsOk}.
Proof. destruct r; (left; reflexivity) || (right; discriminate). Qed.

(* the node's state is, up to signature bookkeeping, the plain run over the accepted events *)
Lemma nrun_run_sim all ops : forall st st', wf all -> incl (op_events ops) all -> ninv all st -> binv st' ->
  simr true st st' -> simr true (nrun st ops) (run st' (accepted st ops)).
Proof.
  induction ops as [|o r IH]; intros st st' W I N B S; [exact S|].
  destruct (incl_op_events_cons _ _ _ I) as [I1 I2].
  pose proof (nstep_ninv all st o W I1 N) as N1.
  destruct o as [e|]; cbn [nrun fold_left nstep].
  - destruct (ins_result_dec (fst (insert_and_run st e))) as [Hok|Hrej].
    + rewrite (accepted_cons_ok _ _ _ Hok). cbn [run fold_left].
      apply IH; auto; [apply step_binv; exact B|apply step_simr; exact S].
    + rewrite (accepted_cons_rej _ _ _ Hrej).
      rewrite (reject_noop all st e W N (I1 e eq_refl) Hrej) in *. apply IH; auto.
  - cbn [accepted]. apply IH; auto. cbn [nstep] in N1.
    eapply simr_trans; [apply simr_sym, process_sigpool_fsim; apply (n_binv _ _ N)|exact S].
Qed.

(* every event of the sequence is accepted when replayed in order *)
Fixpoint all_ok (st : hg) (evs : list event) : Prop :=
  match evs with [] => True | e :: r => fst (insert_and_run st e) = InsOk /\ all_ok (step st e) r end.

Lemma all_ok_simr fl evs : forall a b, simr fl a b -> all_ok a evs -> all_ok b evs.
Proof.
  induction evs as [|e r IH]; intros a b S H; [exact I|]. destruct H as [H1 H2].
  destruct (step_simr fl a b e S) as [E S1]. split; [congruence|eapply IH; eauto].
Qed.

Lemma all_ok_app l1 : forall st l2, all_ok st (l1 ++ l2) <-> all_ok st l1 /\ all_ok (run st l1) l2.
Proof.
  induction l1 as [|e r IH]; intros st l2; cbn [app all_ok run fold_left]; [tauto|].
  rewrite IH. unfold run. tauto.
Qed.

Lemma all_ok_accepted all ops : forall st st', wf all -> incl (op_events ops) all -> ninv all st ->
  simr false st st' -> all_ok st' (accepted st ops).
Proof.
  induction ops as [|o r IH]; intros st st' W I N S; [exact Logic.I|].
  destruct (incl_op_events_cons _ _ _ I) as [I1 I2].
  pose proof (nstep_ninv all st o W I1 N) as N1.
  destruct o as [e|].
  - destruct (ins_result_dec (fst (insert_and_run st e))) as [Hok|Hrej].
    + rewrite (accepted_cons_ok _ _ _ Hok). destruct (step_simr false st st' e S) as [E S1].
      split; [congruence|]. apply IH; auto.
    + rewrite (accepted_cons_rej _ _ _ Hrej).
      cbn [nstep] in N1. rewrite (reject_noop all st e W N (I1 e eq_refl) Hrej) in *. apply IH; auto.
  - cbn [accepted]. apply IH; auto. cbn [nstep] in N1.
    eapply simr_trans; [|exact S]. split; [apply process_sigpool_core|discriminate].
Qed.

Lemma boot_insert_all_ok evs : forall st, all_ok st evs -> boot_insert st evs = (run st evs, true).
Proof.
  induction evs as [|e r IH]; intros st H; [reflexivity|]. destruct H as [H1 H2].
  cbn [boot_insert run fold_left]. unfold step in *.
  destruct (insert_and_run st e) as [res s]. cbn [fst snd] in *. subst res. apply IH. exact H2.
Qed.

(** * Bootstrap's ProcessSigPool (block lookup falls back to the database) *)

Lemma process_sig_as_on_block st s :
  process_sig st s = match zget (bs_index s) (blocks st) with Some b => sig_on_block st s b | None => st end.
Proof. reflexivity. Qed.

Lemma sig_on_block_core st s b :
  core (sig_on_block st s b) = core st /\ delivered (sig_on_block st s b) = delivered st /\
  self_sigs (sig_on_block st s b) = self_sigs st.
Proof.
  unfold sig_on_block. destruct (get_peerset st (b_rr b)); [|auto].
  destruct (negb (mem_key _ _)); [auto|]. destruct (negb (_ =? _)); [auto|].
  cbv zeta. rewrite core_set_sigpool, core_set_anchor_block, core_store_set_block.
  split; [reflexivity|].
  match goal with |- delivered (?s0 <| sigpool := ?v |>) = _ /\ _ => pose proof (fine3_set_sigpool s0 v) as H end.
  rewrite fine3_set_anchor_block, fine3_store' in H. unfold fine3 in H. unfold t3_store in H. inversion H. auto.
Qed.

Lemma boot_process_sig_core g blk st u s :
  core (fst (boot_process_sig g blk (st, u) s)) = core st /\
  delivered (fst (boot_process_sig g blk (st, u) s)) = delivered st.
Proof.
  unfold boot_process_sig. destruct (g && _); [cbn [fst]; auto|].
  destruct (zget (bs_index s) (blocks st)) as [b|]; cbn [fst].
  - destruct (sig_on_block_core st s b) as [H1 [H2 _]]. auto.
  - destruct (zget (bs_index s) blk) as [b|]; cbn [fst]; [|auto].
    destruct (sig_on_block_core st s b) as [H1 [H2 _]]. auto.
Qed.

Lemma boot_sigpool_core_gen g blk l : forall st u,
  core (fst (fold_left (boot_process_sig g blk) l (st, u))) = core st /\
  delivered (fst (fold_left (boot_process_sig g blk) l (st, u))) = delivered st.
Proof.
  induction l as [|s l IH]; intros st u; cbn [fold_left]; [auto|].
  destruct (boot_process_sig_core g blk st u s) as [H1 H2].
  destruct (boot_process_sig g blk (st, u) s) as [st1 u1]. cbn [fst] in *.
  destruct (IH st1 u1) as [H3 H4]. split; congruence.
Qed.

Lemma boot_sigpool_core g blk st u :
  core (fst (boot_sigpool g blk (st, u))) = core st /\ delivered (fst (boot_sigpool g blk (st, u))) = delivered st.
Proof. unfold boot_sigpool. cbn [fst]. apply boot_sigpool_core_gen. Qed.

(* every index up to the last block holds a block *)
Lemma binv_block_present st i : binv st -> 0 <= i <= last_block st -> exists b, zget i (blocks st) = Some b.
Proof.
  intros OK Hi. pose proof (b_len st OK) as Hl.
  destruct (nth_error (delivered st) (Z.to_nat i)) as [d|] eqn:Hn.
  - destruct (b_del st OK _ _ Hn) as [_ [b [Hb _]]]. rewrite Z2Nat.id in Hb by lia. eauto.
  - apply nth_error_None in Hn. lia.
Qed.

(* the flag only goes up; while it is down the pass is the ordinary ProcessSigPool; with the guard
   and the block-store invariant it stays down *)
Lemma boot_process_sig_flag g blk st u s :
  (u = true -> snd (boot_process_sig g blk (st, u) s) = true) /\
  (snd (boot_process_sig g blk (st, u) s) = false -> u = false) /\
  (binv st -> (g = true \/ snd (boot_process_sig g blk (st, u) s) = false) ->
   snd (boot_process_sig g blk (st, u) s) = u /\ fst (boot_process_sig g blk (st, u) s) = process_sig st s).
Proof.
  unfold boot_process_sig. rewrite process_sig_as_on_block.
  destruct (g && (last_block st <? bs_index s)) eqn:Eg; cbn [fst snd].
  - split; [auto|]. split; [auto|]. intros OK _. split; [reflexivity|].
    destruct (zget (bs_index s) (blocks st)) as [b|] eqn:Hb; [|reflexivity].
    destruct (b_idx st OK _ _ Hb). lia.
  - destruct (zget (bs_index s) (blocks st)) as [b|] eqn:Hb; cbn [fst snd]; [auto|].
    destruct (zget (bs_index s) blk) as [b|] eqn:Hd; cbn [fst snd]; [|auto].
    split; [auto|]. split; [discriminate|]. intros OK [->|E]; [|discriminate].
    cbn [andb] in Eg. exfalso.
    assert (Hpos : 0 <= bs_index s) by (eapply zget_some_nonneg; eauto).
    destruct (binv_block_present st (bs_index s) OK) as [b' Hb']; [lia|congruence].
Qed.

Lemma boot_sigpool_flag_gen g blk l : forall st u,
  (u = true -> snd (fold_left (boot_process_sig g blk) l (st, u)) = true) /\
  (snd (fold_left (boot_process_sig g blk) l (st, u)) = false -> u = false) /\
  (binv st -> (g = true \/ snd (fold_left (boot_process_sig g blk) l (st, u)) = false) ->
   snd (fold_left (boot_process_sig g blk) l (st, u)) = u /\
   fst (fold_left (boot_process_sig g blk) l (st, u)) = fold_left process_sig l st).
Proof.
  induction l as [|s l IH]; intros st u; cbn [fold_left]; [cbn [fst snd]; auto|].
  destruct (boot_process_sig_flag g blk st u s) as [H1 [H2 H3]].
  destruct (boot_process_sig g blk (st, u) s) as [st1 u1] eqn:E1. cbn [fst snd] in *.
  destruct (IH st1 u1) as [H4 [H5 H6]]. split; [|split].
  - intros E. apply H4, H1, E.
  - intros E. apply H2, H5, E.
  - intros OK Hg.
    assert (Hg1 : g = true \/ u1 = false) by (destruct Hg as [Hg|Hg]; [left; exact Hg|right; apply H5; exact Hg]).
    destruct (H3 OK Hg1) as [Eu Es]. subst u1 st1.
    apply H6; [apply process_sig_binv; exact OK|exact Hg].
Qed.

Lemma boot_sigpool_flag g blk st u :
  (u = true -> snd (boot_sigpool g blk (st, u)) = true) /\
  (snd (boot_sigpool g blk (st, u)) = false -> u = false) /\
  (binv st -> (g = true \/ snd (boot_sigpool g blk (st, u)) = false) ->
   snd (boot_sigpool g blk (st, u)) = u /\ fst (boot_sigpool g blk (st, u)) = process_sigpool st).
Proof. unfold boot_sigpool, process_sigpool. cbn [fst]. apply boot_sigpool_flag_gen. Qed.

(** * The bootstrap loop against the plain run *)

Lemma firstn_skipn_len {A} n (l : list A) : (length (firstn n l) < n)%nat -> skipn n l = [].
Proof.
  intros H. rewrite firstn_length in H. apply skipn_all2. lia.
Qed.

Lemma boot_loop_sim fuel g blk : forall evs st u st',
  (length evs < fuel)%nat -> all_ok st' evs -> simr false st st' ->
  let r := boot_loop fuel g blk st u evs in
  br_ok r = true /\ simr false (br_st r) (run st' evs) /\
  (u = true -> br_db_block r = true) /\
  (binv st -> binv st' -> simr true st st' -> (g = true /\ u = false) \/ br_db_block r = false ->
   br_db_block r = false /\ simr true (br_st r) (run st' evs) /\ binv (br_st r)).
Proof.
  induction fuel as [|f IH]; intros evs st u st' Hlen Hok S; [lia|].
  cbn [boot_loop].
  rewrite <- (firstn_skipn BATCH evs) in Hok. apply all_ok_app in Hok. destruct Hok as [Hok1 Hok2].
  set (batch := firstn BATCH evs) in *. set (rest := skipn BATCH evs) in *.
  assert (Hrun : run st' evs = run (run st' batch) rest) by (rewrite <- run_app; subst batch rest; rewrite firstn_skipn; reflexivity).
  rewrite (boot_insert_all_ok batch st) by (eapply all_ok_simr; [apply simr_sym; exact S|exact Hok1]).
  pose proof (run_simr false batch st st' S) as S1.
  destruct (boot_sigpool_core g blk (run st batch) u) as [C1 _].
  destruct (boot_sigpool_flag g blk (run st batch) u) as [Fl1 [Fl2 Fl3]].
  destruct (boot_sigpool g blk (run st batch, u)) as [s1 u1] eqn:Eb. cbn [fst snd] in *.
  assert (S2 : simr false s1 (run st' batch)).
  { eapply simr_trans; [|exact S1]. split; [exact C1|discriminate]. }
  assert (Fine : binv st -> binv st' -> simr true st st' -> (g = true /\ u = false) \/ u1 = false ->
                 u1 = false /\ simr true s1 (run st' batch) /\ binv s1).
  { intros B B' St Hg. pose proof (run_binv batch st B) as Bb.
    assert (Hg' : g = true \/ u1 = false) by (destruct Hg as [[Hg _]|Hg]; auto).
    destruct (Fl3 Bb Hg') as [Eu ->].
    split; [destruct Hg as [[_ Hu]|Hu]; congruence|].
    split; [|apply process_sigpool_binv; exact Bb].
    eapply simr_trans; [apply simr_sym, process_sigpool_fsim; exact Bb|apply run_simr; exact St]. }
  destruct (length batch <? BATCH)%nat eqn:El.
  - apply Nat.ltb_lt in El. pose proof (firstn_skipn_len BATCH evs El) as Er. fold rest in Er.
    rewrite Hrun, Er. cbn [run fold_left br_ok br_st br_db_block].
    split; [reflexivity|]. split; [exact S2|]. split; [exact Fl1|]. exact Fine.
  - apply Nat.ltb_ge in El.
    assert (Hl : (length rest < f)%nat).
    { subst rest batch. rewrite skipn_length. rewrite firstn_length in El. unfold BATCH in *. lia. }
    destruct (IH rest s1 u1 (run st' batch) Hl Hok2 S2) as [R1 [R2 [R3 R4]]].
    rewrite Hrun. split; [exact R1|]. split; [exact R2|]. split; [intros E; apply R3, Fl1, E|].
    intros B B' St Hg.
    assert (Hg1 : (g = true /\ u = false) \/ u1 = false).
    { destruct Hg as [Hg|Hg]; [left; exact Hg|right].
      destruct u1; [|reflexivity]. rewrite (R3 eq_refl) in Hg. discriminate. }
    destruct (Fine B B' St Hg1) as [F0 [F1 F2]].
    apply R4; auto; [apply run_binv; exact B'|].
    destruct Hg as [[Hg _]|Hg]; [left; auto|right; exact Hg].
Qed.

(** * The database a log prefix denotes *)

Record dbev_ok (d : db) (evs : list event) : Prop := {
  de_nth : forall i e, nth_error evs i = Some e ->
           zget (Z.of_nat i) (db_topo d) = Some (e_id e) /\ zget (e_id e) (db_ev d) = Some e;
  de_end : forall t, Z.of_nat (length evs) <= t -> zget t (db_topo d) = None;
  de_keys : forall x e', zget x (db_ev d) = Some e' -> exists e, In e evs /\ e_id e = x;
  de_pe : length (db_pe d) = length evs
}.

Lemma dbev_empty : dbev_ok db_empty [].
Proof.
  constructor; cbn.
  - intros i e H. destruct i; discriminate.
  - intros t _. apply zget_empty.
  - intros x e' H. rewrite zget_empty in H. discriminate.
  - reflexivity.
Qed.

Lemma db_scan_ok d evs : dbev_ok d evs -> forall rest pre fuel, evs = pre ++ rest -> (length rest < fuel)%nat ->
  db_scan fuel d (Z.of_nat (length pre)) = (rest, true).
Proof.
  intros OK. induction rest as [|e r IH]; intros pre fuel E Hf; (destruct fuel as [|f]; [lia|]); cbn [db_scan].
  - rewrite (de_end d evs OK); [reflexivity|]. rewrite E, app_nil_r. lia.
  - assert (Hn : nth_error evs (length pre) = Some e).
    { rewrite E, nth_error_app2 by lia. rewrite Nat.sub_diag. reflexivity. }
    destruct (de_nth d evs OK _ _ Hn) as [H1 H2]. rewrite H1, H2.
    replace (Z.of_nat (length pre) + 1) with (Z.of_nat (length (pre ++ [e]))) by (rewrite app_length; cbn; lia).
    rewrite (IH (pre ++ [e]) f); [reflexivity| |cbn in Hf; lia].
    rewrite <- app_assoc. exact E.
Qed.

Lemma db_topo_events_ok d evs : dbev_ok d evs -> db_topo_events d = (evs, true).
Proof.
  intros OK. unfold db_topo_events. rewrite (de_pe d evs OK).
  apply (db_scan_ok d evs OK evs [] (S (length evs))); [reflexivity|lia].
Qed.

Definition not_event_write (w : wr) : Prop := match w with WEvent _ _ => False | _ => True end.

Lemma dbev_apply_other d evs w : not_event_write w -> dbev_ok d evs -> dbev_ok (db_apply d w) evs.
Proof.
  intros Hw [H1 H2 H3 H4]. destruct w; cbn in Hw; try contradiction; destruct d; constructor; cbn in *; auto.
Qed.

Lemma dbev_apply_event d evs e : dbev_ok d evs -> 0 <= e_id e -> (forall e', In e' evs -> e_id e' <> e_id e) ->
  dbev_ok (db_apply d (WEvent e (Z.of_nat (length evs)))) (evs ++ [e]).
Proof.
  intros [H1 H2 H3 H4] Hid Hfresh.
  assert (Hn : zget (e_id e) (db_ev d) = None).
  { destruct (zget (e_id e) (db_ev d)) as [e'|] eqn:E; [|reflexivity].
    destruct (H3 _ _ E) as [e0 [Hin Heq]]. exfalso. eapply Hfresh; eauto. }
  unfold db_apply. rewrite Hn. destruct d as [ps ev tp pe blk]; cbn in *.
  constructor; cbn.
  - intros i e0 Hi. destruct (Nat.lt_ge_cases i (length evs)) as [Hlt|Hge].
    + rewrite nth_error_app1 in Hi by exact Hlt. destruct (H1 _ _ Hi) as [A B].
      rewrite zget_zset_other by lia. rewrite zget_zset_other; [auto|].
      intros C. apply (Hfresh e0); [eapply nth_error_In; eauto|auto].
    + rewrite nth_error_app2 in Hi by exact Hge.
      destruct (i - length evs)%nat as [|m] eqn:Em; [|destruct m; discriminate].
      cbn in Hi. inversion Hi; subst e0. assert (i = length evs) by lia. subst i.
      rewrite !zget_zset_same by lia. auto.
  - intros t Ht. rewrite app_length in Ht. cbn in Ht. rewrite zget_zset_other by lia. apply H2. lia.
  - intros x e' Hx. rewrite zget_zset in Hx.
    destruct ((e_id e =? x) && (0 <=? e_id e)) eqn:Ex.
    + exists e. split; [apply in_or_app; right; left; reflexivity|lia].
    + destruct (H3 _ _ Hx) as [e0 [Hin Heq]]. exists e0. split; [apply in_or_app; left; exact Hin|exact Heq].
  - rewrite !app_length. cbn. lia.
Qed.

Lemma dbev_fold_other l : forall d evs, Forall not_event_write l -> dbev_ok d evs -> dbev_ok (fold_left db_apply l d) evs.
Proof.
  induction l as [|w l IH]; intros d evs F OK; cbn [fold_left]; [exact OK|].
  inversion F; subst. apply IH; [assumption|]. apply dbev_apply_other; assumption.
Qed.

Lemma block_writes_not_event st st' : Forall not_event_write (block_writes st st').
Proof.
  unfold block_writes. apply Forall_flat_map. apply Forall_forall. intros i _.
  destruct (zget i (blocks st)), (zget i (blocks st')); try (destruct (block_eqb_sigs _ _)); repeat constructor.
Qed.

Lemma Forall_firstn {A} (P : A -> Prop) n l : Forall P l -> Forall P (firstn n l).
Proof. intros H. revert n. induction H; intros [|n]; cbn; constructor; auto. Qed.

(** effect of an accepted insertion on the topological counter and on the key set *)
Definition link (st : hg) (evs : list event) : Prop :=
  topo st = Z.of_nat (length evs) /\ (forall e, In e evs -> exists es, get_event st (e_id e) = Some es) /\
  (forall x es, get_event st x = Some es -> In (ev_e es) evs).

Lemma frame_back st st' x es' : dag_frame st st' -> get_event st' x = Some es' ->
  exists es, get_event st x = Some es /\ ev_e es = ev_e es'.
Proof. intros F H. exact (proj1 (frame_get_event st st' x F) _ H). Qed.

Lemma frame_keys st st' x : dag_frame st st' -> (exists es, get_event st x = Some es) -> exists es', get_event st' x = Some es'.
Proof. intros F [es H]. destruct (proj2 (frame_get_event st st' x F) _ H) as [es' [H' _]]. eauto. Qed.

Lemma insert_ok_effect all st e s :
  dag_ok st -> from_attempts st all -> ids_determine all -> In e all -> 0 <= e_id e ->
  insert_event st e = (InsOk, s) ->
  topo s = topo st + 1 /\ get_event st (e_id e) = None /\ (exists es, get_event s (e_id e) = Some es) /\
  (forall x, (exists es, get_event st x = Some es) -> exists es', get_event s x = Some es') /\
  (forall x es', get_event s x = Some es' -> ev_e es' = e \/ exists es, get_event st x = Some es /\ ev_e es = ev_e es').
Proof.
  intros OK FA ID Hin Hid E.
  destruct (insert_ok_checks st e s E) as [Hsig [Hsp Hop]].
  pose proof (checked_fresh st e all OK FA ID Hin Hsp) as Hfresh.
  assert (Hcr : 0 <= e_creator e).
  { unfold check_self_parent in Hsp. destruct (zget (e_creator e) (pevents st)) eqn:Hz; [|discriminate].
    eapply zget_some_nonneg; eauto. }
  destruct (dag_ok_store st e OK Hid Hcr Hsig Hsp Hop Hfresh) as [st2 [Hst _]].
  unfold insert_event in E. rewrite Hsig, Hsp, Hop in E. cbn [negb] in E.
  unfold insert_admitted in E. cbv zeta in E. rewrite Hst in E. inversion E; subst s; clear E.
  pose proof (dag_frame_after_store st2 e (fst (init_coords (st <| topo := topo st + 1 |>) e))) as F.
  cbv zeta in F.
  (* st2 *)
  revert Hst. unfold store_set_event. cbn [ev_e e_id e_creator e_index].
  replace (get_event (st <| topo := topo st + 1 |>) (e_id e)) with (get_event st (e_id e)) by (destruct st; reflexivity).
  rewrite Hfresh.
  destruct (zget (e_creator e) (pevents (st <| topo := topo st + 1 |>))); [|discriminate].
  destruct (pidx_set _ _ _); [|discriminate].
  intros Hs; injection Hs as Hs'.
  assert (T2 : topo st2 = topo st + 1) by (rewrite <- Hs'; destruct st; reflexivity).
  assert (G2 : forall x, get_event st2 x = if (e_id e =? x) && (0 <=? e_id e) then
              Some (mkEvst e None None None (fst (init_coords (st <| topo := topo st + 1 |>) e))
                          (snd (init_coords (st <| topo := topo st + 1 |>) e)) (topo st)) else get_event st x).
  { intros x. rewrite <- Hs'. unfold get_event, set_evst. destruct st; cbn. rewrite zget_zset. reflexivity. }
  destruct F as [Fe [Fp Ft]].
  split; [transitivity (topo st2); [exact Ft|exact T2]|]. split; [first [exact Hfresh|reflexivity]|]. split.
  - eapply frame_keys; [split; [exact Fe|split; [exact Fp|exact Ft]]|].
    rewrite G2, Z.eqb_refl. replace (0 <=? e_id e) with true by lia. cbn [andb]. eauto.
  - split.
    + intros x Hx. eapply frame_keys; [split; [exact Fe|split; [exact Fp|exact Ft]]|].
      rewrite G2. destruct ((e_id e =? x) && (0 <=? e_id e)); [eauto|exact Hx].
    + intros x es' Hx.
      destruct (frame_back st2 _ x es' (conj Fe (conj Fp Ft)) Hx) as [es2 [H2 E2]].
      rewrite G2 in H2. destruct ((e_id e =? x) && (0 <=? e_id e)).
      * left. inversion H2; subst es2. rewrite <- E2. reflexivity.
      * right. exists es2. auto.
Qed.

Lemma step_ok_link all st e evs : wf all -> ninv all st -> In e all -> fst (insert_and_run st e) = InsOk ->
  link st evs -> link (step st e) (evs ++ [e]) /\ (forall e', In e' evs -> e_id e' <> e_id e).
Proof.
  intros [ID Pos] [OK FA _] Hin Hok [Lt [Lk Lb]]. unfold step, insert_and_run in *.
  destruct (insert_event st e) as [r s] eqn:E. destruct r; cbn [fst snd] in *; try discriminate.
  destruct (insert_ok_effect all st e s OK FA ID Hin (Pos e Hin) E) as [T [Fr [Hnew [Hold Hback]]]].
  pose proof (run_consensus_frame s) as F.
  split; [split; [|split]|].
  - destruct F as [_ [_ Ft]]. rewrite Ft, T, Lt, app_length. cbn. lia.
  - intros e' He'. apply in_app_or in He'. destruct He' as [He'|[<-|[]]].
    + eapply frame_keys; [exact F|]. apply Hold. apply Lk. exact He'.
    + eapply frame_keys; [exact F|exact Hnew].
  - intros x es' Hx. destruct (frame_back s _ x es' F Hx) as [es1 [H1 E1]]. rewrite <- E1.
    destruct (Hback x es1 H1) as [->|[es0 [H0 E0]]]; apply in_or_app; [right; left; reflexivity|left].
    rewrite <- E0. eapply Lb; eauto.
  - intros e' He' C. destruct (Lk e' He') as [es Hes]. rewrite C in Hes. congruence.
Qed.

Lemma sigpool_link st evs : link st evs -> link (process_sigpool st) evs.
Proof.
  intros [Lt [Lk Lb]]. pose proof (process_sigpool_frame st) as F. split; [|split].
  - destruct F as [_ [_ Ft]]. congruence.
  - intros e He. eapply frame_keys; [exact F|auto].
  - intros x es' Hx. destruct (frame_back st _ x es' F Hx) as [es [H E]]. rewrite <- E. eapply Lb; eauto.
Qed.

Lemma firstn_app_le {A} k (l l' : list A) : (k <= length l)%nat -> firstn k (l ++ l') = firstn k l.
Proof. intros H. rewrite firstn_app. replace (k - length l)%nat with O by lia. cbn. apply app_nil_r. Qed.
Lemma firstn_app_ge {A} k (l l' : list A) : (length l <= k)%nat -> firstn k (l ++ l') = l ++ firstn (k - length l) l'.
Proof. intros H. rewrite firstn_app. rewrite firstn_all2 by exact H. reflexivity. Qed.

(* the database after any number of entries holds exactly the events of the operations that had started *)
Lemma db_prefix all ops : forall st d evs k, wf all -> incl (op_events ops) all -> ninv all st -> link st evs ->
  dbev_ok d evs ->
  dbev_ok (fold_left db_apply (firstn k (concat (op_logs st ops))) d)
          (evs ++ accepted st (firstn (started (op_logs st ops) k) ops)).
Proof.
  induction ops as [|o r IH]; intros st d evs k W I N L OK.
  - cbn. destruct k; cbn; rewrite app_nil_r; exact OK.
  - destruct (incl_op_events_cons _ _ _ I) as [I1 I2].
    pose proof (nstep_ninv all st o W I1 N) as N1.
    cbn [op_logs concat started].
    destruct k as [|k']; [cbn; rewrite app_nil_r; exact OK|].
    set (l := op_log st o).
    destruct (Nat.le_gt_cases (S k') (length l)) as [Hle|Hgt].
    + (* the crash falls inside (or at the end of) this operation *)
      rewrite firstn_app_le by exact Hle.
      replace (S k' - length l)%nat with O by lia.
      assert (Hs0 : started (op_logs (nstep st o) r) 0 = O) by (destruct (op_logs (nstep st o) r); reflexivity).
      rewrite Hs0. change (firstn 1 (o :: r)) with [o].
      subst l. destruct o as [e|]; cbn [op_log] in *.
      * unfold step. destruct (insert_and_run st e) as [res s] eqn:E.
        destruct (ins_result_dec res) as [->|Hrej].
        -- assert (Hok : fst (insert_and_run st e) = InsOk) by (rewrite E; reflexivity).
           rewrite (accepted_cons_ok st e [] Hok). cbn [accepted].
           destruct (step_ok_link all st e evs W N (I1 e eq_refl) Hok L) as [L1 Fr].
           cbn [firstn fold_left]. destruct L as [Lt [Lk Lb]]. rewrite Lt.
           apply dbev_fold_other; [apply Forall_firstn, block_writes_not_event|].
           apply dbev_apply_event; [exact OK|apply (proj2 W), I1; reflexivity|exact Fr].
        -- destruct res; try congruence; cbn in Hle; lia.
      * cbn [accepted]. rewrite app_nil_r.
        apply dbev_fold_other; [apply Forall_firstn, block_writes_not_event|exact OK].
    + (* this operation is completely written *)
      rewrite firstn_app_ge by lia. rewrite fold_left_app.
      subst l. destruct o as [e|]; cbn [op_log nstep] in *.
      * unfold step in *. destruct (insert_and_run st e) as [res s] eqn:E.
        destruct (ins_result_dec res) as [->|Hrej].
        -- assert (Hok : fst (insert_and_run st e) = InsOk) by (rewrite E; reflexivity).
           cbn [firstn]. rewrite (accepted_cons_ok st e _ Hok). unfold step. rewrite E. cbn [snd].
           destruct (step_ok_link all st e evs W N (I1 e eq_refl) Hok L) as [L1 Fr].
           unfold step in L1. rewrite E in L1. cbn [snd] in L1.
           replace (evs ++ e :: accepted s (firstn (started (op_logs s r) (S k' - length (WEvent e (topo st) :: block_writes st s))) r))
             with ((evs ++ [e]) ++ accepted s (firstn (started (op_logs s r) (S k' - length (WEvent e (topo st) :: block_writes st s))) r))
             by (rewrite <- app_assoc; reflexivity).
           apply IH; auto.
           cbn [fold_left]. destruct L as [Lt [Lk Lb]]. rewrite Lt.
           apply dbev_fold_other; [apply block_writes_not_event|].
           apply dbev_apply_event; [exact OK|apply (proj2 W), I1; reflexivity|exact Fr].
        -- assert (Hr : fst (insert_and_run st e) <> InsOk) by (rewrite E; exact Hrej).
           cbn [firstn]. rewrite (accepted_cons_rej st e _ Hr).
           pose proof (reject_noop all st e W N (I1 e eq_refl) Hr) as Hno. unfold step in Hno. rewrite E in Hno. cbn [snd] in Hno.
           unfold step. rewrite E. cbn [snd]. subst s.
           replace (match res with InsOk => WEvent e (topo st) :: block_writes st st | _ => [] end) with (@nil wr)
             by (destruct res; try reflexivity; congruence).
           cbn [fold_left length]. rewrite Nat.sub_0_r. apply IH; auto.
      * cbn [firstn accepted]. apply IH; auto; [apply sigpool_link; exact L|].
        apply dbev_fold_other; [apply block_writes_not_event|exact OK].
Qed.

(** * Putting it together *)

Lemma nrun_link all ops : forall st evs, wf all -> incl (op_events ops) all -> ninv all st -> link st evs ->
  link (nrun st ops) (evs ++ accepted st ops).
Proof.
  induction ops as [|o r IH]; intros st evs W I N L; [cbn; rewrite app_nil_r; exact L|].
  destruct (incl_op_events_cons _ _ _ I) as [I1 I2].
  pose proof (nstep_ninv all st o W I1 N) as N1.
  destruct o as [e|]; cbn [nrun fold_left nstep] in *.
  - destruct (ins_result_dec (fst (insert_and_run st e))) as [Hok|Hrej].
    + rewrite (accepted_cons_ok _ _ _ Hok).
      destruct (step_ok_link all st e evs W N (I1 e eq_refl) Hok L) as [L1 _].
      replace (evs ++ e :: accepted (step st e) r) with ((evs ++ [e]) ++ accepted (step st e) r)
        by (rewrite <- app_assoc; reflexivity).
      apply IH; auto.
    + rewrite (accepted_cons_rej _ _ _ Hrej).
      rewrite (reject_noop all st e W N (I1 e eq_refl) Hrej) in *. apply IH; auto.
  - cbn [accepted]. apply IH; auto. apply sigpool_link. exact L.
Qed.

Lemma set_peerset_peersets_fold ps : forall s,
  peersets (fold_left (fun s p =>
     let s := s <| repertoire := if rep_mem (pkey p) (repertoire s) then repertoire s else repertoire s ++ [p] |> in
     let s := s <| first_rounds := add_first_round (pid p) 0 (first_rounds s) |> in
     if zmem (pkey p) (pevents s) then s else s <| pevents := zset (pkey p) new_pidx (pevents s) |>) ps s) = peersets s.
Proof.
  induction ps as [|p ps IH]; intros s; cbn [fold_left]; [reflexivity|]. rewrite IH. cbv zeta.
  destruct (zmem _ _); destruct s; reflexivity.
Qed.

Lemma init_peersets self_ genesis oracle_ : peersets (init_hg self_ genesis oracle_) = [(0, genesis)].
Proof.
  unfold init_hg, set_peerset. cbn [empty_hg peersets existsb].
  match goal with |- peersets (?s <| validators := _ |> <| oracle := _ |>) = _ => transitivity (peersets s); [destruct s; reflexivity|] end.
  rewrite set_peerset_peersets_fold. reflexivity.
Qed.

Lemma init_set_peerset_refused self_ genesis oracle_ ps : set_peerset (init_hg self_ genesis oracle_) 0 ps = None.
Proof. unfold set_peerset. rewrite init_peersets. reflexivity. Qed.

Lemma init_topo self_ genesis oracle_ : topo (init_hg self_ genesis oracle_) = 0.
Proof.
  unfold init_hg. destruct (set_peerset (empty_hg self_) 0 genesis) as [st|] eqn:S; [|reflexivity].
  pose proof (set_peerset_frame _ _ _ _ S) as [_ [_ Ft]].
  change (topo (st <| validators := genesis |> <| oracle := oracle_ |>)) with (topo st). rewrite Ft. reflexivity.
Qed.

Lemma init_link self_ genesis oracle_ : link (init_hg self_ genesis oracle_) [].
Proof.
  split; [apply init_topo|]. split; [intros e []|].
  intros x es H. exact (n_from [] _ (ninv_init [] self_ genesis oracle_) x es H).
Qed.

Lemma incl_op_events_firstn n ops : incl (op_events (firstn n ops)) (op_events ops).
Proof.
  revert n. induction ops as [|o r IH]; intros [|n]; cbn [firstn]; try (intros e []).
  unfold op_events. cbn [flat_map]. intros e He. apply in_app_or in He. apply in_or_app.
  destruct He as [He|He]; [left; exact He|right; apply (IH n); exact He].
Qed.


(* the crashed database holds exactly the events of the operations that had started *)
Lemma crash_db_ok self_ genesis oracle_ ops k : wf (op_events ops) ->
  dbev_ok (crash_db self_ genesis oracle_ ops k) (pre_events self_ genesis oracle_ ops k).
Proof.
  intros W. unfold crash_db, pre_events, ops_started, node_log, db_of_log.
  destruct k as [|k'].
  { change (0 - 1)%nat with O.
    assert (Hs : started (op_logs (init_hg self_ genesis oracle_) ops) 0 = O)
      by (destruct (op_logs (init_hg self_ genesis oracle_) ops); reflexivity).
    rewrite Hs. cbn [firstn fold_left accepted]. apply dbev_empty. }
  cbn [firstn fold_left]. replace (S k' - 1)%nat with k' by lia.
  apply (db_prefix (op_events ops) ops (init_hg self_ genesis oracle_) _ [] k' W (incl_refl _)
           (ninv_init _ _ _ _) (init_link _ _ _)).
  apply dbev_apply_other; [exact I|apply dbev_empty].
Qed.

Lemma recovered_sim g self_ genesis oracle_ ops k : wf (op_events ops) ->
  let r := recovered_g g self_ genesis oracle_ ops k in
  let pre := pre_state self_ genesis oracle_ ops k in
  br_ok r = true /\ simr false (br_st r) pre /\
  (g = true \/ br_db_block r = false -> br_db_block r = false /\ simr true (br_st r) pre /\ binv (br_st r)).
Proof.
  intros W. cbv zeta. unfold recovered_g, bootstrap.
  pose proof (crash_db_ok self_ genesis oracle_ ops k W) as OK.
  set (d0 := crash_db self_ genesis oracle_ ops k) in *.
  set (evs := pre_events self_ genesis oracle_ ops k) in *.
  assert (OK1 : dbev_ok (restart_db d0 genesis) evs) by (apply dbev_apply_other; [exact I|exact OK]).
  assert (Hps : aget 0 (db_ps (restart_db d0 genesis)) = Some genesis).
  { unfold restart_db, db_apply. destruct d0; cbn. apply aget_aset_same. }
  rewrite Hps, init_set_peerset_refused, (db_topo_events_ok _ _ OK1).
  set (init := init_hg self_ genesis oracle_).
  set (j := ops_started self_ genesis oracle_ ops k).
  assert (Wj : incl (op_events (firstn j ops)) (op_events ops)) by apply incl_op_events_firstn.
  pose proof (ninv_init (op_events ops) self_ genesis oracle_) as N0. fold init in N0.
  assert (Hall : all_ok init evs).
  { apply (all_ok_accepted (op_events ops) (firstn j ops) init init W Wj N0 (simr_refl false init)). }
  destruct (boot_loop_sim (S (length evs)) g (db_blk (restart_db d0 genesis)) evs init false init
              (Nat.lt_succ_diag_r _) Hall (simr_refl false init)) as [R1 [R2 [_ R4]]].
  pose proof (nrun_run_sim (op_events ops) (firstn j ops) init init W Wj N0 (n_binv _ _ N0) (simr_refl true init)) as P.
  fold evs in P. unfold pre_state. fold init j.
  split; [exact R1|]. split.
  - eapply simr_trans; [exact R2|apply simr_sym, simr_weaken; exact P].
  - intros E.
    assert (E' : (g = true /\ false = false) \/
                 br_db_block (boot_loop (S (length evs)) g (db_blk (restart_db d0 genesis)) init false evs) = false)
      by (destruct E as [E|E]; [left; auto|right; exact E]).
    destruct (R4 (n_binv _ _ N0) (n_binv _ _ N0) (simr_refl true init) E') as [R0 [R5 R6]].
    split; [exact R0|]. split; [|exact R6]. eapply simr_trans; [exact R5|apply simr_sym; exact P].
Qed.

(* what the two relations give *)
Lemma simr_components fl a b : simr fl a b ->
  events a = events b /\ pevents a = pevents b /\ rounds a = rounds b /\ repertoire a = repertoire b /\
  self a = self b /\ peersets a = peersets b /\ undetermined a = undetermined b /\ frames a = frames b /\
  last_consensus a = last_consensus b /\ validators a = validators b.
Proof.
  intros S. destruct (simr_inv _ _ _ S) as [x [-> _]].
  rewrite events_wb, pevents_wb, rounds_wb, repertoire_wb, self_wb, peersets_wb, undetermined_wb, frames_wb,
    last_consensus_wb, validators_wb. repeat split.
Qed.

Lemma simr_true_delivered a b : simr true a b -> delivered a = delivered b /\ last_block a = last_block b.
Proof. intros [_ H]. specialize (H eq_refl). unfold fine3 in H. inversion H. auto. Qed.

Lemma dag_ok_core a b : core a = core b -> dag_ok a -> dag_ok b.
Proof.
  intros C. pose proof (core_eq_wb a b C) as E. rewrite E. intros [H1 H2 H3 H4 H5 H6].
  constructor; intros *; rewrite ?get_event_wb, ?pevents_wb; eauto.
Qed.

(** * The theorems of Properties/C11.v *)

Lemma wf_incl all all' : wf all -> incl all' all -> wf all'.
Proof. intros [ID Pos] I. split; [intros e e' H H'; apply ID; auto|intros e H; apply Pos; auto]. Qed.

Lemma pre_ninv self_ genesis oracle_ ops k : wf (op_events ops) ->
  ninv (op_events ops) (pre_state self_ genesis oracle_ ops k) /\
  link (pre_state self_ genesis oracle_ ops k) (pre_events self_ genesis oracle_ ops k).
Proof.
  intros W. unfold pre_state, pre_events. split.
  - apply nrun_ninv; [exact W|apply incl_op_events_firstn|apply ninv_init].
  - apply (nrun_link (op_events ops) _ _ [] W (incl_op_events_firstn _ _) (ninv_init _ _ _ _) (init_link _ _ _)).
Qed.

Theorem recover_ok g self_ genesis oracle_ ops k : wf (op_events ops) ->
  br_ok (recovered_g g self_ genesis oracle_ ops k) = true.
Proof. intros W. apply (recovered_sim g self_ genesis oracle_ ops k W). Qed.

Theorem recover_known_exact g self_ genesis oracle_ ops k : wf (op_events ops) ->
  let r := recovered_g g self_ genesis oracle_ ops k in
  let pre := pre_state self_ genesis oracle_ ops k in
  let d := crash_db self_ genesis oracle_ ops k in
  events (br_st r) = events pre /\ pevents (br_st r) = pevents pre /\ known_events (br_st r) = known_events pre /\
  (forall x es, get_event (br_st r) x = Some es -> zget x (db_ev d) = Some (ev_e es)) /\
  (forall x e, zget x (db_ev d) = Some e -> exists es, get_event (br_st r) x = Some es /\ ev_e es = e).
Proof.
  intros W. cbv zeta.
  destruct (recovered_sim g self_ genesis oracle_ ops k W) as [_ [S _]].
  destruct (simr_components _ _ _ S) as [Ee [Ep _]].
  destruct (pre_ninv self_ genesis oracle_ ops k W) as [N [_ [Lk Lb]]].
  pose proof (crash_db_ok self_ genesis oracle_ ops k W) as OK.
  split; [exact Ee|]. split; [exact Ep|]. split; [unfold known_events; rewrite Ep; reflexivity|].
  assert (G : forall x, get_event (br_st (recovered_g g self_ genesis oracle_ ops k)) x =
                        get_event (pre_state self_ genesis oracle_ ops k) x)
    by (intros x; unfold get_event; rewrite Ee; reflexivity).
  split.
  - intros x es H. rewrite G in H. pose proof (Lb _ _ H) as Hin.
    destruct (In_nth_error _ _ Hin) as [i Hi]. destruct (de_nth _ _ OK _ _ Hi) as [_ H2].
    rewrite (d_id _ (n_dag _ _ N) _ _ H) in H2. exact H2.
  - intros x e H. destruct (de_keys _ _ OK _ _ H) as [e0 [Hin Hid]].
    destruct (Lk _ Hin) as [es Hes]. rewrite Hid in Hes. exists es. split; [rewrite G; exact Hes|].
    pose proof (Lb _ _ Hes) as Hin2. destruct (In_nth_error _ _ Hin2) as [i Hi].
    destruct (de_nth _ _ OK _ _ Hi) as [_ H2]. rewrite (d_id _ (n_dag _ _ N) _ _ Hes) in H2. congruence.
Qed.

Theorem recover_redelivers g self_ genesis oracle_ ops k : wf (op_events ops) ->
  g = true \/ br_db_block (recovered_g g self_ genesis oracle_ ops k) = false ->
  br_db_block (recovered_g g self_ genesis oracle_ ops k) = false /\
  delivered (br_st (recovered_g g self_ genesis oracle_ ops k)) = delivered (pre_state self_ genesis oracle_ ops k) /\
  last_block (br_st (recovered_g g self_ genesis oracle_ ops k)) = last_block (pre_state self_ genesis oracle_ ops k).
Proof.
  intros W E. destruct (recovered_sim g self_ genesis oracle_ ops k W) as [_ [_ F]].
  destruct (F E) as [E0 [S _]]. split; [exact E0|]. apply simr_true_delivered. exact S.
Qed.

(* blocks delivered at any earlier moment of the node's life are an initial segment *)
Lemma nrun_del_ext ops : forall st, binv st -> del_ext st (nrun st ops).
Proof. intros st B. rewrite nrun_hrun. apply hrun_del. exact B. Qed.

Theorem delivered_before_is_prefix self_ genesis oracle_ ops i j : (i <= j)%nat ->
  exists l, delivered (nrun (init_hg self_ genesis oracle_) (firstn j ops)) =
            delivered (nrun (init_hg self_ genesis oracle_) (firstn i ops)) ++ l.
Proof.
  intros Hij.
  assert (E : firstn j ops = firstn i ops ++ skipn i (firstn j ops)).
  { rewrite <- (firstn_skipn i (firstn j ops)) at 1. rewrite firstn_firstn. replace (Nat.min i j) with i by lia. reflexivity. }
  rewrite E, nrun_app. apply nrun_del_ext.
  rewrite nrun_hrun. apply hrun_binv.
Qed.

Theorem run_prefix_delivered st l1 l2 : binv st -> exists l, delivered (run st (l1 ++ l2)) = delivered (run st l1) ++ l.
Proof.
  intros B. rewrite run_app.
  assert (E : forall evs s, run s evs = nrun s (map NInsert evs)).
  { induction evs as [|e r IH]; intros s; cbn; [reflexivity|]. apply IH. }
  rewrite (E l2). apply nrun_del_ext. apply run_binv. exact B.
Qed.

(* a single batch: the database blocks cannot disturb the deliveries *)
Lemma boot_loop_one_batch f g blk st u evs : (length evs < BATCH)%nat -> all_ok st evs ->
  delivered (br_st (boot_loop (S f) g blk st u evs)) = delivered (run st evs).
Proof.
  intros Hl Hok. cbn [boot_loop]. rewrite firstn_all2 by lia.
  rewrite (boot_insert_all_ok evs st Hok).
  destruct (boot_sigpool_core g blk (run st evs) u) as [_ D].
  destruct (boot_sigpool g blk (run st evs, u)) as [s1 u1]. cbn [fst] in D.
  apply Nat.ltb_lt in Hl. rewrite Hl. cbn [br_st]. exact D.
Qed.

Theorem recover_redelivers_one_batch g self_ genesis oracle_ ops k : wf (op_events ops) ->
  (length (pre_events self_ genesis oracle_ ops k) < BATCH)%nat ->
  delivered (br_st (recovered_g g self_ genesis oracle_ ops k)) = delivered (pre_state self_ genesis oracle_ ops k).
Proof.
  intros W Hl. unfold recovered_g, bootstrap.
  pose proof (crash_db_ok self_ genesis oracle_ ops k W) as OK.
  set (d0 := crash_db self_ genesis oracle_ ops k) in *.
  set (evs := pre_events self_ genesis oracle_ ops k) in *.
  assert (OK1 : dbev_ok (restart_db d0 genesis) evs) by (apply dbev_apply_other; [exact I|exact OK]).
  assert (Hps : aget 0 (db_ps (restart_db d0 genesis)) = Some genesis).
  { unfold restart_db, db_apply. destruct d0; cbn. apply aget_aset_same. }
  rewrite Hps, init_set_peerset_refused, (db_topo_events_ok _ _ OK1).
  set (init := init_hg self_ genesis oracle_).
  set (j := ops_started self_ genesis oracle_ ops k).
  assert (Wj : incl (op_events (firstn j ops)) (op_events ops)) by apply incl_op_events_firstn.
  pose proof (ninv_init (op_events ops) self_ genesis oracle_) as N0. fold init in N0.
  assert (Hall : all_ok init evs).
  { apply (all_ok_accepted (op_events ops) (firstn j ops) init init W Wj N0 (simr_refl false init)). }
  rewrite (boot_loop_one_batch _ _ _ _ _ _ Hl Hall).
  pose proof (nrun_run_sim (op_events ops) (firstn j ops) init init W Wj N0 (n_binv _ _ N0) (simr_refl true init)) as P.
  symmetry. apply simr_true_delivered. exact P.
Qed.

Lemma nrun_rep_inv ops : forall st, rep_inv st -> rep_inv (nrun st ops).
Proof.
  induction ops as [|o r IH]; intros st OK; [exact OK|]. cbn [nrun fold_left]. apply IH.
  destruct o; cbn [nstep]; [apply step_rep; exact OK|eapply rep_inv_rview; [apply rview_process_sigpool|exact OK]].
Qed.

(** head and height *)
Theorem recover_head_seq g self_ genesis oracle_ ops k : wf (op_events ops) ->
  let rec := br_st (recovered_g g self_ genesis oracle_ ops k) in
  let evs := pre_events self_ genesis oracle_ ops k in
  (forall e, In e evs -> e_creator e = self rec -> e_index e <= snd (head_seq rec)) /\
  ((head_seq rec = (-1, -1) /\ forall e, In e evs -> e_creator e <> self rec) \/
   exists e, In e evs /\ e_creator e = self rec /\ head_seq rec = (e_id e, e_index e)).
Proof.
  intros W. cbv zeta.
  destruct (recovered_sim g self_ genesis oracle_ ops k W) as [_ [S _]].
  destruct (simr_components _ _ _ S) as [Ee [Ep [_ [Er [Es _]]]]].
  destruct (pre_ninv self_ genesis oracle_ ops k W) as [N [_ [Lk Lb]]].
  set (rec := br_st (recovered_g g self_ genesis oracle_ ops k)) in *.
  set (pre := pre_state self_ genesis oracle_ ops k) in *.
  set (evs := pre_events self_ genesis oracle_ ops k) in *.
  assert (G : forall x, get_event rec x = get_event pre x) by (intros x; unfold get_event; rewrite Ee; reflexivity).
  pose proof (n_dag _ _ N) as OK.
  (* a stored own event sits in the creator's list at its index *)
  assert (Own : forall e, In e evs -> e_creator e = self rec ->
           exists p, zget (self rec) (pevents pre) = Some p /\ 0 <= e_index e /\
                     nth_error (pi_items p) (Z.to_nat (e_index e)) = Some (e_id e)).
  { intros e He Hc. destruct (Lk e He) as [es Hes].
    assert (Ees : ev_e es = e).
    { pose proof (crash_db_ok self_ genesis oracle_ ops k W) as DOK.
      destruct (In_nth_error _ _ He) as [i Hi]. destruct (de_nth _ _ DOK _ _ Hi) as [_ H2].
      pose proof (Lb _ _ Hes) as Hin. destruct (In_nth_error _ _ Hin) as [i' Hi'].
      destruct (de_nth _ _ DOK _ _ Hi') as [_ H2']. rewrite (d_id _ OK _ _ Hes) in H2'. congruence. }
    destruct (d_listed _ OK _ _ Hes) as [p [Hp [Hge Hn]]]. rewrite Ees, Hc in *. eauto. }
  assert (RI : rep_inv pre) by (apply nrun_rep_inv, rep_inv_init).
  unfold head_seq. destruct (rep_mem (self rec) (repertoire rec)) eqn:Hrep.
  2:{ assert (No : forall e, In e evs -> e_creator e <> self rec).
      { intros e He Hc. destruct (Own e He Hc) as [q [Hq _]]. rewrite Er in Hrep. rewrite (RI _ _ Hq) in Hrep. discriminate. }
      split; [intros e He Hc; exfalso; exact (No e He Hc)|left; split; [reflexivity|exact No]]. }
  rewrite Ep.
  destruct (zget (self rec) (pevents pre)) as [p|] eqn:Hp.
  - destruct (d_chain _ OK _ _ Hp) as [Hlast Hch].
    destruct (pidx_last_spec p) as [[Hl Hi]|[l [front [Hl Hi]]]]; rewrite Hl.
    + split.
      * intros e He Hc. destruct (Own e He Hc) as [q [Hq [_ Hn]]]. try rewrite Hp in Hq. inversion Hq; subst q.
        rewrite Hi in Hn. destruct (Z.to_nat (e_index e)); discriminate.
      * left. split; [reflexivity|]. intros e He Hc. destruct (Own e He Hc) as [q [Hq [_ Hn]]].
        try rewrite Hp in Hq. inversion Hq; subst q. rewrite Hi in Hn. destruct (Z.to_nat (e_index e)); discriminate.
    + assert (Hpos : nth_error (pi_items p) (length front) = Some l).
      { rewrite Hi, nth_error_app2 by lia. rewrite Nat.sub_diag. reflexivity. }
      destruct (Hch _ _ Hpos) as [es [Hes [Hcr Hix]]]. rewrite G, Hes. cbn [snd].
      split.
      * intros e He Hc. destruct (Own e He Hc) as [q [Hq [Hge Hn]]]. try rewrite Hp in Hq. inversion Hq; subst q.
        assert (Hlt : (Z.to_nat (e_index e) < length (pi_items p))%nat) by (apply nth_error_Some; congruence).
        rewrite Hi, app_length in Hlt. cbn in Hlt. lia.
      * right. exists (ev_e es). split; [eapply Lb; eauto|]. split; [exact Hcr|].
        rewrite (d_id _ OK _ _ Hes). reflexivity.
  - split.
    + intros e He Hc. destruct (Own e He Hc) as [q [Hq _]]. discriminate.
    + left. split; [reflexivity|]. intros e He Hc. destruct (Own e He Hc) as [q [Hq _]]. discriminate.
Qed.

(** * After the restart: any continuation *)

Lemma nstep_simr fl a b o : simr fl a b -> (fl = true -> binv a /\ binv b) -> simr fl (nstep a o) (nstep b o).
Proof.
  intros S B. destruct o as [e|]; cbn [nstep]; [apply step_simr; exact S|].
  destruct fl.
  - destruct (B eq_refl) as [Ba Bb].
    eapply simr_trans; [apply simr_sym, process_sigpool_fsim; exact Ba|].
    eapply simr_trans; [exact S|apply process_sigpool_fsim; exact Bb].
  - split; [|discriminate]. rewrite !process_sigpool_core. apply S.
Qed.

Lemma nstep_binv st o : binv st -> binv (nstep st o).
Proof. intros B. destruct o; cbn [nstep]; [apply step_binv|apply process_sigpool_binv]; exact B. Qed.

Lemma nrun_simr fl ops : forall a b, simr fl a b -> (fl = true -> binv a /\ binv b) -> simr fl (nrun a ops) (nrun b ops).
Proof.
  induction ops as [|o r IH]; intros a b S B; [exact S|]. cbn [nrun fold_left]. apply IH.
  - apply nstep_simr; assumption.
  - intros E. destruct (B E). split; apply nstep_binv; assumption.
Qed.

(* the recovered node continues exactly as the node that never crashed would have (all components
   but the signature bookkeeping; with it when no database block was consulted), and the admission
   invariant holds along the way *)
Theorem recover_continues g all self_ genesis oracle_ ops k ops' :
  wf all -> incl (op_events ops) all -> incl (op_events ops') all ->
  let rec := br_st (recovered_g g self_ genesis oracle_ ops k) in
  let pre := pre_state self_ genesis oracle_ ops k in
  dag_ok (nrun rec ops') /\ simr false (nrun rec ops') (nrun pre ops') /\
  (g = true \/ br_db_block (recovered_g g self_ genesis oracle_ ops k) = false ->
   delivered (nrun rec ops') = delivered (nrun pre ops') /\ binv (nrun rec ops')).
Proof.
  intros W I I'. cbv zeta.
  pose proof (wf_incl _ _ W I) as W0.
  destruct (recovered_sim g self_ genesis oracle_ ops k W0) as [_ [S F]].
  assert (Npre : ninv all (pre_state self_ genesis oracle_ ops k)).
  { unfold pre_state. apply nrun_ninv; [exact W| |apply ninv_init].
    eapply incl_tran; [apply incl_op_events_firstn|exact I]. }
  pose proof (nrun_ninv all ops' _ W I' Npre) as N'.
  pose proof (nrun_simr false ops' _ _ S (fun E => ltac:(discriminate))) as S'.
  split; [|split; [exact S'|]].
  - eapply dag_ok_core; [symmetry; apply S'|apply (n_dag _ _ N')].
  - intros E. destruct (F E) as [_ [St B]].
    assert (Bp : binv (pre_state self_ genesis oracle_ ops k)) by apply (n_binv _ _ Npre).
    pose proof (nrun_simr true ops' _ _ St (fun _ => conj B Bp)) as St'.
    split; [apply simr_true_delivered; exact St'|].
    clear - B. revert B. generalize (br_st (recovered_g g self_ genesis oracle_ ops k)).
    induction ops' as [|o r IH]; intros s B; [exact B|]. cbn [nrun fold_left]. apply IH, nstep_binv, B.
Qed.

(** * Writes that Bootstrap never sees *)
Definition invisible (d : db) (w : wr) : Prop :=
  match w with
  | WRound _ | WFrame _ => True
  | WEvent e _ => zget (e_id e) (db_ev d) = Some e      (* the record of a written event is rewritten *)
  | WPeerSet r _ => r <> 0
  | WBlock _ => False
  end.

Lemma dbev_apply_rewrite d evs e t : zget (e_id e) (db_ev d) = Some e -> dbev_ok d evs -> dbev_ok (db_apply d (WEvent e t)) evs.
Proof.
  intros Hz [H1 H2 H3 H4]. unfold db_apply. rewrite Hz. destruct d as [ps ev tp pe blk]; cbn in *.
  assert (G : forall x, zget x (zset (e_id e) e ev) = zget x ev).
  { intros x. rewrite zget_zset. destruct (Z.eqb_spec (e_id e) x) as [<-|]; cbn [andb]; [|reflexivity].
    destruct (0 <=? e_id e); [symmetry; exact Hz|reflexivity]. }
  constructor; cbn; auto.
  - intros i e0 Hi. rewrite G. apply H1. exact Hi.
  - intros x e' Hx. rewrite G in Hx. eapply H3; eauto.
Qed.

Theorem bootstrap_ignores g self_ genesis oracle_ d evs w : dbev_ok d evs -> invisible d w ->
  bootstrap g self_ genesis oracle_ (db_apply d w) = bootstrap g self_ genesis oracle_ d.
Proof.
  intros OK Hw.
  assert (OK1 : dbev_ok (restart_db d genesis) evs) by (apply dbev_apply_other; [exact I|exact OK]).
  assert (Hps : forall d', aget 0 (db_ps (restart_db d' genesis)) = Some genesis).
  { intros d'. unfold restart_db, db_apply. destruct d'; cbn. apply aget_aset_same. }
  unfold bootstrap. rewrite !Hps, (db_topo_events_ok _ _ OK1).
  assert (OK2 : dbev_ok (restart_db (db_apply d w) genesis) evs).
  { apply dbev_apply_other; [exact I|]. destruct w; cbn in Hw; try contradiction.
    - apply dbev_apply_other; [exact I|exact OK].
    - apply dbev_apply_rewrite; assumption.
    - exact OK.
    - exact OK. }
  rewrite (db_topo_events_ok _ _ OK2).
  assert (Eb : db_blk (restart_db (db_apply d w) genesis) = db_blk (restart_db d genesis)).
  { destruct w; cbn in Hw; try contradiction; unfold restart_db, db_apply; try (destruct d; reflexivity).
    rewrite Hw. destruct d; reflexivity. }
  rewrite Eb. reflexivity.
Qed.

(** * The in-memory ProcessSigPool and the guard of fix d90db55 *)

(* HgImpl.process_sig has no "index above LastBlockIndex" test: under the block-store invariant the
   test is redundant there (no block is stored above the last block index), so the model of the
   running node need not change with the fix; only the database lookup of Bootstrap is affected *)
Lemma process_sig_guard_redundant st s : binv st ->
  process_sig st s = if last_block st <? bs_index s then st else process_sig st s.
Proof.
  intros OK. destruct (last_block st <? bs_index s) eqn:E; [|reflexivity].
  unfold process_sig. destruct (zget (bs_index s) (blocks st)) as [b|] eqn:Hb; [|reflexivity].
  destruct (b_idx st OK _ _ Hb). lia.
Qed.

(* the code as it stands: unconditional corollaries *)
Theorem recover_redelivers_cur self_ genesis oracle_ ops k : wf (op_events ops) ->
  br_db_block (recovered self_ genesis oracle_ ops k) = false /\
  delivered (br_st (recovered self_ genesis oracle_ ops k)) = delivered (pre_state self_ genesis oracle_ ops k) /\
  last_block (br_st (recovered self_ genesis oracle_ ops k)) = last_block (pre_state self_ genesis oracle_ ops k).
Proof. intros W. exact (recover_redelivers true self_ genesis oracle_ ops k W (or_introl eq_refl)). Qed.

Theorem recover_continues_cur all self_ genesis oracle_ ops k ops' :
  wf all -> incl (op_events ops) all -> incl (op_events ops') all ->
  let rec := br_st (recovered self_ genesis oracle_ ops k) in
  let pre := pre_state self_ genesis oracle_ ops k in
  dag_ok (nrun rec ops') /\ binv (nrun rec ops') /\ simr true (nrun rec ops') (nrun pre ops') /\
  delivered (nrun rec ops') = delivered (nrun pre ops').
Proof.
  intros W I I'. cbv zeta.
  destruct (recover_continues true all self_ genesis oracle_ ops k ops' W I I') as [D [_ F]].
  destruct (F (or_introl eq_refl)) as [E B].
  pose proof (wf_incl _ _ W I) as W0.
  destruct (recovered_sim true self_ genesis oracle_ ops k W0) as [_ [_ G]].
  destruct (G (or_introl eq_refl)) as [_ [St Br]].
  assert (Npre : ninv all (pre_state self_ genesis oracle_ ops k)).
  { unfold pre_state. apply nrun_ninv; [exact W| |apply ninv_init].
    eapply incl_tran; [apply incl_op_events_firstn|exact I]. }
  split; [exact D|]. split; [exact B|]. split; [|exact E].
  apply nrun_simr; [exact St|]. intros _. split; [exact Br|apply (n_binv _ _ Npre)].
Qed.
