(* C11: a concrete history on which Bootstrap with the ProcessSigPool of before fix d90db55 does NOT
   re-deliver the blocks it had delivered (database block lookup during Bootstrap), and the same
   history with the code as it stands.  One validator; event 1 carries a signature of block 105 (a
   block that the replay creates only after the first batch of 100 events). *)
From Coq Require Import ZArith List Bool Lia.
From V Require Import Model.ZMap Model.Quorum Model.HgImpl Model.Recovery Proofs.AdmissionProofs Proofs.RecoveryProofs.
Import ListNotations.
Open Scope Z_scope.

Definition w_genesis : peerset := [mkPeer 100 0].
Definition w_ev (i : Z) : event :=
  mkEvent i 0 i (i - 1) (-1) i true i [i + 1] [] (if i =? 1 then [mkBsig 0 105 105] else []) true.
Definition w_ops (n : nat) : list nop := map (fun i => NInsert (w_ev i)) (zseq 0 n).
Definition w_oracle : list Z := zseq 0 200.

Lemma zseq_in n : forall lo x, In x (zseq lo n) -> lo <= x.
Proof. induction n as [|n IH]; intros lo x H; cbn in H; [contradiction|]. destruct H as [<-|H]; [lia|]. apply IH in H. lia. Qed.

Lemma w_op_events n : op_events (w_ops n) = map w_ev (zseq 0 n).
Proof.
  unfold w_ops, op_events. generalize 0. induction n as [|n IH]; intros lo; cbn; [reflexivity|]. rewrite IH. reflexivity.
Qed.

Lemma w_wf n : wf (op_events (w_ops n)).
Proof.
  rewrite w_op_events. split.
  - intros e e' H H' E. apply in_map_iff in H, H'. destruct H as [i [<- _]], H' as [j [<- _]].
    cbn in E. subst j. reflexivity.
  - intros e H. apply in_map_iff in H. destruct H as [i [<- Hi]]. cbn. apply zseq_in in Hi. exact Hi.
Qed.

(* REGRESSION WITNESS.  ProcessSigPool before fix d90db55 ([recovered_unguarded]): after a clean
   shutdown (the whole log) the blocks re-delivered by Bootstrap carry other indexes *)
Lemma w_unguarded_shifted :
  map b_index (delivered (br_st (recovered_unguarded 0 w_genesis w_oracle (w_ops 115) 1000))) <>
  map b_index (delivered (pre_state 0 w_genesis w_oracle (w_ops 115) 1000)).
Proof. vm_compute. discriminate. Qed.

Lemma w_unguarded_detail :
  br_ok (recovered_unguarded 0 w_genesis w_oracle (w_ops 115) 1000) = true /\
  br_db_block (recovered_unguarded 0 w_genesis w_oracle (w_ops 115) 1000) = true /\
  map b_index (skipn 95 (delivered (br_st (recovered_unguarded 0 w_genesis w_oracle (w_ops 115) 1000)))) =
    [95; 96; 106; 107; 108; 109; 110; 111; 112; 113; 114; 115; 116; 117; 118; 119; 120] /\
  map b_index (skipn 95 (delivered (pre_state 0 w_genesis w_oracle (w_ops 115) 1000))) =
    [95; 96; 97; 98; 99; 100; 101; 102; 103; 104; 105; 106; 107; 108; 109; 110; 111].
Proof. vm_compute. repeat split. Qed.

(* the same history and crash point with the code as it stands: identical re-delivery, the early
   signature of block 105 is attached once the replay has re-created that block *)
Lemma w_guarded_same :
  let r := recovered 0 w_genesis w_oracle (w_ops 115) 1000 in
  br_ok r = true /\ br_db_block r = false /\
  map b_index (skipn 95 (delivered (br_st r))) =
    [95; 96; 97; 98; 99; 100; 101; 102; 103; 104; 105; 106; 107; 108; 109; 110; 111] /\
  option_map b_sigs (zget 105 (blocks (br_st r))) = Some [(0, 105)].
Proof. vm_compute. repeat split. Qed.

(* a crash in the middle of the 52nd operation *)
Lemma w_example :
  let r := recovered 0 w_genesis w_oracle (w_ops 115) 150 in
  ops_started 0 w_genesis w_oracle (w_ops 115) 150 = 52%nat /\
  br_ok r = true /\ br_db_block r = false /\
  length (delivered (br_st r)) = 49%nat /\
  map b_index (delivered (br_st r)) = map b_index (delivered (pre_state 0 w_genesis w_oracle (w_ops 115) 150)) /\
  head_seq (br_st r) = (51, 51) /\ known_events (br_st r) = [(0, 51)].
Proof. vm_compute. repeat split. Qed.
