(* C13 / C02 after a reset (goal 2 of stage 2): the block store and the sequence of commit callbacks
   of a node that fast-forwarded, along every continuation (insertion attempts, ProcessSigPool):
   the blocks delivered after the reset carry the consecutive indexes anchor index + 1, + 2, ... *)
From Coq Require Import ZArith List Bool Lia ZifyBool.
From RecordUpdate Require Import RecordSet.
From V Require Import Model.ZMap Model.Quorum Model.Voting Model.HgImpl Model.HgReset
  Proofs.ZMapFacts Proofs.HgFrames Proofs.HgBlockFrames Proofs.BlockInv Proofs.ResetProofs.
Import ListNotations RecordSetNotations.
Open Scope Z_scope.

(** * The block-store invariant relative to a base index *)

(* [old]: the commit callbacks made before the reset (Reset does not touch that list);
   [base]: the index the next block gets (anchor index + 1) *)
Record binvR (base : Z) (old : list block) (st : hg) : Prop := {
  br_base : 0 <= base;
  br_lb : base - 1 <= last_block st;
  br_idx : forall i b, zget i (blocks st) = Some b -> b_index b = i /\ 0 <= i <= last_block st;
  br_del : exists news, delivered st = old ++ news /\
             Z.of_nat (length news) = last_block st - (base - 1) /\
             forall k d, nth_error news k = Some d ->
               b_index d = base + Z.of_nat k /\
               exists b, zget (base + Z.of_nat k) (blocks st) = Some b /\ b_index b = base + Z.of_nat k
}.

Lemma binvR_bl base old st st' : bl st' = bl st -> binvR base old st -> binvR base old st'.
Proof.
  unfold bl. intros E [H0 H1 H2 H3].
  assert (Eb : blocks st' = blocks st) by congruence.
  assert (El : last_block st' = last_block st) by congruence.
  assert (Ed : delivered st' = delivered st) by congruence.
  constructor; rewrite ?Eb, ?El, ?Ed; auto.
Qed.

Lemma process_frame_binvR base old s f : binvR base old s -> binvR base old (process_frame s f).
Proof.
  intros OK. unfold process_frame. destruct (f_events f) as [|fe rest]; [exact OK|].
  cbv zeta. set (s1 := fold_left add_consensus_event (fe :: rest) s).
  assert (E1 : bl s1 = bl s) by apply add_consensus_events_bl.
  assert (OK1 : binvR base old s1) by (eapply binvR_bl; eauto).
  set (b := block_of_frame (last_block s1 + 1) f s1).
  destruct (block_of_frame_index (last_block s1 + 1) f s1) as [Hi [Hs _]]. fold b in Hi, Hs.
  assert (Hpay : binvR base old (commit (store_set_block s1 b) b)).
  { destruct OK1 as [B0 B1 B2 [news [Dn [Ln Hn]]]].
    destruct (commit_blocks s1 b ltac:(lia) Hs) as [bf [Gb [Gl [Gd [Gi _]]]]].
    constructor; [exact B0|rewrite Gl; lia| |].
    - intros i b0. rewrite Gb, Gl, Hi. destruct (Z.eqb_spec i (last_block s1 + 1)) as [->|Hne].
      + intros H; inversion H; subst b0. split; [congruence|lia].
      + intros H. destruct (B2 i b0 H). split; [auto|lia].
    - exists (news ++ [bf]). split; [rewrite Gd, Dn, app_assoc; reflexivity|]. split; [rewrite app_length, Gl, Hi; cbn [length]; lia|].
      intros k d Hk. destruct (Nat.lt_ge_cases k (length news)) as [Hlt|Hge].
      + rewrite nth_error_app1 in Hk by exact Hlt. destruct (Hn k d Hk) as [A [b0 [Hb0 Ib0]]]. split; [exact A|].
        exists b0. split; [|exact Ib0]. rewrite Gb, Hi. destruct (Z.eqb_spec (base + Z.of_nat k) (last_block s1 + 1)); [lia|exact Hb0].
      + rewrite nth_error_app2 in Hk by exact Hge. destruct (k - length news)%nat as [|j] eqn:Ek; [|destruct j; discriminate].
        cbn in Hk. inversion Hk; subst d. assert (k = length news) by lia. subst k.
        assert (Eidx : base + Z.of_nat (length news) = last_block s1 + 1) by lia.
        split; [rewrite Gi, Hi; lia|]. exists bf. rewrite Gb, Hi, Eidx, Z.eqb_refl. split; [reflexivity|congruence]. }
  destruct (b_txs b), (b_itxs b); auto.
Qed.

Lemma process_sig_binvR base old st s : binvR base old st -> binvR base old (process_sig st s).
Proof.
  intros OK. unfold process_sig.
  destruct (zget (bs_index s) (blocks st)) as [b|] eqn:Hb; [|exact OK].
  destruct (get_peerset st (b_rr b)); [|exact OK].
  destruct (negb (mem_key _ _)); [exact OK|].
  destruct (negb (bs_over s =? b_bodyid b)); [exact OK|].
  cbv zeta.
  set (b' := b <| b_sigs := aset (bs_validator s) (bs_over s) (b_sigs b) |>).
  destruct OK as [B0 B1 B2 [news [Dn [Ln Hn]]]].
  destruct (B2 _ _ Hb) as [Hi Hr].
  assert (Hi' : b_index b' = bs_index s) by (subst b'; destruct b; cbn in *; exact Hi).
  assert (OK1 : binvR base old (store_set_block st b')).
  { assert (Gb : forall i, zget i (blocks (store_set_block st b')) = if i =? bs_index s then Some b' else zget i (blocks st)).
    { intros i. rewrite zget_blocks_store by lia. rewrite Hi'. reflexivity. }
    assert (Gl : last_block (store_set_block st b') = last_block st) by (rewrite last_block_store, Hi'; lia).
    constructor; [exact B0|rewrite Gl; exact B1| |].
    - intros i b0. rewrite Gb, Gl. destruct (Z.eqb_spec i (bs_index s)) as [->|Hne]; [|apply B2].
      intros H; inversion H; subst b0. split; [exact Hi'|exact Hr].
    - exists news. rewrite delivered_store, Gl. split; [exact Dn|split; [exact Ln|]].
      intros k d Hk. destruct (Hn k d Hk) as [A [b0 [Hb0 Ib0]]]. split; [exact A|].
      rewrite Gb. destruct (Z.eqb_spec (base + Z.of_nat k) (bs_index s)) as [E|Hne]; [|exists b0; auto].
      exists b'. split; [reflexivity|]. rewrite Hi'. lia. }
  eapply binvR_bl; [|exact OK1].
  pose proof (set_anchor_block_bl (store_set_block st b') b') as E. unfold bl in *.
  match goal with |- (blocks ?x, _, _) = _ => change (blocks x) with (blocks (set_anchor_block (store_set_block st b') b'));
     change (last_block x) with (last_block (set_anchor_block (store_set_block st b') b'));
     change (delivered x) with (delivered (set_anchor_block (store_set_block st b') b')) end.
  exact E.
Qed.

Lemma process_round_binvR base old s processed stop pr :
  binvR base old s -> binvR base old (fst (fst (process_round (s, processed, stop) pr))).
Proof.
  intros OK. unfold process_round.
  destruct (stop || failed s); [exact OK|].
  destruct (negb (snd pr)); [exact OK|].
  destruct (get_round s (fst pr)); [|cbn [fst]; eapply binvR_bl; [apply fail_bl|exact OK]].
  pose proof (get_frame_bl s (fst pr)) as F.
  destruct (get_frame s (fst pr)) as [[f|] s1]; cbn [fst snd] in *.
  - eapply binvR_bl; [apply bump_last_consensus_bl|]. apply process_frame_binvR. eapply binvR_bl; eauto.
  - eapply binvR_bl; [apply fail_bl|]. eapply binvR_bl; eauto.
Qed.

Lemma process_decided_rounds_binvR base old st : binvR base old st -> binvR base old (process_decided_rounds st).
Proof.
  intros OK. unfold process_decided_rounds.
  assert (G : forall l s p b, binvR base old s -> binvR base old (fst (fst (fold_left process_round l (s, p, b))))).
  { induction l as [|pr rest IH]; intros s p b Hs; cbn [fold_left]; [exact Hs|].
    pose proof (process_round_binvR base old s p b pr Hs) as F.
    destruct (process_round (s, p, b) pr) as [[s' p'] b']. cbn [fst] in F. apply IH. exact F. }
  specialize (G (pending st) st [] false OK).
  destruct (fold_left process_round (pending st) (st, [], false)) as [[s processed] stop]. cbn [fst] in G.
  eapply binvR_bl; [|exact G]. destruct s; reflexivity.
Qed.

Lemma binvR_bview base old st st' : bview st' = bview st -> binvR base old st -> binvR base old st'.
Proof. intros E. apply binvR_bl, bview_bl, E. Qed.

Lemma run_consensus_binvR base old st : binvR base old st -> binvR base old (run_consensus st).
Proof.
  intros OK. unfold run_consensus.
  assert (OK1 : binvR base old (divide_rounds st)) by (eapply binvR_bview; [apply divide_rounds_bview|exact OK]).
  destruct (failed (divide_rounds st)); [exact OK1|].
  assert (OK2 : binvR base old (decide_fame (divide_rounds st))) by (eapply binvR_bview; [apply decide_fame_bview|exact OK1]).
  destruct (failed (decide_fame _)); [exact OK2|].
  assert (OK3 : binvR base old (decide_round_received (decide_fame (divide_rounds st))))
    by (eapply binvR_bview; [apply decide_round_received_bview|exact OK2]).
  destruct (failed (decide_round_received _)); [exact OK3|].
  apply process_decided_rounds_binvR. exact OK3.
Qed.

Lemma hstep_binvR base old st o : binvR base old st -> binvR base old (hstep st o).
Proof.
  intros OK. destruct o as [e|]; cbn [hstep].
  - unfold step, insert_and_run. pose proof (insert_event_bview st e) as E.
    destruct (insert_event st e) as [r s]. cbn [snd] in *.
    assert (OKs : binvR base old s) by (eapply binvR_bview; eauto).
    destruct r; cbn [snd]; auto. apply run_consensus_binvR. exact OKs.
  - unfold process_sigpool. generalize (sigpool st). intros l. revert st OK.
    induction l as [|s l IH]; intros st OK; cbn [fold_left]; [exact OK|]. apply IH. apply process_sig_binvR. exact OK.
Qed.

Lemma hrun_binvR base old ops : forall st, binvR base old st -> binvR base old (hrun st ops).
Proof.
  induction ops as [|o ops IH]; intros st OK; cbn [hrun fold_left]; [exact OK|]. apply IH, hstep_binvR, OK.
Qed.

(** * The reset state satisfies it (no hypothesis on the frame) *)

Lemma reset_blocks v b f cores v1 :
  core_fast_forward v b f cores = (true, v1) ->
  blocks v1 = zset (b_index b) b zempty /\ last_block v1 = Z.max (b_index b) (-1) /\ delivered v1 = delivered v.
Proof.
  unfold core_fast_forward, reset_hg.
  destruct (store_reset (hg_clear v) f) as [[|] s1] eqn:E1; [|discriminate].
  destruct (insert_frame_events s1 (sorted_frame_events cores f) cores) as [[|] s2] eqn:E2; [|discriminate].
  intros H; inversion H; subst v1; clear H.
  pose proof (store_reset_cleared v f s1 E1) as C.
  pose proof (insert_frame_events_nodag cores (sorted_frame_events cores f) s1) as N. rewrite E2 in N. cbn [snd] in N.
  apply nodag_fields in N.
  destruct N as (_ & _ & _ & _ & _ & _ & _ & N8 & N9 & _ & _ & _ & _ & _ & _ & _ & N17 & _).
  unfold reset_finish, store_set_block. cbn [blocks last_block delivered set].
  rewrite N8, N9, N17, (cl_blocks _ _ _ C), (cl_last_block _ _ _ C), (cl_delivered _ _ _ C). auto.
Qed.

Lemma reset_binvR v b f cores v' :
  node_fast_forward v b f cores = (true, v') ->
  binvR (Z.max (b_index b) (-1) + 1) (delivered v) v'.
Proof.
  unfold node_fast_forward. destruct (core_fast_forward v b f cores) as [[|] v1] eqn:E; [|discriminate].
  intros H; inversion H; subst v'; clear H.
  destruct (reset_blocks v b f cores v1 E) as [Eb [El Ed]].
  eapply binvR_bl; [apply process_receipts_bl|].
  constructor; rewrite ?Eb, ?El, ?Ed.
  - lia.
  - lia.
  - intros i b0. rewrite zget_zset. destruct (Z.eqb_spec (b_index b) i) as [<-|Hne]; cbn [andb].
    + destruct (Z.leb_spec 0 (b_index b)) as [Hle|Hlt]; [|rewrite zget_empty; discriminate].
      intros Hz; inversion Hz; subst b0. split; [reflexivity|lia].
    + rewrite zget_empty. discriminate.
  - exists []. rewrite app_nil_r. split; [reflexivity|]. split; [cbn; lia|]. intros k d Hk. destruct k; discriminate.
Qed.

(* C02 after a reset: the k-th block delivered after the fast-forward has index anchor + 1 + k,
   whatever the node was before, whatever the frame, along every continuation *)
Theorem deliveries_after_reset_consecutive v b f cores v' ops :
  node_fast_forward v b f cores = (true, v') ->
  exists news, delivered (hrun v' ops) = delivered v ++ news /\
    last_block (hrun v' ops) = Z.max (b_index b) (-1) + Z.of_nat (length news) /\
    forall k d, nth_error news k = Some d ->
      b_index d = Z.max (b_index b) (-1) + 1 + Z.of_nat k /\
      exists sb, zget (b_index d) (blocks (hrun v' ops)) = Some sb /\ b_index sb = b_index d.
Proof.
  intros H. destruct (hrun_binvR _ _ ops v' (reset_binvR v b f cores v' H)) as [_ _ _ [news [Dn [Ln Hn]]]].
  exists news. split; [exact Dn|]. split; [lia|].
  intros k d Hk. destruct (Hn k d Hk) as [A [sb [Hsb Isb]]]. split; [exact A|]. exists sb. rewrite A. auto.
Qed.
