(* C13 / C07 after a fast-forward: the admission invariant [dag_ok] generalised to the states a node
   reaches after Hashgraph.Reset.  The events inserted by the reset (the frame's root events and
   frame events, set F) are NOT checked by InsertFrameEvent (no signature check, parents possibly
   absent, a creator's RollingIndex starts at the index of its first root event), so they are exempt;
   every event admitted AFTERWARDS is signed, its self-parent is the creator's previous stored event
   with index + 1 (or it is the creator's first event, index 0), its other-parent is stored, and it is
   listed in its creator's index at position (index - first index of the window). *)
From Coq Require Import ZArith List Bool Lia.
From RecordUpdate Require Import RecordSet.
From V Require Import Model.ZMap Model.Quorum Model.HgImpl Model.HgReset
  Proofs.ZMapFacts Proofs.HgFrames Proofs.HgDagFrames Proofs.AdmissionProofs Proofs.BlockInv Proofs.OrderProofs
  Proofs.ResetProofs.
Import ListNotations RecordSetNotations.
Open Scope Z_scope.

(* index of the oldest item of a RollingIndex window *)
Definition firstix (p : pidx) : Z := pi_last p - Z.of_nat (length (pi_items p)) + 1.

Record dag_okR (F : Z -> Prop) (st : hg) : Prop := {
  r_id : forall x es, get_event st x = Some es -> e_id (ev_e es) = x;
  r_F : forall x, F x -> get_event st x <> None;
  r_sig : forall x es, get_event st x = Some es -> ~ F x -> e_sigok (ev_e es) = true;
  r_sp : forall x es, get_event st x = Some es -> ~ F x ->
         (e_sp (ev_e es) = -1 /\ e_index (ev_e es) = 0) \/
         exists ps, get_event st (e_sp (ev_e es)) = Some ps /\
                    e_creator (ev_e ps) = e_creator (ev_e es) /\
                    e_index (ev_e es) = e_index (ev_e ps) + 1;
  r_op : forall x es, get_event st x = Some es -> ~ F x ->
         e_op (ev_e es) = -1 \/ exists po, get_event st (e_op (ev_e es)) = Some po;
  r_chain : forall c p, zget c (pevents st) = Some p ->
         (pi_items p = [] -> pi_last p = -1) /\ 0 <= firstix p /\
         forall i x, nth_error (pi_items p) i = Some x ->
           exists es, get_event st x = Some es /\ e_creator (ev_e es) = c /\
                      e_index (ev_e es) = firstix p + Z.of_nat i;
  r_listed : forall x es, get_event st x = Some es -> ~ F x ->
         exists p, zget (e_creator (ev_e es)) (pevents st) = Some p /\
                   firstix p <= e_index (ev_e es) /\
                   nth_error (pi_items p) (Z.to_nat (e_index (ev_e es) - firstix p)) = Some x
}.

(* the chain clause alone (what the reset establishes) *)
Definition chainR (st : hg) : Prop :=
  forall c p, zget c (pevents st) = Some p ->
    (pi_items p = [] -> pi_last p = -1) /\ 0 <= firstix p /\
    forall i x, nth_error (pi_items p) i = Some x ->
      exists es, get_event st x = Some es /\ e_creator (ev_e es) = c /\
                 e_index (ev_e es) = firstix p + Z.of_nat i.

(** * States with the same event bodies and (up to new empty participants) the same indexes *)
Definition body_eq (E E' : zmap evst) : Prop :=
  forall x, option_map ev_e (zget x E') = option_map ev_e (zget x E).

Lemma body_get st st' x : body_eq (events st) (events st') ->
  (forall es', get_event st' x = Some es' -> exists es, get_event st x = Some es /\ ev_e es = ev_e es') /\
  (forall es, get_event st x = Some es -> exists es', get_event st' x = Some es' /\ ev_e es' = ev_e es).
Proof.
  intros He. specialize (He x). unfold get_event. split.
  - intros es' H'. rewrite H' in He. destruct (zget x (events st)) as [es|]; [|discriminate].
    cbn in He. inversion He. eauto.
  - intros es H. rewrite H in He. destruct (zget x (events st')) as [es'|]; [|discriminate].
    cbn in He. inversion He. eauto.
Qed.

Lemma static_body E E' : ev_static_eq E E' -> body_eq E E'.
Proof.
  intros H x. specialize (H x). destruct (zget x E'), (zget x E); cbn in *; try congruence.
  unfold ev_static in H. inversion H. reflexivity.
Qed.

Lemma dag_okR_static F st st' :
  dag_okR F st -> body_eq (events st) (events st') -> pev_ext (pevents st) (pevents st') -> dag_okR F st'.
Proof.
  intros [Hid HF Hsig Hsp Hop Hch Hl] B Fp.
  assert (Fb : forall x es', get_event st' x = Some es' -> exists es, get_event st x = Some es /\ ev_e es = ev_e es')
    by (intros x; apply (body_get st st' x B)).
  assert (Ff : forall x es, get_event st x = Some es -> exists es', get_event st' x = Some es' /\ ev_e es' = ev_e es)
    by (intros x; apply (body_get st st' x B)).
  constructor.
  - intros x es' H. destruct (Fb _ _ H) as [es [H0 E]]. rewrite <- E. eauto.
  - intros x Hx C. specialize (HF x Hx). destruct (get_event st x) as [es|] eqn:G; [|congruence].
    destruct (Ff _ _ G) as [es' [G' _]]. congruence.
  - intros x es' H NF. destruct (Fb _ _ H) as [es [H0 E]]. rewrite <- E. eauto.
  - intros x es' H NF. destruct (Fb _ _ H) as [es [H0 E]]. rewrite <- E.
    destruct (Hsp _ _ H0 NF) as [?|[ps [Hps [Hc Hi]]]]; [left; auto|right].
    destruct (Ff _ _ Hps) as [ps' [Hps' Eps]]. exists ps'. rewrite Eps. auto.
  - intros x es' H NF. destruct (Fb _ _ H) as [es [H0 E]]. rewrite <- E.
    destruct (Hop _ _ H0 NF) as [?|[po Hpo]]; [left; auto|right].
    destruct (Ff _ _ Hpo) as [po' [Hpo' _]]. eauto.
  - intros c p' Hp'. destruct (Fp c) as [E|[N S]].
    + rewrite E in Hp'. destruct (Hch _ _ Hp') as [Hnil [Hfirst Hnth]]. split; [auto|split; [auto|]].
      intros i x Hi. destruct (Hnth _ _ Hi) as [es [H0 [Hc Hidx]]].
      destruct (Ff _ _ H0) as [es' [H' E']]. exists es'. rewrite E'. auto.
    + rewrite S in Hp'. inversion Hp'; subst. cbn. split; [reflexivity|]. split; [unfold firstix; cbn; lia|].
      intros i x Hi. destruct i; discriminate.
  - intros x es' H NF. destruct (Fb _ _ H) as [es [H0 E]]. rewrite <- E.
    destruct (Hl _ _ H0 NF) as [p [Hp Hrest]]. exists p. split; [|auto].
    destruct (Fp (e_creator (ev_e es))) as [E2|[N _]]; congruence.
Qed.

Lemma dag_okR_frame F st st' : dag_okR F st -> dag_frame st st' -> dag_okR F st'.
Proof. intros OK [A [B _]]. eapply dag_okR_static; [exact OK|apply static_body; exact A|exact B]. Qed.

(** * The per-creator windows only grow at the end *)
Definition grows (s s' : hg) : Prop :=
  forall c p0, zget c (pevents s) = Some p0 ->
    exists p more, zget c (pevents s') = Some p /\ pi_items p = pi_items p0 ++ more /\
                   (pi_items p0 <> [] -> firstix p = firstix p0).

Lemma grows_refl s : grows s s.
Proof. intros c p0 H. exists p0, []. rewrite app_nil_r. auto. Qed.

Lemma grows_trans a b c : grows a b -> grows b c -> grows a c.
Proof.
  intros G1 G2 k p0 H0. destruct (G1 k p0 H0) as [p1 [m1 [H1 [I1 F1]]]].
  destruct (G2 k p1 H1) as [p2 [m2 [H2 [I2 F2]]]].
  exists p2, (m1 ++ m2). split; [exact H2|]. split; [rewrite I2, I1, app_assoc; reflexivity|].
  intros Hne. rewrite F2, F1; auto. rewrite I1. destruct (pi_items p0); [congruence|discriminate].
Qed.

Lemma grows_pevents s s' : pevents s' = pevents s -> grows s s'.
Proof. intros E c p0 H. exists p0, []. rewrite E, app_nil_r. auto. Qed.

Lemma grows_ext s s' : pev_ext (pevents s) (pevents s') -> grows s s'.
Proof.
  intros E c p0 H. exists p0, []. rewrite app_nil_r. split; [|auto].
  destruct (E c) as [Eq|[N _]]; congruence.
Qed.

Lemma grows_frame s s' : dag_frame s s' -> grows s s'.
Proof. intros [_ [B _]]. apply grows_ext. exact B. Qed.

(** * Admission after the reset *)

(* under the invariant a checked event always extends its creator's RollingIndex *)
Lemma checked_extendsR F st e p :
  dag_okR F st -> check_self_parent st e = InsOk -> zget (e_creator e) (pevents st) = Some p ->
  pidx_set p (e_id e) (e_index e) = Some (mkPidx (pi_items p ++ [e_id e]) (e_index e)) /\
  e_index e = firstix p + Z.of_nat (length (pi_items p)) /\
  ((e_sp e = -1 /\ pi_items p = [] /\ e_index e = 0) \/
   exists front spe, pi_items p = front ++ [e_sp e] /\ get_event st (e_sp e) = Some spe /\
                     e_creator (ev_e spe) = e_creator e /\ e_index e = e_index (ev_e spe) + 1).
Proof.
  intros OK Hc Hp. unfold check_self_parent in Hc. rewrite Hp in Hc.
  destruct (r_chain F st OK _ _ Hp) as [Hnil [Hfirst Hnth]].
  destruct (pidx_last_spec p) as [[Hl Hi]|[l [front [Hl Hi]]]]; rewrite Hl in Hc.
  - destruct (e_sp e =? -1) eqn:Esp; [|discriminate]. destruct (e_index e =? 0) eqn:Eidx; [|discriminate].
    apply Z.eqb_eq in Esp, Eidx. specialize (Hnil Hi).
    split; [|split; [unfold firstix; rewrite Hi, Hnil; cbn; lia|left; auto]].
    unfold pidx_set. rewrite Hnil, Eidx, Hi. reflexivity.
  - destruct (e_sp e =? l) eqn:Esp; [|discriminate]. apply Z.eqb_eq in Esp. subst l.
    destruct (get_event st (e_sp e)) as [spe|] eqn:Hspe; [|discriminate].
    destruct (e_index e =? e_index (ev_e spe) + 1) eqn:Eidx; [|discriminate]. apply Z.eqb_eq in Eidx.
    assert (Hpos : nth_error (pi_items p) (length front) = Some (e_sp e)).
    { rewrite Hi. rewrite nth_error_app2 by lia. rewrite Nat.sub_diag. reflexivity. }
    destruct (Hnth _ _ Hpos) as [es [Hes [Hcr Hix]]]. rewrite Hspe in Hes. inversion Hes; subst es.
    assert (Hlen : length (pi_items p) = S (length front)) by (rewrite Hi, app_length; cbn; lia).
    unfold firstix in *. rewrite Hlen in *.
    split; [|split; [lia|right; exists front, spe; auto]].
    unfold pidx_set.
    replace (0 <=? pi_last p) with true by lia.
    replace (pi_last p + 1 <? e_index e) with false by lia.
    replace (pi_last p <? 0) with false by lia.
    replace (e_index e =? pi_last p + 1) with true by lia.
    reflexivity.
Qed.

(* the state right after Store.SetEvent of a checked, fresh event *)
Lemma dag_okR_store F st e :
  dag_okR F st -> 0 <= e_id e -> 0 <= e_creator e ->
  e_sigok e = true -> check_self_parent st e = InsOk -> check_other_parent st e = InsOk ->
  get_event st (e_id e) = None ->
  exists st2, store_set_event (st <| topo := topo st + 1 |>)
                (mkEvst e None None None (fst (init_coords (st <| topo := topo st + 1 |>) e))
                        (snd (init_coords (st <| topo := topo st + 1 |>) e)) (topo st)) = Some st2 /\
              dag_okR F st2 /\ grows st st2.
Proof.
  intros OK Hid Hcr Hsig Hsp Hop Hfresh.
  assert (Hpart : exists p, zget (e_creator e) (pevents st) = Some p).
  { unfold check_self_parent in Hsp. destruct (zget (e_creator e) (pevents st)); [eauto|discriminate]. }
  destruct Hpart as [p Hp].
  destruct (checked_extendsR F st e p OK Hsp Hp) as [Hset [Hidx Hpar]].
  set (st1 := st <| topo := topo st + 1 |>).
  set (es := mkEvst e None None None _ _ _).
  assert (G1 : forall x, get_event st1 x = get_event st x) by (intros; destruct st; reflexivity).
  assert (P1 : pevents st1 = pevents st) by (destruct st; reflexivity).
  unfold store_set_event. change (e_id (ev_e es)) with (e_id e). change (e_creator (ev_e es)) with (e_creator e).
  change (e_index (ev_e es)) with (e_index e).
  rewrite G1, Hfresh, P1, Hp, Hset.
  eexists; split; [reflexivity|].
  set (p' := mkPidx (pi_items p ++ [e_id e]) (e_index e)).
  set (st2 := set_evst _ _ _).
  assert (GE : forall x, get_event st2 x = if x =? e_id e then Some es else get_event st x).
  { intros x. subst st2 st1. unfold get_event, set_evst. destruct st; cbn. rewrite zget_zset.
    rewrite (Z.eqb_sym x). destruct (Z.eqb_spec (e_id e) x); cbn [andb]; [|reflexivity].
    replace (0 <=? e_id e) with true by lia. reflexivity. }
  assert (GP : forall c, zget c (pevents st2) = if c =? e_creator e then Some p' else zget c (pevents st)).
  { intros c. subst st2 st1. unfold set_evst. destruct st; cbn. rewrite zget_zset.
    rewrite (Z.eqb_sym c). destruct (Z.eqb_spec (e_creator e) c); cbn [andb]; [|reflexivity].
    replace (0 <=? e_creator e) with true by lia. reflexivity. }
  assert (Old : forall x es0, get_event st x = Some es0 -> x <> e_id e).
  { intros x es0 H C. subst x. congruence. }
  assert (Hf' : firstix p' = firstix p).
  { subst p'. unfold firstix. cbn [pi_items pi_last]. rewrite app_length. cbn [length]. unfold firstix in Hidx. lia. }
  split.
  2: { intros c p0 H0. rewrite GP. destruct (Z.eqb_spec c (e_creator e)) as [->|Hne].
       - rewrite Hp in H0. inversion H0; subst p0. exists p', [e_id e]. split; [reflexivity|]. split; [reflexivity|auto].
       - exists p0, []. rewrite app_nil_r. auto. }
  constructor.
  - intros x es0. rewrite GE. destruct (Z.eqb_spec x (e_id e)); [intros H; inversion H; subst; reflexivity|apply (r_id F st OK)].
  - intros x Hx. rewrite GE. destruct (Z.eqb_spec x (e_id e)); [discriminate|apply (r_F F st OK); exact Hx].
  - intros x es0. rewrite GE. destruct (Z.eqb_spec x (e_id e)); [intros H; inversion H; subst; intros _; exact Hsig|apply (r_sig F st OK)].
  - intros x es0. rewrite GE. destruct (Z.eqb_spec x (e_id e)) as [->|Hne].
    + intros H _; inversion H; subst es0; clear H. change (ev_e es) with e.
      destruct Hpar as [[Hs [Hnil Hz]]|[front [spe [Hi [Hg [Hc Hx]]]]]].
      * left. split; auto.
      * right. exists spe. rewrite GE. pose proof (Old _ _ Hg) as Hd.
        destruct (Z.eqb_spec (e_sp e) (e_id e)); [contradiction|]. auto.
    + intros H NF. destruct (r_sp F st OK _ _ H NF) as [?|[ps [Hps ?]]]; [left; auto|right].
      exists ps. rewrite GE. pose proof (Old _ _ Hps). destruct (Z.eqb_spec (e_sp (ev_e es0)) (e_id e)); [contradiction|auto].
  - intros x es0. rewrite GE. destruct (Z.eqb_spec x (e_id e)) as [->|Hne].
    + intros H _; inversion H; subst es0; clear H. change (ev_e es) with e.
      unfold check_other_parent in Hop. destruct (e_op e =? -1) eqn:Eo; [left; lia|right].
      destruct (get_event st (e_op e)) as [po|] eqn:Hpo; [|discriminate].
      exists po. rewrite GE. pose proof (Old _ _ Hpo). destruct (Z.eqb_spec (e_op e) (e_id e)); [contradiction|auto].
    + intros H NF. destruct (r_op F st OK _ _ H NF) as [?|[po Hpo]]; [left; auto|right].
      exists po. rewrite GE. pose proof (Old _ _ Hpo). destruct (Z.eqb_spec (e_op (ev_e es0)) (e_id e)); [contradiction|auto].
  - intros c q. rewrite GP. destruct (Z.eqb_spec c (e_creator e)) as [->|Hne].
    + intros H; inversion H; subst q; clear H. rewrite Hf'.
      destruct (r_chain F st OK _ _ Hp) as [Hnil [Hfirst Hnth]].
      split; [subst p'; cbn [pi_items]; intros C; destruct (pi_items p); discriminate|]. split; [exact Hfirst|].
      subst p'. cbn [pi_items].
      intros i x Hi. destruct (Nat.lt_ge_cases i (length (pi_items p))) as [Hlt|Hge].
      * rewrite nth_error_app1 in Hi by auto. destruct (Hnth _ _ Hi) as [es0 [H0 [Hc0 Hi0]]].
        exists es0. rewrite GE. pose proof (Old _ _ H0). destruct (Z.eqb_spec x (e_id e)); [contradiction|auto].
      * rewrite nth_error_app2 in Hi by auto.
        destruct (i - length (pi_items p))%nat as [|k] eqn:Ek; [|destruct k; discriminate].
        cbn in Hi. inversion Hi; subst x. exists es. rewrite GE, Z.eqb_refl.
        split; [auto|split; [reflexivity|]]. change (ev_e es) with e. lia.
    + intros H. destruct (r_chain F st OK _ _ H) as [Hnil [Hfirst Hnth]]. split; [auto|split; [auto|]].
      intros i x Hi. destruct (Hnth _ _ Hi) as [es0 [H0 [Hc0 Hi0]]].
      exists es0. rewrite GE. pose proof (Old _ _ H0). destruct (Z.eqb_spec x (e_id e)); [contradiction|auto].
  - intros x es0. rewrite GE. destruct (Z.eqb_spec x (e_id e)) as [->|Hne].
    + intros H _; inversion H; subst es0; clear H. change (ev_e es) with e.
      exists p'. rewrite GP, Z.eqb_refl. split; [auto|]. rewrite Hf'. split; [lia|].
      subst p'. cbn [pi_items]. replace (Z.to_nat (e_index e - firstix p)) with (length (pi_items p)) by lia.
      rewrite nth_error_app2 by lia. rewrite Nat.sub_diag. reflexivity.
    + intros H NF. destruct (r_listed F st OK _ _ H NF) as [q [Hq [Hge Hn]]].
      rewrite GP. destruct (Z.eqb_spec (e_creator (ev_e es0)) (e_creator e)) as [Ec|Hnc].
      * rewrite Ec in Hq. rewrite Hp in Hq. inversion Hq; subst q. exists p'. rewrite Hf'. split; [auto|split; [auto|]].
        subst p'. cbn [pi_items]. apply nth_error_app1_some. exact Hn.
      * exists q. auto.
Qed.

(* Store.SetEvent of an event that is already stored with the same body (only possible for an event
   of F that is no longer listed): the index is not touched, the body does not change *)
Lemma dag_okR_overwrite F st e es0 es :
  dag_okR F st -> get_event st (e_id e) = Some es0 -> ev_e es0 = e -> ev_e es = e ->
  dag_okR F (set_evst (st <| topo := topo st + 1 |>) (e_id e) es).
Proof.
  intros OK G E0 E1. eapply dag_okR_static; [exact OK| |].
  - intros x. unfold set_evst. destruct st; cbn in *. rewrite zget_zset.
    destruct (Z.eqb_spec (e_id e) x) as [<-|Hne]; cbn [andb]; [|reflexivity].
    destruct (0 <=? e_id e); [|reflexivity]. unfold get_event in G. cbn in G. rewrite G. cbn. congruence.
  - intros c. left. destruct st; reflexivity.
Qed.

Lemma insert_event_invR F st e all r st' :
  dag_okR F st -> from_attempts st all -> ids_determine all -> In e all -> 0 <= e_id e ->
  insert_event st e = (r, st') ->
  dag_okR F st' /\ from_attempts st' all /\ grows st st'.
Proof.
  intros OK FA ID Hin Hid. unfold insert_event.
  destruct (e_sigok e) eqn:Hsig; cbn [negb]; [|intros H; inversion H; subst; split; [assumption|split; [assumption|apply grows_refl]]].
  destruct (check_self_parent st e) eqn:Hsp; try (intros H; inversion H; subst; split; [assumption|split; [assumption|apply grows_refl]]).
  destruct (check_other_parent st e) eqn:Hop; try (intros H; inversion H; subst; split; [assumption|split; [assumption|apply grows_refl]]).
  assert (Hcr : 0 <= e_creator e).
  { unfold check_self_parent in Hsp. destruct (zget (e_creator e) (pevents st)) eqn:Hz; [|discriminate].
    eapply zget_some_nonneg; eauto. }
  unfold insert_admitted. cbv zeta.
  destruct (get_event st (e_id e)) as [es0|] eqn:Hfresh.
  - (* already stored *)
    assert (He : ev_e es0 = e).
    { apply ID; [eapply FA; eauto|auto|]. apply (r_id F st OK _ _ Hfresh). }
    unfold store_set_event. cbn [ev_e].
    replace (get_event (st <| topo := topo st + 1 |>) (e_id e)) with (get_event st (e_id e)) by (destruct st; reflexivity).
    rewrite Hfresh. intros H; inversion H; subst r st'; clear H.
    match goal with |- context [set_evst _ _ ?es] => set (es1 := es) end.
    pose proof (dag_okR_overwrite F st e es0 es1 OK Hfresh He eq_refl) as OK2.
    pose proof (dag_frame_after_store (set_evst (st <| topo := topo st + 1 |>) (e_id e) es1) e
                  (fst (init_coords (st <| topo := topo st + 1 |>) e))) as Fr.
    cbv zeta in Fr.
    split; [eapply dag_okR_frame; eauto|].
    split.
    2: { eapply grows_trans; [|apply grows_frame; exact Fr]. apply grows_pevents. destruct st; reflexivity. }
    eapply from_attempts_frame; [|exact Fr].
    intros x es Hx. revert Hx. unfold get_event, set_evst. destruct st; cbn. rewrite zget_zset.
    destruct ((e_id e =? x) && (0 <=? e_id e)); [intros Hx; inversion Hx; subst; exact Hin|].
    intros Hx. apply (FA x es). exact Hx.
  - destruct (dag_okR_store F st e OK Hid Hcr Hsig Hsp Hop Hfresh) as [st2 [Hst [OK2 Gr2]]].
    rewrite Hst. intros H; inversion H; subst r st'; clear H.
    pose proof (dag_frame_after_store st2 e (fst (init_coords (st <| topo := topo st + 1 |>) e))) as Fr.
    cbv zeta in Fr.
    split; [eapply dag_okR_frame; eauto|].
    split; [|eapply grows_trans; [exact Gr2|apply grows_frame; exact Fr]].
    eapply from_attempts_frame; [|exact Fr].
    intros x es Hx. revert Hst Hx. unfold store_set_event. cbn [ev_e e_id e_creator e_index].
    replace (get_event (st <| topo := topo st + 1 |>) (e_id e)) with (get_event st (e_id e)) by (destruct st; reflexivity).
    rewrite Hfresh.
    destruct (zget (e_creator e) (pevents (st <| topo := topo st + 1 |>))); [|discriminate].
    destruct (pidx_set _ _ _); [|discriminate].
    intros Hs; inversion Hs; subst st2; clear Hs.
    unfold get_event, set_evst. destruct st; cbn. rewrite zget_zset.
    destruct ((e_id e =? x) && (0 <=? e_id e)); [intros Hx; inversion Hx; subst; exact Hin|].
    intros Hx. apply (FA x es). exact Hx.
Qed.

Lemma step_invR F st e all :
  dag_okR F st -> from_attempts st all -> ids_determine all -> In e all -> 0 <= e_id e ->
  dag_okR F (step st e) /\ from_attempts (step st e) all /\ grows st (step st e).
Proof.
  intros OK FA ID Hin Hid. unfold step, insert_and_run.
  destruct (insert_event st e) as [r s] eqn:E.
  destruct (insert_event_invR F st e all r s OK FA ID Hin Hid E) as [OK' [FA' Gr]].
  destruct r; cbn [snd]; auto.
  pose proof (run_consensus_frame s) as Fr.
  split; [eapply dag_okR_frame; eauto|]. split; [eapply from_attempts_frame; eauto|].
  eapply grows_trans; [exact Gr|apply grows_frame; exact Fr].
Qed.

Lemma hstep_invR F st o all :
  ids_determine all -> hop_ok all o -> dag_okR F st -> from_attempts st all ->
  dag_okR F (hstep st o) /\ from_attempts (hstep st o) all /\ grows st (hstep st o).
Proof.
  intros ID Ho OK FA. destruct o as [e|]; cbn [hstep].
  - destruct Ho as [Hin Hid]. apply step_invR; auto.
  - pose proof (process_sigpool_frame st) as Fr.
    split; [eapply dag_okR_frame; eauto|]. split; [eapply from_attempts_frame; eauto|apply grows_frame; exact Fr].
Qed.

Lemma hrun_invR F all : ids_determine all -> forall ops st,
  Forall (hop_ok all) ops -> dag_okR F st -> from_attempts st all ->
  dag_okR F (hrun st ops) /\ from_attempts (hrun st ops) all /\ grows st (hrun st ops).
Proof.
  intros ID. induction ops as [|o ops IH]; intros st Ho OK FA; [split; [assumption|split; [assumption|apply grows_refl]]|].
  apply Forall_cons_iff in Ho. destruct Ho as [Ho Hops].
  destruct (hstep_invR F st o all ID Ho OK FA) as [OK1 [FA1 G1]].
  unfold hrun. cbn [fold_left]. destruct (IH (hstep st o) Hops OK1 FA1) as [OK2 [FA2 G2]].
  split; [exact OK2|]. split; [exact FA2|]. eapply grows_trans; [exact G1|exact G2].
Qed.

(** * The reset establishes the invariant *)

(* InmemStore.Reset leaves every participant with an empty RollingIndex *)
Definition allnew (st : hg) : Prop := forall c p, zget c (pevents st) = Some p -> p = new_pidx.

Lemma allnew_ext st st' : allnew st -> pev_ext (pevents st) (pevents st') -> allnew st'.
Proof.
  intros A E c p Hp. destruct (E c) as [Eq|[_ S]]; [rewrite Eq in Hp; eauto|congruence].
Qed.

Lemma set_peersets_allnew : forall l st s, allnew st -> set_peersets st l = (true, s) -> allnew s.
Proof.
  induction l as [|[r ps] rest IH]; intros st s A H; cbn [set_peersets] in H.
  - inversion H; subst; exact A.
  - destruct (set_peerset st r ps) as [s1|] eqn:E; [|discriminate].
    apply (IH s1 s); [|exact H]. eapply allnew_ext; [exact A|]. apply (set_peerset_frame _ _ _ _ E).
Qed.

Lemma store_reset_allnew st f s : store_reset st f = (true, s) -> allnew s.
Proof.
  unfold store_reset. destruct (set_peersets (store_clear st) (f_peersets f)) as [[|] s1] eqn:E; [|discriminate].
  intros H; inversion H; subst s; clear H.
  assert (A : allnew s1).
  { apply (set_peersets_allnew (f_peersets f) (store_clear st) s1); [|exact E].
    intros c p Hp. exfalso. unfold store_clear in Hp. destruct st; cbn in Hp. rewrite zget_empty in Hp. discriminate. }
  intros c p Hp. apply (A c p). unfold store_set_frame in Hp. destruct s1; exact Hp.
Qed.

Lemma allnew_chainR st : allnew st -> chainR st.
Proof.
  intros A c p Hp. rewrite (A c p Hp). cbn. split; [reflexivity|]. split; [unfold firstix; cbn; lia|].
  intros i x Hi. destruct i; discriminate.
Qed.

Lemma replace_nth_length {A} (v : A) : forall l n, length (replace_nth n v l) = length l.
Proof. induction l as [|a r IH]; intros n; [destruct n; reflexivity|]. destruct n; cbn; [reflexivity|rewrite IH; reflexivity]. Qed.

Lemma replace_nth_nth {A} (v : A) : forall l n i x, nth_error (replace_nth n v l) i = Some x ->
  (i = n /\ x = v) \/ nth_error l i = Some x.
Proof.
  induction l as [|a r IH]; intros n i x H; [destruct n, i; discriminate|].
  destruct n as [|n]; cbn [replace_nth] in H.
  - destruct i; cbn in *; [inversion H; left; auto|right; exact H].
  - destruct i; cbn in *; [right; exact H|]. destruct (IH _ _ _ H) as [[-> ->]|R]; [left; auto|right; exact R].
Qed.

(* one InsertFrameEvent of a fresh event with a non-negative index *)
Lemma chainR_ife st fe e s' :
  chainR st -> ife_post st fe e s' -> 0 <= e_index e -> get_event st (e_id e) = None -> chainR s'.
Proof.
  intros C P Hix Fresh.
  destruct (ip_pev _ _ _ _ P) as [p [p' [Hp [Hset Hpev]]]].
  assert (Hcr : 0 <= e_creator e) by (eapply zget_some_nonneg; eauto).
  assert (Gnew : exists es, get_event s' (e_id e) = Some es /\ ev_e es = e).
  { pose proof (ip_events _ _ _ _ P (e_id e)) as H. rewrite Z.eqb_refl in H. unfold evinfo in H.
    destruct (get_event s' (e_id e)) as [es|]; [|discriminate]. cbn in H. exists es. split; [reflexivity|].
    unfold ev_nofd in H. congruence. }
  assert (Gold : forall y es0, get_event st y = Some es0 -> exists es1, get_event s' y = Some es1 /\ ev_e es1 = ev_e es0).
  { intros y es0 Hy. pose proof (ip_events _ _ _ _ P y) as H.
    destruct (Z.eqb_spec y (e_id e)) as [->|Hne]; [congruence|].
    unfold evinfo in H. rewrite Hy in H. destruct (get_event s' y) as [es1|]; [|discriminate]. cbn in H.
    exists es1. split; [reflexivity|]. unfold ev_nofd in H. congruence. }
  assert (Keep : forall c0 q, (forall i x, nth_error (pi_items q) i = Some x ->
              exists es, get_event st x = Some es /\ e_creator (ev_e es) = c0 /\ e_index (ev_e es) = firstix q + Z.of_nat i) ->
            forall i x, nth_error (pi_items q) i = Some x ->
              exists es, get_event s' x = Some es /\ e_creator (ev_e es) = c0 /\ e_index (ev_e es) = firstix q + Z.of_nat i).
  { intros c0 q D i x Hi. destruct (D _ _ Hi) as [es0 [H0 R]]. destruct (Gold _ _ H0) as [es1 [H1 E1]].
    exists es1. rewrite E1. auto. }
  intros c q Hq. rewrite Hpev, zget_zset in Hq.
  destruct (Z.eqb_spec (e_creator e) c) as [<-|Hne]; cbn [andb] in Hq.
  2: { destruct (C _ _ Hq) as [A [B D]]. split; [auto|split; [auto|]]. apply Keep. exact D. }
  replace (0 <=? e_creator e) with true in Hq by lia. inversion Hq; subst q; clear Hq.
  destruct (C _ _ Hp) as [Hnil [Hfirst Hnth]].
  destruct Gnew as [es [Ges Ee]].
  unfold pidx_set in Hset.
  destruct ((0 <=? pi_last p) && (pi_last p + 1 <? e_index e)) eqn:E1; [discriminate|].
  destruct ((pi_last p <? 0) || (e_index e =? pi_last p + 1)) eqn:E2.
  - inversion Hset; subst p'; clear Hset.
    split; [cbn [pi_items]; intros Cn; destruct (pi_items p); discriminate|].
    destruct (pi_last p <? 0) eqn:E3.
    + (* first event of this creator *)
      assert (Hi0 : pi_items p = []).
      { unfold firstix in Hfirst. destruct (pi_items p); [reflexivity|cbn [length] in Hfirst; lia]. }
      rewrite Hi0. unfold firstix. cbn [pi_items pi_last app length]. split; [lia|].
      intros i x Hi. destruct i as [|i]; [|destruct i; discriminate]. cbn in Hi. inversion Hi; subst x.
      exists es. rewrite Ee. split; [exact Ges|split; [reflexivity|cbn; lia]].
    + cbn [orb] in E2. apply Z.eqb_eq in E2.
      assert (Hf' : firstix (mkPidx (pi_items p ++ [e_id e]) (e_index e)) = firstix p).
      { unfold firstix. cbn [pi_items pi_last]. rewrite app_length. cbn [length]. lia. }
      rewrite Hf'. split; [exact Hfirst|]. cbn [pi_items].
      intros i x Hi. destruct (Nat.lt_ge_cases i (length (pi_items p))) as [Hlt|Hge].
      * rewrite nth_error_app1 in Hi by auto. apply (Keep (e_creator e) p Hnth). exact Hi.
      * rewrite nth_error_app2 in Hi by auto.
        destruct (i - length (pi_items p))%nat as [|k] eqn:Ek; [|destruct k; discriminate].
        cbn in Hi. inversion Hi; subst x. exists es. rewrite Ee.
        split; [exact Ges|split; [reflexivity|]]. unfold firstix. lia.
  - (* an index inside the window: the item at that position is replaced *)
    apply orb_false_iff in E2. destruct E2 as [E3 E4].
    destruct (e_index e <? pi_last p - Z.of_nat (length (pi_items p)) + 1) eqn:E5; [discriminate|].
    inversion Hset; subst p'; clear Hset.
    assert (Hf' : firstix (mkPidx (replace_nth (Z.to_nat (e_index e - (pi_last p - Z.of_nat (length (pi_items p)) + 1))) (e_id e) (pi_items p)) (pi_last p)) = firstix p).
    { unfold firstix. cbn [pi_items pi_last]. rewrite replace_nth_length. reflexivity. }
    rewrite Hf'. cbn [pi_items pi_last].
    split.
    { intros Cn. apply Hnil. apply (f_equal (@length Z)) in Cn. rewrite replace_nth_length in Cn.
      destruct (pi_items p); [reflexivity|discriminate]. }
    split; [exact Hfirst|].
    intros i x Hi. apply replace_nth_nth in Hi. destruct Hi as [[-> ->]|Hi].
    + exists es. rewrite Ee. split; [exact Ges|split; [reflexivity|]]. unfold firstix. lia.
    + apply (Keep (e_creator e) p Hnth). exact Hi.
Qed.

Lemma insert_frame_events_chainR cores v0 : forall todo done s s',
  loop_inv cores v0 done s -> chainR s ->
  NoDup (map fe_id (done ++ todo)) -> Forall (fun fe => 0 <= fe_id fe /\ 0 <= fe_round fe) todo ->
  (forall fe e, In fe todo -> core_of cores (fe_id fe) = Some e -> 0 <= e_index e) ->
  insert_frame_events s todo cores = (true, s') -> chainR s'.
Proof.
  induction todo as [|fe rest IH]; intros done s s' L C ND Pos Ix H; cbn [insert_frame_events] in H.
  - inversion H; subst. exact C.
  - destruct (core_of cores (fe_id fe)) as [e|] eqn:Hc; [|discriminate].
    destruct (insert_frame_event s fe e) as [[|] s1] eqn:E; [|discriminate].
    apply Forall_cons_iff in Pos. destruct Pos as [[P1 P2] Pos].
    assert (Hnew : ~ In (fe_id fe) (map fe_id done)).
    { rewrite map_app in ND. cbn [map] in ND. apply NoDup_remove_2 in ND. intros Cn. apply ND. apply in_app_iff. auto. }
    pose proof (core_of_id _ _ _ Hc) as Eid.
    assert (Fresh : get_event s (e_id e) = None).
    { rewrite Eid. destruct (get_event s (fe_id fe)) eqn:G; [|reflexivity]. exfalso. apply Hnew.
      apply (li_dom _ _ _ _ L). congruence. }
    assert (Hid : 0 <= e_id e) by (rewrite Eid; exact P1).
    pose proof (insert_frame_event_post s fe e s1 (li_w _ _ _ _ L) Hid Eid Fresh E) as P.
    pose proof (chainR_ife s fe e s1 C P (Ix fe e (or_introl eq_refl) Hc) Fresh) as C1.
    pose proof (loop_inv_step cores v0 done s fe e s1 L Hc P1 P2 Hnew E) as L1.
    apply (IH (done ++ [fe]) s1 s' L1 C1); [rewrite <- app_assoc; exact ND|exact Pos| |exact H].
    intros fe' e' Hin. apply Ix. right. exact Hin.
Qed.

(* the bodies shipped with the frame: non-negative indexes, and part of the universe the later
   insertion attempts are drawn from (so that identifiers determine bodies across both) *)
Definition cores_ok (all cores : list event) (f : frame) : Prop :=
  forall fe e, In fe (all_frame_events f) -> core_of cores (fe_id fe) = Some e -> 0 <= e_index e /\ In e all.

Definition frame_ids (f : frame) (x : Z) : Prop := In x (map fe_id (all_frame_events f)).

Theorem reset_dag_okR v b f cores v' all :
  frame_shape f -> cores_ok all cores f -> node_fast_forward v b f cores = (true, v') ->
  dag_okR (frame_ids f) v' /\ from_attempts v' all.
Proof.
  intros FS CO FF. unfold node_fast_forward in FF.
  destruct (core_fast_forward v b f cores) as [[|] v1] eqn:E; [|discriminate].
  inversion FF; subst v'; clear FF.
  pose proof (rp_dag _ _ _ _ _ (reset_hg_post v b f cores v1 FS E)) as L.
  assert (C : chainR v1).
  { destruct FS as [ND Pos Tb]. revert E. unfold core_fast_forward, reset_hg.
    destruct (store_reset (hg_clear v) f) as [[|] s1] eqn:E1; [|discriminate].
    destruct (insert_frame_events s1 (sorted_frame_events cores f) cores) as [[|] s2] eqn:E2; [|discriminate].
    intros H; inversion H; subst v1; clear H.
    pose proof (store_reset_cleared v f s1 E1) as Cl.
    pose proof (rfe_sort_perm cores (all_frame_events f)) as Perm. fold (sorted_frame_events cores f) in Perm.
    assert (ND' : NoDup (map fe_id ([] ++ sorted_frame_events cores f))).
    { cbn [app]. eapply Permutation.Permutation_NoDup; [|exact ND]. apply Permutation.Permutation_map, Permutation.Permutation_sym, Perm. }
    assert (Pos' : Forall (fun fe => 0 <= fe_id fe /\ 0 <= fe_round fe) (sorted_frame_events cores f)).
    { rewrite Forall_forall in *. intros fe Hin. apply Pos. eapply Permutation.Permutation_in; eauto. }
    assert (C2 : chainR s2).
    { apply (insert_frame_events_chainR cores v _ [] s1 s2 (loop_inv_start cores v f s1 Cl)
               (allnew_chainR _ (store_reset_allnew _ _ _ E1)) ND' Pos'); [|exact E2].
      intros fe e Hin Hc. apply (CO fe e); [eapply Permutation.Permutation_in; eauto|exact Hc]. }
    intros c p Hp. unfold reset_finish, store_set_block in Hp.
    assert (Hp2 : zget c (pevents s2) = Some p) by (destruct s2; exact Hp).
    destruct (C2 c p Hp2) as [A [B D]]. split; [exact A|split; [exact B|]].
    intros i x Hi. destruct (D i x Hi) as [es [G R]]. exists es. split; [|exact R].
    unfold reset_finish, store_set_block. destruct s2; exact G. }
  pose proof (rfe_sort_perm cores (all_frame_events f)) as Perm. fold (sorted_frame_events cores f) in Perm.
  assert (Dom : forall y, get_event v1 y <> None <-> frame_ids f y).
  { intros y. rewrite (li_dom _ _ _ _ L y). unfold frame_ids. split; intros Hin.
    - eapply Permutation.Permutation_in; [apply Permutation.Permutation_map; exact Perm|exact Hin].
    - eapply Permutation.Permutation_in; [apply Permutation.Permutation_map, Permutation.Permutation_sym; exact Perm|exact Hin]. }
  assert (Rec : forall y es, get_event v1 y = Some es -> e_id (ev_e es) = y /\ In (ev_e es) all).
  { intros y es Hy. assert (Hin : In y (map fe_id (sorted_frame_events cores f))) by (apply (li_dom _ _ _ _ L); congruence).
    apply in_map_iff in Hin. destruct Hin as [fe [<- Hfe]].
    destruct (li_rec _ _ _ _ L fe Hfe) as [e [la [t [Hc Hi]]]].
    unfold evinfo in Hi. rewrite Hy in Hi. cbn in Hi. unfold ev_nofd in Hi.
    assert (Ee : ev_e es = e) by congruence. rewrite Ee.
    split; [apply (core_of_id _ _ _ Hc)|].
    apply (CO fe e); [eapply Permutation.Permutation_in; eauto|exact Hc]. }
  assert (OK1 : dag_okR (frame_ids f) v1).
  { constructor.
    - intros x es H. apply (Rec x es H).
    - intros x Hx. apply Dom. exact Hx.
    - intros x es H NF. exfalso. apply NF, Dom. congruence.
    - intros x es H NF. exfalso. apply NF, Dom. congruence.
    - intros x es H NF. exfalso. apply NF, Dom. congruence.
    - exact C.
    - intros x es H NF. exfalso. apply NF, Dom. congruence. }
  assert (FA1 : from_attempts v1 all) by (intros x es H; apply (Rec x es H)).
  pose proof (process_receipts_frame v1 (b_rr b) (b_itxs b)) as Fr.
  split; [eapply dag_okR_frame; eauto|eapply from_attempts_frame; eauto].
Qed.

(** * C07 after a fast-forward *)
Theorem admitted_after_reset v b f cores v' all ops :
  frame_shape f -> cores_ok all cores f -> ids_determine all -> Forall (hop_ok all) ops ->
  node_fast_forward v b f cores = (true, v') ->
  dag_okR (frame_ids f) (hrun v' ops) /\ from_attempts (hrun v' ops) all /\ grows v' (hrun v' ops).
Proof.
  intros FS CO ID Ho FF. destruct (reset_dag_okR v b f cores v' all FS CO FF) as [OK FA].
  apply (hrun_invR (frame_ids f) all ID ops v' Ho OK FA).
Qed.

(* what a node with an application answers to a fast-forward request satisfies [cores_ok] *)
Lemma served_cores_ok all st f : dag_ok st -> from_attempts st all -> cores_ok all (frame_cores st f) f.
Proof.
  intros OK FA fe e _ Hc. unfold core_of in Hc. apply find_some in Hc. destruct Hc as [Hin _].
  unfold frame_cores in Hin. apply in_flat_map in Hin. destruct Hin as [fe' [_ Hin]].
  destruct (get_event st (fe_id fe')) as [es|] eqn:G; [|destruct Hin].
  destruct Hin as [<-|[]].
  destruct (d_listed st OK _ _ G) as [p [_ [Hge _]]]. split; [exact Hge|]. apply (FA _ _ G).
Qed.

(** * Consequences, event by event *)

(* an event admitted after the reset *)
Lemma dag_okR_event F st x es : dag_okR F st -> get_event st x = Some es -> ~ F x ->
  e_id (ev_e es) = x /\ e_sigok (ev_e es) = true /\
  ((e_sp (ev_e es) = -1 /\ e_index (ev_e es) = 0) \/
   exists ps, get_event st (e_sp (ev_e es)) = Some ps /\ e_creator (ev_e ps) = e_creator (ev_e es) /\
              e_index (ev_e es) = e_index (ev_e ps) + 1) /\
  (e_op (ev_e es) = -1 \/ exists po, get_event st (e_op (ev_e es)) = Some po) /\
  exists p, zget (e_creator (ev_e es)) (pevents st) = Some p /\ 0 <= firstix p <= e_index (ev_e es) /\
            nth_error (pi_items p) (Z.to_nat (e_index (ev_e es) - firstix p)) = Some x.
Proof.
  intros OK H NF. split; [apply (r_id F st OK _ _ H)|]. split; [apply (r_sig F st OK _ _ H NF)|].
  split; [apply (r_sp F st OK _ _ H NF)|]. split; [apply (r_op F st OK _ _ H NF)|].
  destruct (r_listed F st OK _ _ H NF) as [p [Hp [Hge Hn]]]. exists p. split; [exact Hp|]. split; [|exact Hn].
  destruct (r_chain F st OK _ _ Hp) as [_ [Hf _]]. lia.
Qed.

(* no fork and no gap among the events admitted after the reset: two of them by one creator with one
   index are the same event; below each of them every index down to the window's first is occupied by
   a stored event of that creator *)
Lemma dag_okR_no_fork F st x y ex ey : dag_okR F st ->
  get_event st x = Some ex -> get_event st y = Some ey -> ~ F x -> ~ F y ->
  e_creator (ev_e ex) = e_creator (ev_e ey) -> e_index (ev_e ex) = e_index (ev_e ey) -> x = y.
Proof.
  intros OK Hx Hy Nx Ny Ec Ei.
  destruct (r_listed F st OK _ _ Hx Nx) as [p [Hp [_ Hn]]].
  destruct (r_listed F st OK _ _ Hy Ny) as [q [Hq [_ Hm]]].
  rewrite Ec in Hp. rewrite Hp in Hq. inversion Hq; subst q. rewrite Ei in Hn. congruence.
Qed.

Lemma dag_okR_gap_free F st x ex i : dag_okR F st -> get_event st x = Some ex -> ~ F x ->
  forall p, zget (e_creator (ev_e ex)) (pevents st) = Some p -> firstix p <= i <= e_index (ev_e ex) ->
  exists y ey, get_event st y = Some ey /\ e_creator (ev_e ey) = e_creator (ev_e ex) /\ e_index (ev_e ey) = i.
Proof.
  intros OK Hx Nx p Hp Hi.
  destruct (r_listed F st OK _ _ Hx Nx) as [q [Hq [Hge Hn]]]. rewrite Hp in Hq. inversion Hq; subst q.
  assert (Hlt : (Z.to_nat (i - firstix p) < length (pi_items p))%nat).
  { assert ((Z.to_nat (e_index (ev_e ex) - firstix p) < length (pi_items p))%nat) by (apply nth_error_Some; congruence). lia. }
  destruct (nth_error (pi_items p) (Z.to_nat (i - firstix p))) as [y|] eqn:Hy; [|apply nth_error_None in Hy; lia].
  destruct (r_chain F st OK _ _ Hp) as [_ [_ Hnth]]. destruct (Hnth _ _ Hy) as [ey [Hey [Hc Hix]]].
  exists y, ey. split; [exact Hey|split; [exact Hc|lia]].
Qed.

(** * The statements of Properties/C13.v *)
Theorem admitted_after_reset_event v b f cores v' all ops :
  frame_shape f -> cores_ok all cores f -> ids_determine all -> Forall (hop_ok all) ops ->
  node_fast_forward v b f cores = (true, v') ->
  forall x es, get_event (hrun v' ops) x = Some es -> ~ In x (map fe_id (all_frame_events f)) ->
    In (ev_e es) all /\ e_id (ev_e es) = x /\ e_sigok (ev_e es) = true /\
    ((e_sp (ev_e es) = -1 /\ e_index (ev_e es) = 0) \/
     exists ps, get_event (hrun v' ops) (e_sp (ev_e es)) = Some ps /\ e_creator (ev_e ps) = e_creator (ev_e es) /\
                e_index (ev_e es) = e_index (ev_e ps) + 1) /\
    (e_op (ev_e es) = -1 \/ exists po, get_event (hrun v' ops) (e_op (ev_e es)) = Some po) /\
    exists p, zget (e_creator (ev_e es)) (pevents (hrun v' ops)) = Some p /\ 0 <= firstix p <= e_index (ev_e es) /\
              nth_error (pi_items p) (Z.to_nat (e_index (ev_e es) - firstix p)) = Some x.
Proof.
  intros FS CO ID Ho FF x es Hx NF.
  destruct (admitted_after_reset v b f cores v' all ops FS CO ID Ho FF) as [OK [FA _]].
  split; [apply (FA _ _ Hx)|]. apply (dag_okR_event (frame_ids f) _ x es OK Hx NF).
Qed.

Theorem admitted_after_reset_windows v b f cores v' all ops :
  frame_shape f -> cores_ok all cores f -> ids_determine all -> Forall (hop_ok all) ops ->
  node_fast_forward v b f cores = (true, v') ->
  (forall c p, zget c (pevents (hrun v' ops)) = Some p ->
     (pi_items p = [] -> pi_last p = -1) /\ 0 <= firstix p /\
     forall i x, nth_error (pi_items p) i = Some x ->
       exists es, get_event (hrun v' ops) x = Some es /\ e_creator (ev_e es) = c /\
                  e_index (ev_e es) = firstix p + Z.of_nat i) /\
  (forall c p0, zget c (pevents v') = Some p0 ->
     exists p more, zget c (pevents (hrun v' ops)) = Some p /\ pi_items p = pi_items p0 ++ more /\
                    (pi_items p0 <> [] -> firstix p = firstix p0)).
Proof.
  intros FS CO ID Ho FF.
  destruct (admitted_after_reset v b f cores v' all ops FS CO ID Ho FF) as [OK [_ G]].
  split; [apply (r_chain _ _ OK)|exact G].
Qed.

Theorem admitted_after_reset_no_fork v b f cores v' all ops :
  frame_shape f -> cores_ok all cores f -> ids_determine all -> Forall (hop_ok all) ops ->
  node_fast_forward v b f cores = (true, v') ->
  forall x y ex ey, get_event (hrun v' ops) x = Some ex -> get_event (hrun v' ops) y = Some ey ->
    ~ In x (map fe_id (all_frame_events f)) -> ~ In y (map fe_id (all_frame_events f)) ->
    e_creator (ev_e ex) = e_creator (ev_e ey) -> e_index (ev_e ex) = e_index (ev_e ey) -> x = y.
Proof.
  intros FS CO ID Ho FF x y ex ey Hx Hy Nx Ny.
  destruct (admitted_after_reset v b f cores v' all ops FS CO ID Ho FF) as [OK _].
  apply (dag_okR_no_fork (frame_ids f) _ x y ex ey OK Hx Hy Nx Ny).
Qed.
