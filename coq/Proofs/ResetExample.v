(* C13: a decision procedure for the hypotheses of the continuity theorems ([roots_sufficient]
   included), with its soundness proof, so that they can be shown satisfiable on a real history
   (Proofs/ResetWitnessOk.v: a fast-forward after which the reset node inserts events without any
   divergence). *)
From Coq Require Import ZArith List Bool Lia.
From V Require Import Model.ZMap Model.Quorum Model.HgImpl Model.HgReset
  Proofs.ZMapFacts Proofs.BlockInv Proofs.ResetProofs Proofs.ResetRound Proofs.ResetWitnessOk.
Import ListNotations.
Open Scope Z_scope.

Definition is_some {A} (o : option A) : bool := match o with Some _ => true | None => false end.
Definition obool_eqb (a b : option bool) : bool :=
  match a, b with Some x, Some y => Bool.eqb x y | None, None => true | _, _ => false end.
Definition memz (w : Z) (l : list Z) : bool := existsb (Z.eqb w) l.

Lemma memz_In w l : memz w l = true <-> In w l.
Proof.
  unfold memz. rewrite existsb_exists. split; [intros [x [H E]]; apply Z.eqb_eq in E; subst; exact H|].
  intros H. exists w. split; [exact H|apply Z.eqb_refl].
Qed.
Lemma obool_eqb_eq a b : obool_eqb a b = true -> a = b.
Proof. destruct a as [[|]|], b as [[|]|]; cbn; congruence. Qed.

Definition roots_sufficientb (v s : hg) (y pr : Z) (pps : peerset) : bool :=
  Bool.eqb (is_some (get_round v pr)) (is_some (get_round s pr)) &&
  nodupb (round_witnesses_at v pr) && nodupb (round_witnesses_at s pr) &&
  forallb (fun w => is_some (strongly_see v y w pps)) (round_witnesses_at v pr) &&
  forallb (fun w => is_some (strongly_see s y w pps)) (round_witnesses_at s pr) &&
  forallb (fun w => implb (ss_true s y pps w) (memz w (round_witnesses_at v pr))) (round_witnesses_at s pr) &&
  forallb (fun w => memz w (round_witnesses_at s pr)) (round_witnesses_at v pr) &&
  forallb (fun w => obool_eqb (strongly_see v y w pps) (strongly_see s y w pps)) (round_witnesses_at v pr).

Lemma roots_sufficientb_sound v s y pr pps : roots_sufficientb v s y pr pps = true -> roots_sufficient v s y pr pps.
Proof.
  unfold roots_sufficientb. intros H.
  repeat (apply andb_prop in H; let H' := fresh "H" in destruct H as [H H']).
  rewrite forallb_forall in *.
  constructor.
  - apply Bool.eqb_prop in H. destruct (get_round v pr), (get_round s pr); cbn in H; split; congruence.
  - apply nodupb_sound; assumption.
  - apply nodupb_sound; assumption.
  - intros w Hw C. match goal with Hx : forall x, In x (round_witnesses_at v pr) -> is_some _ = true |- _ => specialize (Hx w Hw); rewrite C in Hx; discriminate end.
  - intros w Hw C. match goal with Hx : forall x, In x (round_witnesses_at s pr) -> is_some _ = true |- _ => specialize (Hx w Hw); rewrite C in Hx; discriminate end.
  - intros w Hw Hs. match goal with Hx : forall x, In x (round_witnesses_at s pr) -> implb _ _ = true |- _ => specialize (Hx w Hw) end.
    unfold ss_true in *. rewrite Hs in *. cbn in *. apply memz_In. assumption.
  - intros w Hw. apply memz_In. auto.
  - intros w Hw. apply obool_eqb_eq. auto.
Qed.

(** the example states: the reset node and a full-history node, each right after InsertEvent of the
    first event the reset node receives after its reset (before DivideRounds) *)
Definition ro_v1 : option hg :=
  reset_from (hrun (init_hg ro_victim_self ro_genesis ro_victim_oracle) ro_victim_ops_before)
             (hrun (init_hg ro_server_self ro_genesis ro_server_oracle) ro_server_ops).
Definition ro_v : hg := match ro_v1 with Some v1 => snd (insert_event v1 ro_event) | None => empty_hg 0 end.
Definition ro_s : hg := snd (insert_event (hrun (init_hg ro_full_self ro_genesis ro_full_oracle) ro_full_ops_before_event) ro_event).
