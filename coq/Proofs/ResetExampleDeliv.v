(* C13: the premises of [after_reset_served] are satisfiable, and its conclusion is not vacuous:
   Proofs/ResetWitnessDeliv.v is a history of real node.core objects (harness/cmd/resetwit
   -searchok -mindeliv 2; corpus/C13-after-reset-example.trace) in which node 3 fast-forwards from
   node 2 and then delivers two more blocks. *)
From Coq Require Import ZArith List Bool Lia.
From V Require Import Model.ZMap Model.Quorum Model.HgImpl Model.HgReset
  Proofs.ZMapFacts Proofs.BlockInv Proofs.AdmissionProofs Proofs.OrderProofs Proofs.Agreement Proofs.Static
  Proofs.ResetProofs Proofs.ResetWitnessDeliv.
Import ListNotations.
Open Scope Z_scope.

Definition rd_server : hg := hrun (init_hg rd_server_self rd_genesis rd_server_oracle) rd_server_ops.
Definition rd_v0 : hg := hrun (init_hg rd_victim_self rd_genesis rd_victim_oracle) rd_victim_ops_before.

Ltac in_list := repeat first [apply in_eq | apply in_cons].
Ltac hops_ok := repeat (apply Forall_cons; [first [exact I | split; [in_list | vm_compute; discriminate]]|]); apply Forall_nil.

Lemma rd_premises : ids_determine rd_all /\ no_accept rd_all /\ Forall (hop_ok rd_all) rd_server_ops /\
  rd_server_self <> -1.
Proof.
  split; [apply ids_determine_distinct; vm_compute; reflexivity|].
  split; [apply no_acceptb_sound; vm_compute; reflexivity|].
  split; [unfold rd_server_ops, rd_all; hops_ok|].
  vm_compute. discriminate.
Qed.

(* what the model computes on a history: the anchor's index and round received, the fast-forward's
   verdict, (index, round received) of the deliveries right after the reset and after the further
   operations *)
Definition ff_summary (ans : option (block * frame * list event) * hg) (v0 : hg) (ops : list hop)
  : option (bool * Z * Z * list (Z * Z) * list (Z * Z)) :=
  match fst ans with
  | Some (b, f, cores) =>
    let '(ok, v') := node_fast_forward v0 b f cores in
    Some (ok, b_index b, b_rr b, map (fun d => (b_index d, b_rr d)) (delivered v'),
          map (fun d => (b_index d, b_rr d)) (delivered (hrun v' ops)))
  | None => None
  end.

Lemma ff_summary_elim ans v0 ops i r d1 d2 : ff_summary ans v0 ops = Some (true, i, r, d1, d2) ->
  exists b f cores s' v', ans = (Some (b, f, cores), s') /\
    node_fast_forward v0 b f cores = (true, v') /\ b_index b = i /\ b_rr b = r /\
    map (fun d => (b_index d, b_rr d)) (delivered v') = d1 /\
    map (fun d => (b_index d, b_rr d)) (delivered (hrun v' ops)) = d2.
Proof.
  unfold ff_summary. destruct ans as [[[[b f] cores]|] s']; cbn [fst]; [|discriminate].
  destruct (node_fast_forward v0 b f cores) as [ok v'] eqn:FF. intros H.
  injection H as H1 H2 H3 H4 H5. subst ok.
  exists b, f, cores, s', v'. split; [reflexivity|]. split; [exact FF|].
  split; [exact H2|]. split; [exact H3|]. split; [exact H4|exact H5].
Qed.

(* on the example: anchor (index 0, round received 1), a successful fast-forward, no deliveries at
   the moment of the reset, two deliveries afterwards with (index, round received) = (1, 2), (2, 3) *)
Definition rd_summary := ff_summary (anchor_block_with_frame rd_server) rd_v0 rd_victim_ops_after.

Lemma rd_summary_value : rd_summary = Some (true, 0, 1, [], [(1, 2); (2, 3)]).
Proof. vm_compute. reflexivity. Qed.

Lemma rd_example : exists b f cores s' v',
  anchor_block_with_frame rd_server = (Some (b, f, cores), s') /\
  node_fast_forward rd_v0 b f cores = (true, v') /\
  b_index b = 0 /\ b_rr b = 1 /\
  map (fun d => (b_index d, b_rr d)) (delivered v') = [] /\
  map (fun d => (b_index d, b_rr d)) (delivered (hrun v' rd_victim_ops_after)) = [(1, 2); (2, 3)].
Proof. apply ff_summary_elim. vm_compute. reflexivity. Qed.

Lemma rd_nonvacuous :
  (ids_determine rd_all /\ no_accept rd_all /\ Forall (hop_ok rd_all) rd_server_ops /\ rd_server_self <> -1) /\
  exists b f cores s' v',
    anchor_block_with_frame rd_server = (Some (b, f, cores), s') /\
    node_fast_forward rd_v0 b f cores = (true, v') /\
    b_index b = 0 /\ b_rr b = 1 /\
    map (fun d => (b_index d, b_rr d)) (delivered v') = [] /\
    map (fun d => (b_index d, b_rr d)) (delivered (hrun v' rd_victim_ops_after)) = [(1, 2); (2, 3)].
Proof. exact (conj rd_premises rd_example). Qed.

(** the C07 part on the same history: the operations of the reset node are drawn from the same
    universe, and event 24 (created by the reset node itself after the reset, self-parent 23) is
    stored at the end and is not one of the frame's events, so the clauses of [dag_okR] about the
    events admitted after the reset speak about something *)
Lemma rd_victim_ops_ok : Forall (hop_ok rd_all) rd_victim_ops_after.
Proof. unfold rd_victim_ops_after, rd_all. hops_ok. Qed.

Definition ff_admitted (ans : option (block * frame * list event) * hg) (v0 : hg) (ops : list hop) (x : Z)
  : option (bool * bool * bool) :=
  match fst ans with
  | Some (b, f, cores) =>
    let '(ok, v') := node_fast_forward v0 b f cores in
    Some (ok, match get_event (hrun v' ops) x with Some _ => true | None => false end,
          existsb (Z.eqb x) (map fe_id (all_frame_events f)))
  | None => None
  end.

Lemma ff_admitted_elim ans v0 ops x : ff_admitted ans v0 ops x = Some (true, true, false) ->
  exists b f cores s' v' es, ans = (Some (b, f, cores), s') /\
    node_fast_forward v0 b f cores = (true, v') /\
    get_event (hrun v' ops) x = Some es /\ ~ In x (map fe_id (all_frame_events f)).
Proof.
  unfold ff_admitted. destruct ans as [[[[b f] cores]|] s']; cbn [fst]; [|discriminate].
  destruct (node_fast_forward v0 b f cores) as [ok v'] eqn:FF. intros H.
  injection H as H1 H2 H3. subst ok.
  destruct (get_event (hrun v' ops) x) as [es|] eqn:G; [|discriminate].
  exists b, f, cores, s', v', es. split; [reflexivity|]. split; [exact FF|]. split; [exact G|].
  intros Hin. assert (E : existsb (Z.eqb x) (map fe_id (all_frame_events f)) = true).
  { apply existsb_exists. exists x. split; [exact Hin|apply Z.eqb_refl]. }
  congruence.
Qed.

Lemma rd_admitted_example : exists b f cores s' v' es,
  anchor_block_with_frame rd_server = (Some (b, f, cores), s') /\
  node_fast_forward rd_v0 b f cores = (true, v') /\
  get_event (hrun v' rd_victim_ops_after) 24 = Some es /\ ~ In 24 (map fe_id (all_frame_events f)).
Proof. apply ff_admitted_elim. vm_compute. reflexivity. Qed.
