(* C13, serving side: the values a frame records for its events (round, Lamport timestamp, witness
   flag) are the serving node's memoised values, in every reachable state and for ever: memo entries
   are never overwritten, a created entry never changes its witness flag. *)
From Coq Require Import ZArith List Bool Lia ZifyBool Sorted.
From RecordUpdate Require Import RecordSet.
From V Require Import Model.ZMap Model.Quorum Model.Voting Model.HgImpl Model.HgReset
  Proofs.ZMapFacts Proofs.HgFrames Proofs.HgDagFrames Proofs.HgBlockFrames Proofs.AdmissionProofs Proofs.BlockInv Proofs.RoundOrder
  Proofs.OrderFrames Proofs.OrderProofs Proofs.PeerSetProofs Proofs.ResetProofs.
Import ListNotations RecordSetNotations.
Open Scope Z_scope.

(** * Monotone growth of the round memo and of the created lists *)

Definition rm_ext (st st' : hg) : Prop :=
  forall x r, zget x (round_memo st) = Some r -> zget x (round_memo st') = Some r.
Definition cr_ext (st st' : hg) : Prop :=
  forall r ri x w t, get_round st r = Some ri -> aget x (ri_created ri) = Some (w, t) ->
    exists ri' t', get_round st' r = Some ri' /\ aget x (ri_created ri') = Some (w, t').
Definition cmono (st st' : hg) : Prop := rm_ext st st' /\ cr_ext st st'.

Lemma cmono_refl st : cmono st st.
Proof. split; [intros x r H; exact H|intros r ri x w t H A; eauto]. Qed.
Lemma cmono_trans a b c : cmono a b -> cmono b c -> cmono a c.
Proof.
  intros [A1 A2] [B1 B2]. split; [intros x r H; auto|].
  intros r ri x w t H A. destruct (A2 _ _ _ _ _ H A) as [ri' [t' [H' A']]]. eapply B2; eauto.
Qed.
Lemma cmono_same st st' : round_memo st' = round_memo st -> rounds st' = rounds st -> cmono st st'.
Proof.
  intros E1 E2. split; [intros x r; rewrite E1; auto|].
  intros r ri x w t H A. exists ri, t. unfold get_round in *. rewrite E2. auto.
Qed.
Lemma cmono_rm st st' : rm_ext st st' -> rounds st' = rounds st -> cmono st st'.
Proof.
  intros E1 E2. split; [exact E1|]. intros r ri x w t H A. exists ri, t. unfold get_round in *. rewrite E2. auto.
Qed.

Lemma round_f_rm fuel : forall st x, rm_ext st (snd (round_f fuel st x)).
Proof.
  induction fuel as [|f IH]; intros st x y r Hy; cbn [round_f].
  - destruct (zget x (round_memo st)); exact Hy.
  - destruct (zget x (round_memo st)) eqn:Hx; [exact Hy|].
    destruct (get_event st x) as [ex|]; [|exact Hy].
    assert (Hne : x <> y) by (intros ->; congruence).
    assert (P1 : rm_ext st (snd (if e_sp (ev_e ex) =? -1 then (Some (-1), st) else round_f f st (e_sp (ev_e ex))))).
    { destruct (e_sp (ev_e ex) =? -1); [intros a0 b0 H0; exact H0|apply IH]. }
    destruct (if e_sp (ev_e ex) =? -1 then (Some (-1), st) else round_f f st (e_sp (ev_e ex))) as [[spr|] st1]; cbn [snd] in *;
      [|apply P1; exact Hy].
    assert (P2 : rm_ext st1 (snd (if e_op (ev_e ex) =? -1 then (Some (-1), st1) else round_f f st1 (e_op (ev_e ex))))).
    { destruct (e_op (ev_e ex) =? -1); [intros a0 b0 H0; exact H0|apply IH]. }
    destruct (if e_op (ev_e ex) =? -1 then (Some (-1), st1) else round_f f st1 (e_op (ev_e ex))) as [[opr|] st2]; cbn [snd] in *;
      [|apply P2, P1; exact Hy].
    assert (H2 : zget y (round_memo st2) = Some r) by (apply P2, P1; exact Hy).
    assert (M : forall v, zget y (round_memo (st2 <| round_memo := zset x v (round_memo st2) |>)) = Some r).
    { intros v. replace (round_memo (st2 <| round_memo := zset x v (round_memo st2) |>)) with (zset x v (round_memo st2))
        by (destruct st2; reflexivity). rewrite zget_zset_other by exact Hne. exact H2. }
    cbv zeta. destruct (_ =? -1); cbn [snd]; [apply M|].
    destruct (get_round st2 _); [|exact H2]. destruct (get_peerset st2 _); [|exact H2].
    destruct (fold_left _ _ _); cbn [snd]; [apply M|exact H2].
Qed.

Lemma round_f_cmono fuel st x : cmono st (snd (round_f fuel st x)).
Proof. apply cmono_rm; [apply round_f_rm|apply nomemo_eq_rounds, round_f_nomemo]. Qed.

Lemma rm_ext_trans a b c : rm_ext a b -> rm_ext b c -> rm_ext a c.
Proof. intros A B x r H. apply B, A, H. Qed.

Lemma witness_f_rm fuel st x : rm_ext st (snd (witness_f fuel st x)).
Proof.
  unfold witness_f. destruct (zget x (witness_memo st)); [intros a0 b0 H0; exact H0|].
  destruct (get_event st x) as [ex|]; [|intros a0 b0 H0; exact H0].
  pose proof (round_f_rm fuel st x) as P1.
  destruct (round_f fuel st x) as [[xr|] st1]; cbn [snd] in *; [|exact P1].
  destruct (get_peerset st1 xr); [|exact P1].
  assert (W : forall s v, rm_ext s (s <| witness_memo := v |>)) by (intros s v a b H; destruct s; exact H).
  destruct (negb _); cbn [snd]; [eapply rm_ext_trans; [exact P1|apply W]|].
  destruct (e_sp (ev_e ex) =? -1); cbn [snd]; [eapply rm_ext_trans; [exact P1|apply W]|].
  pose proof (round_f_rm fuel st1 (e_sp (ev_e ex))) as P2.
  destruct (round_f fuel st1 (e_sp (ev_e ex))) as [[spr|] st2]; cbn [snd] in *;
    [eapply rm_ext_trans; [exact P1|eapply rm_ext_trans; [exact P2|apply W]]|eapply rm_ext_trans; eauto].
Qed.
Lemma witness_f_cmono fuel st x : cmono st (snd (witness_f fuel st x)).
Proof. apply cmono_rm; [apply witness_f_rm|apply nomemo_eq_rounds, witness_f_nomemo]. Qed.
Lemma lamport_f_cmono fuel st x : cmono st (snd (lamport_f fuel st x)).
Proof. apply cmono_same; [apply lamport_f_round_memo|apply nomemo_eq_rounds, lamport_f_nomemo]. Qed.

Lemma cmono_set_evst st x e : cmono st (set_evst st x e).
Proof. apply cmono_same; destruct st; reflexivity. Qed.

Lemma fd_walk_cmono fuel : forall st c index x ah, cmono st (fd_walk fuel st c index x ah).
Proof.
  induction fuel as [|f IH]; intros st c index x ah; cbn [fd_walk]; [apply cmono_refl|].
  destruct (get_event st ah) as [a|]; [|apply cmono_refl].
  destruct (aget c (ev_fd a)); [apply cmono_refl|].
  set (st1 := set_evst st ah _).
  pose proof (cmono_set_evst st ah (a <| ev_fd := ev_fd a ++ [(c, (index, x))] |>)) as F1. fold st1 in F1.
  pose proof (witness_f_cmono (fuel_of st1) st1 ah) as F2.
  destruct (witness_f (fuel_of st1) st1 ah) as [[[|]|] st2]; cbn [snd] in F2.
  - eapply cmono_trans; [exact F1|exact F2].
  - eapply cmono_trans; [exact F1|]. eapply cmono_trans; [exact F2|apply IH].
  - eapply cmono_trans; [exact F1|]. eapply cmono_trans; [exact F2|apply IH].
Qed.

Lemma fold_cmono {A} (f : hg -> A -> hg) (l : list A) :
  (forall s a, cmono s (f s a)) -> forall st, cmono st (fold_left f l st).
Proof.
  intros Hf. induction l as [|a r IH]; intros st; cbn [fold_left]; [apply cmono_refl|].
  eapply cmono_trans; [apply Hf|apply IH].
Qed.
Lemma update_ancestor_fd_cmono st e la : cmono st (update_ancestor_fd st e la).
Proof. unfold update_ancestor_fd. apply fold_cmono. intros s ce. apply fd_walk_cmono. Qed.

Lemma store_set_event_cmono st es st' : store_set_event st es = Some st' -> cmono st st'.
Proof.
  unfold store_set_event. destruct (get_event st _).
  - intros H; inversion H. apply cmono_set_evst.
  - destruct (zget _ _); [|discriminate]. destruct (pidx_set _ _ _); [|discriminate].
    intros H; inversion H. apply cmono_same; destruct st; reflexivity.
Qed.

Lemma insert_event_cmono st e : cmono st (snd (insert_event st e)).
Proof.
  unfold insert_event. destruct (negb _); [apply cmono_refl|].
  destruct (check_self_parent st e); try apply cmono_refl.
  destruct (check_other_parent st e); try apply cmono_refl.
  unfold insert_admitted. cbv zeta.
  assert (T : cmono st (st <| topo := topo st + 1 |>)) by (apply cmono_same; destruct st; reflexivity).
  destruct (store_set_event _ _) as [st2|] eqn:E; cbn [snd]; [|exact T].
  apply store_set_event_cmono in E.
  eapply cmono_trans; [exact T|]. eapply cmono_trans; [exact E|].
  eapply cmono_trans; [apply update_ancestor_fd_cmono|].
  generalize (update_ancestor_fd st2 e (fst (init_coords (st <| topo := topo st + 1 |>) e))). intros s3.
  apply cmono_same; destruct (is_loaded e); destruct s3; reflexivity.
Qed.

(** * Created lists only grow, witness flags never change *)

Definition cr_le (ri ri' : rinfo) : Prop :=
  forall x w t, aget x (ri_created ri) = Some (w, t) -> exists t', aget x (ri_created ri') = Some (w, t').

Lemma cr_le_refl ri : cr_le ri ri.
Proof. intros x w t H; eauto. Qed.
Lemma cr_le_trans a b c : cr_le a b -> cr_le b c -> cr_le a c.
Proof. intros A B x w t H. destruct (A _ _ _ H) as [t' H']. eapply B; eauto. Qed.
Lemma cr_le_created ri ri' : ri_created ri' = ri_created ri -> cr_le ri ri'.
Proof. intros E x w t H. rewrite E. eauto. Qed.

Lemma cr_le_add_created ri x w : cr_le ri (add_created ri x w).
Proof.
  unfold add_created. destruct (aget x (ri_created ri)) eqn:A; [apply cr_le_refl|].
  intros y w' t H. exists t. cbn [ri_created set]. apply aget_app_some. exact H.
Qed.

Lemma cr_le_set_fame ri x f : cr_le ri (set_fame ri x f).
Proof.
  unfold set_fame. destruct (aget x (ri_created ri)) as [[w0 t0]|] eqn:A.
  - intros y w t H. cbn [ri_created set]. destruct (Z.eq_dec x y) as [->|Hne].
    + rewrite aget_aset_same. rewrite A in H. inversion H; subst. eauto.
    + rewrite aget_aset_other by exact Hne. eauto.
  - intros y w t H. exists t. cbn [ri_created set]. apply aget_app_some. exact H.
Qed.

Lemma cr_le_witnesses_decided ri ps : cr_le ri (snd (witnesses_decided ri ps)).
Proof.
  unfold witnesses_decided. destruct (ri_decided ri); [apply cr_le_refl|].
  destruct (existsb _ _); [apply cr_le_refl|]. cbn [snd]. apply cr_le_created. destruct ri; reflexivity.
Qed.

Lemma get_round_rounds_zset s i ri q :
  get_round (s <| rounds := zset i ri (rounds s) |>) q = if (i =? q) && (0 <=? i) then Some ri else get_round s q.
Proof. unfold get_round. destruct s; cbn. apply zget_zset. Qed.
Lemma get_round_set_round' s i ri q :
  get_round (set_round s i ri) q = if (i =? q) && (0 <=? i) then Some ri else get_round s q.
Proof. unfold get_round, set_round. destruct s; cbn. apply zget_zset. Qed.

Lemma cmono_rounds_zset s i ri' :
  (forall ri, get_round s i = Some ri -> cr_le ri ri') -> cmono s (s <| rounds := zset i ri' (rounds s) |>).
Proof.
  intros H. split; [intros x r Hx; destruct s; exact Hx|].
  intros r ri x w t Hr A. rewrite get_round_rounds_zset.
  destruct (Z.eqb_spec i r) as [->|Hne]; cbn [andb]; [|eauto].
  destruct (0 <=? r); [|eauto]. destruct (H ri Hr x w t A) as [t' A']. eauto.
Qed.
Lemma cmono_set_round s i ri' :
  (forall ri, get_round s i = Some ri -> cr_le ri ri') -> cmono s (set_round s i ri').
Proof.
  intros H. split; [intros x r Hx; destruct s; exact Hx|].
  intros r ri x w t Hr A. rewrite get_round_set_round'.
  destruct (Z.eqb_spec i r) as [->|Hne]; cbn [andb]; [|eauto].
  destruct (0 <=? r); [|eauto]. destruct (H ri Hr x w t A) as [t' A']. eauto.
Qed.

Lemma cmono_fail s : cmono s (fail s).
Proof. apply cmono_same; destruct s; reflexivity. Qed.

(** * DivideRounds *)

Lemma set_event_round_cmono st x r : cmono st (set_event_round st x r).
Proof. unfold set_event_round. destruct (get_event st x); [apply cmono_set_evst|apply cmono_refl]. Qed.
Lemma set_event_lt_cmono st x r : cmono st (set_event_lt st x r).
Proof. unfold set_event_lt. destruct (get_event st x); [apply cmono_set_evst|apply cmono_refl]. Qed.
Lemma maybe_queue_cmono st r ri : cmono st (maybe_queue st r ri).
Proof. unfold maybe_queue. destruct (_ && _); [apply cmono_same; destruct st; reflexivity|apply cmono_refl]. Qed.

Lemma divide_round_cmono st x : cmono st (divide_round st x).
Proof.
  unfold divide_round.
  pose proof (round_f_cmono (fuel_of st) st x) as F1.
  destruct (round_f (fuel_of st) st x) as [[r|] s]; cbn [snd] in F1; [|eapply cmono_trans; [exact F1|apply cmono_fail]].
  cbv zeta. set (s1 := set_event_round s x r). set (ri := round_or_new s1 r). set (s2 := maybe_queue s1 r ri).
  assert (F2 : cmono st s2).
  { eapply cmono_trans; [exact F1|]. eapply cmono_trans; [apply set_event_round_cmono|apply maybe_queue_cmono]. }
  assert (R2 : rounds s2 = rounds s1).
  { subst s2. unfold maybe_queue. destruct (_ && _); [destruct s1; reflexivity|reflexivity]. }
  pose proof (witness_f_cmono (fuel_of s2) s2 x) as F3.
  pose proof (nomemo_eq_rounds _ _ (witness_f_nomemo (fuel_of s2) s2 x)) as R3.
  destruct (witness_f (fuel_of s2) s2 x) as [[w|] s']; cbn [snd] in *.
  - eapply cmono_trans; [exact F2|]. eapply cmono_trans; [exact F3|]. apply cmono_set_round.
    intros ri0 H0. assert (E : ri = ri0).
    { subst ri. unfold round_or_new, get_round in *. rewrite R3, R2 in H0. rewrite H0. reflexivity. }
    subst ri0. apply cr_le_add_created.
  - eapply cmono_trans; [exact F2|]. eapply cmono_trans; [exact F3|apply cmono_fail].
Qed.

Lemma divide_lt_cmono st x : cmono st (divide_lt st x).
Proof.
  unfold divide_lt. pose proof (lamport_f_cmono (fuel_of st) st x) as F.
  destruct (lamport_f (fuel_of st) st x) as [[t|] s]; cbn [snd] in F;
    (eapply cmono_trans; [exact F|]); [apply set_event_lt_cmono|apply cmono_fail].
Qed.

Lemma divide_one_cmono st x : cmono st (divide_one st x).
Proof.
  unfold divide_one. destruct (failed st); [apply cmono_refl|].
  destruct (get_event st x) as [ev|]; [|apply cmono_fail].
  assert (F1 : cmono st (match ev_round ev with Some _ => st | None => divide_round st x end)).
  { destruct (ev_round ev); [apply cmono_refl|apply divide_round_cmono]. }
  set (st1 := match ev_round ev with Some _ => st | None => divide_round st x end) in *.
  destruct (failed st1); [exact F1|].
  destruct (get_event st1 x) as [ev1|]; [|eapply cmono_trans; [exact F1|apply cmono_fail]].
  destruct (ev_lt ev1); [exact F1|]. eapply cmono_trans; [exact F1|apply divide_lt_cmono].
Qed.

Lemma divide_rounds_cmono st : cmono st (divide_rounds st).
Proof. unfold divide_rounds. apply fold_cmono. intros s a. apply divide_one_cmono. Qed.

(** * DecideFame *)

Lemma fame_fold_cr_le s r ws : forall ri ri',
  fold_left (fun (a : option rinfo) x =>
     match a with
     | None => None
     | Some ri' =>
       if is_decided ri' x then Some ri'
       else match fame_of s x r with
            | None => None
            | Some None => Some ri'
            | Some (Some v) => Some (set_fame ri' x v)
            end
     end) ws (Some ri) = Some ri' -> cr_le ri ri'.
Proof.
  induction ws as [|x ws IH]; intros ri ri'; cbn [fold_left].
  - intros H; inversion H; apply cr_le_refl.
  - destruct (is_decided ri x); [apply IH|].
    destruct (fame_of s x r) as [[v|]|].
    + intros H. eapply cr_le_trans; [apply cr_le_set_fame|apply (IH _ _ H)].
    + apply IH.
    + clear IH. intros H. exfalso. induction ws as [|y ws IHw]; cbn [fold_left] in H; [discriminate|auto].
Qed.

Lemma decide_fame_round_cmono s dec pr : cmono s (fst (decide_fame_round (s, dec) pr)).
Proof.
  unfold decide_fame_round. destruct (failed s); [apply cmono_refl|].
  destruct (get_round s (fst pr)) as [ri|] eqn:Hr; [|apply cmono_fail].
  destruct (get_peerset s (fst pr)) as [rps|]; [|apply cmono_fail].
  match goal with |- context [fold_left ?f ?l ?a] => destruct (fold_left f l a) as [ri'|] eqn:Ef end; [|apply cmono_fail].
  pose proof (fame_fold_cr_le _ _ _ _ _ Ef) as L.
  pose proof (cr_le_witnesses_decided ri' rps) as L2.
  destruct (witnesses_decided ri' rps) as [d ri'']. cbn [fst snd] in *.
  apply cmono_set_round. intros ri0 H0. rewrite Hr in H0. inversion H0; subst. eapply cr_le_trans; eauto.
Qed.

Lemma fold_cmono_fst {A B} (f : hg * B -> A -> hg * B) (l : list A) :
  (forall s b a, cmono s (fst (f (s, b) a))) -> forall s b, cmono s (fst (fold_left f l (s, b))).
Proof.
  intros Hf. induction l as [|a r IH]; intros s b; cbn [fold_left]; [apply cmono_refl|].
  specialize (Hf s b a). destruct (f (s, b) a) as [s' b']. cbn [fst] in Hf. eapply cmono_trans; [exact Hf|apply IH].
Qed.

Lemma decide_fame_cmono st : cmono st (decide_fame st).
Proof.
  unfold decide_fame.
  pose proof (fold_cmono_fst decide_fame_round (pending st) decide_fame_round_cmono st []) as F.
  destruct (fold_left decide_fame_round (pending st) (st, [])) as [s decided]. cbn [fst] in F.
  destruct (failed s); [exact F|]. eapply cmono_trans; [exact F|]. apply cmono_same; destruct s; reflexivity.
Qed.

(** * DecideRoundReceived *)

Lemma rr_loop_cmono x : forall is_ st, cmono st (fst (rr_loop st x is_)).
Proof.
  induction is_ as [|i rest IH]; intros st; cbn [rr_loop]; [apply cmono_refl|].
  destruct (get_round st i) as [tr|] eqn:Hr.
  2:{ destruct (lower_bound st) as [lb|]; [|apply cmono_refl]. destruct (i <=? lb); [apply IH|apply cmono_refl]. }
  destruct (get_peerset st i) as [tps|]; [|apply cmono_fail].
  pose proof (cr_le_witnesses_decided tr tps) as L.
  destruct (witnesses_decided tr tps) as [d tr']. cbn [snd] in L.
  set (st1 := st <| rounds := zset i tr' (rounds st) |>).
  assert (F1 : cmono st st1).
  { apply cmono_rounds_zset. intros ri0 H0. rewrite Hr in H0. inversion H0; subst. exact L. }
  destruct (negb d).
  { destruct (lower_bound st1) as [lb|]; [|exact F1]. destruct (lb <? i); [exact F1|].
    eapply cmono_trans; [exact F1|apply IH]. }
  match goal with |- context [fold_left ?f ?l ?a] => destruct (fold_left f l a) as [sn|] end;
    [|eapply cmono_trans; [exact F1|apply cmono_fail]].
  destruct (_ && _); [|eapply cmono_trans; [exact F1|apply IH]].
  destruct (get_event st1 x) as [ex|]; [|eapply cmono_trans; [exact F1|apply cmono_fail]].
  cbn [fst]. eapply cmono_trans; [exact F1|]. eapply cmono_trans; [apply cmono_set_evst|].
  apply cmono_set_round. intros ri0 H0.
  assert (G : get_round (set_evst st1 x (ex <| ev_rr := Some i |>)) i = get_round st1 i) by (destruct st1; reflexivity).
  rewrite G in H0. subst st1. rewrite get_round_rounds_zset, Z.eqb_refl in H0. cbn [andb] in H0.
  destruct (0 <=? i) eqn:Hi.
  - inversion H0; subst. apply cr_le_created. reflexivity.
  - rewrite Hr in H0. inversion H0; subst. eapply cr_le_trans; [exact L|apply cr_le_created; reflexivity].
Qed.

Lemma decide_rr_one_cmono s und x : cmono s (fst (decide_rr_one (s, und) x)).
Proof.
  unfold decide_rr_one. destruct (failed s); [apply cmono_refl|].
  pose proof (round_f_cmono (fuel_of s) s x) as F1.
  destruct (round_f (fuel_of s) s x) as [[r|] s1]; cbn [snd] in F1; [|eapply cmono_trans; [exact F1|apply cmono_fail]].
  pose proof (rr_loop_cmono x (zrange (r + 1) (last_round s1)) s1) as F2.
  destruct (rr_loop s1 x (zrange (r + 1) (last_round s1))) as [s' received]. cbn [fst] in *.
  eapply cmono_trans; eauto.
Qed.

Lemma decide_round_received_cmono st : cmono st (decide_round_received st).
Proof.
  unfold decide_round_received.
  pose proof (fold_cmono_fst decide_rr_one (undetermined st) decide_rr_one_cmono st []) as F.
  destruct (fold_left decide_rr_one (undetermined st) (st, [])) as [s und]. cbn [fst] in F.
  destruct (failed s); [exact F|]. eapply cmono_trans; [exact F|]. apply cmono_same; destruct s; reflexivity.
Qed.

(** * ProcessDecidedRounds, ProcessSigPool: nothing changes *)

Lemma cmono_cv s s' : cv s' = cv s -> cmono s s'.
Proof. unfold cv. intros H. apply cmono_same; congruence. Qed.

Lemma get_frame_cmono st rr : cmono st (snd (get_frame st rr)).
Proof.
  unfold get_frame. destruct (zget rr (frames st)); [apply cmono_refl|].
  destruct (get_round st rr); [|apply cmono_refl]. destruct (get_peerset st rr); [|apply cmono_refl].
  match goal with |- context [fold_left ?f ?l ?a] => destruct (fold_left f l a) end; [|apply cmono_refl].
  match goal with |- context [fold_left ?f (repertoire st) ?a] => destruct (fold_left f (repertoire st) a) end; [|apply cmono_refl].
  cbn [snd]. apply cmono_same; destruct st; reflexivity.
Qed.

Lemma process_round_cmono s p stop pr : cmono s (fst (fst (process_round (s, p, stop) pr))).
Proof.
  unfold process_round. destruct (stop || failed s); [apply cmono_refl|].
  destruct (negb (snd pr)); [apply cmono_refl|].
  destruct (get_round s (fst pr)); [|apply cmono_fail].
  pose proof (get_frame_cmono s (fst pr)) as F1.
  destruct (get_frame s (fst pr)) as [[f|] s1]; cbn [fst snd] in *; [|eapply cmono_trans; [exact F1|apply cmono_fail]].
  eapply cmono_trans; [exact F1|]. eapply cmono_trans; [apply cmono_cv, process_frame_cv|].
  destruct (bump_keep (process_frame s1 f) (fst pr)) as [[K1 [_ [_ [_ K5]]]] _]. apply cmono_same; [exact K5|exact K1].
Qed.

Lemma process_decided_rounds_cmono st : cmono st (process_decided_rounds st).
Proof.
  unfold process_decided_rounds.
  assert (G : forall l s p b, cmono s (fst (fst (fold_left process_round l (s, p, b))))).
  { induction l as [|pr l IH]; intros s p b; cbn [fold_left]; [apply cmono_refl|].
    pose proof (process_round_cmono s p b pr) as F. destruct (process_round (s, p, b) pr) as [[s' p'] b']. cbn [fst] in F.
    eapply cmono_trans; [exact F|apply IH]. }
  specialize (G (pending st) st [] false).
  destruct (fold_left process_round (pending st) (st, [], false)) as [[s processed] stop]. cbn [fst] in G.
  eapply cmono_trans; [exact G|]. apply cmono_same; destruct s; reflexivity.
Qed.

Lemma run_consensus_cmono st : cmono st (run_consensus st).
Proof.
  unfold run_consensus.
  pose proof (divide_rounds_cmono st) as F1. destruct (failed (divide_rounds st)); [exact F1|].
  pose proof (decide_fame_cmono (divide_rounds st)) as F2. destruct (failed (decide_fame _)); [eapply cmono_trans; eauto|].
  pose proof (decide_round_received_cmono (decide_fame (divide_rounds st))) as F3.
  destruct (failed (decide_round_received _)); [eapply cmono_trans; [exact F1|eapply cmono_trans; eauto]|].
  eapply cmono_trans; [exact F1|]. eapply cmono_trans; [exact F2|]. eapply cmono_trans; [exact F3|apply process_decided_rounds_cmono].
Qed.

Lemma process_sigpool_cmono st : cmono st (process_sigpool st).
Proof.
  unfold process_sigpool. apply fold_cmono. intros s a. destruct (process_sig_rv s a) as [E _].
  apply cmono_cv. unfold rv in E. congruence.
Qed.

Lemma hstep_cmono st o : cmono st (hstep st o).
Proof.
  destruct o as [e|]; cbn [hstep]; [|apply process_sigpool_cmono].
  unfold step, insert_and_run. pose proof (insert_event_cmono st e) as F.
  destruct (insert_event st e) as [r s]. cbn [snd] in *. destruct r; cbn [snd]; try exact F.
  eapply cmono_trans; [exact F|apply run_consensus_cmono].
Qed.

(** * Every event of a computed frame comes from createFrameEvent *)

Definition from_cfe (st : hg) (fe : frameev) : Prop := exists x, create_frame_event st x = Some fe.

Lemma cfe_fold_from st xs : forall acc evs,
  fold_left (fun (acc : option (list frameev)) x =>
     match acc, create_frame_event st x with
     | Some l, Some fe => Some (l ++ [fe])
     | _, _ => None
     end) xs (Some acc) = Some evs ->
  Forall (from_cfe st) acc -> Forall (from_cfe st) evs.
Proof.
  induction xs as [|x xs IH]; intros acc evs; cbn [fold_left].
  - intros H; inversion H; subst. auto.
  - destruct (create_frame_event st x) as [fe|] eqn:Hc.
    + intros H F. apply (IH _ _ H). apply Forall_app. split; [exact F|]. constructor; [exists x; exact Hc|constructor].
    + intros H. exfalso. clear - H. induction xs as [|y xs IHx]; cbn [fold_left] in H; [discriminate|auto].
Qed.

Lemma root_below_from st c : forall n index l, root_below st c index n = Some l -> Forall (from_cfe st) l.
Proof.
  induction n as [|n IH]; intros index l; cbn [root_below]; [intros H; inversion H; constructor|].
  destruct (index - 1 <? 0); [intros H; inversion H; constructor|].
  destruct (participant_event st c (index - 1)) as [peh|]; [|intros H; inversion H; constructor].
  destruct (create_frame_event st peh) as [fe|] eqn:Hc; [|discriminate].
  destruct (root_below st c (index - 1) n) as [rest|] eqn:Hr; [|discriminate].
  intros H; inversion H; subst. constructor; [exists peh; exact Hc|eapply IH; eauto].
Qed.

Lemma create_root_from st c head l : create_root st c head = Some l -> Forall (from_cfe st) l.
Proof.
  unfold create_root. destruct (head =? -1); [intros H; inversion H; constructor|].
  destruct (create_frame_event st head) as [hfe|] eqn:Hc; [|discriminate].
  destruct (get_event st head) as [he|]; [|discriminate].
  destruct (root_below st c (e_index (ev_e he)) ROOT_DEPTH) as [below|] eqn:Hb; [|discriminate].
  intros H. assert (E : l = rev (hfe :: below)) by congruence. rewrite E. apply Forall_rev. constructor; [exists head; exact Hc|eapply root_below_from; eauto].
Qed.

Definition roots_all (P : Z -> list frameev -> Prop) (roots : list (Z * list frameev)) : Prop :=
  forall c l, In (c, l) roots -> P c l.

Lemma roots_insert_all (P : Z -> list frameev -> Prop) c r roots :
  P c r -> roots_all P roots -> roots_all P (roots_insert c r roots).
Proof.
  intros Hr. induction roots as [|[c' r'] rest IH]; intros H; cbn [roots_insert].
  - intros c0 l [E|[]]. inversion E; subst. exact Hr.
  - destruct (c <? c').
    + intros c0 l [E|Hin]; [inversion E; subst; exact Hr|apply (H c0 l Hin)].
    + destruct (c =? c'); [exact H|].
      intros c0 l [E|Hin]; [apply (H c0 l); left; exact E|].
      apply (IH (fun a b Hab => H a b (or_intror Hab)) c0 l Hin).
Qed.

(* every root of a freshly computed frame is the result of createRoot, every event of the frame
   the result of createFrameEvent *)
Lemma get_frame_fresh_roots st rr f st' (P : Z -> list frameev -> Prop) :
  (forall c head r, create_root st c head = Some r -> P c r) ->
  zget rr (frames st) = None -> get_frame st rr = (Some f, st') ->
  roots_all P (f_roots f) /\ Forall (from_cfe st) (f_events f) /\ st' = st <| frames := zset rr f (frames st) |>.
Proof.
  intros HP. unfold get_frame. intros Hc. rewrite Hc.
  destruct (get_round st rr) as [ri|]; [|discriminate].
  destruct (get_peerset st rr) as [ps|]; [|discriminate].
  match goal with |- context [fold_left ?f (ri_received ri) ?a] => destruct (fold_left f (ri_received ri) a) as [evs|] eqn:Ef end;
    [|discriminate].
  pose proof (cfe_fold_from _ _ _ _ Ef (Forall_nil _)) as Fev.
  assert (Fsorted : Forall (from_cfe st) (fe_sort st evs)).
  { rewrite Forall_forall in *. intros fe Hin. apply Fev. eapply Permutation.Permutation_in; [apply OrderSort.fe_sort_perm|exact Hin]. }
  match goal with |- context [fold_left ?f (fe_sort st evs) ?a] =>
    assert (R1 : forall o, fold_left f (fe_sort st evs) (Some []) = Some o -> roots_all P o) end.
  { generalize (fe_sort st evs). intros l.
    assert (G : forall roots0 o, roots_all P roots0 ->
                fold_left (fun (acc : option (list (Z * list frameev))) fe =>
                  match acc with
                  | None => None
                  | Some roots =>
                    let p := creator_of st (fe_id fe) in
                    match aget p roots with
                    | Some _ => Some roots
                    | None => match create_root st p (sp_of st (fe_id fe)) with
                              | Some r => Some (roots_insert p r roots)
                              | None => None
                              end
                    end
                  end) l (Some roots0) = Some o -> roots_all P o).
    { induction l as [|fe l IH]; intros roots0 o H0; cbn [fold_left]; [intros E; inversion E; subst; exact H0|].
      cbv zeta. destruct (aget (creator_of st (fe_id fe)) roots0); [apply IH; exact H0|].
      destruct (create_root st (creator_of st (fe_id fe)) (sp_of st (fe_id fe))) as [r|] eqn:Cr.
      - apply IH. apply roots_insert_all; [eapply HP; eauto|exact H0].
      - intros E. exfalso. clear - E. induction l as [|y l IHl]; cbn [fold_left] in E; [discriminate|auto]. }
    intros o. apply G. intros c l0 []. }
  match goal with |- context [fold_left ?f (repertoire st) ?a] =>
    destruct (fold_left f (repertoire st) a) as [roots|] eqn:E2 end; [|discriminate].
  assert (R2 : roots_all P roots).
  { assert (G : forall l a o, (forall r0, a = Some r0 -> roots_all P r0) ->
              fold_left (fun (acc : option (list (Z * list frameev))) (p : peer) =>
                match acc with
                | None => None
                | Some roots =>
                  match aget (pid p) (first_rounds st) with
                  | None => Some roots
                  | Some fr =>
                    if rr <? fr then Some roots
                    else match aget (pkey p) roots with
                         | Some _ => Some roots
                         | None =>
                           let h := match aget (pkey p) (last_cons_ev st) with Some h => h | None => -1 end in
                           match create_root st (pkey p) h with
                           | Some r => Some (roots_insert (pkey p) r roots)
                           | None => None
                           end
                         end
                  end
                end) l a = Some o -> roots_all P o).
    { induction l as [|p l IH]; intros a o Ha; cbn [fold_left]; [intros E; apply Ha; exact E|].
      apply IH. intros r0. destruct a as [roots0|]; [|discriminate].
      specialize (Ha roots0 eq_refl).
      destruct (aget (pid p) (first_rounds st)); [|intros E; inversion E; subst; exact Ha].
      destruct (rr <? z); [intros E; inversion E; subst; exact Ha|].
      destruct (aget (pkey p) roots0); [intros E; inversion E; subst; exact Ha|].
      cbv zeta. destruct (create_root st (pkey p) _) as [r|] eqn:Cr; [|discriminate].
      intros E; inversion E; subst. apply roots_insert_all; [eapply HP; eauto|exact Ha]. }
    apply (G _ _ _ (fun r0 Hr0 => R1 r0 Hr0) E2). }
  intros H; inversion H; subst; clear H. cbn [f_roots f_events]. auto.
Qed.

Lemma get_frame_fresh_from st rr f st' :
  zget rr (frames st) = None -> get_frame st rr = (Some f, st') ->
  Forall (from_cfe st) (all_frame_events f) /\ st' = st <| frames := zset rr f (frames st) |>.
Proof.
  intros Hc H.
  destruct (get_frame_fresh_roots st rr f st' (fun _ l => Forall (from_cfe st) l)
              (fun c head r Hr => create_root_from st c head r Hr) Hc H) as [R2 [Fe E]].
  split; [|exact E].
  unfold all_frame_events, root_events. apply Forall_app. split; [|exact Fe].
  rewrite Forall_forall. intros fe Hin. apply in_flat_map in Hin. destruct Hin as [[c l] [Hcl Hfe]].
  specialize (R2 c l Hcl). cbn in R2. rewrite Forall_forall in R2. apply R2. exact Hfe.
Qed.

(** * Root depth: a root is the head and at most ROOT_DEPTH consecutive self-ancestors *)

Definition root_shape (st : hg) (c : Z) (l : list frameev) : Prop :=
  (length l <= S ROOT_DEPTH)%nat /\
  exists idx, forall k fe, nth_error l k = Some fe ->
    exists es, get_event st (fe_id fe) = Some es /\ e_index (ev_e es) = idx + Z.of_nat k /\
               ((S k < length l)%nat -> e_creator (ev_e es) = c).

Lemma participant_event_spec st c i x : dag_ok st -> participant_event st c i = Some x ->
  exists es, get_event st x = Some es /\ e_creator (ev_e es) = c /\ e_index (ev_e es) = i.
Proof.
  intros OK. unfold participant_event. destruct (zget c (pevents st)) as [p|] eqn:Hp; [|discriminate].
  destruct (d_chain st OK c p Hp) as [Hl Hn]. unfold pidx_get_item. rewrite Hl.
  replace (Z.of_nat (length (pi_items p)) - 1 - Z.of_nat (length (pi_items p)) + 1) with 0 by lia.
  destruct (i <? 0) eqn:Hi; [discriminate|]. replace (i - 0) with i by lia.
  destruct (Z.of_nat (length (pi_items p)) <=? i); [discriminate|]. intros H.
  destruct (Hn _ _ H) as [es [Hg [Hc Hidx]]]. exists es. rewrite Z2Nat.id in Hidx by lia. auto.
Qed.

Lemma cfe_id st x fe : create_frame_event st x = Some fe -> fe_id fe = x.
Proof. intros H. apply (create_frame_event_spec st x fe H). Qed.

Lemma root_below_shape st c : dag_ok st -> forall n index l, root_below st c index n = Some l ->
  (length l <= n)%nat /\
  forall j fe, nth_error l j = Some fe ->
    exists es, get_event st (fe_id fe) = Some es /\ e_creator (ev_e es) = c /\ e_index (ev_e es) = index - 1 - Z.of_nat j.
Proof.
  intros OK. induction n as [|n IH]; intros index l; cbn [root_below].
  - intros H; inversion H. split; [cbn; lia|]. intros j fe Hj. destruct j; discriminate.
  - destruct (index - 1 <? 0); [intros H; inversion H; split; [cbn; lia|intros j fe Hj; destruct j; discriminate]|].
    destruct (participant_event st c (index - 1)) as [peh|] eqn:Hp;
      [|intros H; inversion H; split; [cbn; lia|intros j fe Hj; destruct j; discriminate]].
    destruct (create_frame_event st peh) as [fe0|] eqn:Hc; [|discriminate].
    destruct (root_below st c (index - 1) n) as [rest|] eqn:Hr; [|discriminate].
    intros H; inversion H; subst l. destruct (IH _ _ Hr) as [Hlen Hnth]. split; [cbn [length]; lia|].
    intros j fe Hj. destruct j as [|j]; cbn [nth_error] in Hj.
    + inversion Hj; subst fe. rewrite (cfe_id _ _ _ Hc).
      destruct (participant_event_spec st c _ _ OK Hp) as [es [Hg [Hcr Hi]]]. exists es. split; [exact Hg|split; [exact Hcr|lia]].
    + destruct (Hnth j fe Hj) as [es [Hg [Hcr Hi]]]. exists es. split; [exact Hg|split; [exact Hcr|lia]].
Qed.

Lemma nth_error_rev {A} (l : list A) : forall k, (k < length l)%nat -> nth_error (rev l) k = nth_error l (length l - S k).
Proof.
  induction l as [|x l IH]; intros k Hk; [cbn in Hk; lia|]. cbn [rev length] in *.
  destruct (Nat.eq_dec k (length l)) as [->|Hne].
  - rewrite nth_error_app2 by (rewrite rev_length; lia). rewrite rev_length, Nat.sub_diag.
    replace (S (length l) - S (length l))%nat with 0%nat by lia. reflexivity.
  - rewrite nth_error_app1 by (rewrite rev_length; lia). rewrite IH by lia.
    replace (S (length l) - S k)%nat with (S (length l - S k)) by lia. reflexivity.
Qed.

Lemma create_root_shape st c head l : dag_ok st -> create_root st c head = Some l -> root_shape st c l.
Proof.
  intros OK. unfold create_root. destruct (head =? -1).
  { intros H; inversion H. split; [cbn; lia|]. exists 0. intros k fe Hk. destruct k; discriminate. }
  destruct (create_frame_event st head) as [hfe|] eqn:Hc; [|discriminate].
  destruct (get_event st head) as [he|] eqn:Hh; [|discriminate].
  destruct (root_below st c (e_index (ev_e he)) ROOT_DEPTH) as [below|] eqn:Hb; [|discriminate].
  intros H. assert (E : l = rev (hfe :: below)) by congruence. subst l. clear H.
  destruct (root_below_shape st c OK _ _ _ Hb) as [Hlen Hnth].
  split; [rewrite rev_length; cbn [length]; lia|].
  exists (e_index (ev_e he) - Z.of_nat (length below)).
  intros k fe Hk.
  assert (Hklt : (k < length (hfe :: below))%nat).
  { rewrite <- rev_length. apply nth_error_Some. congruence. }
  rewrite nth_error_rev in Hk by exact Hklt. cbn [length] in *. rewrite rev_length. cbn [length].
  destruct (S (length below) - S k)%nat as [|m] eqn:Em; cbn [nth_error] in Hk.
  - inversion Hk; subst fe. rewrite (cfe_id _ _ _ Hc). exists he. split; [exact Hh|split; [lia|intros; lia]].
  - destruct (Hnth m fe Hk) as [es [Hg [Hcr Hi]]]. exists es. split; [exact Hg|split; [lia|intros _; exact Hcr]].
Qed.

Lemma root_shape_mono st st' c l : eext st st' -> root_shape st c l -> root_shape st' c l.
Proof.
  intros E [Hlen [idx H]]. split; [exact Hlen|]. exists idx. intros k fe Hk.
  destruct (H k fe Hk) as [es [Hg [Hi Hc]]]. destruct (E _ _ Hg) as [es' [Hg' Ee]]. exists es'. rewrite Ee. auto.
Qed.
Lemma root_shape_nf st st' c l : events st' = events st -> root_shape st c l -> root_shape st' c l.
Proof. intros E. unfold root_shape, get_event. rewrite E. auto. Qed.

(** * The invariant *)

Definition frame_event_ok (st : hg) (fe : frameev) : Prop :=
  zget (fe_id fe) (round_memo st) = Some (fe_round fe) /\
  zget (fe_id fe) (lt_memo st) = Some (fe_lt fe) /\
  (exists ri t, get_round st (fe_round fe) = Some ri /\ aget (fe_id fe) (ri_created ri) = Some (fe_wit fe, t)) /\
  (exists ex, get_event st (fe_id fe) = Some ex) /\ 0 <= fe_id fe /\ 0 <= fe_round fe.

Lemma from_cfe_ok st fe : from_cfe st fe -> frame_event_ok st fe.
Proof.
  intros [x H]. unfold create_frame_event in H.
  destruct (get_event st x) as [ex0|] eqn:Hx; [|discriminate]. destruct (zget x (round_memo st)) as [r|] eqn:Hr; [|discriminate].
  destruct (get_round st r) as [ri|] eqn:Hri; [|discriminate].
  destruct (aget x (ri_created ri)) as [[w t]|] eqn:Ha; [|discriminate].
  destruct (zget x (lt_memo st)) as [lt|] eqn:Hl; [|discriminate]. inversion H; subst; clear H.
  unfold frame_event_ok. cbn [fe_id fe_round fe_lt fe_wit].
  split; [exact Hr|split; [exact Hl|split; [eauto|split; [eauto|]]]].
  split; [unfold get_event in Hx; eapply zget_some_nonneg; eauto|unfold get_round in Hri; eapply zget_some_nonneg; eauto].
Qed.

Lemma frame_event_ok_mono st st' fe :
  cmono st st' -> memo_ext st st' -> eext st st' -> frame_event_ok st fe -> frame_event_ok st' fe.
Proof.
  intros [RM CR] ME EE (A & B & (ri & t & C1 & C2) & (ex & D) & P).
  split; [apply RM; exact A|split; [apply ME; exact B|split; [|split; [|exact P]]]].
  - destruct (CR _ _ _ _ _ C1 C2) as [ri' [t' [H1 H2]]]. eauto.
  - destruct (EE _ _ D) as [ex' [H _]]. eauto.
Qed.

(* a cached frame: its events carry the memoised values, its roots have the ROOT_DEPTH shape *)
Definition frame_good (st : hg) (f : frame) : Prop :=
  Forall (frame_event_ok st) (all_frame_events f) /\ roots_all (root_shape st) (f_roots f).

Definition fmemo (st : hg) : Prop :=
  forall rr f, zget rr (frames st) = Some f -> frame_good st f.

Lemma fmemo_mono st st' :
  cmono st st' -> memo_ext st st' -> eext st st' -> frames st' = frames st -> fmemo st -> fmemo st'.
Proof.
  intros C M E F H rr f. rewrite F. intros Hf. destruct (H rr f Hf) as [H1 H2]. split.
  - rewrite Forall_forall in *. intros fe Hin. eapply frame_event_ok_mono; eauto.
  - intros c l Hin. eapply root_shape_mono; [exact E|]. apply H2; exact Hin.
Qed.

(** * ProcessDecidedRounds: new frames are made of createFrameEvent results *)

Lemma C13_frame_cached st rr f : zget rr (frames st) = Some f -> get_frame st rr = (Some f, st).
Proof. unfold get_frame. intros ->. reflexivity. Qed.

Lemma feok_nf s s' fe : okeep_nf s s' -> frame_event_ok s fe -> frame_event_ok s' fe.
Proof.
  intros [K1 [K2 [K3 [_ K5]]]]. unfold frame_event_ok, get_round, get_event. rewrite K1, K2, K3, K5. auto.
Qed.

Lemma frame_good_nf s s' f : okeep_nf s s' -> frame_good s f -> frame_good s' f.
Proof.
  intros K [H1 H2]. split.
  - rewrite Forall_forall in *. intros fe Hin. eapply feok_nf; eauto.
  - intros c l Hin. eapply root_shape_nf; [exact (proj1 (proj2 K))|]. apply H2; exact Hin.
Qed.

Lemma get_frame_nf st rr : okeep_nf st (snd (get_frame st rr)).
Proof.
  unfold get_frame. destruct (zget rr (frames st)); [apply okeep_nf_refl|].
  destruct (get_round st rr); [|apply okeep_nf_refl]. destruct (get_peerset st rr); [|apply okeep_nf_refl].
  match goal with |- context [fold_left ?f ?l ?a] => destruct (fold_left f l a) end; [|apply okeep_nf_refl].
  match goal with |- context [fold_left ?f (repertoire st) ?a] => destruct (fold_left f (repertoire st) a) end; [|apply okeep_nf_refl].
  cbn [snd]. unfold okeep_nf. destruct st; cbn; auto 10.
Qed.

Lemma bump_nf s r : okeep_nf s (bump_last_consensus s r) /\ frames (bump_last_consensus s r) = frames s.
Proof.
  apply ov_nf. unfold bump_last_consensus. destruct (last_consensus s) as [l|]; [destruct (l <? r)|];
    try reflexivity; destruct s; reflexivity.
Qed.

Lemma process_round_fmemo s p stop pr :
  dag_ok s -> fmemo s ->
  fmemo (fst (fst (process_round (s, p, stop) pr))) /\ okeep_nf s (fst (fst (process_round (s, p, stop) pr))).
Proof.
  intros OK F. unfold process_round.
  assert (Kfail : forall s0, fmemo s0 -> fmemo (fail s0) /\ okeep_nf s0 (fail s0)).
  { intros s0 F0. destruct (ov_nf s0 (fail s0)) as [K E]; [destruct s0; reflexivity|]. split; [|exact K].
    intros rr f. rewrite E. intros H. eapply frame_good_nf; [exact K|]. apply (F0 rr f H). }
  destruct (stop || failed s); [split; [exact F|apply okeep_nf_refl]|].
  destruct (negb (snd pr)); [split; [exact F|apply okeep_nf_refl]|].
  destruct (get_round s (fst pr)); [|cbn [fst]; apply Kfail; exact F].
  pose proof (get_frame_nf s (fst pr)) as K1.
  destruct (get_frame s (fst pr)) as [[f|] s1] eqn:G; cbn [fst snd] in *.
  - assert (F1 : fmemo s1).
    { destruct (zget (fst pr) (frames s)) as [f0|] eqn:Hc.
      - rewrite (C13_frame_cached s _ _ Hc) in G. inversion G; subst. exact F.
      - destruct (get_frame_fresh_roots s (fst pr) f s1 (fun c l => Forall (from_cfe s) l /\ root_shape s c l)
                    (fun c head r Hr => conj (create_root_from s c head r Hr) (create_root_shape s c head r OK Hr)) Hc G)
          as [R2 [Fe E1]].
        assert (Good : frame_good s f).
        { split.
          - unfold all_frame_events, root_events. apply Forall_app. split.
            + rewrite Forall_forall. intros fe Hin. apply in_flat_map in Hin. destruct Hin as [[c l] [Hcl Hfe]].
              destruct (R2 c l Hcl) as [Fl _]. rewrite Forall_forall in Fl. apply from_cfe_ok, Fl, Hfe.
            + rewrite Forall_forall in *. intros fe Hin. apply from_cfe_ok, Fe, Hin.
          - intros c l Hcl. apply (R2 c l Hcl). }
        intros rr g. rewrite E1. replace (frames (s <| frames := zset (fst pr) f (frames s) |>)) with (zset (fst pr) f (frames s))
          by (destruct s; reflexivity).
        rewrite zget_zset. destruct ((fst pr =? rr) && (0 <=? fst pr)).
        + intros H; inversion H; subst g. eapply frame_good_nf; [rewrite <- E1; exact K1|exact Good].
        + intros H. eapply frame_good_nf; [rewrite <- E1; exact K1|]. apply (F rr g H). }
    destruct (ov_nf _ _ (process_frame_ov s1 f)) as [K2 E2].
    destruct (bump_nf (process_frame s1 f) (fst pr)) as [K3 E3].
    split; [|eapply okeep_nf_trans; [exact K1|eapply okeep_nf_trans; eauto]].
    intros rr g. rewrite E3, E2. intros H.
    eapply frame_good_nf; [eapply okeep_nf_trans; [exact K2|exact K3]|]. apply (F1 rr g H).
  - assert (E : s1 = s) by (eapply get_frame_none; eauto). subst s1. apply Kfail; exact F.
Qed.

Lemma process_decided_rounds_fmemo st :
  dag_ok st -> fmemo st -> fmemo (process_decided_rounds st) /\ okeep_nf st (process_decided_rounds st).
Proof.
  intros OK F. unfold process_decided_rounds.
  assert (G : forall l s p b, dag_ok s -> fmemo s -> fmemo (fst (fst (fold_left process_round l (s, p, b)))) /\
                                         okeep_nf s (fst (fst (fold_left process_round l (s, p, b))))).
  { induction l as [|pr l IH]; intros s p b OKs Fs; cbn [fold_left]; [split; [exact Fs|apply okeep_nf_refl]|].
    destruct (process_round_fmemo s p b pr OKs Fs) as [F1 K1].
    pose proof (dag_ok_frame _ _ OKs (HgDagFrames.process_round_frame s p b pr)) as OK1.
    destruct (process_round (s, p, b) pr) as [[s1 p1] b1]. cbn [fst] in *.
    destruct (IH s1 p1 b1 OK1 F1) as [F2 K2]. split; [exact F2|eapply okeep_nf_trans; eauto]. }
  destruct (G (pending st) st [] false OK F) as [F1 K1].
  destruct (fold_left process_round (pending st) (st, [], false)) as [[s processed] stop]. cbn [fst] in *.
  destruct (ov_nf s (s <| pending := filter (fun p => negb (existsb (Z.eqb (fst p)) processed)) (pending s) |>)) as [K2 E2];
    [destruct s; reflexivity|].
  split; [|eapply okeep_nf_trans; eauto].
  intros rr g. rewrite E2. intros H. eapply frame_good_nf; [exact K2|]. apply (F1 rr g H).
Qed.

(** * Every reachable state *)

Lemma run_consensus_split s :
  bview (run_consensus s) = bview s \/
  exists s3, bview s3 = bview s /\ cmono s s3 /\ dag_frame s s3 /\ run_consensus s = process_decided_rounds s3.
Proof.
  unfold run_consensus.
  pose proof (divide_rounds_bview s) as B1. pose proof (divide_rounds_cmono s) as C1.
  destruct (failed (divide_rounds s)); [left; exact B1|].
  pose proof (decide_fame_bview (divide_rounds s)) as B2. pose proof (decide_fame_cmono (divide_rounds s)) as C2.
  destruct (failed (decide_fame (divide_rounds s))); [left; congruence|].
  pose proof (decide_round_received_bview (decide_fame (divide_rounds s))) as B3.
  pose proof (decide_round_received_cmono (decide_fame (divide_rounds s))) as C3.
  destruct (failed (decide_round_received _)); [left; congruence|].
  right. eexists. split; [|split; [|split; [|reflexivity]]]; [congruence| |].
  - eapply cmono_trans; [exact C1|eapply cmono_trans; eauto].
  - eapply dag_frame_trans; [apply divide_rounds_frame|]. eapply dag_frame_trans; [apply decide_fame_frame|apply decide_round_received_frame].
Qed.

Lemma memo_ext_back st s3 s' : memo_ext st s' -> lt_memo s' = lt_memo s3 -> memo_ext st s3.
Proof. intros M E y t H. rewrite <- E. apply M. exact H. Qed.
Lemma eext_back st s3 s' : eext st s' -> events s' = events s3 -> eext st s3.
Proof. intros M E x ex H. destruct (M x ex H) as [ex' [H' E']]. exists ex'. unfold get_event in *. rewrite <- E. auto. Qed.

Lemma process_round_nf s p stop pr : okeep_nf s (fst (fst (process_round (s, p, stop) pr))).
Proof.
  unfold process_round.
  assert (Kfail : forall s0, okeep_nf s0 (fail s0)) by (intros s0; apply ov_nf; destruct s0; reflexivity).
  destruct (stop || failed s); [apply okeep_nf_refl|].
  destruct (negb (snd pr)); [apply okeep_nf_refl|].
  destruct (get_round s (fst pr)); [|cbn [fst]; apply Kfail].
  pose proof (get_frame_nf s (fst pr)) as K1.
  destruct (get_frame s (fst pr)) as [[f|] s1]; cbn [fst snd] in *.
  - destruct (ov_nf _ _ (process_frame_ov s1 f)) as [K2 _].
    destruct (bump_nf (process_frame s1 f) (fst pr)) as [K3 _].
    eapply okeep_nf_trans; [exact K1|eapply okeep_nf_trans; [exact K2|exact K3]].
  - eapply okeep_nf_trans; [exact K1|apply Kfail].
Qed.

Lemma process_decided_rounds_nf st : okeep_nf st (process_decided_rounds st).
Proof.
  unfold process_decided_rounds.
  assert (G : forall l s p b, okeep_nf s (fst (fst (fold_left process_round l (s, p, b))))).
  { induction l as [|pr l IH]; intros s p b; cbn [fold_left]; [apply okeep_nf_refl|].
    pose proof (process_round_nf s p b pr) as K1.
    destruct (process_round (s, p, b) pr) as [[s1 p1] b1]. cbn [fst] in *.
    eapply okeep_nf_trans; [exact K1|apply IH]. }
  specialize (G (pending st) st [] false).
  destruct (fold_left process_round (pending st) (st, [], false)) as [[s processed] stop]. cbn [fst] in *.
  destruct (ov_nf s (s <| pending := filter (fun p => negb (existsb (Z.eqb (fst p)) processed)) (pending s) |>)) as [K2 _];
    [destruct s; reflexivity|].
  eapply okeep_nf_trans; eauto.
Qed.

Lemma hstep_fmemo all st o :
  ids_determine all -> hop_ok all o -> ginv all st -> fmemo st -> fmemo (hstep st o).
Proof.
  intros ID Ho G F.
  destruct (hstep_ginv all st o ID Ho G) as [_ [_ _ ME EE]].
  pose proof (hstep_cmono st o) as CM.
  destruct o as [e|]; cbn [hstep] in *.
  - unfold step, insert_and_run in *.
    pose proof (insert_event_bview st e) as Bv. pose proof (insert_event_cmono st e) as Ci.
    destruct (insert_event st e) as [r s] eqn:Ei. cbn [snd] in *.
    assert (Easy : forall s', bview s' = bview st -> cmono st s' -> memo_ext st s' -> eext st s' -> fmemo s').
    { intros s' B C M E. eapply fmemo_mono; eauto. apply bview_frames; exact B. }
    destruct r; cbn [snd] in *; try (apply Easy; auto; fail).
    destruct (run_consensus_split s) as [B|[s3 [B3 [C3 [D3 E3]]]]].
    + apply Easy; auto. congruence.
    + rewrite E3 in *.
      destruct (process_decided_rounds_nf s3) as [K1 [K2 _]].
      assert (F3 : fmemo s3).
      { eapply fmemo_mono; [eapply cmono_trans; [exact Ci|exact C3]|eapply memo_ext_back; eauto|eapply eext_back; eauto| |exact F].
        rewrite (PeerSetProofs.bview_frames _ _ B3). apply PeerSetProofs.bview_frames; exact Bv. }
      apply process_decided_rounds_fmemo; [|exact F3].
      (* the DAG invariant at the state handed to ProcessDecidedRounds *)
      destruct Ho as [Hin Hid].
      destruct (insert_event_inv st e all InsOk s (g_dag _ _ (gi_core _ _ G)) (g_from _ _ (gi_core _ _ G)) ID Hin Hid Ei) as [OKs _].
      exact (dag_ok_frame _ _ OKs D3).
  - eapply fmemo_mono; eauto.
    unfold process_sigpool. generalize (sigpool st). intros l. generalize st. clear.
    induction l as [|s l IH]; intros st; cbn [fold_left]; [reflexivity|]. rewrite IH. apply PeerSetProofs.process_sig_frames.
Qed.

Lemma fmemo_init self_ g oracle_ : fmemo (init_hg self_ g oracle_).
Proof.
  intros rr f.
  assert (E : frames (init_hg self_ g oracle_) = zempty).
  { unfold init_hg. destruct (set_peerset (empty_hg self_) 0 g) as [st|] eqn:S; [|reflexivity].
    pose proof (ov_set_peerset _ _ _ _ S) as O. unfold ov in O.
    assert (E : frames st = frames (empty_hg self_)) by congruence.
    change (frames (st <| validators := g |> <| oracle := oracle_ |>)) with (frames st). rewrite E. reflexivity. }
  rewrite E, zget_empty. discriminate.
Qed.

(* in every reachable state, every event of every cached frame (root events included) carries the
   serving node's memoised round and Lamport timestamp and the witness flag of its RoundInfo entry *)
Theorem hrun_fmemo all self_ g oracle_ ops :
  ids_determine all -> Forall (hop_ok all) ops -> fmemo (hrun (init_hg self_ g oracle_) ops).
Proof.
  intros ID Ho.
  assert (G : forall ops st, Forall (hop_ok all) ops -> ginv all st -> fmemo st -> fmemo (hrun st ops)).
  { induction ops0 as [|o ops0 IH]; intros st Hall Gi Fi; cbn [hrun fold_left]; [exact Fi|].
    inversion Hall; subst. apply IH; [assumption| |].
    - apply (hstep_ginv all st o ID H1 Gi).
    - apply (hstep_fmemo all st o ID H1 Gi Fi). }
  apply G; [exact Ho|apply ginv_init|apply fmemo_init].
Qed.

(* the reset node records, for every root / frame event, exactly the serving node's values *)
Theorem reset_values_are_servers all ss g os ops rr f v b cores v1 :
  ids_determine all -> Forall (hop_ok all) ops ->
  zget rr (frames (hrun (init_hg ss g os) ops)) = Some f ->
  frame_shape f -> core_fast_forward v b f cores = (true, v1) ->
  forall fe, In fe (all_frame_events f) ->
    exists es ri t,
      get_event v1 (fe_id fe) = Some es /\
      ev_round es = zget (fe_id fe) (round_memo (hrun (init_hg ss g os) ops)) /\
      ev_lt es = zget (fe_id fe) (lt_memo (hrun (init_hg ss g os) ops)) /\
      zget (fe_id fe) (round_memo v1) = zget (fe_id fe) (round_memo (hrun (init_hg ss g os) ops)) /\
      zget (fe_id fe) (lt_memo v1) = zget (fe_id fe) (lt_memo (hrun (init_hg ss g os) ops)) /\
      get_round (hrun (init_hg ss g os) ops) (fe_round fe) = Some ri /\
      aget (fe_id fe) (ri_created ri) = Some (fe_wit fe, t) /\
      zget (fe_id fe) (witness_memo v1) = Some (fe_wit fe).
Proof.
  intros ID Ho Hf FS H fe Hin.
  pose proof (proj1 (hrun_fmemo all ss g os ops ID Ho rr f Hf)) as FM. rewrite Forall_forall in FM.
  destruct (FM fe Hin) as (A & B & (ri & t & C1 & C2) & _).
  pose proof (reset_post_dag v b f cores v1 (reset_hg_post v b f cores v1 FS H)) as D.
  destruct (rd_event _ _ _ _ D fe Hin) as (e & es & ri' & _ & Hg & _ & Hr & Hl & _ & Mr & Mw & Ml & _).
  exists es, ri, t. rewrite A, B, Hr, Hl, Mr, Ml. repeat split; auto.
Qed.
