(* C13 / C02 after a reset (goal 2 of stage 2): the queue invariant of Proofs/RoundOrder.v generalised to
   states with roundLowerBound = Some lb, as reached from a fast-forward: the blocks delivered after
   the reset have strictly increasing round-received, all above the anchor's. *)
From Coq Require Import ZArith List Bool Lia ZifyBool Sorted.
From RecordUpdate Require Import RecordSet.
From V Require Import Model.ZMap Model.Quorum Model.Voting Model.HgImpl Model.HgReset
  Proofs.ZMapFacts Proofs.HgFrames Proofs.HgBlockFrames Proofs.BlockInv Proofs.RoundOrder Proofs.ResetProofs.
Import ListNotations RecordSetNotations.
Open Scope Z_scope.

Section R.
  (* lb: the lower bound (= the anchor's round-received); m: the highest round recorded by the reset;
     old: the commit callbacks made before the reset *)
  Variables (lb m : Z) (old : list block).
  Hypothesis Hm0 : -1 <= m.
  Hypothesis Hm : m <= lb.

  Record rinvRA (st : hg) : Prop := {
    ra_lb : lower_bound st = Some lb;
    ra_lr : -1 <= last_round st;
    ra_bound : forall r, get_round st r <> None -> 0 <= r <= last_round st;
    ra_contig : forall r, m < r <= last_round st -> get_round st r <> None;
    ra_memo : memo_ok st;
    ra_sorted : StronglySorted Z.lt (prounds st);
    ra_pend : forall r d, In (r, d) (pending st) ->
              exists ri, get_round st r = Some ri /\ (d = true -> ri_decided ri = true);
    ra_lc : exists l, last_consensus st = Some l /\ lb <= l /\ (l = lb \/ l <= last_round st);
    ra_frames : forall rr f, zget rr (frames st) = Some f -> f_round f = rr;
    ra_news : exists news, delivered st = old ++ news /\ StronglySorted Z.lt (map b_rr news) /\
              forall d, In d news -> lb < b_rr d /\ forall l, last_consensus st = Some l -> b_rr d <= l
  }.
  Record rinvRB (st : hg) : Prop := {
    rb_above : forall r, In r (prounds st) -> lc_lt st r;
    rb_q : forall r ri, get_round st r = Some ri -> lb < r -> In r (prounds st) \/ ri_decided ri = true
  }.
  Definition rinvR (st : hg) : Prop := rinvRA st /\ rinvRB st.

  Lemma rinvR_bounded st : rinvR st -> rounds_bounded st /\ memo_ok st.
  Proof. intros [A _]. split; [split; [apply (ra_lr st A)|apply (ra_bound st A)]|apply (ra_memo st A)]. Qed.

  Lemma rinvRA_rstep st st' : rinvRA st -> rstep st st' -> rinvRA st'.
  Proof.
    intros A S.
    assert (B : rounds_bounded st) by (split; [apply (ra_lr st A)|apply (ra_bound st A)]).
    constructor.
    - rewrite (s_lb _ _ S). apply (ra_lb st A).
    - rewrite (s_lr _ _ S). apply (ra_lr st A).
    - intros r Hr. rewrite (s_lr _ _ S). apply (ra_bound st A). intros C. apply Hr. apply (s_dom _ _ S). exact C.
    - intros r. rewrite (s_lr _ _ S). intros Hr C. apply (s_dom _ _ S) in C. revert C. apply (ra_contig st A). exact Hr.
    - apply (s_memo _ _ S); [exact B|apply (ra_memo st A)].
    - unfold prounds. rewrite (s_pend _ _ S). apply (ra_sorted st A).
    - intros r d. rewrite (s_pend _ _ S). intros Hin.
      destruct (ra_pend st A r d Hin) as [ri [Hri Hd]].
      destruct (get_round st' r) as [ri'|] eqn:H'.
      + exists ri'. split; [reflexivity|]. intros ->. eapply (s_dec _ _ S); eauto.
      + apply (s_dom _ _ S) in H'. congruence.
    - rewrite (s_lc _ _ S), (s_lr _ _ S). apply (ra_lc st A).
    - rewrite (s_fr _ _ S). apply (ra_frames st A).
    - rewrite (s_del _ _ S), (s_lc _ _ S). apply (ra_news st A).
  Qed.

  Lemma rinvRB_rstep st st' : rinvRB st -> rstep st st' -> rinvRB st'.
  Proof.
    intros [Ha Hq] S. constructor.
    - unfold prounds, lc_lt. rewrite (s_pend _ _ S), (s_lc _ _ S). exact Ha.
    - intros r ri' H' Hr. unfold prounds. rewrite (s_pend _ _ S).
      destruct (get_round st r) as [ri|] eqn:H.
      + destruct (Hq r ri H Hr) as [?|Hd]; [left; auto|right]. eapply (s_dec _ _ S); eauto.
      + apply (s_dom _ _ S) in H. congruence.
  Qed.

  Lemma rinvR_rstep st st' : rinvR st -> rstep st st' -> rinvR st'.
  Proof. intros [A B] S. split; [eapply rinvRA_rstep|eapply rinvRB_rstep]; eauto. Qed.

  (** * DivideRounds *)
  Lemma divide_queue_rinvR s1 s' r ri x w :
    rinvR s1 -> 0 <= r <= last_round s1 + 1 -> ri = round_or_new s1 r ->
    rstep (maybe_queue s1 r ri) s' ->
    rinvR (set_round s' r (add_created ri x w)).
  Proof.
    intros [A Bq] Hr Hri S.
    set (s2 := maybe_queue s1 r ri) in *.
    assert (E2 : rounds s2 = rounds s1 /\ last_round s2 = last_round s1 /\ last_consensus s2 = last_consensus s1 /\
                 lower_bound s2 = lower_bound s1 /\ frames s2 = frames s1 /\ delivered s2 = delivered s1 /\
                 round_memo s2 = round_memo s1).
    { subst s2. unfold maybe_queue. destruct (_ && _ && _); [destruct s1; cbn; auto 10|auto 10]. }
    destruct E2 as [E2r [E2l [E2c [E2b [E2f [E2d E2m]]]]]].
    assert (G2 : forall q, get_round s2 q = get_round s1 q) by (intros q; unfold get_round; rewrite E2r; reflexivity).
    set (cond := negb (queued s1 r) && negb (ri_decided ri) && (lb <? r)).
    assert (P2 : pending s2 = if cond then pending_insert r (pending s1) else pending s1).
    { subst s2 cond. unfold maybe_queue. rewrite (ra_lb s1 A).
      destruct (negb (queued s1 r) && negb (ri_decided ri) && (lb <? r)); [destruct s1; reflexivity|reflexivity]. }
    assert (B1 : rounds_bounded s1) by (split; [apply (ra_lr s1 A)|apply (ra_bound s1 A)]).
    assert (B2 : rounds_bounded s2).
    { destruct B1 as [B10 B1]. split; [rewrite E2l; exact B10|]. intros q. rewrite G2, E2l. apply B1. }
    assert (M2 : memo_ok s2) by (intros y q; rewrite E2m, E2l; apply (ra_memo s1 A)).
    pose proof (s_memo _ _ S B2 M2) as M'.
    set (F := set_round s' r (add_created ri x w)).
    assert (GF : forall q, get_round F q = if q =? r then Some (add_created ri x w) else get_round s' q)
      by (intros q; apply get_round_set_round; lia).
    assert (LF : last_round F = Z.max r (last_round s1)).
    { subst F. unfold set_round. rewrite <- E2l, <- (s_lr _ _ S). destruct s'; reflexivity. }
    assert (PF : pending F = pending s2) by (rewrite <- (s_pend _ _ S); subst F; destruct s'; reflexivity).
    assert (CF : last_consensus F = last_consensus s1) by (rewrite <- E2c, <- (s_lc _ _ S); subst F; destruct s'; reflexivity).
    assert (BF : lower_bound F = lower_bound s1) by (rewrite <- E2b, <- (s_lb _ _ S); subst F; destruct s'; reflexivity).
    assert (FF : frames F = frames s1) by (rewrite <- E2f, <- (s_fr _ _ S); subst F; destruct s'; reflexivity).
    assert (DF : delivered F = delivered s1) by (rewrite <- E2d, <- (s_del _ _ S); subst F; destruct s'; reflexivity).
    assert (MF : round_memo F = round_memo s') by (subst F; destruct s'; reflexivity).
    assert (Dom : forall q, get_round s' q = None <-> get_round s1 q = None) by (intros q; rewrite <- G2; apply (s_dom _ _ S)).
    assert (Dec : forall q a b, get_round s1 q = Some a -> get_round s' q = Some b -> ri_decided a = true -> ri_decided b = true).
    { intros q a b Ha Hb. rewrite <- G2 in Ha. apply (s_dec _ _ S _ _ _ Ha Hb). }
    assert (Hexist : forall a, get_round s1 r = Some a -> ri = a).
    { intros a Ha. rewrite Hri. unfold round_or_new. rewrite Ha. reflexivity. }
    assert (Hnew : get_round s1 r = None -> ri = new_rinfo /\ ~ In r (prounds s1) /\ (lb < r -> r = last_round s1 + 1)).
    { intros Hn. split; [rewrite Hri; unfold round_or_new; rewrite Hn; reflexivity|]. split.
      - intros Hin. unfold prounds in Hin. apply in_map_iff in Hin. destruct Hin as [[q d] [Hq Hin]]. cbn in Hq. subst q.
        destruct (ra_pend s1 A _ _ Hin) as [a [Ha _]]. congruence.
      - intros Hlb. destruct (Z.eq_dec r (last_round s1 + 1)); [auto|exfalso].
        assert (Hc : get_round s1 r <> None) by (apply (ra_contig s1 A); lia). congruence. }
    assert (Sub : forall q, In q (prounds s1) -> In q (map fst (pending s2))).
    { intros q Hq. rewrite P2. destruct cond; [apply pending_insert_fst; right|]; exact Hq. }
    split; constructor.
    - rewrite BF. apply (ra_lb s1 A).
    - rewrite LF. pose proof (ra_lr s1 A). lia.
    - intros q. rewrite GF, LF. destruct (Z.eqb_spec q r) as [->|Hne]; [lia|].
      intros H. assert (H1 : get_round s1 q <> None) by (intros C; apply H; apply Dom; exact C).
      apply (ra_bound s1 A) in H1. lia.
    - intros q. rewrite GF, LF. destruct (Z.eqb_spec q r) as [->|Hne]; [discriminate|].
      intros H C. apply Dom in C. revert C. apply (ra_contig s1 A). lia.
    - intros y q. rewrite MF, LF. intros H. specialize (M' y q H). rewrite (s_lr _ _ S), E2l in M'. lia.
    - unfold prounds. rewrite PF, P2. destruct cond eqn:C; [|apply (ra_sorted s1 A)].
      apply pending_insert_sorted; [apply (ra_sorted s1 A)|].
      intros Hin. apply queued_In in Hin. subst cond. rewrite Hin in C. discriminate.
    - intros q d. rewrite PF, P2, GF. intros Hin.
      assert (Hold : In (q, d) (pending s1) ->
                exists ri0, (if q =? r then Some (add_created ri x w) else get_round s' q) = Some ri0 /\ (d = true -> ri_decided ri0 = true)).
      { intros Ho. destruct (ra_pend s1 A _ _ Ho) as [a [Ha Hd]]. destruct (Z.eqb_spec q r) as [->|Hne].
        - exists (add_created ri x w). split; [reflexivity|]. rewrite add_created_decided, (Hexist _ Ha). exact Hd.
        - destruct (get_round s' q) as [b|] eqn:Hb; [|apply Dom in Hb; congruence].
          exists b. split; [reflexivity|]. intros Hd'. eapply Dec; eauto. }
      destruct cond; [|auto].
      apply pending_insert_In in Hin. destruct Hin as [Hin|Hin]; [|auto].
      inversion Hin; subst. rewrite Z.eqb_refl. eexists; split; [reflexivity|discriminate].
    - rewrite CF, LF. destruct (ra_lc s1 A) as [l [Hl [H1 H2]]]. exists l. split; [exact Hl|split; [exact H1|]]. destruct H2; [auto|right; lia].
    - rewrite FF. apply (ra_frames s1 A).
    - rewrite DF, CF. apply (ra_news s1 A).
    - unfold prounds, lc_lt. rewrite PF, P2, CF. intros q.
      destruct cond eqn:C; [|apply (rb_above s1 Bq)].
      intros Hin. apply pending_insert_fst in Hin. destruct Hin as [->|Hin]; [|apply (rb_above s1 Bq); exact Hin].
      subst cond. apply andb_prop in C. destruct C as [C Clb]. assert (Hlb : lb < r) by lia.
      destruct (get_round s1 r) as [a|] eqn:Ha.
      + exfalso. rewrite (Hexist _ eq_refl) in C. destruct (rb_q s1 Bq _ _ Ha Hlb) as [Hin|Hd].
        * apply queued_In in Hin. rewrite Hin in C. discriminate.
        * rewrite Hd in C. rewrite andb_false_r in C. discriminate.
      + destruct (Hnew eq_refl) as [_ [_ Hr']]. specialize (Hr' Hlb).
        destruct (ra_lc s1 A) as [l [Hl [H1 H2]]]. rewrite Hl. destruct H2; lia.
    - intros q b. rewrite GF. unfold prounds. rewrite PF. destruct (Z.eqb_spec q r) as [->|Hne].
      + intros H Hlb; inversion H; subst b. rewrite add_created_decided.
        destruct (get_round s1 r) as [a|] eqn:Ha.
        * rewrite (Hexist _ eq_refl). destruct (rb_q s1 Bq _ _ Ha Hlb) as [Hin|Hd]; [left; apply Sub; exact Hin|right; exact Hd].
        * destruct (Hnew eq_refl) as [Hn [Hq _]]. left. rewrite P2. subst cond.
          replace (queued s1 r) with false; [|symmetry; apply not_true_is_false; intros C; apply Hq, queued_In; exact C].
          rewrite Hn. cbn [negb ri_decided new_rinfo andb]. replace (lb <? r) with true by lia.
          apply pending_insert_fst. left; reflexivity.
      + intros Hb Hlb. destruct (get_round s1 q) as [a|] eqn:Ha; [|apply Dom in Ha; congruence].
        destruct (rb_q s1 Bq _ _ Ha Hlb) as [Hin|Hd]; [left; apply Sub; exact Hin|right; eapply Dec; eauto].
  Qed.

  Definition rinvR_f (st : hg) : Prop := failed st = true \/ rinvR st.

  Lemma divide_round_rinvR st x : rinvR st -> rinvR_f (divide_round st x).
  Proof.
    intros I. unfold divide_round.
    destruct (rinvR_bounded st I) as [B M].
    pose proof (round_f_rstep (fuel_of st) st x) as Sr.
    destruct (round_f_memo (fuel_of st) st x B M) as [_ Hb].
    destruct (round_f (fuel_of st) st x) as [[r|] s]; cbn [fst snd] in *; [|left; apply failed_fail].
    cbv zeta. specialize (Hb r eq_refl).
    set (s1 := set_event_round s x r).
    assert (S1 : rstep s s1).
    { subst s1. unfold set_event_round. destruct (get_event s x); [apply rstep_rv, rv_set_evst|apply rstep_refl]. }
    assert (I1 : rinvR s1) by (eapply rinvR_rstep; [eapply rinvR_rstep; eauto|exact S1]).
    assert (L1 : last_round s1 = last_round st) by (rewrite (s_lr _ _ S1); apply (s_lr _ _ Sr)).
    set (ri := round_or_new s1 r).
    pose proof (witness_f_rstep (fuel_of (maybe_queue s1 r ri)) (maybe_queue s1 r ri) x) as Sw.
    destruct (witness_f (fuel_of (maybe_queue s1 r ri)) (maybe_queue s1 r ri) x) as [[w|] s']; cbn [snd] in Sw;
      [|left; apply failed_fail].
    right. eapply divide_queue_rinvR; eauto. rewrite L1. exact Hb.
  Qed.

  Lemma divide_lt_rinvR st x : rinvR st -> rinvR (divide_lt st x).
  Proof.
    intros I. unfold divide_lt.
    pose proof (lamport_f_rv (fuel_of st) st x) as E.
    destruct (lamport_f (fuel_of st) st x) as [[t|] s]; cbn [snd] in E.
    - unfold set_event_lt. destruct (get_event s x); [|eapply rinvR_rstep; [exact I|apply rstep_rv; exact E]].
      eapply rinvR_rstep; [exact I|]. apply rstep_rv. rewrite rv_set_evst. exact E.
    - eapply rinvR_rstep; [exact I|]. apply rstep_rv. rewrite rv_fail. exact E.
  Qed.

  Lemma divide_one_rinvR st x : rinvR_f st -> rinvR_f (divide_one st x).
  Proof.
    intros I. unfold divide_one.
    destruct (failed st) eqn:Hf; [left; exact Hf|].
    destruct I as [I|I]; [congruence|].
    destruct (get_event st x) as [ev|]; [|left; apply failed_fail].
    cbv zeta.
    set (st1 := match ev_round ev with Some _ => st | None => divide_round st x end).
    assert (I1 : rinvR_f st1).
    { subst st1; destruct (ev_round ev); [right; exact I|apply divide_round_rinvR; exact I]. }
    destruct (failed st1) eqn:Hf1; [left; exact Hf1|].
    destruct I1 as [I1|I1]; [congruence|].
    destruct (get_event st1 x) as [ev1|]; [|left; apply failed_fail].
    destruct (ev_lt ev1); right; [exact I1|apply divide_lt_rinvR; exact I1].
  Qed.

  Lemma divide_rounds_rinvR st : rinvR_f st -> rinvR_f (divide_rounds st).
  Proof.
    unfold divide_rounds. generalize (undetermined st). intros l. revert st.
    induction l as [|x l IH]; intros st I; cbn [fold_left]; [exact I|]. apply IH, divide_one_rinvR, I.
  Qed.

  (** * DecideFame *)
  Lemma rinvR_mark s dec :
    rinvR s -> all_decided s dec ->
    rinvR (s <| pending := map (fun p => if existsb (Z.eqb (fst p)) dec then (fst p, true) else p) (pending s) |>).
  Proof.
    intros [A B] AD.
    set (mk := fun p : Z * bool => if existsb (Z.eqb (fst p)) dec then (fst p, true) else p).
    set (s' := s <| pending := map mk (pending s) |>).
    assert (Hfst : prounds s' = prounds s).
    { unfold prounds. replace (pending s') with (map mk (pending s)) by (destruct s; reflexivity).
      rewrite map_map. apply map_ext. intros p. unfold mk. destruct (existsb _ _); reflexivity. }
    assert (G : forall q, get_round s' q = get_round s q) by (intros q; destruct s; reflexivity).
    split; constructor.
    - replace (lower_bound s') with (lower_bound s) by (destruct s; reflexivity). apply (ra_lb s A).
    - replace (last_round s') with (last_round s) by (destruct s; reflexivity). apply (ra_lr s A).
    - intros q. rewrite G. replace (last_round s') with (last_round s) by (destruct s; reflexivity). apply (ra_bound s A).
    - intros q. rewrite G. replace (last_round s') with (last_round s) by (destruct s; reflexivity). apply (ra_contig s A).
    - pose proof (ra_memo s A) as M. destruct s; exact M.
    - rewrite Hfst. apply (ra_sorted s A).
    - intros q d. replace (pending s') with (map mk (pending s)) by (destruct s; reflexivity).
      intros Hin. apply in_map_iff in Hin. destruct Hin as [[q0 d0] [Hmk Hin]]. rewrite G.
      unfold mk in Hmk. cbn [fst] in Hmk. destruct (existsb (Z.eqb q0) dec) eqn:Ex.
      + inversion Hmk; subst. apply existsb_exists in Ex. destruct Ex as [y [Hy He]]. apply Z.eqb_eq in He. subst y.
        destruct (AD _ Hy) as [ri [Hr Hd]]. exists ri. auto.
      + inversion Hmk; subst. apply (ra_pend s A _ _ Hin).
    - replace (last_consensus s') with (last_consensus s) by (destruct s; reflexivity).
      replace (last_round s') with (last_round s) by (destruct s; reflexivity). apply (ra_lc s A).
    - replace (frames s') with (frames s) by (destruct s; reflexivity). apply (ra_frames s A).
    - replace (delivered s') with (delivered s) by (destruct s; reflexivity).
      replace (last_consensus s') with (last_consensus s) by (destruct s; reflexivity). apply (ra_news s A).
    - rewrite Hfst. unfold lc_lt. replace (last_consensus s') with (last_consensus s) by (destruct s; reflexivity).
      apply (rb_above s B).
    - intros q ri. rewrite G, Hfst. apply (rb_q s B).
  Qed.

  Lemma decide_fame_rinvR st : rinvR st -> rinvR (decide_fame st).
  Proof.
    intros I. unfold decide_fame.
    assert (G : forall l s dec, rinvR s -> all_decided s dec ->
                rinvR (fst (fold_left decide_fame_round l (s, dec))) /\
                all_decided (fst (fold_left decide_fame_round l (s, dec))) (snd (fold_left decide_fame_round l (s, dec)))).
    { induction l as [|pr l IH]; intros s dec Is AD; cbn [fold_left]; [auto|].
      destruct (decide_fame_round_rstep s dec pr (proj1 (rinvR_bounded s Is)) AD) as [S AD'].
      destruct (decide_fame_round (s, dec) pr) as [s' dec']. cbn [fst snd] in *.
      apply IH; [eapply rinvR_rstep; eauto|exact AD']. }
    specialize (G (pending st) st [] I ltac:(intros q [])).
    destruct (fold_left decide_fame_round (pending st) (st, [])) as [s decided]. cbn [fst snd] in G.
    destruct G as [Is AD]. destruct (failed s); [exact Is|]. apply rinvR_mark; assumption.
  Qed.

  (** * ProcessDecidedRounds *)
  Lemma rinvRA_update s s' :
    rinvRA s -> pkeep s s' ->
    (forall q g, zget q (frames s') = Some g -> f_round g = q) ->
    (exists l, last_consensus s' = Some l /\ lb <= l /\ (l = lb \/ l <= last_round s)) ->
    (exists news, delivered s' = old ++ news /\ StronglySorted Z.lt (map b_rr news) /\
        forall d, In d news -> lb < b_rr d /\ forall l, last_consensus s' = Some l -> b_rr d <= l) ->
    rinvRA s'.
  Proof.
    intros A [K1 [K2 [K3 [K4 K5]]]] HF HL HN.
    assert (G : forall q, get_round s' q = get_round s q) by (intros q; unfold get_round; rewrite K1; reflexivity).
    constructor.
    - rewrite K4. apply (ra_lb s A).
    - rewrite K2. apply (ra_lr s A).
    - intros q. rewrite G, K2. apply (ra_bound s A).
    - intros q. rewrite G, K2. apply (ra_contig s A).
    - intros x q. rewrite K5, K2. apply (ra_memo s A).
    - unfold prounds. rewrite K3. apply (ra_sorted s A).
    - intros q d. rewrite K3, G. apply (ra_pend s A).
    - rewrite K2. exact HL.
    - exact HF.
    - exact HN.
  Qed.

  Lemma process_round_specR s p stop pr :
    rinvRA s -> lc_lt s (fst pr) ->
    rinvRA (fst (fst (process_round (s, p, stop) pr))) /\
    pkeep s (fst (fst (process_round (s, p, stop) pr))) /\
    ((snd (fst (process_round (s, p, stop) pr)) = p /\
      last_consensus (fst (fst (process_round (s, p, stop) pr))) = last_consensus s /\
      (snd (process_round (s, p, stop) pr) = true \/ failed (fst (fst (process_round (s, p, stop) pr))) = true)) \/
     (snd (fst (process_round (s, p, stop) pr)) = p ++ [fst pr] /\ snd pr = true /\
      last_consensus (fst (fst (process_round (s, p, stop) pr))) = Some (fst pr))).
  Proof.
    intros A Hlt. unfold process_round.
    assert (Afail : forall s0, rinvRA s0 -> rinvRA (fail s0)).
    { intros s0 A0. eapply rinvRA_rstep; [exact A0|apply rstep_rv, rv_fail]. }
    assert (Kfail : forall s0, pkeep s0 (fail s0)) by (intros s0; apply pkeep_cv; destruct s0; reflexivity).
    assert (Lfail : forall s0, last_consensus (fail s0) = last_consensus s0) by (intros s0; destruct s0; reflexivity).
    destruct (stop || failed s) eqn:Hstop.
    { cbn [fst snd]. split; [exact A|]. split; [apply pkeep_refl|]. left. split; [reflexivity|]. split; [reflexivity|].
      destruct stop; [left; reflexivity|right; exact Hstop]. }
    destruct (snd pr) eqn:Hd; cbn [negb].
    2:{ cbn [fst snd]. split; [exact A|]. split; [apply pkeep_refl|]. left. auto. }
    destruct (get_round s (fst pr)) as [ri|] eqn:Hri.
    2:{ cbn [fst snd]. split; [apply Afail, A|]. split; [apply Kfail|]. left. split; [reflexivity|]. split; [apply Lfail|left; reflexivity]. }
    destruct (get_frame s (fst pr)) as [[f|] s1] eqn:Hgf.
    2:{ apply get_frame_none in Hgf. subst s1. cbn [fst snd]. split; [apply Afail, A|]. split; [apply Kfail|]. left.
        split; [reflexivity|]. split; [apply Lfail|left; reflexivity]. }
    destruct (get_frame_spec s (fst pr) f s1 (ra_frames s A) Hgf) as [Hfr [Hd1 [K1 [K2 [K3 [Hc1 [K4 [K5 HF1]]]]]]]].
    cbn [fst snd].
    set (r := fst pr) in *. set (s2 := process_frame s1 f).
    pose proof (process_frame_cv s1 f) as C2. fold s2 in C2.
    assert (K12 : pkeep s s2).
    { eapply pkeep_trans; [|apply pkeep_cv; exact C2]. unfold pkeep; auto. }
    assert (Lc2 : last_consensus s2 = last_consensus s).
    { unfold cv in C2. inversion C2. congruence. }
    assert (Fr2 : frames s2 = frames s1) by (unfold cv in C2; inversion C2; congruence).
    set (s3 := bump_last_consensus s2 r).
    assert (Lc3 : last_consensus s3 = Some r).
    { subst s3. apply bump_lc. unfold lc_lt in *. rewrite Lc2. exact Hlt. }
    destruct (bump_keep s2 r) as [K23 [Fr3 Dl3]]. fold s3 in K23, Fr3, Dl3.
    assert (Hrb : 0 <= r <= last_round s) by (apply (ra_bound s A); congruence).
    destruct (ra_lc s A) as [l [Hl [Hlb _]]].
    assert (Hlr : l < r) by (unfold lc_lt in Hlt; rewrite Hl in Hlt; exact Hlt).
    destruct (ra_news s A) as [news [Dn [Sn Hn]]].
    assert (Hprev : forall d, In d news -> lb < b_rr d /\ b_rr d < r).
    { intros d Hin. destruct (Hn d Hin) as [H1 H2]. specialize (H2 l Hl). lia. }
    split; [|split; [eapply pkeep_trans; eauto|right; auto]].
    eapply rinvRA_update; [exact A|eapply pkeep_trans; eauto| | |].
    - rewrite Fr3, Fr2. exact HF1.
    - exists r. split; [exact Lc3|]. split; [lia|right; lia].
    - rewrite Dl3. destruct (process_frame_delivered s1 f) as [E|[bf [E Hb]]]; fold s2 in E; rewrite E, Hd1, Dn.
      + exists news. split; [reflexivity|split; [exact Sn|]]. intros d Hin. destruct (Hprev d Hin). split; [lia|].
        intros l' Hl'. rewrite Lc3 in Hl'. inversion Hl'; subst. lia.
      + exists (news ++ [bf]). split; [rewrite app_assoc; reflexivity|]. split.
        * rewrite map_app. cbn [map]. apply StronglySorted_app_one; [exact Sn|].
          intros y Hy. apply in_map_iff in Hy. destruct Hy as [d [<- Hin]]. rewrite Hb, Hfr. apply Hprev; exact Hin.
        * intros d Hin. apply in_app_or in Hin. destruct Hin as [Hin|[<-|[]]].
          -- destruct (Hprev d Hin). split; [lia|]. intros l' Hl'. rewrite Lc3 in Hl'. inversion Hl'; subst. lia.
          -- rewrite Hb, Hfr. split; [lia|]. intros l' Hl'. rewrite Lc3 in Hl'. inversion Hl'; subst. lia.
  Qed.

  Lemma process_fold_specR l : forall s p stop,
    rinvRA s -> StronglySorted Z.lt (map fst l) -> (forall r, In r (map fst l) -> lc_lt s r) ->
    let res := fold_left process_round l (s, p, stop) in
    rinvRA (fst (fst res)) /\ pkeep s (fst (fst res)) /\
    (forall r, In r (map fst l) -> In r (snd (fst res)) \/ lc_lt (fst (fst res)) r) /\
    (forall r, In r (snd (fst res)) -> In r p \/ In (r, true) l) /\
    (forall r, In r p -> In r (snd (fst res))).
  Proof.
    induction l as [|pr l IH]; intros s p stop A S Hab; cbn [fold_left].
    - cbn [fst snd]. split; [exact A|]. split; [apply pkeep_refl|]. split; [intros r []|]. split; auto.
    - cbv zeta. inversion S as [|a b S' Fa]; subst.
      assert (Hpr : lc_lt s (fst pr)) by (apply Hab; left; reflexivity).
      destruct (process_round_specR s p stop pr A Hpr) as [A1 [K1 C]].
      destruct (process_round (s, p, stop) pr) as [[s1 p1] stop1] eqn:E. cbn [fst snd] in *.
      destruct C as [[-> [Hlc Hs]]|[-> [Hd Hlc]]].
      + rewrite (process_fold_stopped l s1 p stop1 Hs). cbn [fst snd].
        split; [exact A1|]. split; [exact K1|]. split; [|split; auto].
        intros r Hr. right. unfold lc_lt. rewrite Hlc. apply Hab. exact Hr.
      + assert (Hab1 : forall r, In r (map fst l) -> lc_lt s1 r).
        { intros r Hr. unfold lc_lt. rewrite Hlc. rewrite Forall_forall in Fa. apply Fa. exact Hr. }
        destruct (IH s1 (p ++ [fst pr]) stop1 A1 S' Hab1) as [A2 [K2 [H1 [H2 H3]]]].
        split; [exact A2|]. split; [eapply pkeep_trans; eauto|]. split; [|split].
        * intros r [<-|Hr]; [left; apply H3; apply in_or_app; right; left; reflexivity|apply H1; exact Hr].
        * intros r Hr. destruct (H2 r Hr) as [Hin|Hin]; [|right; right; exact Hin].
          apply in_app_or in Hin. destruct Hin as [Hin|[<-|[]]]; [left; exact Hin|right; left].
          destruct pr; cbn in *; congruence.
        * intros r Hr. apply H3. apply in_or_app. left; exact Hr.
  Qed.

  Lemma process_decided_rounds_rinvR st : rinvR st -> rinvR (process_decided_rounds st).
  Proof.
    intros [A B]. unfold process_decided_rounds.
    pose proof (process_fold_specR (pending st) st [] false A (ra_sorted st A) (rb_above st B)) as G. cbv zeta in G.
    destruct (fold_left process_round (pending st) (st, [], false)) as [[s processed] stop]. cbn [fst snd] in G.
    destruct G as [As [[K1 [K2 [K3 [K4 K5]]]] [H1 [H2 _]]]].
    set (flt := fun p : Z * bool => negb (existsb (Z.eqb (fst p)) processed)).
    set (s' := s <| pending := filter flt (pending s) |>).
    assert (Gs : forall q, get_round s q = get_round st q) by (intros q; unfold get_round; rewrite K1; reflexivity).
    assert (G : forall q, get_round s' q = get_round s q) by (intros q; destruct s; reflexivity).
    assert (P : pending s' = filter flt (pending st)) by (rewrite <- K3; destruct s; reflexivity).
    assert (Hproc : forall q, In q processed <-> existsb (Z.eqb q) processed = true).
    { intros q. rewrite existsb_exists. split; [intros H; exists q; split; [auto|lia]|].
      intros [y [Hy He]]. apply Z.eqb_eq in He. subst. exact Hy. }
    split; constructor.
    - replace (lower_bound s') with (lower_bound s) by (destruct s; reflexivity). apply (ra_lb s As).
    - replace (last_round s') with (last_round s) by (destruct s; reflexivity). apply (ra_lr s As).
    - intros q. rewrite G. replace (last_round s') with (last_round s) by (destruct s; reflexivity). apply (ra_bound s As).
    - intros q. rewrite G. replace (last_round s') with (last_round s) by (destruct s; reflexivity). apply (ra_contig s As).
    - pose proof (ra_memo s As) as M. destruct s; exact M.
    - unfold prounds. rewrite P. apply sorted_filter_fst. apply (ra_sorted st A).
    - intros q d. rewrite P, G. intros Hin. apply filter_In in Hin. destruct Hin as [Hin _].
      rewrite <- K3 in Hin. apply (ra_pend s As _ _ Hin).
    - replace (last_consensus s') with (last_consensus s) by (destruct s; reflexivity).
      replace (last_round s') with (last_round s) by (destruct s; reflexivity). apply (ra_lc s As).
    - replace (frames s') with (frames s) by (destruct s; reflexivity). apply (ra_frames s As).
    - replace (delivered s') with (delivered s) by (destruct s; reflexivity).
      replace (last_consensus s') with (last_consensus s) by (destruct s; reflexivity). apply (ra_news s As).
    - unfold prounds. rewrite P. intros q Hq. apply in_map_iff in Hq. destruct Hq as [pq [<- Hq]].
      apply filter_In in Hq. destruct Hq as [Hin Hf]. unfold flt in Hf.
      assert (Hlt : lc_lt s (fst pq)).
      { destruct (H1 (fst pq) (in_map fst _ _ Hin)) as [Hp|Hl]; [|exact Hl].
        apply Hproc in Hp. rewrite Hp in Hf. discriminate. }
      unfold lc_lt in *. replace (last_consensus s') with (last_consensus s) by (destruct s; reflexivity). exact Hlt.
    - intros q ri. rewrite G, Gs. intros Hq Hlb. unfold prounds. rewrite P.
      destruct (rb_q st B q ri Hq Hlb) as [Hin|Hd]; [|right; exact Hd].
      destruct (existsb (Z.eqb q) processed) eqn:Ex.
      + right. apply Hproc in Ex. destruct (H2 q Ex) as [[]|Hin2].
        destruct (ra_pend st A _ _ Hin2) as [ri2 [Hri2 Hd2]]. rewrite Hq in Hri2. inversion Hri2; subst. auto.
      + left. unfold prounds in Hin. apply in_map_iff in Hin. destruct Hin as [pq [<- Hin]].
        apply in_map. apply filter_In. split; [exact Hin|]. unfold flt. rewrite Ex. reflexivity.
  Qed.

  (** * A whole step: the invariant holds unless a pass hit a store error; the sorted deliveries always *)
  Definition news_sorted (st : hg) : Prop :=
    exists news, delivered st = old ++ news /\ StronglySorted Z.lt (map b_rr news) /\ forall d, In d news -> lb < b_rr d.

  Definition rtopR (st : hg) : Prop := news_sorted st /\ (failed st = false -> rinvR st).

  Lemma rinvR_news st : rinvR st -> news_sorted st.
  Proof. intros [A _]. destruct (ra_news st A) as [news [D [S H]]]. exists news. split; [exact D|split; [exact S|]]. intros d Hd. apply (H d Hd). Qed.

  Lemma rinvR_rtopR st : rinvR st -> rtopR st.
  Proof. intros I. split; [apply rinvR_news; exact I|auto]. Qed.

  Lemma news_sorted_del st st' : delivered st' = delivered st -> news_sorted st -> news_sorted st'.
  Proof. intros E [news H]. exists news. rewrite E. exact H. Qed.

  Lemma run_consensus_rtopR st : rtopR st -> rtopR (run_consensus st).
  Proof.
    intros [Hs Hi]. unfold run_consensus.
    destruct (failed st) eqn:Hf.
    { rewrite (divide_rounds_failed st Hf), Hf. split; [exact Hs|congruence]. }
    specialize (Hi eq_refl).
    pose proof (divide_rounds_rinvR st (or_intror Hi)) as I1.
    pose proof (delivered_bview _ _ (divide_rounds_bview st)) as D1.
    destruct (failed (divide_rounds st)) eqn:Hf1.
    { split; [eapply news_sorted_del; eauto|congruence]. }
    destruct I1 as [I1|I1]; [congruence|].
    pose proof (decide_fame_rinvR _ I1) as I2.
    destruct (failed (decide_fame (divide_rounds st))); [apply rinvR_rtopR; exact I2|].
    assert (I3 : rinvR (decide_round_received (decide_fame (divide_rounds st)))).
    { eapply rinvR_rstep; [exact I2|]. apply decide_round_received_rstep. apply (rinvR_bounded _ I2). }
    destruct (failed (decide_round_received _)); [apply rinvR_rtopR; exact I3|].
    apply rinvR_rtopR, process_decided_rounds_rinvR, I3.
  Qed.

  Lemma rtopR_rstep st st' : rtopR st -> rstep st st' -> failed st' = failed st -> rtopR st'.
  Proof.
    intros [Hs Hi] S Hf. split; [eapply news_sorted_del; [apply (s_del _ _ S)|exact Hs]|].
    rewrite Hf. intros H. eapply rinvR_rstep; eauto.
  Qed.

  Lemma hstep_rtopR st o : rtopR st -> rtopR (hstep st o).
  Proof.
    intros T. destruct o as [e|]; cbn [hstep].
    - unfold step, insert_and_run.
      pose proof (insert_event_rstep st e) as S. pose proof (insert_event_failed st e) as F.
      destruct (insert_event st e) as [r s]. cbn [snd] in *.
      assert (Ts : rtopR s) by (eapply rtopR_rstep; eauto).
      destruct r; cbn [snd]; auto. apply run_consensus_rtopR. exact Ts.
    - unfold process_sigpool. generalize (sigpool st). intros l. revert st T.
      induction l as [|s l IH]; intros st T; cbn [fold_left]; [exact T|]. apply IH.
      destruct (process_sig_rv st s) as [E F]. eapply rtopR_rstep; [exact T|apply rstep_rv; exact E|exact F].
  Qed.

  Lemma hrun_rtopR ops : forall st, rtopR st -> rtopR (hrun st ops).
  Proof. induction ops as [|o ops IH]; intros st T; cbn [hrun fold_left]; [exact T|]. apply IH, hstep_rtopR, T. Qed.
End R.

(** * The state after a fast-forward satisfies the invariant *)

Lemma insert_frame_event_last_round st fe e :
  last_round (snd (insert_frame_event st fe e)) = Z.max (fe_round fe) (last_round st).
Proof.
  unfold insert_frame_event. cbv zeta.
  set (st1 := memo_frame_event st fe).
  set (st2 := set_round st1 (fe_round fe) _).
  assert (L2 : last_round st2 = Z.max (fe_round fe) (last_round st)) by (subst st2 st1; destruct st; reflexivity).
  set (st3 := st2 <| topo := topo st2 + 1 |>).
  assert (L3 : last_round st3 = last_round st2) by (destruct st2; reflexivity).
  destruct (store_set_event st3 _) as [st4|] eqn:S; cbn [snd]; [|congruence].
  apply store_set_event_rv in S.
  assert (L4 : last_round st4 = last_round st3) by (unfold rv, cv in S; congruence).
  match goal with |- last_round (store_add_consensus_event ?s e) = _ =>
    replace (last_round (store_add_consensus_event s e)) with (last_round s) by (destruct s; reflexivity) end.
  rewrite (s_lr _ _ (update_ancestor_fd_rstep st4 e _)). congruence.
Qed.

Lemma insert_frame_events_last_round cores bound : forall l st,
  Forall (fun fe => fe_round fe <= bound) l -> last_round st <= bound ->
  last_round (snd (insert_frame_events st l cores)) <= bound.
Proof.
  induction l as [|fe rest IH]; intros st F H; cbn [insert_frame_events]; [exact H|].
  inversion F; subst. destruct (core_of cores (fe_id fe)) as [e|]; [|exact H].
  pose proof (insert_frame_event_last_round st fe e) as L.
  destruct (insert_frame_event st fe e) as [[|] s]; cbn [snd] in *; [apply IH; [assumption|lia]|lia].
Qed.

Section Establish.
  Variables (v : hg) (b : block) (f : frame) (cores : list event) (v' : hg).
  Hypothesis FS : frame_shape f.
  Hypothesis RB : Forall (fun fe => fe_round fe <= b_rr b) (all_frame_events f).
  Hypothesis R0 : 0 <= b_rr b.
  Hypothesis FF : node_fast_forward v b f cores = (true, v').

  Lemma reset_last_round : -1 <= last_round v' <= b_rr b.
  Proof.
    unfold node_fast_forward in FF. destruct (core_fast_forward v b f cores) as [[|] v1] eqn:E; [|discriminate].
    inversion FF; subst v'; clear FF.
    replace (last_round (process_receipts v1 (b_rr b) (b_itxs b))) with (last_round v1)
      by (pose proof (cv_process_receipts v1 (b_rr b) (b_itxs b)) as C; unfold cv in C; congruence).
    pose proof (reset_hg_post v b f cores v1 FS E) as P.
    split; [apply (proj1 (li_lr _ _ _ _ (rp_dag _ _ _ _ _ P)))|].
    unfold core_fast_forward, reset_hg in E.
    destruct (store_reset (hg_clear v) f) as [[|] s1] eqn:E1; [|discriminate].
    pose proof (insert_frame_events_last_round cores (b_rr b) (sorted_frame_events cores f) s1) as L.
    destruct (insert_frame_events s1 (sorted_frame_events cores f) cores) as [[|] s2] eqn:E2; [|discriminate].
    inversion E; subst v1. cbn [snd] in L.
    replace (last_round (reset_finish s2 b <| validators := ff_validators f |>)) with (last_round s2)
      by (unfold reset_finish, store_set_block; destruct s2; reflexivity).
    apply L.
    - rewrite Forall_forall in *. intros fe Hin. apply RB.
      eapply Permutation.Permutation_in; [apply rfe_sort_perm|exact Hin].
    - rewrite (cl_last_round _ _ _ (store_reset_cleared v f s1 E1)). lia.
  Qed.

  Theorem reset_rinvR : rinvR (b_rr b) (last_round v') (delivered v) v'.
  Proof.
    pose proof reset_last_round as [Lm0 Lm].
    unfold node_fast_forward in FF. destruct (core_fast_forward v b f cores) as [[|] v1] eqn:E; [|discriminate].
    inversion FF; subst v'; clear FF.
    pose proof (reset_hg_post v b f cores v1 FS E) as P.
    pose proof (reset_post_dag v b f cores v1 P) as D.
    assert (Cv : cv (process_receipts v1 (b_rr b) (b_itxs b)) = cv v1) by apply cv_process_receipts.
    assert (Dl : delivered (process_receipts v1 (b_rr b) (b_itxs b)) = delivered v1)
      by (apply delivered_bl, process_receipts_bl).
    assert (Lr : last_round (process_receipts v1 (b_rr b) (b_itxs b)) = last_round v1) by (unfold cv in Cv; congruence).
    rewrite Lr in *.
    eapply rinvR_rstep; [|apply rstep_rv; unfold rv; rewrite Cv, Dl; reflexivity].
    destruct (rd_last_round _ _ _ _ D) as [L0 [L1 L2]].
    split; constructor.
    - apply (rp_lb _ _ _ _ _ P).
    - exact L0.
    - exact L1.
    - intros r Hr. lia.
    - intros x r Hx. destruct (in_map_iff fe_id (all_frame_events f) x) as [Hi _].
      destruct (Hi (rd_rmemo_only _ _ _ _ D x r Hx)) as [fe [Eid Hfe]].
      destruct (rd_event _ _ _ _ D fe Hfe) as (e & es & ri & _ & _ & _ & _ & _ & _ & Mr & _ & _ & Gr & _).
      rewrite Eid in Mr. rewrite Hx in Mr. inversion Mr; subst r.
      assert (Hb : 0 <= fe_round fe <= last_round v1) by (apply L1; rewrite Gr; discriminate). lia.
    - unfold prounds. rewrite (rp_pending _ _ _ _ _ P). constructor.
    - intros r d. rewrite (rp_pending _ _ _ _ _ P). intros [].
    - exists (b_rr b). split; [apply (rp_lc _ _ _ _ _ P)|]. split; [lia|left; reflexivity].
    - intros rr g. rewrite (rp_frames _ _ _ _ _ P), zget_zset.
      destruct (Z.eqb_spec (f_round f) rr) as [<-|Hne]; cbn [andb].
      + destruct (0 <=? f_round f); [intros H; inversion H; reflexivity|rewrite zget_empty; discriminate].
      + rewrite zget_empty. discriminate.
    - exists []. rewrite app_nil_r. split; [apply (rp_delivered _ _ _ _ _ P)|]. split; [constructor|intros d []].
    - unfold prounds. rewrite (rp_pending _ _ _ _ _ P). intros r [].
    - intros r ri Hr Hlb. exfalso. assert (Hb : 0 <= r <= last_round v1) by (apply L1; rewrite Hr; discriminate). lia.
  Qed.

  (* C02 after a reset: round-received strictly increases along the blocks delivered after the
     fast-forward, and all of them are above the anchor's *)
  Theorem deliveries_after_reset_increasing ops :
    exists news, delivered (hrun v' ops) = delivered v ++ news /\
      StronglySorted Z.lt (map b_rr news) /\ forall d, In d news -> b_rr b < b_rr d.
  Proof.
    pose proof reset_last_round as [Lm0 Lm].
    destruct (hrun_rtopR (b_rr b) (last_round v') (delivered v) Lm ops v'
                (rinvR_rtopR _ _ _ v' reset_rinvR)) as [N _].
    exact N.
  Qed.
End Establish.
