(* C13: what Hashgraph.Reset / InsertFrameEvent / core.fastForward leave behind (Model/HgReset.v).
   Part 1: footprints and the shape of the reset state, for ANY frame / block / victim state. *)
From Coq Require Import ZArith List Bool Lia ZifyBool Sorted.
From RecordUpdate Require Import RecordSet.
From V Require Import Model.ZMap Model.Quorum Model.Voting Model.HgImpl Model.HgReset Model.PeerSetSpec
  Proofs.ZMapFacts Proofs.HgFrames Proofs.OrderSort Proofs.PeerSetProofs.
Import ListNotations RecordSetNotations.
Open Scope Z_scope.

(** * Erasure views *)

(* everything InsertFrameEvent cannot touch: the state with the DAG, the round table, the memo
   tables and the consensus-event bookkeeping erased *)
Definition nodag (st : hg) : hg :=
  st <| events := zempty |> <| pevents := zempty |> <| rounds := zempty |> <| last_round := 0 |>
     <| round_memo := zempty |> <| witness_memo := zempty |> <| lt_memo := zempty |>
     <| topo := 0 |> <| cons_count := 0 |> <| last_cons_ev := [] |>.

Lemma nodag_nomemo st st' : nomemo st' = nomemo st -> nodag st' = nodag st.
Proof. intros H. destruct st, st'. cbn in *. inversion H. reflexivity. Qed.

Lemma nodag_set_evst st x e : nodag (set_evst st x e) = nodag st.
Proof. destruct st; reflexivity. Qed.
Lemma nodag_set_round st r ri : nodag (set_round st r ri) = nodag st.
Proof. destruct st; reflexivity. Qed.
Lemma nodag_set_topo st t : nodag (st <| topo := t |>) = nodag st.
Proof. destruct st; reflexivity. Qed.
Lemma nodag_set_pevents st p : nodag (st <| pevents := p |>) = nodag st.
Proof. destruct st; reflexivity. Qed.
Lemma nodag_memo_frame_event st fe : nodag (memo_frame_event st fe) = nodag st.
Proof. destruct st; reflexivity. Qed.
Lemma nodag_add_consensus st e : nodag (store_add_consensus_event st e) = nodag st.
Proof. destruct st; reflexivity. Qed.

Lemma fd_walk_nodag fuel : forall st c index x ah, nodag (fd_walk fuel st c index x ah) = nodag st.
Proof.
  induction fuel as [|f IH]; intros st c index x ah; cbn [fd_walk]; [reflexivity|].
  destruct (get_event st ah) as [a|]; [|reflexivity].
  destruct (aget c (ev_fd a)); [reflexivity|].
  set (st1 := set_evst st ah _).
  pose proof (nodag_nomemo _ _ (witness_f_nomemo (fuel_of st1) st1 ah)) as F2.
  assert (F1 : nodag st1 = nodag st) by apply nodag_set_evst.
  destruct (witness_f (fuel_of st1) st1 ah) as [[[|]|] st2]; cbn [snd] in F2; try rewrite IH; congruence.
Qed.

Lemma fold_nodag {A} (f : hg -> A -> hg) (l : list A) :
  (forall s a, nodag (f s a) = nodag s) -> forall st, nodag (fold_left f l st) = nodag st.
Proof.
  intros Hf. induction l as [|a r IH]; intros st; cbn [fold_left]; [reflexivity|]. rewrite IH. apply Hf.
Qed.

Lemma update_ancestor_fd_nodag st e la : nodag (update_ancestor_fd st e la) = nodag st.
Proof. unfold update_ancestor_fd. apply fold_nodag. intros s ce. apply fd_walk_nodag. Qed.

Lemma store_set_event_nodag st es st' : store_set_event st es = Some st' -> nodag st' = nodag st.
Proof.
  unfold store_set_event. destruct (get_event st _).
  - intros H; inversion H. apply nodag_set_evst.
  - destruct (zget _ _); [|discriminate]. destruct (pidx_set _ _ _); [|discriminate].
    intros H; inversion H. rewrite nodag_set_evst. apply nodag_set_pevents.
Qed.

Lemma insert_frame_event_nodag st fe e : nodag (snd (insert_frame_event st fe e)) = nodag st.
Proof.
  unfold insert_frame_event. cbv zeta.
  destruct (store_set_event _ _) as [st4|] eqn:E; cbn [snd].
  - rewrite nodag_add_consensus, update_ancestor_fd_nodag.
    rewrite (store_set_event_nodag _ _ _ E), nodag_set_topo, nodag_set_round. apply nodag_memo_frame_event.
  - rewrite nodag_set_topo, nodag_set_round. apply nodag_memo_frame_event.
Qed.

Lemma insert_frame_events_nodag cores : forall l st, nodag (snd (insert_frame_events st l cores)) = nodag st.
Proof.
  induction l as [|fe rest IH]; intros st; cbn [insert_frame_events]; [reflexivity|].
  destruct (core_of cores (fe_id fe)) as [e|]; [|reflexivity].
  pose proof (insert_frame_event_nodag st fe e) as H.
  destruct (insert_frame_event st fe e) as [[|] s]; cbn [snd] in *; [|exact H].
  rewrite IH. exact H.
Qed.

(* projections out of the erased state *)
Lemma nodag_fields st st' : nodag st' = nodag st ->
  peersets st' = peersets st /\ repertoire st' = repertoire st /\ first_rounds st' = first_rounds st /\
  undetermined st' = undetermined st /\ pending st' = pending st /\ last_consensus st' = last_consensus st /\
  lower_bound st' = lower_bound st /\ blocks st' = blocks st /\ last_block st' = last_block st /\
  frames st' = frames st /\ pending_loaded st' = pending_loaded st /\ sigpool st' = sigpool st /\
  anchor st' = anchor st /\ self st' = self st /\ validators st' = validators st /\
  self_sigs st' = self_sigs st /\ delivered st' = delivered st /\ oracle st' = oracle st /\ failed st' = failed st.
Proof. intros H. destruct st, st'. cbn in *. inversion H. repeat split; reflexivity. Qed.

(** * InmemStore.Reset: the peer-set table *)

(* what SetPeerSet leaves alone *)
Definition nopeers (st : hg) : hg :=
  st <| peersets := [] |> <| repertoire := [] |> <| first_rounds := [] |> <| pevents := zempty |>.

Lemma set_peerset_nopeers st r ps st' : set_peerset st r ps = Some st' -> nopeers st' = nopeers st.
Proof.
  unfold set_peerset. destruct (existsb _ _); [discriminate|]. intros H; inversion H; subst; clear H.
  match goal with |- nopeers (fold_left ?f ps ?s0) = _ =>
    assert (G : forall l s, nopeers (fold_left f l s) = nopeers s) end.
  { induction l as [|p l IH]; intros s; cbn [fold_left]; [reflexivity|]. rewrite IH. cbv zeta.
    destruct (zmem _ _); destruct s; reflexivity. }
  rewrite G. destruct st; reflexivity.
Qed.

Lemma set_peersets_nopeers : forall l st, nopeers (snd (set_peersets st l)) = nopeers st.
Proof.
  induction l as [|[r ps] rest IH]; intros st; cbn [set_peersets]; [reflexivity|].
  destruct (set_peerset st r ps) as [s|] eqn:E; [|reflexivity].
  rewrite IH. eapply set_peerset_nopeers; eauto.
Qed.

(* a list of (round, set) with strictly increasing rounds is recorded as it is *)
Lemma set_peersets_table : forall l st s,
  set_peersets st l = (true, s) ->
  StronglySorted Z.lt (map fst l) -> (forall k p r, In (k, p) (peersets st) -> In r (map fst l) -> k < r) ->
  peersets s = peersets st ++ l.
Proof.
  induction l as [|[r ps] rest IH]; intros st s H Hs Hlt; cbn [set_peersets] in H.
  - inversion H. rewrite app_nil_r. reflexivity.
  - destruct (set_peerset_spec st r ps) as [[T E]|[T [st' [E [O [Pt V]]]]]]; rewrite E in H; [discriminate|].
    cbn [map fst] in Hs. apply StronglySorted_inv in Hs. destruct Hs as [Hs Hall].
    rewrite (IH st' s H Hs).
    + rewrite Pt, insert_above_all; [rewrite <- app_assoc; reflexivity|].
      intros k p Hin. apply (Hlt k p r Hin). left; reflexivity.
    + intros k p r' Hin Hr'. rewrite Pt in Hin. apply insert_In in Hin. destruct Hin as [Hin|Hin].
      * inversion Hin; subst. rewrite Forall_forall in Hall. apply Hall; exact Hr'.
      * apply (Hlt k p r' Hin). right; exact Hr'.
Qed.

Lemma nopeers_fields st st' : nopeers st' = nopeers st ->
  events st' = events st /\ rounds st' = rounds st /\ last_round st' = last_round st /\
  undetermined st' = undetermined st /\ pending st' = pending st /\ last_consensus st' = last_consensus st /\
  lower_bound st' = lower_bound st /\ round_memo st' = round_memo st /\ witness_memo st' = witness_memo st /\
  lt_memo st' = lt_memo st /\ blocks st' = blocks st /\ last_block st' = last_block st /\
  frames st' = frames st /\ last_cons_ev st' = last_cons_ev st /\ cons_count st' = cons_count st /\
  topo st' = topo st /\ pending_loaded st' = pending_loaded st /\ sigpool st' = sigpool st /\
  anchor st' = anchor st /\ self st' = self st /\ validators st' = validators st /\
  self_sigs st' = self_sigs st /\ delivered st' = delivered st /\ oracle st' = oracle st /\ failed st' = failed st.
Proof. intros H. destruct st, st'. cbn in *. inversion H. repeat split; reflexivity. Qed.

(** * InmemStore.Reset ranges over the Go map Frame.PeerSets: the table does not depend on the order *)

Definition key_lt (a b : Z * peerset) : Prop := fst a < fst b.

Lemma sorted_key_map (t : list (Z * peerset)) : StronglySorted key_lt t <-> StronglySorted Z.lt (map fst t).
Proof.
  induction t as [|a t IH]; cbn [map]; [split; constructor|]. split; intros H; inversion H; subst; constructor.
  - apply IH; assumption.
  - rewrite Forall_forall in *. intros x Hx. apply in_map_iff in Hx. destruct Hx as [b [<- Hb]]. apply H3. exact Hb.
  - apply IH; assumption.
  - rewrite Forall_forall in *. intros b Hb. apply H3. apply in_map. exact Hb.
Qed.

Lemma ps_insert_perm r ps t : Permutation.Permutation (ps_table_insert r ps t) ((r, ps) :: t).
Proof.
  induction t as [|[r' ps'] rest IH]; cbn [ps_table_insert]; [apply Permutation.Permutation_refl|].
  destruct (r <? r'); [apply Permutation.Permutation_refl|].
  eapply Permutation.perm_trans; [apply Permutation.perm_skip; exact IH|apply Permutation.perm_swap].
Qed.

Lemma ps_insert_sorted r ps t :
  StronglySorted key_lt t -> table_has r t = false -> StronglySorted key_lt (ps_table_insert r ps t).
Proof.
  induction t as [|[r' ps'] rest IH]; intros S H; cbn [ps_table_insert]; [constructor; constructor|].
  cbn [table_has existsb fst] in H. apply orb_false_iff in H. destruct H as [Hne Hrest].
  inversion S as [|x y S' F]; subst. rewrite Forall_forall in F.
  destruct (Z.ltb_spec r r') as [Hlt|Hge].
  - constructor; [exact S|]. rewrite Forall_forall. intros b [<-|Hb]; [exact Hlt|].
    specialize (F b Hb). unfold key_lt in *. cbn [fst] in *. lia.
  - constructor; [apply IH; assumption|]. rewrite Forall_forall. intros b Hb.
    apply (Permutation.Permutation_in b (ps_insert_perm r ps rest)) in Hb. destruct Hb as [<-|Hb]; [|apply F; exact Hb].
    unfold key_lt. cbn [fst]. lia.
Qed.

(* whatever the order in which SetPeerSet is called, the recorded table is the sorted list of the
   entries handed in *)
Lemma set_peersets_any_order : forall l st s,
  set_peersets st l = (true, s) -> StronglySorted key_lt (peersets st) ->
  Permutation.Permutation (peersets s) (peersets st ++ l) /\ StronglySorted key_lt (peersets s).
Proof.
  induction l as [|[r ps] rest IH]; intros st s H S; cbn [set_peersets] in H.
  - inversion H; subst. rewrite app_nil_r. split; [apply Permutation.Permutation_refl|exact S].
  - destruct (set_peerset_spec st r ps) as [[T E]|[T [st' [E [O [Pt V]]]]]]; rewrite E in H; [discriminate|].
    assert (S' : StronglySorted key_lt (peersets st')) by (rewrite Pt; apply ps_insert_sorted; assumption).
    destruct (IH st' s H S') as [P1 P2]. split; [|exact P2].
    eapply Permutation.perm_trans; [exact P1|]. rewrite Pt.
    eapply Permutation.perm_trans; [apply Permutation.Permutation_app_tail, ps_insert_perm|].
    cbn [app]. apply Permutation.Permutation_middle.
Qed.

Lemma sorted_tables_equal (t t' : list (Z * peerset)) :
  Permutation.Permutation t t' -> StronglySorted key_lt t -> StronglySorted key_lt t' -> t = t'.
Proof.
  intros P S S'. apply (OrderSort.sorted_perm_unique key_lt t t' P S S').
  intros a b _ _ H1 H2. unfold key_lt in *. lia.
Qed.

(* InmemStore.Reset with the frame's entries presented in ANY order (a permutation of the sorted
   table the serving node recorded): the reset node's table is that table *)
Theorem reset_table_any_order st f l s :
  Permutation.Permutation l (f_peersets f) -> StronglySorted Z.lt (map fst (f_peersets f)) ->
  set_peersets (store_clear st) l = (true, s) ->
  peersets s = f_peersets f /\ forall r, get_peerset s r = ps_table_get r (f_peersets f).
Proof.
  intros P Sf H.
  destruct (set_peersets_any_order l (store_clear st) s H) as [P1 S1].
  { replace (peersets (store_clear st)) with (@nil (Z * peerset)) by (destruct st; reflexivity). constructor. }
  replace (peersets (store_clear st)) with (@nil (Z * peerset)) in P1 by (destruct st; reflexivity). cbn [app] in P1.
  assert (E : peersets s = f_peersets f).
  { apply sorted_tables_equal; [eapply Permutation.perm_trans; eauto|exact S1|apply sorted_key_map; exact Sf]. }
  split; [exact E|]. intros r. unfold get_peerset. rewrite E. reflexivity.
Qed.

(** * Shape of the state after Hashgraph.Reset *)

(* the state handed to the InsertFrameEvent loop *)
Record cleared (v : hg) (f : frame) (s : hg) : Prop := {
  cl_events : events s = zempty;
  cl_rounds : rounds s = zempty;
  cl_last_round : last_round s = -1;
  cl_und : undetermined s = [];
  cl_pending : pending s = [];
  cl_lc : last_consensus s = None;
  cl_lb : lower_bound s = lower_bound v;
  cl_rmemo : round_memo s = zempty;
  cl_wmemo : witness_memo s = zempty;
  cl_ltmemo : lt_memo s = lt_memo v;
  cl_blocks : blocks s = zempty;
  cl_last_block : last_block s = -1;
  cl_frames : frames s = zset (f_round f) f zempty;
  cl_lce : last_cons_ev s = [];
  cl_cc : cons_count s = cons_count v;
  cl_topo : topo s = 0;
  cl_pl : pending_loaded s = 0;
  cl_sigpool : sigpool s = sigpool v;
  cl_anchor : anchor s = None;
  cl_self : self s = self v;
  cl_validators : validators s = validators v;
  cl_self_sigs : self_sigs s = self_sigs v;
  cl_delivered : delivered s = delivered v;
  cl_oracle : oracle s = oracle v;
  cl_failed : failed s = failed v;
  cl_table : StronglySorted Z.lt (map fst (f_peersets f)) -> peersets s = f_peersets f
}.

Lemma store_reset_cleared v f s : store_reset (hg_clear v) f = (true, s) -> cleared v f s.
Proof.
  unfold store_reset. destruct (set_peersets (store_clear (hg_clear v)) (f_peersets f)) as [[|] s1] eqn:E; [|discriminate].
  intros H; inversion H; subst s; clear H.
  pose proof (set_peersets_nopeers (f_peersets f) (store_clear (hg_clear v))) as N. rewrite E in N. cbn [snd] in N.
  apply nopeers_fields in N.
  assert (Pt : StronglySorted Z.lt (map fst (f_peersets f)) -> peersets s1 = f_peersets f).
  { intros Hs. rewrite (set_peersets_table _ _ _ E Hs); [destruct v; reflexivity|]. intros k p r []. }
  destruct N as (N1 & N2 & N3 & N4 & N5 & N6 & N7 & N8 & N9 & N10 & N11 & N12 & N13 & N14 & N15 & N16 & N17 & N18 & N19 & N20 & N21 & N22 & N23 & N24 & N25).
  unfold store_set_frame.
  constructor; cbn [events rounds last_round undetermined pending last_consensus lower_bound round_memo witness_memo
                    lt_memo blocks last_block frames last_cons_ev cons_count topo pending_loaded sigpool anchor self
                    validators self_sigs delivered oracle failed peersets set];
    try (first [rewrite N1|rewrite N2|rewrite N3|rewrite N4|rewrite N5|rewrite N6|rewrite N7|rewrite N8|rewrite N9|rewrite N10
               |rewrite N11|rewrite N12|rewrite N14|rewrite N15|rewrite N16|rewrite N17|rewrite N18|rewrite N19|rewrite N20
               |rewrite N21|rewrite N22|rewrite N23|rewrite N24|rewrite N25]; destruct v; reflexivity).
  - destruct s1; cbn in *. rewrite N13. destruct v; reflexivity.
  - intros Hs. rewrite <- (Pt Hs). destruct s1; reflexivity.
Qed.

(** * InsertFrameEvent on a store whose events all have a memoised witness flag *)

(* an event's state without the first-descendant coordinates *)
Definition ev_nofd (es : evst) := (ev_e es, ev_round es, ev_lt es, ev_rr es, ev_la es, ev_topo es).
Definition evinfo (st : hg) (x : Z) := option_map ev_nofd (get_event st x).

(* only first-descendant coordinates changed *)
Definition fd_rel (st st' : hg) : Prop :=
  st' = st <| events := events st' |> /\ forall x, evinfo st' x = evinfo st x.

Lemma fd_rel_refl st : fd_rel st st.
Proof. split; [destruct st; reflexivity|reflexivity]. Qed.
Lemma fd_rel_trans a b c : fd_rel a b -> fd_rel b c -> fd_rel a c.
Proof.
  intros [E1 I1] [E2 I2]. split; [|intros x; rewrite I2; apply I1].
  rewrite E2. rewrite E1 at 1. destruct a; reflexivity.
Qed.

Definition wmemo_total (st : hg) : Prop :=
  forall x es, get_event st x = Some es -> zget x (witness_memo st) <> None.

Lemma evinfo_some st st' x : evinfo st' x = evinfo st x ->
  (get_event st' x = None <-> get_event st x = None).
Proof.
  unfold evinfo. destruct (get_event st' x), (get_event st x); cbn; split; intros; congruence.
Qed.

Lemma fd_rel_wmemo st st' : fd_rel st st' -> wmemo_total st -> wmemo_total st'.
Proof.
  intros [E I] W x es H. assert (Hm : witness_memo st' = witness_memo st) by (rewrite E; destruct st; reflexivity).
  rewrite Hm. destruct (get_event st x) as [es0|] eqn:H0; [eapply W; eauto|].
  apply (evinfo_some _ _ _ (I x)) in H0. congruence.
Qed.

Lemma get_event_set_evst' st x es y :
  get_event (set_evst st x es) y = if (x =? y) && (0 <=? x) then Some es else get_event st y.
Proof. unfold get_event, set_evst. destruct st; cbn. apply zget_zset. Qed.

Lemma fd_rel_set_fd st ah a fd' :
  get_event st ah = Some a -> fd_rel st (set_evst st ah (a <| ev_fd := fd' |>)).
Proof.
  intros H. split; [unfold set_evst; destruct st; reflexivity|].
  intros x. unfold evinfo. rewrite get_event_set_evst'.
  destruct (Z.eqb_spec ah x) as [->|Hne]; cbn [andb]; [|reflexivity].
  destruct (0 <=? x); [|reflexivity]. rewrite H. reflexivity.
Qed.

Lemma witness_f_memoised fuel st x w : zget x (witness_memo st) = Some w -> witness_f fuel st x = (Some w, st).
Proof. unfold witness_f. intros ->. reflexivity. Qed.

Lemma fd_walk_fd_rel fuel : forall st c index x ah, wmemo_total st -> fd_rel st (fd_walk fuel st c index x ah).
Proof.
  induction fuel as [|f IH]; intros st c index x ah W; cbn [fd_walk]; [apply fd_rel_refl|].
  destruct (get_event st ah) as [a|] eqn:Ha; [|apply fd_rel_refl].
  destruct (aget c (ev_fd a)); [apply fd_rel_refl|].
  set (st1 := set_evst st ah _).
  assert (R1 : fd_rel st st1) by (apply fd_rel_set_fd; exact Ha).
  pose proof (fd_rel_wmemo _ _ R1 W) as W1.
  assert (Hah : get_event st1 ah <> None).
  { intros C. apply (evinfo_some _ _ _ (proj2 R1 ah)) in C. congruence. }
  destruct (get_event st1 ah) as [a1|] eqn:Ha1; [|congruence].
  destruct (zget ah (witness_memo st1)) as [w|] eqn:Hw; [|exfalso; eapply W1; eauto].
  rewrite (witness_f_memoised _ _ _ _ Hw).
  destruct w; [exact R1|]. eapply fd_rel_trans; [exact R1|]. apply IH. exact W1.
Qed.

Lemma update_ancestor_fd_fd_rel st e la : wmemo_total st -> fd_rel st (update_ancestor_fd st e la).
Proof.
  unfold update_ancestor_fd. revert st. induction la as [|ce r IH]; intros st W; cbn [fold_left]; [apply fd_rel_refl|].
  pose proof (fd_walk_fd_rel (fuel_of st) st (e_creator e) (e_index e) (e_id e) (snd (snd ce)) W) as R1.
  eapply fd_rel_trans; [exact R1|]. apply IH. eapply fd_rel_wmemo; eauto.
Qed.

Lemma store_set_event_fresh st es st' :
  store_set_event st es = Some st' -> get_event st (e_id (ev_e es)) = None ->
  exists p p', zget (e_creator (ev_e es)) (pevents st) = Some p /\
               pidx_set p (e_id (ev_e es)) (e_index (ev_e es)) = Some p' /\
               st' = set_evst (st <| pevents := zset (e_creator (ev_e es)) p' (pevents st) |>) (e_id (ev_e es)) es.
Proof.
  unfold store_set_event. intros H Hf. rewrite Hf in H.
  destruct (zget (e_creator (ev_e es)) (pevents st)) as [p|] eqn:Hp; [|discriminate].
  destruct (pidx_set _ _ _) as [p'|] eqn:Hp'; [|discriminate]. inversion H. exists p, p'. auto.
Qed.

Lemma init_coords_events st st' e : events st' = events st -> init_coords st' e = init_coords st e.
Proof. intros E. unfold init_coords, get_event. rewrite E. reflexivity. Qed.

(* the effect of one successful InsertFrameEvent, field by field *)
Record ife_post (st : hg) (fe : frameev) (e : event) (s' : hg) : Prop := {
  ip_rmemo : round_memo s' = zset (fe_id fe) (fe_round fe) (round_memo st);
  ip_wmemo : witness_memo s' = zset (fe_id fe) (fe_wit fe) (witness_memo st);
  ip_ltmemo : lt_memo s' = zset (fe_id fe) (fe_lt fe) (lt_memo st);
  ip_rounds : rounds s' = zset (fe_round fe) (add_created (round_or_new st (fe_round fe)) (fe_id fe) (fe_wit fe)) (rounds st);
  ip_last_round : last_round s' = Z.max (fe_round fe) (last_round st);
  ip_topo : topo s' = topo st + 1;
  ip_cc : cons_count s' = cons_count st + 1;
  ip_lce : last_cons_ev s' = aset (e_creator e) (e_id e) (last_cons_ev st);
  ip_pev : exists p p', zget (e_creator e) (pevents st) = Some p /\ pidx_set p (e_id e) (e_index e) = Some p' /\
                        pevents s' = zset (e_creator e) p' (pevents st);
  ip_events : forall y, evinfo s' y =
                if y =? e_id e then Some (e, Some (fe_round fe), Some (fe_lt fe), None, fst (init_coords st e), topo st)
                else evinfo st y;
  ip_w : wmemo_total s'
}.

Lemma insert_frame_event_post st fe e s' :
  wmemo_total st -> 0 <= e_id e -> e_id e = fe_id fe -> get_event st (e_id e) = None ->
  insert_frame_event st fe e = (true, s') -> ife_post st fe e s'.
Proof.
  intros W Hid Eid Fresh. unfold insert_frame_event. cbv zeta.
  set (st1 := memo_frame_event st fe).
  set (ri := add_created (round_or_new st1 (fe_round fe)) (fe_id fe) (fe_wit fe)).
  set (st2 := set_round st1 (fe_round fe) ri).
  set (st3 := st2 <| topo := topo st2 + 1 |>).
  assert (Ev3 : events st3 = events st) by (destruct st; reflexivity).
  rewrite (init_coords_events st st3 e Ev3).
  set (es := mkEvst e _ _ _ _ _ _).
  destruct (store_set_event st3 es) as [st4|] eqn:S; [|discriminate].
  intros H. apply (f_equal snd) in H. cbn [snd] in H. subst s'.
  assert (Fresh3 : get_event st3 (e_id (ev_e es)) = None) by (unfold get_event; rewrite Ev3; exact Fresh).
  destruct (store_set_event_fresh _ _ _ S Fresh3) as [p [p' [Hp [Hp' E4]]]].
  cbn [ev_e es] in Hp, Hp', E4.
  (* st4 satisfies wmemo_total *)
  assert (G4 : forall y, get_event st4 y = if y =? e_id e then Some es else get_event st y).
  { intros y. rewrite E4, get_event_set_evst'. rewrite (Z.eqb_sym y).
    destruct (Z.eqb_spec (e_id e) y); cbn [andb].
    - replace (0 <=? e_id e) with true by lia. reflexivity.
    - unfold get_event. destruct st; reflexivity. }
  assert (Wm4 : witness_memo st4 = zset (fe_id fe) (fe_wit fe) (witness_memo st)).
  { rewrite E4. destruct st; reflexivity. }
  assert (W4 : wmemo_total st4).
  { intros y ey. rewrite G4, Wm4, zget_zset, <- Eid. rewrite (Z.eqb_sym y).
    destruct (Z.eqb_spec (e_id e) y); cbn [andb].
    - replace (0 <=? e_id e) with true by lia. discriminate.
    - apply W. }
  pose proof (update_ancestor_fd_fd_rel st4 e (fst (init_coords st e)) W4) as [E5 I5].
  set (st5 := update_ancestor_fd st4 e (fst (init_coords st e))) in *.
  assert (R : forall (g : hg -> hg), True) by auto. clear R.
  assert (E5' : store_add_consensus_event st5 e =
                store_add_consensus_event (st4 <| events := events st5 |>) e) by (rewrite E5 at 1; reflexivity).
  rewrite E5'. clear E5'.
  constructor.
  - rewrite E4. destruct st; reflexivity.
  - rewrite E4. destruct st; reflexivity.
  - rewrite E4. destruct st; reflexivity.
  - rewrite E4. subst ri st1. unfold round_or_new, get_round, memo_frame_event. destruct st; reflexivity.
  - rewrite E4. destruct st; reflexivity.
  - rewrite E4. destruct st; reflexivity.
  - rewrite E4. destruct st; reflexivity.
  - rewrite E4. destruct st; reflexivity.
  - exists p, p'. split; [|split; [exact Hp'|]].
    + rewrite <- Hp. destruct st; reflexivity.
    + rewrite E4. destruct st; reflexivity.
  - intros y.
    assert (X : evinfo (store_add_consensus_event (st4 <| events := events st5 |>) e) y = evinfo st5 y).
    { unfold evinfo, get_event. destruct st4; reflexivity. }
    rewrite X, I5. unfold evinfo. rewrite G4. destruct (y =? e_id e); [|reflexivity].
    subst es. cbn. unfold ev_nofd. cbn. subst st2 st1. destruct st; reflexivity.
  - assert (W5 : wmemo_total st5) by (eapply fd_rel_wmemo; [split; [exact E5|exact I5]|exact W4]).
    intros y ey Hy.
    replace (witness_memo (store_add_consensus_event (st4 <| events := events st5 |>) e)) with (witness_memo st5)
      by (rewrite E5 at 1; destruct st4; reflexivity).
    apply (W5 y ey). rewrite E5. unfold get_event in *. destruct st4; exact Hy.
Qed.

(** * The InsertFrameEvent loop *)

Lemma core_of_id cores x e : core_of cores x = Some e -> e_id e = x.
Proof. unfold core_of. intros H. apply find_some in H. destruct H as [_ H]. lia. Qed.

(* state of the loop after the frame events [done] (a prefix of the sorted frame events) *)
Record loop_inv (cores : list event) (v0 : hg) (done : list frameev) (s : hg) : Prop := {
  li_dom : forall y, get_event s y <> None <-> In y (map fe_id done);
  li_rec : forall fe, In fe done -> exists e la t,
           core_of cores (fe_id fe) = Some e /\
           evinfo s (fe_id fe) = Some (e, Some (fe_round fe), Some (fe_lt fe), None, la, t);
  li_rm : forall fe, In fe done -> zget (fe_id fe) (round_memo s) = Some (fe_round fe);
  li_wm : forall fe, In fe done -> zget (fe_id fe) (witness_memo s) = Some (fe_wit fe);
  li_lm : forall fe, In fe done -> zget (fe_id fe) (lt_memo s) = Some (fe_lt fe);
  li_rm_only : forall x r, zget x (round_memo s) = Some r -> In x (map fe_id done);
  li_wm_only : forall x w, zget x (witness_memo s) = Some w -> In x (map fe_id done);
  li_lm_old : forall x, ~ In x (map fe_id done) -> zget x (lt_memo s) = zget x (lt_memo v0);
  li_w : wmemo_total s;
  li_rounds : forall r ri, get_round s r = Some ri ->
              ri_received ri = [] /\ ri_decided ri = false /\
              forall x w t, In (x, (w, t)) (ri_created ri) ->
                t = Undefined /\ exists fe, In fe done /\ fe_id fe = x /\ fe_round fe = r /\ fe_wit fe = w;
  li_created : forall fe, In fe done -> exists ri, get_round s (fe_round fe) = Some ri /\
               aget (fe_id fe) (ri_created ri) = Some (fe_wit fe, Undefined);
  li_topo : topo s = Z.of_nat (length done);
  li_cc : cons_count s = cons_count v0 + Z.of_nat (length done);
  li_lr : -1 <= last_round s /\ (forall r, get_round s r <> None -> 0 <= r <= last_round s) /\
          (last_round s = -1 \/ get_round s (last_round s) <> None)
}.

Lemma evinfo_none st y : evinfo st y = None <-> get_event st y = None.
Proof. unfold evinfo. destruct (get_event st y); cbn; split; intros; congruence. Qed.

Lemma aget_In {A} k (l : list (Z * A)) v : aget k l = Some v -> In (k, v) l.
Proof.
  induction l as [|[k' v'] r IH]; cbn [aget]; [discriminate|].
  destruct (Z.eqb_spec k' k) as [->|]; [intros H; inversion H; left; reflexivity|intros H; right; auto].
Qed.

Lemma loop_inv_start cores v f s : cleared v f s -> loop_inv cores v [] s.
Proof.
  intros C.
  assert (Ge : forall y, get_event s y = None) by (intros y; unfold get_event; rewrite (cl_events _ _ _ C); apply zget_empty).
  assert (Gr : forall r, get_round s r = None) by (intros r; unfold get_round; rewrite (cl_rounds _ _ _ C); apply zget_empty).
  constructor; cbn [map In length Z.of_nat].
  - intros y. rewrite Ge. split; [congruence|intros []].
  - intros fe [].
  - intros fe [].
  - intros fe [].
  - intros fe [].
  - intros x r. rewrite (cl_rmemo _ _ _ C), zget_empty. discriminate.
  - intros x w. rewrite (cl_wmemo _ _ _ C), zget_empty. discriminate.
  - intros x _. rewrite (cl_ltmemo _ _ _ C). reflexivity.
  - intros x es. rewrite Ge. discriminate.
  - intros r ri. rewrite Gr. discriminate.
  - intros fe [].
  - apply (cl_topo _ _ _ C).
  - rewrite (cl_cc _ _ _ C). lia.
  - rewrite (cl_last_round _ _ _ C). split; [lia|split; [|left; reflexivity]]. intros r. rewrite Gr. congruence.
Qed.

Lemma get_round_zset st st' r ri r' :
  rounds st' = zset r ri (rounds st) ->
  get_round st' r' = if (r =? r') && (0 <=? r) then Some ri else get_round st r'.
Proof. unfold get_round. intros ->. apply zget_zset. Qed.

Lemma add_created_fresh ri x w : aget x (ri_created ri) = None ->
  add_created ri x w = ri <| ri_created := ri_created ri ++ [(x, (w, Undefined))] |>.
Proof. unfold add_created. intros ->. reflexivity. Qed.

Lemma loop_inv_step cores v0 done s fe e s' :
  loop_inv cores v0 done s ->
  core_of cores (fe_id fe) = Some e -> 0 <= fe_id fe -> 0 <= fe_round fe -> ~ In (fe_id fe) (map fe_id done) ->
  insert_frame_event s fe e = (true, s') ->
  loop_inv cores v0 (done ++ [fe]) s'.
Proof.
  intros L Hc Hid Hr Hnew H.
  pose proof (core_of_id _ _ _ Hc) as Eid.
  assert (Fresh : get_event s (e_id e) = None).
  { rewrite Eid. destruct (get_event s (fe_id fe)) eqn:G; [|reflexivity]. exfalso. apply Hnew.
    apply (li_dom _ _ _ _ L). congruence. }
  pose proof (insert_frame_event_post s fe e s' (li_w _ _ _ _ L) ltac:(lia) Eid Fresh H) as P.
  assert (Idone : forall g, In g done -> fe_id g <> fe_id fe).
  { intros g Hg C. apply Hnew. rewrite <- C. apply in_map. exact Hg. }
  assert (Hri : aget (fe_id fe) (ri_created (round_or_new s (fe_round fe))) = None).
  { unfold round_or_new. destruct (get_round s (fe_round fe)) as [ri0|] eqn:G; [|reflexivity].
    destruct (aget (fe_id fe) (ri_created ri0)) as [[w t]|] eqn:A; [|reflexivity]. exfalso.
    destruct (li_rounds _ _ _ _ L _ _ G) as [_ [_ Hcr]].
    destruct (Hcr _ _ _ (aget_In _ _ _ A)) as [_ [g [Hg [Eg _]]]]. eapply Idone; eauto. }
  pose proof (fun r' => get_round_zset s s' _ _ r' (ip_rounds _ _ _ _ P)) as GR.
  rewrite (add_created_fresh _ _ _ Hri) in GR.
  replace (0 <=? fe_round fe) with true in GR by lia.
  constructor.
  - intros y. rewrite map_app, in_app_iff. cbn [map In]. rewrite <- (li_dom _ _ _ _ L).
    rewrite <- !evinfo_none, (ip_events _ _ _ _ P y), Eid.
    destruct (Z.eqb_spec y (fe_id fe)) as [->|Hne]; split; intros X; try congruence; auto.
    + destruct X as [X|[X|[]]]; [exact X|congruence].
  - intros g Hg. apply in_app_iff in Hg. destruct Hg as [Hg|[<-|[]]].
    + destruct (li_rec _ _ _ _ L g Hg) as [eg [la [t [Hcg Hi]]]]. exists eg, la, t. split; [exact Hcg|].
      rewrite (ip_events _ _ _ _ P), Eid. destruct (Z.eqb_spec (fe_id g) (fe_id fe)) as [C|_]; [exfalso; eapply Idone; eauto|exact Hi].
    + exists e, (fst (init_coords s e)), (topo s). split; [exact Hc|].
      rewrite (ip_events _ _ _ _ P), Eid, Z.eqb_refl. reflexivity.
  - intros g Hg. rewrite (ip_rmemo _ _ _ _ P), zget_zset. apply in_app_iff in Hg. destruct Hg as [Hg|[<-|[]]].
    + destruct (Z.eqb_spec (fe_id fe) (fe_id g)) as [C|_]; [exfalso; eapply Idone; eauto|]. cbn [andb]. apply (li_rm _ _ _ _ L); exact Hg.
    + rewrite Z.eqb_refl. replace (0 <=? fe_id fe) with true by lia. reflexivity.
  - intros g Hg. rewrite (ip_wmemo _ _ _ _ P), zget_zset. apply in_app_iff in Hg. destruct Hg as [Hg|[<-|[]]].
    + destruct (Z.eqb_spec (fe_id fe) (fe_id g)) as [C|_]; [exfalso; eapply Idone; eauto|]. cbn [andb]. apply (li_wm _ _ _ _ L); exact Hg.
    + rewrite Z.eqb_refl. replace (0 <=? fe_id fe) with true by lia. reflexivity.
  - intros g Hg. rewrite (ip_ltmemo _ _ _ _ P), zget_zset. apply in_app_iff in Hg. destruct Hg as [Hg|[<-|[]]].
    + destruct (Z.eqb_spec (fe_id fe) (fe_id g)) as [C|_]; [exfalso; eapply Idone; eauto|]. cbn [andb]. apply (li_lm _ _ _ _ L); exact Hg.
    + rewrite Z.eqb_refl. replace (0 <=? fe_id fe) with true by lia. reflexivity.
  - intros x r. rewrite (ip_rmemo _ _ _ _ P), zget_zset, map_app, in_app_iff. cbn [map In].
    destruct (Z.eqb_spec (fe_id fe) x) as [->|_]; cbn [andb]; [auto|]. intros X. left. eapply (li_rm_only _ _ _ _ L); eauto.
  - intros x w. rewrite (ip_wmemo _ _ _ _ P), zget_zset, map_app, in_app_iff. cbn [map In].
    destruct (Z.eqb_spec (fe_id fe) x) as [->|_]; cbn [andb]; [auto|]. intros X. left. eapply (li_wm_only _ _ _ _ L); eauto.
  - intros x. rewrite map_app, in_app_iff. cbn [map In]. intros Hx.
    rewrite (ip_ltmemo _ _ _ _ P), zget_zset.
    destruct (Z.eqb_spec (fe_id fe) x) as [E|_]; cbn [andb]; [exfalso; apply Hx; right; left; exact E|]. apply (li_lm_old _ _ _ _ L). intros C. apply Hx. left. exact C.
  - apply (ip_w _ _ _ _ P).
  - intros r ri. rewrite GR. destruct (Z.eqb_spec (fe_round fe) r) as [<-|Hne]; cbn [andb].
    + intros X; inversion X; subst ri; clear X. cbn [ri_received ri_decided ri_created set].
      assert (Old : ri_received (round_or_new s (fe_round fe)) = [] /\ ri_decided (round_or_new s (fe_round fe)) = false /\
                    forall x w t, In (x, (w, t)) (ri_created (round_or_new s (fe_round fe))) ->
                      t = Undefined /\ exists g, In g done /\ fe_id g = x /\ fe_round g = fe_round fe /\ fe_wit g = w).
      { unfold round_or_new. destruct (get_round s (fe_round fe)) as [ri0|] eqn:G.
        - apply (li_rounds _ _ _ _ L _ _ G).
        - cbn. split; [reflexivity|split; [reflexivity|]]. intros x w t []. }
      destruct Old as [O1 [O2 O3]]. split; [exact O1|split; [exact O2|]].
      intros x w t Hin. apply in_app_iff in Hin. destruct Hin as [Hin|[Hin|[]]].
      * destruct (O3 _ _ _ Hin) as [Ht [g [Hg R]]]. split; [exact Ht|]. exists g. split; [apply in_app_iff; auto|exact R].
      * inversion Hin; subst. split; [reflexivity|]. exists fe. split; [apply in_app_iff; right; left; reflexivity|auto].
    + intros G. destruct (li_rounds _ _ _ _ L _ _ G) as [O1 [O2 O3]]. split; [exact O1|split; [exact O2|]].
      intros x w t Hin. destruct (O3 _ _ _ Hin) as [Ht [g [Hg R]]]. split; [exact Ht|]. exists g. split; [apply in_app_iff; auto|exact R].
  - intros g Hg. apply in_app_iff in Hg. rewrite GR. destruct Hg as [Hg|[<-|[]]].
    + destruct (li_created _ _ _ _ L g Hg) as [ri0 [G A]].
      destruct (Z.eqb_spec (fe_round fe) (fe_round g)) as [Er|Hne]; cbn [andb].
      * eexists. split; [reflexivity|]. cbn [ri_created set]. apply aget_app_some.
        unfold round_or_new. rewrite Er, G. exact A.
      * exists ri0. auto.
    + rewrite Z.eqb_refl. cbn [andb]. eexists. split; [reflexivity|]. cbn [ri_created set].
      rewrite aget_app_none by exact Hri. cbn [aget]. rewrite Z.eqb_refl. reflexivity.
  - rewrite (ip_topo _ _ _ _ P), (li_topo _ _ _ _ L), app_length. cbn [length]. lia.
  - rewrite (ip_cc _ _ _ _ P), (li_cc _ _ _ _ L), app_length. cbn [length]. lia.
  - destruct (li_lr _ _ _ _ L) as [B1 [B2 B3]]. rewrite (ip_last_round _ _ _ _ P). split; [lia|split].
    + intros r. rewrite GR. destruct (Z.eqb_spec (fe_round fe) r) as [<-|Hne]; cbn [andb]; [lia|].
      intros X. specialize (B2 r X). lia.
    + right. rewrite GR. destruct (Z.max_spec (fe_round fe) (last_round s)) as [[Hlt ->]|[Hge ->]].
      * destruct (Z.eqb_spec (fe_round fe) (last_round s)); cbn [andb]; [discriminate|].
        destruct B3 as [B3|B3]; [lia|exact B3].
      * rewrite Z.eqb_refl. cbn [andb]. discriminate.
Qed.

Lemma insert_frame_events_inv cores v0 : forall todo done s s',
  loop_inv cores v0 done s ->
  NoDup (map fe_id (done ++ todo)) -> Forall (fun fe => 0 <= fe_id fe /\ 0 <= fe_round fe) todo ->
  insert_frame_events s todo cores = (true, s') -> loop_inv cores v0 (done ++ todo) s'.
Proof.
  induction todo as [|fe rest IH]; intros done s s' L ND Pos H; cbn [insert_frame_events] in H.
  - inversion H; subst. rewrite app_nil_r. exact L.
  - destruct (core_of cores (fe_id fe)) as [e|] eqn:Hc; [|discriminate].
    destruct (insert_frame_event s fe e) as [[|] s1] eqn:E; [|discriminate].
    apply Forall_cons_iff in Pos. destruct Pos as [[P1 P2] Pos].
    assert (Hnew : ~ In (fe_id fe) (map fe_id done)).
    { rewrite map_app in ND. cbn [map] in ND. apply NoDup_remove_2 in ND. intros C. apply ND. apply in_app_iff. auto. }
    pose proof (loop_inv_step cores v0 done s fe e s1 L Hc P1 P2 Hnew E) as L1.
    replace (done ++ fe :: rest) with ((done ++ [fe]) ++ rest) by (rewrite <- app_assoc; reflexivity).
    apply (IH (done ++ [fe]) s1 s' L1); [rewrite <- app_assoc; exact ND|exact Pos|exact H].
Qed.

(* the sort is a permutation *)
Lemma rfe_insert_perm cores x l : Permutation.Permutation (rfe_insert cores x l) (x :: l).
Proof.
  induction l as [|y r IH]; cbn [rfe_insert]; [apply Permutation.Permutation_refl|].
  destruct (rfe_less cores y x); [|apply Permutation.Permutation_refl].
  eapply Permutation.perm_trans; [apply Permutation.perm_skip; exact IH|apply Permutation.perm_swap].
Qed.
Lemma rfe_sort_perm cores l : Permutation.Permutation (rfe_sort cores l) l.
Proof.
  induction l as [|x r IH]; cbn [rfe_sort fold_right]; [constructor|].
  eapply Permutation.perm_trans; [apply rfe_insert_perm|]. apply Permutation.perm_skip. exact IH.
Qed.

(* the invariant only reads the DAG, the round table, the memo tables and two counters *)
Lemma loop_inv_ext cores v0 done s s' :
  events s' = events s -> rounds s' = rounds s -> last_round s' = last_round s ->
  round_memo s' = round_memo s -> witness_memo s' = witness_memo s -> lt_memo s' = lt_memo s ->
  topo s' = topo s -> cons_count s' = cons_count s ->
  loop_inv cores v0 done s -> loop_inv cores v0 done s'.
Proof.
  intros E1 E2 E3 E4 E5 E6 E7 E8 L.
  assert (Ge : forall y, get_event s' y = get_event s y) by (intros; unfold get_event; rewrite E1; reflexivity).
  assert (Gr : forall y, get_round s' y = get_round s y) by (intros; unfold get_round; rewrite E2; reflexivity).
  assert (Gi : forall y, evinfo s' y = evinfo s y) by (intros; unfold evinfo; rewrite Ge; reflexivity).
  destruct L. constructor; intros; rewrite ?Ge, ?Gr, ?Gi, ?E3, ?E4, ?E5, ?E6, ?E7, ?E8 in *; eauto.
  - intros x es. rewrite Ge, E5. apply li_w0.
  - destruct li_lr0 as [B1 [B2 B3]]. split; [exact B1|split; [|exact B3]]. intros r. rewrite Gr. apply B2.
Qed.

(** * The reset state *)

Record frame_shape (f : frame) : Prop := {
  fs_nodup : NoDup (map fe_id (all_frame_events f));
  fs_pos : Forall (fun fe => 0 <= fe_id fe /\ 0 <= fe_round fe) (all_frame_events f);
  fs_table : StronglySorted Z.lt (map fst (f_peersets f))
}.

(* the state after core.fastForward(block, frame) *)
Record reset_post (v : hg) (b : block) (f : frame) (cores : list event) (v1 : hg) : Prop := {
  rp_blocks : blocks v1 = zset (b_index b) b zempty;
  rp_last_block : last_block v1 = Z.max (b_index b) (-1);
  rp_frames : frames v1 = zset (f_round f) f zempty;
  rp_table : peersets v1 = f_peersets f;
  rp_validators : validators v1 = ff_validators f;
  rp_lb : lower_bound v1 = Some (b_rr b);
  rp_lc : last_consensus v1 = Some (b_rr b);
  rp_und : undetermined v1 = [];
  rp_pending : pending v1 = [];
  rp_anchor : anchor v1 = None;
  rp_pl : pending_loaded v1 = 0;
  rp_sigpool : sigpool v1 = sigpool v;
  rp_self : self v1 = self v;
  rp_self_sigs : self_sigs v1 = self_sigs v;
  rp_delivered : delivered v1 = delivered v;
  rp_oracle : oracle v1 = oracle v;
  rp_failed : failed v1 = failed v;
  rp_dag : loop_inv cores v (sorted_frame_events cores f) v1
}.

Lemma reset_hg_post v b f cores v1 :
  frame_shape f -> core_fast_forward v b f cores = (true, v1) -> reset_post v b f cores v1.
Proof.
  intros [ND Pos Tb]. unfold core_fast_forward, reset_hg.
  destruct (store_reset (hg_clear v) f) as [[|] s1] eqn:E1; [|discriminate].
  destruct (insert_frame_events s1 (sorted_frame_events cores f) cores) as [[|] s2] eqn:E2; [|discriminate].
  intros H; inversion H; subst v1; clear H.
  pose proof (store_reset_cleared v f s1 E1) as C.
  pose proof (rfe_sort_perm cores (all_frame_events f)) as Perm. fold (sorted_frame_events cores f) in Perm.
  assert (ND' : NoDup (map fe_id ([] ++ sorted_frame_events cores f))).
  { cbn [app]. eapply Permutation.Permutation_NoDup; [|exact ND]. apply Permutation.Permutation_map, Permutation.Permutation_sym, Perm. }
  assert (Pos' : Forall (fun fe => 0 <= fe_id fe /\ 0 <= fe_round fe) (sorted_frame_events cores f)).
  { rewrite Forall_forall in *. intros fe Hin. apply Pos. eapply Permutation.Permutation_in; eauto. }
  pose proof (insert_frame_events_inv cores v _ [] s1 s2 (loop_inv_start cores v f s1 C) ND' Pos' E2) as L. cbn [app] in L.
  pose proof (insert_frame_events_nodag cores (sorted_frame_events cores f) s1) as N. rewrite E2 in N. cbn [snd] in N.
  apply nodag_fields in N.
  destruct N as (N1 & N2 & N3 & N4 & N5 & N6 & N7 & N8 & N9 & N10 & N11 & N12 & N13 & N14 & N15 & N16 & N17 & N18 & N19).
  unfold reset_finish, store_set_block.
  constructor; cbn [blocks last_block frames peersets validators lower_bound last_consensus undetermined pending anchor
                    pending_loaded sigpool self self_sigs delivered oracle failed set].
  - rewrite N8, (cl_blocks _ _ _ C). reflexivity.
  - rewrite N9, (cl_last_block _ _ _ C). reflexivity.
  - rewrite N10. apply (cl_frames _ _ _ C).
  - rewrite N1. apply (cl_table _ _ _ C Tb).
  - reflexivity.
  - reflexivity.
  - reflexivity.
  - rewrite N4. apply (cl_und _ _ _ C).
  - rewrite N5. apply (cl_pending _ _ _ C).
  - rewrite N13. apply (cl_anchor _ _ _ C).
  - rewrite N11. apply (cl_pl _ _ _ C).
  - rewrite N12. apply (cl_sigpool _ _ _ C).
  - rewrite N14. apply (cl_self _ _ _ C).
  - rewrite N16. apply (cl_self_sigs _ _ _ C).
  - rewrite N17. apply (cl_delivered _ _ _ C).
  - rewrite N18. apply (cl_oracle _ _ _ C).
  - rewrite N19. apply (cl_failed _ _ _ C).
  - eapply loop_inv_ext; [..|exact L]; destruct s2; reflexivity.
Qed.

(* node.fastForward: the anchor block's receipts are applied on top, exactly as core.commit does on
   a full-history node (replay_step of Model/PeerSetSpec.v) *)
Lemma node_fast_forward_table v b f cores v' :
  frame_shape f -> node_fast_forward v b f cores = (true, v') ->
  (peersets v', validators v') = replay_step (f_peersets f, ff_validators f) (b_rr b) (b_itxs b).
Proof.
  intros FS. unfold node_fast_forward.
  destruct (core_fast_forward v b f cores) as [[|] v1] eqn:E; [|discriminate].
  intros H; inversion H; subst v'; clear H.
  pose proof (reset_hg_post v b f cores v1 FS E) as P.
  destruct (process_receipts_spec v1 (b_rr b) (b_itxs b)) as [_ R]. rewrite R, (rp_table _ _ _ _ _ P), (rp_validators _ _ _ _ _ P).
  reflexivity.
Qed.

(** * The reset DAG, in terms of the frame *)

Lemma evinfo_get st x e r t q la tp :
  evinfo st x = Some (e, r, t, q, la, tp) ->
  exists es, get_event st x = Some es /\ ev_e es = e /\ ev_round es = r /\ ev_lt es = t /\ ev_rr es = q /\
             ev_la es = la /\ ev_topo es = tp.
Proof.
  unfold evinfo. destruct (get_event st x) as [es|]; cbn; [|discriminate].
  unfold ev_nofd. intros H; inversion H. exists es. repeat split; reflexivity.
Qed.

Record reset_dag (f : frame) (cores : list event) (v0 v1 : hg) : Prop := {
  (* the stored events are exactly the root events and the frame events *)
  rd_dom : forall y, get_event v1 y <> None <-> In y (map fe_id (all_frame_events f));
  (* each with the body shipped in the frame, the recorded round and Lamport timestamp, no
     round-received; the memo tables answer the recorded round / witness flag / timestamp; the
     RoundInfo of the recorded round lists it with the recorded witness flag, fame undecided *)
  rd_event : forall fe, In fe (all_frame_events f) ->
      exists e es ri, core_of cores (fe_id fe) = Some e /\ get_event v1 (fe_id fe) = Some es /\
        ev_e es = e /\ ev_round es = Some (fe_round fe) /\ ev_lt es = Some (fe_lt fe) /\ ev_rr es = None /\
        zget (fe_id fe) (round_memo v1) = Some (fe_round fe) /\
        zget (fe_id fe) (witness_memo v1) = Some (fe_wit fe) /\
        zget (fe_id fe) (lt_memo v1) = Some (fe_lt fe) /\
        get_round v1 (fe_round fe) = Some ri /\ aget (fe_id fe) (ri_created ri) = Some (fe_wit fe, Undefined);
  (* nothing else is memoised for rounds / witnesses; the Lamport memo keeps the entries it had
     (Reset does not clear timestampCache) *)
  rd_rmemo_only : forall x r, zget x (round_memo v1) = Some r -> In x (map fe_id (all_frame_events f));
  rd_wmemo_only : forall x w, zget x (witness_memo v1) = Some w -> In x (map fe_id (all_frame_events f));
  rd_ltmemo_old : forall x, ~ In x (map fe_id (all_frame_events f)) -> zget x (lt_memo v1) = zget x (lt_memo v0);
  (* the round table: nothing received, nothing decided, only frame events created *)
  rd_rounds : forall r ri, get_round v1 r = Some ri ->
      ri_received ri = [] /\ ri_decided ri = false /\
      forall x w t, In (x, (w, t)) (ri_created ri) ->
        t = Undefined /\ exists fe, In fe (all_frame_events f) /\ fe_id fe = x /\ fe_round fe = r /\ fe_wit fe = w;
  rd_last_round : -1 <= last_round v1 /\ (forall r, get_round v1 r <> None -> 0 <= r <= last_round v1) /\
                  (last_round v1 = -1 \/ get_round v1 (last_round v1) <> None);
  (* counters: the topological counter restarts from 0, totConsensusEvents continues *)
  rd_topo : topo v1 = Z.of_nat (length (all_frame_events f));
  rd_cc : cons_count v1 = cons_count v0 + Z.of_nat (length (all_frame_events f))
}.

Lemma reset_post_dag v b f cores v1 : reset_post v b f cores v1 -> reset_dag f cores v v1.
Proof.
  intros P. pose proof (rp_dag _ _ _ _ _ P) as L.
  pose proof (rfe_sort_perm cores (all_frame_events f)) as Perm. fold (sorted_frame_events cores f) in Perm.
  assert (InP : forall fe, In fe (all_frame_events f) <-> In fe (sorted_frame_events cores f)).
  { intros fe. split; intros H.
    - apply (Permutation.Permutation_in fe (Permutation.Permutation_sym Perm) H).
    - apply (Permutation.Permutation_in fe Perm H). }
  assert (InI : forall y, In y (map fe_id (all_frame_events f)) <-> In y (map fe_id (sorted_frame_events cores f))).
  { intros y. split; intros H.
    - apply (Permutation.Permutation_in y (Permutation.Permutation_map fe_id (Permutation.Permutation_sym Perm)) H).
    - apply (Permutation.Permutation_in y (Permutation.Permutation_map fe_id Perm) H). }
  assert (Len : length (sorted_frame_events cores f) = length (all_frame_events f)) by (apply Permutation.Permutation_length; exact Perm).
  constructor.
  - intros y. rewrite InI. apply (li_dom _ _ _ _ L).
  - intros fe Hin. apply InP in Hin.
    destruct (li_rec _ _ _ _ L fe Hin) as [e [la [t [Hc Hi]]]].
    destruct (evinfo_get _ _ _ _ _ _ _ _ Hi) as [es [Hg [E1 [E2 [E3 [E4 _]]]]]].
    destruct (li_created _ _ _ _ L fe Hin) as [ri [Gr Ag]].
    exists e, es, ri. repeat split; auto.
    + apply (li_rm _ _ _ _ L); exact Hin.
    + apply (li_wm _ _ _ _ L); exact Hin.
    + apply (li_lm _ _ _ _ L); exact Hin.
  - intros x r H. apply InI. eapply (li_rm_only _ _ _ _ L); eauto.
  - intros x w H. apply InI. eapply (li_wm_only _ _ _ _ L); eauto.
  - intros x H. apply (li_lm_old _ _ _ _ L). intros C. apply H. apply InI. exact C.
  - intros r ri G. destruct (li_rounds _ _ _ _ L r ri G) as [A [B C]]. split; [exact A|split; [exact B|]].
    intros x w t Hin. destruct (C x w t Hin) as [Ht [fe [Hfe R]]]. split; [exact Ht|]. exists fe. split; [apply InP; exact Hfe|exact R].
  - apply (li_lr _ _ _ _ L).
  - rewrite (li_topo _ _ _ _ L), Len. reflexivity.
  - rewrite (li_cc _ _ _ _ L), Len. reflexivity.
Qed.

(** * [frame_shapeb] (Model/HgReset.v) decides [frame_shape] *)
Lemma sorted_ltb_sound l : sorted_ltb l = true -> StronglySorted Z.lt l.
Proof.
  induction l as [|x r IH]; cbn [sorted_ltb]; [constructor|].
  intros H. apply andb_prop in H. destruct H as [H1 H2]. constructor; [auto|].
  rewrite forallb_forall in H1. rewrite Forall_forall. intros y Hy. specialize (H1 y Hy). lia.
Qed.
Lemma nodupb_sound l : nodupb l = true -> NoDup l.
Proof.
  induction l as [|x r IH]; cbn [nodupb]; [constructor|].
  intros H. apply andb_prop in H. destruct H as [H1 H2]. constructor; [|auto].
  intros C. apply negb_true_iff in H1. assert (X : existsb (Z.eqb x) r = true) by (apply existsb_exists; exists x; split; [exact C|apply Z.eqb_refl]).
  congruence.
Qed.
Lemma frame_shapeb_sound f : frame_shapeb f = true -> frame_shape f.
Proof.
  unfold frame_shapeb. intros H. apply andb_prop in H. destruct H as [H H3]. apply andb_prop in H. destruct H as [H1 H2].
  constructor; [apply nodupb_sound; exact H1| |apply sorted_ltb_sound; exact H3].
  rewrite forallb_forall in H2. rewrite Forall_forall. intros fe Hin. specialize (H2 fe Hin). lia.
Qed.
