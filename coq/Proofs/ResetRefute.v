(* C13: the full continuity statement for rounds is FALSE of the faithful model, as it is of the code
   (known finding C13-roots-insufficient).  Witness: Proofs/ResetWitness.v, generated from a history
   found and minimised on the real node.core objects by harness/cmd/resetwit (49 actions, 5
   validators, 46 events), evaluated here on the model by vm_compute. *)
From Coq Require Import ZArith List Bool Lia.
From V Require Import Model.ZMap Model.Quorum Model.HgImpl Model.HgReset
  Proofs.AdmissionProofs Proofs.BlockInv Proofs.OrderProofs Proofs.ResetRound Proofs.ResetWitness.
Import ListNotations.
Open Scope Z_scope.

Definition round_of (st : hg) (x : Z) : option Z :=
  match get_event st x with Some e => ev_round e | None => None end.

(** the full statement: whatever the histories, an event gets the same round on a node that was
    reset from an honest peer's anchor and on a full-history node *)
Definition C13_continuity_round_statement : Prop :=
  forall genesis all ss os ops_s sv ov ops_v ops_v' sf of ops_f v1 y rv rf,
    ids_determine all -> (forall e, In e all -> e_sigok e = true) ->
    Forall (hop_ok all) ops_s -> Forall (hop_ok all) ops_v -> Forall (hop_ok all) ops_v' -> Forall (hop_ok all) ops_f ->
    reset_from (hrun (init_hg sv genesis ov) ops_v) (hrun (init_hg ss genesis os) ops_s) = Some v1 ->
    round_of (hrun v1 ops_v') y = Some rv ->
    round_of (hrun (init_hg sf genesis of) ops_f) y = Some rf ->
    rv = rf.

(** the witness, on the model *)
Definition check (o : option hg) (f : hg -> option Z) (g : option Z) (ia ib : Z) : bool :=
  match o with
  | Some v1 => match f v1, g with
               | Some a, Some b => (a =? ia) && (b =? ib) && negb (ia =? ib)
               | _, _ => false
               end
  | None => false
  end.

Lemma check_elim o f g ia ib : check o f g ia ib = true ->
  exists v1, o = Some v1 /\ f v1 = Some ia /\ g = Some ib /\ ia <> ib.
Proof.
  unfold check. destruct o as [v1|]; [|discriminate]. destruct (f v1) as [a|] eqn:F; [|discriminate].
  destruct g as [b|]; [|discriminate]. intros H. exists v1.
  destruct (Z.eqb_spec a ia), (Z.eqb_spec b ib), (Z.eqb_spec ia ib); cbn in H; try discriminate H. subst. repeat split; auto.
Qed.

(* reset the victim from the server's anchor, let it continue, and compare with the full node:
   the model computes exactly the two rounds that were observed on the implementation *)
Definition rw_check : bool :=
  check (reset_from (hrun (init_hg rw_victim_self rw_genesis rw_victim_oracle) rw_victim_ops_before)
                    (hrun (init_hg rw_server_self rw_genesis rw_server_oracle) rw_server_ops))
        (fun v1 => round_of (hrun v1 rw_victim_ops_after) rw_event)
        (round_of (hrun (init_hg rw_full_self rw_genesis rw_full_oracle) rw_full_ops) rw_event)
        rw_round_reset_impl rw_round_full_impl.

Lemma rw_check_true : rw_check = true.
Proof. vm_compute. reflexivity. Qed.

Ltac solve_in := repeat (first [left; reflexivity | right]).
Ltac solve_ops := repeat (apply Forall_cons; [first [exact I | split; [solve_in | discriminate]]|]); apply Forall_nil.

Lemma rw_ids : ids_determine rw_all.
Proof. apply ids_determine_distinct. vm_compute. reflexivity. Qed.
Lemma rw_sigok : forall e, In e rw_all -> e_sigok e = true.
Proof. intros e H. repeat (destruct H as [<-|H]; [reflexivity|]). destruct H. Qed.
Lemma rw_server_ok : Forall (hop_ok rw_all) rw_server_ops. Proof. unfold rw_server_ops, hop_ok, rw_all. solve_ops. Qed.
Lemma rw_victim_before_ok : Forall (hop_ok rw_all) rw_victim_ops_before. Proof. unfold rw_victim_ops_before, hop_ok, rw_all. solve_ops. Qed.
Lemma rw_victim_after_ok : Forall (hop_ok rw_all) rw_victim_ops_after. Proof. unfold rw_victim_ops_after, hop_ok, rw_all. solve_ops. Qed.
Lemma rw_full_ok : Forall (hop_ok rw_all) rw_full_ops. Proof. unfold rw_full_ops, hop_ok, rw_all. solve_ops. Qed.

Theorem continuity_round_refuted : ~ C13_continuity_round_statement.
Proof.
  intros S.
  destruct (check_elim _ _ _ _ _ rw_check_true) as [v1 [E [Hv [Hf Hne]]]].
  apply Hne.
  exact (S rw_genesis rw_all rw_server_self rw_server_oracle rw_server_ops rw_victim_self rw_victim_oracle
           rw_victim_ops_before rw_victim_ops_after rw_full_self rw_full_oracle rw_full_ops v1 rw_event _ _
           rw_ids rw_sigok rw_server_ok rw_victim_before_ok rw_victim_after_ok rw_full_ok E Hv Hf).
Qed.

(** why: the negation of [roots_sufficient], computed on the same witness.  On the full-history
    node the event strongly sees a witness of its parent round that the reset node does not have at
    all: it lies deeper than ROOT_DEPTH below the frame. *)
Definition missing_check (o : option hg) (after : hg -> hg) (s : hg) (y pr : Z) : bool :=
  match o with
  | Some v1 =>
    match get_peerset s pr with
    | Some pps =>
      existsb (fun w => match strongly_see s y w pps with
                        | Some true => negb (existsb (Z.eqb w) (round_witnesses_at (after v1) pr)) &&
                                       (match get_event (after v1) w with None => true | Some _ => false end)
                        | _ => false
                        end) (round_witnesses_at s pr)
    | None => false
    end
  | None => false
  end.

Lemma missing_elim o after s y pr : missing_check o after s y pr = true ->
  exists v1 pps w, o = Some v1 /\ get_peerset s pr = Some pps /\ In w (round_witnesses_at s pr) /\
    strongly_see s y w pps = Some true /\ ~ In w (round_witnesses_at (after v1) pr) /\ get_event (after v1) w = None.
Proof.
  unfold missing_check. destruct o as [v1|]; [|discriminate]. destruct (get_peerset s pr) as [pps|]; [|discriminate].
  intros H. apply existsb_exists in H. destruct H as [w [Hin Hw]]. exists v1, pps, w.
  destruct (strongly_see s y w pps) as [[|]|]; try discriminate. apply andb_prop in Hw. destruct Hw as [Hn Hg].
  repeat split; auto.
  - intros C. apply negb_true_iff in Hn. assert (X : existsb (Z.eqb w) (round_witnesses_at (after v1) pr) = true).
    { apply existsb_exists. exists w. split; [exact C|apply Z.eqb_refl]. } congruence.
  - destruct (get_event (after v1) w); [discriminate|reflexivity].
Qed.

Definition rw_parent_round : Z := 0.
Definition rw_missing_check : bool :=
  missing_check (reset_from (hrun (init_hg rw_victim_self rw_genesis rw_victim_oracle) rw_victim_ops_before)
                            (hrun (init_hg rw_server_self rw_genesis rw_server_oracle) rw_server_ops))
                (fun v1 => hrun v1 rw_victim_ops_after)
                (hrun (init_hg rw_full_self rw_genesis rw_full_oracle) rw_full_ops) rw_event rw_parent_round.
Lemma rw_missing_check_true : rw_missing_check = true.
Proof. vm_compute. reflexivity. Qed.

Theorem roots_insufficient_witness :
  exists v1 pps,
    reset_from (hrun (init_hg rw_victim_self rw_genesis rw_victim_oracle) rw_victim_ops_before)
               (hrun (init_hg rw_server_self rw_genesis rw_server_oracle) rw_server_ops) = Some v1 /\
    get_peerset (hrun (init_hg rw_full_self rw_genesis rw_full_oracle) rw_full_ops) rw_parent_round = Some pps /\
    ~ roots_sufficient (hrun v1 rw_victim_ops_after) (hrun (init_hg rw_full_self rw_genesis rw_full_oracle) rw_full_ops)
        rw_event rw_parent_round pps.
Proof.
  destruct (missing_elim _ _ _ _ _ rw_missing_check_true) as [v1 [pps [w [E [P [Hin [Hs [Hn _]]]]]]]].
  exists v1, pps. split; [exact E|split; [exact P|]]. intros R. apply Hn. apply (rs_inside _ _ _ _ _ R w Hin Hs).
Qed.
