(* C13: when does an event inserted after a Reset get the same round / witness flag / Lamport
   timestamp on the fast-forwarded node as on a full-history node?

   round(y) reads: the memoised rounds of y's parents, the RoundInfo and the peer set of the parent
   round pr, and for every witness w recorded in that RoundInfo the strongly-see test
   (last ancestors of y against first descendants of w, over the peer set).  [roots_sufficient v s y pr]
   says that the fast-forwarded node v and the full-history node s agree on what that computation
   reads; its negation is the known finding C13-roots-insufficient (a parent-round witness that y
   strongly sees on s is below the ROOT_DEPTH root events shipped in the frame, so v does not have it). *)
From Coq Require Import ZArith List Bool Lia ZifyBool Permutation.
From RecordUpdate Require Import RecordSet.
From V Require Import Model.ZMap Model.Quorum Model.Voting Model.HgImpl Model.HgReset
  Proofs.ZMapFacts Proofs.HgFrames.
Import ListNotations RecordSetNotations.
Open Scope Z_scope.

(** * round_f as a function of what it reads *)

Definition parent_round (st : hg) (p : Z) : option Z :=
  if p =? -1 then Some (-1) else zget p (round_memo st).

Definition ss_step (st : hg) (x : Z) (pps : peerset) (acc : option Z) (w : Z) : option Z :=
  match acc, strongly_see st x w pps with
  | Some n, Some b => Some (if b then n + 1 else n)
  | _, _ => None
  end.
Definition ss_fold (st : hg) (x : Z) (pps : peerset) (ws : list Z) : option Z :=
  fold_left (ss_step st x pps) ws (Some 0).

Definition round_witnesses_at (st : hg) (r : Z) : list Z :=
  match get_round st r with Some ri => witnesses ri | None => [] end.

(* the round of x, given the rounds of its parents (-1 for no parent) *)
Definition round_of_parents (st : hg) (x spr opr : Z) : option Z :=
  let pr := if spr <? opr then opr else spr in
  if pr =? -1 then Some 0
  else match get_round st pr, get_peerset st pr with
       | Some pri, Some pps =>
         match ss_fold st x pps (witnesses pri) with
         | Some c => Some (if super_majority pps <=? c then pr + 1 else pr)
         | None => None
         end
       | _, _ => None
       end.

Lemma round_f_memoised fuel st x r : zget x (round_memo st) = Some r -> round_f fuel st x = (Some r, st).
Proof. intros H. destruct fuel; cbn [round_f]; rewrite H; reflexivity. Qed.

Lemma round_f_parent fuel st p r : parent_round st p = Some r ->
  (if p =? -1 then (Some (-1), st) else round_f fuel st p) = (Some r, st).
Proof.
  unfold parent_round. destruct (p =? -1); [intros H; inversion H; reflexivity|]. apply round_f_memoised.
Qed.

(* one unfolding of _round for an event that is not memoised and whose parents are *)
Lemma round_f_step fuel st x ex spr opr :
  zget x (round_memo st) = None -> get_event st x = Some ex ->
  parent_round st (e_sp (ev_e ex)) = Some spr -> parent_round st (e_op (ev_e ex)) = Some opr ->
  fst (round_f (S fuel) st x) = round_of_parents st x spr opr.
Proof.
  intros Hm Hx Hsp Hop. cbn [round_f]. rewrite Hm, Hx.
  rewrite (round_f_parent fuel st _ _ Hsp). rewrite (round_f_parent fuel st _ _ Hop).
  unfold round_of_parents. cbv zeta.
  destruct ((if spr <? opr then opr else spr) =? -1); [reflexivity|].
  destruct (get_round st _) as [pri|]; [|reflexivity].
  destruct (get_peerset st _) as [pps|]; [|reflexivity].
  unfold ss_fold, ss_step. destruct (fold_left _ (witnesses pri) (Some 0)); reflexivity.
Qed.

(** * Counting strongly-seen witnesses *)

Definition ss_true (st : hg) (x : Z) (pps : peerset) (w : Z) : bool :=
  match strongly_see st x w pps with Some true => true | _ => false end.

Lemma ss_fold_count st x pps : forall ws n,
  (forall w, In w ws -> strongly_see st x w pps <> None) ->
  fold_left (ss_step st x pps) ws (Some n) = Some (n + Z.of_nat (length (filter (ss_true st x pps) ws))).
Proof.
  induction ws as [|w r IH]; intros n D; cbn [fold_left filter length].
  - f_equal. lia.
  - unfold ss_step at 2, ss_true at 1.
    destruct (strongly_see st x w pps) as [[|]|] eqn:E; [| |exfalso; apply (D w); [left; reflexivity|exact E]].
    + rewrite IH by (intros; apply D; right; auto). cbn [length]. f_equal. lia.
    + rewrite IH by (intros; apply D; right; auto). reflexivity.
Qed.

Lemma NoDup_filter {A} (p : A -> bool) l : NoDup l -> NoDup (filter p l).
Proof.
  induction 1 as [|x r Hx Hr IH]; cbn [filter]; [constructor|].
  destruct (p x); [constructor; [rewrite filter_In; tauto|exact IH]|exact IH].
Qed.

Lemma same_members_length {A} (l1 l2 : list A) :
  NoDup l1 -> NoDup l2 -> (forall a, In a l1 <-> In a l2) -> length l1 = length l2.
Proof. intros N1 N2 H. apply Permutation_length. apply NoDup_Permutation; assumption. Qed.

(** * The condition *)

Record roots_sufficient (v s : hg) (y pr : Z) (pps : peerset) : Prop := {
  (* both nodes have a RoundInfo for the parent round, without repeated witnesses *)
  rs_round : get_round v pr = None <-> get_round s pr = None;
  rs_nodup_v : NoDup (round_witnesses_at v pr);
  rs_nodup_s : NoDup (round_witnesses_at s pr);
  (* the strongly-see tests are defined (y and the witnesses are in the respective stores) *)
  rs_def_v : forall w, In w (round_witnesses_at v pr) -> strongly_see v y w pps <> None;
  rs_def_s : forall w, In w (round_witnesses_at s pr) -> strongly_see s y w pps <> None;
  (* every parent-round witness that y strongly sees on the full node is known to the reset node
     as a witness of that round: it is inside the frame (roots + events) or was inserted later *)
  rs_inside : forall w, In w (round_witnesses_at s pr) -> strongly_see s y w pps = Some true ->
              In w (round_witnesses_at v pr);
  (* the reset node does not invent witnesses *)
  rs_sub : forall w, In w (round_witnesses_at v pr) -> In w (round_witnesses_at s pr);
  (* for the witnesses it has, the coordinates it compares give the same answer *)
  rs_coords : forall w, In w (round_witnesses_at v pr) -> strongly_see v y w pps = strongly_see s y w pps
}.

Lemma ss_count_agree v s y pr pps :
  roots_sufficient v s y pr pps ->
  length (filter (ss_true v y pps) (round_witnesses_at v pr)) = length (filter (ss_true s y pps) (round_witnesses_at s pr)).
Proof.
  intros R. apply same_members_length.
  - apply NoDup_filter, (rs_nodup_v _ _ _ _ _ R).
  - apply NoDup_filter, (rs_nodup_s _ _ _ _ _ R).
  - intros w. rewrite !filter_In. unfold ss_true. split; intros [Hin Ht].
    + split; [apply (rs_sub _ _ _ _ _ R); exact Hin|]. rewrite <- (rs_coords _ _ _ _ _ R w Hin). exact Ht.
    + assert (Hs : strongly_see s y w pps = Some true) by (destruct (strongly_see s y w pps) as [[|]|]; congruence).
      pose proof (rs_inside _ _ _ _ _ R w Hin Hs) as Hv. split; [exact Hv|].
      rewrite (rs_coords _ _ _ _ _ R w Hv), Hs. reflexivity.
Qed.

(* same parents' rounds, same peer set for the parent round, sufficient roots: same round *)
Theorem round_of_parents_agree v s y spr opr :
  let pr := if spr <? opr then opr else spr in
  get_peerset v pr = get_peerset s pr ->
  (forall pps, get_peerset s pr = Some pps -> roots_sufficient v s y pr pps) ->
  round_of_parents v y spr opr = round_of_parents s y spr opr.
Proof.
  cbv zeta. intros Hps R. unfold round_of_parents. cbv zeta.
  set (pr := if spr <? opr then opr else spr) in *.
  destruct (pr =? -1); [reflexivity|]. rewrite Hps.
  destruct (get_peerset s pr) as [pps|] eqn:P.
  - specialize (R pps eq_refl).
    pose proof (ss_count_agree _ _ _ _ _ R) as C.
    pose proof (rs_def_v _ _ _ _ _ R) as Dv. pose proof (rs_def_s _ _ _ _ _ R) as Ds.
    pose proof (rs_round _ _ _ _ _ R) as RR.
    unfold round_witnesses_at in C, Dv, Ds.
    destruct (get_round v pr) as [rv|] eqn:Gv, (get_round s pr) as [rs|] eqn:Gs.
    + unfold ss_fold. rewrite (ss_fold_count v y pps _ 0 Dv), (ss_fold_count s y pps _ 0 Ds), C. reflexivity.
    + exfalso. pose proof (proj2 RR eq_refl) as X. congruence.
    + exfalso. pose proof (proj1 RR eq_refl) as X. congruence.
    + reflexivity.
  - destruct (get_round v pr), (get_round s pr); reflexivity.
Qed.

(* the same, for _round itself (one unfolding: parents memoised with equal values, y not yet) *)
Theorem round_f_agree fv fs v s y ev es spr opr :
  zget y (round_memo v) = None -> zget y (round_memo s) = None ->
  get_event v y = Some ev -> get_event s y = Some es -> ev_e ev = ev_e es ->
  parent_round v (e_sp (ev_e ev)) = Some spr -> parent_round s (e_sp (ev_e es)) = Some spr ->
  parent_round v (e_op (ev_e ev)) = Some opr -> parent_round s (e_op (ev_e es)) = Some opr ->
  let pr := if spr <? opr then opr else spr in
  get_peerset v pr = get_peerset s pr ->
  (forall pps, get_peerset s pr = Some pps -> roots_sufficient v s y pr pps) ->
  fst (round_f (S fv) v y) = fst (round_f (S fs) s y).
Proof.
  intros Mv Ms Hv Hs Eb Sv Ss Ov Os pr Hps R.
  rewrite (round_f_step fv v y ev spr opr Mv Hv Sv Ov), (round_f_step fs s y es spr opr Ms Hs Ss Os).
  apply round_of_parents_agree; assumption.
Qed.

(** * The strongly-see test only compares indexes per validator *)

Definition ss_test (la fd : coords) (p : Z) : bool :=
  match aget p la, aget p fd with
  | Some (i, _), Some (j, _) => j <=? i
  | _, _ => false
  end.

Lemma ss_count_ext la fd la' fd' ks :
  (forall p, In p ks -> ss_test la fd p = ss_test la' fd' p) -> ss_count la fd ks = ss_count la' fd' ks.
Proof.
  intros H. unfold ss_count. f_equal. f_equal.
  induction ks as [|k r IH]; cbn [filter]; [reflexivity|].
  fold (ss_test la fd k). fold (ss_test la' fd' k). rewrite (H k) by (left; reflexivity).
  rewrite IH by (intros; apply H; right; auto). reflexivity.
Qed.

Lemma In_dedup k l : In k (dedup l) -> In k l.
Proof.
  induction l as [|x r IH]; cbn [dedup]; [auto|].
  destruct (mem_key x r); [intros H; right; auto|intros [->|H]; [left; reflexivity|right; auto]].
Qed.

(* [rs_coords] from the coordinates: for every validator of the parent round's peer set the index
   comparison "last ancestor of y by p >= first descendant of w by p" has the same outcome *)
Lemma strongly_see_agree v s y w pps yv ys wv ws :
  get_event v y = Some yv -> get_event s y = Some ys -> get_event v w = Some wv -> get_event s w = Some ws ->
  (forall p, In p (keys pps) -> ss_test (ev_la yv) (ev_fd wv) p = ss_test (ev_la ys) (ev_fd ws) p) ->
  strongly_see v y w pps = strongly_see s y w pps.
Proof.
  intros Hyv Hys Hwv Hws H. unfold strongly_see. rewrite Hyv, Hys, Hwv, Hws.
  rewrite (ss_count_ext _ _ (ev_la ys) (ev_fd ws)); [reflexivity|].
  intros p Hp. apply H. apply In_dedup. exact Hp.
Qed.

(** * witness and Lamport timestamp *)

Definition witness_of (st : hg) (creator xr spr : Z) : option bool :=
  match get_peerset st xr with
  | None => None
  | Some ps => if negb (mem_key creator (keys ps)) then Some false else Some (spr <? xr)
  end.

Lemma witness_f_step fuel st x ex xr spr :
  zget x (witness_memo st) = None -> get_event st x = Some ex ->
  zget x (round_memo st) = Some xr -> parent_round st (e_sp (ev_e ex)) = Some spr ->
  fst (witness_f fuel st x) = witness_of st (e_creator (ev_e ex)) xr spr.
Proof.
  intros Hm Hx Hr Hsp. unfold witness_f. rewrite Hm, Hx, (round_f_memoised _ _ _ _ Hr).
  unfold witness_of. destruct (get_peerset st xr) as [ps|]; [|reflexivity].
  destruct (negb _); [reflexivity|].
  rewrite (round_f_parent fuel st _ _ Hsp). reflexivity.
Qed.

(* same round, same self-parent round, same peer set at that round: same witness flag *)
Theorem witness_f_agree fv fs v s y ev es xr spr :
  zget y (witness_memo v) = None -> zget y (witness_memo s) = None ->
  get_event v y = Some ev -> get_event s y = Some es -> ev_e ev = ev_e es ->
  zget y (round_memo v) = Some xr -> zget y (round_memo s) = Some xr ->
  parent_round v (e_sp (ev_e ev)) = Some spr -> parent_round s (e_sp (ev_e es)) = Some spr ->
  get_peerset v xr = get_peerset s xr ->
  fst (witness_f fv v y) = fst (witness_f fs s y).
Proof.
  intros Mv Ms Hv Hs Eb Rv Rs Sv Ss P.
  rewrite (witness_f_step fv v y ev xr spr Mv Hv Rv Sv), (witness_f_step fs s y es xr spr Ms Hs Rs Ss).
  unfold witness_of. rewrite P, Eb. reflexivity.
Qed.

Definition parent_lt (st : hg) (p : Z) : option Z := if p =? -1 then Some (-1) else zget p (lt_memo st).

Definition lamport_of (plt : Z) (op : Z) (op_stored : bool) (opt : Z) : Z :=
  (if op =? -1 then plt
   else if op_stored then (if plt <? opt then opt else plt)
        else (if plt <? min_int32 then min_int32 else plt)) + 1.

Lemma lamport_f_memoised fuel st x t : zget x (lt_memo st) = Some t -> lamport_f fuel st x = (Some t, st).
Proof. intros H. destruct fuel; cbn [lamport_f]; rewrite H; reflexivity. Qed.

Lemma lamport_f_step fuel st x ex plt opt :
  zget x (lt_memo st) = None -> get_event st x = Some ex ->
  parent_lt st (e_sp (ev_e ex)) = Some plt ->
  (e_op (ev_e ex) = -1 \/ get_event st (e_op (ev_e ex)) = None \/ zget (e_op (ev_e ex)) (lt_memo st) = Some opt) ->
  fst (lamport_f (S fuel) st x) =
  Some (lamport_of plt (e_op (ev_e ex)) (match get_event st (e_op (ev_e ex)) with Some _ => true | None => false end) opt).
Proof.
  intros Hm Hx Hsp Hop. cbn [lamport_f]. rewrite Hm, Hx.
  assert (E1 : (if e_sp (ev_e ex) =? -1 then (Some (-1), st) else lamport_f fuel st (e_sp (ev_e ex))) = (Some plt, st)).
  { unfold parent_lt in Hsp. destruct (e_sp (ev_e ex) =? -1); [inversion Hsp; reflexivity|]. apply lamport_f_memoised; exact Hsp. }
  rewrite E1. unfold lamport_of.
  destruct (Z.eqb_spec (e_op (ev_e ex)) (-1)) as [Eo|Hne]; [reflexivity|].
  destruct (get_event st (e_op (ev_e ex))) as [eo|] eqn:Go; [|reflexivity].
  destruct Hop as [C|[C|Hop]]; [contradiction|discriminate|].
  rewrite (lamport_f_memoised _ _ _ _ Hop). reflexivity.
Qed.

(* same parents' timestamps, other-parent stored in both (or in neither): same timestamp *)
Theorem lamport_f_agree fv fs v s y ev es plt opt :
  zget y (lt_memo v) = None -> zget y (lt_memo s) = None ->
  get_event v y = Some ev -> get_event s y = Some es -> ev_e ev = ev_e es ->
  parent_lt v (e_sp (ev_e ev)) = Some plt -> parent_lt s (e_sp (ev_e es)) = Some plt ->
  (e_op (ev_e ev) = -1 \/
   (get_event v (e_op (ev_e ev)) <> None /\ get_event s (e_op (ev_e ev)) <> None /\
    zget (e_op (ev_e ev)) (lt_memo v) = Some opt /\ zget (e_op (ev_e ev)) (lt_memo s) = Some opt)) ->
  fst (lamport_f (S fv) v y) = fst (lamport_f (S fs) s y).
Proof.
  intros Mv Ms Hv Hs Eb Pv Ps Hop.
  rewrite (lamport_f_step fv v y ev plt opt Mv Hv Pv), (lamport_f_step fs s y es plt opt Ms Hs Ps).
  - rewrite <- Eb. destruct Hop as [E|[Gv [Gs _]]].
    + unfold lamport_of. rewrite E. reflexivity.
    + destruct (get_event v (e_op (ev_e ev))), (get_event s (e_op (ev_e ev))); congruence.
  - rewrite <- Eb. destruct Hop as [E|[_ [_ [_ L]]]]; auto.
  - destruct Hop as [E|[_ [_ [L _]]]]; auto.
Qed.

(** * The "ev.round == nil" block of DivideRounds, for an event whose parents are memoised *)

Lemma round_f_step_full fuel st x ex spr opr :
  zget x (round_memo st) = None -> get_event st x = Some ex ->
  parent_round st (e_sp (ev_e ex)) = Some spr -> parent_round st (e_op (ev_e ex)) = Some opr ->
  round_f (S fuel) st x =
  match round_of_parents st x spr opr with
  | Some r => (Some r, st <| round_memo := zset x r (round_memo st) |>)
  | None => (None, st)
  end.
Proof.
  intros Hm Hx Hsp Hop. cbn [round_f]. rewrite Hm, Hx.
  rewrite (round_f_parent fuel st _ _ Hsp). rewrite (round_f_parent fuel st _ _ Hop).
  unfold round_of_parents. cbv zeta.
  destruct ((if spr <? opr then opr else spr) =? -1); [reflexivity|].
  destruct (get_round st _) as [pri|]; [|reflexivity].
  destruct (get_peerset st _) as [pps|]; [|reflexivity].
  unfold ss_fold, ss_step. destruct (fold_left _ (witnesses pri) (Some 0)); reflexivity.
Qed.

Lemma witness_f_step_full fuel st x ex xr spr :
  zget x (witness_memo st) = None -> get_event st x = Some ex ->
  zget x (round_memo st) = Some xr -> parent_round st (e_sp (ev_e ex)) = Some spr ->
  witness_f fuel st x =
  match witness_of st (e_creator (ev_e ex)) xr spr with
  | Some w => (Some w, st <| witness_memo := zset x w (witness_memo st) |>)
  | None => (None, st)
  end.
Proof.
  intros Hm Hx Hr Hsp. unfold witness_f. rewrite Hm, Hx, (round_f_memoised _ _ _ _ Hr).
  unfold witness_of. destruct (get_peerset st xr) as [ps|]; [|reflexivity].
  destruct (negb _); [reflexivity|].
  rewrite (round_f_parent fuel st _ _ Hsp). reflexivity.
Qed.

(* what DivideRounds records for y: the memoised round and witness flag, the event's round field,
   the entry in the RoundInfo of that round *)
Definition divided (st : hg) (y : Z) : option (Z * bool) * option (option Z) * option (bool * trilean) :=
  (match zget y (round_memo st), zget y (witness_memo st) with Some r, Some w => Some (r, w) | _, _ => None end,
   option_map ev_round (get_event st y),
   match zget y (round_memo st) with
   | Some r => match get_round st r with Some ri => aget y (ri_created ri) | None => None end
   | None => None
   end).

(* the outcome of the block, as a function of what _round and _witness return *)
Lemma divide_round_divided st y e0 spr opr :
  0 <= y ->
  zget y (round_memo st) = None -> zget y (witness_memo st) = None ->
  get_event st y = Some e0 -> ev_round e0 = None ->
  parent_round st (e_sp (ev_e e0)) = Some spr -> parent_round st (e_op (ev_e e0)) = Some opr ->
  e_sp (ev_e e0) <> y ->
  (forall r ri, get_round st r = Some ri -> aget y (ri_created ri) = None) ->
  divided (divide_round st y) y =
  match round_of_parents st y spr opr with
  | None => (None, Some None, None)
  | Some r =>
    match witness_of st (e_creator (ev_e e0)) r spr with
    | None => (None, Some (Some r), None)
    | Some w => (Some (r, w), Some (Some r), if 0 <=? r then Some (w, Undefined) else None)
    end
  end.
Proof.
  intros Hy Mr Mw Hx Hr0 Hsp Hop Hne Hfresh.
  unfold divide_round, fuel_of.
  rewrite (round_f_step_full _ st y e0 spr opr Mr Hx Hsp Hop).
  destruct (round_of_parents st y spr opr) as [r|].
  2:{ unfold divided. replace (round_memo (fail st)) with (round_memo st) by (destruct st; reflexivity).
      replace (get_event (fail st) y) with (get_event st y) by (destruct st; reflexivity).
      rewrite Mr, Hx. cbn. rewrite Hr0. reflexivity. }
  cbv zeta.
  set (st1 := st <| round_memo := zset y r (round_memo st) |>).
  set (s1 := set_event_round st1 y r).
  set (ri := round_or_new s1 r).
  set (s2 := maybe_queue s1 r ri).
  (* reads of s2 *)
  assert (Ev1 : get_event st1 y = Some e0) by (subst st1; unfold get_event in *; destruct st; exact Hx).
  assert (Es1 : s1 = set_evst st1 y (e0 <| ev_round := Some r |>)) by (subst s1; unfold set_event_round; rewrite Ev1; reflexivity).
  assert (Ev2 : get_event s2 y = Some (e0 <| ev_round := Some r |>)).
  { assert (E : get_event s2 y = get_event s1 y).
    { subst s2. unfold maybe_queue. destruct (_ && _); [destruct s1; reflexivity|reflexivity]. }
    rewrite E, Es1. unfold get_event, set_evst. destruct st1; cbn. rewrite zget_zset_same by exact Hy. reflexivity. }
  assert (Rm2 : round_memo s2 = zset y r (round_memo st)).
  { assert (E : round_memo s2 = round_memo s1) by (subst s2; unfold maybe_queue; destruct (_ && _); [destruct s1; reflexivity|reflexivity]).
    rewrite E, Es1. subst st1. destruct st; reflexivity. }
  assert (Wm2 : witness_memo s2 = witness_memo st).
  { assert (E : witness_memo s2 = witness_memo s1) by (subst s2; unfold maybe_queue; destruct (_ && _); [destruct s1; reflexivity|reflexivity]).
    rewrite E, Es1. subst st1. destruct st; reflexivity. }
  assert (Ps2 : peersets s2 = peersets st).
  { assert (E : peersets s2 = peersets s1) by (subst s2; unfold maybe_queue; destruct (_ && _); [destruct s1; reflexivity|reflexivity]).
    rewrite E, Es1. subst st1. destruct st; reflexivity. }
  assert (Rd2 : rounds s2 = rounds st).
  { assert (E : rounds s2 = rounds s1) by (subst s2; unfold maybe_queue; destruct (_ && _); [destruct s1; reflexivity|reflexivity]).
    rewrite E, Es1. subst st1. destruct st; reflexivity. }
  assert (Hri : aget y (ri_created ri) = None).
  { subst ri. unfold round_or_new.
    assert (E : get_round s1 r = get_round st r) by (rewrite Es1; subst st1; unfold get_round; destruct st; reflexivity).
    rewrite E. destruct (get_round st r) as [ri0|] eqn:G; [eapply Hfresh; eauto|reflexivity]. }
  assert (M2 : zget y (round_memo s2) = Some r) by (rewrite Rm2; apply zget_zset_same; exact Hy).
  assert (Sp2 : parent_round s2 (e_sp (ev_e (e0 <| ev_round := Some r |>))) = Some spr).
  { cbn [ev_e set]. unfold parent_round in *. destruct (e_sp (ev_e e0) =? -1); [exact Hsp|].
    rewrite Rm2, zget_zset_other by (intros C; apply Hne; symmetry; exact C). exact Hsp. }
  rewrite (witness_f_step_full _ s2 y _ r spr ltac:(rewrite Wm2; exact Mw) Ev2 M2 Sp2).
  cbn [ev_e set].
  replace (witness_of s2 (e_creator (ev_e e0)) r spr) with (witness_of st (e_creator (ev_e e0)) r spr)
    by (unfold witness_of, get_peerset; rewrite Ps2; reflexivity).
  destruct (witness_of st (e_creator (ev_e e0)) r spr) as [w|].
  - set (s3 := s2 <| witness_memo := zset y w (witness_memo s2) |>).
    unfold divided.
    replace (round_memo (set_round s3 r (add_created ri y w))) with (round_memo s2) by (subst s3; destruct s2; reflexivity).
    replace (witness_memo (set_round s3 r (add_created ri y w))) with (zset y w (witness_memo s2)) by (subst s3; destruct s2; reflexivity).
    replace (get_event (set_round s3 r (add_created ri y w)) y) with (get_event s2 y) by (subst s3; destruct s2; reflexivity).
    rewrite M2, zget_zset_same by exact Hy. rewrite Ev2. cbn [option_map ev_round set].
    f_equal. unfold get_round, set_round. replace (rounds (s3 <| rounds := zset r (add_created ri y w) (rounds s3) |> <| last_round := Z.max r (last_round s3) |>))
      with (zset r (add_created ri y w) (rounds s2)) by (subst s3; destruct s2; reflexivity).
    rewrite zget_zset, Z.eqb_refl. cbn [andb]. destruct (0 <=? r) eqn:Hr.
    + unfold add_created. rewrite Hri. cbn [ri_created set]. rewrite aget_app_none by exact Hri. cbn [aget]. rewrite Z.eqb_refl. reflexivity.
    + rewrite zget_neg by lia. reflexivity.
  - unfold divided.
    replace (round_memo (fail s2)) with (round_memo s2) by (destruct s2; reflexivity).
    replace (witness_memo (fail s2)) with (witness_memo s2) by (destruct s2; reflexivity).
    replace (get_event (fail s2) y) with (get_event s2 y) by (destruct s2; reflexivity).
    rewrite M2, Wm2, Mw, Ev2. cbn [option_map ev_round set]. f_equal.
    unfold get_round. replace (rounds (fail s2)) with (rounds s2) by (destruct s2; reflexivity). rewrite Rd2.
    destruct (zget r (rounds st)) as [ri0|] eqn:G; [|reflexivity]. eapply Hfresh. unfold get_round. exact G.
Qed.

Lemma parent_round_keep st st' p r :
  (forall x v, zget x (round_memo st) = Some v -> zget x (round_memo st') = Some v) ->
  parent_round st p = Some r -> parent_round st' p = Some r.
Proof. unfold parent_round. destruct (p =? -1); [auto|]. intros H. apply H. Qed.

(* C13 continuity at the level of DivideRounds: same recorded round, witness flag, RoundInfo entry *)
Theorem divide_round_agree v s y ev es spr opr :
  0 <= y ->
  zget y (round_memo v) = None -> zget y (round_memo s) = None ->
  zget y (witness_memo v) = None -> zget y (witness_memo s) = None ->
  get_event v y = Some ev -> get_event s y = Some es -> ev_e ev = ev_e es ->
  ev_round ev = None -> ev_round es = None ->
  parent_round v (e_sp (ev_e ev)) = Some spr -> parent_round s (e_sp (ev_e es)) = Some spr ->
  parent_round v (e_op (ev_e ev)) = Some opr -> parent_round s (e_op (ev_e es)) = Some opr ->
  e_sp (ev_e ev) <> y ->
  (forall r ri, get_round v r = Some ri -> aget y (ri_created ri) = None) ->
  (forall r ri, get_round s r = Some ri -> aget y (ri_created ri) = None) ->
  (forall r, get_peerset v r = get_peerset s r) ->
  (forall pps, get_peerset s (if spr <? opr then opr else spr) = Some pps ->
               roots_sufficient v s y (if spr <? opr then opr else spr) pps) ->
  divided (divide_round v y) y = divided (divide_round s y) y.
Proof.
  intros Hy Rv Rs Wv Ws Hv Hs Eb Nv Ns Sv Ss Ov Os Hne Fv Fs Hps R.
  rewrite (divide_round_divided v y ev spr opr Hy Rv Wv Hv Nv Sv Ov Hne Fv).
  rewrite (divide_round_divided s y es spr opr Hy Rs Ws Hs Ns Ss Os ltac:(rewrite <- Eb; exact Hne) Fs).
  rewrite (round_of_parents_agree v s y spr opr (Hps _) R).
  destruct (round_of_parents s y spr opr) as [r|]; [|reflexivity].
  unfold witness_of. rewrite (Hps r), Eb. reflexivity.
Qed.
