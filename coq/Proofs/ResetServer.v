(* C13, serving side: for every state a full-history node can reach, the frame of a delivered block
   records exactly the validator-set table that the replay of the EARLIER delivered blocks gives
   (C10's specification), and the latest set of that table is core.validators of that moment.
   Hence a node that resets itself from an anchor block + frame and then applies the block's
   receipts ends with the table and the validators a full-history node has right after committing
   the anchor block. *)
From Coq Require Import ZArith List Bool Lia ZifyBool Sorted.
From RecordUpdate Require Import RecordSet.
From V Require Import Model.ZMap Model.Quorum Model.Voting Model.HgImpl Model.HgReset Model.PeerSetSpec
  Proofs.ZMapFacts Proofs.HgFrames Proofs.HgBlockFrames Proofs.AdmissionProofs Proofs.BlockInv Proofs.RoundOrder
  Proofs.OrderFrames Proofs.OrderProofs Proofs.PeerSetProofs Proofs.ResetProofs.
Import ListNotations RecordSetNotations.
Open Scope Z_scope.

(** * The latest entry of a replayed table is core.validators *)

Definition tbl_validators (t : list (Z * peerset)) (dflt : peerset) : peerset :=
  match latest_peerset t with
  | (lr, Some ps) => if 0 <=? lr then ps else dflt
  | (_, None) => dflt
  end.

Lemma ff_validators_tbl f : ff_validators f = tbl_validators (f_peersets f) (f_peers f).
Proof. reflexivity. Qed.

Lemma latest_fold_snoc t k ps acc :
  fold_left (fun (acc : Z * option peerset) rp => if fst acc <? fst rp then (fst rp, Some (snd rp)) else acc) (t ++ [(k, ps)]) acc =
  let a := fold_left (fun (acc : Z * option peerset) rp => if fst acc <? fst rp then (fst rp, Some (snd rp)) else acc) t acc in
  if fst a <? k then (k, Some ps) else a.
Proof. rewrite fold_left_app. reflexivity. Qed.

Lemma latest_bound t : forall acc,
  fst acc <= fst (fold_left (fun (acc : Z * option peerset) rp => if fst acc <? fst rp then (fst rp, Some (snd rp)) else acc) t acc) /\
  (forall k p, In (k, p) t -> k <= fst (fold_left (fun (acc : Z * option peerset) rp => if fst acc <? fst rp then (fst rp, Some (snd rp)) else acc) t acc)) /\
  (fst (fold_left (fun (acc : Z * option peerset) rp => if fst acc <? fst rp then (fst rp, Some (snd rp)) else acc) t acc) = fst acc \/
   exists p, In (fst (fold_left (fun (acc : Z * option peerset) rp => if fst acc <? fst rp then (fst rp, Some (snd rp)) else acc) t acc), p) t).
Proof.
  induction t as [|[k p] r IH]; intros acc; cbn [fold_left].
  - split; [lia|split; [intros k p []|left; reflexivity]].
  - cbn [fst snd]. destruct (Z.ltb_spec (fst acc) k) as [Hlt|Hge].
    + destruct (IH (k, Some p)) as [A [B C]]. cbn [fst] in *. split; [lia|split].
      * intros k' p' [E|Hin]; [inversion E; subst; exact A|eapply B; eauto].
      * right. destruct C as [C|[p' C]]; [rewrite C; exists p; left; reflexivity|exists p'; right; exact C].
    + destruct (IH acc) as [A [B C]]. split; [exact A|split].
      * intros k' p' [E|Hin]; [inversion E; subst; lia|eapply B; eauto].
      * destruct C as [C|[p' C]]; [left; exact C|right; exists p'; right; exact C].
Qed.

(* appending an entry above all keys makes it the latest *)
Lemma tbl_validators_snoc t k ps dflt :
  0 <= k -> (forall k' p, In (k', p) t -> k' < k) -> tbl_validators (t ++ [(k, ps)]) dflt = ps.
Proof.
  intros Hk Hlt. unfold tbl_validators, latest_peerset. rewrite latest_fold_snoc. cbv zeta.
  destruct (latest_bound t (-1, None)) as [A [B C]]. cbn [fst] in *.
  set (a := fold_left _ t (-1, None)) in *.
  assert (Ha : fst a < k).
  { destruct C as [C|[p C]]; [lia|]. eapply Hlt; eauto. }
  replace (fst a <? k) with true by lia. replace (0 <=? k) with true by lia. reflexivity.
Qed.

(* the replay of blocks with increasing, non-negative round-received: the table ends with the
   current validators *)
Lemma replay_latest genesis ds :
  rr_increasing_list ds -> Forall (fun d => 0 <= b_rr d) ds ->
  (forall dflt, tbl_validators (fst (replay_genesis genesis ds)) dflt = snd (replay_genesis genesis ds)) /\
  (forall k p, In (k, p) (fst (replay_genesis genesis ds)) -> k = 0 \/ exists d, In d ds /\ k = b_rr d + 6).
Proof.
  intros S F.
  induction ds as [|d ds IH] using rev_ind.
  - split; [intros dflt; reflexivity|]. intros k p [E|[]]. inversion E; auto.
  - unfold rr_increasing_list in S. rewrite map_app in S. cbn [map] in S.
    assert (S' : rr_increasing_list ds) by (eapply sorted_app_l; eauto).
    assert (F' : Forall (fun d => 0 <= b_rr d) ds).
    { rewrite Forall_forall in *. intros x Hx. apply F. apply in_or_app. left; exact Hx. }
    assert (Fd : 0 <= b_rr d).
    { rewrite Forall_forall in F. apply F. apply in_or_app. right. left. reflexivity. }
    destruct (IH S' F') as [IH1 IH2].
    assert (Hlt : forall d', In d' ds -> b_rr d' < b_rr d).
    { intros d' Hd'. eapply sorted_snoc_lt; [exact S|]. apply in_map. exact Hd'. }
    unfold replay_genesis in *. rewrite replay_snoc.
    destruct (replay [(0, genesis)] genesis ds) as [T V] eqn:ER. cbn [fst snd] in *.
    assert (Hkeys : forall k p, In (k, p) T -> k < b_rr d + 6).
    { intros k p HI. destruct (IH2 k p HI) as [->|[d' [A ->]]]; [lia|]. specialize (Hlt d' A). lia. }
    unfold replay_block, replay_step. cbn [fst snd].
    destruct (snd (apply_receipts V (b_itxs d))) eqn:Ch.
    + assert (Tn : table_has (b_rr d + 6) T = false).
      { apply table_has_false. intros p HI. specialize (Hkeys _ _ HI). lia. }
      rewrite Tn. cbn [fst snd]. rewrite insert_above_all by exact Hkeys. split.
      * intros dflt. apply tbl_validators_snoc; [lia|exact Hkeys].
      * intros k p Hin. apply in_app_or in Hin. destruct Hin as [Hin|[E|[]]].
        -- destruct (IH2 k p Hin) as [->|[d' [A B]]]; [left; reflexivity|right; exists d'; split; [apply in_or_app; left; exact A|exact B]].
        -- inversion E; subst. right. exists d. split; [apply in_or_app; right; left; reflexivity|reflexivity].
    + cbn [fst snd]. split; [exact IH1|]. intros k p Hin.
      destruct (IH2 k p Hin) as [->|[d' [A B]]]; [left; reflexivity|right; exists d'; split; [apply in_or_app; left; exact A|exact B]].
Qed.

(** * Invariants of the frame cache and of the delivered blocks *)

(* a frame is cached only for a processed round *)
Definition flc (st : hg) : Prop :=
  forall rr f, zget rr (frames st) = Some f ->
    match last_consensus st with Some l => rr <= l | None => False end.

(* the frame of a delivered block records the table replayed from the earlier delivered blocks *)
Definition dtab (genesis : peerset) (st : hg) : Prop :=
  forall ds1 d ds2, delivered st = ds1 ++ d :: ds2 ->
    f_peersets (b_frame d) = fst (replay_genesis genesis ds1).

Lemma dtab_snoc g ds bf :
  (forall ds1 d ds2, ds = ds1 ++ d :: ds2 -> f_peersets (b_frame d) = fst (replay_genesis g ds1)) ->
  f_peersets (b_frame bf) = fst (replay_genesis g ds) ->
  forall ds1 d ds2, ds ++ [bf] = ds1 ++ d :: ds2 -> f_peersets (b_frame d) = fst (replay_genesis g ds1).
Proof.
  intros Hold Hnew ds1 d ds2 E.
  induction ds2 as [|x ds2' _] using rev_ind.
  - apply app_inj_tail in E. destruct E as [-> ->]. exact Hnew.
  - rewrite app_comm_cons, app_assoc in E. apply app_inj_tail in E. destruct E as [E _].
    eapply Hold; eauto.
Qed.

Lemma process_round_ft g s p stop pr :
  rinvA s -> lc_lt s (fst pr) -> c10inv g s -> flc s -> dtab g s ->
  flc (fst (fst (process_round (s, p, stop) pr))) /\ dtab g (fst (fst (process_round (s, p, stop) pr))).
Proof.
  intros A Hlt C FL DT. unfold process_round.
  assert (Ffail : forall s0, flc s0 -> dtab g s0 -> flc (fail s0) /\ dtab g (fail s0)).
  { intros s0 F0 D0. split; [intros rr f; specialize (F0 rr f)|intros ds1 d ds2; specialize (D0 ds1 d ds2)]; destruct s0; auto. }
  destruct (stop || failed s); [cbn [fst]; auto|].
  destruct (negb (snd pr)); [cbn [fst]; auto|].
  destruct (get_round s (fst pr)) as [ri|]; [|cbn [fst]; auto].
  destruct (get_frame s (fst pr)) as [[f|] s1] eqn:Hgf.
  2:{ apply get_frame_none in Hgf. subst s1. cbn [fst]. auto. }
  cbn [fst].
  set (r := fst pr) in *.
  (* the frame is not cached yet *)
  assert (Hnone : zget r (frames s) = None).
  { destruct (zget r (frames s)) as [f0|] eqn:Hc; [|reflexivity]. exfalso. specialize (FL r f0 Hc).
    unfold lc_lt in Hlt. destruct (last_consensus s); [lia|exact FL]. }
  destruct (get_frame_fresh s r f s1 Hnone Hgf) as [Hfr [Hps [_ [Hr0 Hfs1]]]].
  destruct (get_frame_spec s r f s1 (r_frames s A) Hgf) as [_ [Hd1 [_ [_ [_ [Hc1 _]]]]]].
  set (s2 := process_frame s1 f).
  pose proof (process_frame_cv s1 f) as C2. fold s2 in C2.
  assert (Lc2 : last_consensus s2 = last_consensus s) by (unfold cv in C2; inversion C2; congruence).
  assert (Fr2 : frames s2 = frames s1) by (unfold cv in C2; inversion C2; congruence).
  set (s3 := bump_last_consensus s2 r).
  assert (Lc3 : last_consensus s3 = Some r).
  { subst s3. apply bump_lc. unfold lc_lt in *. rewrite Lc2. exact Hlt. }
  destruct (bump_keep s2 r) as [_ [Fr3 Dl3]]. fold s3 in Fr3, Dl3.
  split.
  - intros rr f0. rewrite Fr3, Fr2, Hfs1, Lc3, zget_zset.
    destruct (Z.eqb_spec r rr) as [<-|Hne]; cbn [andb].
    + destruct (0 <=? r); [intros _; lia|]. intros H0. specialize (FL _ _ H0). unfold lc_lt in Hlt.
      destruct (last_consensus s); [lia|contradiction].
    + intros H0. specialize (FL _ _ H0). unfold lc_lt in Hlt. destruct (last_consensus s); [lia|contradiction].
  - intros ds1 d ds2. rewrite Dl3.
    destruct (process_frame_delivered_pv s1 f) as [E|[bf [E Hpv]]]; fold s2 in E; rewrite E, Hd1.
    + apply DT.
    + apply dtab_snoc; [exact DT|]. assert (Hbf : b_frame bf = f) by (unfold pv in Hpv; congruence). rewrite Hbf, Hps.
      pose proof (c_replay g s C) as R. apply (f_equal fst) in R. exact R.
Qed.

Lemma c10_round g s p stop pr :
  binv s -> PeerSetProofs.finv s -> c10inv g s ->
  binv (fst (fst (process_round (s, p, stop) pr))) /\ PeerSetProofs.finv (fst (fst (process_round (s, p, stop) pr))) /\
  c10inv g (fst (fst (process_round (s, p, stop) pr))).
Proof.
  intros B F C. split; [apply process_round_binv; exact B|].
  apply (process_round_lift (c10inv g)); auto.
  - intros st st' E _. apply c10inv_ext; exact E.
  - apply c10inv_commit.
Qed.

Lemma process_fold_ft g l : forall s p stop,
  rinvA s -> StronglySorted Z.lt (map fst l) -> (forall r, In r (map fst l) -> lc_lt s r) ->
  binv s -> PeerSetProofs.finv s -> c10inv g s -> flc s -> dtab g s ->
  flc (fst (fst (fold_left process_round l (s, p, stop)))) /\ dtab g (fst (fst (fold_left process_round l (s, p, stop)))).
Proof.
  induction l as [|pr l IH]; intros s p stop A S Hab B F C FL DT; cbn [fold_left]; [auto|].
  inversion S as [|a b S' Fa]; subst.
  assert (Hpr : lc_lt s (fst pr)) by (apply Hab; left; reflexivity).
  destruct (process_round_spec s p stop pr A Hpr) as [A1 [_ Cs]].
  destruct (process_round_ft g s p stop pr A Hpr C FL DT) as [FL1 DT1].
  destruct (c10_round g s p stop pr B F C) as [B1 [F1 C1]].
  destruct (process_round (s, p, stop) pr) as [[s1 p1] stop1] eqn:E. cbn [fst snd] in *.
  destruct Cs as [[-> [Hlc Hs]]|[-> [Hd Hlc]]].
  - rewrite (process_fold_stopped l s1 p stop1 Hs). cbn [fst]. auto.
  - apply IH; auto. intros r Hr. unfold lc_lt. rewrite Hlc. rewrite Forall_forall in Fa. apply Fa. exact Hr.
Qed.

Lemma process_decided_rounds_ft g st :
  rinv st -> binv st -> PeerSetProofs.finv st -> c10inv g st -> flc st -> dtab g st ->
  flc (process_decided_rounds st) /\ dtab g (process_decided_rounds st).
Proof.
  intros [A B] Bi F C FL DT. unfold process_decided_rounds.
  pose proof (process_fold_ft g (pending st) st [] false A (r_sorted st A) (r_above st B) Bi F C FL DT) as G.
  destruct (fold_left process_round (pending st) (st, [], false)) as [[s processed] stop]. cbn [fst] in G.
  destruct G as [G1 G2]. split.
  - intros rr f H. specialize (G1 rr f). destruct s; apply G1; exact H.
  - intros ds1 d ds2 H. apply (G2 ds1 d ds2). destruct s; exact H.
Qed.

(* a consensus pass either leaves the block view alone or ends with ProcessDecidedRounds from a
   state that has the same block view and satisfies the queue invariant *)
Lemma run_consensus_cases st : rtop st ->
  bview (run_consensus st) = bview st \/
  exists s3, bview s3 = bview st /\ rinv s3 /\ run_consensus st = process_decided_rounds s3.
Proof.
  intros [Hs Hi]. unfold run_consensus.
  destruct (failed st) eqn:Hf.
  { rewrite (divide_rounds_failed st Hf), Hf. left; reflexivity. }
  specialize (Hi eq_refl).
  pose proof (divide_rounds_rinv st (or_intror Hi)) as I1.
  pose proof (divide_rounds_bview st) as B1.
  destruct (failed (divide_rounds st)) eqn:Hf1; [left; exact B1|].
  destruct I1 as [I1|I1]; [congruence|].
  pose proof (decide_fame_rinv _ I1) as I2.
  pose proof (decide_fame_bview (divide_rounds st)) as B2.
  destruct (failed (decide_fame (divide_rounds st))); [left; congruence|].
  assert (I3 : rinv (decide_round_received (decide_fame (divide_rounds st)))).
  { eapply rinv_rstep; [exact I2|]. apply decide_round_received_rstep. apply (rinv_bounded _ I2). }
  pose proof (decide_round_received_bview (decide_fame (divide_rounds st))) as B3.
  destruct (failed (decide_round_received _)); [left; congruence|].
  right. eexists. split; [|split; [exact I3|reflexivity]]. congruence.
Qed.

Lemma flc_bview st st' : bview st' = bview st -> flc st -> flc st'.
Proof.
  unfold bview, flc. intros E H rr f.
  assert (E1 : frames st' = frames st) by congruence. assert (E2 : last_consensus st' = last_consensus st) by congruence.
  rewrite E1, E2. apply H.
Qed.
Lemma dtab_bview g st st' : bview st' = bview st -> dtab g st -> dtab g st'.
Proof.
  unfold bview, dtab. intros E H ds1 d ds2. assert (E1 : delivered st' = delivered st) by congruence. rewrite E1. apply H.
Qed.

(* the combined invariant of reachable full-history states *)
Record sinv (g : peerset) (st : hg) : Prop := {
  si_rtop : rtop st;
  si_binv : binv st;
  si_finv : PeerSetProofs.finv st;
  si_c10 : c10inv g st;
  si_flc : flc st;
  si_dtab : dtab g st
}.

Lemma hstep_sinv g st o : sinv g st -> sinv g (hstep st o).
Proof.
  intros [T B F C FL DT].
  pose proof (hstep_rtop st o T) as T'. pose proof (hstep_binv st o B) as B'.
  destruct (hstep_lift0 (c10inv g) (c10inv_ext g) (c10inv_commit g) (fun st s _ _ => c10inv_sig g st s) st o B F C) as [F' C'].
  constructor; auto.
  - (* flc *)
    destruct o as [e|]; cbn [hstep].
    + unfold step, insert_and_run.
      pose proof (insert_event_bview st e) as Bv. pose proof (insert_event_rstep st e) as S. pose proof (insert_event_failed st e) as Fl.
      destruct (insert_event st e) as [r s]. cbn [snd] in *.
      assert (FLs : flc s) by (eapply flc_bview; eauto).
      destruct r; cbn [snd]; auto.
      assert (Ts : rtop s) by (apply (rtop_rstep st s T S Fl)).
      destruct (run_consensus_cases s Ts) as [E|[s3 [E [I3 ->]]]]; [eapply flc_bview; eauto|].
      apply (process_decided_rounds_ft g s3 I3).
      * eapply binv_bview; [exact E|]. eapply binv_bview; eauto.
      * eapply finv_frames; [apply bview_frames; exact E|]. eapply finv_frames; [apply bview_frames; exact Bv|exact F].
      * eapply c10inv_ext; [apply bview_pview; exact E|]. eapply c10inv_ext; [apply bview_pview; exact Bv|exact C].
      * eapply flc_bview; eauto.
      * eapply dtab_bview; [exact E|]. eapply dtab_bview; eauto.
    + unfold process_sigpool. generalize (sigpool st). intros l. revert FL. generalize st. clear.
      induction l as [|s l IH]; intros st FL; cbn [fold_left]; [exact FL|]. apply IH.
      destruct (process_sig_rv st s) as [E _]. intros rr f. unfold rv, cv in E.
      assert (E1 : last_consensus (process_sig st s) = last_consensus st) by congruence.
      assert (E2 : frames (process_sig st s) = frames st) by congruence.
      rewrite E2, E1. apply FL.
  - (* dtab *)
    destruct o as [e|]; cbn [hstep].
    + unfold step, insert_and_run.
      pose proof (insert_event_bview st e) as Bv. pose proof (insert_event_rstep st e) as S. pose proof (insert_event_failed st e) as Fl.
      destruct (insert_event st e) as [r s]. cbn [snd] in *.
      assert (DTs : dtab g s) by (eapply dtab_bview; eauto).
      destruct r; cbn [snd]; auto.
      assert (Ts : rtop s) by (apply (rtop_rstep st s T S Fl)).
      destruct (run_consensus_cases s Ts) as [E|[s3 [E [I3 ->]]]]; [eapply dtab_bview; eauto|].
      apply (process_decided_rounds_ft g s3 I3).
      * eapply binv_bview; [exact E|]. eapply binv_bview; eauto.
      * eapply finv_frames; [apply bview_frames; exact E|]. eapply finv_frames; [apply bview_frames; exact Bv|exact F].
      * eapply c10inv_ext; [apply bview_pview; exact E|]. eapply c10inv_ext; [apply bview_pview; exact Bv|exact C].
      * eapply flc_bview; [exact E|]. eapply flc_bview; eauto.
      * eapply dtab_bview; eauto.
    + unfold process_sigpool. generalize (sigpool st). intros l. revert DT. generalize st. clear.
      induction l as [|s l IH]; intros st DT; cbn [fold_left]; [exact DT|]. apply IH.
      destruct (process_sig_rest st s) as [E _]. intros ds1 d ds2. rewrite E. apply DT.
Qed.

Lemma sinv_init g self_ oracle_ : self_ <> -1 -> sinv g (init_hg self_ g oracle_).
Proof.
  intros Hs.
  destruct (init_hg_spec self_ g oracle_) as (_ & _ & D & _).
  constructor.
  - apply rinv_rtop, rinv_init.
  - apply binv_init.
  - apply finv_init.
  - apply c10inv_init; exact Hs.
  - intros rr f. pose proof (finv_init self_ g oracle_) as FI.
    assert (E : frames (init_hg self_ g oracle_) = zempty).
    { unfold init_hg. destruct (set_peerset (empty_hg self_) 0 g) as [st|] eqn:S; [|reflexivity].
      pose proof (ov_set_peerset _ _ _ _ S) as O. unfold ov in O.
      assert (E : frames st = frames (empty_hg self_)) by congruence.
      change (frames (st <| validators := g |> <| oracle := oracle_ |>)) with (frames st). rewrite E. reflexivity. }
    rewrite E, zget_empty. discriminate.
  - intros ds1 d ds2. rewrite D. intros H. destruct ds1; discriminate.
Qed.

Theorem hrun_sinv g self_ oracle_ ops : self_ <> -1 -> sinv g (hrun (init_hg self_ g oracle_) ops).
Proof.
  intros Hs. unfold hrun. generalize (sinv_init g self_ oracle_ Hs). generalize (init_hg self_ g oracle_).
  induction ops as [|o ops IH]; intros st I; cbn [fold_left]; [exact I|]. apply IH, hstep_sinv, I.
Qed.

(** * The reset node's table and validators are those of a full-history node after the anchor block *)

Lemma firstn_snoc_nth {A} (l : list A) k d : nth_error l k = Some d -> firstn (S k) l = firstn k l ++ [d].
Proof.
  revert k. induction l as [|x l IH]; intros k H; [destruct k; discriminate|].
  destruct k as [|k]; cbn in *; [inversion H; reflexivity|]. f_equal. apply IH. exact H.
Qed.

Lemma nth_split_firstn {A} (l : list A) k d : nth_error l k = Some d -> l = firstn k l ++ d :: skipn (S k) l.
Proof.
  revert k. induction l as [|x l IH]; intros k H; [destruct k; discriminate|].
  destruct k as [|k]; cbn in *; [inversion H; reflexivity|]. f_equal. apply IH. exact H.
Qed.

Lemma sorted_firstn k (l : list Z) : StronglySorted Z.lt l -> StronglySorted Z.lt (firstn k l).
Proof.
  intros S. rewrite <- (firstn_skipn k l) in S. eapply sorted_app_l; eauto.
Qed.

Lemma body_fields b d : body b = body d ->
  b_rr b = b_rr d /\ b_itxs b = b_itxs d /\ b_frame b = b_frame d /\ b_index b = b_index d.
Proof. unfold body. destruct b, d. cbn. intros H; inversion H. auto. Qed.

Theorem reset_table_is_replay g ss os ops k d b v cores v' :
  ss <> -1 ->
  nth_error (delivered (hrun (init_hg ss g os) ops)) k = Some d ->
  zget (Z.of_nat k) (blocks (hrun (init_hg ss g os) ops)) = Some b ->
  frame_shape (b_frame b) ->
  node_fast_forward v b (b_frame b) cores = (true, v') ->
  (peersets v', validators v') = replay_genesis g (firstn (S k) (delivered (hrun (init_hg ss g os) ops))).
Proof.
  intros Hs Hd Hb FS H.
  pose proof (hrun_sinv g ss os ops Hs) as [T B _ C _ DT].
  set (st := hrun (init_hg ss g os) ops) in *.
  destruct (b_del st B k d Hd) as [_ [b0 [Hb0 [Hbody _]]]]. rewrite Hb in Hb0. inversion Hb0; subst b0; clear Hb0.
  destruct (body_fields _ _ Hbody) as [Er [Ei [Ef _]]].
  rewrite (node_fast_forward_table v b (b_frame b) cores v' FS H).
  pose proof (nth_split_firstn _ _ _ Hd) as Split.
  pose proof (DT _ _ _ Split) as Tb. rewrite <- Ef in Tb.
  assert (S1 : rr_increasing_list (firstn k (delivered st))).
  { unfold rr_increasing_list. rewrite <- firstn_map. apply sorted_firstn. exact (proj1 T). }
  assert (F1 : Forall (fun d => 0 <= b_rr d) (firstn k (delivered st))).
  { pose proof (c10inv_rr_nonneg g st C) as F0. rewrite Forall_forall in *. intros x Hx. apply F0.
    rewrite <- (firstn_skipn k (delivered st)). apply in_or_app. left; exact Hx. }
  destruct (replay_latest g _ S1 F1) as [Hv _].
  rewrite ff_validators_tbl, Tb, (Hv (f_peers (b_frame b))), Er, Ei.
  rewrite (firstn_snoc_nth _ _ _ Hd). unfold replay_genesis. rewrite replay_snoc. unfold replay_block.
  destruct (replay [(0, g)] g (firstn k (delivered st))); reflexivity.
Qed.

Lemma C13_frame_cached st rr f : zget rr (frames st) = Some f -> get_frame st rr = (Some f, st).
Proof. unfold get_frame. intros ->. reflexivity. Qed.

(* GetAnchorBlockWithFrame on a reachable state: the block stored at the anchor index is the
   delivered block of that index (with the signatures collected since), and the frame is the
   cached frame of its round-received = the frame the block was built from *)
Theorem anchor_answer all ss g os ops b f cores s' :
  ids_determine all -> Forall (hop_ok all) ops -> ss <> -1 ->
  anchor_block_with_frame (hrun (init_hg ss g os) ops) = (Some (b, f, cores), s') ->
  s' = hrun (init_hg ss g os) ops /\ f = b_frame b /\ cores = frame_cores (hrun (init_hg ss g os) ops) f /\
  exists k d, nth_error (delivered (hrun (init_hg ss g os) ops)) k = Some d /\
              zget (Z.of_nat k) (blocks (hrun (init_hg ss g os) ops)) = Some b /\ body b = body d /\ sigs_incl d b.
Proof.
  intros ID Ho Hs. pose proof (hrun_ginv all ss g os ops ID Ho) as G. pose proof (hrun_sinv g ss os ops Hs) as [_ B _ _ _ _].
  set (st := hrun (init_hg ss g os) ops) in *.
  unfold anchor_block_with_frame. destruct (anchor st) as [a|]; [|discriminate].
  destruct (zget a (blocks st)) as [b0|] eqn:Hb; [|discriminate].
  destruct (b_idx st B a b0 Hb) as [Hi [Ha0 Ha1]].
  assert (Hlen : (Z.to_nat a < length (delivered st))%nat) by (pose proof (b_len st B); lia).
  destruct (nth_error (delivered st) (Z.to_nat a)) as [d|] eqn:Hd; [|apply nth_error_None in Hd; lia].
  destruct (b_del st B _ d Hd) as [_ [b1 [Hb1 [Hbody Hincl]]]]. rewrite Z2Nat.id in Hb1 by lia.
  rewrite Hb in Hb1. inversion Hb1; subst b1; clear Hb1.
  destruct (body_fields _ _ Hbody) as [Er [_ [Ef _]]].
  assert (Hin : In d (delivered st)) by (eapply nth_error_In; eauto).
  destruct (gi_d all st G d Hin) as [Hc _].
  rewrite Er, (C13_frame_cached st _ _ Hc). intros H. injection H as E1 E2 E3 E4.
  subst b f s'. split; [reflexivity|split; [exact (eq_sym Ef)|split; [exact (eq_sym E3)|]]].
  exists (Z.to_nat a), d. rewrite Z2Nat.id by lia. auto.
Qed.
