(* C13 (goal 1 of stage 2): the frame an honest peer serves satisfies [frame_shape] -- distinct
   non-negative event identifiers over roots + events, non-negative rounds, peer-set table sorted --
   for every reachable serving state under static membership.  Built on the frame equations FE of
   Proofs/FrameInv.v (roots = roots_fn of self-parent chains / last consensus events of lower rounds). *)
From Coq Require Import ZArith List Bool Lia ZifyBool Permutation Sorted.
From RecordUpdate Require Import RecordSet.
From V Require Import Model.ZMap Model.Quorum Model.Voting Model.HgImpl Model.HgReset
  Proofs.ZMapFacts Proofs.HgFrames Proofs.HgDagFrames Proofs.AdmissionProofs Proofs.Ancestry
  Proofs.BlockInv Proofs.OrderSort Proofs.OrderFrames Proofs.OrderProofs Proofs.Static
  Proofs.FirstDesc Proofs.NoFail Proofs.RoundReceived Proofs.FrameFn Proofs.FrameInv Proofs.BlockAgree Proofs.ResetProofs Proofs.ResetServer Proofs.ResetMemo Proofs.ResetAfter Proofs.ResetOrder Proofs.ResetDag.
Import ListNotations RecordSetNotations.
Open Scope Z_scope.

(** * Self-parent chains in a state that satisfies the admission and Lamport invariants *)
Section Chain.
  Variables (all : list event) (S : hg).
  Hypothesis G : ginv all S.
  Hypothesis NF : failed S = false.
  Let OK : dag_ok S := g_dag _ _ (gi_core _ _ G).

  Definition lt_of (x : Z) : Z := match zget x (lt_memo S) with Some t => t | None => 0 end.

  Lemma stored_lt x ex : get_event S x = Some ex -> ev_lt ex = Some (lt_of x) /\ zget x (lt_memo S) = Some (lt_of x).
  Proof.
    intros Hx. destruct (ev_lt ex) as [t|] eqn:Et; [|exfalso; apply (gi_all _ _ G NF x ex Hx Et)].
    pose proof (l_ev _ (g_l _ _ (gi_core _ _ G)) x ex t Hx Et) as M. unfold lt_of. rewrite M. auto.
  Qed.

  Lemma sp_stored x ex : get_event S x = Some ex -> sp_of S x <> -1 ->
    exists ep, get_event S (sp_of S x) = Some ep /\ e_creator (ev_e ep) = e_creator (ev_e ex) /\
               e_index (ev_e ep) = e_index (ev_e ex) - 1 /\ lt_of (sp_of S x) < lt_of x.
  Proof.
    intros Hx Hn. unfold sp_of in *. rewrite Hx in *.
    destruct (d_sp S OK x ex Hx) as [[Hs _]|[ps [Hps [Hc Hi]]]]; [congruence|].
    destruct (stored_lt x ex Hx) as [Et _].
    destruct (lamport_parent_lt all S x ex (lt_of x) (e_sp (ev_e ex)) G Hx Et (or_introl eq_refl) Hn) as [ep [tp [Hep [Htp Hlt]]]].
    rewrite Hps in Hep. inversion Hep; subst ep. destruct (stored_lt _ ps Hps) as [Et' _]. rewrite Et' in Htp. inversion Htp.
    exists ps. split; [exact Hps|split; [exact Hc|split; [lia|lia]]].
  Qed.

  (* every element of the chain below h is a stored event of h's creator, lower in index and in time *)
  Lemma sp_chain_spec n : forall h he, get_event S h = Some he ->
    forall x, In x (sp_chain S h n) ->
      exists ex, get_event S x = Some ex /\ e_creator (ev_e ex) = e_creator (ev_e he) /\
                 e_index (ev_e ex) < e_index (ev_e he) /\ lt_of x < lt_of h.
  Proof.
    induction n as [|n IH]; intros h he Hh x; cbn [sp_chain]; [intros []|].
    destruct (Z.eqb_spec (sp_of S h) (-1)) as [E|Hne]; [intros []|].
    destruct (sp_stored h he Hh Hne) as [ep [Hep [Hc [Hi Hlt]]]].
    intros [<-|Hin]; [exists ep; repeat split; auto; lia|].
    destruct (IH _ ep Hep x Hin) as [ex [Hx [Hcx [Hix Hltx]]]]. exists ex. repeat split; auto; try congruence; lia.
  Qed.

  Lemma sp_chain_nodup n : forall h he, get_event S h = Some he -> NoDup (h :: sp_chain S h n).
  Proof.
    induction n as [|n IH]; intros h he Hh; cbn [sp_chain]; [constructor; [intros []|constructor]|].
    destruct (Z.eqb_spec (sp_of S h) (-1)) as [E|Hne]; [constructor; [intros []|constructor]|].
    destruct (sp_stored h he Hh Hne) as [ep [Hep _]].
    constructor; [|apply (IH _ ep Hep)].
    intros Hin. destruct (sp_chain_spec (Datatypes.S n) h he Hh h) as [ex [Hx [_ [Hi _]]]].
    { cbn [sp_chain]. destruct (Z.eqb_spec (sp_of S h) (-1)); [contradiction|exact Hin]. }
    rewrite Hh in Hx. inversion Hx; subst. lia.
  Qed.

  Lemma fe_of_id x : fe_id (fe_of S x) = x.
  Proof.
    unfold fe_of. destruct (create_frame_event S x) as [fe|] eqn:E; [|reflexivity].
    apply (create_frame_event_spec S x fe E).
  Qed.

  Lemma root_fn_ids h : map fe_id (root_fn S h) = if h =? -1 then [] else rev (h :: sp_chain S h ROOT_DEPTH).
  Proof.
    unfold root_fn. destruct (h =? -1); [reflexivity|]. rewrite map_rev, map_map.
    f_equal. rewrite <- (map_id (h :: sp_chain S h ROOT_DEPTH)) at 2. apply map_ext. intros x. apply fe_of_id.
  Qed.
End Chain.

(** * Rounds do not increase down a self-parent chain *)
Section ChainRounds.
  Variables (g : peerset) (S : hg).
  Hypothesis I : cinv g None S.

  Lemma sp_round_le x r : rmemo S x = Some r -> sp_of S x <> -1 ->
    exists rp, rmemo S (sp_of S x) = Some rp /\ rp <= r.
  Proof.
    intros Hr Hn. destruct (c_rdom _ _ _ I x r Hr) as [_ [ex [Hx [spr [opr [Hs [_ [H1 H2]]]]]]]].
    unfold sp_of in *. rewrite Hx in *. unfold prnd in Hs. destruct (Z.eqb_spec (e_sp (ev_e ex)) (-1)); [contradiction|].
    exists spr. split; [exact Hs|]. destruct (Z.eq_dec (Z.max spr opr) (-1)) as [E|E].
    - specialize (H1 E). lia.
    - destruct (H2 E) as [_ ->]. destruct (_ <=? _); lia.
  Qed.

  Lemma sp_chain_round_le n : forall h r, rmemo S h = Some r ->
    forall x, In x (sp_chain S h n) -> exists rx, rmemo S x = Some rx /\ rx <= r.
  Proof.
    induction n as [|n IH]; intros h r Hr x; cbn [sp_chain]; [intros []|].
    destruct (Z.eqb_spec (sp_of S h) (-1)) as [E|Hne]; [intros []|].
    destruct (sp_round_le h r Hr Hne) as [rp [Hrp Hle]].
    intros [<-|Hin]; [exists rp; auto|]. destruct (IH _ rp Hrp x Hin) as [rx [Hrx Hlx]]. exists rx. split; [exact Hrx|lia].
  Qed.
End ChainRounds.

(** * The roots folds *)

Lemma aget_roots_insert c r roots k : aget c roots = None ->
  aget k (roots_insert c r roots) = if c =? k then Some r else aget k roots.
Proof.
  induction roots as [|[c' r'] rest IH]; cbn [roots_insert aget]; intros Hn.
  - destruct (c =? k); reflexivity.
  - destruct (Z.eqb_spec c' c) as [->|Hne]; [discriminate|].
    destruct (Z.ltb_spec c c').
    + cbn [aget]. destruct (Z.eqb_spec c k); [reflexivity|]. reflexivity.
    + destruct (Z.eqb_spec c c'); [congruence|]. cbn [aget]. rewrite (IH Hn).
      destruct (Z.eqb_spec c' k) as [->|]; [|reflexivity]. destruct (Z.eqb_spec c k); [congruence|reflexivity].
Qed.

Lemma roots_insert_perm c r roots : aget c roots = None -> Permutation (roots_insert c r roots) ((c, r) :: roots).
Proof.
  induction roots as [|[c' r'] rest IH]; cbn [roots_insert aget]; intros Hn; [apply Permutation_refl|].
  destruct (Z.eqb_spec c' c) as [->|Hne]; [discriminate|].
  destruct (c <? c'); [apply Permutation_refl|]. destruct (Z.eqb_spec c c'); [congruence|].
  eapply perm_trans; [apply perm_skip, IH, Hn|apply perm_swap].
Qed.

Lemma aget_none_keys {A} c (l : list (Z * A)) : aget c l = None <-> ~ In c (map fst l).
Proof.
  induction l as [|[k v] r IH]; cbn [aget map fst In]; [tauto|].
  destruct (Z.eqb_spec k c) as [->|Hne]; [split; [discriminate|intros H; exfalso; apply H; auto]|].
  rewrite IH. tauto.
Qed.

Lemma roots_insert_nodup c r roots : aget c roots = None -> NoDup (map fst roots) -> NoDup (map fst (roots_insert c r roots)).
Proof.
  intros Hn ND. eapply Permutation_NoDup; [apply Permutation_map, Permutation_sym, roots_insert_perm; exact Hn|].
  cbn [map fst]. constructor; [apply aget_none_keys; exact Hn|exact ND].
Qed.

Section Folds.
  Variables (cre spf : Z -> Z) (rootf : Z -> Z -> list frameev) (P : Z -> list frameev -> Prop).

  (* phase 1: one root per creator of a frame event, made from the self-parent of the creator's FIRST event *)
  Lemma roots1_inv sorted :
    (forall pre fe post, sorted = pre ++ fe :: post -> (forall x, In x pre -> cre (fe_id x) <> cre (fe_id fe)) ->
       P (cre (fe_id fe)) (rootf (cre (fe_id fe)) (spf (fe_id fe)))) ->
    roots_all P (roots1_fn cre spf rootf sorted []) /\ NoDup (map fst (roots1_fn cre spf rootf sorted [])) /\
    (forall fe, In fe sorted -> aget (cre (fe_id fe)) (roots1_fn cre spf rootf sorted []) <> None) /\
    (forall c, aget c (roots1_fn cre spf rootf sorted []) <> None -> exists fe, In fe sorted /\ cre (fe_id fe) = c).
  Proof.
    intros HP. unfold roots1_fn.
    assert (Gen : forall todo done roots, sorted = done ++ todo ->
      roots_all P roots -> NoDup (map fst roots) ->
      (forall fe, In fe done -> aget (cre (fe_id fe)) roots <> None) ->
      (forall c, aget c roots <> None -> exists fe, In fe done /\ cre (fe_id fe) = c) ->
      let res := fold_left (fun roots fe =>
                   let p := cre (fe_id fe) in
                   match aget p roots with
                   | Some _ => roots
                   | None => roots_insert p (rootf p (spf (fe_id fe))) roots
                   end) todo roots in
      roots_all P res /\ NoDup (map fst res) /\ (forall fe, In fe sorted -> aget (cre (fe_id fe)) res <> None) /\
      (forall c, aget c res <> None -> exists fe, In fe sorted /\ cre (fe_id fe) = c)).
    { induction todo as [|fe todo IH]; intros done roots E A N K B; cbn [fold_left].
      - rewrite app_nil_r in E. subst done. auto.
      - cbv zeta. apply (IH (done ++ [fe])); [rewrite <- app_assoc; exact E| | | |].
        + destruct (aget (cre (fe_id fe)) roots) eqn:Ag; [exact A|].
          apply roots_insert_all; [|exact A]. apply (HP done fe todo E).
          intros x Hx C. apply (K x Hx). rewrite C. exact Ag.
        + destruct (aget (cre (fe_id fe)) roots) eqn:Ag; [exact N|]. apply roots_insert_nodup; assumption.
        + intros x Hx. apply in_app_iff in Hx. destruct (aget (cre (fe_id fe)) roots) eqn:Ag.
          * destruct Hx as [Hx|[<-|[]]]; [apply K; exact Hx|congruence].
          * rewrite aget_roots_insert by exact Ag. destruct (Z.eqb_spec (cre (fe_id fe)) (cre (fe_id x))); [discriminate|].
            destruct Hx as [Hx|[<-|[]]]; [apply K; exact Hx|congruence].
        + intros c Hc. destruct (aget (cre (fe_id fe)) roots) eqn:Ag.
          * destruct (B c Hc) as [x [Hx Ex]]. exists x. split; [apply in_app_iff; auto|exact Ex].
          * rewrite aget_roots_insert in Hc by exact Ag. destruct (Z.eqb_spec (cre (fe_id fe)) c) as [<-|Hne].
            -- exists fe. split; [apply in_app_iff; right; left; reflexivity|reflexivity].
            -- destruct (B c Hc) as [x [Hx Ex]]. exists x. split; [apply in_app_iff; auto|exact Ex]. }
    apply (Gen sorted [] []); [reflexivity|intros c l []|constructor|intros fe []|intros c Hc; exfalso; apply Hc; reflexivity].
  Qed.

  (* phase 2: only for keys that have no root yet; the keys of phase 1 are kept *)
  Lemma roots2_inv (rep : list peer) frs lce rr : forall roots0,
    roots_all P roots0 -> NoDup (map fst roots0) ->
    (forall k, aget k roots0 = None -> P k (rootf k (lce_head lce k))) ->
    roots_all P (roots2_fn rootf rep frs lce rr roots0) /\ NoDup (map fst (roots2_fn rootf rep frs lce rr roots0)) /\
    (forall k, aget k roots0 <> None -> aget k (roots2_fn rootf rep frs lce rr roots0) <> None).
  Proof.
    unfold roots2_fn. induction rep as [|p rep IH]; intros roots0 A N HP; cbn [fold_left]; [auto|].
    destruct (aget (pid p) frs) as [fr|]; [|apply IH; assumption].
    destruct (rr <? fr); [apply IH; assumption|].
    destruct (aget (pkey p) roots0) eqn:Ag; [apply IH; assumption|].
    destruct (IH (roots_insert (pkey p) (rootf (pkey p) (lce_head lce (pkey p))) roots0)) as [A' [N' K']].
    - apply roots_insert_all; [apply HP; exact Ag|exact A].
    - apply roots_insert_nodup; assumption.
    - intros k Hk. rewrite aget_roots_insert in Hk by exact Ag. destruct (pkey p =? k); [discriminate|]. apply HP; exact Hk.
    - split; [exact A'|split; [exact N'|]]. intros k Hk. apply K'. rewrite aget_roots_insert by exact Ag.
      destruct (pkey p =? k); [discriminate|exact Hk].
  Qed.
End Folds.

(** * Distinctness of the identifiers of a list of roots with distinct keys *)
Lemma nodup_flat_roots (roots : list (Z * list frameev)) :
  NoDup (map fst roots) ->
  (forall c l, In (c, l) roots -> NoDup (map fe_id l)) ->
  (forall c l c' l' x, In (c, l) roots -> In (c', l') roots -> c <> c' -> In x (map fe_id l) -> ~ In x (map fe_id l')) ->
  NoDup (map fe_id (flat_map snd roots)).
Proof.
  induction roots as [|[c l] rest IH]; intros ND Each Dis; cbn [flat_map snd map]; [constructor|].
  cbn [map fst] in ND. inversion ND as [|? ? Hc ND']; subst. rewrite map_app.
  apply NoDup_app_intro'.
  - apply (Each c l). left; reflexivity.
  - apply IH; [exact ND'|intros c0 l0 H0; apply (Each c0 l0); right; exact H0|].
    intros c0 l0 c1 l1 x H0 H1. apply Dis; right; assumption.
  - intros x Hx Hin.
    assert (Hx2 : exists c' l', In (c', l') rest /\ In x (map fe_id l')).
    { clear - Hin. induction rest as [|[c1 l1] rest IHr]; cbn [flat_map snd map] in Hin; [destruct Hin|].
      rewrite map_app in Hin. apply in_app_iff in Hin. destruct Hin as [H|H].
      - exists c1, l1. split; [left; reflexivity|exact H].
      - destruct (IHr H) as [c' [l' [A B]]]. exists c', l'. split; [right; exact A|exact B]. }
    destruct Hx2 as [c' [l' [Hin' Hx']]].
    apply (Dis c l c' l' x); [left; reflexivity|right; exact Hin'| |exact Hx|exact Hx'].
    intros ->. apply Hc. apply in_map_iff. exists (c', l'). auto.
Qed.

Lemma sorted_after {A} (R : A -> A -> Prop) pre x post :
  StronglySorted R (pre ++ x :: post) -> forall y, In y post -> R x y.
Proof.
  induction pre as [|a pre IH]; cbn [app]; intros S y Hy; inversion S as [|? ? S' F]; subst.
  - rewrite Forall_forall in F. apply F. exact Hy.
  - apply IH; assumption.
Qed.

(** * A cached frame that satisfies the frame equations in a reachable state has the shape *)
Section Shape.
  Variables (g : peerset) (all : list event) (S : hg) (R : Z) (f : frame).
  Hypothesis N : nf_inv g all S.
  Hypothesis Hf : zget R (frames S) = Some f.
  Hypothesis E : FE g S R f.

  Let G : ginv all S := nf_g _ _ _ N.
  Let NF : failed S = false := nf_f _ _ _ N.
  Let OK : dag_ok S := g_dag _ _ (gi_core _ _ G).
  Let FR : fready g S := nf_fready g all S N.

  (* frame events are received in a later round than the one they were created in *)
  Hypothesis RR : forall R0 f0 fe, zget R0 (frames S) = Some f0 -> In fe (f_events f0) ->
                  exists r, rmemo S (fe_id fe) = Some r /\ r < R0.

  Let ids := map fe_id (f_events f).

  (* what is known of a root: the chain below a head of the key's creator, disjoint from the frame's events *)
  Definition rootP (c : Z) (l : list frameev) : Prop :=
    exists h, l = root_fn S h /\
      (h = -1 \/ exists he, get_event S h = Some he /\ e_creator (ev_e he) = c) /\
      (h <> -1 -> forall x, In x (h :: sp_chain S h ROOT_DEPTH) -> ~ In x ids) /\
      (h <> -1 -> exists r, rmemo S h = Some r /\ r < R).

  Lemma frame_facts : f_round f = R /\ lt_sorted (f_events f) /\ NoDup ids /\
    (forall fe, In fe (f_events f) -> exists ex, get_event S (fe_id fe) = Some ex /\ lt_of S (fe_id fe) = fe_lt fe).
  Proof.
    destruct (gi_f _ _ G R f Hf) as [A [B [C [D [F0 _]]]]]. split; [exact A|split; [exact B|split; [exact C|]]].
    intros fe Hin. destruct (F0 fe Hin) as [ex Hex]. exists ex. split; [exact Hex|].
    destruct (D fe Hin) as [_ M]. unfold lt_of. rewrite M. reflexivity.
  Qed.

  Lemma chain_member h he x : get_event S h = Some he -> In x (h :: sp_chain S h ROOT_DEPTH) ->
    exists ex, get_event S x = Some ex /\ e_creator (ev_e ex) = e_creator (ev_e he) /\ lt_of S x <= lt_of S h.
  Proof.
    intros Hh [<-|Hin]; [exists he; split; [exact Hh|split; [reflexivity|lia]]|].
    destruct (sp_chain_spec all S G NF ROOT_DEPTH h he Hh x Hin) as [ex [Hx [Hc [_ Hlt]]]].
    exists ex. split; [exact Hx|split; [exact Hc|lia]].
  Qed.

  Lemma phase1_root pre fe post :
    f_events f = pre ++ fe :: post ->
    (forall x, In x pre -> creator_of S (fe_id x) <> creator_of S (fe_id fe)) ->
    rootP (creator_of S (fe_id fe)) (root_fn S (sp_of S (fe_id fe))).
  Proof.
    intros Ev First. destruct frame_facts as [_ [Srt [_ Facts]]].
    assert (Hin : In fe (f_events f)) by (rewrite Ev; apply in_app_iff; right; left; reflexivity).
    destruct (Facts fe Hin) as [ex [Hx Lx]].
    assert (Cx : creator_of S (fe_id fe) = e_creator (ev_e ex)) by (unfold creator_of; rewrite Hx; reflexivity).
    exists (sp_of S (fe_id fe)). split; [reflexivity|]. split; [|split].
    - destruct (Z.eq_dec (sp_of S (fe_id fe)) (-1)) as [?|Hne]; [left; assumption|right].
      destruct (sp_stored all S G NF _ ex Hx Hne) as [ep [Hep [Hc _]]]. exists ep. split; [exact Hep|congruence].
    - intros Hne y Hy Hids.
      destruct (sp_stored all S G NF _ ex Hx Hne) as [ep [Hep [Hc [_ Hlt]]]].
      destruct (chain_member _ ep y Hep Hy) as [ey [Hey [Hcy Hly]]].
      apply in_map_iff in Hids. destruct Hids as [e' [Eid Hin']]. rewrite Ev in Hin'. apply in_app_iff in Hin'.
      destruct Hin' as [Hpre|[<-|Hpost]].
      + apply (First e' Hpre). rewrite Cx. unfold creator_of. rewrite Eid, Hey. congruence.
      + subst y. lia.
      + assert (Hin2 : In e' (f_events f)) by (rewrite Ev; apply in_app_iff; right; right; exact Hpost).
        destruct (Facts e' Hin2) as [_ [_ Le']]. rewrite Ev in Srt.
        pose proof (sorted_after _ pre fe post Srt e' Hpost) as Hle. cbn beta in Hle. subst y. lia.
    - intros Hne. destruct (RR R f fe Hf Hin) as [r [Hr Hlt]].
      destruct (sp_round_le g S (nf_c _ _ _ N) _ r Hr Hne) as [rp [Hrp Hle]]. exists rp. split; [exact Hrp|lia].
  Qed.

  Lemma lce_head_ok k h : 0 <= R -> aget k (lce_fn (creator_of S) (frames S) (Z.to_nat R)) = Some h ->
    (exists he, get_event S h = Some he /\ e_creator (ev_e he) = k) /\ exists r, rmemo S h = Some r /\ r < R.
  Proof.
    intros HR H. destruct (lce_fn_creator _ _ _ _ _ H) as [Hc [R0 [f0 [HR0 [Hf0 Hin]]]]].
    apply in_map_iff in Hin. destruct Hin as [fe [Eid Hfe]].
    destruct (gi_f _ _ G R0 f0 Hf0) as [_ [_ [_ [_ [F0 _]]]]]. destruct (F0 fe Hfe) as [ex Hex]. rewrite Eid in Hex.
    split; [exists ex; split; [exact Hex|]; unfold creator_of in Hc; rewrite Hex in Hc; exact Hc|].
    destruct (RR R0 f0 fe Hf0 Hfe) as [r [Hr Hlt]]. rewrite Eid in Hr. exists r. split; [exact Hr|lia].
  Qed.

  Theorem FE_frame_shape : frame_shape f /\ Forall (fun fe => fe_round fe < R) (all_frame_events f).
  Proof.
    destruct frame_facts as [_ [Srt [NDe Facts]]].
    assert (HR0 : 0 <= R) by (eapply zget_some_nonneg; exact Hf).
    set (lce := lce_fn (creator_of S) (frames S) (Z.to_nat R)).
    set (roots1 := roots1_fn (creator_of S) (sp_of S) (fun _ h => root_fn S h) (f_events f) []).
    destruct (roots1_inv (creator_of S) (sp_of S) (fun _ h => root_fn S h) rootP (f_events f) phase1_root) as [A1 [N1 [K1 _]]].
    fold roots1 in A1, N1, K1.
    destruct (roots2_inv (fun _ h => root_fn S h) rootP (repertoire S) (first_rounds S) lce R roots1 A1 N1) as [A2 [N2 _]].
    { intros k Hk. exists (lce_head lce k). split; [reflexivity|]. unfold lce_head.
      destruct (aget k lce) as [h|] eqn:Al; [|split; [left; reflexivity|split; intros C; contradiction]].
      destruct (lce_head_ok k h HR0 Al) as [[he [Hhe Hc]] Hrd]. split; [right; exists he; auto|]. split; [|intros _; exact Hrd].
      intros _ y Hy Hids. destruct (chain_member h he y Hhe Hy) as [ey [Hey [Hcy _]]].
      apply in_map_iff in Hids. destruct Hids as [e' [Eid Hin']].
      apply (K1 e' Hin'). replace (creator_of S (fe_id e')) with k; [exact Hk|].
      unfold creator_of. rewrite Eid, Hey. congruence. }
    assert (Er : f_roots f = roots2_fn (fun _ h => root_fn S h) (repertoire S) (first_rounds S) lce R roots1)
      by (rewrite (fe_roots _ _ _ _ E); reflexivity).
    rewrite <- Er in A2, N2.
    (* identifiers of one root *)
    assert (RootIds : forall c l, In (c, l) (f_roots f) ->
              NoDup (map fe_id l) /\
              (forall x, In x (map fe_id l) -> (exists ex, get_event S x = Some ex /\ e_creator (ev_e ex) = c) /\ ~ In x ids) /\
              Forall (fun fe => 0 <= fe_id fe /\ 0 <= fe_round fe /\ fe_round fe < R) l).
    { intros c l Hin. destruct (A2 c l Hin) as [h [-> [Hh [Hdis Hrd]]]]. rewrite (root_fn_ids S h).
      destruct (Z.eqb_spec h (-1)) as [->|Hne].
      { split; [constructor|split; [intros x []|]]. unfold root_fn. cbn. constructor. }
      destruct Hh as [?|[he [Hhe Hc]]]; [contradiction|].
      split; [apply NoDup_rev, (sp_chain_nodup all S G NF ROOT_DEPTH h he Hhe)|]. split.
      - intros x Hx. apply in_rev in Hx. destruct (chain_member h he x Hhe Hx) as [ex [Hex [Hcx _]]].
        split; [exists ex; split; [exact Hex|congruence]|apply (Hdis Hne x Hx)].
      - unfold root_fn. replace (h =? -1) with false by lia. apply Forall_rev. rewrite Forall_forall. intros fe Hfe.
        apply in_map_iff in Hfe. destruct Hfe as [x [<- Hx]]. destruct (chain_member h he x Hhe Hx) as [ex [Hex _]].
        pose proof (create_frame_event_some g S x FR ltac:(rewrite Hex; discriminate)) as Hs.
        unfold fe_of. destruct (create_frame_event S x) as [fe|] eqn:Cf; [|contradiction].
        destruct (from_cfe_ok S fe (ex_intro _ x Cf)) as (Mr & _ & _ & _ & P1 & P2). rewrite (cfe_id _ _ _ Cf) in Mr.
        split; [exact P1|split; [exact P2|]].
        destruct (Hrd Hne) as [rh [Hrh Hlt]].
        destruct Hx as [<-|Hx]; [unfold rmemo in Hrh; rewrite Hrh in Mr; inversion Mr; lia|].
        destruct (sp_chain_round_le g S (nf_c _ _ _ N) ROOT_DEPTH h rh Hrh x Hx) as [rx [Hrx Hle]].
        unfold rmemo in Hrx. rewrite Hrx in Mr. inversion Mr. lia. }
    split; [constructor|].
    - unfold all_frame_events, root_events. rewrite map_app. apply NoDup_app_intro'.
      + apply nodup_flat_roots; [exact N2|intros c l Hin; apply (RootIds c l Hin)|].
        intros c l c' l' x Hin Hin' Hne Hx Hx'.
        destruct (proj1 (proj2 (RootIds c l Hin)) x Hx) as [[ex [Hex Hc]] _].
        destruct (proj1 (proj2 (RootIds c' l' Hin')) x Hx') as [[ex' [Hex' Hc']] _]. congruence.
      + exact NDe.
      + intros x Hx. rewrite in_map_iff in Hx. destruct Hx as [fe [Eid Hfe]]. apply in_flat_map in Hfe.
        destruct Hfe as [[c l] [Hcl Hfe]]. cbn [snd] in Hfe.
        apply (proj2 (proj1 (proj2 (RootIds c l Hcl)) x ltac:(rewrite <- Eid; apply in_map; exact Hfe))).
    - unfold all_frame_events, root_events. apply Forall_app. split.
      + rewrite Forall_forall. intros fe Hfe. apply in_flat_map in Hfe. destruct Hfe as [[c l] [Hcl Hfe]]. cbn [snd] in Hfe.
        pose proof (proj2 (proj2 (RootIds c l Hcl))) as Fp. rewrite Forall_forall in Fp. destruct (Fp fe Hfe) as [X1 [X2 _]]. auto.
      + pose proof (fe_evs _ _ _ _ E) as Fe. rewrite Forall_forall in *. intros fe Hfe.
        destruct (from_cfe_ok S fe (ex_intro _ (fe_id fe) (Fe fe Hfe))) as (_ & _ & _ & _ & P1 & P2). auto.
    - rewrite (fe_psets _ _ _ _ E). cbn. constructor; constructor.
    - unfold all_frame_events, root_events. apply Forall_app. split.
      + rewrite Forall_forall. intros fe Hfe. apply in_flat_map in Hfe. destruct Hfe as [[c l] [Hcl Hfe]]. cbn [snd] in Hfe.
        pose proof (proj2 (proj2 (RootIds c l Hcl))) as Fp. rewrite Forall_forall in Fp. apply (Fp fe Hfe).
      + pose proof (fe_evs _ _ _ _ E) as Fe. rewrite Forall_forall in *. intros fe Hfe.
        destruct (RR R f fe Hf Hfe) as [r [Hr Hlt]].
        destruct (from_cfe_ok S fe (ex_intro _ (fe_id fe) (Fe fe Hfe))) as (Mr & _). unfold rmemo in Hr. rewrite Hr in Mr. inversion Mr. lia.
  Qed.
End Shape.

(** * Every reachable serving state (static membership) *)
Section Served.
  Variables (g : peerset) (all : list event).
  Hypothesis ID : ids_determine all.
  Hypothesis NA : no_accept all.

  (* an event of a cached frame was created in an earlier round than the frame's *)
  Lemma frame_event_round self_ oracle_ ops R0 f0 fe :
    Forall (hop_ok all) ops -> zget R0 (frames (hrun (init_hg self_ g oracle_) ops)) = Some f0 -> In fe (f_events f0) ->
    exists r, rmemo (hrun (init_hg self_ g oracle_) ops) (fe_id fe) = Some r /\ r < R0.
  Proof.
    intros Ho Hz Hfe. pose proof (hrun_nf g all self_ oracle_ ops ID NA Ho) as N.
    set (st := hrun (init_hg self_ g oracle_) ops) in *.
    pose proof (nf_g _ _ _ N) as G.
    destruct (gi_f _ _ G R0 f0 Hz) as [_ [_ [_ [D _]]]]. destruct (D fe Hfe) as [Hrcv _].
    destruct (c_in _ (g_o _ _ (gi_core _ _ G)) R0 _ Hrcv) as [ex [Hex Hrr]].
    destruct (rr_spec_hrun g all self_ oracle_ ops (fe_id fe) ex R0 ID NA Ho Hex Hrr) as [r [Hr [Hlt _]]].
    destruct (c_all _ _ _ (nf_c _ _ _ N) (fe_id fe) ex Hex ltac:(discriminate)) as [r' [w [Hm [_ Hr']]]].
    exists r. split; [congruence|exact Hlt].
  Qed.

  Theorem served_frame_facts self_ oracle_ ops R f :
    Forall (hop_ok all) ops -> zget R (frames (hrun (init_hg self_ g oracle_) ops)) = Some f ->
    frame_shape f /\ Forall (fun fe => fe_round fe < R) (all_frame_events f).
  Proof.
    intros Ho Hz.
    destruct (f2_fe g self_ oracle_ ops (hrun_finv2 g all ID NA self_ oracle_ ops Ho) R f Hz) as [k [_ [E Hk]]].
    pose proof (Forall_firstn' _ _ k Ho) as Hok.
    pose proof (hrun_nf g all self_ oracle_ (firstn k ops) ID NA Hok) as N.
    apply (FE_frame_shape g all _ R f N Hk E).
    intros R0 f0 fe H0 Hfe. apply (frame_event_round self_ oracle_ (firstn k ops) R0 f0 fe Hok H0 Hfe).
  Qed.

  Theorem served_frame_shape self_ oracle_ ops R f :
    Forall (hop_ok all) ops -> zget R (frames (hrun (init_hg self_ g oracle_) ops)) = Some f -> frame_shape f.
  Proof. intros Ho Hz. apply (served_frame_facts self_ oracle_ ops R f Ho Hz). Qed.

  (* the frame GetAnchorBlockWithFrame answers is a cached frame *)
  Lemma anchor_frame_cached self_ oracle_ ops b f cores s' :
    Forall (hop_ok all) ops -> self_ <> -1 ->
    anchor_block_with_frame (hrun (init_hg self_ g oracle_) ops) = (Some (b, f, cores), s') ->
    zget (b_rr b) (frames (hrun (init_hg self_ g oracle_) ops)) = Some f.
  Proof.
    intros Ho Hs H.
    destruct (anchor_answer all self_ g oracle_ ops b f cores s' ID Ho Hs H) as [_ [Ef [_ [k [d [Hd [_ [Hbody _]]]]]]]].
    pose proof (hrun_ginv all self_ g oracle_ ops ID Ho) as G.
    destruct (body_fields _ _ Hbody) as [Er [_ [Efr _]]].
    destruct (gi_d all _ G d (nth_error_In _ _ Hd)) as [Hc _]. rewrite Ef, Er, Efr. exact Hc.
  Qed.

  Theorem anchor_frame_shape self_ oracle_ ops b f cores s' :
    Forall (hop_ok all) ops -> self_ <> -1 ->
    anchor_block_with_frame (hrun (init_hg self_ g oracle_) ops) = (Some (b, f, cores), s') -> frame_shape f.
  Proof.
    intros Ho Hs H. eapply served_frame_shape; [exact Ho|]. eapply anchor_frame_cached; eauto.
  Qed.

  (* every round recorded in the anchor's frame is below the anchor's round-received, which is >= 0 *)
  Theorem anchor_frame_rounds self_ oracle_ ops b f cores s' :
    Forall (hop_ok all) ops -> self_ <> -1 ->
    anchor_block_with_frame (hrun (init_hg self_ g oracle_) ops) = (Some (b, f, cores), s') ->
    0 <= b_rr b /\ Forall (fun fe => fe_round fe <= b_rr b) (all_frame_events f).
  Proof.
    intros Ho Hs H. pose proof (anchor_frame_cached self_ oracle_ ops b f cores s' Ho Hs H) as Hc.
    split; [eapply zget_some_nonneg; exact Hc|].
    destruct (served_frame_facts self_ oracle_ ops (b_rr b) f Ho Hc) as [_ F].
    eapply Forall_impl; [|exact F]. cbn beta. intros fe Hlt. lia.
  Qed.
End Served.

(** * [frame_shapeb] is complete *)
Lemma nodupb_complete l : NoDup l -> nodupb l = true.
Proof.
  induction 1 as [|x r Hx Hr IH]; cbn [nodupb]; [reflexivity|]. rewrite IH, andb_true_r. apply negb_true_iff.
  destruct (existsb (Z.eqb x) r) eqn:Ex; [|reflexivity]. exfalso. apply Hx.
  apply existsb_exists in Ex. destruct Ex as [y [Hy He]]. apply Z.eqb_eq in He. subst. exact Hy.
Qed.
Lemma sorted_ltb_complete l : StronglySorted Z.lt l -> sorted_ltb l = true.
Proof.
  induction 1 as [|x r Sr IH F]; cbn [sorted_ltb]; [reflexivity|]. rewrite IH, andb_true_r.
  apply forallb_forall. intros y Hy. rewrite Forall_forall in F. specialize (F y Hy). lia.
Qed.
Lemma frame_shapeb_complete f : frame_shape f -> frame_shapeb f = true.
Proof.
  intros [A B C]. unfold frame_shapeb. rewrite (nodupb_complete _ A), (sorted_ltb_complete _ C), andb_true_r. cbn [andb].
  apply forallb_forall. intros fe Hfe. rewrite Forall_forall in B. destruct (B fe Hfe). lia.
Qed.

(** * After a fast-forward from an honest peer (static membership): C02 for the reset node *)
Theorem after_reset_served g all ss os ops b f cores s' v v' ops' :
  ids_determine all -> no_accept all -> Forall (hop_ok all) ops -> ss <> -1 ->
  anchor_block_with_frame (hrun (init_hg ss g os) ops) = (Some (b, f, cores), s') ->
  node_fast_forward v b f cores = (true, v') ->
  exists news, delivered (hrun v' ops') = delivered v ++ news /\
    (forall k d, nth_error news k = Some d -> b_index d = b_index b + 1 + Z.of_nat k) /\
    StronglySorted Z.lt (map b_rr news) /\ (forall d, In d news -> b_rr b < b_rr d).
Proof.
  intros ID NA Ho Hs H FF.
  pose proof (anchor_frame_shape g all ID NA ss os ops b f cores s' Ho Hs H) as FS.
  destruct (anchor_frame_rounds g all ID NA ss os ops b f cores s' Ho Hs H) as [R0 RB].
  destruct (anchor_answer all ss g os ops b f cores s' ID Ho Hs H) as [_ [_ [_ [k [d [_ [Hb _]]]]]]].
  destruct (b_idx _ (hrun_binv ss g os ops) _ _ Hb) as [Hi _].
  destruct (ResetAfter.deliveries_after_reset_consecutive v b f cores v' ops' FF) as [news [D1 [_ Hn]]].
  destruct (ResetOrder.deliveries_after_reset_increasing v b f cores v' FS RB R0 FF ops') as [news' [D2 [Srt Hgt]]].
  assert (news' = news) by (rewrite D1 in D2; apply app_inv_head in D2; congruence). subst news'.
  exists news. split; [exact D1|]. split; [|split; [exact Srt|exact Hgt]].
  intros j dj Hj. destruct (Hn j dj Hj) as [A _]. rewrite A. lia.
Qed.

(** * After a fast-forward from an honest peer (static membership): C07 for the reset node.
      [all] is the universe both the responder's and the reset node's insertion attempts are drawn
      from (identifiers determine bodies in it) *)
Theorem admitted_after_reset_served g all ss os ops b f cores s' v v' ops' :
  ids_determine all -> no_accept all -> Forall (hop_ok all) ops -> ss <> -1 ->
  anchor_block_with_frame (hrun (init_hg ss g os) ops) = (Some (b, f, cores), s') ->
  node_fast_forward v b f cores = (true, v') -> Forall (hop_ok all) ops' ->
  dag_okR (frame_ids f) (hrun v' ops') /\ from_attempts (hrun v' ops') all /\ grows v' (hrun v' ops').
Proof.
  intros ID NA Ho Hs H FF Ho'.
  pose proof (anchor_frame_shape g all ID NA ss os ops b f cores s' Ho Hs H) as FS.
  destruct (anchor_answer all ss g os ops b f cores s' ID Ho Hs H) as [_ [_ [Hc _]]].
  pose proof (hrun_ginv all ss g os ops ID Ho) as G.
  assert (CO : cores_ok all cores f).
  { rewrite Hc. apply served_cores_ok; [apply (g_dag _ _ (gi_core _ _ G))|apply (g_from _ _ (gi_core _ _ G))]. }
  apply (admitted_after_reset v b f cores v' all ops' FS CO ID Ho' FF).
Qed.

(** * The premises as the runner evaluates them on every fast-forward (kinds RS and RP), dynamic
      membership included: what remains unchecked is only that the shipped bodies belong to the
      universe in which identifiers determine bodies *)
Lemma after_reset_premisesb_sound b f cores : after_reset_premisesb b f cores = true ->
  0 <= b_rr b /\ Forall (fun fe => fe_round fe <= b_rr b) (all_frame_events f) /\
  forall fe e, In fe (all_frame_events f) -> core_of cores (fe_id fe) = Some e -> 0 <= e_index e.
Proof.
  unfold after_reset_premisesb. intros H. apply andb_prop in H. destruct H as [H H3]. apply andb_prop in H. destruct H as [H1 H2].
  rewrite forallb_forall in H2, H3.
  split; [lia|]. split.
  - apply Forall_forall. intros fe Hin. specialize (H2 fe Hin). lia.
  - intros fe e Hin Hc. specialize (H3 fe Hin). rewrite Hc in H3. lia.
Qed.

Theorem after_reset_checked v b f cores v' ops :
  frame_shapeb f = true -> after_reset_premisesb b f cores = true ->
  node_fast_forward v b f cores = (true, v') ->
  (exists news, delivered (hrun v' ops) = delivered v ++ news /\
     (forall k d, nth_error news k = Some d -> b_index d = Z.max (b_index b) (-1) + 1 + Z.of_nat k) /\
     StronglySorted Z.lt (map b_rr news) /\ (forall d, In d news -> b_rr b < b_rr d)) /\
  (forall all, (forall fe e, In fe (all_frame_events f) -> core_of cores (fe_id fe) = Some e -> In e all) ->
     ids_determine all -> Forall (hop_ok all) ops ->
     dag_okR (frame_ids f) (hrun v' ops) /\ from_attempts (hrun v' ops) all /\ grows v' (hrun v' ops)).
Proof.
  intros HS HP FF. pose proof (frame_shapeb_sound f HS) as FS.
  destruct (after_reset_premisesb_sound b f cores HP) as [R0 [RB IX]].
  split.
  - destruct (ResetAfter.deliveries_after_reset_consecutive v b f cores v' ops FF) as [news [D1 [_ Hn]]].
    destruct (ResetOrder.deliveries_after_reset_increasing v b f cores v' FS RB R0 FF ops) as [news' [D2 [Srt Hgt]]].
    assert (news' = news) by (rewrite D1 in D2; apply app_inv_head in D2; congruence). subst news'.
    exists news. split; [exact D1|]. split; [|split; [exact Srt|exact Hgt]].
    intros j dj Hj. destruct (Hn j dj Hj) as [A _]. exact A.
  - intros all Hin ID Ho.
    apply (admitted_after_reset v b f cores v' all ops FS); [|exact ID|exact Ho|exact FF].
    intros fe e Hfe Hc. split; [apply (IX fe e Hfe Hc)|apply (Hin fe e Hfe Hc)].
Qed.
