(* Stage D2 (b), second half, run level: two nodes that respect the distance bound and whose tables agree on
   the rounds both have assign the same round and witness flag to every event they share, and strongly-see
   between shared events has the same value.  Dynamic membership (no [no_accept]). *)
From Coq Require Import ZArith List Bool Lia ZifyBool.
From V Require Import Model.ZMap Model.Quorum Model.Voting Model.HgImpl Model.PeerSetSpec Model.Window
  Proofs.ZMapFacts Proofs.HgFrames Proofs.HgDagFrames Proofs.AdmissionProofs Proofs.InsertShape
  Proofs.Ancestry Proofs.HgBlockFrames Proofs.BlockInv Proofs.OrderProofs
  Proofs.Static Proofs.FirstDesc Proofs.Height Proofs.StronglySee Proofs.RoundFun
  Proofs.PeerSetProofs Proofs.GapWindow Proofs.CInvRun
  Proofs.FirstDescD Proofs.CInvRunD Proofs.StronglySeeD Proofs.RoundFunD.
Import ListNotations.
Open Scope Z_scope.

Lemma gap_goodD self_ genesis oracle_ all ops :
  self_ <> -1 -> ids_determine all -> Forall (hop_ok all) ops ->
  gap_runb (init_hg self_ genesis oracle_) ops = true ->
  failed (hrun (init_hg self_ genesis oracle_) ops) = false ->
  goodD (psat (hrun (init_hg self_ genesis oracle_) ops)) (hrun (init_hg self_ genesis oracle_) ops) /\
  from_attempts (hrun (init_hg self_ genesis oracle_) ops) all.
Proof.
  intros Hs ID H Hg Hf.
  pose proof (hrun_ginv all self_ genesis oracle_ ops ID H) as Gi.
  split; [|apply (g_from _ _ (gi_core _ _ Gi))].
  constructor.
  - apply (g_dag _ _ (gi_core _ _ Gi)).
  - apply (hrun_la_ok all ops ID H); [apply ginv_init|].
    apply la_ok_no_events. intros x. destruct (cw_fields _ _ (cw_init self_ genesis oracle_)) as [Ev _].
    unfold get_event. rewrite Ev. cbn. apply zget_empty.
  - apply (hrun_cinvD_final self_ genesis oracle_ all ops Hs ID H Hg Hf).
  - eexists. apply (ginv_hmeasure all _ Gi Hf).
Qed.

Lemma same_bodies_of_universeD all P1 P2 s1 s2 :
  ids_determine all -> goodD P1 s1 -> goodD P2 s2 -> from_attempts s1 all -> from_attempts s2 all ->
  same_bodies s1 s2.
Proof.
  intros ID G1 G2 F1 F2 x e1 e2 H1 H2.
  apply ID; [eapply F1; eauto|eapply F2; eauto|].
  rewrite (d_id _ (gD_dag _ _ G1) _ _ H1), (d_id _ (gD_dag _ _ G2) _ _ H2). reflexivity.
Qed.

(* the tables of the two states agree on the rounds both have *)
Definition tables_agree (st1 st2 : hg) : Prop :=
  forall q, get_round st1 q <> None -> get_round st2 q <> None -> get_peerset st1 q = get_peerset st2 q.

Lemma tables_agree_psat st1 st2 : tables_agree st1 st2 ->
  forall q, get_round st1 q <> None -> get_round st2 q <> None -> psat st1 q = psat st2 q.
Proof. intros T q A B. unfold psat. rewrite (T q A B). reflexivity. Qed.

Section TwoRuns.
  Variables (all : list event) (s1 s2 : Z) (g1 g2 : peerset) (o1 o2 : list Z) (ops1 ops2 : list hop).
  Hypothesis ID : ids_determine all.
  Hypothesis S1 : s1 <> -1.
  Hypothesis S2 : s2 <> -1.
  Hypothesis H1 : Forall (hop_ok all) ops1.
  Hypothesis H2 : Forall (hop_ok all) ops2.
  Hypothesis B1 : gap_runb (init_hg s1 g1 o1) ops1 = true.
  Hypothesis B2 : gap_runb (init_hg s2 g2 o2) ops2 = true.
  Let st1 := hrun (init_hg s1 g1 o1) ops1.
  Let st2 := hrun (init_hg s2 g2 o2) ops2.
  Hypothesis F1 : failed st1 = false.
  Hypothesis F2 : failed st2 = false.
  Hypothesis T : tables_agree st1 st2.

  Theorem gap_round_agree x e1 e2 :
    get_event st1 x = Some e1 -> get_event st2 x = Some e2 ->
    ev_round e1 = ev_round e2 /\ ev_round e1 <> None /\
    zget x (round_memo st1) = zget x (round_memo st2) /\ zget x (witness_memo st1) = zget x (witness_memo st2).
  Proof.
    intros E1 E2.
    destruct (gap_goodD s1 g1 o1 all ops1 S1 ID H1 B1 F1) as [G1 FA1].
    destruct (gap_goodD s2 g2 o2 all ops2 S2 ID H2 B2 F2) as [G2 FA2].
    fold st1 in G1, FA1. fold st2 in G2, FA2.
    pose proof (same_bodies_of_universeD all _ _ st1 st2 ID G1 G2 FA1 FA2) as SB.
    destruct (memo_agreeD _ _ st1 st2 G1 G2 SB (tables_agree_psat st1 st2 T) x e1 e2 E1 E2) as [Er Ew].
    destruct (memo_ofD _ st1 G1 x e1 E1) as [r1 [w1 [Hr1 [_ Hev1]]]].
    destruct (memo_ofD _ st2 G2 x e2 E2) as [r2 [w2 [Hr2 [_ Hev2]]]].
    rewrite Hev1, Hev2. unfold rmemo, wmemo in *. repeat split; try congruence.
  Qed.

  Theorem gap_strongly_see_agree g x w e1x e2x e1w e2w :
    get_event st1 x = Some e1x -> get_event st2 x = Some e2x ->
    get_event st1 w = Some e1w -> get_event st2 w = Some e2w ->
    strongly_see st1 x w g = strongly_see st2 x w g /\ strongly_see st1 x w g <> None.
  Proof.
    intros H1x H2x H1w H2w.
    destruct (gap_goodD s1 g1 o1 all ops1 S1 ID H1 B1 F1) as [G1 FA1].
    destruct (gap_goodD s2 g2 o2 all ops2 S2 ID H2 B2 F2) as [G2 FA2].
    fold st1 in G1, FA1. fold st2 in G2, FA2.
    pose proof (same_bodies_of_universeD all _ _ st1 st2 ID G1 G2 FA1 FA2) as SB.
    pose proof (ss_agreeD _ _ st1 st2 G1 G2 SB (tables_agree_psat st1 st2 T) g x w e1x e2x e1w e2w H1x H2x H1w H2w) as E.
    unfold ss_true in E. revert E. unfold strongly_see. rewrite H1x, H2x, H1w, H2w.
    intros E. split; [|discriminate].
    destruct (super_majority g <=? ss_count (ev_la e1x) (ev_fd e1w) (dedup (keys g))),
             (super_majority g <=? ss_count (ev_la e2x) (ev_fd e2w) (dedup (keys g))); congruence.
  Qed.
End TwoRuns.

(* same delivered blocks (same genesis) => same table *)
Lemma same_blocks_tables_agree s1 s2 g o1 o2 ops1 ops2 :
  s1 <> -1 -> s2 <> -1 ->
  delivered (hrun (init_hg s1 g o1) ops1) = delivered (hrun (init_hg s2 g o2) ops2) ->
  tables_agree (hrun (init_hg s1 g o1) ops1) (hrun (init_hg s2 g o2) ops2).
Proof.
  intros S1 S2 E q _ _.
  pose proof (eq_trans (eq_trans (reach_table s1 g o1 ops1 S1) (f_equal (replay [(0, g)] g) E))
                       (eq_sym (reach_table s2 g o2 ops2 S2))) as Q.
  unfold get_peerset. inversion Q as [[Q1 Q2]]. unfold reach in Q1. rewrite Q1. reflexivity.
Qed.
