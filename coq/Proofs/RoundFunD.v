(* Stage D2 (b), second half: round and witness flag are functions of the ancestry AND OF THE TABLE
   (dynamic membership).  GENERATED from RoundFun.v by text substitution.  Two states satisfying the division
   invariant for P1 resp. P2, that agree on the bodies of the events they share and whose P1, P2 agree on the
   rounds both states have, assign the same memoised round and witness flag to every shared event; strongly-see
   (with any set) between shared events has the same value in both. *)
From Coq Require Import ZArith List Bool Lia ZifyBool Permutation.
From RecordUpdate Require Import RecordSet.
From V Require Import Model.ZMap Model.Quorum Model.Voting Model.HgImpl
  Proofs.ZMapFacts Proofs.HgFrames Proofs.HgDagFrames Proofs.AdmissionProofs Proofs.InsertShape
  Proofs.Ancestry Proofs.Static Proofs.FirstDesc Proofs.DivInv Proofs.Height Proofs.StronglySee Proofs.RoundFun
  Proofs.FirstDescD Proofs.DivInvD Proofs.StronglySeeD.
Import ListNotations RecordSetNotations.
Open Scope Z_scope.

(** * Height and acyclicity in one state *)
Lemma anc_heightD P st h : goodD P st -> hmeasure st h -> forall x y, anc st x y ->
  forall ex, get_event st x = Some ex -> h y <= h x /\ (x <> y -> 0 <= h y < h x).
Proof.
  intros G Hh x y Ha. induction Ha as [x|x p y Hp Ha IH]; intros ex Hx; [split; [lia|congruence]|].
  destruct Hp as [ex' [Hx' [Hn Hp]]]. rewrite Hx in Hx'. inversion Hx'; subst ex'.
  destruct (parent_storedD P st G x ex p Hx Hn Hp) as [ep Hep].
  pose proof (Hh x ex p Hx Hn Hp). destruct (IH ep Hep) as [A B].
  assert (0 <= h y < h x).
  { destruct (Z.eq_dec p y) as [->|Hne]; [lia|]. specialize (B Hne). lia. }
  split; [lia|auto].
Qed.

Lemma anc_antisymD P st x y ex ey : goodD P st ->
  get_event st x = Some ex -> get_event st y = Some ey -> anc st x y -> anc st y x -> x = y.
Proof.
  intros G Hx Hy A B. destruct (gD_h _ _ G) as [h Hh].
  destruct (Z.eq_dec x y) as [E|Hne]; [exact E|exfalso].
  destruct (anc_heightD P st h G Hh x y A ex Hx) as [_ H1].
  destruct (anc_heightD P st h G Hh y x B ey Hy) as [_ H2].
  specialize (H1 Hne). specialize (H2 (fun E => Hne (eq_sym E))). lia.
Qed.

(** * From one state to the other *)
Section Cross.
  Variables (Pa Pb : Z -> peerset) (sa sb : hg).
  Hypothesis Ga : goodD Pa sa.
  Hypothesis Gb : goodD Pb sb.
  Hypothesis SAME : same_bodies sa sb.

  Lemma anc_commonD x ea eb y : get_event sa x = Some ea -> get_event sb x = Some eb ->
    anc sa x y -> anc sb x y /\ exists eyb, get_event sb y = Some eyb.
  Proof.
    intros Ha Hb Hanc. revert ea eb Ha Hb.
    induction Hanc as [x|x p y Hp Hanc IH]; intros ea eb Ha Hb; [split; [constructor|eauto]|].
    destruct Hp as [ea' [Ha' [Hn Hp]]]. rewrite Ha in Ha'. inversion Ha'; subst ea'.
    rewrite (SAME x ea eb Ha Hb) in Hp.
    destruct (parent_storedD Pa sa Ga x ea p Ha Hn ltac:(rewrite (SAME x ea eb Ha Hb); exact Hp)) as [epa Hepa].
    destruct (parent_storedD Pb sb Gb x eb p Hb Hn Hp) as [epb Hepb].
    destruct (IH epa epb Hepa Hepb) as [A B]. split; [|exact B].
    apply anc_step with p; [exists eb; auto|exact A].
  Qed.
End Cross.

Section Cross2.
  Variables (Pa Pb : Z -> peerset) (g : peerset) (sa sb : hg).
  Hypothesis Ga : goodD Pa sa.
  Hypothesis Gb : goodD Pb sb.
  Hypothesis SAME : same_bodies sa sb.
  Let SAME' := same_bodies_sym _ _ SAME.

  (* last ancestors are a function of the ancestry *)
  Lemma la_commonD x ea eb c i y : get_event sa x = Some ea -> get_event sb x = Some eb ->
    aget c (ev_la ea) = Some (i, y) -> aget c (ev_la eb) = Some (i, y).
  Proof.
    intros Ha Hb Hg.
    destruct (la_s sa (gD_la _ _ Ga) _ _ _ _ _ Ha Hg) as [eya [Hya [Hcy [Hiy Hanc]]]].
    destruct (anc_commonD Pa Pb sa sb Ga Gb SAME x ea eb y Ha Hb Hanc) as [Hancb [eyb Hyb]].
    pose proof (SAME y eya eyb Hya Hyb) as Ey.
    destruct (la_c sb (gD_la _ _ Gb) x eb y eyb Hb Hancb Hyb) as [i' [y' [Hg' Hle]]].
    rewrite <- Ey, Hcy in Hg'. rewrite <- Ey, Hiy in Hle.
    destruct (la_s sb (gD_la _ _ Gb) _ _ _ _ _ Hb Hg') as [ey'b [Hy'b [Hcy' [Hiy' Hanc']]]].
    destruct (anc_commonD Pb Pa sb sa Gb Ga SAME' x eb ea y' Hb Ha Hanc') as [Hanca' [ey'a Hy'a]].
    pose proof (SAME y' ey'a ey'b Hy'a Hy'b) as Ey'.
    destruct (la_c sa (gD_la _ _ Ga) x ea y' ey'a Ha Hanca' Hy'a) as [i'' [y'' [Hg'' Hle'']]].
    rewrite Ey', Hcy' in Hg''. rewrite Hg in Hg''.
    assert (Ei'' : i'' = i) by congruence.
    rewrite Ey', Hiy' in Hle''.
    assert (Ei : i' = i) by lia.
    assert (Ey2 : y' = y).
    { apply (dag_ok_no_fork sb y' y ey'b eyb (gD_dag _ _ Gb) Hy'b Hyb); rewrite <- Ey; congruence. }
    rewrite Ei, Ey2 in Hg'. exact Hg'.
  Qed.

  (* strongly-see transfers, given agreement of the witness flags of the proper ancestors *)
  Lemma ss_transferD x w eax ebx eaw ebw :
    get_event sa x = Some eax -> get_event sb x = Some ebx ->
    get_event sa w = Some eaw -> get_event sb w = Some ebw ->
    (forall y, anc sa x y -> y <> x -> wit sa y = wit sb y) ->
    ss_true g sa x w = true -> ss_true g sb x w = true.
  Proof.
    intros Hax Hbx Haw Hbw HA Hss.
    pose proof (ss_ancD Pa g sa Ga x w Hss) as Hanc.
    destruct (anc_commonD Pa Pb sa sb Ga Gb SAME x eax ebx w Hax Hbx Hanc) as [Hancb _].
    revert Hss. unfold ss_true, strongly_see. rewrite Hax, Haw, Hbx, Hbw. rewrite !ss_count_ssp.
    assert (Hm : (length (filter (ssp (ev_la eax) (ev_fd eaw)) (dedup (keys g))) <=
                  length (filter (ssp (ev_la ebx) (ev_fd ebw)) (dedup (keys g))))%nat).
    { apply filter_length_mono. intros p _. unfold ssp.
      destruct (aget p (ev_la eax)) as [[i y]|] eqn:El; [|discriminate].
      destruct (aget p (ev_fd eaw)) as [[j z]|] eqn:Ef; [|discriminate]. intros Hji.
      assert (Hle : j <= i) by lia. clear Hji.
      rewrite (la_commonD x eax ebx p i y Hax Hbx El).
      pose proof (SAME w eaw ebw Haw Hbw) as Ew.
      destruct (Z.eq_dec p (e_creator (ev_e eaw))) as [->|Hp].
      - rewrite (cd_own _ _ _ (gD_c _ _ Ga) w eaw Haw) in Ef. inversion Ef; subst j z.
        rewrite Ew. rewrite (cd_own _ _ _ (gD_c _ _ Gb) w ebw Hbw). rewrite <- Ew. lia.
      - destruct (cd_sound _ _ _ (gD_c _ _ Ga) w eaw p j z Haw Ef Hp) as [eza [Hza [Hcz [Hiz Hcond]]]].
        (* z is an ancestor of x *)
        assert (Hxz : anc sa x z) by (apply (la_ancD Pa sa Ga x eax p i y z eza Hax El Hza Hcz); lia).
        destruct (anc_commonD Pa Pb sa sb Ga Gb SAME x eax ebx z Hax Hbx Hxz) as [Hxzb [ezb Hzb]].
        pose proof (SAME z eza ezb Hza Hzb) as Ez.
        (* cond holds in sb *)
        assert (Hcb : cond sb z w).
        { destruct Hcond as [eza' [eaw' [t [y' [Hza' [Haw' [Hl [Hi Hnw]]]]]]]].
          rewrite Hza in Hza'. inversion Hza'; subst eza'. rewrite Haw in Haw'. inversion Haw'; subst eaw'.
          exists ezb, ebw, t, y'. rewrite <- Ew.
          split; [exact Hzb|split; [exact Hbw|split; [apply (la_commonD z eza ezb _ t y' Hza Hzb Hl)|split; [exact Hi|]]]].
          intros u eub Hub Hcu Hiu.
          (* u lies on w's chain between w and z's last ancestor there: a proper ancestor of x *)
          pose proof (la_commonD z eza ezb _ t y' Hza Hzb Hl) as Hlb.
          assert (Hzu : anc sb z u) by (apply (la_ancD Pb sb Gb z ezb _ t y' u eub Hzb Hlb Hub Hcu); lia).
          destruct (anc_commonD Pb Pa sb sa Gb Ga SAME' z ezb eza u Hzb Hza Hzu) as [Hzua [eua Hua]].
          pose proof (SAME u eua eub Hua Hub) as Eu.
          assert (Hux : u <> x).
          { intros ->. assert (x = z) by (eapply (anc_antisymD Pa sa x z eax eza Ga); eauto).
            subst z. rewrite Hax in Hza. inversion Hza; subst eza. rewrite Hub in Hbx. inversion Hbx; subst ebx.
            rewrite Hua in Hax. inversion Hax; subst eax. congruence. }
          rewrite <- (HA u (anc_trans _ _ _ _ Hxz Hzua) Hux).
          apply (Hnw u eua Hua); rewrite Eu; assumption. }
        destruct (fd_completeD Pb sb Gb z ezb w ebw Hzb Hbw Hcb) as [j' [z' [Hf' Hle']]].
        rewrite <- Ez, Hcz in Hf'. rewrite Hf'. rewrite <- Ez, Hiz in Hle'. lia. }
    pose proof (super_majority_pos g).
    destruct (Z.leb_spec (super_majority g) (Z.of_nat (length (filter (ssp (ev_la eax) (ev_fd eaw)) (dedup (keys g))))));
      [|discriminate].
    intros _.
    destruct (Z.leb_spec (super_majority g) (Z.of_nat (length (filter (ssp (ev_la ebx) (ev_fd ebw)) (dedup (keys g))))));
      [reflexivity|lia].
  Qed.
End Cross2.

(* one direction of the comparison of the strongly-seen witnesses *)
Lemma seen_witness_transferD Pa Pb g sa sb (Ga : goodD Pa sa) (Gb : goodD Pb sb) (S : same_bodies sa sb) x eax ebx pr w :
  get_event sa x = Some eax -> get_event sb x = Some ebx ->
  (forall y, anc sa x y -> y <> x -> rmemo sa y = rmemo sb y /\ wmemo sa y = wmemo sb y) ->
  In w (wits sa pr) -> negb (w =? x) && ss_true g sa x w = true ->
  In w (wits sb pr) /\ negb (w =? x) && ss_true g sb x w = true.
Proof.
  intros Hax Hbx HA Hin Hf. apply andb_true_iff in Hf. destruct Hf as [Hne Hss].
  assert (Hwx : w <> x) by (destruct (Z.eqb_spec w x); [discriminate|assumption]).
  pose proof (ss_ancD Pa g sa Ga x w Hss) as Hanc.
  destruct (HA w Hanc Hwx) as [Er Ew].
  apply (wits_specD Pa sa Ga) in Hin. destruct Hin as [Hr Hw].
  destruct (wits_storedD Pa sa Ga pr w (proj2 (wits_specD Pa sa Ga pr w) (conj Hr Hw))) as [eaw Haw].
  destruct (anc_commonD Pa Pb sa sb Ga Gb S x eax ebx w Hax Hbx Hanc) as [_ [ebw Hbw]].
  split.
  - apply (wits_specD Pb sb Gb). rewrite <- Er, <- Ew. auto.
  - rewrite Hne. cbn [andb].
    apply (ss_transferD Pa Pb g sa sb Ga Gb S x w eax ebx eaw ebw Hax Hbx Haw Hbw); [|exact Hss].
    intros y Hy Hyx. unfold wit. destruct (HA y Hy Hyx) as [_ ->]. reflexivity.
Qed.

Section Agree.
  Variables (P1 P2 : Z -> peerset) (st1 st2 : hg).
  Hypothesis G1 : goodD P1 st1.
  Hypothesis G2 : goodD P2 st2.
  Hypothesis SAME : same_bodies st1 st2.
  (* the two tables agree on the rounds both states have *)
  Hypothesis PE : forall q, get_round st1 q <> None -> get_round st2 q <> None -> P1 q = P2 q.
  Let SAME' := same_bodies_sym _ _ SAME.

  Definition agree_atD (y : Z) : Prop := rmemo st1 y = rmemo st2 y /\ wmemo st1 y = wmemo st2 y.


  Lemma memo_agree_natD h1 : hmeasure st1 h1 -> forall n x e1 e2,
    get_event st1 x = Some e1 -> get_event st2 x = Some e2 -> (Z.to_nat (h1 x) < n)%nat -> agree_atD x.
  Proof.
    intros Hh. induction n as [|n IH]; intros x e1 e2 H1 H2 Hn; [lia|].
    (* agreement on the proper ancestors, seen from either state *)
    assert (A1 : forall y, anc st1 x y -> y <> x -> agree_atD y).
    { intros y Hy Hyx.
      destruct (anc_heightD P1 st1 h1 G1 Hh x y Hy e1 H1) as [_ Hlt]. specialize (Hlt (fun E => Hyx (eq_sym E))).
      destruct (anc_storedD P1 st1 G1 x e1 y H1 Hy) as [ey1 Hy1].
      destruct (anc_commonD P1 P2 st1 st2 G1 G2 SAME x e1 e2 y H1 H2 Hy) as [_ [ey2 Hy2]].
      apply (IH y ey1 ey2 Hy1 Hy2). lia. }
    assert (A2 : forall y, anc st2 x y -> y <> x -> rmemo st2 y = rmemo st1 y /\ wmemo st2 y = wmemo st1 y).
    { intros y Hy Hyx. destruct (anc_commonD P2 P1 st2 st1 G2 G1 SAME' x e2 e1 y H2 H1 Hy) as [Hy1 _].
      destruct (A1 y Hy1 Hyx) as [A B]. auto. }
    pose proof (SAME x e1 e2 H1 H2) as Ee.
    destruct (memo_ofD P1 st1 G1 x e1 H1) as [r1 [w1 [Hr1 [Hw1 _]]]].
    destruct (memo_ofD P2 st2 G2 x e2 H2) as [r2 [w2 [Hr2 [Hw2 _]]]].
    destruct (cd_rdom _ _ _ (gD_c _ _ G1) x r1 Hr1) as [_ [e1' [H1' [spr1 [opr1 [Hs1 [Ho1 [Hz1 Hq1]]]]]]]].
    rewrite H1 in H1'. inversion H1'; subst e1'.
    destruct (cd_rdom _ _ _ (gD_c _ _ G2) x r2 Hr2) as [_ [e2' [H2' [spr2 [opr2 [Hs2 [Ho2 [Hz2 Hq2]]]]]]]].
    rewrite H2 in H2'. inversion H2'; subst e2'.
    (* parents' rounds agree *)
    assert (Hpar : forall p, (e_sp (ev_e e1) = p \/ e_op (ev_e e1) = p) -> prnd st1 p = prnd st2 p).
    { intros p Hp. unfold prnd. destruct (Z.eqb_spec p (-1)) as [|Hpn]; [reflexivity|].
      assert (Hanc : anc st1 x p) by (apply anc_step with p; [exists e1; auto|constructor]).
      assert (Hpx : p <> x).
      { intros ->. destruct (parent_storedD P1 st1 G1 x e1 x H1 Hpn Hp) as [ep Hep].
        pose proof (Hh x e1 x H1 Hpn Hp). lia. }
      apply (A1 p Hanc Hpx). }
    rewrite <- Ee in Hs2, Ho2.
    rewrite <- (Hpar _ (or_introl eq_refl)), Hs1 in Hs2. inversion Hs2; subst spr2.
    rewrite <- (Hpar _ (or_intror eq_refl)), Ho1 in Ho2. inversion Ho2; subst opr2.
    assert (Er : r1 = r2).
    { destruct (Z.eq_dec (Z.max spr1 opr1) (-1)) as [E|Hne]; [rewrite (Hz1 E), (Hz2 E); reflexivity|].
      destruct (Hq1 Hne) as [Hg1 ->]. destruct (Hq2 Hne) as [Hg2 ->]. rewrite <- (PE _ Hg1 Hg2).
      set (g := P1 (Z.max spr1 opr1)).
      replace (cntss g st2 x (wits st2 (Z.max spr1 opr1))) with (cntss g st1 x (wits st1 (Z.max spr1 opr1))); [reflexivity|].
      unfold cntss. f_equal. apply filter_len_eq; [apply (wits_nodupD P1 st1 G1)|apply (wits_nodupD P2 st2 G2)|].
      intros w. split; intros [Hin Hf].
      - apply (seen_witness_transferD P1 P2 g st1 st2 G1 G2 SAME x e1 e2 _ w H1 H2 A1 Hin Hf).
      - apply (seen_witness_transferD P2 P1 g st2 st1 G2 G1 SAME' x e2 e1 _ w H2 H1 A2 Hin Hf). }
    subst r2. split; [congruence|]. rewrite Hw1, Hw2. f_equal.
    destruct (cd_wdom _ _ _ (gD_c _ _ G1) x w1 Hw1) as [e1' [r1' [H1w [Hr1' [s1 [Hs1' ->]]]]]].
    rewrite H1 in H1w. inversion H1w; subst e1'. rewrite Hr1 in Hr1'. inversion Hr1'; subst r1'.
    destruct (cd_wdom _ _ _ (gD_c _ _ G2) x w2 Hw2) as [e2' [r2' [H2w [Hr2' [s2 [Hs2' ->]]]]]].
    rewrite H2 in H2w. inversion H2w; subst e2'. rewrite Hr2 in Hr2'. inversion Hr2'; subst r2'.
    rewrite <- Ee in Hs2'. rewrite <- (Hpar _ (or_introl eq_refl)), Hs1' in Hs2'. inversion Hs2'; subst s2.
    assert (E1 : get_round st1 r1 <> None).
    { pose proof (cd_tabc _ _ _ (gD_c _ _ G1) x r1 _ Hr1 Hw1) as Hin. unfold wl in Hin.
      destruct (get_round st1 r1); [discriminate|destruct Hin]. }
    assert (E2 : get_round st2 r1 <> None).
    { pose proof (cd_tabc _ _ _ (gD_c _ _ G2) x r1 _ Hr2 Hw2) as Hin. unfold wl in Hin.
      destruct (get_round st2 r1); [discriminate|destruct Hin]. }
    rewrite Ee, (PE r1 E1 E2). reflexivity.
  Qed.

  Theorem memo_agreeD x e1 e2 : get_event st1 x = Some e1 -> get_event st2 x = Some e2 ->
    rmemo st1 x = rmemo st2 x /\ wmemo st1 x = wmemo st2 x.
  Proof.
    intros H1 H2. destruct (gD_h _ _ G1) as [h1 Hh].
    apply (memo_agree_natD h1 Hh (S (Z.to_nat (h1 x))) x e1 e2 H1 H2). lia.
  Qed.

  (* strongly-see between shared events has the same value in both states *)
  Theorem ss_agreeD g x w e1x e2x e1w e2w :
    get_event st1 x = Some e1x -> get_event st2 x = Some e2x ->
    get_event st1 w = Some e1w -> get_event st2 w = Some e2w ->
    ss_true g st1 x w = ss_true g st2 x w.
  Proof.
    intros H1x H2x H1w H2w.
    assert (T12 : ss_true g st1 x w = true -> ss_true g st2 x w = true).
    { apply (ss_transferD P1 P2 g st1 st2 G1 G2 SAME x w e1x e2x e1w e2w H1x H2x H1w H2w).
      intros y Hy _. destruct (anc_storedD P1 st1 G1 x e1x y H1x Hy) as [ey1 Hy1].
      destruct (anc_commonD P1 P2 st1 st2 G1 G2 SAME x e1x e2x y H1x H2x Hy) as [_ [ey2 Hy2]].
      unfold wit. destruct (memo_agreeD y ey1 ey2 Hy1 Hy2) as [_ ->]. reflexivity. }
    assert (T21 : ss_true g st2 x w = true -> ss_true g st1 x w = true).
    { apply (ss_transferD P2 P1 g st2 st1 G2 G1 SAME' x w e2x e1x e2w e1w H2x H1x H2w H1w).
      intros y Hy _. destruct (anc_storedD P2 st2 G2 x e2x y H2x Hy) as [ey2 Hy2].
      destruct (anc_commonD P2 P1 st2 st1 G2 G1 SAME' x e2x e1x y H2x H1x Hy) as [_ [ey1 Hy1]].
      unfold wit. destruct (memo_agreeD y ey1 ey2 Hy1 Hy2) as [_ ->]. reflexivity. }
    destruct (ss_true g st1 x w) eqn:E1.
    - symmetry. apply T12. reflexivity.
    - destruct (ss_true g st2 x w) eqn:E2; [|reflexivity]. apply T21. reflexivity.
  Qed.
End Agree.
