(* C02 (round-received strictly increases along the delivery sequence).
   Invariant of the pending-rounds queue and of the round table, for every reachable state:
   rounds are contiguous (0..last_round), the queue is strictly sorted and above the last
   consensus round, a round that left the queue is flagged decided for ever and is never queued
   again, delivered blocks carry the round they were processed for. *)
From Coq Require Import ZArith List Bool Lia ZifyBool Sorted.
From RecordUpdate Require Import RecordSet.
From V Require Import Model.ZMap Model.Quorum Model.Voting Model.HgImpl
  Proofs.ZMapFacts Proofs.HgFrames Proofs.HgBlockFrames Proofs.BlockInv.
Import ListNotations RecordSetNotations.
Open Scope Z_scope.

(** * Views *)

(* the components the invariant reads, except the delivered list *)
Definition cv (st : hg) :=
  (rounds st, last_round st, pending st, last_consensus st, lower_bound st, frames st, round_memo st).
Definition rv (st : hg) := (cv st, delivered st).

Definition prounds (st : hg) : list Z := map fst (pending st).
Definition lc_lt (st : hg) (r : Z) : Prop :=
  match last_consensus st with Some l => l < r | None => True end.

Definition rounds_bounded (st : hg) : Prop :=
  -1 <= last_round st /\ forall r, get_round st r <> None -> 0 <= r <= last_round st.
Definition memo_ok (st : hg) : Prop :=
  forall x r, zget x (round_memo st) = Some r -> 0 <= r <= last_round st + 1.

(* parts of the invariant that also hold in the middle of ProcessDecidedRounds *)
Record rinvA (st : hg) : Prop := {
  r_lb : lower_bound st = None;
  r_lr : -1 <= last_round st;
  r_contig : forall r, get_round st r <> None <-> 0 <= r <= last_round st;
  r_memo : memo_ok st;
  r_sorted : StronglySorted Z.lt (prounds st);
  r_pend : forall r d, In (r, d) (pending st) ->
           exists ri, get_round st r = Some ri /\ (d = true -> ri_decided ri = true);
  r_lc : forall l, last_consensus st = Some l -> l <= last_round st;
  r_frames : forall rr f, zget rr (frames st) = Some f -> f_round f = rr;
  r_del_sorted : StronglySorted Z.lt (map b_rr (delivered st));
  r_del_lc : forall d, In d (delivered st) -> exists l, last_consensus st = Some l /\ b_rr d <= l
}.
(* parts that are re-established when the processed prefix is removed from the queue *)
Record rinvB (st : hg) : Prop := {
  r_above : forall r, In r (prounds st) -> lc_lt st r;
  r_q : forall r ri, get_round st r = Some ri -> In r (prounds st) \/ ri_decided ri = true
}.
Definition rinv (st : hg) : Prop := rinvA st /\ rinvB st.

(** * Steps that keep queue, last consensus round, frames and deliveries, keep the set of rounds
      and never clear a decided flag *)
Record rstep (st st' : hg) : Prop := {
  s_lr : last_round st' = last_round st;
  s_pend : pending st' = pending st;
  s_lc : last_consensus st' = last_consensus st;
  s_lb : lower_bound st' = lower_bound st;
  s_fr : frames st' = frames st;
  s_del : delivered st' = delivered st;
  s_dom : forall r, get_round st' r = None <-> get_round st r = None;
  s_dec : forall r ri ri', get_round st r = Some ri -> get_round st' r = Some ri' ->
          ri_decided ri = true -> ri_decided ri' = true;
  s_memo : rounds_bounded st -> memo_ok st -> memo_ok st'
}.

Lemma rstep_refl st : rstep st st.
Proof.
  constructor; auto; try reflexivity.
  intros r ri ri' H H'. rewrite H in H'. inversion H'; subst. auto.
Qed.

Lemma rounds_bounded_rstep st st' : rstep st st' -> rounds_bounded st -> rounds_bounded st'.
Proof.
  intros S [B0 B]. split; [rewrite (s_lr _ _ S); exact B0|].
  intros r Hr. rewrite (s_lr _ _ S). apply B. intros C. apply Hr. apply (s_dom _ _ S). exact C.
Qed.

Lemma rstep_trans a b c : rstep a b -> rstep b c -> rstep a c.
Proof.
  intros S1 S2. constructor.
  - rewrite (s_lr _ _ S2). apply (s_lr _ _ S1).
  - rewrite (s_pend _ _ S2). apply (s_pend _ _ S1).
  - rewrite (s_lc _ _ S2). apply (s_lc _ _ S1).
  - rewrite (s_lb _ _ S2). apply (s_lb _ _ S1).
  - rewrite (s_fr _ _ S2). apply (s_fr _ _ S1).
  - rewrite (s_del _ _ S2). apply (s_del _ _ S1).
  - intros r. rewrite (s_dom _ _ S2). apply (s_dom _ _ S1).
  - intros r ri ri'' Ha Hc Hd.
    destruct (get_round b r) as [ri'|] eqn:Hb.
    + eapply (s_dec _ _ S2); eauto. eapply (s_dec _ _ S1); eauto.
    + apply (s_dom _ _ S1) in Hb. congruence.
  - intros B M. apply (s_memo _ _ S2); [eapply rounds_bounded_rstep; eauto|apply (s_memo _ _ S1); auto].
Qed.

Lemma rstep_rv st st' : rv st' = rv st -> rstep st st'.
Proof.
  unfold rv, cv. intros E. inversion E as [[Hr Hl Hp Hc Hb Hf Hm Hd]].
  assert (G : forall r, get_round st' r = get_round st r) by (intros r; unfold get_round; rewrite Hr; reflexivity).
  constructor; auto.
  - intros r. rewrite G. reflexivity.
  - intros r ri ri'. rewrite G. intros H H'. rewrite H in H'. inversion H'; subst; auto.
  - intros _ M x r. unfold memo_ok in M. rewrite Hm, Hl. apply M.
Qed.

(* only memo tables change, the round memo does not *)
Lemma rv_nomemo st st' : nomemo st' = nomemo st -> round_memo st' = round_memo st -> rv st' = rv st.
Proof. intros H M. unfold rv, cv. rewrite M. destruct st, st'. cbn in *. inversion H. reflexivity. Qed.

Lemma rinvA_rstep st st' : rinvA st -> rstep st st' -> rinvA st'.
Proof.
  intros A S.
  assert (B : rounds_bounded st) by (split; [apply (r_lr st A)|intros r Hr; apply (r_contig st A); exact Hr]).
  constructor.
  - rewrite (s_lb _ _ S). apply (r_lb st A).
  - rewrite (s_lr _ _ S). apply (r_lr st A).
  - intros r. rewrite (s_lr _ _ S), <- (r_contig st A r).
    split; intros H C; apply H; apply (s_dom _ _ S); exact C.
  - apply (s_memo _ _ S); [exact B|apply (r_memo st A)].
  - unfold prounds. rewrite (s_pend _ _ S). apply (r_sorted st A).
  - intros r d. rewrite (s_pend _ _ S). intros Hin.
    destruct (r_pend st A r d Hin) as [ri [Hri Hd]].
    destruct (get_round st' r) as [ri'|] eqn:H'.
    + exists ri'. split; [reflexivity|]. intros ->. eapply (s_dec _ _ S); eauto.
    + apply (s_dom _ _ S) in H'. congruence.
  - intros l. rewrite (s_lc _ _ S), (s_lr _ _ S). apply (r_lc st A).
  - rewrite (s_fr _ _ S). apply (r_frames st A).
  - rewrite (s_del _ _ S). apply (r_del_sorted st A).
  - intros d. rewrite (s_del _ _ S), (s_lc _ _ S). apply (r_del_lc st A).
Qed.

Lemma rinvB_rstep st st' : rinvB st -> rstep st st' -> rinvB st'.
Proof.
  intros [Ha Hq] S. constructor.
  - unfold prounds, lc_lt. rewrite (s_pend _ _ S), (s_lc _ _ S). exact Ha.
  - intros r ri' H'. unfold prounds. rewrite (s_pend _ _ S).
    destruct (get_round st r) as [ri|] eqn:H.
    + destruct (Hq r ri H) as [?|Hd]; [left; auto|right]. eapply (s_dec _ _ S); eauto.
    + apply (s_dom _ _ S) in H. congruence.
Qed.

Lemma rinv_rstep st st' : rinv st -> rstep st st' -> rinv st'.
Proof. intros [A B] S. split; [eapply rinvA_rstep|eapply rinvB_rstep]; eauto. Qed.

(** * round_f / witness_f: only memo tables change and the memoised rounds stay within
      0..last_round+1 (a round number is 0, the parents' round, or that round + 1, and the
      parents' round has a RoundInfo) *)
Lemma nomemo_rounds_bounded st st' : nomemo st' = nomemo st -> rounds_bounded st -> rounds_bounded st'.
Proof.
  intros H [B0 B].
  assert (L : last_round st' = last_round st) by (apply (f_equal last_round) in H; destruct st, st'; cbn in *; congruence).
  split; [rewrite L; exact B0|].
  intros r. unfold get_round. rewrite (nomemo_eq_rounds _ _ H), L. apply B.
Qed.
Lemma nomemo_last_round st st' : nomemo st' = nomemo st -> last_round st' = last_round st.
Proof. intros H. apply (f_equal last_round) in H. destruct st, st'; cbn in *; congruence. Qed.

Lemma memo_ok_set st x r :
  memo_ok st -> 0 <= r <= last_round st + 1 -> memo_ok (st <| round_memo := zset x r (round_memo st) |>).
Proof.
  intros M Hr y r0.
  replace (round_memo (st <| round_memo := zset x r (round_memo st) |>)) with (zset x r (round_memo st)) by (destruct st; reflexivity).
  replace (last_round (st <| round_memo := zset x r (round_memo st) |>)) with (last_round st) by (destruct st; reflexivity).
  rewrite zget_zset. destruct ((x =? y) && (0 <=? x)); [intros H; inversion H; subst; exact Hr|apply M].
Qed.

Lemma round_f_memo fuel : forall st x, rounds_bounded st -> memo_ok st ->
  memo_ok (snd (round_f fuel st x)) /\
  (forall r, fst (round_f fuel st x) = Some r -> 0 <= r <= last_round st + 1).
Proof.
  induction fuel as [|f IH]; intros st x B M; cbn [round_f].
  - destruct (zget x (round_memo st)) eqn:Hm; cbn [fst snd]; split; auto; try discriminate.
    intros r H; inversion H; subst. eapply M; eauto.
  - destruct (zget x (round_memo st)) eqn:Hm; cbn [fst snd].
    { split; auto. intros r H; inversion H; subst. eapply M; eauto. }
    destruct (get_event st x) as [ex|]; [|cbn [fst snd]; split; [auto|discriminate]].
    set (sp := e_sp (ev_e ex)). set (op := e_op (ev_e ex)).
    assert (H1 : exists o1 st1, (if sp =? -1 then (Some (-1), st) else round_f f st sp) = (o1, st1) /\
                 nomemo st1 = nomemo st /\ memo_ok st1).
    { destruct (sp =? -1); [exists (Some (-1)), st; auto|].
      pose proof (round_f_nomemo f st sp) as N. destruct (IH st sp B M) as [M1 _].
      destruct (round_f f st sp) as [o1 st1]. exists o1, st1. auto. }
    destruct H1 as [o1 [st1 [E1 [N1 M1]]]]. rewrite E1.
    destruct o1 as [spr|]; [|cbn [fst snd]; split; [auto|discriminate]].
    assert (B1 : rounds_bounded st1) by (eapply nomemo_rounds_bounded; eauto).
    assert (H2 : exists o2 st2, (if op =? -1 then (Some (-1), st1) else round_f f st1 op) = (o2, st2) /\
                 nomemo st2 = nomemo st1 /\ memo_ok st2).
    { destruct (op =? -1); [exists (Some (-1)), st1; auto|].
      pose proof (round_f_nomemo f st1 op) as N. destruct (IH st1 op B1 M1) as [M2 _].
      destruct (round_f f st1 op) as [o2 st2]. exists o2, st2. auto. }
    destruct H2 as [o2 [st2 [E2 [N2 M2]]]]. rewrite E2.
    destruct o2 as [opr|]; [|cbn [fst snd]; split; [auto|discriminate]].
    assert (B2 : rounds_bounded st2) by (eapply nomemo_rounds_bounded; eauto).
    assert (L2 : last_round st2 = last_round st).
    { rewrite (nomemo_last_round _ _ N2). apply (nomemo_last_round _ _ N1). }
    cbv zeta. set (pr := if spr <? opr then opr else spr).
    destruct B2 as [B20 B2].
    destruct (pr =? -1) eqn:Epr.
    + cbn [fst snd]. split; [apply memo_ok_set; [exact M2|lia]|]. intros r H; inversion H; lia.
    + destruct (get_round st2 pr) as [pri|] eqn:Hpri; [|cbn [fst snd]; split; [auto|discriminate]].
      assert (Hb : 0 <= pr <= last_round st2) by (apply B2; congruence).
      destruct (get_peerset st2 pr) as [pps|]; [|cbn [fst snd]; split; [auto|discriminate]].
      match goal with |- context [fold_left ?g ?l ?a] => destruct (fold_left g l a) as [c|] end;
        [|cbn [fst snd]; split; [auto|discriminate]].
      cbn [fst snd]. split.
      * apply memo_ok_set; [exact M2|]. destruct (super_majority pps <=? c); lia.
      * intros r H; inversion H. destruct (super_majority pps <=? c); lia.
Qed.

Lemma memo_ok_set_witness_memo st m : memo_ok st -> memo_ok (st <| witness_memo := m |>).
Proof. intros M. destruct st; exact M. Qed.

Lemma witness_f_memo fuel st x : rounds_bounded st -> memo_ok st -> memo_ok (snd (witness_f fuel st x)).
Proof.
  intros B M. unfold witness_f.
  destruct (zget x (witness_memo st)); [exact M|].
  destruct (get_event st x) as [ex|]; [|exact M].
  pose proof (round_f_nomemo fuel st x) as N1. destruct (round_f_memo fuel st x B M) as [M1 _].
  destruct (round_f fuel st x) as [[xr|] st1]; cbn [snd] in *; [|exact M1].
  destruct (get_peerset st1 xr); [|exact M1].
  destruct (negb _); cbn [snd]; [apply memo_ok_set_witness_memo; exact M1|].
  destruct (e_sp (ev_e ex) =? -1); [cbn [snd]; apply memo_ok_set_witness_memo; exact M1|].
  assert (B1 : rounds_bounded st1) by (eapply nomemo_rounds_bounded; eauto).
  destruct (round_f_memo fuel st1 (e_sp (ev_e ex)) B1 M1) as [M2 _].
  destruct (round_f fuel st1 (e_sp (ev_e ex))) as [[spr|] st2]; cbn [snd] in *;
    [apply memo_ok_set_witness_memo|]; exact M2.
Qed.

Lemma rstep_nomemo st st' :
  nomemo st' = nomemo st -> (rounds_bounded st -> memo_ok st -> memo_ok st') -> rstep st st'.
Proof.
  intros H HM.
  assert (G : forall r, get_round st' r = get_round st r) by (intros r; unfold get_round; rewrite (nomemo_eq_rounds _ _ H); reflexivity).
  constructor; try (destruct st, st'; cbn in *; inversion H; reflexivity).
  - intros r ri ri'. rewrite G. intros A A'. rewrite A in A'. inversion A'; subst; auto.
  - exact HM.
Qed.

Lemma round_f_rstep fuel st x : rstep st (snd (round_f fuel st x)).
Proof. apply rstep_nomemo; [apply round_f_nomemo|]. intros B M. apply round_f_memo; auto. Qed.
Lemma witness_f_rstep fuel st x : rstep st (snd (witness_f fuel st x)).
Proof. apply rstep_nomemo; [apply witness_f_nomemo|]. intros B M. apply witness_f_memo; auto. Qed.

(* lamport_f leaves the round memo alone *)
Lemma lamport_f_round_memo fuel : forall st x, round_memo (snd (lamport_f fuel st x)) = round_memo st.
Proof.
  induction fuel as [|f IH]; intros st x; cbn [lamport_f].
  - destruct (zget x (lt_memo st)); reflexivity.
  - destruct (zget x (lt_memo st)); [reflexivity|].
    destruct (get_event st x) as [ex|]; [|reflexivity].
    assert (H1 : round_memo (snd (if e_sp (ev_e ex) =? -1 then (Some (-1), st) else lamport_f f st (e_sp (ev_e ex)))) = round_memo st).
    { destruct (e_sp (ev_e ex) =? -1); [reflexivity|apply IH]. }
    destruct (if e_sp (ev_e ex) =? -1 then (Some (-1), st) else lamport_f f st (e_sp (ev_e ex))) as [[plt|] st1];
      cbn [snd] in *; [|exact H1].
    destruct (e_op (ev_e ex) =? -1).
    + cbn [snd]. rewrite <- H1. destruct st1; reflexivity.
    + destruct (get_event st1 (e_op (ev_e ex))).
      * pose proof (IH st1 (e_op (ev_e ex))) as H2.
        destruct (lamport_f f st1 (e_op (ev_e ex))) as [[t|] s]; cbn [snd] in *; [|congruence].
        rewrite <- H1, <- H2. destruct s; reflexivity.
      * cbn [snd]. rewrite <- H1. destruct st1; reflexivity.
Qed.

Lemma lamport_f_rv fuel st x : rv (snd (lamport_f fuel st x)) = rv st.
Proof. apply rv_nomemo; [apply lamport_f_nomemo|apply lamport_f_round_memo]. Qed.

(** * Elementary updates *)
Lemma rv_set_evst st x e : rv (set_evst st x e) = rv st.
Proof. destruct st; reflexivity. Qed.
Lemma rv_fail st : rv (fail st) = rv st.
Proof. destruct st; reflexivity. Qed.
Lemma rv_set_undetermined st p : rv (st <| undetermined := p |>) = rv st.
Proof. destruct st; reflexivity. Qed.
Lemma rv_set_pending_loaded st p : rv (st <| pending_loaded := p |>) = rv st.
Proof. destruct st; reflexivity. Qed.
Lemma rv_set_sigpool st p : rv (st <| sigpool := p |>) = rv st.
Proof. destruct st; reflexivity. Qed.
Lemma rv_set_topo st p : rv (st <| topo := p |>) = rv st.
Proof. destruct st; reflexivity. Qed.

Ltac rstep_chain := repeat (eapply rstep_trans; [eassumption|]).

(** * InsertEvent *)
Lemma fd_walk_rstep fuel : forall st c index x ah, rstep st (fd_walk fuel st c index x ah).
Proof.
  induction fuel as [|f IH]; intros st c index x ah; cbn [fd_walk]; [apply rstep_refl|].
  destruct (get_event st ah) as [a|]; [|apply rstep_refl].
  destruct (aget c (ev_fd a)); [apply rstep_refl|].
  set (st1 := set_evst st ah _).
  assert (F1 : rstep st st1) by (apply rstep_rv, rv_set_evst).
  pose proof (witness_f_rstep (fuel_of st1) st1 ah) as F2.
  destruct (witness_f (fuel_of st1) st1 ah) as [[[|]|] st2]; cbn [snd] in F2; rstep_chain;
    try apply rstep_refl; apply IH.
Qed.

Lemma fold_rstep {A} (f : hg -> A -> hg) (l : list A) :
  (forall s a, rstep s (f s a)) -> forall st, rstep st (fold_left f l st).
Proof.
  intros Hf. induction l as [|a r IH]; intros st; cbn [fold_left]; [apply rstep_refl|].
  eapply rstep_trans; [apply Hf|apply IH].
Qed.

Lemma update_ancestor_fd_rstep st e la : rstep st (update_ancestor_fd st e la).
Proof. unfold update_ancestor_fd. apply fold_rstep. intros s ce. apply fd_walk_rstep. Qed.

Lemma store_set_event_rv st es st' : store_set_event st es = Some st' -> rv st' = rv st.
Proof.
  unfold store_set_event. destruct (get_event st _).
  - intros H; inversion H. apply rv_set_evst.
  - destruct (zget _ _); [|discriminate]. destruct (pidx_set _ _ _); [|discriminate].
    intros H; inversion H. rewrite rv_set_evst. destruct st; reflexivity.
Qed.

Lemma insert_event_rstep st e : rstep st (snd (insert_event st e)).
Proof.
  unfold insert_event. destruct (negb _); [apply rstep_refl|].
  destruct (check_self_parent st e); try apply rstep_refl.
  destruct (check_other_parent st e); try apply rstep_refl.
  unfold insert_admitted. cbv zeta.
  destruct (store_set_event _ _) as [st2|] eqn:E; cbn [snd]; [|apply rstep_rv, rv_set_topo].
  apply store_set_event_rv in E. rewrite rv_set_topo in E.
  eapply rstep_trans; [apply rstep_rv; exact E|].
  eapply rstep_trans; [apply update_ancestor_fd_rstep|].
  apply rstep_rv. rewrite rv_set_sigpool.
  destruct (is_loaded e); rewrite ?rv_set_pending_loaded, rv_set_undetermined; reflexivity.
Qed.

(** * The pending-rounds queue *)
Lemma queued_In st r : queued st r = true <-> In r (prounds st).
Proof.
  unfold queued, prounds. rewrite existsb_exists. split.
  - intros [p [Hin He]]. apply Z.eqb_eq in He. subst. apply in_map. exact Hin.
  - intros H. apply in_map_iff in H. destruct H as [p [He Hin]]. exists p. split; [auto|lia].
Qed.

Lemma pending_insert_In r l r' d :
  In (r', d) (pending_insert r l) <-> (r', d) = (r, false) \/ In (r', d) l.
Proof.
  induction l as [|[r0 d0] rest IH]; cbn [pending_insert].
  - cbn. intuition congruence.
  - destruct (r <? r0); cbn [In]; [intuition congruence|]. rewrite IH. intuition congruence.
Qed.

Lemma pending_insert_fst r l r' : In r' (map fst (pending_insert r l)) <-> r' = r \/ In r' (map fst l).
Proof.
  induction l as [|[r0 d0] rest IH]; cbn [pending_insert map fst In].
  - intuition.
  - destruct (r <? r0); cbn [map fst In]; [intuition|]. rewrite IH. intuition.
Qed.

Lemma pending_insert_sorted r l :
  StronglySorted Z.lt (map fst l) -> ~ In r (map fst l) -> StronglySorted Z.lt (map fst (pending_insert r l)).
Proof.
  induction l as [|[r0 d0] rest IH]; cbn [pending_insert map fst]; intros S N.
  - constructor; constructor.
  - inversion S as [|a b S' F]; subst.
    destruct (Z.ltb_spec r r0) as [Hlt|Hge]; cbn [map fst].
    + constructor; [exact S|]. constructor; [exact Hlt|].
      apply Forall_forall. intros y Hy. rewrite Forall_forall in F. specialize (F y Hy). lia.
    + cbn [In] in N. constructor; [apply IH; [exact S'|tauto]|].
      apply Forall_forall. intros y Hy. apply pending_insert_fst in Hy. destruct Hy as [->|Hy]; [lia|].
      rewrite Forall_forall in F. apply F. exact Hy.
Qed.

Lemma get_round_set_round s r ri r' :
  0 <= r -> get_round (set_round s r ri) r' = if r' =? r then Some ri else get_round s r'.
Proof.
  intros H. unfold get_round, set_round. destruct s; cbn. rewrite zget_zset, (Z.eqb_sym r').
  destruct (r =? r'); cbn [andb]; [|reflexivity]. replace (0 <=? r) with true by lia. reflexivity.
Qed.

Lemma add_created_decided ri x w : ri_decided (add_created ri x w) = ri_decided ri.
Proof. unfold add_created. destruct (aget x (ri_created ri)); [reflexivity|destruct ri; reflexivity]. Qed.

(** * DivideRounds *)
Lemma divide_queue_rinv s1 s' r ri x w :
  rinv s1 -> 0 <= r <= last_round s1 + 1 -> ri = round_or_new s1 r ->
  rstep (maybe_queue s1 r ri) s' ->
  rinv (set_round s' r (add_created ri x w)).
Proof.
  intros [A Bq] Hr Hri S.
  set (s2 := maybe_queue s1 r ri) in *.
  assert (E2 : rounds s2 = rounds s1 /\ last_round s2 = last_round s1 /\ last_consensus s2 = last_consensus s1 /\
               lower_bound s2 = lower_bound s1 /\ frames s2 = frames s1 /\ delivered s2 = delivered s1 /\
               round_memo s2 = round_memo s1).
  { subst s2. unfold maybe_queue. destruct (_ && _ && _); [destruct s1; cbn; auto 10|auto 10]. }
  destruct E2 as [E2r [E2l [E2c [E2b [E2f [E2d E2m]]]]]].
  assert (G2 : forall q, get_round s2 q = get_round s1 q) by (intros q; unfold get_round; rewrite E2r; reflexivity).
  assert (P2 : pending s2 = if negb (queued s1 r) && negb (ri_decided ri) then pending_insert r (pending s1) else pending s1).
  { subst s2. unfold maybe_queue. rewrite (r_lb s1 A). rewrite andb_true_r.
    destruct (negb (queued s1 r) && negb (ri_decided ri)); [destruct s1; reflexivity|reflexivity]. }
  assert (B1 : rounds_bounded s1) by (split; [apply (r_lr s1 A)|intros q Hq; apply (r_contig s1 A); exact Hq]).
  assert (B2 : rounds_bounded s2).
  { destruct B1 as [B10 B1]. split; [rewrite E2l; exact B10|]. intros q. rewrite G2, E2l. apply B1. }
  assert (M2 : memo_ok s2) by (intros y q; rewrite E2m, E2l; apply (r_memo s1 A)).
  pose proof (s_memo _ _ S B2 M2) as M'.
  set (F := set_round s' r (add_created ri x w)).
  assert (GF : forall q, get_round F q = if q =? r then Some (add_created ri x w) else get_round s' q)
    by (intros q; apply get_round_set_round; lia).
  assert (LF : last_round F = Z.max r (last_round s1)).
  { subst F. unfold set_round. rewrite <- E2l, <- (s_lr _ _ S). destruct s'; reflexivity. }
  assert (PF : pending F = pending s2) by (rewrite <- (s_pend _ _ S); subst F; destruct s'; reflexivity).
  assert (CF : last_consensus F = last_consensus s1) by (rewrite <- E2c, <- (s_lc _ _ S); subst F; destruct s'; reflexivity).
  assert (BF : lower_bound F = lower_bound s1) by (rewrite <- E2b, <- (s_lb _ _ S); subst F; destruct s'; reflexivity).
  assert (FF : frames F = frames s1) by (rewrite <- E2f, <- (s_fr _ _ S); subst F; destruct s'; reflexivity).
  assert (DF : delivered F = delivered s1) by (rewrite <- E2d, <- (s_del _ _ S); subst F; destruct s'; reflexivity).
  assert (MF : round_memo F = round_memo s') by (subst F; destruct s'; reflexivity).
  (* a round of s' and the corresponding round of s1 *)
  assert (Dom : forall q, get_round s' q = None <-> get_round s1 q = None) by (intros q; rewrite <- G2; apply (s_dom _ _ S)).
  assert (Dec : forall q a b, get_round s1 q = Some a -> get_round s' q = Some b -> ri_decided a = true -> ri_decided b = true).
  { intros q a b Ha Hb. rewrite <- G2 in Ha. apply (s_dec _ _ S _ _ _ Ha Hb). }
  assert (Hexist : forall a, get_round s1 r = Some a -> ri = a).
  { intros a Ha. rewrite Hri. unfold round_or_new. rewrite Ha. reflexivity. }
  assert (Hnew : get_round s1 r = None -> ri = new_rinfo /\ r = last_round s1 + 1 /\ ~ In r (prounds s1)).
  { intros Hn. split; [rewrite Hri; unfold round_or_new; rewrite Hn; reflexivity|]. split.
    - destruct (Z.eq_dec r (last_round s1 + 1)); [auto|exfalso].
      assert (Hc : get_round s1 r <> None) by (apply (r_contig s1 A); lia). congruence.
    - intros Hin. unfold prounds in Hin. apply in_map_iff in Hin. destruct Hin as [[q d] [Hq Hin]]. cbn in Hq. subst q.
      destruct (r_pend s1 A _ _ Hin) as [a [Ha _]]. congruence. }
  assert (Sub : forall q, In q (prounds s1) -> In q (map fst (pending s2))).
  { intros q Hq. rewrite P2. destruct (_ && _); [apply pending_insert_fst; right|]; exact Hq. }
  split; constructor.
  - rewrite BF. apply (r_lb s1 A).
  - rewrite LF. pose proof (r_lr s1 A). lia.
  - intros q. rewrite GF, LF. destruct (Z.eqb_spec q r) as [->|Hne].
    + split; [lia|discriminate].
    + split.
      * intros H. assert (H1 : get_round s1 q <> None) by (intros C; apply H; apply Dom; exact C).
        apply (r_contig s1 A) in H1. lia.
      * intros H C. apply Dom in C. revert C. apply (r_contig s1 A). lia.
  - intros y q. rewrite MF, LF. intros H. specialize (M' y q H). rewrite (s_lr _ _ S), E2l in M'. lia.
  - unfold prounds. rewrite PF, P2. destruct (negb (queued s1 r) && negb (ri_decided ri)) eqn:C; [|apply (r_sorted s1 A)].
    apply pending_insert_sorted; [apply (r_sorted s1 A)|].
    intros Hin. apply queued_In in Hin. rewrite Hin in C. discriminate.
  - intros q d. rewrite PF, P2, GF. intros Hin.
    assert (Hold : In (q, d) (pending s1) ->
              exists ri0, (if q =? r then Some (add_created ri x w) else get_round s' q) = Some ri0 /\ (d = true -> ri_decided ri0 = true)).
    { intros Ho. destruct (r_pend s1 A _ _ Ho) as [a [Ha Hd]]. destruct (Z.eqb_spec q r) as [->|Hne].
      - exists (add_created ri x w). split; [reflexivity|]. rewrite add_created_decided, (Hexist _ Ha). exact Hd.
      - destruct (get_round s' q) as [b|] eqn:Hb; [|apply Dom in Hb; congruence].
        exists b. split; [reflexivity|]. intros Hd'. eapply Dec; eauto. }
    destruct (negb (queued s1 r) && negb (ri_decided ri)); [|auto].
    apply pending_insert_In in Hin. destruct Hin as [Hin|Hin]; [|auto].
    inversion Hin; subst. rewrite Z.eqb_refl. eexists; split; [reflexivity|discriminate].
  - intros l. rewrite CF, LF. intros H. pose proof (r_lc s1 A l H). lia.
  - rewrite FF. apply (r_frames s1 A).
  - rewrite DF. apply (r_del_sorted s1 A).
  - intros d. rewrite DF, CF. apply (r_del_lc s1 A).
  - unfold prounds, lc_lt. rewrite PF, P2, CF. intros q.
    destruct (negb (queued s1 r) && negb (ri_decided ri)) eqn:C; [|apply (r_above s1 Bq)].
    intros Hin. apply pending_insert_fst in Hin. destruct Hin as [->|Hin]; [|apply (r_above s1 Bq); exact Hin].
    destruct (get_round s1 r) as [a|] eqn:Ha.
    + exfalso. rewrite (Hexist _ eq_refl) in C. destruct (r_q s1 Bq _ _ Ha) as [Hin|Hd].
      * apply queued_In in Hin. rewrite Hin in C. discriminate.
      * rewrite Hd in C. rewrite andb_false_r in C. discriminate.
    + destruct (Hnew eq_refl) as [_ [Hr' _]]. destruct (last_consensus s1) as [l|] eqn:Hl; [|exact I].
      pose proof (r_lc s1 A l Hl). lia.
  - intros q b. rewrite GF. unfold prounds. rewrite PF. destruct (Z.eqb_spec q r) as [->|Hne].
    + intros H; inversion H; subst b. rewrite add_created_decided.
      destruct (get_round s1 r) as [a|] eqn:Ha.
      * rewrite (Hexist _ eq_refl). destruct (r_q s1 Bq _ _ Ha) as [Hin|Hd]; [left; apply Sub; exact Hin|right; exact Hd].
      * destruct (Hnew eq_refl) as [Hn [_ Hq]]. left. rewrite P2.
        replace (queued s1 r) with false; [|symmetry; apply not_true_is_false; intros C; apply Hq, queued_In; exact C].
        rewrite Hn. cbn. apply pending_insert_fst. left; reflexivity.
    + intros Hb. destruct (get_round s1 q) as [a|] eqn:Ha; [|apply Dom in Ha; congruence].
      destruct (r_q s1 Bq _ _ Ha) as [Hin|Hd]; [left; apply Sub; exact Hin|right; eapply Dec; eauto].
Qed.

Lemma rinv_bounded st : rinv st -> rounds_bounded st /\ memo_ok st.
Proof.
  intros [A _]. split; [split; [apply (r_lr st A)|intros q Hq; apply (r_contig st A); exact Hq]|apply (r_memo st A)].
Qed.

(* a consensus pass either keeps the invariant or ends in the failed state (a store error), in
   which no later pass does anything *)
Definition rinv_f (st : hg) : Prop := failed st = true \/ rinv st.

Lemma failed_fail s : failed (fail s) = true.
Proof. destruct s; reflexivity. Qed.

Lemma divide_round_rinv st x : rinv st -> rinv_f (divide_round st x).
Proof.
  intros I. unfold divide_round.
  destruct (rinv_bounded st I) as [B M].
  pose proof (round_f_rstep (fuel_of st) st x) as Sr.
  destruct (round_f_memo (fuel_of st) st x B M) as [_ Hb].
  destruct (round_f (fuel_of st) st x) as [[r|] s]; cbn [fst snd] in *; [|left; apply failed_fail].
  cbv zeta. specialize (Hb r eq_refl).
  set (s1 := set_event_round s x r).
  assert (S1 : rstep s s1).
  { subst s1. unfold set_event_round. destruct (get_event s x); [apply rstep_rv, rv_set_evst|apply rstep_refl]. }
  assert (I1 : rinv s1) by (eapply rinv_rstep; [eapply rinv_rstep; eauto|exact S1]).
  assert (L1 : last_round s1 = last_round st) by (rewrite (s_lr _ _ S1); apply (s_lr _ _ Sr)).
  set (ri := round_or_new s1 r).
  pose proof (witness_f_rstep (fuel_of (maybe_queue s1 r ri)) (maybe_queue s1 r ri) x) as Sw.
  destruct (witness_f (fuel_of (maybe_queue s1 r ri)) (maybe_queue s1 r ri) x) as [[w|] s']; cbn [snd] in Sw;
    [|left; apply failed_fail].
  right. eapply divide_queue_rinv; eauto. rewrite L1. exact Hb.
Qed.

Lemma divide_lt_rinv st x : rinv st -> rinv (divide_lt st x).
Proof.
  intros I. unfold divide_lt.
  pose proof (lamport_f_rv (fuel_of st) st x) as E.
  destruct (lamport_f (fuel_of st) st x) as [[t|] s]; cbn [snd] in E.
  - unfold set_event_lt. destruct (get_event s x); [|eapply rinv_rstep; [exact I|apply rstep_rv; exact E]].
    eapply rinv_rstep; [exact I|]. apply rstep_rv. rewrite rv_set_evst. exact E.
  - eapply rinv_rstep; [exact I|]. apply rstep_rv. rewrite rv_fail. exact E.
Qed.

Lemma divide_one_rinv st x : rinv_f st -> rinv_f (divide_one st x).
Proof.
  intros I. unfold divide_one.
  destruct (failed st) eqn:Hf; [left; exact Hf|].
  destruct I as [I|I]; [congruence|].
  destruct (get_event st x) as [ev|]; [|left; apply failed_fail].
  cbv zeta.
  set (st1 := match ev_round ev with Some _ => st | None => divide_round st x end).
  assert (I1 : rinv_f st1).
  { subst st1; destruct (ev_round ev); [right; exact I|apply divide_round_rinv; exact I]. }
  destruct (failed st1) eqn:Hf1; [left; exact Hf1|].
  destruct I1 as [I1|I1]; [congruence|].
  destruct (get_event st1 x) as [ev1|]; [|left; apply failed_fail].
  destruct (ev_lt ev1); right; [exact I1|apply divide_lt_rinv; exact I1].
Qed.

Lemma divide_rounds_rinv st : rinv_f st -> rinv_f (divide_rounds st).
Proof.
  unfold divide_rounds. generalize (undetermined st). intros l. revert st.
  induction l as [|x l IH]; intros st I; cbn [fold_left]; [exact I|]. apply IH, divide_one_rinv, I.
Qed.

(** * DecideFame *)
Lemma set_fame_decided ri x f : ri_decided (set_fame ri x f) = ri_decided ri.
Proof. unfold set_fame. destruct (aget x (ri_created ri)) as [[w t]|]; destruct ri; reflexivity. Qed.

Lemma witnesses_decided_sticky ri ps : ri_decided ri = true -> ri_decided (snd (witnesses_decided ri ps)) = true.
Proof. unfold witnesses_decided. intros H. rewrite H. exact H. Qed.

Lemma witnesses_decided_true ri ps : fst (witnesses_decided ri ps) = true -> ri_decided (snd (witnesses_decided ri ps)) = true.
Proof.
  unfold witnesses_decided. destruct (ri_decided ri) eqn:Hd; [intros _; exact Hd|].
  destruct (existsb _ _); [discriminate|]. cbn [fst snd]. intros H. rewrite H. destruct ri; reflexivity.
Qed.

(* rewriting an existing RoundInfo without clearing its decided flag *)
Lemma set_round_existing_rstep s r ri ri' :
  rounds_bounded s -> get_round s r = Some ri -> (ri_decided ri = true -> ri_decided ri' = true) ->
  rstep s (set_round s r ri').
Proof.
  intros [B0 B] Hr Hd.
  assert (Hb : 0 <= r <= last_round s) by (apply B; congruence).
  assert (G : forall q, get_round (set_round s r ri') q = if q =? r then Some ri' else get_round s q)
    by (intros q; apply get_round_set_round; lia).
  constructor; try (destruct s; reflexivity).
  - unfold set_round. destruct s; cbn in *. lia.
  - intros q. rewrite G. destruct (Z.eqb_spec q r) as [->|]; [split; congruence|reflexivity].
  - intros q a b Ha. rewrite G. destruct (Z.eqb_spec q r) as [->|].
    + intros Hb'; inversion Hb'; subst. rewrite Hr in Ha. inversion Ha; subst. exact Hd.
    + intros Hb'. rewrite Ha in Hb'. inversion Hb'; subst. auto.
  - intros _ M x q. replace (round_memo (set_round s r ri')) with (round_memo s) by (destruct s; reflexivity).
    replace (last_round (set_round s r ri')) with (last_round s) by (unfold set_round; destruct s; cbn in *; lia).
    apply M.
Qed.

Lemma set_rounds_existing_rstep s r ri ri' :
  get_round s r = Some ri -> (ri_decided ri = true -> ri_decided ri' = true) ->
  rstep s (s <| rounds := zset r ri' (rounds s) |>).
Proof.
  intros Hr Hd.
  assert (H0 : 0 <= r) by (eapply zget_some_nonneg; exact Hr).
  assert (G : forall q, get_round (s <| rounds := zset r ri' (rounds s) |>) q = if q =? r then Some ri' else get_round s q).
  { intros q. unfold get_round. destruct s; cbn. rewrite zget_zset, (Z.eqb_sym q).
    destruct (r =? q); cbn [andb]; [|reflexivity]. replace (0 <=? r) with true by lia. reflexivity. }
  constructor; try (destruct s; reflexivity).
  - intros q. rewrite G. destruct (Z.eqb_spec q r) as [->|]; [split; congruence|reflexivity].
  - intros q a b Ha. rewrite G. destruct (Z.eqb_spec q r) as [->|].
    + intros Hb'; inversion Hb'; subst. rewrite Hr in Ha. inversion Ha; subst. exact Hd.
    + intros Hb'. rewrite Ha in Hb'. inversion Hb'; subst. auto.
  - intros _ M. destruct s; exact M.
Qed.

Lemma fame_fold_decided s r ws : forall ri ri',
  fold_left (fun (a : option rinfo) x =>
     match a with
     | None => None
     | Some ri' =>
       if is_decided ri' x then Some ri'
       else match fame_of s x r with
            | None => None
            | Some None => Some ri'
            | Some (Some v) => Some (set_fame ri' x v)
            end
     end) ws (Some ri) = Some ri' -> ri_decided ri' = ri_decided ri.
Proof.
  induction ws as [|x ws IH]; intros ri ri'; cbn [fold_left].
  - intros H; inversion H; reflexivity.
  - destruct (is_decided ri x); [apply IH|].
    destruct (fame_of s x r) as [[v|]|].
    + intros H. rewrite (IH _ _ H). apply set_fame_decided.
    + apply IH.
    + clear IH. intros H. exfalso. induction ws as [|y ws IHw]; cbn [fold_left] in H; [discriminate|auto].
Qed.

Definition all_decided (s : hg) (dec : list Z) : Prop :=
  forall q, In q dec -> exists ri, get_round s q = Some ri /\ ri_decided ri = true.

Lemma all_decided_rstep s s' dec : rstep s s' -> all_decided s dec -> all_decided s' dec.
Proof.
  intros S H q Hq. destruct (H q Hq) as [ri [Hr Hd]].
  destruct (get_round s' q) as [ri'|] eqn:H'; [|apply (s_dom _ _ S) in H'; congruence].
  exists ri'. split; [reflexivity|]. eapply (s_dec _ _ S); eauto.
Qed.

Lemma decide_fame_round_rstep s dec pr :
  rounds_bounded s -> all_decided s dec ->
  rstep s (fst (decide_fame_round (s, dec) pr)) /\
  all_decided (fst (decide_fame_round (s, dec) pr)) (snd (decide_fame_round (s, dec) pr)).
Proof.
  intros B AD. unfold decide_fame_round.
  destruct (failed s); [split; [apply rstep_refl|exact AD]|].
  assert (Ff : rstep s (fail s)) by apply rstep_rv, rv_fail.
  destruct (get_round s (fst pr)) as [ri|] eqn:Hri; [|split; [exact Ff|eapply all_decided_rstep; eauto]].
  destruct (get_peerset s (fst pr)) as [rps|]; [|split; [exact Ff|eapply all_decided_rstep; eauto]].
  match goal with |- context [fold_left ?f ?l ?a] => destruct (fold_left f l a) as [ri'|] eqn:Ef end;
    [|split; [exact Ff|eapply all_decided_rstep; eauto]].
  apply fame_fold_decided in Ef.
  pose proof (witnesses_decided_sticky ri' rps) as St. pose proof (witnesses_decided_true ri' rps) as Tr.
  destruct (witnesses_decided ri' rps) as [d ri'']. cbn [fst snd] in *.
  assert (S : rstep s (set_round s (fst pr) ri'')).
  { eapply set_round_existing_rstep; eauto; intros H; apply St; congruence. }
  split; [exact S|].
  destruct d; [|eapply all_decided_rstep; eauto].
  intros q Hq. apply in_app_or in Hq. destruct Hq as [Hq|[<-|[]]]; [eapply all_decided_rstep; eauto|].
  exists ri''. split; [|apply Tr; reflexivity].
  destruct B as [B0 B]. assert (0 <= fst pr) by (apply B; congruence).
  rewrite get_round_set_round by lia. rewrite Z.eqb_refl. reflexivity.
Qed.

Lemma rinv_mark s dec :
  rinv s -> all_decided s dec ->
  rinv (s <| pending := map (fun p => if existsb (Z.eqb (fst p)) dec then (fst p, true) else p) (pending s) |>).
Proof.
  intros [A B] AD.
  set (mk := fun p : Z * bool => if existsb (Z.eqb (fst p)) dec then (fst p, true) else p).
  set (s' := s <| pending := map mk (pending s) |>).
  assert (Hfst : prounds s' = prounds s).
  { unfold prounds. replace (pending s') with (map mk (pending s)) by (destruct s; reflexivity).
    rewrite map_map. apply map_ext. intros p. unfold mk. destruct (existsb _ _); reflexivity. }
  assert (G : forall q, get_round s' q = get_round s q) by (intros q; destruct s; reflexivity).
  split; constructor.
  - replace (lower_bound s') with (lower_bound s) by (destruct s; reflexivity). apply (r_lb s A).
  - replace (last_round s') with (last_round s) by (destruct s; reflexivity). apply (r_lr s A).
  - intros q. rewrite G. replace (last_round s') with (last_round s) by (destruct s; reflexivity). apply (r_contig s A).
  - pose proof (r_memo s A) as M. destruct s; exact M.
  - rewrite Hfst. apply (r_sorted s A).
  - intros q d. replace (pending s') with (map mk (pending s)) by (destruct s; reflexivity).
    intros Hin. apply in_map_iff in Hin. destruct Hin as [[q0 d0] [Hm Hin]]. rewrite G.
    unfold mk in Hm. cbn [fst] in Hm. destruct (existsb (Z.eqb q0) dec) eqn:Ex.
    + inversion Hm; subst. apply existsb_exists in Ex. destruct Ex as [y [Hy He]]. apply Z.eqb_eq in He. subst y.
      destruct (AD _ Hy) as [ri [Hr Hd]]. exists ri. auto.
    + inversion Hm; subst. apply (r_pend s A _ _ Hin).
  - replace (last_consensus s') with (last_consensus s) by (destruct s; reflexivity).
    replace (last_round s') with (last_round s) by (destruct s; reflexivity). apply (r_lc s A).
  - replace (frames s') with (frames s) by (destruct s; reflexivity). apply (r_frames s A).
  - replace (delivered s') with (delivered s) by (destruct s; reflexivity). apply (r_del_sorted s A).
  - replace (delivered s') with (delivered s) by (destruct s; reflexivity).
    replace (last_consensus s') with (last_consensus s) by (destruct s; reflexivity). apply (r_del_lc s A).
  - rewrite Hfst. unfold lc_lt. replace (last_consensus s') with (last_consensus s) by (destruct s; reflexivity).
    apply (r_above s B).
  - intros q ri. rewrite G, Hfst. apply (r_q s B).
Qed.

Lemma decide_fame_rinv st : rinv st -> rinv (decide_fame st).
Proof.
  intros I. unfold decide_fame.
  assert (G : forall l s dec, rinv s -> all_decided s dec ->
              rinv (fst (fold_left decide_fame_round l (s, dec))) /\
              all_decided (fst (fold_left decide_fame_round l (s, dec))) (snd (fold_left decide_fame_round l (s, dec)))).
  { induction l as [|pr l IH]; intros s dec Is AD; cbn [fold_left]; [auto|].
    destruct (decide_fame_round_rstep s dec pr (proj1 (rinv_bounded s Is)) AD) as [S AD'].
    destruct (decide_fame_round (s, dec) pr) as [s' dec']. cbn [fst snd] in *.
    apply IH; [eapply rinv_rstep; eauto|exact AD']. }
  specialize (G (pending st) st [] I ltac:(intros q [])).
  destruct (fold_left decide_fame_round (pending st) (st, [])) as [s decided]. cbn [fst snd] in G.
  destruct G as [Is AD]. destruct (failed s); [exact Is|]. apply rinv_mark; assumption.
Qed.

(** * DecideRoundReceived *)
Lemma rr_loop_rstep x : forall is_ st, rounds_bounded st -> rstep st (fst (rr_loop st x is_)).
Proof.
  induction is_ as [|i rest IH]; intros st B; cbn [rr_loop]; [apply rstep_refl|].
  destruct (get_round st i) as [tr|] eqn:Htr;
    [|destruct (lower_bound st) as [lb0|]; [destruct (i <=? lb0); [apply IH; exact B|apply rstep_refl]|apply rstep_refl]].
  destruct (get_peerset st i) as [tps|]; [|apply rstep_rv, rv_fail].
  pose proof (witnesses_decided_sticky tr tps) as St.
  destruct (witnesses_decided tr tps) as [d tr']. cbn [snd] in St.
  set (st1 := st <| rounds := zset i tr' (rounds st) |>).
  assert (F1 : rstep st st1) by (eapply set_rounds_existing_rstep; eauto).
  assert (B1 : rounds_bounded st1) by (eapply rounds_bounded_rstep; eauto).
  assert (H0 : 0 <= i) by (eapply zget_some_nonneg; exact Htr).
  assert (G1 : get_round st1 i = Some tr').
  { unfold get_round. subst st1. destruct st; cbn. apply zget_zset_same. exact H0. }
  destruct d; cbn [negb].
  - match goal with |- context [fold_left ?f ?l ?a] => destruct (fold_left f l a) as [sees|] end;
      [|cbn [fst]; rstep_chain; apply rstep_rv, rv_fail].
    destruct (_ && _).
    + destruct (get_event st1 x) as [ex|]; cbn [fst]; rstep_chain; [|apply rstep_rv, rv_fail].
      set (st2 := set_evst st1 x _).
      assert (F2 : rstep st1 st2) by apply rstep_rv, rv_set_evst.
      rstep_chain. eapply set_round_existing_rstep.
      * eapply rounds_bounded_rstep; eauto.
      * subst st2. unfold get_round, set_evst in *. destruct st1; cbn in *. exact G1.
      * destruct tr'; cbn. auto.
    + rstep_chain. apply IH. exact B1.
  - destruct (lower_bound st1) as [lb|]; [|exact F1].
    destruct (lb <? i); [exact F1|]. rstep_chain. apply IH. exact B1.
Qed.

Lemma decide_rr_one_rstep s und x : rounds_bounded s -> rstep s (fst (decide_rr_one (s, und) x)).
Proof.
  intros B. unfold decide_rr_one.
  destruct (failed s); [apply rstep_refl|].
  pose proof (round_f_rstep (fuel_of s) s x) as Fr.
  destruct (round_f (fuel_of s) s x) as [[r|] s1]; cbn [snd] in Fr; [|cbn [fst]; rstep_chain; apply rstep_rv, rv_fail].
  assert (B1 : rounds_bounded s1) by (eapply rounds_bounded_rstep; eauto).
  pose proof (rr_loop_rstep x (zrange (r + 1) (last_round s1)) s1 B1) as Fl.
  destruct (rr_loop s1 x (zrange (r + 1) (last_round s1))) as [s' received]. cbn [fst] in *.
  rstep_chain. apply rstep_refl.
Qed.

Lemma decide_round_received_rstep st : rounds_bounded st -> rstep st (decide_round_received st).
Proof.
  intros B. unfold decide_round_received.
  assert (G : forall l s und, rounds_bounded s -> rstep s (fst (fold_left decide_rr_one l (s, und)))).
  { induction l as [|x l IH]; intros s und Bs; cbn [fold_left]; [apply rstep_refl|].
    pose proof (decide_rr_one_rstep s und x Bs) as S.
    destruct (decide_rr_one (s, und) x) as [s' und']. cbn [fst] in S.
    eapply rstep_trans; [exact S|apply IH]. eapply rounds_bounded_rstep; eauto. }
  specialize (G (undetermined st) st [] B).
  destruct (fold_left decide_rr_one (undetermined st) (st, [])) as [s und]. cbn [fst] in G.
  destruct (failed s); [exact G|]. eapply rstep_trans; [exact G|apply rstep_rv, rv_set_undetermined].
Qed.

(** * ProcessDecidedRounds: commit leaves the round table and the queue alone *)
Lemma cv_store_set_block st b : cv (store_set_block st b) = cv st.
Proof. destruct st; reflexivity. Qed.
Lemma cv_deliver st b : cv (deliver st b) = cv st.
Proof. destruct st; reflexivity. Qed.
Lemma cv_set_anchor_block st b : cv (set_anchor_block st b) = cv st.
Proof.
  unfold set_anchor_block. destruct (get_peerset st (b_rr b)); [|reflexivity].
  destruct (_ && _); [destruct st; reflexivity|reflexivity].
Qed.
Lemma cv_set_peerset st r ps st' : set_peerset st r ps = Some st' -> cv st' = cv st.
Proof.
  unfold set_peerset. destruct (existsb _ _); [discriminate|]. intros H; inversion H; clear H.
  match goal with |- cv (fold_left ?f ps ?s0) = _ =>
    assert (G : forall l s, cv (fold_left f l s) = cv s) end.
  { induction l as [|p l IH]; intros s; cbn [fold_left]; [reflexivity|]. rewrite IH.
    destruct (zmem _ _); destruct s; reflexivity. }
  rewrite G. destruct st; reflexivity.
Qed.
Lemma cv_process_receipts st rr itxs : cv (process_receipts st rr itxs) = cv st.
Proof.
  unfold process_receipts.
  match goal with |- context [fold_left ?f ?l ?a] => destruct (fold_left f l a) as [vals changed] end.
  destruct changed; [|reflexivity].
  destruct (set_peerset st (rr + 6) vals) eqn:E; [|reflexivity].
  apply cv_set_peerset in E. rewrite <- E. destruct h; reflexivity.
Qed.
Lemma cv_sign_block st b bps : cv (snd (sign_block st b bps)) = cv st.
Proof. unfold sign_block. destruct (mem_key _ _); cbn [snd]; [destruct st; reflexivity|reflexivity]. Qed.
Lemma sign_block_rr st b bps : b_rr (fst (sign_block st b bps)) = b_rr b.
Proof. unfold sign_block. destruct (mem_key _ _); cbn [fst]; [destruct b; reflexivity|reflexivity]. Qed.
Lemma delivered_sign_block st b bps : delivered (snd (sign_block st b bps)) = delivered st.
Proof. unfold sign_block. destruct (mem_key _ _); cbn [snd]; [destruct st; reflexivity|reflexivity]. Qed.

Lemma delivered_bl st st' : bl st' = bl st -> delivered st' = delivered st.
Proof. unfold bl. intros H. inversion H. reflexivity. Qed.

Lemma commit_cv st b : cv (commit st b) = cv st.
Proof.
  unfold commit. destruct (self st =? -1); [apply cv_deliver|]. cbv zeta.
  set (st0 := st <| oracle := _ |>).
  assert (F0 : cv st0 = cv st) by (destruct st; reflexivity).
  match goal with |- context [store_set_block st0 ?b1] => set (bb := b1) end.
  pose proof (cv_store_set_block st0 bb) as F1.
  destruct (get_peerset (store_set_block st0 bb) (b_rr bb)) as [bps|].
  - pose proof (cv_sign_block (store_set_block st0 bb) bb bps) as F2.
    destruct (sign_block (store_set_block st0 bb) bb bps) as [b2 st2]. cbn [fst snd] in *.
    rewrite cv_deliver, cv_process_receipts, cv_set_anchor_block. congruence.
  - rewrite cv_deliver. congruence.
Qed.

Lemma commit_delivered st b : exists bf, delivered (commit st b) = delivered st ++ [bf] /\ b_rr bf = b_rr b.
Proof.
  unfold commit. destruct (self st =? -1); [exists b; split; [destruct st; reflexivity|reflexivity]|]. cbv zeta.
  set (st0 := st <| oracle := _ |>).
  assert (F0 : delivered st0 = delivered st) by (destruct st; reflexivity).
  match goal with |- context [store_set_block st0 ?b1] => set (bb := b1) end.
  assert (Rb : b_rr bb = b_rr b) by (subst bb; destruct b; reflexivity).
  pose proof (delivered_store st0 bb) as F1.
  destruct (get_peerset (store_set_block st0 bb) (b_rr bb)) as [bps|].
  - pose proof (delivered_sign_block (store_set_block st0 bb) bb bps) as F2.
    pose proof (sign_block_rr (store_set_block st0 bb) bb bps) as R2.
    destruct (sign_block (store_set_block st0 bb) bb bps) as [b2 st2]. cbn [fst snd] in *.
    exists b2. split; [|congruence].
    pose proof (delivered_bl _ _ (process_receipts_bl (set_anchor_block st2 b2) (b_rr b2) (b_itxs b2))) as F4.
    pose proof (delivered_bl _ _ (set_anchor_block_bl st2 b2)) as F3.
    match goal with |- delivered (deliver ?s ?d) = _ => change (delivered (deliver s d)) with (delivered s ++ [d]) end.
    congruence.
  - exists bb. split; [|exact Rb].
    match goal with |- delivered (deliver ?s ?d) = _ => change (delivered (deliver s d)) with (delivered s ++ [d]) end.
    congruence.
Qed.

Lemma cv_add_consensus_events l : forall s, cv (fold_left add_consensus_event l s) = cv s.
Proof. induction l as [|fe l IH]; intros s; cbn [fold_left]; [reflexivity|]. rewrite IH. destruct s; reflexivity. Qed.

Lemma process_frame_cv s f : cv (process_frame s f) = cv s.
Proof.
  unfold process_frame. destruct (f_events f) as [|fe rest]; [reflexivity|]. cbv zeta.
  set (s1 := fold_left add_consensus_event (fe :: rest) s).
  assert (E1 : cv s1 = cv s) by apply cv_add_consensus_events.
  set (b := block_of_frame _ _ _).
  destruct (b_txs b), (b_itxs b); try exact E1; rewrite commit_cv, cv_store_set_block; exact E1.
Qed.

Lemma process_frame_delivered s f :
  delivered (process_frame s f) = delivered s \/
  exists bf, delivered (process_frame s f) = delivered s ++ [bf] /\ b_rr bf = f_round f.
Proof.
  unfold process_frame. destruct (f_events f) as [|fe rest]; [left; reflexivity|]. cbv zeta.
  set (s1 := fold_left add_consensus_event (fe :: rest) s).
  assert (E1 : delivered s1 = delivered s) by (apply delivered_bl, add_consensus_events_bl).
  set (b := block_of_frame _ _ _).
  assert (Rb : b_rr b = f_round f) by reflexivity.
  assert (C : exists bf, delivered (commit (store_set_block s1 b) b) = delivered s ++ [bf] /\ b_rr bf = f_round f).
  { destruct (commit_delivered (store_set_block s1 b) b) as [bf [Hd Hr]]. exists bf.
    rewrite Hd, delivered_store, E1. split; [reflexivity|congruence]. }
  destruct (b_txs b), (b_itxs b); auto.
Qed.

(* GetFrame: the frame of round rr, cached under rr *)
Lemma get_frame_spec st rr f s :
  (forall q g, zget q (frames st) = Some g -> f_round g = q) ->
  get_frame st rr = (Some f, s) ->
  f_round f = rr /\ delivered s = delivered st /\
  rounds s = rounds st /\ last_round s = last_round st /\ pending s = pending st /\
  last_consensus s = last_consensus st /\ lower_bound s = lower_bound st /\ round_memo s = round_memo st /\
  (forall q g, zget q (frames s) = Some g -> f_round g = q).
Proof.
  intros HF. unfold get_frame.
  destruct (zget rr (frames st)) as [g|] eqn:Hg.
  { intros H; inversion H; subst. split; [eapply HF; eauto|]. auto 10. }
  destruct (get_round st rr); [|discriminate].
  destruct (get_peerset st rr); [|discriminate].
  match goal with |- context [fold_left ?f ?l ?a] => destruct (fold_left f l a) end; [|discriminate].
  match goal with |- context [fold_left ?f (repertoire st) ?a] => destruct (fold_left f (repertoire st) a) end;
    [|discriminate].
  intros H; inversion H; subst; clear H. cbn [f_round]. split; [reflexivity|].
  repeat (split; [destruct st; reflexivity|]).
  assert (Fm : forall m, frames (st <| frames := m |>) = m) by (intros; destruct st; reflexivity).
  intros q g. rewrite Fm.
  rewrite zget_zset. destruct ((rr =? q) && (0 <=? rr)) eqn:E; [|apply HF].
  intros Hq; inversion Hq; subst. cbn. lia.
Qed.

Lemma get_frame_none st rr s : get_frame st rr = (None, s) -> s = st.
Proof.
  unfold get_frame.
  destruct (zget rr (frames st)); [discriminate|].
  destruct (get_round st rr); [|intros H; inversion H; reflexivity].
  destruct (get_peerset st rr); [|intros H; inversion H; reflexivity].
  match goal with |- context [fold_left ?f ?l ?a] => destruct (fold_left f l a) end; [|intros H; inversion H; reflexivity].
  match goal with |- context [fold_left ?f (repertoire st) ?a] => destruct (fold_left f (repertoire st) a) end;
    [discriminate|intros H; inversion H; reflexivity].
Qed.

Definition pkeep (s s' : hg) : Prop :=
  rounds s' = rounds s /\ last_round s' = last_round s /\ pending s' = pending s /\
  lower_bound s' = lower_bound s /\ round_memo s' = round_memo s.

Lemma pkeep_refl s : pkeep s s.
Proof. unfold pkeep; auto. Qed.
Lemma pkeep_trans a b c : pkeep a b -> pkeep b c -> pkeep a c.
Proof. unfold pkeep. intros [A1 [A2 [A3 [A4 A5]]]] [B1 [B2 [B3 [B4 B5]]]]. repeat split; congruence. Qed.

Lemma rinvA_update s s' :
  rinvA s -> pkeep s s' ->
  (forall q g, zget q (frames s') = Some g -> f_round g = q) ->
  (forall l, last_consensus s' = Some l -> l <= last_round s) ->
  StronglySorted Z.lt (map b_rr (delivered s')) ->
  (forall d, In d (delivered s') -> exists l, last_consensus s' = Some l /\ b_rr d <= l) ->
  rinvA s'.
Proof.
  intros A [K1 [K2 [K3 [K4 K5]]]] HF HL HS HD.
  assert (G : forall q, get_round s' q = get_round s q) by (intros q; unfold get_round; rewrite K1; reflexivity).
  constructor.
  - rewrite K4. apply (r_lb s A).
  - rewrite K2. apply (r_lr s A).
  - intros q. rewrite G, K2. apply (r_contig s A).
  - intros x q. rewrite K5, K2. apply (r_memo s A).
  - unfold prounds. rewrite K3. apply (r_sorted s A).
  - intros q d. rewrite K3, G. apply (r_pend s A).
  - intros l. rewrite K2. apply HL.
  - exact HF.
  - exact HS.
  - exact HD.
Qed.

Lemma StronglySorted_app_one l x :
  StronglySorted Z.lt l -> (forall y, In y l -> y < x) -> StronglySorted Z.lt (l ++ [x]).
Proof.
  induction l as [|a l IH]; intros S H; cbn [app]; [constructor; constructor|].
  inversion S as [|a' l' S' F]; subst. constructor.
  - apply IH; [exact S'|]. intros y Hy. apply H. right; exact Hy.
  - apply Forall_forall. intros y Hy. apply in_app_or in Hy. destruct Hy as [Hy|[<-|[]]].
    + rewrite Forall_forall in F. apply F. exact Hy.
    + apply H. left; reflexivity.
Qed.

Lemma pkeep_cv s s' : cv s' = cv s -> pkeep s s'.
Proof. unfold cv, pkeep. intros H. inversion H. auto. Qed.

Lemma bump_lc s r : lc_lt s r -> last_consensus (bump_last_consensus s r) = Some r.
Proof.
  unfold bump_last_consensus, lc_lt. destruct (last_consensus s) as [l|]; [|intros _; destruct s; reflexivity].
  intros H. replace (l <? r) with true by lia. destruct s; reflexivity.
Qed.
Lemma bump_keep s r :
  pkeep s (bump_last_consensus s r) /\ frames (bump_last_consensus s r) = frames s /\
  delivered (bump_last_consensus s r) = delivered s.
Proof.
  unfold bump_last_consensus, pkeep. destruct (last_consensus s) as [l|]; [destruct (l <? r)|];
    destruct s; cbn; auto 10.
Qed.

Lemma process_round_spec s p stop pr :
  rinvA s -> lc_lt s (fst pr) ->
  rinvA (fst (fst (process_round (s, p, stop) pr))) /\
  pkeep s (fst (fst (process_round (s, p, stop) pr))) /\
  ((snd (fst (process_round (s, p, stop) pr)) = p /\
    last_consensus (fst (fst (process_round (s, p, stop) pr))) = last_consensus s /\
    (snd (process_round (s, p, stop) pr) = true \/ failed (fst (fst (process_round (s, p, stop) pr))) = true)) \/
   (snd (fst (process_round (s, p, stop) pr)) = p ++ [fst pr] /\ snd pr = true /\
    last_consensus (fst (fst (process_round (s, p, stop) pr))) = Some (fst pr))).
Proof.
  intros A Hlt. unfold process_round.
  assert (Afail : forall s0, rinvA s0 -> rinvA (fail s0)).
  { intros s0 A0. eapply rinvA_rstep; [exact A0|apply rstep_rv, rv_fail]. }
  assert (Kfail : forall s0, pkeep s0 (fail s0)) by (intros s0; apply pkeep_cv; destruct s0; reflexivity).
  assert (Lfail : forall s0, last_consensus (fail s0) = last_consensus s0) by (intros s0; destruct s0; reflexivity).
  destruct (stop || failed s) eqn:Hstop.
  { cbn [fst snd]. split; [exact A|]. split; [apply pkeep_refl|]. left. split; [reflexivity|]. split; [reflexivity|].
    destruct stop; [left; reflexivity|right; exact Hstop]. }
  destruct (snd pr) eqn:Hd; cbn [negb].
  2:{ cbn [fst snd]. split; [exact A|]. split; [apply pkeep_refl|]. left. auto. }
  destruct (get_round s (fst pr)) as [ri|] eqn:Hri.
  2:{ cbn [fst snd]. split; [apply Afail, A|]. split; [apply Kfail|]. left. split; [reflexivity|]. split; [apply Lfail|left; reflexivity]. }
  destruct (get_frame s (fst pr)) as [[f|] s1] eqn:Hgf.
  2:{ apply get_frame_none in Hgf. subst s1. cbn [fst snd]. split; [apply Afail, A|]. split; [apply Kfail|]. left.
      split; [reflexivity|]. split; [apply Lfail|left; reflexivity]. }
  destruct (get_frame_spec s (fst pr) f s1 (r_frames s A) Hgf) as [Hfr [Hd1 [K1 [K2 [K3 [Hc1 [K4 [K5 HF1]]]]]]]].
  cbn [fst snd].
  set (r := fst pr) in *. set (s2 := process_frame s1 f).
  pose proof (process_frame_cv s1 f) as C2. fold s2 in C2.
  assert (K12 : pkeep s s2).
  { eapply pkeep_trans; [|apply pkeep_cv; exact C2]. unfold pkeep; auto. }
  assert (Lc2 : last_consensus s2 = last_consensus s).
  { unfold cv in C2. inversion C2. congruence. }
  assert (Fr2 : frames s2 = frames s1) by (unfold cv in C2; inversion C2; congruence).
  set (s3 := bump_last_consensus s2 r).
  assert (Lc3 : last_consensus s3 = Some r).
  { subst s3. apply bump_lc. unfold lc_lt in *. rewrite Lc2. exact Hlt. }
  destruct (bump_keep s2 r) as [K23 [Fr3 Dl3]]. fold s3 in K23, Fr3, Dl3.
  assert (Hrb : r <= last_round s) by (apply (r_contig s A); congruence).
  assert (Hprev : forall d, In d (delivered s) -> b_rr d < r).
  { intros d Hin. destruct (r_del_lc s A d Hin) as [l [Hl Hle]]. unfold lc_lt in Hlt. rewrite Hl in Hlt. lia. }
  split; [|split; [eapply pkeep_trans; eauto|right; auto]].
  eapply rinvA_update; [exact A|eapply pkeep_trans; eauto| | | |].
  - rewrite Fr3, Fr2. exact HF1.
  - intros l. rewrite Lc3. intros H; inversion H; subst. exact Hrb.
  - rewrite Dl3. destruct (process_frame_delivered s1 f) as [E|[bf [E Hb]]]; fold s2 in E; rewrite E, Hd1.
    + apply (r_del_sorted s A).
    + rewrite map_app. cbn [map]. apply StronglySorted_app_one; [apply (r_del_sorted s A)|].
      intros y Hy. apply in_map_iff in Hy. destruct Hy as [d [<- Hin]]. rewrite Hb, Hfr. apply Hprev; exact Hin.
  - intros d. rewrite Dl3, Lc3. intros Hin. exists r. split; [reflexivity|].
    destruct (process_frame_delivered s1 f) as [E|[bf [E Hb]]]; fold s2 in E; rewrite E, Hd1 in Hin.
    + specialize (Hprev d Hin). lia.
    + apply in_app_or in Hin. destruct Hin as [Hin|[<-|[]]]; [specialize (Hprev d Hin); lia|]. rewrite Hb, Hfr. lia.
Qed.

Lemma process_fold_stopped l : forall s p stop,
  stop = true \/ failed s = true -> fold_left process_round l (s, p, stop) = (s, p, stop).
Proof.
  induction l as [|pr l IH]; intros s p stop H; cbn [fold_left]; [reflexivity|].
  assert (E : process_round (s, p, stop) pr = (s, p, stop)).
  { unfold process_round. destruct H as [->| ->]; [reflexivity|rewrite orb_true_r; reflexivity]. }
  rewrite E. apply IH. exact H.
Qed.

Lemma process_fold_spec l : forall s p stop,
  rinvA s -> StronglySorted Z.lt (map fst l) -> (forall r, In r (map fst l) -> lc_lt s r) ->
  let res := fold_left process_round l (s, p, stop) in
  rinvA (fst (fst res)) /\ pkeep s (fst (fst res)) /\
  (forall r, In r (map fst l) -> In r (snd (fst res)) \/ lc_lt (fst (fst res)) r) /\
  (forall r, In r (snd (fst res)) -> In r p \/ In (r, true) l) /\
  (forall r, In r p -> In r (snd (fst res))).
Proof.
  induction l as [|pr l IH]; intros s p stop A S Hab; cbn [fold_left].
  - cbn [fst snd]. split; [exact A|]. split; [apply pkeep_refl|]. split; [intros r []|]. split; auto.
  - cbv zeta. inversion S as [|a b S' Fa]; subst.
    assert (Hpr : lc_lt s (fst pr)) by (apply Hab; left; reflexivity).
    destruct (process_round_spec s p stop pr A Hpr) as [A1 [K1 C]].
    destruct (process_round (s, p, stop) pr) as [[s1 p1] stop1] eqn:E. cbn [fst snd] in *.
    destruct C as [[-> [Hlc Hs]]|[-> [Hd Hlc]]].
    + rewrite (process_fold_stopped l s1 p stop1 Hs). cbn [fst snd].
      split; [exact A1|]. split; [exact K1|]. split; [|split; auto].
      intros r Hr. right. unfold lc_lt. rewrite Hlc. apply Hab. exact Hr.
    + assert (Hab1 : forall r, In r (map fst l) -> lc_lt s1 r).
      { intros r Hr. unfold lc_lt. rewrite Hlc. rewrite Forall_forall in Fa. apply Fa. exact Hr. }
      destruct (IH s1 (p ++ [fst pr]) stop1 A1 S' Hab1) as [A2 [K2 [H1 [H2 H3]]]].
      split; [exact A2|]. split; [eapply pkeep_trans; eauto|]. split; [|split].
      * intros r [<-|Hr]; [left; apply H3; apply in_or_app; right; left; reflexivity|apply H1; exact Hr].
      * intros r Hr. destruct (H2 r Hr) as [Hin|Hin]; [|right; right; exact Hin].
        apply in_app_or in Hin. destruct Hin as [Hin|[<-|[]]]; [left; exact Hin|right; left].
        destruct pr; cbn in *; congruence.
      * intros r Hr. apply H3. apply in_or_app. left; exact Hr.
Qed.

Lemma sorted_filter_fst (f : Z * bool -> bool) l :
  StronglySorted Z.lt (map fst l) -> StronglySorted Z.lt (map fst (filter f l)).
Proof.
  induction l as [|a l IH]; intros S; cbn [filter map]; [constructor|].
  inversion S as [|a' l' S' F]; subst. destruct (f a); [|apply IH; exact S'].
  cbn [map]. constructor; [apply IH; exact S'|].
  apply Forall_forall. intros y Hy. rewrite Forall_forall in F. apply F.
  apply in_map_iff in Hy. destruct Hy as [q [<- Hq]]. apply filter_In in Hq. apply in_map. apply Hq.
Qed.

Lemma process_decided_rounds_rinv st : rinv st -> rinv (process_decided_rounds st).
Proof.
  intros [A B]. unfold process_decided_rounds.
  pose proof (process_fold_spec (pending st) st [] false A (r_sorted st A) (r_above st B)) as G. cbv zeta in G.
  destruct (fold_left process_round (pending st) (st, [], false)) as [[s processed] stop]. cbn [fst snd] in G.
  destruct G as [As [[K1 [K2 [K3 [K4 K5]]]] [H1 [H2 _]]]].
  set (flt := fun p : Z * bool => negb (existsb (Z.eqb (fst p)) processed)).
  set (s' := s <| pending := filter flt (pending s) |>).
  assert (Gs : forall q, get_round s q = get_round st q) by (intros q; unfold get_round; rewrite K1; reflexivity).
  assert (G : forall q, get_round s' q = get_round s q) by (intros q; destruct s; reflexivity).
  assert (P : pending s' = filter flt (pending st)) by (rewrite <- K3; destruct s; reflexivity).
  assert (Hproc : forall q, In q processed <-> existsb (Z.eqb q) processed = true).
  { intros q. rewrite existsb_exists. split; [intros H; exists q; split; [auto|lia]|].
    intros [y [Hy He]]. apply Z.eqb_eq in He. subst. exact Hy. }
  split; constructor.
  - replace (lower_bound s') with (lower_bound s) by (destruct s; reflexivity). apply (r_lb s As).
  - replace (last_round s') with (last_round s) by (destruct s; reflexivity). apply (r_lr s As).
  - intros q. rewrite G. replace (last_round s') with (last_round s) by (destruct s; reflexivity). apply (r_contig s As).
  - pose proof (r_memo s As) as M. destruct s; exact M.
  - unfold prounds. rewrite P. apply sorted_filter_fst. apply (r_sorted st A).
  - intros q d. rewrite P, G. intros Hin. apply filter_In in Hin. destruct Hin as [Hin _].
    rewrite <- K3 in Hin. apply (r_pend s As _ _ Hin).
  - replace (last_consensus s') with (last_consensus s) by (destruct s; reflexivity).
    replace (last_round s') with (last_round s) by (destruct s; reflexivity). apply (r_lc s As).
  - replace (frames s') with (frames s) by (destruct s; reflexivity). apply (r_frames s As).
  - replace (delivered s') with (delivered s) by (destruct s; reflexivity). apply (r_del_sorted s As).
  - replace (delivered s') with (delivered s) by (destruct s; reflexivity).
    replace (last_consensus s') with (last_consensus s) by (destruct s; reflexivity). apply (r_del_lc s As).
  - unfold prounds. rewrite P. intros q Hq. apply in_map_iff in Hq. destruct Hq as [pq [<- Hq]].
    apply filter_In in Hq. destruct Hq as [Hin Hf]. unfold flt in Hf.
    assert (Hlt : lc_lt s (fst pq)).
    { destruct (H1 (fst pq) (in_map fst _ _ Hin)) as [Hp|Hl]; [|exact Hl].
      apply Hproc in Hp. rewrite Hp in Hf. discriminate. }
    unfold lc_lt in *. replace (last_consensus s') with (last_consensus s) by (destruct s; reflexivity). exact Hlt.
  - intros q ri. rewrite G, Gs. intros Hq. unfold prounds. rewrite P.
    destruct (r_q st B q ri Hq) as [Hin|Hd]; [|right; exact Hd].
    destruct (existsb (Z.eqb q) processed) eqn:Ex.
    + right. apply Hproc in Ex. destruct (H2 q Ex) as [[]|Hin2].
      destruct (r_pend st A _ _ Hin2) as [ri2 [Hri2 Hd2]]. rewrite Hq in Hri2. inversion Hri2; subst. auto.
    + left. unfold prounds in Hin. apply in_map_iff in Hin. destruct Hin as [pq [<- Hin]].
      apply in_map. apply filter_In. split; [exact Hin|]. unfold flt. rewrite Ex. reflexivity.
Qed.

(** * A whole step *)
Lemma failed_nomemo st st' : nomemo st' = nomemo st -> failed st' = failed st.
Proof. intros H. apply (f_equal failed) in H. destruct st, st'; exact H. Qed.

Lemma fd_walk_failed fuel : forall st c index x ah, failed (fd_walk fuel st c index x ah) = failed st.
Proof.
  induction fuel as [|f IH]; intros st c index x ah; cbn [fd_walk]; [reflexivity|].
  destruct (get_event st ah) as [a|]; [|reflexivity].
  destruct (aget c (ev_fd a)); [reflexivity|].
  set (st1 := set_evst st ah _).
  assert (F1 : failed st1 = failed st) by (destruct st; reflexivity).
  pose proof (failed_nomemo _ _ (witness_f_nomemo (fuel_of st1) st1 ah)) as F2.
  destruct (witness_f (fuel_of st1) st1 ah) as [[[|]|] st2]; cbn [snd] in F2; try rewrite IH; congruence.
Qed.

Lemma update_ancestor_fd_failed st e la : failed (update_ancestor_fd st e la) = failed st.
Proof.
  unfold update_ancestor_fd. revert st. induction la as [|ce l IH]; intros s; cbn [fold_left]; [reflexivity|].
  rewrite IH. apply fd_walk_failed.
Qed.

Lemma insert_event_failed st e : failed (snd (insert_event st e)) = failed st.
Proof.
  unfold insert_event. destruct (negb _); [reflexivity|].
  destruct (check_self_parent st e); try reflexivity.
  destruct (check_other_parent st e); try reflexivity.
  unfold insert_admitted. cbv zeta.
  destruct (store_set_event _ _) as [st2|] eqn:E; cbn [snd]; [|destruct st; reflexivity].
  assert (E2 : failed st2 = failed st).
  { revert E. unfold store_set_event. destruct (get_event _ _).
    - intros H; inversion H. destruct st; reflexivity.
    - destruct (zget _ _); [|discriminate]. destruct (pidx_set _ _ _); [|discriminate].
      intros H; inversion H. destruct st; reflexivity. }
  pose proof (update_ancestor_fd_failed st2 e (fst (init_coords (st <| topo := topo st + 1 |>) e))) as E3.
  rewrite <- E2, <- E3.
  destruct (is_loaded e); match goal with |- failed ?a = failed ?b => destruct b; reflexivity end.
Qed.

(* the invariant of every reachable state: deliveries are sorted by round-received; the queue
   invariant holds unless a pass hit a store error (after which no pass runs any more) *)
Definition rtop (st : hg) : Prop :=
  StronglySorted Z.lt (map b_rr (delivered st)) /\ (failed st = false -> rinv st).

Lemma rinv_rtop st : rinv st -> rtop st.
Proof. intros I. split; [apply (r_del_sorted st (proj1 I))|auto]. Qed.

Lemma divide_rounds_failed st : failed st = true -> divide_rounds st = st.
Proof.
  unfold divide_rounds. generalize (undetermined st). intros l Hf.
  induction l as [|x l IH]; cbn [fold_left]; [reflexivity|].
  replace (divide_one st x) with st; [exact IH|]. unfold divide_one. rewrite Hf. reflexivity.
Qed.

Lemma delivered_bview st st' : bview st' = bview st -> delivered st' = delivered st.
Proof. intros H. apply bview_bl in H. apply delivered_bl. exact H. Qed.

Lemma run_consensus_rtop st : rtop st -> rtop (run_consensus st).
Proof.
  intros [Hs Hi]. unfold run_consensus.
  destruct (failed st) eqn:Hf.
  { rewrite (divide_rounds_failed st Hf), Hf. split; [exact Hs|congruence]. }
  specialize (Hi eq_refl).
  pose proof (divide_rounds_rinv st (or_intror Hi)) as I1.
  pose proof (delivered_bview _ _ (divide_rounds_bview st)) as D1.
  destruct (failed (divide_rounds st)) eqn:Hf1.
  { split; [rewrite D1; exact Hs|congruence]. }
  destruct I1 as [I1|I1]; [congruence|].
  pose proof (decide_fame_rinv _ I1) as I2.
  destruct (failed (decide_fame (divide_rounds st))); [apply rinv_rtop; exact I2|].
  assert (I3 : rinv (decide_round_received (decide_fame (divide_rounds st)))).
  { eapply rinv_rstep; [exact I2|]. apply decide_round_received_rstep. apply (rinv_bounded _ I2). }
  destruct (failed (decide_round_received _)); [apply rinv_rtop; exact I3|].
  apply rinv_rtop, process_decided_rounds_rinv, I3.
Qed.

Lemma rtop_rstep st st' : rtop st -> rstep st st' -> failed st' = failed st -> rtop st'.
Proof.
  intros [Hs Hi] S Hf. split; [rewrite (s_del _ _ S); exact Hs|].
  rewrite Hf. intros H. eapply rinv_rstep; eauto.
Qed.

Lemma step_rtop st e : rtop st -> rtop (step st e).
Proof.
  intros T. unfold step, insert_and_run.
  pose proof (insert_event_rstep st e) as S. pose proof (insert_event_failed st e) as F.
  destruct (insert_event st e) as [r s]. cbn [snd] in *.
  assert (Ts : rtop s) by (eapply rtop_rstep; eauto).
  destruct r; cbn [snd]; auto. apply run_consensus_rtop. exact Ts.
Qed.

Lemma process_sig_rv st s : rv (process_sig st s) = rv st /\ failed (process_sig st s) = failed st.
Proof.
  unfold process_sig.
  destruct (zget (bs_index s) (blocks st)) as [b|]; [|auto].
  destruct (get_peerset st (b_rr b)); [|auto].
  destruct (negb (mem_key _ _)); [auto|].
  destruct (negb (_ =? _)); [auto|]. cbv zeta.
  set (b' := b <| b_sigs := _ |>).
  set (st1 := store_set_block st b').
  assert (E1 : rv st1 = rv st /\ failed st1 = failed st) by (subst st1; destruct st; auto).
  assert (E2 : rv (set_anchor_block st1 b') = rv st1 /\ failed (set_anchor_block st1 b') = failed st1).
  { unfold set_anchor_block. destruct (get_peerset st1 (b_rr b')); [|auto].
    destruct (_ && _); [destruct st1; auto|auto]. }
  destruct E1 as [E1 F1], E2 as [E2 F2]. rewrite <- E1, <- E2, <- F1, <- F2.
  generalize (set_anchor_block st1 b'). intros s2. destruct s2; auto.
Qed.

Lemma process_sigpool_rtop st : rtop st -> rtop (process_sigpool st).
Proof.
  unfold process_sigpool. generalize (sigpool st). intros l. revert st.
  induction l as [|s l IH]; intros st T; cbn [fold_left]; [exact T|]. apply IH.
  destruct (process_sig_rv st s) as [E F]. eapply rtop_rstep; [exact T|apply rstep_rv; exact E|exact F].
Qed.

Lemma rinv_init self_ genesis oracle_ : rinv (init_hg self_ genesis oracle_).
Proof.
  assert (E : rv (init_hg self_ genesis oracle_) = rv (empty_hg self_)).
  { unfold init_hg. destruct (set_peerset (empty_hg self_) 0 genesis) as [st|] eqn:S; [|reflexivity].
    pose proof (cv_set_peerset _ _ _ _ S) as C. pose proof (delivered_bl _ _ (set_peerset_bl _ _ _ _ S)) as D.
    unfold rv. rewrite <- C, <- D. destruct st; reflexivity. }
  eapply rinv_rstep; [|apply rstep_rv; exact E].
  split; constructor.
  - reflexivity.
  - cbn. lia.
  - intros q. unfold get_round, empty_hg. cbn. rewrite zget_empty. split; [congruence|lia].
  - intros x q. cbn. rewrite zget_empty. discriminate.
  - constructor.
  - intros q d [].
  - discriminate.
  - intros rr f. cbn. rewrite zget_empty. discriminate.
  - constructor.
  - intros d [].
  - intros q [].
  - intros q ri. unfold get_round, empty_hg. cbn. rewrite zget_empty. discriminate.
Qed.

Lemma hstep_rtop st o : rtop st -> rtop (hstep st o).
Proof. intros T. destruct o; cbn [hstep]; [apply step_rtop|apply process_sigpool_rtop]; exact T. Qed.

Theorem hrun_rtop self_ genesis oracle_ ops : rtop (hrun (init_hg self_ genesis oracle_) ops).
Proof.
  unfold hrun. generalize (rinv_rtop _ (rinv_init self_ genesis oracle_)). generalize (init_hg self_ genesis oracle_).
  induction ops as [|o ops IH]; intros st T; cbn [fold_left]; [exact T|]. apply IH, hstep_rtop, T.
Qed.

Lemma sorted_nth_lt l : StronglySorted Z.lt l -> forall k a b, nth_error l k = Some a -> nth_error l (S k) = Some b -> a < b.
Proof.
  induction 1 as [|x l S IH F]; intros k a b Ha Hb; [destruct k; discriminate|].
  destruct k as [|k]; cbn in Ha, Hb.
  - inversion Ha; subst. rewrite Forall_forall in F. apply F. destruct l; [discriminate|]. inversion Hb; subst. left; reflexivity.
  - eapply IH; eauto.
Qed.

(* round-received strictly increases along the sequence of commit callbacks *)
Theorem delivered_rr_increasing self_ genesis oracle_ ops k d d' :
  nth_error (delivered (hrun (init_hg self_ genesis oracle_) ops)) k = Some d ->
  nth_error (delivered (hrun (init_hg self_ genesis oracle_) ops)) (S k) = Some d' ->
  b_rr d < b_rr d'.
Proof.
  intros H H'. destruct (hrun_rtop self_ genesis oracle_ ops) as [S _].
  eapply (sorted_nth_lt _ S k); rewrite nth_error_map; [rewrite H|rewrite H']; reflexivity.
Qed.
