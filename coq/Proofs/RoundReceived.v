(* STRETCH, part 5: round-received.  An event x of round r that carries round-received i satisfies, in
   every later reachable state: the rounds r+1..i are flagged decided, round i is the first of them
   whose famous witnesses all see x and number at least a supermajority.  Hence round-received
   agrees between nodes and is monotone along ancestry. *)
From Coq Require Import ZArith List Bool Lia ZifyBool Permutation.
From RecordUpdate Require Import RecordSet.
From V Require Import Model.ZMap Model.Quorum Model.Voting Model.VotingRef Model.HgImpl
  Proofs.ZMapFacts Proofs.QuorumProofs Proofs.HgFrames Proofs.HgDagFrames Proofs.AdmissionProofs Proofs.Ancestry
  Proofs.BlockInv Proofs.RoundOrder Proofs.OrderFrames Proofs.OrderProofs
  Proofs.VotingProofs Proofs.FameBridge Proofs.Static Proofs.FirstDesc Proofs.FdWalk Proofs.DivInv Proofs.CInvRun
  Proofs.Height Proofs.StronglySee Proofs.RoundFun Proofs.ViewOk Proofs.SameHistory Proofs.Agreement Proofs.NoFail
  Proofs.LrFrames Proofs.FameInv Proofs.LateWitness Proofs.FamousSet Proofs.DecidedFlag.
Import ListNotations RecordSetNotations.
Open Scope Z_scope.

(** * The specification of round-received, read in one state *)
Definition fam_of (l : list (Z * (bool * trilean))) : list Z :=
  map fst (filter (fun e => match snd e with (true, TTrue) => true | _ => false end) l).
Definition fam (st : hg) (j : Z) : list Z := match crt st j with Some l => fam_of l | None => [] end.

Lemma fam_get_round st j rj : get_round st j = Some rj -> fam st j = famous_witnesses rj.
Proof. intros H. unfold fam, crt. rewrite H. reflexivity. Qed.

(* all famous witnesses of round j see x, and they are a supermajority *)
Definition rcond (g : peerset) (st : hg) (j x : Z) : Prop :=
  (forall w, In w (fam st j) -> see st w x = Some true) /\ super_majority g <= Z.of_nat (length (fam st j)).

(* x, of round r, is received in round i *)
Definition rrspec (g : peerset) (st : hg) (x r i : Z) : Prop :=
  r < i /\ (forall j, r < j <= i -> flag st j) /\ (forall j, r < j < i -> ~ rcond g st j x) /\ rcond g st i x.

(* transport between states with the same created lists and the same see values *)
Lemma rcond_keep g s s' j x : crt s' j = crt s j -> (forall w, see s' w x = see s w x) -> rcond g s j x -> rcond g s' j x.
Proof. intros C S [A B]. unfold rcond, fam. rewrite C. split; [intros w Hw; rewrite S; apply A; exact Hw|exact B]. Qed.

Lemma rrspec_keep g s s' x r i : tmono s s' -> (forall j, crt s' j = crt s j) -> (forall w, see s' w x = see s w x) ->
  rrspec g s x r i -> rrspec g s' x r i.
Proof.
  intros T C S [H1 [H2 [H3 H4]]]. split; [exact H1|]. split; [intros j Hj; apply (tmono_flag s s' j T), H2, Hj|].
  split; [|apply (rcond_keep g s s' i x (C i) S H4)].
  intros j Hj Hc. apply (H3 j Hj). apply (rcond_keep g s' s j x); [symmetry; apply C|intros w; symmetry; apply S|exact Hc].
Qed.

(** * What the loop of DecideRoundReceived establishes *)
Lemma sees_fold_count st x fws : forall n s,
  fold_left (fun (acc : option Z) w =>
               match acc, see st w x with
               | Some n, Some b => Some (if b then n + 1 else n)
               | _, _ => None
               end) fws (Some n) = Some s ->
  n <= s <= n + Z.of_nat (length fws) /\ (s = n + Z.of_nat (length fws) <-> forall w, In w fws -> see st w x = Some true).
Proof.
  induction fws as [|w l IH]; intros n s; cbn [fold_left length].
  - intros E; inversion E; subst. split; [lia|]. split; [intros _ w []|lia].
  - destruct (see st w x) as [[|]|] eqn:Es.
    + intros H. destruct (IH _ _ H) as [A B]. split; [lia|]. split.
      * intros E w' [<-|Hw']; [exact Es|]. apply B; [lia|exact Hw'].
      * intros Hall. assert (s = n + 1 + Z.of_nat (length l)) by (apply B; intros w' Hw'; apply Hall; right; exact Hw'). lia.
    + intros H. destruct (IH _ _ H) as [A B]. split; [lia|]. split.
      * intros E. lia.
      * intros Hall. specialize (Hall w (or_introl eq_refl)). congruence.
    + intros H. exfalso. clear -H. induction l as [|z l IHl]; cbn [fold_left] in H; [discriminate|auto].
Qed.

Lemma see_set_rr st x ex i w y : get_event st x = Some ex ->
  see (set_evst st x (ex <| ev_rr := Some i |>)) w y = see st w y.
Proof.
  intros Hx. unfold see, ancestor. destruct (w =? y); [reflexivity|].
  rewrite !get_event_set_evst.
  assert (H0 : 0 <= x) by (eapply zget_some_nonneg; exact Hx). replace (0 <=? x) with true by lia. rewrite !andb_true_r.
  destruct (Z.eqb_spec x w) as [<-|]; destruct (Z.eqb_spec x y) as [<-|]; rewrite ?Hx;
    try reflexivity; destruct ex; reflexivity.
Qed.

Lemma crt_events_only st st' : rounds st' = rounds st -> forall j, crt st' j = crt st j.
Proof. intros E j. unfold crt, get_round. rewrite E. reflexivity. Qed.

Lemma see_events_only st st' : events st' = events st -> forall w y, see st' w y = see st w y.
Proof. intros E w y. unfold see, ancestor, get_event. rewrite E. reflexivity. Qed.

Lemma flag_zset st i tr' : 0 <= i -> ri_decided tr' = true -> flag (st <| rounds := zset i tr' (rounds st) |>) i.
Proof.
  intros Hi Hd. exists tr'. split; [|exact Hd].
  rewrite (get_round_zset st _ i tr' i Hi) by (destruct st; reflexivity). rewrite Z.eqb_refl. reflexivity.
Qed.

Lemma rr_loop_rrspec g x r : forall n lo st,
  static g st -> lower_bound st = None -> r < lo ->
  (forall j, r < j < lo -> flag st j /\ ~ rcond g st j x) ->
  snd (rr_loop st x (zseq lo n)) = true ->
  exists i ex', rrspec g (fst (rr_loop st x (zseq lo n))) x r i /\
                get_event (fst (rr_loop st x (zseq lo n))) x = Some ex' /\ ev_rr ex' = Some i.
Proof.
  induction n as [|n IH]; intros lo st Hst Hlb Hlo Pre; cbn [zseq rr_loop]; [discriminate|].
  rename lo into i.
  destruct (get_round st i) as [tr|] eqn:Hg; [|rewrite Hlb; discriminate].
  rewrite (get_peerset_static g st i Hst).
  destruct (witnesses_decided_cases tr g) as [Hc [Hs _]].
  pose proof (witnesses_decided_true tr g) as Htrue.
  destruct (witnesses_decided tr g) as [d tr']. cbn [fst snd] in *.
  set (st1 := st <| rounds := zset i tr' (rounds st) |>).
  assert (Hi : 0 <= i) by (eapply get_round_some_nonneg; eauto).
  assert (T1 : tmono st st1).
  { apply (tmono_zset st st1 i tr tr' Hg); [unfold st1; destruct st; reflexivity|exact Hs|rewrite Hc; apply ent_mono_refl]. }
  assert (C1 : forall j, crt st1 j = crt st j) by (intros j; apply (crt_set_rounds st i tr tr' j Hg Hc)).
  assert (S1 : forall w y, see st1 w y = see st w y) by (apply see_events_only; unfold st1; destruct st; reflexivity).
  assert (Hlb1 : lower_bound st1 = None) by (unfold st1; destruct st; exact Hlb).
  assert (Hst1 : static g st1) by (unfold static, st1 in *; destruct st; exact Hst).
  assert (Hg1 : get_round st1 i = Some tr').
  { rewrite (get_round_zset st st1 i tr' i Hi) by (unfold st1; destruct st; reflexivity). rewrite Z.eqb_refl. reflexivity. }
  assert (Pre1 : forall j, r < j < i -> flag st1 j /\ ~ rcond g st1 j x).
  { intros j Hj. destruct (Pre j Hj) as [A B]. split; [apply (tmono_flag st st1 j T1 A)|].
    intros Hc'. apply B. apply (rcond_keep g st1 st j x); [symmetry; apply C1|intros w; symmetry; apply S1|exact Hc']. }
  destruct d; cbn [negb]; [|rewrite Hlb1; discriminate].
  assert (Fl1 : flag st1 i) by (apply flag_zset; [exact Hi|apply Htrue; reflexivity]).
  assert (Efam : fam st1 i = famous_witnesses tr') by (apply fam_get_round; exact Hg1).
  match goal with |- context [fold_left ?f ?l ?a] => destruct (fold_left f l a) as [sees|] eqn:Hfold end; [|discriminate].
  destruct (sees_fold_count st1 x (famous_witnesses tr') 0 sees Hfold) as [Hrange Hall].
  destruct ((sees =? Z.of_nat (length (famous_witnesses tr'))) && (super_majority g <=? sees)) eqn:Hcond.
  - (* received in round i *)
    destruct (get_event st1 x) as [ex|] eqn:Hx; [|discriminate]. cbn [fst snd]. intros _.
    apply andb_true_iff in Hcond. destruct Hcond as [Hc1 Hc2]. apply Z.eqb_eq in Hc1. apply Z.leb_le in Hc2.
    set (st2 := set_evst st1 x (ex <| ev_rr := Some i |>)).
    set (tr2 := tr' <| ri_received := ri_received tr' ++ [x] |>).
    set (F := set_round st2 i tr2).
    assert (Hg2 : get_round st2 i = Some tr') by (unfold st2, get_round, set_evst; unfold get_round in Hg1; destruct st1; exact Hg1).
    assert (T2a : tmono st1 st2) by (apply tmono_rounds; unfold st2; destruct st1; reflexivity).
    assert (T2 : tmono st1 F).
    { eapply tmono_trans; [exact T2a|].
      apply (tmono_zset st2 F i tr' tr2 Hg2); [unfold F; destruct st2; reflexivity|unfold tr2; destruct tr'; auto|unfold tr2; destruct tr'; apply ent_mono_refl]. }
    assert (C2 : forall j, crt F j = crt st1 j).
    { intros j. unfold crt, F.
      rewrite (get_round_zset st2 (set_round st2 i tr2) i tr2 j Hi) by (destruct st2; reflexivity).
      destruct (Z.eqb_spec i j) as [<-|].
      - rewrite Hg1. cbn. unfold tr2. destruct tr'; reflexivity.
      - unfold st2, get_round, set_evst. destruct st1; reflexivity. }
    assert (S2 : forall w y, see F w y = see st1 w y).
    { intros w y. transitivity (see st2 w y); [apply see_events_only; unfold F; destruct st2; reflexivity|].
      apply see_set_rr. exact Hx. }
    exists i, (ex <| ev_rr := Some i |>). split; [|split; [|destruct ex; reflexivity]].
    + split; [lia|]. split; [|split].
      * intros j Hj. destruct (Z.eq_dec j i) as [->|Hne]; [apply (tmono_flag st1 F i T2 Fl1)|].
        apply (tmono_flag st1 F j T2). apply Pre1. lia.
      * intros j Hj Hc'. destruct (Pre1 j Hj) as [_ B]. apply B.
        apply (rcond_keep g F st1 j x); [symmetry; apply C2|intros w; symmetry; apply S2|exact Hc'].
      * apply (rcond_keep g st1 F i x); [apply C2|intros w; apply S2|].
        unfold rcond. rewrite Efam. split; [apply Hall; lia|lia].
    + unfold F. replace (get_event (set_round st2 i tr2) x) with (get_event st2 x) by (destruct st2; reflexivity).
      unfold st2. rewrite get_event_set_evst, Z.eqb_refl.
      assert (0 <= x) by (eapply zget_some_nonneg; exact Hx). replace (0 <=? x) with true by lia. reflexivity.
  - (* not received in round i: continue *)
    apply (IH (i + 1) st1 Hst1 Hlb1 ltac:(lia)).
    intros j Hj. destruct (Z.eq_dec j i) as [->|Hne]; [|apply Pre1; lia].
    split; [exact Fl1|]. intros [A B]. rewrite Efam in A, B.
    assert (E : sees = Z.of_nat (length (famous_witnesses tr'))) by (apply Hall in A; lia).
    rewrite E, Z.eqb_refl in Hcond. cbn [andb] in Hcond. lia.
Qed.

(** * One event, then the whole pass *)
Definition rr_of (st : hg) (x : Z) : option Z := match get_event st x with Some ex => ev_rr ex | None => None end.

Lemma zrange_zseq lo hi : zrange lo hi = zseq lo (Z.to_nat (hi - lo + 1)).
Proof. reflexivity. Qed.

Lemma decide_rr_one_rr g s und y : good g s -> rinv s ->
  (forall x, x <> y -> rr_of (fst (decide_rr_one (s, und) y)) x = rr_of s x) /\
  (forall i, rr_of (fst (decide_rr_one (s, und) y)) y = Some i ->
     rr_of s y = Some i \/ exists r, rmemo s y = Some r /\ rrspec g (fst (decide_rr_one (s, und) y)) y r i).
Proof.
  intros G R. unfold decide_rr_one. destruct (failed s); [split; [auto|auto]|].
  pose proof (round_f_pure g (Z.to_nat (topo s)) s y (gd_c _ _ G)) as Hp. unfold fuel_of.
  destruct (round_f (S (Z.to_nat (topo s))) s y) as [[r|] s1] eqn:Erf; cbn [snd] in Hp; subst s1.
  2:{ cbn [fst]. split; [intros x _|intros i H; left; revert H]; unfold rr_of; replace (get_event (fail s)) with (get_event s) by (destruct s; reflexivity); auto. }
  assert (Hr : rmemo s y = Some r).
  { destruct (rmemo s y) as [r'|] eqn:E.
    - rewrite (round_f_memo_hit _ s y r' E) in Erf. inversion Erf. reflexivity.
    - exfalso. cbn [round_f] in Erf. unfold rmemo in E. rewrite E in Erf.
      destruct (get_event s y) as [ey|] eqn:Hy; [|discriminate].
      destruct (c_all _ _ _ (gd_c _ _ G) y ey Hy ltac:(discriminate)) as [r' [w [Hr' _]]]. unfold rmemo in Hr'. congruence. }
  destruct (rr_loop_spec y (zrange (r + 1) (last_round s)) s) as [Sf St].
  pose proof (rr_loop_rrspec g y r (Z.to_nat (last_round s - (r + 1) + 1)) (r + 1) s
                (c_static _ _ _ (gd_c _ _ G)) (r_lb _ (proj1 R)) ltac:(lia) ltac:(intros j Hj; lia)) as Spec.
  rewrite <- zrange_zseq in Spec.
  destruct (rr_loop s y (zrange (r + 1) (last_round s))) as [s' received]. cbn [fst snd] in *.
  destruct received.
  - destruct (St eq_refl) as [i0 [ey [Hy [Gy _]]]]. split.
    + intros x Hne. unfold rr_of. rewrite Gy. destruct (Z.eqb_spec x y); [contradiction|reflexivity].
    + intros i Hi. right. exists r. split; [exact Hr|].
      destruct (Spec eq_refl) as [i' [ex' [Hsp [Hx' Hrr]]]]. unfold rr_of in Hi. rewrite Hx', Hrr in Hi. inversion Hi; subst i'. exact Hsp.
  - pose proof (Sf eq_refl) as K. split.
    + intros x _. unfold rr_of. rewrite (ekeep_get_event _ _ x K). reflexivity.
    + intros i Hi. left. unfold rr_of in *. rewrite (ekeep_get_event _ _ y K) in Hi. exact Hi.
Qed.

Lemma rmemo_ckeep s s' x : ckeep s s' -> rmemo s' x = rmemo s x.
Proof. apply ckeep_rmemo. Qed.

Lemma decide_rr_one_rinv s und x : rinv s -> rinv (fst (decide_rr_one (s, und) x)).
Proof. intros R. eapply rinv_rstep; [exact R|]. apply decide_rr_one_rstep. apply (proj1 (rinv_bounded _ R)). Qed.

(* after the pass: every round-received that is new satisfies its specification *)
Lemma decide_round_received_rr g st : good g st -> rinv st ->
  forall x i, rr_of (decide_round_received st) x = Some i ->
    rr_of st x = Some i \/ exists r, rmemo st x = Some r /\ rrspec g (decide_round_received st) x r i.
Proof.
  intros G R. unfold decide_round_received.
  assert (H : forall l s und, good g s -> rinv s -> ckeep st s ->
              (forall x i, rr_of s x = Some i -> rr_of st x = Some i \/ exists r, rmemo st x = Some r /\ rrspec g s x r i) ->
              forall x i, rr_of (fst (fold_left decide_rr_one l (s, und))) x = Some i ->
                rr_of st x = Some i \/ exists r, rmemo st x = Some r /\ rrspec g (fst (fold_left decide_rr_one l (s, und))) x r i).
  { induction l as [|y l IH]; intros s und Gs Rs Ks Q; cbn [fold_left]; [exact Q|].
    destruct (decide_rr_one_rr g s und y Gs Rs) as [A B].
    pose proof (decide_rr_one_good g s und y Gs) as G1. pose proof (decide_rr_one_rinv s und y Rs) as R1.
    pose proof (decide_rr_one_ckeep g s und y (gd_c _ _ Gs)) as K1. pose proof (decide_rr_one_tmono s und y) as T1.
    pose proof (fun j => decide_rr_one_crt s und y j) as C1.
    destruct (decide_rr_one (s, und) y) as [s' und']. cbn [fst] in *.
    apply (IH s' und' G1 R1 (ckeep_trans _ _ _ Ks K1)).
    intros x i Hx. destruct (Z.eq_dec x y) as [->|Hne].
    - destruct (B i Hx) as [H0|[r [Hr Hsp]]]; [|right; exists r; split; [rewrite <- (rmemo_ckeep st s y Ks); exact Hr|exact Hsp]].
      destruct (Q y i H0) as [H1|[r [Hr Hsp]]]; [left; exact H1|right; exists r; split; [exact Hr|]].
      apply (rrspec_keep g s s' y r i T1 C1); [intros w; apply ckeep_see; exact K1|exact Hsp].
    - rewrite (A x Hne) in Hx. destruct (Q x i Hx) as [H1|[r [Hr Hsp]]]; [left; exact H1|right; exists r; split; [exact Hr|]].
      apply (rrspec_keep g s s' x r i T1 C1); [intros w; apply ckeep_see; exact K1|exact Hsp]. }
  specialize (H (undetermined st) st [] G R (ckeep_refl st) ltac:(intros x i Hx; left; exact Hx)).
  destruct (fold_left decide_rr_one (undetermined st) (st, [])) as [s und]. cbn [fst] in H.
  destruct (failed s); [exact H|].
  intros x i Hx.
  assert (Hx' : rr_of s x = Some i) by (revert Hx; unfold rr_of; replace (get_event (s <| undetermined := und |>)) with (get_event s) by (destruct s; reflexivity); auto).
  destruct (H x i Hx') as [H1|[r [Hr Hsp]]]; [left; exact H1|right; exists r; split; [exact Hr|]].
  apply (rrspec_keep g s _ x r i); [apply tmono_rounds; destruct s; reflexivity|apply crt_events_only; destruct s; reflexivity| |exact Hsp].
  intros w. apply see_events_only. destruct s; reflexivity.
Qed.

(** * One step *)
Lemma rr_of_qkeep s s' x : qkeep s s' -> rr_of s' x = rr_of s x.
Proof.
  intros Q. pose proof (q_ev _ _ Q x) as E. unfold rr_of.
  destruct (get_event s' x), (get_event s x); cbn in E; try discriminate; [|reflexivity].
  unfold ev_r in E. inversion E. reflexivity.
Qed.

Lemma hstep_rr g all st o : ids_determine all -> no_accept all -> hop_ok all o -> nf_inv g all st ->
  forall x i, rr_of (hstep st o) x = Some i ->
    rr_of st x = Some i \/ exists r, rmemo (hstep st o) x = Some r /\ rrspec g (hstep st o) x r i.
Proof.
  intros ID NA Ho N x i. destruct o as [e|]; cbn [hstep].
  2:{ intros H. left. revert H. unfold rr_of, get_event.
      destruct (cw_fields _ _ (cw_process_sigpool st)) as [Ev _]. rewrite Ev. auto. }
  destruct Ho as [Hin Hid]. unfold step, insert_and_run.
  pose proof (g_dag _ _ (gi_core _ _ (nf_g _ _ _ N))) as OK. pose proof (g_from _ _ (gi_core _ _ (nf_g _ _ _ N))) as FA.
  destruct (insert_event st e) as [r0 s] eqn:E.
  destruct (insert_event_inv st e all r0 s OK FA ID Hin Hid E) as [_ [_ Hns]].
  assert (Hrej : r0 <> InsOk -> rr_of (snd (r0, s)) x = Some i ->
            rr_of st x = Some i \/ exists r, rmemo (snd (r0, s)) x = Some r /\ rrspec g (snd (r0, s)) x r i).
  { intros Hn. rewrite (insert_reject_noop st e r0 s E Hn Hns). auto. }
  destruct r0; try (apply Hrej; discriminate). clear Hrej. cbn [snd].
  destruct (insert_post_ins g all st e s ID Hin Hid N E) as [PI _].
  pose proof (run_consensus_stages g all (e_id e) s NA PI) as SG. rewrite (sg_eq _ _ _ SG).
  set (s1 := divide_rounds s) in *. set (s2 := decide_fame s1) in *. set (s3 := decide_round_received s2) in *.
  pose proof (sg_g1 _ _ _ SG) as G1.
  assert (G2 : good g s2) by (apply (good_step g s1 s2 G1); [apply decide_fame_frame|apply decide_fame_ckeep]).
  destruct (cw_fields _ _ (cw_process_decided_rounds s3)) as [Ev4 [Ro4 [Rm4 _]]].
  intros H4.
  assert (H3 : rr_of s3 x = Some i) by (revert H4; unfold rr_of, get_event; rewrite Ev4; auto).
  destruct (decide_round_received_rr g s2 G2 (sg_r2 _ _ _ SG) x i H3) as [H2|[r [Hr Hsp]]].
  - left.
    (* round-received is not touched before DecideRoundReceived *)
    assert (Q2 : rr_of s2 x = rr_of s1 x) by (apply rr_of_qkeep, okeep_qkeep, decide_fame_okeep).
    assert (Q1 : rr_of s1 x = rr_of s x) by (apply rr_of_qkeep, (dk_q _ _ (divide_rounds_dkeep (e_id e) s (pi_d _ _ _ _ PI)))).
    rewrite Q2, Q1 in H2.
    destruct (insert_ok_checks st e s E) as [_ [Hsp' _]].
    pose proof (checked_fresh st e all OK FA ID Hin Hsp') as Fresh.
    destruct (insert_ok_shape st e s Fresh Hid E) as [_ [Gs _]].
    unfold rr_of in H2 |- *. pose proof (Gs x) as Gx.
    destruct (Z.eqb_spec x (e_id e)) as [->|Hne].
    + destruct (get_event s (e_id e)) as [en|]; [|discriminate]. cbn in Gx. unfold ev_b in Gx. inversion Gx. congruence.
    + destruct (get_event s x) as [ex|], (get_event st x) as [ex0|]; cbn in Gx; try discriminate.
      unfold ev_b in Gx. inversion Gx. congruence.
  - right. exists r. split.
    + unfold rmemo. rewrite Rm4. fold (rmemo s3 x).
      rewrite (ckeep_rmemo s2 s3 x (decide_round_received_ckeep g s2 (gd_c _ _ G2))). exact Hr.
    + apply (rrspec_keep g s3 _ x r i); [apply tmono_rounds; exact Ro4|apply crt_events_only; exact Ro4| |exact Hsp].
      intros w. apply see_events_only. exact Ev4.
Qed.

(** * Along a run *)
Lemma fam_frec g st j w : good g st -> (In w (fam st j) <-> frec st j w true).
Proof.
  intros G. unfold fam, crt. destruct (get_round st j) as [rj|] eqn:Hg.
  - cbn [option_map]. change (fam_of (ri_created rj)) with (famous_witnesses rj).
    apply (famous_witnesses_frec g st j rj w G Hg).
  - cbn. split; [intros []|intros [ri [C _]]; congruence].
Qed.

Lemma fam_nodup g st j : good g st -> NoDup (fam st j).
Proof.
  intros G. unfold fam, crt. destruct (get_round st j) as [rj|] eqn:Hg; [|constructor].
  cbn [option_map]. unfold fam_of. apply NoDup_map_fst_filter.
  pose proof (c_tabu _ _ _ (gd_c _ _ G) j) as U. unfold wl in U. rewrite Hg in U. unfold wl_of in U.
  rewrite map_map in U. cbn [fst] in U. exact U.
Qed.

Lemma rcond_same g s s' j x :
  NoDup (fam s j) -> NoDup (fam s' j) -> (forall w, In w (fam s' j) <-> In w (fam s j)) ->
  (forall w, In w (fam s j) -> see s' w x = see s w x) -> (rcond g s j x <-> rcond g s' j x).
Proof.
  intros N N' E S.
  assert (L : length (fam s' j) = length (fam s j)).
  { apply Permutation_length. apply NoDup_Permutation; assumption. }
  unfold rcond. rewrite L. split; intros [A B]; (split; [|exact B]).
  - intros w Hw. apply E in Hw. rewrite (S w Hw). apply A. exact Hw.
  - intros w Hw. rewrite <- (S w Hw). apply A. apply E. exact Hw.
Qed.

Section Run.
  Variables (g : peerset) (all : list event).
  Hypothesis ID : ids_determine all.
  Hypothesis NA : no_accept all.
  Variables (self_ : Z) (oracle_ : list Z).
  Let init := init_hg self_ g oracle_.

  (* after the flag of round j is set, its famous witnesses are the same in every later state *)
  Lemma fam_stable_step ops o j w : Forall (hop_ok all) (ops ++ [o]) -> flag (hrun init ops) j ->
    (In w (fam (hrun init (ops ++ [o])) j) <-> In w (fam (hrun init ops) j)).
  Proof.
    intros H Hfl. unfold init in *. pose proof H as H'. apply Forall_app in H'. destruct H' as [Hops _].
    destruct (flag_history g all ID NA self_ oracle_ ops j Hops Hfl) as [k Dk].
    set (k' := Nat.min k (length ops)).
    assert (Ek : firstn k' ops = firstn k ops).
    { unfold k'. destruct (Nat.le_ge_cases k (length ops)) as [Hle|Hge]; [rewrite Nat.min_l by exact Hle; reflexivity|].
      rewrite Nat.min_r by exact Hge. rewrite firstn_all. rewrite firstn_all2 by exact Hge. reflexivity. }
    assert (Ek' : firstn k' (ops ++ [o]) = firstn k ops).
    { rewrite firstn_app. replace (k' - length ops)%nat with O by (unfold k'; lia). cbn [firstn]. rewrite app_nil_r. exact Ek. }
    pose proof (nf_good g all _ (hrun_nf g all self_ oracle_ ops ID NA Hops)) as G.
    pose proof (nf_good g all _ (hrun_nf g all self_ oracle_ (ops ++ [o]) ID NA H)) as G'.
    rewrite (fam_frec g _ j w G'), (fam_frec g _ j w G).
    assert (D1 : full_dec g (hrun (init_hg self_ g oracle_) (firstn k' (ops ++ [o]))) j) by (rewrite Ek'; exact Dk).
    assert (D2 : full_dec g (hrun (init_hg self_ g oracle_) (firstn k' ops)) j) by (rewrite Ek; exact Dk).
    rewrite (famous_stable g all ID NA self_ oracle_ (ops ++ [o]) k' j w H D1).
    rewrite (famous_stable g all ID NA self_ oracle_ ops k' j w Hops D2).
    rewrite Ek, Ek'. reflexivity.
  Qed.

  Theorem rr_spec_run ops : Forall (hop_ok all) ops -> forall x i,
    rr_of (hrun init ops) x = Some i -> exists r, rmemo (hrun init ops) x = Some r /\ rrspec g (hrun init ops) x r i.
  Proof.
    induction ops as [|o ops IH] using rev_ind; intros H x i Hx.
    - exfalso. unfold rr_of in Hx. cbn [hrun fold_left] in Hx. unfold get_event in Hx.
      destruct (cw_fields _ _ (cw_init self_ g oracle_)) as [Ev _]. unfold init in Hx. rewrite Ev in Hx. cbn in Hx.
      rewrite zget_empty in Hx. discriminate.
    - pose proof H as H'. apply Forall_app in H'. destruct H' as [Hops Ho]. inversion Ho as [|? ? Ho' _]; subst.
      pose proof (hrun_nf g all self_ oracle_ ops ID NA Hops) as N. pose proof (hrun_nf g all self_ oracle_ (ops ++ [o]) ID NA H) as N'.
      fold init in N, N'. pose proof (hrun_app init ops [o]) as Eapp. cbn [hrun fold_left] in Eapp.
      set (st := hrun init ops) in *. set (st' := hrun init (ops ++ [o])) in *.
      assert (Est' : st' = hstep st o) by exact Eapp.
      rewrite Est' in Hx. destruct (hstep_rr g all st o ID NA Ho' N x i Hx) as [Hold|Hnew]; [|rewrite Est'; exact Hnew].
      destruct (IH Hops x i Hold) as [r [Hr Hsp]].
      pose proof (nf_good g all st N) as G. pose proof (nf_good g all st' N') as G'.
      assert (SB : same_bodies st st').
      { apply (same_bodies_of_universe all g); auto;
          [apply (g_from _ _ (gi_core _ _ (nf_g _ _ _ N)))|apply (g_from _ _ (gi_core _ _ (nf_g _ _ _ N')))]. }
      assert (Sub : forall y, get_event st y <> None -> get_event st' y <> None).
      { intros y Hy. rewrite Est'. destruct (get_event st y) as [ey|] eqn:E; [|contradiction].
        destruct (m_e _ _ (proj2 (hstep_ginv all st o ID Ho' (nf_g _ _ _ N))) y ey E) as [ey' [E' _]]. rewrite E'. discriminate. }
      assert (Hxs : exists ex, get_event st x = Some ex).
      { unfold rr_of in Hold. destruct (get_event st x) as [ex|]; [eauto|discriminate]. }
      destruct Hxs as [ex Hex].
      assert (Hxs' : get_event st' x <> None) by (apply Sub; rewrite Hex; discriminate).
      destruct (get_event st' x) as [ex'|] eqn:Hex'; [|contradiction].
      exists r. split.
      { destruct (memo_agree g st st' G G' SB x ex ex' Hex Hex') as [Er _]. congruence. }
      assert (T : tmono st st') by (rewrite Est'; apply (hstep_tmono g all st o ID NA Ho' N)).
      (* the condition of a flagged round does not change *)
      assert (RC : forall j, flag st j -> (rcond g st j x <-> rcond g st' j x)).
      { intros j Hfl. apply rcond_same; [apply (fam_nodup g st j G)|apply (fam_nodup g st' j G')| |].
        - intros w. apply (fam_stable_step ops o j w H Hfl).
        - intros w Hw. apply (fam_frec g st j w G) in Hw.
          destruct (wits_stored g st G j w (frec_wits g st j w true G Hw)) as [ew Hew].
          assert (Hw' : get_event st' w <> None) by (apply Sub; rewrite Hew; discriminate).
          destruct (get_event st' w) as [ew'|] eqn:Hew'; [|contradiction].
          symmetry. apply (see_agree g st st' G G' SB w x ew ew' ex ex' Hew Hew' Hex Hex'). }
      destruct Hsp as [H1 [H2 [H3 H4]]]. split; [exact H1|]. split; [intros j Hj; apply (tmono_flag st st' j T), H2, Hj|].
      split.
      + intros j Hj Hc. apply (H3 j Hj). apply (RC j); [apply H2; lia|exact Hc].
      + apply (RC i); [apply H2; lia|exact H4].
  Qed.
End Run.

(** * Consequences *)

(* seeing is ancestry *)
Lemma see_true_anc g st w x ew ex : good g st -> get_event st w = Some ew -> get_event st x = Some ex ->
  (see st w x = Some true <-> Ancestry.anc st w x).
Proof. intros G Hw Hx. apply (ancestor_correct st w x ew ex (gd_dag _ _ G) (gd_la _ _ G) Hw Hx). Qed.

(* round-received is monotone along ancestry, in one state *)
Lemma rr_monotone_state g st a b ra rb r_a r_b ea eb :
  good g st -> get_event st a = Some ea -> get_event st b = Some eb -> Ancestry.anc st b a ->
  rmemo st a = Some r_a -> rmemo st b = Some r_b ->
  rrspec g st a r_a ra -> rrspec g st b r_b rb -> ra <= rb.
Proof.
  intros G Ha Hb Hanc Hra Hrb [A1 [A2 [A3 A4]]] [B1 [B2 [B3 [B4 B5]]]].
  pose proof (round_anc_le g st G b a Hanc eb r_b r_a Hb Hrb Hra) as Hle.
  destruct (Z.le_gt_cases ra rb) as [|Hgt]; [assumption|exfalso].
  apply (A3 rb ltac:(lia)). split; [|exact B5].
  intros w Hw. pose proof (B4 w Hw) as Hs.
  apply (fam_frec g st rb w G) in Hw.
  destruct (wits_stored g st G rb w (frec_wits g st rb w true G Hw)) as [ew Hew].
  apply (see_true_anc g st w a ew ea G Hew Ha). eapply anc_trans; [|exact Hanc].
  apply (see_true_anc g st w b ew eb G Hew Hb). exact Hs.
Qed.

(* the condition of a round flagged in both states is the same in both *)
Lemma rcond_cross g all s1 s2 o1 o2 ops1 ops2 j x e1x e2x :
  ids_determine all -> no_accept all -> Forall (hop_ok all) ops1 -> Forall (hop_ok all) ops2 ->
  let st1 := hrun (init_hg s1 g o1) ops1 in
  let st2 := hrun (init_hg s2 g o2) ops2 in
  no_cross_fork st1 st2 -> flag st1 j -> flag st2 j ->
  get_event st1 x = Some e1x -> get_event st2 x = Some e2x ->
  (rcond g st1 j x <-> rcond g st2 j x).
Proof.
  intros ID NA H1 H2 st1 st2 NF F1 F2 H1x H2x.
  pose proof (hrun_nf g all s1 o1 ops1 ID NA H1) as N1. pose proof (hrun_nf g all s2 o2 ops2 ID NA H2) as N2.
  fold st1 in N1. fold st2 in N2.
  pose proof (nf_good g all st1 N1) as G1. pose proof (nf_good g all st2 N2) as G2.
  assert (SB : same_bodies st1 st2).
  { apply (same_bodies_of_universe all g); auto;
      [apply (g_from _ _ (gi_core _ _ (nf_g _ _ _ N1)))|apply (g_from _ _ (gi_core _ _ (nf_g _ _ _ N2)))]. }
  assert (E : forall w, In w (fam st2 j) <-> In w (fam st1 j)).
  { intros w. rewrite (fam_frec g st2 j w G2), (fam_frec g st1 j w G1). symmetry.
    apply (famous_agree_flags g all s1 s2 o1 o2 ops1 ops2 j w ID NA H1 H2 NF F1 F2). }
  apply rcond_same; [apply (fam_nodup g st1 j G1)|apply (fam_nodup g st2 j G2)|exact E|].
  intros w Hw1. pose proof (proj2 (E w) Hw1) as Hw2.
  apply (fam_frec g st1 j w G1) in Hw1. apply (fam_frec g st2 j w G2) in Hw2.
  destruct (wits_stored g st1 G1 j w (frec_wits g st1 j w true G1 Hw1)) as [e1w H1w].
  destruct (wits_stored g st2 G2 j w (frec_wits g st2 j w true G2 Hw2)) as [e2w H2w].
  symmetry. apply (see_agree g st1 st2 G1 G2 SB w x e1w e2w e1x e2x H1w H2w H1x H2x).
Qed.

(* ROUND-RECEIVED AGREEMENT *)
Theorem rr_agreement_hrun : forall genesis all self1 self2 oracle1 oracle2 ops1 ops2 x e1 e2 i1 i2,
  ids_determine all -> no_accept all -> Forall (hop_ok all) ops1 -> Forall (hop_ok all) ops2 ->
  let st1 := hrun (init_hg self1 genesis oracle1) ops1 in
  let st2 := hrun (init_hg self2 genesis oracle2) ops2 in
  no_cross_fork st1 st2 ->
  get_event st1 x = Some e1 -> get_event st2 x = Some e2 ->
  ev_rr e1 = Some i1 -> ev_rr e2 = Some i2 -> i1 = i2.
Proof.
  intros g all s1 s2 o1 o2 ops1 ops2 x e1 e2 i1 i2 ID NA H1 H2 st1 st2 NF H1x H2x Hr1 Hr2.
  assert (R1 : rr_of st1 x = Some i1) by (unfold rr_of; rewrite H1x; exact Hr1).
  assert (R2 : rr_of st2 x = Some i2) by (unfold rr_of; rewrite H2x; exact Hr2).
  destruct (rr_spec_run g all ID NA s1 o1 ops1 H1 x i1 R1) as [r1 [M1 [A1 [A2 [A3 A4]]]]].
  destruct (rr_spec_run g all ID NA s2 o2 ops2 H2 x i2 R2) as [r2 [M2 [B1 [B2 [B3 B4]]]]].
  fold st1 in M1, A2, A3, A4. fold st2 in M2, B2, B3, B4.
  pose proof (hrun_nf g all s1 o1 ops1 ID NA H1) as N1. pose proof (hrun_nf g all s2 o2 ops2 ID NA H2) as N2.
  fold st1 in N1. fold st2 in N2.
  pose proof (nf_good g all st1 N1) as G1. pose proof (nf_good g all st2 N2) as G2.
  assert (SB : same_bodies st1 st2).
  { apply (same_bodies_of_universe all g); auto;
      [apply (g_from _ _ (gi_core _ _ (nf_g _ _ _ N1)))|apply (g_from _ _ (gi_core _ _ (nf_g _ _ _ N2)))]. }
  destruct (memo_agree g st1 st2 G1 G2 SB x e1 e2 H1x H2x) as [Er _].
  assert (r1 = r2) by congruence. subst r2.
  pose proof (fun j F1 F2 => rcond_cross g all s1 s2 o1 o2 ops1 ops2 j x e1 e2 ID NA H1 H2 NF F1 F2 H1x H2x) as RC.
  destruct (Z.lt_trichotomy i1 i2) as [Hlt|[Heq|Hgt]]; [exfalso|exact Heq|exfalso].
  - apply (B3 i1 ltac:(lia)). apply (RC i1); [apply A2; lia|apply B2; lia|exact A4].
  - apply (A3 i2 ltac:(lia)). apply (RC i2); [apply A2; lia|apply B2; lia|exact B4].
Qed.

(* ROUND-RECEIVED IS MONOTONE ALONG ANCESTRY *)
Theorem rr_monotone_hrun : forall genesis all self_ oracle_ ops a b ea eb ra rb,
  ids_determine all -> no_accept all -> Forall (hop_ok all) ops ->
  let st := hrun (init_hg self_ genesis oracle_) ops in
  Ancestry.anc st b a -> get_event st a = Some ea -> get_event st b = Some eb ->
  ev_rr ea = Some ra -> ev_rr eb = Some rb -> ra <= rb.
Proof.
  intros g all s o ops a b ea eb ra rb ID NA H st Hanc Ha Hb Hra Hrb.
  assert (Ra : rr_of st a = Some ra) by (unfold rr_of; rewrite Ha; exact Hra).
  assert (Rb : rr_of st b = Some rb) by (unfold rr_of; rewrite Hb; exact Hrb).
  destruct (rr_spec_run g all ID NA s o ops H a ra Ra) as [r_a [Ma Sa]].
  destruct (rr_spec_run g all ID NA s o ops H b rb Rb) as [r_b [Mb Sb]].
  pose proof (nf_good g all st (hrun_nf g all s o ops ID NA H)) as G.
  apply (rr_monotone_state g st a b ra rb r_a r_b ea eb G Ha Hb Hanc Ma Mb Sa Sb).
Qed.

(* the "proper ancestor" relation of Proofs/OrderProofs.v is contained in Ancestry.anc *)
Lemma oanc_anc st a b : OrderProofs.anc st a b -> Ancestry.anc st b a.
Proof.
  induction 1 as [a b [eb [Hb [Hn Hp]]]|a b c Hab IH [ec [Hc [Hn Hp]]]].
  - apply Ancestry.anc_step with a; [exists eb; split; [exact Hb|split; [exact Hn|destruct Hp; auto]]|constructor].
  - apply Ancestry.anc_step with b; [exists ec; split; [exact Hc|split; [exact Hn|destruct Hp; auto]]|exact IH].
Qed.

Theorem rr_monotone_oanc_hrun : forall genesis all self_ oracle_ ops a b ea eb ra rb,
  ids_determine all -> no_accept all -> Forall (hop_ok all) ops ->
  let st := hrun (init_hg self_ genesis oracle_) ops in
  OrderProofs.anc st a b -> get_event st a = Some ea -> get_event st b = Some eb ->
  ev_rr ea = Some ra -> ev_rr eb = Some rb -> ra <= rb.
Proof.
  intros g all s o ops a b ea eb ra rb ID NA H st Hanc.
  apply (rr_monotone_hrun g all s o ops a b ea eb ra rb ID NA H). apply oanc_anc. exact Hanc.
Qed.

(* the specification itself, for the Properties files *)
Theorem rr_spec_hrun : forall genesis all self_ oracle_ ops x ex i,
  ids_determine all -> no_accept all -> Forall (hop_ok all) ops ->
  let st := hrun (init_hg self_ genesis oracle_) ops in
  get_event st x = Some ex -> ev_rr ex = Some i ->
  exists r, ev_round ex = Some r /\ rrspec genesis st x r i.
Proof.
  intros g all s o ops x ex i ID NA H st Hx Hr.
  assert (R : rr_of st x = Some i) by (unfold rr_of; rewrite Hx; exact Hr).
  destruct (rr_spec_run g all ID NA s o ops H x i R) as [r [Hm Hs]]. exists r. split; [|exact Hs].
  pose proof (nf_good g all st (hrun_nf g all s o ops ID NA H)) as G.
  destruct (memo_of g st G x ex Hx) as [r' [w [Hr' [_ He]]]]. fold st in Hm. congruence.
Qed.

(* with fork freedom stated on the universe of attempted events *)
Theorem rr_agreement_universe : forall genesis all self1 self2 oracle1 oracle2 ops1 ops2 x e1 e2 i1 i2,
  ids_determine all -> fork_free all -> no_accept all -> Forall (hop_ok all) ops1 -> Forall (hop_ok all) ops2 ->
  let st1 := hrun (init_hg self1 genesis oracle1) ops1 in
  let st2 := hrun (init_hg self2 genesis oracle2) ops2 in
  get_event st1 x = Some e1 -> get_event st2 x = Some e2 ->
  ev_rr e1 = Some i1 -> ev_rr e2 = Some i2 -> i1 = i2.
Proof.
  intros g all s1 s2 o1 o2 ops1 ops2 x e1 e2 i1 i2 ID FF NA H1 H2 st1 st2.
  apply (rr_agreement_hrun g all s1 s2 o1 o2 ops1 ops2 x e1 e2 i1 i2 ID NA H1 H2).
  pose proof (hrun_nf g all s1 o1 ops1 ID NA H1) as N1. pose proof (hrun_nf g all s2 o2 ops2 ID NA H2) as N2.
  apply (no_cross_fork_of_universe all); auto;
    [apply (g_dag _ _ (gi_core _ _ (nf_g _ _ _ N1)))|apply (g_dag _ _ (gi_core _ _ (nf_g _ _ _ N2)))
    |apply (g_from _ _ (gi_core _ _ (nf_g _ _ _ N1)))|apply (g_from _ _ (gi_core _ _ (nf_g _ _ _ N2)))].
Qed.
