(* Dynamic membership (model after fix 05eda0b): round-received.  An event x of round r that carries
   round-received i satisfies, in every later state of a run that respects the distance bound: the rounds r+1..i are
   flagged decided, round i is the first of them whose famous witnesses all see x and number at least a super-majority
   of the set the table gives for that round.  Hence round-received agrees between two such nodes whose tables agree.
   Adapted from Proofs/RoundReceived.v. *)
From Coq Require Import ZArith List Bool Lia ZifyBool Permutation.
From RecordUpdate Require Import RecordSet.
From V Require Import Model.ZMap Model.Quorum Model.Voting Model.VotingRef Model.HgImpl Model.PeerSetSpec Model.Window
  Proofs.ZMapFacts Proofs.QuorumProofs Proofs.HgFrames Proofs.HgDagFrames Proofs.AdmissionProofs Proofs.InsertShape Proofs.Ancestry
  Proofs.HgBlockFrames Proofs.BlockInv Proofs.RoundOrder Proofs.OrderFrames Proofs.OrderProofs
  Proofs.VotingProofs Proofs.FameBridge Proofs.Static Proofs.FirstDesc Proofs.FdWalk Proofs.DivInv Proofs.CInvRun
  Proofs.Height Proofs.StronglySee Proofs.RoundFun Proofs.ViewOk Proofs.SameHistory Proofs.Agreement Proofs.NoFail
  Proofs.LrFrames Proofs.FameInv Proofs.LateWitness Proofs.FamousSet Proofs.DecidedFlag Proofs.RoundReceived
  Proofs.PeerSetProofs Proofs.LrMono Proofs.WindowStable Proofs.GapWindow
  Proofs.FirstDescD Proofs.InsertInvD Proofs.DivInvD Proofs.CInvRunD Proofs.StronglySeeD Proofs.RoundFunD Proofs.RoundAgreeD
  Proofs.ViewOkD Proofs.SameHistoryD Proofs.AgreementD Proofs.FameInvD Proofs.LateWitnessD Proofs.FamousSetD Proofs.DecidedFlagD.
Import ListNotations RecordSetNotations.
Open Scope Z_scope.

(** * The specification of round-received with per-round sets *)
(* x, of round r, is received in round i; [rcond g st j x] of RoundReceived.v is read with g = P j *)
Definition rrspecD (P : Z -> peerset) (st : hg) (x r i : Z) : Prop :=
  r < i /\ (forall j, r < j <= i -> flag st j) /\ (forall j, r < j < i -> ~ rcond (P j) st j x) /\ rcond (P i) st i x.

Lemma rrspec_keepD P s s' x r i : tmono s s' -> (forall j, crt s' j = crt s j) -> (forall w, see s' w x = see s w x) ->
  rrspecD P s x r i -> rrspecD P s' x r i.
Proof.
  intros T C S [H1 [H2 [H3 H4]]]. split; [exact H1|]. split; [intros j Hj; apply (tmono_flag s s' j T), H2, Hj|].
  split; [|apply (rcond_keep (P i) s s' i x (C i) S H4)].
  intros j Hj Hc. apply (H3 j Hj). apply (rcond_keep (P j) s' s j x); [symmetry; apply C|intros w; symmetry; apply S|exact Hc].
Qed.

(* the table answers P on every round the state has *)
Definition tblR (P : Z -> peerset) (st : hg) : Prop := forall i, get_round st i <> None -> get_peerset st i = Some (P i).

Lemma gT_tblR P s : gT P s -> tblR P s.
Proof. intros G i Hi. apply (gt_t _ _ G). apply (gt_c _ _ G). exact Hi. Qed.

(** * What the loop of DecideRoundReceived establishes *)
Lemma rr_loop_rrspecD P x r : forall n lo st,
  tblR P st -> lower_bound st = None -> r < lo ->
  (forall j, r < j < lo -> flag st j /\ ~ rcond (P j) st j x) ->
  snd (rr_loop st x (zseq lo n)) = true ->
  exists i ex', rrspecD P (fst (rr_loop st x (zseq lo n))) x r i /\
                get_event (fst (rr_loop st x (zseq lo n))) x = Some ex' /\ ev_rr ex' = Some i.
Proof.
  induction n as [|n IH]; intros lo st Hst Hlb Hlo Pre; cbn [zseq rr_loop]; [discriminate|].
  rename lo into i.
  destruct (get_round st i) as [tr|] eqn:Hg; [|rewrite Hlb; discriminate].
  rewrite (Hst i ltac:(rewrite Hg; discriminate)).
  destruct (witnesses_decided_cases tr (P i)) as [Hc [Hs _]].
  pose proof (witnesses_decided_true tr (P i)) as Htrue.
  destruct (witnesses_decided tr (P i)) as [d tr']. cbn [fst snd] in *.
  set (st1 := st <| rounds := zset i tr' (rounds st) |>).
  assert (Hi : 0 <= i) by (eapply get_round_some_nonneg; eauto).
  assert (T1 : tmono st st1).
  { apply (tmono_zset st st1 i tr tr' Hg); [unfold st1; destruct st; reflexivity|exact Hs|rewrite Hc; apply ent_mono_refl]. }
  assert (C1 : forall j, crt st1 j = crt st j) by (intros j; apply (crt_set_rounds st i tr tr' j Hg Hc)).
  assert (S1 : forall w y, see st1 w y = see st w y) by (apply see_events_only; unfold st1; destruct st; reflexivity).
  assert (Hlb1 : lower_bound st1 = None) by (unfold st1; destruct st; exact Hlb).
  assert (Hst1 : tblR P st1).
  { intros j Hj. replace (get_peerset st1 j) with (get_peerset st j) by (unfold st1; destruct st; reflexivity).
    apply Hst. rewrite (get_round_zset st st1 i tr' j Hi) in Hj by (unfold st1; destruct st; reflexivity).
    destruct (Z.eqb_spec i j) as [E|]; [subst j; rewrite Hg; discriminate|exact Hj]. }
  assert (Hg1 : get_round st1 i = Some tr').
  { rewrite (get_round_zset st st1 i tr' i Hi) by (unfold st1; destruct st; reflexivity). rewrite Z.eqb_refl. reflexivity. }
  assert (Pre1 : forall j, r < j < i -> flag st1 j /\ ~ rcond (P j) st1 j x).
  { intros j Hj. destruct (Pre j Hj) as [A B]. split; [apply (tmono_flag st st1 j T1 A)|].
    intros Hc'. apply B. apply (rcond_keep (P j) st1 st j x); [symmetry; apply C1|intros w; symmetry; apply S1|exact Hc']. }
  destruct d; cbn [negb]; [|rewrite Hlb1; discriminate].
  assert (Fl1 : flag st1 i) by (apply flag_zset; [exact Hi|apply Htrue; reflexivity]).
  assert (Efam : fam st1 i = famous_witnesses tr') by (apply fam_get_round; exact Hg1).
  match goal with |- context [fold_left ?f ?l ?a] => destruct (fold_left f l a) as [sees|] eqn:Hfold end; [|discriminate].
  destruct (sees_fold_count st1 x (famous_witnesses tr') 0 sees Hfold) as [Hrange Hall].
  destruct ((sees =? Z.of_nat (length (famous_witnesses tr'))) && (super_majority (P i) <=? sees)) eqn:Hcond.
  - (* received in round i *)
    destruct (get_event st1 x) as [ex|] eqn:Hx; [|discriminate]. cbn [fst snd]. intros _.
    apply andb_true_iff in Hcond. destruct Hcond as [Hc1 Hc2]. apply Z.eqb_eq in Hc1. apply Z.leb_le in Hc2.
    set (st2 := set_evst st1 x (ex <| ev_rr := Some i |>)).
    set (tr2 := tr' <| ri_received := ri_received tr' ++ [x] |>).
    set (F := set_round st2 i tr2).
    assert (Hg2 : get_round st2 i = Some tr') by (unfold st2, get_round, set_evst; unfold get_round in Hg1; destruct st1; exact Hg1).
    assert (T2a : tmono st1 st2) by (apply tmono_rounds; unfold st2; destruct st1; reflexivity).
    assert (T2 : tmono st1 F).
    { eapply tmono_trans; [exact T2a|].
      apply (tmono_zset st2 F i tr' tr2 Hg2); [unfold F; destruct st2; reflexivity|unfold tr2; destruct tr'; auto|unfold tr2; destruct tr'; apply ent_mono_refl]. }
    assert (C2 : forall j, crt F j = crt st1 j).
    { intros j. unfold crt, F.
      rewrite (get_round_zset st2 (set_round st2 i tr2) i tr2 j Hi) by (destruct st2; reflexivity).
      destruct (Z.eqb_spec i j) as [<-|].
      - rewrite Hg1. cbn. unfold tr2. destruct tr'; reflexivity.
      - unfold st2, get_round, set_evst. destruct st1; reflexivity. }
    assert (S2 : forall w y, see F w y = see st1 w y).
    { intros w y. transitivity (see st2 w y); [apply see_events_only; unfold F; destruct st2; reflexivity|].
      apply see_set_rr. exact Hx. }
    exists i, (ex <| ev_rr := Some i |>). split; [|split; [|destruct ex; reflexivity]].
    + split; [lia|]. split; [|split].
      * intros j Hj. destruct (Z.eq_dec j i) as [->|Hne]; [apply (tmono_flag st1 F i T2 Fl1)|].
        apply (tmono_flag st1 F j T2). apply Pre1. lia.
      * intros j Hj Hc'. destruct (Pre1 j Hj) as [_ B]. apply B.
        apply (rcond_keep (P j) F st1 j x); [symmetry; apply C2|intros w; symmetry; apply S2|exact Hc'].
      * apply (rcond_keep (P i) st1 F i x); [apply C2|intros w; apply S2|].
        unfold rcond. rewrite Efam. split; [apply Hall; lia|lia].
    + unfold F. replace (get_event (set_round st2 i tr2) x) with (get_event st2 x) by (destruct st2; reflexivity).
      unfold st2. rewrite get_event_set_evst, Z.eqb_refl.
      assert (0 <= x) by (eapply zget_some_nonneg; exact Hx). replace (0 <=? x) with true by lia. reflexivity.
  - (* not received in round i: continue *)
    apply (IH (i + 1) st1 Hst1 Hlb1 ltac:(lia)).
    intros j Hj. destruct (Z.eq_dec j i) as [->|Hne]; [|apply Pre1; lia].
    split; [exact Fl1|]. intros [A B]. rewrite Efam in A, B.
    assert (E : sees = Z.of_nat (length (famous_witnesses tr'))) by (apply Hall in A; lia).
    rewrite E, Z.eqb_refl in Hcond. cbn [andb] in Hcond. lia.
Qed.


(** * One event, then the whole pass *)
Lemma decide_rr_one_rrD P s und y : gT P s -> rinv s ->
  (forall x, x <> y -> rr_of (fst (decide_rr_one (s, und) y)) x = rr_of s x) /\
  (forall i, rr_of (fst (decide_rr_one (s, und) y)) y = Some i ->
     rr_of s y = Some i \/ exists r, rmemo s y = Some r /\ rrspecD P (fst (decide_rr_one (s, und) y)) y r i).
Proof.
  intros G R. unfold decide_rr_one. destruct (failed s); [split; [auto|auto]|].
  pose proof (round_f_pureD P (Z.to_nat (topo s)) s y (gt_i _ _ G)) as Hp. unfold fuel_of.
  destruct (round_f (S (Z.to_nat (topo s))) s y) as [[r|] s1] eqn:Erf; cbn [snd] in Hp; subst s1.
  2:{ cbn [fst]. split; [intros x _|intros i H; left; revert H]; unfold rr_of; replace (get_event (fail s)) with (get_event s) by (destruct s; reflexivity); auto. }
  assert (Hr : rmemo s y = Some r).
  { destruct (rmemo s y) as [r'|] eqn:E.
    - rewrite (round_f_memo_hit _ s y r' E) in Erf. inversion Erf. reflexivity.
    - exfalso. cbn [round_f] in Erf. unfold rmemo in E. rewrite E in Erf.
      destruct (get_event s y) as [ey|] eqn:Hy; [|discriminate].
      destruct (cd_all _ _ _ (gt_i _ _ G) y ey Hy ltac:(discriminate)) as [r' [w [Hr' _]]]. unfold rmemo in Hr'. congruence. }
  destruct (rr_loop_spec y (zrange (r + 1) (last_round s)) s) as [Sf St].
  pose proof (rr_loop_rrspecD P y r (Z.to_nat (last_round s - (r + 1) + 1)) (r + 1) s
                (gT_tblR P s G) (r_lb _ (proj1 R)) ltac:(lia) ltac:(intros j Hj; lia)) as Spec.
  rewrite <- zrange_zseq in Spec.
  destruct (rr_loop s y (zrange (r + 1) (last_round s))) as [s' received]. cbn [fst snd] in *.
  destruct received.
  - destruct (St eq_refl) as [i0 [ey [Hy [Gy _]]]]. split.
    + intros x Hne. unfold rr_of. rewrite Gy. destruct (Z.eqb_spec x y); [contradiction|reflexivity].
    + intros i Hi. right. exists r. split; [exact Hr|].
      destruct (Spec eq_refl) as [i' [ex' [Hsp [Hx' Hrr]]]]. unfold rr_of in Hi. rewrite Hx', Hrr in Hi. inversion Hi; subst i'. exact Hsp.
  - pose proof (Sf eq_refl) as K. split.
    + intros x _. unfold rr_of. rewrite (ekeep_get_event _ _ x K). reflexivity.
    + intros i Hi. left. unfold rr_of in *. rewrite (ekeep_get_event _ _ y K) in Hi. exact Hi.
Qed.

Lemma ckeepD_rmemo s s' x : ckeepD s s' -> rmemo s' x = rmemo s x.
Proof. intros K. unfold rmemo. rewrite (kd_rm _ _ K). reflexivity. Qed.

(* after the pass: every round-received that is new satisfies its specification *)
Lemma decide_round_received_rrD P st : gT P st -> rinv st ->
  forall x i, rr_of (decide_round_received st) x = Some i ->
    rr_of st x = Some i \/ exists r, rmemo st x = Some r /\ rrspecD P (decide_round_received st) x r i.
Proof.
  intros G R. unfold decide_round_received.
  assert (H : forall l s und, gT P s -> rinv s -> ckeepD st s ->
              (forall x i, rr_of s x = Some i -> rr_of st x = Some i \/ exists r, rmemo st x = Some r /\ rrspecD P s x r i) ->
              forall x i, rr_of (fst (fold_left decide_rr_one l (s, und))) x = Some i ->
                rr_of st x = Some i \/ exists r, rmemo st x = Some r /\ rrspecD P (fst (fold_left decide_rr_one l (s, und))) x r i).
  { induction l as [|y l IH]; intros s und Gs Rs Ks Q; cbn [fold_left]; [exact Q|].
    destruct (decide_rr_one_rrD P s und y Gs Rs) as [A B].
    pose proof (decide_rr_one_gT P s und y Gs) as G1. pose proof (decide_rr_one_rinv s und y Rs) as R1.
    pose proof (decide_rr_one_ckeepD P s und y (gt_i _ _ Gs)) as K1. pose proof (decide_rr_one_tmono s und y) as T1.
    pose proof (fun j => decide_rr_one_crt s und y j) as C1.
    destruct (decide_rr_one (s, und) y) as [s' und']. cbn [fst] in *.
    apply (IH s' und' G1 R1 (ckeepD_trans _ _ _ Ks K1)).
    intros x i Hx. destruct (Z.eq_dec x y) as [->|Hne].
    - destruct (B i Hx) as [H0|[r [Hr Hsp]]]; [|right; exists r; split; [rewrite <- (ckeepD_rmemo st s y Ks); exact Hr|exact Hsp]].
      destruct (Q y i H0) as [H1|[r [Hr Hsp]]]; [left; exact H1|right; exists r; split; [exact Hr|]].
      apply (rrspec_keepD P s s' y r i T1 C1); [intros w; apply ckeepD_see; exact K1|exact Hsp].
    - rewrite (A x Hne) in Hx. destruct (Q x i Hx) as [H1|[r [Hr Hsp]]]; [left; exact H1|right; exists r; split; [exact Hr|]].
      apply (rrspec_keepD P s s' x r i T1 C1); [intros w; apply ckeepD_see; exact K1|exact Hsp]. }
  specialize (H (undetermined st) st [] G R (ckeepD_refl st) ltac:(intros x i Hx; left; exact Hx)).
  destruct (fold_left decide_rr_one (undetermined st) (st, [])) as [s und]. cbn [fst] in H.
  destruct (failed s); [exact H|].
  intros x i Hx.
  assert (Hx' : rr_of s x = Some i) by (revert Hx; unfold rr_of; replace (get_event (s <| undetermined := und |>)) with (get_event s) by (destruct s; reflexivity); auto).
  destruct (H x i Hx') as [H1|[r [Hr Hsp]]]; [left; exact H1|right; exists r; split; [exact Hr|]].
  apply (rrspec_keepD P s _ x r i); [apply tmono_rounds; destruct s; reflexivity|apply crt_events_only; destruct s; reflexivity| |exact Hsp].
  intros w. apply see_events_only. destruct s; reflexivity.
Qed.

(** * Round-received is not touched before DecideRoundReceived *)
Lemma rr_of_events st st' : events st' = events st -> forall y, rr_of st' y = rr_of st y.
Proof. intros E y. unfold rr_of, get_event. rewrite E. reflexivity. Qed.

Lemma rr_of_okeep s s' y : okeep s s' -> rr_of s' y = rr_of s y.
Proof. intros O. apply rr_of_qkeep, okeep_qkeep, O. Qed.

Lemma rr_of_divide_lt st x y : rr_of (divide_lt st x) y = rr_of st y.
Proof.
  unfold divide_lt. pose proof (nomemo_eq_events _ _ (lamport_f_nomemo (fuel_of st) st x)) as E.
  destruct (lamport_f (fuel_of st) st x) as [[t|] s]; cbn [snd] in E.
  - unfold set_event_lt. destruct (get_event s x) as [ev|] eqn:Hx; [|apply rr_of_events; exact E].
    rewrite <- (rr_of_events st s E y). unfold rr_of. rewrite get_event_set_evst.
    destruct ((x =? y) && (0 <=? x)) eqn:B; [|reflexivity].
    apply andb_true_iff in B. destruct B as [B _]. apply Z.eqb_eq in B. subst y. rewrite Hx. destruct ev; reflexivity.
  - rewrite <- (rr_of_events st s E y). apply rr_of_events. destruct s; reflexivity.
Qed.

Lemma rr_of_divide_one st x y : rr_of (divide_one st x) y = rr_of st y.
Proof.
  unfold divide_one. destruct (failed st); [reflexivity|].
  destruct (get_event st x) as [ev|]; [|apply rr_of_okeep, okeep_fail]. cbv zeta.
  set (st1 := match ev_round ev with Some _ => st | None => divide_round st x end).
  assert (E1 : rr_of st1 y = rr_of st y).
  { subst st1. destruct (ev_round ev); [reflexivity|apply rr_of_okeep, divide_round_okeep]. }
  destruct (failed st1); [exact E1|].
  destruct (get_event st1 x) as [ev1|]; [|rewrite <- E1; apply rr_of_okeep, okeep_fail].
  destruct (ev_lt ev1); [exact E1|]. rewrite rr_of_divide_lt. exact E1.
Qed.

Lemma rr_of_divide_rounds st y : rr_of (divide_rounds st) y = rr_of st y.
Proof.
  unfold divide_rounds. generalize (undetermined st). intros l. revert st.
  induction l as [|x l IH]; intros st; cbn [fold_left]; [reflexivity|]. rewrite IH. apply rr_of_divide_one.
Qed.

(** * One step *)
Section Step.
  Variables (P : Z -> peerset) (all : list event) (st : hg) (o : hop).
  Hypothesis ID : ids_determine all.
  Hypothesis Ho : hop_ok all o.
  Hypothesis Gi : ginv all st.
  Hypothesis LA : la_ok st.
  Hypothesis R : rinv st.
  Hypothesis Hne : peersets st <> [].
  Hypothesis I : cinvD P None st.
  Hypothesis Hf' : failed (hstep st o) = false.
  Hypothesis Tq : forall q, 0 <= q <= last_round (hstep st o) -> get_peerset st q = Some (P q).

  Lemma hstep_rrD : forall x i, rr_of (hstep st o) x = Some i ->
    rr_of st x = Some i \/ exists r, rmemo (hstep st o) x = Some r /\ rrspecD P (hstep st o) x r i.
  Proof.
    intros x i. revert Hf' Tq. destruct o as [e|]; cbn [hstep]; intros Hf' Tq.
    2:{ intros H. left. revert H. unfold rr_of, get_event.
        destruct (cw_fields _ _ (cw_process_sigpool st)) as [Ev _]. rewrite Ev. auto. }
    destruct Ho as [Hin Hid]. revert Hf' Tq. unfold step, insert_and_run.
    pose proof (g_dag _ _ (gi_core _ _ Gi)) as OK. pose proof (g_from _ _ (gi_core _ _ Gi)) as FA.
    pose proof (insert_event_bview st e) as Bv. pose proof (insert_event_rstep st e) as Sr.
    destruct (insert_event st e) as [r0 s] eqn:E. cbn [snd] in Bv, Sr.
    destruct (insert_event_inv st e all r0 s OK FA ID Hin Hid E) as [OK' [FA' Hns]].
    assert (Hrej : r0 <> InsOk -> rr_of (snd (r0, s)) x = Some i ->
              rr_of st x = Some i \/ exists r, rmemo (snd (r0, s)) x = Some r /\ rrspecD P (snd (r0, s)) x r i).
    { intros Hn. rewrite (insert_reject_noop st e r0 s E Hn Hns). auto. }
    destruct r0; try (intros _ _; apply Hrej; discriminate). clear Hrej. cbn [snd]. intros Hf' Tq.
    destruct (insert_cinvD P all st e s OK LA FA ID Hin Hid I E) as [Is Hund].
    assert (Rs' : rinv s) by (apply (rinv_rstep st s R Sr)).
    assert (Hnes : peersets s <> []) by (rewrite (bview_peersets _ _ Bv); exact Hne).
    assert (Hpss : forall q, 0 <= q <= last_round (run_consensus s) -> get_peerset s q = Some (P q))
      by (intros q Hq; rewrite (get_peerset_bview _ _ q Bv); apply Tq; exact Hq).
    destruct (run_consensus_stagesD P s (e_id e) OK' Rs' Hnes Hpss Is Hund Hf') as [Hf1 [Hf2 [Hf3 [Eq [I1 [I2 [I3 [R1 R2]]]]]]]].
    cbv zeta in *. rewrite Eq in *.
    set (s1 := divide_rounds s) in *. set (s2 := decide_fame s1) in *. set (s3 := decide_round_received s2) in *.
    assert (L3 : last_round s3 = last_round s2)
      by (apply (s_lr _ _ (decide_round_received_rstep s2 (proj1 (rinv_bounded _ R2))))).
    pose proof (lrv_process_decided_rounds s3) as L4. unfold LrFrames.lrv in L4.
    assert (L2 : last_round s2 = last_round s1)
      by (apply (fk_lr _ _ (proj1 (decide_fame_fkeep s1 (rinv_contig _ R1))))).
    assert (G2 : gT P s2).
    { constructor; [exact I2|apply rinv_contig; exact R2|apply (r_lr _ (proj1 R2))|].
      intros q Hq. unfold s2, s1. rewrite (get_peerset_bview _ _ q (decide_fame_bview _)).
      rewrite (get_peerset_bview _ _ q (divide_rounds_bview _)). apply Hpss. fold s1 s2 in Hq. lia. }
    destruct (cw_fields _ _ (cw_process_decided_rounds s3)) as [Ev4 [Ro4 [Rm4 _]]].
    intros H4.
    assert (H3 : rr_of s3 x = Some i) by (revert H4; unfold rr_of, get_event; rewrite Ev4; auto).
    destruct (decide_round_received_rrD P s2 G2 R2 x i H3) as [H2|[r [Hr Hsp]]].
    - left.
      assert (Q2 : rr_of s2 x = rr_of s1 x) by (apply rr_of_okeep, decide_fame_okeep).
      assert (Q1 : rr_of s1 x = rr_of s x) by (apply rr_of_divide_rounds).
      rewrite Q2, Q1 in H2.
      destruct (insert_ok_checks st e s E) as [_ [Hsp' _]].
      pose proof (checked_fresh st e all OK FA ID Hin Hsp') as Fresh.
      destruct (insert_ok_shape st e s Fresh Hid E) as [_ [Gs _]].
      unfold rr_of in H2 |- *. pose proof (Gs x) as Gx.
      destruct (Z.eqb_spec x (e_id e)) as [->|Hne'].
      + destruct (get_event s (e_id e)) as [en|]; [|discriminate]. cbn in Gx. unfold ev_b in Gx. inversion Gx. congruence.
      + destruct (get_event s x) as [ex|], (get_event st x) as [ex0|]; cbn in Gx; try discriminate.
        unfold ev_b in Gx. inversion Gx. congruence.
    - right. exists r. split.
      + unfold rmemo. rewrite Rm4. fold (rmemo s3 x).
        rewrite (ckeepD_rmemo s2 s3 x (decide_round_received_ckeepD P s2 I2)). exact Hr.
      + apply (rrspec_keepD P s3 _ x r i); [apply tmono_rounds; exact Ro4|apply crt_events_only; exact Ro4| |exact Hsp].
        intros w. apply see_events_only. exact Ev4.
  Qed.
End Step.

(** * Along a run that respects the distance bound *)
Lemma fam_frecD P st j w : goodD P st -> (In w (fam st j) <-> frec st j w true).
Proof.
  intros G. unfold fam, crt. destruct (get_round st j) as [rj|] eqn:Hg.
  - cbn [option_map]. change (fam_of (ri_created rj)) with (famous_witnesses rj).
    apply (famous_witnesses_frecD P st j rj w G Hg).
  - cbn. split; [intros []|intros [ri [C _]]; congruence].
Qed.

Lemma fam_nodupD P st j : goodD P st -> NoDup (fam st j).
Proof.
  intros G. unfold fam, crt. destruct (get_round st j) as [rj|] eqn:Hg; [|constructor].
  cbn [option_map]. unfold fam_of. apply NoDup_map_fst_filter.
  pose proof (cd_tabu _ _ _ (gD_c _ _ G) j) as U. unfold wl in U. rewrite Hg in U. unfold wl_of in U.
  rewrite map_map in U. cbn [fst] in U. exact U.
Qed.

Section RunD.
  Variables (self_ : Z) (genesis : peerset) (oracle_ : list Z) (all : list event) (ops : list hop).
  Hypothesis Hs : self_ <> -1.
  Hypothesis ID : ids_determine all.
  Hypothesis H : Forall (hop_ok all) ops.
  Hypothesis Hg : gap_runb (init_hg self_ genesis oracle_) ops = true.
  Let init := init_hg self_ genesis oracle_.
  Let pre (k : nat) := hrun init (firstn k ops).
  Variable P : Z -> peerset.
  Hypothesis HP : forall q, 0 <= q <= last_round (hrun init ops) -> P q = psat (hrun init ops) q.


  (* after the flag of round j is set, its famous witnesses are the same in every later state *)
  Lemma fam_stable_preD k j w : failed (pre (S k)) = false -> flag (pre k) j ->
    (In w (fam (pre (S k)) j) <-> In w (fam (pre k) j)).
  Proof.
    unfold pre, init in *. intros Hf Hfl.
    assert (Hfk : failed (hrun (init_hg self_ genesis oracle_) (firstn k ops)) = false).
    { apply (pre_failed_mono self_ genesis oracle_ all ops Hs H Hg P HP k 1). rewrite Nat.add_1_r. exact Hf. }
    destruct (flag_historyD self_ genesis oracle_ all ops Hs ID H Hg P HP k j Hfk Hfl) as [k0 [Hle D]].
    destruct (pre_facts self_ genesis oracle_ all ops Hs ID H Hg P HP k Hfk) as [_ [_ [_ [_ [_ G]]]]].
    destruct (pre_facts self_ genesis oracle_ all ops Hs ID H Hg P HP (S k) Hf) as [_ [_ [_ [_ [_ G']]]]].
    rewrite (fam_frecD P _ j w G'), (fam_frecD P _ j w G).
    assert (E1 : (k0 + (S k - k0) = S k)%nat) by lia. assert (E2 : (k0 + (k - k0) = k)%nat) by lia.
    pose proof (famous_stableD self_ genesis oracle_ all ops Hs ID H Hg P HP k0 (S k - k0) j w) as A1.
    pose proof (famous_stableD self_ genesis oracle_ all ops Hs ID H Hg P HP k0 (k - k0) j w) as A2.
    rewrite E1 in A1. rewrite E2 in A2.
    rewrite (A1 Hf D), (A2 Hfk D). reflexivity.
  Qed.

  Theorem rr_spec_preD k : failed (pre k) = false -> forall x i,
    rr_of (pre k) x = Some i -> exists r, rmemo (pre k) x = Some r /\ rrspecD P (pre k) x r i.
  Proof.
    pose proof fam_stable_preD as FS.
    unfold pre, init in *.
    induction k as [|k IH]; intros Hf x i Hx.
    - exfalso. unfold rr_of in Hx. cbn [firstn hrun fold_left] in Hx. unfold get_event in Hx.
      destruct (cw_fields _ _ (cw_init self_ genesis oracle_)) as [Ev _]. rewrite Ev in Hx. cbn in Hx.
      rewrite zget_empty in Hx. discriminate.
    - destruct (Nat.lt_ge_cases k (length ops)) as [Hk|Hk].
      2:{ assert (E : firstn (S k) ops = firstn k ops) by (rewrite !firstn_all2 by lia; reflexivity).
          rewrite E in *. apply IH; assumption. }
      destruct (pre_step self_ genesis oracle_ all ops Hs H Hg P HP k Hk Hf) as [o [Ho [ES [Hfk Tq]]]].
      destruct (pre_facts self_ genesis oracle_ all ops Hs ID H Hg P HP k Hfk) as [Gi [LA [R [Hne [I G]]]]].
      destruct (pre_facts self_ genesis oracle_ all ops Hs ID H Hg P HP (S k) Hf) as [Gi' [_ [R' [_ [_ G']]]]].
      pose proof (pre_tmono_step self_ genesis oracle_ all ops Hs ID H Hg P HP k Hf) as T.
      specialize (FS k).
      set (st := hrun (init_hg self_ genesis oracle_) (firstn k ops)) in *.
      set (st' := hrun (init_hg self_ genesis oracle_) (firstn (S k) ops)) in *.
      assert (Hf'' : failed (hstep st o) = false) by (rewrite <- ES; exact Hf).
      rewrite ES in Hx.
      destruct (hstep_rrD P all st o ID Ho Gi LA R Hne I Hf'' Tq x i Hx) as [Hold|Hnew]; [|rewrite ES; exact Hnew].
      destruct (IH Hfk x i Hold) as [r [Hr Hsp]].
      assert (SB : same_bodies st st').
      { apply (same_bodies_of_universeD all P P _ _ ID G G'); [apply (g_from _ _ (gi_core _ _ Gi))|apply (g_from _ _ (gi_core _ _ Gi'))]. }
      assert (Sub : forall y, get_event st y <> None -> get_event st' y <> None).
      { intros y Hy. rewrite ES. destruct (get_event st y) as [ey|] eqn:E; [|contradiction].
        destruct (m_e _ _ (proj2 (hstep_ginv all st o ID Ho Gi)) y ey E) as [ey' [E' _]]. rewrite E'. discriminate. }
      assert (Hxs : exists ex, get_event st x = Some ex).
      { unfold rr_of in Hold. destruct (get_event st x) as [ex|]; [eauto|discriminate]. }
      destruct Hxs as [ex Hex].
      assert (Hxs' : get_event st' x <> None) by (apply Sub; rewrite Hex; discriminate).
      destruct (get_event st' x) as [ex'|] eqn:Hex'; [|contradiction].
      exists r. split.
      { destruct (memo_agreeD P P st st' G G' SB (fun q _ _ => eq_refl) x ex ex' Hex Hex') as [Er _]. congruence. }
      assert (RC : forall j, flag st j -> (rcond (P j) st j x <-> rcond (P j) st' j x)).
      { intros j Hfl. apply rcond_same; [apply (fam_nodupD P st j G)|apply (fam_nodupD P st' j G')| |].
        - intros w. apply (FS j w Hf Hfl).
        - intros w Hw. apply (fam_frecD P st j w G) in Hw.
          destruct (wits_storedD P st G j w (frec_witsD P st j w true G Hw)) as [ew Hew].
          assert (Hw' : get_event st' w <> None) by (apply Sub; rewrite Hew; discriminate).
          destruct (get_event st' w) as [ew'|] eqn:Hew'; [|contradiction].
          symmetry. apply (see_agreeD P st st' G G' SB w x ew ew' ex ex' Hew Hew' Hex Hex'). }
      destruct Hsp as [H1 [H2 [H3 H4]]]. split; [exact H1|]. split; [intros j Hj; apply (tmono_flag st st' j T), H2, Hj|].
      split.
      + intros j Hj Hc. apply (H3 j Hj). apply (RC j); [apply H2; lia|exact Hc].
      + apply (RC i); [apply H2; lia|exact H4].
  Qed.
End RunD.

(** * Consequences *)
(* the specification in the final state *)
Theorem rr_spec_gap : forall genesis all self_ oracle_ ops x ex i,
  self_ <> -1 -> ids_determine all -> Forall (hop_ok all) ops ->
  gap_runb (init_hg self_ genesis oracle_) ops = true ->
  let st := hrun (init_hg self_ genesis oracle_) ops in
  failed st = false -> get_event st x = Some ex -> ev_rr ex = Some i ->
  exists r, ev_round ex = Some r /\ rrspecD (psat st) st x r i.
Proof.
  intros g all s o ops x ex i Hs ID H B st F Hx Hr.
  assert (R : rr_of st x = Some i) by (unfold rr_of; rewrite Hx; exact Hr).
  pose proof (rr_spec_preD s g o all ops Hs ID H B (psat st) (fun q _ => eq_refl) (length ops)) as Q.
  cbv zeta beta in Q. rewrite firstn_all in Q. fold st in Q. destruct (Q F x i R) as [r [Hm Hsp]]. exists r. split; [|exact Hsp].
  destruct (gap_goodD s g o all ops Hs ID H B F) as [G _]. fold st in G.
  destruct (memo_ofD _ st G x ex Hx) as [r' [w [Hr' [_ He]]]]. congruence.
Qed.

(* ROUND-RECEIVED AGREEMENT for two nodes that respect the distance bound and whose tables agree *)
Theorem rr_agreement_gap : forall all s1 s2 g1 g2 o1 o2 ops1 ops2 x e1 e2 i1 i2,
  ids_determine all -> s1 <> -1 -> s2 <> -1 ->
  Forall (hop_ok all) ops1 -> Forall (hop_ok all) ops2 ->
  gap_runb (init_hg s1 g1 o1) ops1 = true -> gap_runb (init_hg s2 g2 o2) ops2 = true ->
  let st1 := hrun (init_hg s1 g1 o1) ops1 in
  let st2 := hrun (init_hg s2 g2 o2) ops2 in
  failed st1 = false -> failed st2 = false -> tables_agree st1 st2 -> no_cross_fork st1 st2 ->
  get_event st1 x = Some e1 -> get_event st2 x = Some e2 ->
  ev_rr e1 = Some i1 -> ev_rr e2 = Some i2 -> i1 = i2.
Proof.
  intros all s1 s2 g1 g2 o1 o2 ops1 ops2 x e1 e2 i1 i2 ID S1 S2 H1 H2 B1 B2 st1 st2 F1 F2 T NF H1x H2x Hr1 Hr2.
  destruct (two_runs_common all s1 s2 g1 g2 o1 o2 ops1 ops2 ID S1 S2 H1 H2 B1 B2 F1 F2 T) as [P [G1 [G2 [R1 [R2 [T1 [T2 SB]]]]]]].
  fold st1 in G1, R1, T1, SB. fold st2 in G2, R2, T2, SB.
  assert (HP1 : forall q, 0 <= q <= last_round st1 -> P q = psat st1 q).
  { intros q Hq. pose proof (T1 q Hq) as A. pose proof (psat_some s1 g1 o1 ops1 q S1) as Q. fold st1 in Q. rewrite Q in A. inversion A. reflexivity. }
  assert (HP2 : forall q, 0 <= q <= last_round st2 -> P q = psat st2 q).
  { intros q Hq. pose proof (T2 q Hq) as A. pose proof (psat_some s2 g2 o2 ops2 q S2) as Q. fold st2 in Q. rewrite Q in A. inversion A. reflexivity. }
  assert (Q1 : rr_of st1 x = Some i1) by (unfold rr_of; rewrite H1x; exact Hr1).
  assert (Q2 : rr_of st2 x = Some i2) by (unfold rr_of; rewrite H2x; exact Hr2).
  pose proof (rr_spec_preD s1 g1 o1 all ops1 S1 ID H1 B1 P HP1 (length ops1)) as A. cbv zeta beta in A. rewrite firstn_all in A. fold st1 in A.
  pose proof (rr_spec_preD s2 g2 o2 all ops2 S2 ID H2 B2 P HP2 (length ops2)) as B. cbv zeta beta in B. rewrite firstn_all in B. fold st2 in B.
  destruct (A F1 x i1 Q1) as [r1 [M1 [A1 [A2 [A3 A4]]]]]. destruct (B F2 x i2 Q2) as [r2 [M2 [C1 [C2 [C3 C4]]]]].
  destruct (memo_agreeD P P st1 st2 G1 G2 SB (fun q _ _ => eq_refl) x e1 e2 H1x H2x) as [Er _].
  assert (r1 = r2) by congruence. subst r2.
  (* the condition of a round flagged in both states is the same in both *)
  assert (RC : forall j, flag st1 j -> flag st2 j -> (rcond (P j) st1 j x <-> rcond (P j) st2 j x)).
  { intros j Fl1 Fl2.
    assert (E : forall w, In w (fam st2 j) <-> In w (fam st1 j)).
    { intros w. rewrite (fam_frecD P st2 j w G2), (fam_frecD P st1 j w G1). symmetry.
      apply (famous_agree_flags_gap all s1 s2 g1 g2 o1 o2 ops1 ops2 j w ID S1 S2 H1 H2 B1 B2 F1 F2 T NF Fl1 Fl2). }
    apply rcond_same; [apply (fam_nodupD P st1 j G1)|apply (fam_nodupD P st2 j G2)|exact E|].
    intros w Hw1. pose proof (proj2 (E w) Hw1) as Hw2.
    apply (fam_frecD P st1 j w G1) in Hw1. apply (fam_frecD P st2 j w G2) in Hw2.
    destruct (wits_storedD P st1 G1 j w (frec_witsD P st1 j w true G1 Hw1)) as [e1w H1w].
    destruct (wits_storedD P st2 G2 j w (frec_witsD P st2 j w true G2 Hw2)) as [e2w H2w].
    symmetry. apply (see_agreeD P st1 st2 G1 G2 SB w x e1w e2w e1 e2 H1w H2w H1x H2x). }
  destruct (Z.lt_trichotomy i1 i2) as [Hlt|[Heq|Hgt]]; [exfalso|exact Heq|exfalso].
  - apply (C3 i1 ltac:(lia)). apply (RC i1); [apply A2; lia|apply C2; lia|exact A4].
  - apply (A3 i2 ltac:(lia)). apply (RC i2); [apply A2; lia|apply C2; lia|exact C4].
Qed.

(* with fork freedom stated on the universe of attempted events *)
Theorem rr_agreement_gap_universe : forall all s1 s2 g1 g2 o1 o2 ops1 ops2 x e1 e2 i1 i2,
  ids_determine all -> fork_free all -> s1 <> -1 -> s2 <> -1 ->
  Forall (hop_ok all) ops1 -> Forall (hop_ok all) ops2 ->
  gap_runb (init_hg s1 g1 o1) ops1 = true -> gap_runb (init_hg s2 g2 o2) ops2 = true ->
  let st1 := hrun (init_hg s1 g1 o1) ops1 in
  let st2 := hrun (init_hg s2 g2 o2) ops2 in
  failed st1 = false -> failed st2 = false -> tables_agree st1 st2 ->
  get_event st1 x = Some e1 -> get_event st2 x = Some e2 ->
  ev_rr e1 = Some i1 -> ev_rr e2 = Some i2 -> i1 = i2.
Proof.
  intros all s1 s2 g1 g2 o1 o2 ops1 ops2 x e1 e2 i1 i2 ID FF S1 S2 H1 H2 B1 B2 st1 st2 F1 F2 T.
  apply (rr_agreement_gap all s1 s2 g1 g2 o1 o2 ops1 ops2 x e1 e2 i1 i2 ID S1 S2 H1 H2 B1 B2 F1 F2 T).
  destruct (gap_goodD s1 g1 o1 all ops1 S1 ID H1 B1 F1) as [G1 FA1].
  destruct (gap_goodD s2 g2 o2 all ops2 S2 ID H2 B2 F2) as [G2 FA2].
  apply (no_cross_fork_of_universe all _ _ FF (gD_dag _ _ G1) (gD_dag _ _ G2) FA1 FA2).
Qed.
