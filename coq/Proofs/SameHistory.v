(* Stage S3: two states satisfying the coordinate invariant, sharing event bodies and free of
   forks across each other, are two views of the same history ([same_history]) with G j = the
   round-j witnesses known to either. *)
From Coq Require Import ZArith List Bool Lia ZifyBool Permutation.
From RecordUpdate Require Import RecordSet.
From V Require Import Model.ZMap Model.Quorum Model.Voting Model.VotingRef Model.HgImpl
  Proofs.ZMapFacts Proofs.QuorumProofs Proofs.AdmissionProofs Proofs.Ancestry Proofs.BlockInv Proofs.RoundOrder
  Proofs.VotingProofs Proofs.FameBridge Proofs.Static Proofs.FirstDesc Proofs.DivInv Proofs.Height
  Proofs.StronglySee Proofs.RoundFun Proofs.ViewOk.
Import ListNotations RecordSetNotations.
Open Scope Z_scope.

(* no creator has two different events of the same index across the two states *)
Definition no_cross_fork (s1 s2 : hg) : Prop :=
  forall x1 x2 e1 e2, get_event s1 x1 = Some e1 -> get_event s2 x2 = Some e2 ->
    e_creator (ev_e e1) = e_creator (ev_e e2) -> e_index (ev_e e1) = e_index (ev_e e2) -> x1 = x2.

Lemma no_cross_fork_sym s1 s2 : no_cross_fork s1 s2 -> no_cross_fork s2 s1.
Proof. intros H x1 x2 e1 e2 H1 H2 Hc Hi. symmetry. eapply H; eauto. Qed.

(* a creator's lower event is known wherever a higher one is *)
Lemma shared_down g sa sb wa wb ea eb :
  good g sa -> good g sb -> no_cross_fork sa sb ->
  get_event sa wa = Some ea -> get_event sb wb = Some eb ->
  e_creator (ev_e ea) = e_creator (ev_e eb) -> e_index (ev_e ea) <= e_index (ev_e eb) ->
  exists ea', get_event sb wa = Some ea'.
Proof.
  intros Ga Gb NF Ha Hb Hc Hi.
  pose proof (stored_index_nonneg g sa Ga wa ea Ha) as H0.
  destruct (dag_ok_gap_free sb wb eb (e_index (ev_e ea)) (gd_dag _ _ Gb) Hb ltac:(lia)) as [u [eu [Hu [Hcu Hiu]]]].
  assert (wa = u) by (apply (NF wa u ea eu Ha Hu); congruence). subst u. eauto.
Qed.

Section Two.
  Variables (g : peerset) (st1 st2 : hg).
  Hypothesis G1 : good g st1.
  Hypothesis G2 : good g st2.
  Hypothesis SAME : same_bodies st1 st2.
  Hypothesis NF : no_cross_fork st1 st2.
  Let SAME' := same_bodies_sym _ _ SAME.
  Let NF' := no_cross_fork_sym _ _ NF.

  Definition GW (j : Z) : list Z :=
    wits st1 j ++ filter (fun w => negb (mem_key w (wits st1 j))) (wits st2 j).

  Lemma GW_spec j w : In w (GW j) <-> In w (wits st1 j) \/ In w (wits st2 j).
  Proof.
    unfold GW. rewrite in_app_iff, filter_In. split.
    - intros [H|[H _]]; auto.
    - intros [H|H]; [left; exact H|].
      destruct (mem_key w (wits st1 j)) eqn:E; [left; apply mem_key_In; exact E|right; auto].
  Qed.

  Lemma GW_nodup j : NoDup (GW j).
  Proof.
    unfold GW. apply NoDup_app_intro'; [apply (wits_nodup g st1 G1)|apply NoDup_filter, (wits_nodup g st2 G2)|].
    intros w H1 H2. apply filter_In in H2. destruct H2 as [_ H2].
    apply mem_key_In in H1. rewrite H1 in H2. discriminate.
  Qed.

  (* creator of an event known to either state *)
  Definition cru (w : Z) : Z :=
    match get_event st1 w with
    | Some e => e_creator (ev_e e)
    | None => match get_event st2 w with Some e => e_creator (ev_e e) | None => -1 end
    end.

  Lemma cru_1 w e : get_event st1 w = Some e -> cru w = e_creator (ev_e e).
  Proof. unfold cru. intros ->. reflexivity. Qed.
  Lemma cru_2 w e : get_event st2 w = Some e -> cru w = e_creator (ev_e e).
  Proof.
    unfold cru. intros H. destruct (get_event st1 w) as [e1|] eqn:E1; [|rewrite H; reflexivity].
    rewrite (SAME w e1 e E1 H). reflexivity.
  Qed.

  Lemma wits_cross j a b : In a (wits st1 j) -> In b (wits st2 j) -> cru a = cru b -> a = b.
  Proof.
    intros Ha Hb Hc.
    pose proof (proj1 (wits_spec g st1 G1 j a) Ha) as [Hra Hwa].
    pose proof (proj1 (wits_spec g st2 G2 j b) Hb) as [Hrb Hwb].
    destruct (wits_stored g st1 G1 j a Ha) as [ea Hea]. destruct (wits_stored g st2 G2 j b Hb) as [eb Heb].
    rewrite (cru_1 a ea Hea), (cru_2 b eb Heb) in Hc.
    destruct (Z.le_ge_cases (e_index (ev_e ea)) (e_index (ev_e eb))) as [Hle|Hle].
    - destruct (shared_down g st1 st2 a b ea eb G1 G2 NF Hea Heb Hc Hle) as [ea2 Hea2].
      destruct (memo_agree g st1 st2 G1 G2 SAME a ea ea2 Hea Hea2) as [Er Ew].
      apply (wit_unique g st2 G2 a b ea2 eb j Hea2 Heb); try congruence.
      rewrite <- (SAME a ea ea2 Hea Hea2). exact Hc.
    - destruct (shared_down g st2 st1 b a eb ea G2 G1 NF' Heb Hea (eq_sym Hc) ltac:(lia)) as [eb1 Heb1].
      destruct (memo_agree g st1 st2 G1 G2 SAME b eb1 eb Heb1 Heb) as [Er Ew].
      apply (wit_unique g st1 G1 a b ea eb1 j Hea Heb1); try congruence.
      rewrite (SAME b eb1 eb Heb1 Heb). exact Hc.
  Qed.

  Lemma GW_length j : Z.of_nat (length (GW j)) <= ps_len g.
  Proof.
    unfold ps_len. apply inj_le. rewrite <- (map_length cru).
    apply NoDup_incl_length.
    - apply NoDup_map_inj_in; [apply GW_nodup|].
      intros a b Ha Hb Hc. apply GW_spec in Ha. apply GW_spec in Hb.
      destruct Ha as [Ha|Ha], Hb as [Hb|Hb].
      + pose proof (proj1 (wits_spec g st1 G1 j a) Ha) as [Hra Hwa].
        pose proof (proj1 (wits_spec g st1 G1 j b) Hb) as [Hrb Hwb].
        destruct (wits_stored g st1 G1 j a Ha) as [ea Hea]. destruct (wits_stored g st1 G1 j b Hb) as [eb Heb].
        rewrite (cru_1 a ea Hea), (cru_1 b eb Heb) in Hc.
        apply (wit_unique g st1 G1 a b ea eb j Hea Heb Hc Hwa Hwb Hra Hrb).
      + apply (wits_cross j a b Ha Hb Hc).
      + symmetry. apply (wits_cross j b a Hb Ha (eq_sym Hc)).
      + pose proof (proj1 (wits_spec g st2 G2 j a) Ha) as [Hra Hwa].
        pose proof (proj1 (wits_spec g st2 G2 j b) Hb) as [Hrb Hwb].
        destruct (wits_stored g st2 G2 j a Ha) as [ea Hea]. destruct (wits_stored g st2 G2 j b Hb) as [eb Heb].
        rewrite (cru_2 a ea Hea), (cru_2 b eb Heb) in Hc.
        apply (wit_unique g st2 G2 a b ea eb j Hea Heb Hc Hwa Hwb Hra Hrb).
    - intros c Hc. apply in_map_iff in Hc. destruct Hc as [w [E Hw]]. apply GW_spec in Hw.
      apply dedup_In. apply mem_key_In. destruct Hw as [Hw|Hw].
      + apply (wits_spec g st1 G1) in Hw. destruct Hw as [_ Hw].
        destruct (witness_true g st1 G1 w Hw) as [ew [r [spr [Hew [_ [_ [_ Hm]]]]]]].
        rewrite (cru_1 w ew Hew) in E. subst c. exact Hm.
      + apply (wits_spec g st2 G2) in Hw. destruct Hw as [_ Hw].
        destruct (witness_true g st2 G2 w Hw) as [ew [r [spr [Hew [_ [_ [_ Hm]]]]]]].
        rewrite (cru_2 w ew Hew) in E. subst c. exact Hm.
  Qed.

  (* _ancestor has the same value in both states *)
  Lemma see_agree y x e1y e2y e1x e2x :
    get_event st1 y = Some e1y -> get_event st2 y = Some e2y ->
    get_event st1 x = Some e1x -> get_event st2 x = Some e2x ->
    see st1 y x = see st2 y x.
  Proof.
    intros H1y H2y H1x H2x. unfold see, ancestor. destruct (y =? x); [reflexivity|].
    rewrite H1y, H2y, H1x, H2x. rewrite (SAME x e1x e2x H1x H2x). f_equal.
    destruct (aget (e_creator (ev_e e2x)) (ev_la e1y)) as [[i u]|] eqn:E1.
    - rewrite (la_common g st1 st2 G1 G2 SAME y e1y e2y _ i u H1y H2y E1). reflexivity.
    - destruct (aget (e_creator (ev_e e2x)) (ev_la e2y)) as [[i u]|] eqn:E2; [|reflexivity].
      rewrite (la_common g st2 st1 G2 G1 SAME' y e2y e1y _ i u H2y H1y E2) in E1. discriminate.
  Qed.

  (* strongly seen witnesses of the previous round: from one state to the other *)
  Lemma ssset_transfer sa sb (Ga : good g sa) (Gb : good g sb) (S : same_bodies sa sb) j y w eay eby :
    get_event sa y = Some eay -> get_event sb y = Some eby ->
    In w (wits sa (j - 1)) -> ss_true g sa y w = true ->
    In w (wits sb (j - 1)) /\ ss_true g sb y w = true.
  Proof.
    intros Hay Hby Hw Hss.
    pose proof (ss_anc g sa Ga y w Hss) as Hanc.
    destruct (wits_stored g sa Ga _ w Hw) as [eaw Haw].
    destruct (anc_common g sa sb Ga Gb S y eay eby w Hay Hby Hanc) as [_ [ebw Hbw]].
    destruct (memo_agree g sa sb Ga Gb S w eaw ebw Haw Hbw) as [Er Ew].
    apply (wits_spec g sa Ga) in Hw. destruct Hw as [Hr Hwt]. split.
    - apply (wits_spec g sb Gb). rewrite <- Er, <- Ew. auto.
    - rewrite <- (ss_agree g sa sb Ga Gb S y w eay eby eaw ebw Hay Hby Haw Hbw). exact Hss.
  Qed.

  Theorem same_history_gen sees1 sees2 r :
    (forall y, In y (wits st1 (r + 1)) -> In y (wits st2 (r + 1)) -> sees1 y = sees2 y) ->
    same_history (ps_len g) r (vparams_with st1 sees1) (view_witnesses st1) (last_round st1)
                 (vparams_with st2 sees2) (view_witnesses st2) (last_round st2) GW.
  Proof.
    intros Hsees.
    pose proof (c_static _ _ _ (gd_c _ _ G1)) as S1. pose proof (c_static _ _ _ (gd_c _ _ G2)) as S2.
    constructor.
    - intros y. rewrite (view_witnesses_wits g st1 G1), (view_witnesses_wits g st2 G2). intros Hy1 Hy2.
      cbn [vparams_with vp_sees]. apply Hsees; assumption.
    - intros j y _. rewrite (view_witnesses_wits g st1 G1), (view_witnesses_wits g st2 G2). intros Hy1 Hy2.
      destruct (wits_stored g st1 G1 _ y Hy1) as [e1y H1y]. destruct (wits_stored g st2 G2 _ y Hy2) as [e2y H2y].
      unfold vparams_with. cbn [vp_coin]. unfold coin_of. rewrite H1y, H2y, (SAME y e1y e2y H1y H2y). reflexivity.
    - intros j _. apply GW_nodup.
    - intros j _. apply GW_length.
    - intros j _ w. rewrite (view_witnesses_wits g st1 G1). intros Hw. apply GW_spec. left. exact Hw.
    - intros j _ w. rewrite (view_witnesses_wits g st2 G2). intros Hw. apply GW_spec. right. exact Hw.
    - intros j y w _. rewrite (view_witnesses_wits g st1 G1), (view_witnesses_wits g st2 G2). intros Hy1 Hy2.
      destruct (wits_stored g st1 G1 _ y Hy1) as [e1y H1y]. destruct (wits_stored g st2 G2 _ y Hy2) as [e2y H2y].
      unfold ssset. rewrite !filter_In.
      rewrite (view_witnesses_wits g st1 G1), (view_witnesses_wits g st2 G2).
      rewrite (ssb_ss_true_with g st1 G1), (ssb_ss_true_with g st2 G2).
      split; intros [A B].
      + apply (ssset_transfer st1 st2 G1 G2 SAME j y w e1y e2y H1y H2y A B).
      + apply (ssset_transfer st2 st1 G2 G1 SAME' j y w e2y e1y H2y H1y A B).
  Qed.

  Theorem same_history_reach x r e1x e2x :
    get_event st1 x = Some e1x -> get_event st2 x = Some e2x ->
    same_history (ps_len g) r (vparams_of st1 x) (view_witnesses st1) (last_round st1)
                 (vparams_of st2 x) (view_witnesses st2) (last_round st2) GW.
  Proof.
    intros H1x H2x. rewrite !vparams_of_with. apply same_history_gen.
    intros y Hy1 Hy2.
    destruct (wits_stored g st1 G1 _ y Hy1) as [e1y H1y]. destruct (wits_stored g st2 G2 _ y Hy2) as [e2y H2y].
    apply (see_agree y x e1y e2y e1x e2x); assumption.
  Qed.
End Two.
