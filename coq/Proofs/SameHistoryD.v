(* Dynamic membership: two states satisfying the division invariant for ONE per-round assignment P, whose tables
   answer P on the rounds they have, sharing event bodies and free of forks across each other, are two views of the
   same history ([same_historyD]) with G j = the round-j witnesses known to either.  Adapted from SameHistory.v. *)
From Coq Require Import ZArith List Bool Lia ZifyBool Permutation.
From RecordUpdate Require Import RecordSet.
From V Require Import Model.ZMap Model.Quorum Model.Voting Model.VotingRef Model.VotingRefD Model.HgImpl
  Proofs.ZMapFacts Proofs.QuorumProofs Proofs.AdmissionProofs Proofs.Ancestry Proofs.BlockInv Proofs.RoundOrder
  Proofs.VotingProofs Proofs.VotingProofsD Proofs.FameBridge Proofs.Static Proofs.FirstDesc Proofs.DivInv Proofs.Height
  Proofs.StronglySee Proofs.RoundFun Proofs.ViewOk Proofs.SameHistory
  Proofs.FirstDescD Proofs.StronglySeeD Proofs.RoundFunD Proofs.ViewOkD.
Import ListNotations RecordSetNotations.
Open Scope Z_scope.

(* a creator's lower event is known wherever a higher one is *)
Lemma shared_downD P sa sb wa wb ea eb :
  goodD P sa -> goodD P sb -> no_cross_fork sa sb ->
  get_event sa wa = Some ea -> get_event sb wb = Some eb ->
  e_creator (ev_e ea) = e_creator (ev_e eb) -> e_index (ev_e ea) <= e_index (ev_e eb) ->
  exists ea', get_event sb wa = Some ea'.
Proof.
  intros Ga Gb NF Ha Hb Hc Hi.
  pose proof (stored_index_nonnegD P sa Ga wa ea Ha) as H0.
  destruct (dag_ok_gap_free sb wb eb (e_index (ev_e ea)) (gD_dag _ _ Gb) Hb ltac:(lia)) as [u [eu [Hu [Hcu Hiu]]]].
  assert (wa = u) by (apply (NF wa u ea eu Ha Hu); congruence). subst u. eauto.
Qed.

Section Two.
  Variables (P : Z -> peerset) (st1 st2 : hg).
  Hypothesis G1 : goodD P st1.
  Hypothesis G2 : goodD P st2.
  Hypothesis SAME : same_bodies st1 st2.
  Hypothesis NF : no_cross_fork st1 st2.
  Hypothesis R1 : contig st1.
  Hypothesis R2 : contig st2.
  Hypothesis T1 : forall q, 0 <= q <= last_round st1 -> get_peerset st1 q = Some (P q).
  Hypothesis T2 : forall q, 0 <= q <= last_round st2 -> get_peerset st2 q = Some (P q).
  Let SAME' := same_bodies_sym _ _ SAME.
  Let NF' := no_cross_fork_sym _ _ NF.

  Definition GWD (j : Z) : list Z :=
    wits st1 j ++ filter (fun w => negb (mem_key w (wits st1 j))) (wits st2 j).

  Lemma GW_specD j w : In w (GWD j) <-> In w (wits st1 j) \/ In w (wits st2 j).
  Proof.
    unfold GWD. rewrite in_app_iff, filter_In. split.
    - intros [H|[H _]]; auto.
    - intros [H|H]; [left; exact H|].
      destruct (mem_key w (wits st1 j)) eqn:E; [left; apply mem_key_In; exact E|right; auto].
  Qed.

  Lemma GW_nodupD j : NoDup (GWD j).
  Proof.
    unfold GWD. apply NoDup_app_intro'; [apply (wits_nodupD P st1 G1)|apply NoDup_filter, (wits_nodupD P st2 G2)|].
    intros w H1 H2. apply filter_In in H2. destruct H2 as [_ H2].
    apply mem_key_In in H1. rewrite H1 in H2. discriminate.
  Qed.

  (* creator of an event known to either state *)
  Definition cruD (w : Z) : Z :=
    match get_event st1 w with
    | Some e => e_creator (ev_e e)
    | None => match get_event st2 w with Some e => e_creator (ev_e e) | None => -1 end
    end.

  Lemma cru_1D w e : get_event st1 w = Some e -> cruD w = e_creator (ev_e e).
  Proof. unfold cruD. intros ->. reflexivity. Qed.
  Lemma cru_2D w e : get_event st2 w = Some e -> cruD w = e_creator (ev_e e).
  Proof.
    unfold cruD. intros H. destruct (get_event st1 w) as [e1|] eqn:E1; [|rewrite H; reflexivity].
    rewrite (SAME w e1 e E1 H). reflexivity.
  Qed.

  Lemma wits_crossD j a b : In a (wits st1 j) -> In b (wits st2 j) -> cruD a = cruD b -> a = b.
  Proof.
    intros Ha Hb Hc.
    pose proof (proj1 (wits_specD P st1 G1 j a) Ha) as [Hra Hwa].
    pose proof (proj1 (wits_specD P st2 G2 j b) Hb) as [Hrb Hwb].
    destruct (wits_storedD P st1 G1 j a Ha) as [ea Hea]. destruct (wits_storedD P st2 G2 j b Hb) as [eb Heb].
    rewrite (cru_1D a ea Hea), (cru_2D b eb Heb) in Hc.
    destruct (Z.le_ge_cases (e_index (ev_e ea)) (e_index (ev_e eb))) as [Hle|Hle].
    - destruct (shared_downD P st1 st2 a b ea eb G1 G2 NF Hea Heb Hc Hle) as [ea2 Hea2].
      destruct (memo_agreeD P P st1 st2 G1 G2 SAME (fun q _ _ => eq_refl) a ea ea2 Hea Hea2) as [Er Ew].
      apply (wit_uniqueD P st2 G2 a b ea2 eb j Hea2 Heb); try congruence.
      rewrite <- (SAME a ea ea2 Hea Hea2). exact Hc.
    - destruct (shared_downD P st2 st1 b a eb ea G2 G1 NF' Heb Hea (eq_sym Hc) ltac:(lia)) as [eb1 Heb1].
      destruct (memo_agreeD P P st1 st2 G1 G2 SAME (fun q _ _ => eq_refl) b eb1 eb Heb1 Heb) as [Er Ew].
      apply (wit_uniqueD P st1 G1 a b ea eb1 j Hea Heb1); try congruence.
      rewrite (SAME b eb1 eb Heb1 Heb). exact Hc.
  Qed.

  Lemma GW_lengthD j : Z.of_nat (length (GWD j)) <= ps_len (P j).
  Proof.
    unfold ps_len. apply inj_le. rewrite <- (map_length cruD).
    apply NoDup_incl_length.
    - apply NoDup_map_inj_in; [apply GW_nodupD|].
      intros a b Ha Hb Hc. apply GW_specD in Ha. apply GW_specD in Hb.
      destruct Ha as [Ha|Ha], Hb as [Hb|Hb].
      + pose proof (proj1 (wits_specD P st1 G1 j a) Ha) as [Hra Hwa].
        pose proof (proj1 (wits_specD P st1 G1 j b) Hb) as [Hrb Hwb].
        destruct (wits_storedD P st1 G1 j a Ha) as [ea Hea]. destruct (wits_storedD P st1 G1 j b Hb) as [eb Heb].
        rewrite (cru_1D a ea Hea), (cru_1D b eb Heb) in Hc.
        apply (wit_uniqueD P st1 G1 a b ea eb j Hea Heb Hc Hwa Hwb Hra Hrb).
      + apply (wits_crossD j a b Ha Hb Hc).
      + symmetry. apply (wits_crossD j b a Hb Ha (eq_sym Hc)).
      + pose proof (proj1 (wits_specD P st2 G2 j a) Ha) as [Hra Hwa].
        pose proof (proj1 (wits_specD P st2 G2 j b) Hb) as [Hrb Hwb].
        destruct (wits_storedD P st2 G2 j a Ha) as [ea Hea]. destruct (wits_storedD P st2 G2 j b Hb) as [eb Heb].
        rewrite (cru_2D a ea Hea), (cru_2D b eb Heb) in Hc.
        apply (wit_uniqueD P st2 G2 a b ea eb j Hea Heb Hc Hwa Hwb Hra Hrb).
    - intros c Hc. apply in_map_iff in Hc. destruct Hc as [w [E Hw]]. apply GW_specD in Hw.
      apply dedup_In. apply mem_key_In. destruct Hw as [Hw|Hw].
      + apply (wits_specD P st1 G1) in Hw. destruct Hw as [Hrw Hw].
        destruct (witness_trueD P st1 G1 w Hw) as [ew [r [spr [Hew [Hr' [_ [_ Hm]]]]]]].
        rewrite Hrw in Hr'. inversion Hr'; subst r.
        rewrite (cru_1D w ew Hew) in E. subst c. exact Hm.
      + apply (wits_specD P st2 G2) in Hw. destruct Hw as [Hrw Hw].
        destruct (witness_trueD P st2 G2 w Hw) as [ew [r [spr [Hew [Hr' [_ [_ Hm]]]]]]].
        rewrite Hrw in Hr'. inversion Hr'; subst r.
        rewrite (cru_2D w ew Hew) in E. subst c. exact Hm.
  Qed.

  (* _ancestor has the same value in both states *)
  Lemma see_agreeD y x e1y e2y e1x e2x :
    get_event st1 y = Some e1y -> get_event st2 y = Some e2y ->
    get_event st1 x = Some e1x -> get_event st2 x = Some e2x ->
    see st1 y x = see st2 y x.
  Proof.
    intros H1y H2y H1x H2x. unfold see, ancestor. destruct (y =? x); [reflexivity|].
    rewrite H1y, H2y, H1x, H2x. rewrite (SAME x e1x e2x H1x H2x). f_equal.
    destruct (aget (e_creator (ev_e e2x)) (ev_la e1y)) as [[i u]|] eqn:E1.
    - rewrite (la_commonD P P st1 st2 G1 G2 SAME y e1y e2y _ i u H1y H2y E1). reflexivity.
    - destruct (aget (e_creator (ev_e e2x)) (ev_la e2y)) as [[i u]|] eqn:E2; [|reflexivity].
      rewrite (la_commonD P P st2 st1 G2 G1 SAME' y e2y e1y _ i u H2y H1y E2) in E1. discriminate.
  Qed.

  (* strongly seen witnesses of the previous round: from one state to the other *)
  Lemma ssset_transferD g sa sb (Ga : goodD P sa) (Gb : goodD P sb) (S : same_bodies sa sb) j y w eay eby :
    get_event sa y = Some eay -> get_event sb y = Some eby ->
    In w (wits sa (j - 1)) -> ss_true g sa y w = true ->
    In w (wits sb (j - 1)) /\ ss_true g sb y w = true.
  Proof.
    intros Hay Hby Hw Hss.
    pose proof (ss_ancD P g sa Ga y w Hss) as Hanc.
    destruct (wits_storedD P sa Ga _ w Hw) as [eaw Haw].
    destruct (anc_commonD P P sa sb Ga Gb S y eay eby w Hay Hby Hanc) as [_ [ebw Hbw]].
    destruct (memo_agreeD P P sa sb Ga Gb S (fun q _ _ => eq_refl) w eaw ebw Haw Hbw) as [Er Ew].
    apply (wits_specD P sa Ga) in Hw. destruct Hw as [Hr Hwt]. split.
    - apply (wits_specD P sb Gb). rewrite <- Er, <- Ew. auto.
    - rewrite <- (ss_agreeD P P sa sb Ga Gb S (fun q _ _ => eq_refl) g y w eay eby eaw ebw Hay Hby Haw Hbw). exact Hss.
  Qed.

  Notation M := (Z.min (last_round st1) (last_round st2)).

  Theorem same_history_genD sees1 sees2 r : -1 <= r ->
    (forall y, In y (wits st1 (r + 1)) -> In y (wits st2 (r + 1)) -> sees1 y = sees2 y) ->
    same_historyD (nD P) r (vparams_with st1 sees1) (view_witnesses st1) (last_round st1)
                  (vparams_with st2 sees2) (view_witnesses st2) (last_round st2) GWD.
  Proof.
    intros Hr Hsees.
    assert (VW1 : forall j, 0 <= j <= M -> view_witnesses st1 j = wits st1 j)
      by (intros j Hj; apply (view_witnesses_witsD P st1 T1); lia).
    assert (VW2 : forall j, 0 <= j <= M -> view_witnesses st2 j = wits st2 j)
      by (intros j Hj; apply (view_witnesses_witsD P st2 T2); lia).
    constructor.
    - intros y. destruct (Z_le_gt_dec (r + 1) M) as [Hle|Hgt].
      + rewrite VW1, VW2 by lia. intros Hy1 Hy2. cbn [vparams_with vp_sees]. apply Hsees; assumption.
      + destruct (Z_le_gt_dec (r + 1) (last_round st1)) as [H1|H1].
        * rewrite (view_witnesses_beyondD P st2 R2 T2) by lia. intros _ [].
        * rewrite (view_witnesses_beyondD P st1 R1 T1) by lia. intros [].
    - intros j y Hj. rewrite VW1, VW2 by lia. intros Hy1 Hy2.
      destruct (wits_storedD P st1 G1 _ y Hy1) as [e1y H1y]. destruct (wits_storedD P st2 G2 _ y Hy2) as [e2y H2y].
      unfold vparams_with. cbn [vp_coin]. unfold coin_of. rewrite H1y, H2y, (SAME y e1y e2y H1y H2y). reflexivity.
    - intros j _. apply GW_nodupD.
    - intros j _. apply GW_lengthD.
    - intros j Hj w. rewrite VW1 by lia. intros Hw. apply GW_specD. left. exact Hw.
    - intros j Hj w. rewrite VW2 by lia. intros Hw. apply GW_specD. right. exact Hw.
    - intros j y w Hj. rewrite VW1, VW2 by lia. intros Hy1 Hy2.
      destruct (wits_storedD P st1 G1 _ y Hy1) as [e1y H1y]. destruct (wits_storedD P st2 G2 _ y Hy2) as [e2y H2y].
      unfold ssset. rewrite !filter_In.
      rewrite VW1, VW2 by lia.
      rewrite (ssb_ss_true_withD P st1 T1) by lia. rewrite (ssb_ss_true_withD P st2 T2) by lia.
      split; intros [A B].
      + apply (ssset_transferD (P (j - 1)) st1 st2 G1 G2 SAME j y w e1y e2y H1y H2y A B).
      + apply (ssset_transferD (P (j - 1)) st2 st1 G2 G1 SAME' j y w e2y e1y H2y H1y A B).
  Qed.

  Theorem same_history_reachD x r e1x e2x : -1 <= r ->
    get_event st1 x = Some e1x -> get_event st2 x = Some e2x ->
    same_historyD (nD P) r (vparams_of st1 x) (view_witnesses st1) (last_round st1)
                  (vparams_of st2 x) (view_witnesses st2) (last_round st2) GWD.
  Proof.
    intros Hr H1x H2x. rewrite !vparams_of_with. apply same_history_genD; [exact Hr|].
    intros y Hy1 Hy2.
    destruct (wits_storedD P st1 G1 _ y Hy1) as [e1y H1y]. destruct (wits_storedD P st2 G2 _ y Hy2) as [e2y H2y].
    apply (see_agreeD y x e1y e2y e1x e2x); assumption.
  Qed.
End Two.
