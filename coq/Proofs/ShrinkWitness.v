(* REGRESSION WITNESS for fix 05eda0b (known finding C01-fame-threshold-after-shrink).
   Before the fix DecideFame decided, at a round-j witness y, with the super-majority of the peer-set of round j
   (`t >= jPeerSet.SuperMajority()`), while the votes it counts are those of the round j-1 witnesses that y strongly
   sees with the peer-set of round j-1.  When the set SHRINKS between j-1 and j (5 -> 4: super-majority 4 -> 3), three
   equal votes out of five decided, and two such "decisions" need not intersect in a majority: a second fork under
   dynamic membership, independent of the window (distance bound respected on both nodes, same table, same rounds).
   The fix takes the quorum from the voters' set (round j-1): Model/HgImpl.v [vparams_of], [vp_sm].
   sh: five validators, 64 gossip events (plain gossip DAG, every coin bit true), the first event of creator 0
   carries "peer 4 leaves", accepted in block 0 (round-received 1): the four-peer set governs rounds >= 7.
   x = 35 is creator 4's round-5 witness, seen by the round-6 witnesses 45 (creator 4) and 46 (creator 3) and not by
   42, 43, 44 (creators 2, 1, 0).  Round 7: witness 60 (creator 0) strongly sees all five: 3 no / 2 yes; with the OLD
   quorum 3 >= 3: NOT famous (now: 3 < 4, no decision).  Witnesses 52, 53, 55 (creators 2, 3, 1) strongly see
   42, 43, 45, 46: 2 no / 2 yes, a tie counts as yes; the round-8 witness 62 (no descendant of 60) counts 3 yes,
   3 >= 3 (the four-peer set of round 7 on either rule): FAMOUS.
   Node A receives the events in creation order, node B receives event 60 last (both orders are topological).
   [vparams_old] / [fame_old] below are the pre-fix quorum, used ONLY here: on A's view after event 60 the old rule
   decides "not famous", on B's view (everything but 60) "famous" (sh_regression); before the fix block 4 contained
   transaction 34 on A only (corpus/C01-shrink-fork.json on two real cores, /repo before the fix).  With the fixed
   rule the two nodes agree on this history (sh_facts). *)
From Coq Require Import ZArith List Bool Permutation.
From V Require Import Model.ZMap Model.Quorum Model.Voting Model.HgImpl Model.Window Proofs.AdmissionProofs Proofs.BlockInv
  Proofs.OrderProofs Proofs.Static Proofs.Agreement Proofs.BlockAgree Proofs.WindowWitness Proofs.WindowStable Proofs.GapWindow.
Import ListNotations.
Open Scope Z_scope.

Definition sh_g : peerset := [mkPeer 100 0; mkPeer 101 1; mkPeer 102 2; mkPeer 103 3; mkPeer 104 4].
Definition sh_ev (t : Z * Z * Z * Z * Z) : event :=
  match t with (id, c, ix, sp, op) =>
    mkEvent id c ix sp op 0 true (1000 + id) [id]
            (if (c =? 0) && (ix =? 0) then [mkItx id false (mkPeer 104 4) true true] else []) [] true end.
(* (id, creator, index, self-parent, other-parent), in creation order *)
Definition sh_rows : list (Z * Z * Z * Z * Z) :=
  [(0,0,0,-1,-1); (1,1,0,-1,-1); (2,2,0,-1,-1); (3,3,0,-1,-1); (4,4,0,-1,-1); (5,0,1,0,4); (6,1,1,1,5);
   (7,2,1,2,6); (8,3,1,3,7); (9,4,1,4,8); (10,0,2,5,9); (11,1,2,6,10); (12,2,2,7,11); (13,3,2,8,12);
   (14,4,2,9,13); (15,0,3,10,14); (16,1,3,11,15); (17,2,3,12,16); (18,3,3,13,17); (19,4,3,14,18);
   (20,0,4,15,19); (21,1,4,16,20); (22,2,4,17,21); (23,3,4,18,22); (24,4,4,19,23); (25,0,5,20,24);
   (26,1,5,21,25); (27,2,5,22,26); (28,3,5,23,27); (29,4,5,24,28); (30,0,6,25,29); (31,1,6,26,30);
   (32,2,6,27,31); (33,3,6,28,32); (34,0,7,30,32); (35,4,6,29,33); (36,0,8,34,33); (37,1,7,31,36);
   (38,2,7,32,37); (39,3,7,33,38); (40,0,9,36,39); (41,1,8,37,40); (42,2,8,38,41); (43,1,9,41,42);
   (44,0,10,40,43); (45,4,7,35,43); (46,3,8,39,45); (47,1,10,43,45); (48,2,9,42,47); (49,3,9,46,48);
   (50,4,8,45,49); (51,1,11,47,50); (52,2,10,48,51); (53,3,10,49,52); (54,4,9,50,53); (55,1,12,51,54);
   (56,2,11,52,44); (57,4,10,54,44); (58,1,13,55,56); (59,1,14,58,57); (60,0,11,44,59); (61,2,12,56,59);
   (62,3,11,53,61); (63,1,15,59,62)].
Definition sh_all : list event := map sh_ev sh_rows.
(* the second order: event 60 last *)
Definition sh_ordb : list Z :=
  [0; 1; 2; 3; 4; 5; 6; 7; 8; 9; 10; 11; 12; 13; 14; 15; 16; 17; 18; 19; 20; 21; 22; 23; 24; 25; 26; 27; 28;
   29; 30; 31; 32; 33; 34; 35; 36; 37; 38; 39; 40; 41; 42; 43; 44; 45; 46; 47; 48; 49; 50; 51; 52; 53; 54;
   55; 56; 57; 58; 59; 61; 62; 63; 60].
Definition sh_all' : list event := map (fun i => nth (Z.to_nat i) sh_all (sh_ev (0, 0, 0, 0, 0))) sh_ordb.

Lemma sh_premises :
  ids_determine sh_all /\ sigkeys_determine sh_all /\ fork_free sh_all /\
  Forall (hop_ok sh_all) (map HInsert sh_all) /\ Forall (hop_ok sh_all) (map HInsert sh_all') /\
  (length sh_ordb = 64%nat /\ forallb (fun i => existsb (Z.eqb i) sh_ordb) (zseq 0 64) = true).
Proof.
  split; [apply ids_determine_distinct; vm_compute; reflexivity|].
  split; [apply sigkeys_determine_distinct; vm_compute; reflexivity|].
  split; [apply fork_freeb_sound; vm_compute; reflexivity|].
  split; [apply hop_ok_inserts; vm_compute; reflexivity|].
  split; [|vm_compute; split; reflexivity].
  assert (R : forallb (fun i => (0 <=? i) && (i <? 64)) sh_ordb = true) by (vm_compute; reflexivity).
  assert (L : length sh_all = 64%nat) by (vm_compute; reflexivity).
  assert (F : forallb (fun e => 0 <=? e_id e) sh_all = true) by (vm_compute; reflexivity).
  rewrite forallb_forall in R, F.
  apply Forall_forall. intros o Ho. apply in_map_iff in Ho. destruct Ho as [e [<- He]].
  unfold sh_all' in He. apply in_map_iff in He. destruct He as [i [<- Hi]].
  specialize (R i Hi). apply andb_prop in R. destruct R as [R1 R2]. apply Z.leb_le in R1. apply Z.ltb_lt in R2.
  assert (Hin : In (nth (Z.to_nat i) sh_all (sh_ev (0, 0, 0, 0, 0))) sh_all) by (apply (nth_In_len _ _ _ 64%nat L); apply Nat2Z.inj_lt; rewrite Z2Nat.id by exact R1; exact R2).
  cbn [hop_ok]. split; [exact Hin|]. apply Z.leb_le. apply F. exact Hin.
Qed.

Local Notation SA := (hrun (init_hg 0 sh_g []) (map HInsert sh_all)) (only parsing).
Local Notation SB := (hrun (init_hg 1 sh_g []) (map HInsert sh_all')) (only parsing).

(* witnesses of a round with their fame *)
Definition fame_row (st : hg) (r : Z) : list (Z * trilean) :=
  match get_round st r with
  | Some ri => map (fun e => (fst e, snd (snd e))) (filter (fun e => fst (snd e)) (ri_created ri))
  | None => [] end.

(* with the fixed quorum the two nodes agree on this history *)
Lemma sh_facts :
  forallb e_coin sh_all = true /\
  gap_runb (init_hg 0 sh_g []) (map HInsert sh_all) = true /\ gap_runb (init_hg 1 sh_g []) (map HInsert sh_all') = true /\
  window_runb (init_hg 0 sh_g []) (map HInsert sh_all) = true /\ window_runb (init_hg 1 sh_g []) (map HInsert sh_all') = true /\
  let sa := SA in let sb := SB in
  failed sa = false /\ failed sb = false /\
  peersets sa = peersets sb /\ map (fun p => (fst p, length (snd p))) (peersets sa) = [(0, 5%nat); (7, 4%nat)] /\
  map (rnd sa) (zseq 0 64) = map (rnd sb) (zseq 0 64) /\
  fame_row sa 5 = [(35, TTrue); (36, TTrue); (37, TTrue); (38, TTrue); (39, TTrue)] /\
  fame_row sb 5 = [(35, TTrue); (36, TTrue); (37, TTrue); (38, TTrue); (39, TTrue)] /\
  length (delivered sa) = 6%nat /\
  map (fun b => (b_index b, b_rr b, b_txs b)) (delivered sa) = map (fun b => (b_index b, b_rr b, b_txs b)) (delivered sb) /\
  option_map (fun b => (b_index b, b_rr b, b_txs b)) (nth_error (delivered sa) 4) = Some (4, 5, [28; 29; 30; 31; 32; 33]).
Proof. vm_compute. repeat split; reflexivity. Qed.

(** * The quorum before the fix *)
Definition vparams_old (st : hg) (x : Z) : vparams :=
  mkVP (fun y => see st y x)
       (fun j => match get_round st (j - 1) with Some ri => Some (witnesses ri) | None => None end)
       (fun j y w => match get_peerset st (j - 1) with
                     | Some pps => strongly_see st y w pps
                     | None => None end)
       (fun j => match get_peerset st j with Some ps => Some (super_majority ps) | None => None end)
       (coin_of st).
Definition fame_old (st : hg) (x r : Z) : option (option bool) :=
  fame_loop (vparams_old st x) (round_witnesses st) r (zrange (r + 1) st.(last_round)) [].

(* A60: node A after event 60 (creation order); B63: node B after everything but 60 *)
Lemma sh_regression :
  let a60 := hrun (init_hg 0 sh_g []) (map HInsert (firstn 61 sh_all)) in
  let b63 := hrun (init_hg 1 sh_g []) (map HInsert (firstn 63 sh_all')) in
  nth_error sh_all 60 = Some (sh_ev (60, 0, 11, 44, 59)) /\ nth_error sh_all' 63 = Some (sh_ev (60, 0, 11, 44, 59)) /\
  failed a60 = false /\ failed b63 = false /\ last_round a60 = 7 /\ last_round b63 = 8 /\
  (* the old rule: two different decisions on two views of one DAG *)
  fame_old a60 35 5 = Some (Some false) /\ fame_old b63 35 5 = Some (Some true) /\
  (* the fixed rule: no decision at 60; "famous" at 62 on both *)
  fame_of a60 35 5 = Some None /\ fame_of b63 35 5 = Some (Some true) /\
  fame_of (hrun (init_hg 0 sh_g []) (map HInsert sh_all)) 35 5 = Some (Some true).
Proof. vm_compute. repeat split; reflexivity. Qed.
