(* C09: block signatures, anchor, self signatures -- invariants of every operation sequence.
   Built on the commit / process_sig footprints and the lifting section of PeerSetProofs.v. *)
From Coq Require Import ZArith List Bool Lia ZifyBool Sorted.
From RecordUpdate Require Import RecordSet.
From V Require Import Model.ZMap Model.Quorum Model.Voting Model.HgImpl Model.PeerSetSpec
  Proofs.ZMapFacts Proofs.QuorumProofs Proofs.HgFrames Proofs.HgBlockFrames Proofs.HgSigFrames
  Proofs.BlockInv Proofs.PeerSetProofs.
Import ListNotations RecordSetNotations.
Open Scope Z_scope.
Ltac Zify.zify_post_hook ::= Z.div_mod_to_equations.

(** * association lists *)
Lemma In_aget_some {A} (l : list (Z * A)) x w : In (x, w) l -> exists w', aget x l = Some w'.
Proof.
  induction l as [|[a b] l IH]; intros HI; [destruct HI|]. cbn [aget].
  destruct (Z.eqb_spec a x); [eauto|]. destruct HI as [E|HI]; [inversion E; subst; contradiction|auto].
Qed.

Lemma aget_In_fst {A} (l : list (Z * A)) x w : aget x l = Some w -> In x (map fst l).
Proof.
  induction l as [|[a b] l IH]; intros HI; [discriminate|]. cbn [aget] in HI. cbn [map fst].
  destruct (Z.eqb_spec a x); [left; auto|right; auto].
Qed.

Lemma aset_keys_NoDup {A} k (v : A) l : NoDup (map fst l) -> NoDup (map fst (aset k v l)).
Proof.
  induction l as [|[k' v'] r IH]; cbn [aset map fst]; intros H.
  - constructor; [intros []|constructor].
  - inversion H; subst. destruct (Z.eqb_spec k' k) as [->|Hne]; cbn [map fst]; [constructor; auto|].
    constructor; [|apply IH; auto].
    intros HI. apply in_map_iff in HI. destruct HI as [[k0 v0] [E HI]]. cbn in E; subst k0.
    destruct (In_aget_some _ _ _ HI) as [w' Hw'].
    rewrite aget_aset_other in Hw' by auto. apply H2. eapply aget_In_fst; eauto.
Qed.

Lemma aset_length_ge {A} k (v : A) l : (length l <= length (aset k v l))%nat.
Proof.
  induction l as [|[k' v'] r IH]; cbn [aset length]; [lia|]. destruct (Z.eqb k' k); cbn [length]; lia.
Qed.

Lemma aget_In {A} k (v : A) l : aget k l = Some v -> In (k, v) l.
Proof.
  induction l as [|[k' v'] r IH]; cbn [aget]; [discriminate|].
  destruct (Z.eqb_spec k' k) as [->|]; [intros H; inversion H; left; reflexivity|right; auto].
Qed.

Lemma aget_aset_cases {A} k k' (v v' : A) l :
  aget k' (aset k v l) = Some v' -> (k' = k /\ v' = v) \/ (k' <> k /\ aget k' l = Some v').
Proof.
  destruct (Z.eq_dec k k') as [->|Hne].
  - rewrite aget_aset_same. intros H; inversion H; auto.
  - rewrite aget_aset_other by auto. intros H. right. split; [congruence|exact H].
Qed.

Lemma sigpool_add_In l s t : In t (sigpool_add l s) -> In t l \/ t = s.
Proof.
  unfold sigpool_add. rewrite in_app_iff. intros [H|[H|[]]]; [|right; auto].
  apply filter_In in H. left. apply H.
Qed.

Lemma fold_sigpool_add_In sigs : forall l t, In t (fold_left sigpool_add sigs l) -> In t l \/ In t sigs.
Proof.
  induction sigs as [|s sigs IH]; intros l t H; cbn [fold_left] in H; [left; exact H|].
  destruct (IH _ _ H) as [X|X]; [|right; right; exact X].
  destruct (sigpool_add_In _ _ _ X) as [Y|Y]; [left; exact Y|right; left; auto].
Qed.

(** * stored blocks and delivered blocks *)
Lemma body_fields b d : body b = body d ->
  b_index b = b_index d /\ b_rr b = b_rr d /\ b_bodyid b = b_bodyid d /\ b_itxs b = b_itxs d.
Proof. unfold body. destruct b, d; cbn. intros H; inversion H; subst. auto. Qed.

Lemma stored_delivered st i b :
  binv st -> zget i (blocks st) = Some b ->
  exists d, nth_error (delivered st) (Z.to_nat i) = Some d /\ In d (delivered st) /\ body b = body d.
Proof.
  intros OK Hb. destruct (b_idx st OK _ _ Hb) as [_ Hr]. pose proof (b_len st OK) as Hl.
  destruct (nth_error (delivered st) (Z.to_nat i)) as [d|] eqn:E.
  - exists d. split; [reflexivity|]. split; [eapply nth_error_In; eauto|].
    destruct (b_del st OK _ _ E) as [_ [b' [Hb' [Bd _]]]]. rewrite Z2Nat.id in Hb' by lia. congruence.
  - apply nth_error_None in E. lia.
Qed.

(** * ProcessSigPool, one signature *)
Definition sig_accepts (st : hg) (s : bsig) (b : block) (ps : peerset) : Prop :=
  zget (bs_index s) (blocks st) = Some b /\ get_peerset st (b_rr b) = Some ps /\
  mem_key (bs_validator s) (keys ps) = true /\ bs_over s = b_bodyid b.

Definition sig_recorded (b : block) (s : bsig) : block :=
  b <| b_sigs := aset (bs_validator s) (bs_over s) (b_sigs b) |>.

Lemma sig_recorded_fields b s :
  b_index (sig_recorded b s) = b_index b /\ b_rr (sig_recorded b s) = b_rr b /\
  b_bodyid (sig_recorded b s) = b_bodyid b /\ b_sigs (sig_recorded b s) = aset (bs_validator s) (bs_over s) (b_sigs b).
Proof. destruct b; cbn. auto. Qed.

(* C09_recorded_valid at the moment of recording: ProcessSigPool changes a block only by adding a
   signature (i) for a stored block, (ii) whose signer is in the peer set the table gives NOW for
   the block's round-received, (iii) over the node's own body of that block *)
Lemma process_sig_spec st s :
  binv st ->
  process_sig st s = st \/
  exists b ps, sig_accepts st s b ps /\
    (forall i, zget i (blocks (process_sig st s)) = if i =? bs_index s then Some (sig_recorded b s) else zget i (blocks st)) /\
    last_block (process_sig st s) = last_block st /\
    anchor (process_sig st s) =
      (if (trust_count ps <? Z.of_nat (length (b_sigs (sig_recorded b s)))) &&
          (match anchor st with None => true | Some a => a <? bs_index s end)
       then Some (bs_index s) else anchor st) /\
    sigpool (process_sig st s) = filter (fun t => negb (sig_key_eq t s)) (sigpool st).
Proof.
  intros OK. unfold process_sig.
  destruct (zget (bs_index s) (blocks st)) as [b|] eqn:Hb; [|left; reflexivity].
  destruct (get_peerset st (b_rr b)) as [ps|] eqn:Hp; [|left; reflexivity].
  destruct (mem_key (bs_validator s) (keys ps)) eqn:Hm; cbn [negb]; [|left; reflexivity].
  destruct (Z.eqb_spec (bs_over s) (b_bodyid b)) as [Ho|]; cbn [negb]; [|left; reflexivity].
  right. exists b, ps. split; [repeat split; auto|]. cbv zeta.
  fold (sig_recorded b s). destruct (sig_recorded_fields b s) as (F1 & F2 & F3 & F4).
  destruct (b_idx st OK _ _ Hb) as [Hi Hr].
  rewrite set_anchor_block_eq.
  set (b' := sig_recorded b s) in *. set (st1 := store_set_block st b').
  assert (Hg : get_peerset st1 (b_rr b') = Some ps).
  { rewrite F2. subst st1. unfold get_peerset in *. destruct st; exact Hp. }
  assert (Ha : anchor st1 = anchor st) by (subst st1; destruct st; reflexivity).
  split; [|split; [|split]].
  - intros i. match goal with |- zget i (blocks ?x) = _ => change (blocks x) with (blocks st1) end.
    subst st1. rewrite zget_blocks_store by lia. rewrite F1, Hi. reflexivity.
  - match goal with |- last_block ?x = _ => change (last_block x) with (last_block st1) end.
    subst st1. rewrite last_block_store. lia.
  - match goal with |- anchor ?x = _ => change (anchor x) with (new_anchor st1 b') end.
    unfold new_anchor. rewrite Hg, Ha, F1, Hi. reflexivity.
  - match goal with |- sigpool ?x = _ =>
      change (sigpool x) with (filter (fun t => negb (sig_key_eq t s)) (sigpool (st1 <| anchor := new_anchor st1 b' |>))) end.
    f_equal; try (subst st1; destruct st; reflexivity).
Qed.

(** * commit, with everything the invariants need *)
Lemma commit_facts g s f :
  binv s -> frame_ok f -> c10inv g s ->
  let b := block_of_frame (last_block s + 1) f s in
  exists bps bf, commit_post s b (commit (store_set_block s b) b) bps bf /\
    b_sigs b = [] /\ b_index b = last_block s + 1 /\ 0 <= b_rr b /\
    b_index bf = b_index b /\ b_rr bf = b_rr b /\ b_bodyid bf = hd (-1) (oracle s) /\
    b_sigs bf = (if mem_key (self s) (keys bps) then [(self s, hd (-1) (oracle s))] else []) /\
    (forall r, r < b_rr b + 6 -> get_peerset (commit (store_set_block s b) b) r = get_peerset s r).
Proof.
  intros OK FO CI. cbv zeta.
  destruct (fresh_block_facts s f OK FO) as (Bs & Bk & Bi & Br & Br0 & Bf & Bp).
  set (b := block_of_frame (last_block s + 1) f s) in *.
  destruct (commit_spec s b Bs Bk (c_self _ _ CI) (table_wf_nonempty _ (c_wf _ _ CI))) as [bps [bf CP]].
  exists bps, bf. split; [exact CP|].
  unfold commit_post in CP. cbv zeta in CP.
  destruct CP as (C1 & C2 & C3 & C4 & C5 & C6 & C7 & C8 & C9 & C10 & C11 & C12).
  destruct (committed_fields b (hd (-1) (oracle s))
              (if mem_key (self s) (keys bps) then [(self s, hd (-1) (oracle s))] else []))
    as (G1 & G2 & G3 & G4 & G5 & G6 & G7).
  rewrite <- C2 in *.
  repeat split; auto.
  intros r Hr. unfold get_peerset. apply (f_equal fst) in C6. cbn [fst] in C6. rewrite C6.
  unfold replay_block. rewrite G2. apply (replay_step_no_retro (peersets s, validators s)); auto.
  exact (c_wf _ _ CI).
Qed.

(** * the table only grows *)
Lemma replay_step_incl acc rr itxs k ps : In (k, ps) (fst acc) -> In (k, ps) (fst (replay_step acc rr itxs)).
Proof.
  intros H. unfold replay_step. destruct (snd (apply_receipts (snd acc) itxs)); [|exact H].
  destruct (table_has (rr + 6) (fst acc)); [exact H|]. cbn [fst]. apply insert_In. right; exact H.
Qed.

Lemma sorted_snoc_inv (ds : list block) d :
  rr_increasing_list (ds ++ [d]) -> rr_increasing_list ds /\ forall d', In d' ds -> b_rr d' < b_rr d.
Proof.
  unfold rr_increasing_list. rewrite map_app. cbn [map]. intros S. split; [eapply sorted_app_l; eauto|].
  intros d' Hd'. eapply sorted_snoc_lt; [exact S|apply in_map; exact Hd'].
Qed.

(* more than TrustCount signatures is more than a third of the distinct validators; any
   signature when the set has at most one peer *)
Lemma trust_gt_third ps k : trust_count ps < k -> 3 * k > ps_len ps.
Proof.
  unfold trust_count, tc. pose proof (ps_len_le_slice ps) as L.
  assert (N : 0 <= ps_len ps) by (unfold ps_len; lia).
  destruct (ps_slice_len ps <=? 1) eqn:E; intros H; lia.
Qed.

Lemma trust_single ps k : ps_slice_len ps <= 1 -> 1 <= k -> trust_count ps < k.
Proof. unfold trust_count, tc. intros H Hk. replace (ps_slice_len ps <=? 1) with true by lia. lia. Qed.

(** * the C09 invariant *)
Definition sigs_attributed (e : event) : Prop := forall s, In s (e_sigs e) -> bs_validator s = e_creator e.

Section C09.
  Variable genesis : peerset.
  Variable E : list event.     (* ghost: the events handed to InsertEvent, accepted or not *)
  Variable Att : bsig -> event -> Prop.   (* what the wire layer guarantees about a signature in an event *)

  (* the signature came in the payload of one of those events (and, with Att := "keyed by the
     creator", is attributed to the creator of that event) *)
  Definition carried (s : bsig) : Prop :=
    exists e, In e E /\ In s (e_sigs e) /\ Att s e.
  Definition Qev (e : event) : Prop := In e E /\ forall s, In s (e_sigs e) -> Att s e.

  Record c09inv (st : hg) : Prop := {
    s_c10 : c10inv genesis st;
    s_nodup : forall i b, zget i (blocks st) = Some b -> NoDup (map fst (b_sigs b));
    s_members : rr_increasing_list (delivered st) ->
      forall i b v o, zget i (blocks st) = Some b -> aget v (b_sigs b) = Some o ->
      exists ps, get_peerset st (b_rr b) = Some ps /\ mem_key v (keys ps) = true;
    s_members_some : forall i b v o, zget i (blocks st) = Some b -> aget v (b_sigs b) = Some o ->
      exists k ps, In (k, ps) (peersets st) /\ mem_key v (keys ps) = true;
    s_anchor : forall a, anchor st = Some a -> exists b, zget a (blocks st) = Some b /\
      (exists k ps, In (k, ps) (peersets st) /\ trust_count ps < Z.of_nat (length (b_sigs b))) /\
      (rr_increasing_list (delivered st) ->
       exists ps, get_peerset st (b_rr b) = Some ps /\ trust_count ps < Z.of_nat (length (b_sigs b)));
    s_self : forall s, In s (self_sigs st) -> bs_validator s = self st /\ 0 <= bs_index s /\
      exists d, nth_error (delivered st) (Z.to_nat (bs_index s)) = Some d /\ b_index d = bs_index s /\ bs_over s = b_bodyid d;
    s_pool : forall s, In s (sigpool st) -> carried s;
    s_attr : forall i b v o, zget i (blocks st) = Some b -> aget v (b_sigs b) = Some o ->
      v = self st \/ carried (mkBsig v i o)
  }.

  Lemma c09inv_ext_gen st st' :
    pview st' = pview st -> (forall s, In s (sigpool st') -> carried s) -> c09inv st -> c09inv st'.
  Proof.
    intros V HP [H1 H2 H3 H4 H5 H6 H7 H8].
    pose proof (c10inv_ext genesis st st' V H1) as H1'. unfold pview in V.
    assert (E1 : blocks st' = blocks st) by congruence. assert (E2 : delivered st' = delivered st) by congruence.
    assert (E3 : peersets st' = peersets st) by congruence. assert (E4 : anchor st' = anchor st) by congruence.
    assert (E5 : self st' = self st) by congruence. assert (E6 : self_sigs st' = self_sigs st) by congruence.
    constructor; unfold get_peerset in *; rewrite ?E1, ?E2, ?E3, ?E4, ?E5, ?E6; auto.
  Qed.

  Lemma c09inv_ext st st' : pview st' = pview st -> sigpool st' = sigpool st -> c09inv st -> c09inv st'.
  Proof. intros V S H. apply (c09inv_ext_gen st st' V); [|exact H]. rewrite S. apply (s_pool st H). Qed.

  Lemma c09inv_insert st st' e :
    Qev e -> c09inv st -> pview st' = pview st -> sigpool st' = fold_left sigpool_add (e_sigs e) (sigpool st) -> c09inv st'.
  Proof.
    intros [QI QA] H V S. apply (c09inv_ext_gen st st' V); [|exact H]. rewrite S. intros s Hs.
    destruct (fold_sigpool_add_In _ _ _ Hs) as [X|X]; [apply (s_pool st H); exact X|].
    exists e. auto.
  Qed.

  Lemma c09inv_commit s f :
    binv s -> finv s -> frame_ok f -> c09inv s ->
    let b := block_of_frame (last_block s + 1) f s in c09inv (commit (store_set_block s b) b).
  Proof.
    intros OK FI FO H. cbv zeta.
    pose proof (c10inv_commit genesis s f OK FI FO (s_c10 s H)) as CI'. cbv zeta in CI'.
    destruct (commit_facts genesis s f OK FO (s_c10 s H)) as [bps [bf (CP & Bs & Bi & Br0 & Fi & Fr & Fid & Fs & NR)]].
    set (b := block_of_frame (last_block s + 1) f s) in *.
    set (s' := commit (store_set_block s b) b) in *.
    unfold commit_post in CP. cbv zeta in CP.
    destruct CP as (C1 & C2 & C3 & C4 & C5 & C6 & C7 & C8 & C9 & C10 & C11 & C12).
    pose proof (b_lb s OK) as Hlb.
    (* old blocks keep their slot *)
    assert (Old : forall i b0, zget i (blocks s) = Some b0 -> zget i (blocks s') = Some b0 /\ i <> b_index b).
    { intros i b0 Hb0. destruct (b_idx s OK _ _ Hb0) as [_ Hr]. rewrite C3.
      destruct (Z.eqb_spec i (b_index b)); [lia|auto]. }
    assert (Cases : forall i b0, zget i (blocks s') = Some b0 ->
                      (i = b_index b /\ b0 = bf) \/ (i <> b_index b /\ zget i (blocks s) = Some b0)).
    { intros i b0. rewrite C3. destruct (Z.eqb_spec i (b_index b)); [intros X; inversion X; auto|auto]. }
    assert (Grow : forall k ps, In (k, ps) (peersets s) -> In (k, ps) (peersets s')).
    { intros k ps HI. apply (f_equal fst) in C6. cbn [fst] in C6. rewrite C6. unfold replay_block.
      apply (replay_step_incl (peersets s, validators s)). exact HI. }
    assert (Bps : exists k, In (k, bps) (peersets s)) by (apply (get_In (b_rr b)); exact C1).
    assert (NewSig : forall v o, aget v (b_sigs bf) = Some o -> v = self s /\ mem_key (self s) (keys bps) = true).
    { intros v o. rewrite Fs. destruct (mem_key (self s) (keys bps)); [|discriminate]. cbn [aget].
      destruct (Z.eqb_spec (self s) v); [auto|discriminate]. }
    assert (NewGet : get_peerset s' (b_rr bf) = Some bps) by (rewrite Fr, NR by lia; exact C1).
    (* under increasing round-received, older blocks are out of reach of the new table entry *)
    assert (OldGet : rr_increasing_list (delivered s') -> forall i b0, zget i (blocks s) = Some b0 ->
                     get_peerset s' (b_rr b0) = get_peerset s (b_rr b0)).
    { intros S i b0 Hb0. rewrite C5 in S. destruct (sorted_snoc_inv _ _ S) as [_ Lt].
      destruct (stored_delivered s i b0 OK Hb0) as [d [_ [Hd Bd]]]. destruct (body_fields _ _ Bd) as (_ & Er & _).
      specialize (Lt d Hd). apply NR. lia. }
    constructor.
    - exact CI'.
    - intros i b0 Hb0. destruct (Cases i b0 Hb0) as [[_ ->]|[_ X]]; [|eapply (s_nodup s H); eauto].
      rewrite Fs. destruct (mem_key _ _); cbn; repeat constructor. intros [].
    - intros S i b0 v o Hb0 Hv. destruct (Cases i b0 Hb0) as [[_ ->]|[_ X]].
      + destruct (NewSig v o Hv) as [-> M]. exists bps. auto.
      + rewrite (OldGet S i b0 X). rewrite C5 in S. destruct (sorted_snoc_inv _ _ S) as [S0 _].
        eapply (s_members s H S0); eauto.
    - intros i b0 v o Hb0 Hv. destruct (Cases i b0 Hb0) as [[_ ->]|[_ X]].
      + destruct (NewSig v o Hv) as [-> M]. destruct Bps as [k Hk]. exists k, bps. auto.
      + destruct (s_members_some s H i b0 v o X Hv) as [k [ps [A B]]]. exists k, ps. auto.
    - intros a Ha. rewrite C7 in Ha.
      destruct ((trust_count bps <? Z.of_nat (length (b_sigs bf))) &&
                match anchor s with Some a0 => a0 <? b_index b | None => true end) eqn:Cond.
      + inversion Ha; subst a. exists bf. split; [rewrite C3, Z.eqb_refl; reflexivity|].
        assert (T : trust_count bps < Z.of_nat (length (b_sigs bf))) by lia.
        split; [destruct Bps as [k Hk]; exists k, bps; auto|]. intros _. exists bps. auto.
      + destruct (s_anchor s H a Ha) as [b0 [Hb0 [[k [ps [A B]]] Cnd]]]. exists b0.
        split; [apply (Old a b0 Hb0)|]. split; [exists k, ps; auto|].
        intros S. rewrite (OldGet S a b0 Hb0). rewrite C5 in S. destruct (sorted_snoc_inv _ _ S) as [S0 _]. auto.
    - intros t Ht. rewrite C9.
      assert (OldS : In t (self_sigs s) -> bs_validator t = self s /\ 0 <= bs_index t /\
                exists d, nth_error (delivered s') (Z.to_nat (bs_index t)) = Some d /\ b_index d = bs_index t /\ bs_over t = b_bodyid d).
      { intros X. destruct (s_self s H t X) as [A [B [d [D1 D2]]]]. split; [exact A|]. split; [exact B|].
        exists d. split; [rewrite C5; apply nth_error_app1_some'; exact D1|exact D2]. }
      rewrite C8 in Ht. destruct (mem_key (self s) (keys bps)); [|auto].
      destruct (sigpool_add_In _ _ _ Ht) as [X| ->]; [auto|]. cbn [bs_validator bs_index bs_over].
      split; [reflexivity|]. split; [lia|]. exists bf. rewrite C5.
      pose proof (b_len s OK) as Hl.
      assert (Hn : Z.to_nat (b_index b) = length (delivered s)) by lia.
      rewrite Hn, nth_error_app2, Nat.sub_diag by lia. cbn. auto.
    - intros t. rewrite C10. apply (s_pool s H).
    - intros i b0 v o Hb0 Hv. rewrite C9. destruct (Cases i b0 Hb0) as [[_ ->]|[_ X]].
      + destruct (NewSig v o Hv) as [-> _]. left; reflexivity.
      + eapply (s_attr s H); eauto.
  Qed.

  Lemma c09inv_sig st s : binv st -> finv st -> c09inv st -> carried s -> c09inv (process_sig st s).
  Proof.
    intros OK _ H Rs.
    destruct (process_sig_spec st s OK) as [Eq|[b [ps [(A1 & A2 & A3 & A4) (B1 & B2 & B3 & B4)]]]]; [rewrite Eq; exact H|].
    destruct (process_sig_rest st s) as (R1 & R2 & R3 & R4 & R5 & R6).
    destruct (sig_recorded_fields b s) as (F1 & F2 & F3 & F4).
    set (st' := process_sig st s) in *.
    assert (Gp : forall r, get_peerset st' r = get_peerset st r) by (intros r; unfold get_peerset; rewrite R2; reflexivity).
    assert (Cases : forall i b0, zget i (blocks st') = Some b0 ->
                      (i = bs_index s /\ b0 = sig_recorded b s) \/ (i <> bs_index s /\ zget i (blocks st) = Some b0)).
    { intros i b0. rewrite B1. destruct (Z.eqb_spec i (bs_index s)); [intros X; inversion X; auto|auto]. }
    assert (Pse : exists k, In (k, ps) (peersets st)) by (apply (get_In (b_rr b)); exact A2).
    constructor.
    - apply c10inv_sig. exact (s_c10 st H).
    - intros i b0 Hb0. destruct (Cases i b0 Hb0) as [[_ ->]|[_ X]]; [|eapply (s_nodup st H); eauto].
      rewrite F4. apply aset_keys_NoDup. eapply (s_nodup st H); eauto.
    - rewrite R1. intros S i b0 v o Hb0 Hv. rewrite Gp. destruct (Cases i b0 Hb0) as [[_ ->]|[_ X]].
      + rewrite F2. rewrite F4 in Hv. destruct (aget_aset_cases _ _ _ _ _ Hv) as [[-> _]|[_ Y]].
        * exists ps. auto.
        * eapply (s_members st H S); eauto.
      + eapply (s_members st H S); eauto.
    - rewrite R2. intros i b0 v o Hb0 Hv. destruct (Cases i b0 Hb0) as [[_ ->]|[_ X]].
      + rewrite F4 in Hv. destruct (aget_aset_cases _ _ _ _ _ Hv) as [[-> _]|[_ Y]].
        * destruct Pse as [k Hk]. exists k, ps. auto.
        * eapply (s_members_some st H); eauto.
      + eapply (s_members_some st H); eauto.
    - rewrite R1, R2. intros a Ha. rewrite B3 in Ha.
      destruct ((trust_count ps <? Z.of_nat (length (b_sigs (sig_recorded b s)))) &&
                match anchor st with Some a0 => a0 <? bs_index s | None => true end) eqn:Cond.
      + inversion Ha; subst a. exists (sig_recorded b s). split; [rewrite B1, Z.eqb_refl; reflexivity|].
        assert (T : trust_count ps < Z.of_nat (length (b_sigs (sig_recorded b s)))) by lia.
        split; [destruct Pse as [k Hk]; exists k, ps; auto|]. intros _. exists ps. rewrite Gp, F2. auto.
      + destruct (s_anchor st H a Ha) as [b0 [Hb0 [[k [ps0 [X Y]]] Cnd]]].
        destruct (Z.eq_dec a (bs_index s)) as [->|Hne].
        * assert (b0 = b) by congruence. subst b0. exists (sig_recorded b s).
          split; [rewrite B1, Z.eqb_refl; reflexivity|].
          pose proof (aset_length_ge (bs_validator s) (bs_over s) (b_sigs b)) as Lg. rewrite F4.
          split; [exists k, ps0; split; [exact X|lia]|].
          intros S. destruct (Cnd S) as [ps1 [P1 P2]]. exists ps1. rewrite Gp, F2. split; [exact P1|lia].
        * exists b0. split; [rewrite B1; destruct (Z.eqb_spec a (bs_index s)); [contradiction|exact Hb0]|].
          split; [exists k, ps0; auto|]. intros S. destruct (Cnd S) as [ps1 [P1 P2]]. exists ps1. rewrite Gp. auto.
    - rewrite R6, R4, R1. apply (s_self st H).
    - intros t. rewrite B4. intros Ht. apply filter_In in Ht. apply (s_pool st H). apply Ht.
    - rewrite R4. intros i b0 v o Hb0 Hv. destruct (Cases i b0 Hb0) as [[-> ->]|[_ X]].
      + rewrite F4 in Hv. destruct (aget_aset_cases _ _ _ _ _ Hv) as [[-> ->]|[_ Y]].
        * right. destruct s; exact Rs.
        * eapply (s_attr st H); eauto.
      + eapply (s_attr st H); eauto.
  Qed.

  Lemma c09inv_init self_ oracle_ : self_ <> -1 -> c09inv (init_hg self_ genesis oracle_).
  Proof.
    intros Hs. destruct (init_hg_spec self_ genesis oracle_) as (B & _ & D & Pt & V & A & S & _ & SS & SP & _).
    constructor; rewrite ?B, ?A, ?SS, ?SP.
    - apply c10inv_init; exact Hs.
    - intros i b. rewrite zget_empty. discriminate.
    - intros _ i b v o. rewrite zget_empty. discriminate.
    - intros i b v o. rewrite zget_empty. discriminate.
    - discriminate.
    - intros s [].
    - intros s [].
    - intros i b v o. rewrite zget_empty. discriminate.
  Qed.

  Theorem hrun_c09inv self_ oracle_ ops :
    self_ <> -1 -> Forall (op_ok Qev) ops -> c09inv (hrun (init_hg self_ genesis oracle_) ops).
  Proof.
    intros Hs Ho.
    apply (hrun_lift Qev c09inv carried c09inv_ext c09inv_insert c09inv_commit (fun st s H => s_pool st H s) c09inv_sig ops); auto.
    - apply binv_init.
    - apply finv_init.
    - apply c09inv_init; exact Hs.
  Qed.
End C09.

(* the events of an operation list *)
Fixpoint events_of (ops : list hop) : list event :=
  match ops with
  | [] => []
  | HInsert e :: r => e :: events_of r
  | HSigPool :: r => events_of r
  end.

(* the wire layer attributes every gossiped signature to the creator of the event that carries it
   (ReadWireInfo: wevent.BlockSignatures(creatorBytes)) *)
Definition keyed_by_creator (s : bsig) (e : event) : Prop := bs_validator s = e_creator e.
Definition wire_attributed (ops : list hop) : Prop := Forall sigs_attributed (events_of ops).

Lemma ops_ok_events (A : bsig -> event -> Prop) ops :
  Forall (fun e => forall s, In s (e_sigs e) -> A s e) (events_of ops) -> Forall (op_ok (Qev (events_of ops) A)) ops.
Proof.
  intros W. assert (G : forall E, incl (events_of ops) E -> Forall (op_ok (Qev E A)) ops).
  { induction ops as [|o ops IH]; intros E HI; [constructor|].
    destruct o as [e|]; cbn [events_of] in *.
    - inversion W; subst. constructor; [constructor; split; [apply HI; left; reflexivity|assumption]|].
      apply IH; auto. intros x Hx. apply HI. right; exact Hx.
    - constructor; [constructor|apply IH; auto]. }
  apply G. apply incl_refl.
Qed.

(* with the wire guarantee: provenance and attribution of every pool entry / recorded signature *)
Theorem reach_c09inv_attr self_ genesis oracle_ ops :
  self_ <> -1 -> wire_attributed ops ->
  c09inv genesis (events_of ops) keyed_by_creator (hrun (init_hg self_ genesis oracle_) ops).
Proof. intros Hs W. apply hrun_c09inv; [exact Hs|apply ops_ok_events; exact W]. Qed.

(* without any assumption on the events (adversarial payloads included) *)
Theorem reach_c09inv self_ genesis oracle_ ops :
  self_ <> -1 -> c09inv genesis (events_of ops) (fun _ _ => True) (hrun (init_hg self_ genesis oracle_) ops).
Proof.
  intros Hs. apply hrun_c09inv; [exact Hs|apply ops_ok_events]. apply Forall_forall. intros e _ s _. exact I.
Qed.

(** * the anchor never moves backwards (no reset in hrun) *)
Section AnchorMono.
  Variable genesis : peerset.
  Variable a0 : Z.
  Definition anchor_ge (st : hg) : Prop := c10inv genesis st /\ exists a', anchor st = Some a' /\ a0 <= a'.

  Lemma anchor_ge_ext st st' : pview st' = pview st -> anchor_ge st -> anchor_ge st'.
  Proof.
    intros V [H1 H2]. split; [eapply c10inv_ext; eauto|]. unfold pview in V.
    assert (E : anchor st' = anchor st) by congruence. rewrite E. exact H2.
  Qed.

  Lemma anchor_ge_commit s f :
    binv s -> finv s -> frame_ok f -> anchor_ge s ->
    let b := block_of_frame (last_block s + 1) f s in anchor_ge (commit (store_set_block s b) b).
  Proof.
    intros OK FI FO [H1 [a' [Ha Hle]]]. cbv zeta. split; [apply c10inv_commit; auto|].
    destruct (commit_facts genesis s f OK FO H1) as [bps [bf (CP & _)]].
    unfold commit_post in CP. cbv zeta in CP. destruct CP as (_ & _ & _ & _ & _ & _ & C7 & _).
    rewrite Ha in C7. rewrite C7.
    match goal with |- context [if ?c then _ else _] => destruct c eqn:Cond end; [|eauto].
    eexists. split; [reflexivity|]. lia.
  Qed.

  Lemma anchor_ge_sig st s : binv st -> finv st -> anchor_ge st -> anchor_ge (process_sig st s).
  Proof.
    intros OK _ [H1 [a' [Ha Hle]]]. split; [apply c10inv_sig; exact H1|].
    destruct (process_sig_spec st s OK) as [Eq|[b [ps [_ (_ & _ & B3 & _)]]]]; [rewrite Eq; eauto|].
    rewrite Ha in B3. rewrite B3.
    match goal with |- context [if ?c then _ else _] => destruct c eqn:Cond end; [|eauto].
    eexists. split; [reflexivity|]. lia.
  Qed.
End AnchorMono.

Theorem anchor_monotone self_ genesis oracle_ ops ops' a :
  self_ <> -1 -> anchor (hrun (init_hg self_ genesis oracle_) ops) = Some a ->
  exists a', anchor (hrun (init_hg self_ genesis oracle_) (ops ++ ops')) = Some a' /\ a <= a'.
Proof.
  intros Hs Ha. rewrite hrun_app.
  destruct (hrun_c10inv self_ genesis oracle_ ops Hs) as [FI CI].
  pose proof (hrun_binv self_ genesis oracle_ ops) as OK.
  destruct (hrun_lift0 (anchor_ge genesis a) (anchor_ge_ext genesis a) (anchor_ge_commit genesis a)
              (anchor_ge_sig genesis a) ops' _ OK FI) as [_ [_ R]]; [|exact R].
  split; [exact CI|]. exists a. split; [exact Ha|lia].
Qed.

(** * the headline form of the anchor guarantee *)
Lemma anchor_third genesis E Att st a :
  binv st -> c09inv genesis E Att st -> rr_increasing_list (delivered st) -> anchor st = Some a ->
  exists b ps, zget a (blocks st) = Some b /\ get_peerset st (b_rr b) = Some ps /\
    NoDup (map fst (b_sigs b)) /\
    (forall v, In v (map fst (b_sigs b)) -> In v (keys ps) /\ aget v (b_sigs b) = Some (b_bodyid b)) /\
    3 * Z.of_nat (length (map fst (b_sigs b))) > ps_len ps.
Proof.
  intros OK H S Ha. destruct (s_anchor _ _ _ _ H a Ha) as [b [Hb [_ Cnd]]].
  destruct (Cnd S) as [ps [Hp Ht]]. exists b, ps. split; [exact Hb|]. split; [exact Hp|].
  split; [eapply (s_nodup _ _ _ _ H); eauto|]. split.
  - intros v Hv. apply in_map_iff in Hv. destruct Hv as [[v' o] [Ev HI]]. cbn in Ev; subst v'.
    destruct (In_aget_some _ _ _ HI) as [o' Ho'].
    destruct (s_members _ _ _ _ H S a b v o' Hb Ho') as [ps' [Hp' Hm]].
    assert (ps' = ps) by congruence. subst ps'. split; [apply mem_key_In; exact Hm|].
    rewrite Ho'. f_equal. exact (b_valid st OK a b Hb v o' Ho').
  - rewrite map_length. apply trust_gt_third. exact Ht.
Qed.
