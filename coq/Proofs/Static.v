(* Static membership: when no stored event carries an internal transaction that the application
   accepts, the peer-set table keeps its single genesis entry for ever, so every peer-set lookup
   returns the genesis set. *)
From Coq Require Import ZArith List Bool Lia ZifyBool.
From RecordUpdate Require Import RecordSet.
From V Require Import Model.ZMap Model.Quorum Model.Voting Model.HgImpl
  Proofs.ZMapFacts Proofs.HgFrames Proofs.HgDagFrames Proofs.AdmissionProofs Proofs.HgBlockFrames
  Proofs.BlockInv.
Import ListNotations RecordSetNotations.
Open Scope Z_scope.

Definition static (g : peerset) (st : hg) : Prop := peersets st = [(0, g)].

(* no attempted event carries an internal transaction with a positive receipt *)
Definition no_accept (all : list event) : Prop :=
  forall e t, In e all -> In t (e_itxs e) -> itx_accept t = false.

Lemma get_peerset_static g st r : static g st -> get_peerset st r = Some g.
Proof.
  unfold static, get_peerset, ps_table_get. intros ->.
  destruct (r <? 0) eqn:E; [reflexivity|]. cbn [ps_table_get_le].
  replace (0 <=? r) with true by lia. reflexivity.
Qed.

Lemma bview_peersets st st' : bview st' = bview st -> peersets st' = peersets st.
Proof. unfold bview. intros H. inversion H. reflexivity. Qed.

Lemma set_peerset_fold_peersets (r : Z) (ps : peerset) : forall st,
  peersets (fold_left (fun s p =>
     let s := s <| repertoire := if rep_mem (pkey p) s.(repertoire) then s.(repertoire) else s.(repertoire) ++ [p] |> in
     let s := s <| first_rounds := add_first_round (pid p) r s.(first_rounds) |> in
     if zmem (pkey p) s.(pevents) then s else s <| pevents := zset (pkey p) new_pidx s.(pevents) |>) ps st)
  = peersets st.
Proof.
  induction ps as [|p rest IH]; intros st; cbn [fold_left]; [reflexivity|].
  rewrite IH. cbv zeta. destruct (zmem _ _); destruct st; reflexivity.
Qed.

Lemma static_init self_ g oracle_ : static g (init_hg self_ g oracle_).
Proof.
  unfold static, init_hg, set_peerset. cbn [empty_hg peersets existsb].
  change (peersets (?s <| validators := g |> <| oracle := oracle_ |>)) with (peersets s).
  rewrite set_peerset_fold_peersets. reflexivity.
Qed.

(** * commit with no accepted internal transaction *)
Lemma process_receipts_noaccept st rr itxs :
  (forall t, In t itxs -> itx_accept t = false) -> process_receipts st rr itxs = st.
Proof.
  intros H. unfold process_receipts.
  assert (E : forall acc, fold_left (fun (acc : peerset * bool) t =>
      if itx_accept t then
        (if itx_add t then with_new (fst acc) (itx_peer t) else with_removed (fst acc) (itx_peer t), true)
      else acc) itxs acc = acc).
  { induction itxs as [|t rest IH]; intros acc; cbn [fold_left]; [reflexivity|].
    rewrite (H t (or_introl eq_refl)). apply IH. intros t' Ht'. apply H. right. exact Ht'. }
  rewrite E. reflexivity.
Qed.

Lemma peersets_store_set_block st b : peersets (store_set_block st b) = peersets st.
Proof. destruct st; reflexivity. Qed.
Lemma peersets_deliver st b : peersets (deliver st b) = peersets st.
Proof. destruct st; reflexivity. Qed.
Lemma peersets_set_anchor_block st b : peersets (set_anchor_block st b) = peersets st.
Proof.
  unfold set_anchor_block. destruct (get_peerset st (b_rr b)); [|reflexivity].
  destruct (_ && _); [destruct st|]; reflexivity.
Qed.
Lemma sign_block_itxs st b bps : b_itxs (fst (sign_block st b bps)) = b_itxs b.
Proof. unfold sign_block. destruct (mem_key _ _); reflexivity. Qed.
Lemma peersets_sign_block st b bps : peersets (snd (sign_block st b bps)) = peersets st.
Proof. unfold sign_block. destruct (mem_key _ _); cbn [snd]; [destruct st|]; reflexivity. Qed.

Lemma commit_peersets st b :
  (forall t, In t (b_itxs b) -> itx_accept t = false) -> peersets (commit st b) = peersets st.
Proof.
  intros H. unfold commit. destruct (self st =? -1); [apply peersets_deliver|]. cbv zeta.
  set (st0 := st <| oracle := _ |>).
  assert (P0 : peersets st0 = peersets st) by (destruct st; reflexivity).
  match goal with |- context [store_set_block st0 ?b1] => set (bb := b1) end.
  assert (Hbb : b_itxs bb = b_itxs b) by reflexivity.
  destruct (get_peerset (store_set_block st0 bb) (b_rr bb)) as [bps|].
  - pose proof (sign_block_itxs (store_set_block st0 bb) bb bps) as Hi.
    pose proof (peersets_sign_block (store_set_block st0 bb) bb bps) as Hp.
    destruct (sign_block (store_set_block st0 bb) bb bps) as [b2 st2]. cbn [fst snd] in *.
    rewrite peersets_deliver, process_receipts_noaccept.
    + rewrite peersets_set_anchor_block, Hp, peersets_store_set_block. exact P0.
    + intros t Ht. apply H. rewrite <- Hbb, <- Hi. exact Ht.
  - rewrite peersets_deliver, peersets_store_set_block. exact P0.
Qed.

Lemma events_add_consensus_events l : forall s, events (fold_left add_consensus_event l s) = events s.
Proof. induction l as [|fe r IH]; intros s; cbn [fold_left]; [reflexivity|]. rewrite IH. destruct s; reflexivity. Qed.
Lemma peersets_add_consensus_events l : forall s, peersets (fold_left add_consensus_event l s) = peersets s.
Proof. induction l as [|fe r IH]; intros s; cbn [fold_left]; [reflexivity|]. rewrite IH. destruct s; reflexivity. Qed.

Lemma block_of_frame_itxs all idx f s t :
  from_attempts s all -> no_accept all -> In t (b_itxs (block_of_frame idx f s)) -> itx_accept t = false.
Proof.
  intros FA NA. unfold block_of_frame. cbn [b_itxs]. intros Ht.
  apply in_flat_map in Ht. destruct Ht as [fe [_ Ht]].
  destruct (get_event s (fe_id fe)) as [e|] eqn:He; [|destruct Ht].
  eapply NA; [eapply FA; exact He|exact Ht].
Qed.

Lemma process_frame_peersets all s f :
  from_attempts s all -> no_accept all -> peersets (process_frame s f) = peersets s.
Proof.
  intros FA NA. unfold process_frame. destruct (f_events f) as [|fe rest] eqn:E; [reflexivity|].
  cbv zeta. set (s1 := fold_left add_consensus_event (fe :: rest) s).
  assert (P1 : peersets s1 = peersets s) by apply peersets_add_consensus_events.
  assert (FA1 : from_attempts s1 all).
  { intros x es Hx. apply (FA x es). unfold get_event in *. subst s1. rewrite events_add_consensus_events in Hx. exact Hx. }
  set (b := block_of_frame _ _ _).
  assert (Hb : forall t, In t (b_itxs b) -> itx_accept t = false).
  { intros t Ht. eapply block_of_frame_itxs; eauto. }
  destruct (b_txs b), (b_itxs b) eqn:Ei; try exact P1;
    (rewrite commit_peersets; [rewrite peersets_store_set_block; exact P1|rewrite Ei; exact Hb]).
Qed.

Lemma peersets_get_frame st rr : peersets (snd (get_frame st rr)) = peersets st.
Proof.
  unfold get_frame.
  destruct (zget rr (frames st)); [reflexivity|].
  destruct (get_round st rr); [|reflexivity].
  destruct (get_peerset st rr); [|reflexivity].
  match goal with |- context [fold_left ?f ?l ?a] => destruct (fold_left f l a) end; [|reflexivity].
  match goal with |- context [fold_left ?f (repertoire st) ?a] => destruct (fold_left f (repertoire st) a) end;
    [|reflexivity].
  cbn [snd]. destruct st; reflexivity.
Qed.

Lemma peersets_bump s r : peersets (bump_last_consensus s r) = peersets s.
Proof.
  unfold bump_last_consensus. destruct (last_consensus s) as [l|]; [destruct (l <? r)|];
    try reflexivity; destruct s; reflexivity.
Qed.
Lemma peersets_fail s : peersets (fail s) = peersets s.
Proof. destruct s; reflexivity. Qed.

Lemma process_round_peersets all s processed stop pr :
  from_attempts s all -> no_accept all ->
  peersets (fst (fst (process_round (s, processed, stop) pr))) = peersets s.
Proof.
  intros FA NA. unfold process_round.
  destruct (stop || failed s); [reflexivity|].
  destruct (negb (snd pr)); [reflexivity|].
  destruct (get_round s (fst pr)); [|apply peersets_fail].
  pose proof (get_frame_frame s (fst pr)) as F.
  pose proof (peersets_get_frame s (fst pr)) as P.
  destruct (get_frame s (fst pr)) as [[f|] s1]; cbn [fst snd] in *.
  - rewrite peersets_bump, (process_frame_peersets all); [exact P| |exact NA].
    eapply from_attempts_frame; eauto.
  - rewrite peersets_fail. exact P.
Qed.

Lemma process_decided_rounds_peersets all st :
  from_attempts st all -> no_accept all -> peersets (process_decided_rounds st) = peersets st.
Proof.
  intros FA NA. unfold process_decided_rounds.
  assert (G : forall l s p b, from_attempts s all ->
              peersets (fst (fst (fold_left process_round l (s, p, b)))) = peersets s).
  { induction l as [|pr rest IH]; intros s p b FAs; cbn [fold_left]; [reflexivity|].
    pose proof (process_round_peersets all s p b pr FAs NA) as P.
    pose proof (process_round_frame s p b pr) as F.
    destruct (process_round (s, p, b) pr) as [[s' p'] b']. cbn [fst] in *.
    rewrite IH; [exact P|]. eapply from_attempts_frame; eauto. }
  specialize (G (pending st) st [] false FA).
  destruct (fold_left process_round (pending st) (st, [], false)) as [[s processed] stop]. cbn [fst] in G.
  rewrite <- G. destruct s; reflexivity.
Qed.

Lemma run_consensus_peersets all st :
  from_attempts st all -> no_accept all -> peersets (run_consensus st) = peersets st.
Proof.
  intros FA NA. unfold run_consensus.
  pose proof (divide_rounds_frame st) as F1. pose proof (bview_peersets _ _ (divide_rounds_bview st)) as P1.
  set (s1 := divide_rounds st) in *.
  destruct (failed s1); [exact P1|].
  pose proof (decide_fame_frame s1) as F2. pose proof (bview_peersets _ _ (decide_fame_bview s1)) as P2.
  set (s2 := decide_fame s1) in *.
  destruct (failed s2); [congruence|].
  pose proof (decide_round_received_frame s2) as F3.
  pose proof (bview_peersets _ _ (decide_round_received_bview s2)) as P3.
  set (s3 := decide_round_received s2) in *.
  destruct (failed s3); [congruence|].
  rewrite (process_decided_rounds_peersets all); [congruence| |exact NA].
  eapply from_attempts_frame; [|exact F3]. eapply from_attempts_frame; [|exact F2].
  eapply from_attempts_frame; eauto.
Qed.

Lemma step_peersets all st e :
  dag_ok st -> from_attempts st all -> ids_determine all -> In e all -> 0 <= e_id e -> no_accept all ->
  peersets (step st e) = peersets st.
Proof.
  intros OK FA ID Hin Hid NA. unfold step, insert_and_run.
  pose proof (bview_peersets _ _ (insert_event_bview st e)) as P.
  destruct (insert_event st e) as [r s] eqn:E. cbn [snd] in P.
  destruct (insert_event_inv st e all r s OK FA ID Hin Hid E) as [_ [FA' _]].
  destruct r; cbn [snd]; try exact P.
  rewrite (run_consensus_peersets all); auto.
Qed.

Lemma process_sig_peersets st s : peersets (process_sig st s) = peersets st.
Proof.
  unfold process_sig.
  destruct (zget (bs_index s) (blocks st)) as [b|]; [|reflexivity].
  destruct (get_peerset st (b_rr b)); [|reflexivity].
  destruct (negb (mem_key _ _)); [reflexivity|].
  destruct (negb (_ =? _)); [reflexivity|].
  cbv zeta. set (b' := b <| b_sigs := _ |>).
  transitivity (peersets (set_anchor_block (store_set_block st b') b')); [destruct (set_anchor_block _ _); reflexivity|].
  rewrite peersets_set_anchor_block. apply peersets_store_set_block.
Qed.

Lemma process_sigpool_peersets st : peersets (process_sigpool st) = peersets st.
Proof.
  unfold process_sigpool. generalize (sigpool st) as l. intros l. revert st.
  induction l as [|s r IH]; intros st; cbn [fold_left]; [reflexivity|].
  rewrite IH. apply process_sig_peersets.
Qed.
