(* C16 proofs: the Badger-backed store refines the plain-map reference. *)
From Coq Require Import ZArith List Bool Lia ZifyBool ZifyNat.
From V Require Import Model.Store Model.StoreSpec Model.StoreWitness.
Import ListNotations.
Open Scope Z_scope.

(* ------------------------------------------------------------------------- *)
(* lists                                                                      *)
(* ------------------------------------------------------------------------- *)

Lemma nth_error_skipn' {A} : forall (k : nat) (l : list A) (p : nat),
  nth_error (skipn k l) p = nth_error l (k + p).
Proof.
  induction k as [|k IH]; intros l p; [reflexivity|].
  destruct l as [|a l]; cbn [skipn plus].
  - destruct p; reflexivity.
  - cbn [nth_error]. apply IH.
Qed.

Lemma list_ext {A} : forall (l1 l2 : list A),
  (forall p, nth_error l1 p = nth_error l2 p) -> l1 = l2.
Proof.
  induction l1 as [|a l1 IH]; intros l2 H.
  - destruct l2 as [|b l2]; [reflexivity|]. specialize (H O). discriminate H.
  - destruct l2 as [|b l2]; [specialize (H O); discriminate H|].
    pose proof (H O) as H0. cbn in H0. injection H0 as ->.
    f_equal. apply IH. intros p. exact (H (S p)).
Qed.

Lemma in_removelast' {A} : forall (l : list A) x, In x (removelast l) -> In x l.
Proof.
  induction l as [|a l IH]; intros x H; [exact H|].
  cbn [removelast] in H. destruct l as [|b l]; [contradiction|].
  destruct H as [H|H]; [left; exact H|right; apply IH; exact H].
Qed.

Lemma nth_error_list_set {A} : forall (l : list A) n x p,
  nth_error (list_set l n x) p =
  if Nat.eqb p n then (if Nat.ltb n (length l) then Some x else None) else nth_error l p.
Proof.
  induction l as [|a l IH]; intros n x p.
  - cbn [list_set length]. destruct (Nat.eqb p n); destruct p; reflexivity.
  - destruct n as [|n]; cbn [list_set].
    + destruct p as [|p]; reflexivity.
    + destruct p as [|p]; [reflexivity|]. cbn [nth_error length]. rewrite IH.
      change (Nat.eqb (S p) (S n)) with (Nat.eqb p n).
      change (Nat.ltb (S n) (S (length l))) with (Nat.ltb n (length l)). reflexivity.
Qed.

Lemma length_list_set {A} : forall (l : list A) n x, length (list_set l n x) = length l.
Proof.
  induction l as [|a l IH]; intros n x; [reflexivity|].
  destruct n; cbn [list_set length]; [reflexivity|]. now rewrite IH.
Qed.

(* znth *)
Lemma znth_range {A} (l : list A) i x : znth l i = Some x -> 0 <= i < zlen l.
Proof.
  unfold znth, zlen. destruct (i <? 0) eqn:E; [discriminate|]. intros H.
  assert (Hn : nth_error l (Z.to_nat i) <> None) by (rewrite H; discriminate).
  apply nth_error_Some in Hn. lia.
Qed.

Lemma znth_none {A} (l : list A) i : i < 0 \/ zlen l <= i -> znth l i = None.
Proof.
  unfold znth, zlen. intros H. destruct (i <? 0) eqn:E; [reflexivity|].
  apply nth_error_None. lia.
Qed.

Lemma znth_in_range {A} (l : list A) i : 0 <= i < zlen l -> exists x, znth l i = Some x.
Proof.
  unfold znth, zlen. intros H. destruct (i <? 0) eqn:E; [lia|].
  destruct (nth_error l (Z.to_nat i)) eqn:N; [eauto|]. apply nth_error_None in N. lia.
Qed.

Lemma znth_app_last {A} (l : list A) x : znth (l ++ [x]) (zlen l) = Some x.
Proof.
  unfold znth, zlen. destruct (Z.of_nat (length l) <? 0) eqn:E; [lia|].
  rewrite Nat2Z.id, nth_error_app2 by lia. now rewrite Nat.sub_diag.
Qed.

Lemma znth_app_other {A} (l : list A) x i : i <> zlen l -> znth (l ++ [x]) i = znth l i.
Proof.
  unfold znth, zlen. intros H. destruct (i <? 0) eqn:E; [reflexivity|].
  destruct (Nat.lt_ge_cases (Z.to_nat i) (length l)) as [Hl|Hl].
  - now rewrite nth_error_app1.
  - rewrite nth_error_app2 by exact Hl.
    replace (nth_error l (Z.to_nat i)) with (@None A) by (symmetry; apply nth_error_None; exact Hl).
    destruct (Z.to_nat i - length l)%nat eqn:D; [lia|]. cbn. now destruct n.
Qed.

Lemma znth_app_some {A} (l : list A) y i x : znth l i = Some x -> znth (l ++ [y]) i = Some x.
Proof.
  intros H. pose proof (znth_range _ _ _ H). rewrite znth_app_other by lia. exact H.
Qed.

Lemma zlen_app1 {A} (l : list A) x : zlen (l ++ [x]) = zlen l + 1.
Proof. unfold zlen. rewrite app_length. cbn. lia. Qed.

Lemma znth_nth_error {A} (l : list A) (p : nat) : znth l (Z.of_nat p) = nth_error l p.
Proof. unfold znth. destruct (Z.of_nat p <? 0) eqn:E; [lia|]. now rewrite Nat2Z.id. Qed.

Lemma skipn_znth_cons {A} (l : list A) (t : Z) x :
  znth l t = Some x -> skipn (Z.to_nat t) l = x :: skipn (Z.to_nat (t + 1)) l.
Proof.
  intros H. pose proof (znth_range _ _ _ H) as R. unfold znth in H.
  destruct (t <? 0); [discriminate|].
  replace (Z.to_nat (t + 1)) with (S (Z.to_nat t)) by lia.
  revert H. generalize (Z.to_nat t) as n. clear R t.
  induction l as [|a l IH]; intros n H; [destruct n; discriminate|].
  destruct n as [|n]; cbn in H |- *; [now injection H as ->|]. now apply IH.
Qed.

Lemma zmem_In x l : zmem x l = true <-> In x l.
Proof.
  induction l as [|y l IH]; cbn; [split; [discriminate|contradiction]|].
  rewrite orb_true_iff, IH, Z.eqb_eq. tauto.
Qed.

Lemma zmem_app x l y : zmem x (l ++ [y]) = zmem x l || Z.eqb y x.
Proof.
  induction l as [|z l IH]; cbn; [now rewrite orb_false_r|]. rewrite IH. now rewrite orb_assoc.
Qed.

(* ------------------------------------------------------------------------- *)
(* association lists                                                          *)
(* ------------------------------------------------------------------------- *)

Lemma aget_aset_same {A} k (v : A) l : aget k (aset k v l) = Some v.
Proof.
  induction l as [|[k' v'] l IH]; cbn; [now rewrite Z.eqb_refl|].
  destruct (Z.eqb k' k) eqn:E; cbn; [now rewrite Z.eqb_refl|]. now rewrite E.
Qed.

Lemma aget_aset_other {A} k k2 (v : A) l : k <> k2 -> aget k2 (aset k v l) = aget k2 l.
Proof.
  intros N. induction l as [|[k' v'] l IH]; cbn.
  - destruct (Z.eqb k k2) eqn:E; [apply Z.eqb_eq in E; contradiction|reflexivity].
  - destruct (Z.eqb k' k) eqn:E; cbn.
    + apply Z.eqb_eq in E. subst k'.
      destruct (Z.eqb k k2) eqn:E2; [apply Z.eqb_eq in E2; contradiction|reflexivity].
    + destruct (Z.eqb k' k2); [reflexivity|exact IH].
Qed.

Lemma aset_keys {A} k (v : A) l : aget k l <> None -> map fst (aset k v l) = map fst l.
Proof.
  induction l as [|[k' v'] l IH]; cbn; [congruence|].
  destruct (Z.eqb k' k) eqn:E; cbn.
  - apply Z.eqb_eq in E. now subst.
  - intros H. now rewrite IH.
Qed.

Lemma aget_none_keys {A} k (l : list (Z * A)) : aget k l = None <-> ~ In k (map fst l).
Proof.
  induction l as [|[k' v'] l IH]; cbn; [tauto|].
  destruct (Z.eqb k' k) eqn:E.
  - apply Z.eqb_eq in E. split; [discriminate|]. intros H. exfalso. apply H. now left.
  - apply Z.eqb_neq in E. rewrite IH. tauto.
Qed.

Lemma aget_app {A} k (l : list (Z * A)) k2 v2 :
  aget k (l ++ [(k2, v2)]) =
  match aget k l with Some x => Some x | None => if Z.eqb k2 k then Some v2 else None end.
Proof.
  induction l as [|[k' v'] l IH]; cbn; [reflexivity|]. destruct (Z.eqb k' k); [reflexivity|exact IH].
Qed.

Lemma aget_In_nodup {A} k (v : A) l : NoDup (map fst l) -> In (k, v) l -> aget k l = Some v.
Proof.
  induction l as [|[k' v'] l IH]; cbn; intros ND H; [contradiction|].
  inversion ND as [|? ? Hn ND']; subst.
  destruct H as [H|H].
  - injection H as -> ->. now rewrite Z.eqb_refl.
  - destruct (Z.eqb k' k) eqn:E; [|now apply IH].
    apply Z.eqb_eq in E. subst k'. exfalso. apply Hn. apply (in_map fst) in H. exact H.
Qed.

Lemma aget_map_reset {A B} (f : Z * A -> B) k (l : list (Z * A)) :
  aget k (map (fun cr => (fst cr, f cr)) l) =
  match aget k l with Some _ => aget k (map (fun cr => (fst cr, f cr)) l) | None => None end.
Proof.
  induction l as [|[k' v'] l IH]; cbn; [reflexivity|].
  destruct (Z.eqb k' k); [reflexivity|exact IH].
Qed.

(* ------------------------------------------------------------------------- *)
(* LRU                                                                        *)
(* ------------------------------------------------------------------------- *)

Lemma lru_find_In {A} k (l : list (Z * A)) v : lru_find k l = Some v -> In (k, v) l.
Proof.
  induction l as [|[k' v'] l IH]; cbn; [discriminate|].
  destruct (Z.eqb k' k) eqn:E.
  - apply Z.eqb_eq in E. intros H. injection H as ->. subst. now left.
  - intros H. right. now apply IH.
Qed.

Lemma lru_find_None {A} k (l : list (Z * A)) k' v' :
  lru_find k l = None -> In (k', v') l -> k' <> k.
Proof.
  induction l as [|[k2 v2] l IH]; cbn; [contradiction|].
  destruct (Z.eqb k2 k) eqn:E; [discriminate|]. apply Z.eqb_neq in E.
  intros H [H1|H1]; [injection H1 as <- <-; exact E|now apply IH].
Qed.

Lemma lru_remove_In {A} k (l : list (Z * A)) k' v' :
  In (k', v') (lru_remove k l) -> In (k', v') l /\ k' <> k.
Proof.
  unfold lru_remove. rewrite filter_In. cbn. intros [H1 H2]. split; [exact H1|].
  apply negb_true_iff, Z.eqb_neq in H2. exact H2.
Qed.

Lemma lru_get_sub {A} k (c c' : lru A) h :
  lru_get k c = (h, c') ->
  (forall kv, In kv (lru_items c') -> In kv (lru_items c)) /\
  (forall v, h = Some v -> In (k, v) (lru_items c)).
Proof.
  unfold lru_get. destruct (lru_find k (lru_items c)) eqn:F; intros H; injection H as <- <-.
  - apply lru_find_In in F. split.
    + intros [k' v'] [H|H]; [now rewrite <- H|]. now apply lru_remove_In in H.
    + intros v H. now injection H as <-.
  - split; [auto|discriminate].
Qed.

Lemma lru_add_sub {A} k (v : A) c k' v' :
  In (k', v') (lru_items (lru_add k v c)) ->
  (k' = k /\ v' = v) \/ (k' <> k /\ In (k', v') (lru_items c)).
Proof.
  unfold lru_add. destruct (lru_find k (lru_items c)) eqn:F; cbn [lru_items].
  - intros [H|H]; [injection H as <- <-; now left|].
    apply lru_remove_In in H. right. tauto.
  - intros H.
    assert (H' : In (k', v') ((k, v) :: lru_items c)).
    { destruct (_ >? _) in H; [now apply in_removelast' in H|exact H]. }
    destruct H' as [H'|H']; [injection H' as <- <-; now left|].
    right. split; [|exact H']. eapply lru_find_None; eauto.
Qed.

(* ------------------------------------------------------------------------- *)
(* DB                                                                         *)
(* ------------------------------------------------------------------------- *)

Lemma dbkey_eqb_eq a b : dbkey_eqb a b = true <-> a = b.
Proof.
  destruct a, b; cbn; try (split; [discriminate|congruence]);
    rewrite ?andb_true_iff, ?Z.eqb_eq; split; intros H;
    try (now subst); try (now injection H); try (destruct H; now subst).
Qed.

Lemma db_get_set_same k v d : db_get (db_set k v d) k = Some v.
Proof.
  unfold db_get, db_set. cbn. replace (dbkey_eqb k k) with true; [reflexivity|].
  symmetry. now apply dbkey_eqb_eq.
Qed.

Lemma db_get_set_other k k' v d : k <> k' -> db_get (db_set k v d) k' = db_get d k'.
Proof.
  intros N. unfold db_get, db_set. cbn. destruct (dbkey_eqb k k') eqn:E; [|reflexivity].
  apply dbkey_eqb_eq in E. contradiction.
Qed.

Lemma db_n_set k v d : db_n (db_set k v d) = S (db_n d).
Proof. reflexivity. Qed.

Lemma db_set_event_event d e k :
  db_get (db_set_event d e) (KEvent k) =
  if Z.eqb (ev_id e) k then Some (VEvent e) else db_get d (KEvent k).
Proof.
  unfold db_set_event.
  destruct (Z.eqb (ev_id e) k) eqn:E.
  - apply Z.eqb_eq in E. subst k.
    destruct (db_get d (KEvent (ev_id e))).
    + apply db_get_set_same.
    + rewrite !db_get_set_other by discriminate. apply db_get_set_same.
  - apply Z.eqb_neq in E.
    destruct (db_get d (KEvent (ev_id e)));
      rewrite ?db_get_set_other; try reflexivity; try discriminate; congruence.
Qed.

Definition not_event_index_key (k : dbkey) : Prop :=
  match k with KEvent _ | KTopo _ | KPart _ _ => False | _ => True end.

Lemma db_set_event_other d e k : not_event_index_key k ->
  db_get (db_set_event d e) k = db_get d k.
Proof.
  intros H. unfold db_set_event.
  destruct (db_get d (KEvent (ev_id e)));
    rewrite ?db_get_set_other; try reflexivity; destruct k; cbn in H; try contradiction; discriminate.
Qed.

(* ------------------------------------------------------------------------- *)
(* C16_cache_coherent: every cache entry equals the DB entry for the same key *)
(* ------------------------------------------------------------------------- *)

Record cache_ok (b : bstore) : Prop := mkCacheOk {
  co_events : forall k e, In (k, e) (lru_items (b_events b)) ->
                          db_get (b_db b) (KEvent k) = Some (VEvent e);
  co_blocks : forall k bl, In (k, bl) (lru_items (b_blocks b)) ->
                           db_get (b_db b) (KBlock k) = Some (VBlock bl);
  co_rounds : forall k p, In (k, p) (lru_items (b_rounds b)) ->
                          db_get (b_db b) (KRound k) = Some (VZ p);
  co_frames : forall k p, In (k, p) (lru_items (b_frames b)) ->
                          db_get (b_db b) (KFrame k) = Some (VZ p) }.

Lemma cache_ok_init cs : cache_ok (binit cs).
Proof. constructor; cbn; contradiction. Qed.

Lemma im_set_event_ok b e b' : im_set_event b e = Ok b' ->
  exists c1 m', b' = set_events (set_rim b m') (lru_add (ev_id e) e c1) /\
    (forall kv, In kv (lru_items c1) -> In kv (lru_items (b_events b))) /\
    ((m' = b_rim b /\ exists e1, fst (lru_get (ev_id e) (b_events b)) = Some e1) \/
     (fst (lru_get (ev_id e) (b_events b)) = None /\
      pec_set (b_rim b) (ev_creator e) (ev_id e) (ev_index e) = Ok m')).
Proof.
  unfold im_set_event. destruct (lru_get (ev_id e) (b_events b)) as [hit c1] eqn:G.
  destruct (lru_get_sub _ _ _ _ G) as [Hs _].
  destruct hit as [e1|].
  - intros H. injection H as <-. exists c1, (b_rim b). split; [now destruct b|].
    split; [exact Hs|]. left. split; [reflexivity|]. exists e1. reflexivity.
  - destruct (pec_set _ _ _ _) as [m'|x] eqn:P; [|discriminate].
    intros H. injection H as <-. exists c1, m'. split; [reflexivity|].
    split; [exact Hs|]. right. split; reflexivity.
Qed.

Ltac sb := cbn [b_cs b_events b_blocks b_rounds b_frames b_rim b_last_round b_last_block b_db
  set_events set_blocks set_rounds set_frames set_rim set_last_round set_last_block set_db
  fst snd lru_items lru_cap] in *.

Lemma cache_ok_set_event b e : cache_ok b -> cache_ok (fst (b_set_event b e)).
Proof.
  intros C. unfold b_set_event. destruct (im_set_event b e) as [b'|x] eqn:HI; [|exact C].
  destruct (im_set_event_ok _ _ _ HI) as (c1 & m' & -> & Hs & _). sb.
  destruct C as [Ce Cb Cr Cf]. constructor; sb.
  - intros k e' H. rewrite db_set_event_event.
    apply lru_add_sub in H. destruct H as [[-> ->]|[N H]].
    + now rewrite Z.eqb_refl.
    + destruct (Z.eqb (ev_id e) k) eqn:E; [apply Z.eqb_eq in E; congruence|].
      apply Ce, Hs, H.
  - intros k bl H. rewrite db_set_event_other by exact I. now apply Cb.
  - intros k p H. rewrite db_set_event_other by exact I. now apply Cr.
  - intros k p H. rewrite db_set_event_other by exact I. now apply Cf.
Qed.

Lemma cache_ok_step b o : cache_ok b -> cache_ok (fst (bstep b o)).
Proof.
  intros C. destruct o; cbn [bstep].
  - (* add participant *)
    unfold b_add_participant.
    set (b1 := match aget c (b_rim b) with Some _ => b | None => _ end).
    assert (C1 : cache_ok b1).
    { subst b1. destruct (aget c (b_rim b)); [exact C|]. destruct C. constructor; sb; auto. }
    destruct (db_get (b_db b1) (KRoot c)); sb; [exact C1|].
    destruct C1 as [Ce Cb Cr Cf].
    constructor; sb; intros k v H; rewrite db_get_set_other by discriminate; auto.
  - pose proof (cache_ok_set_event b e C) as H. destruct (b_set_event b e). exact H.
  - unfold b_get_event. destruct (lru_get id (b_events b)) as [hit c1] eqn:G.
    destruct (lru_get_sub _ _ _ _ G) as [Hs _].
    destruct hit; sb.
    + destruct C. constructor; sb; auto.
    + destruct (db_get_event (b_db b) id); exact C.
  - exact C.
  - exact C.
  - exact C.
  - exact C.
  - (* set block *)
    unfold b_set_block. destruct (lru_get (bl_index b0) (b_blocks b)) as [hit c1] eqn:G.
    destruct (lru_get_sub _ _ _ _ G) as [Hs _].
    destruct C as [Ce Cb Cr Cf].
    destruct (bl_index b0 >? _); constructor; sb; intros k v H;
      try (rewrite db_get_set_other by discriminate; auto; fail);
      (apply lru_add_sub in H; destruct H as [[-> ->]|[N H]];
       [apply db_get_set_same|rewrite db_get_set_other by congruence; auto]).
  - unfold b_get_block. destruct (lru_get i (b_blocks b)) as [hit c1] eqn:G.
    destruct (lru_get_sub _ _ _ _ G) as [Hs _].
    destruct hit; sb.
    + destruct C. constructor; sb; auto.
    + destruct (db_get_block (b_db b) i); exact C.
  - exact C.
  - (* set round *)
    unfold b_set_round. destruct C as [Ce Cb Cr Cf].
    destruct (r >? _); constructor; sb; intros k v H;
      try (rewrite db_get_set_other by discriminate; auto; fail);
      (apply lru_add_sub in H; destruct H as [[-> ->]|[N H]];
       [apply db_get_set_same|rewrite db_get_set_other by congruence; auto]).
  - unfold b_get_round. destruct (lru_get r (b_rounds b)) as [hit c1] eqn:G.
    destruct (lru_get_sub _ _ _ _ G) as [Hs _].
    destruct hit; sb; [|exact C]. destruct C. constructor; sb; auto.
  - (* set frame *)
    unfold b_set_frame. destruct (lru_get r (b_frames b)) as [hit c1] eqn:G.
    destruct (lru_get_sub _ _ _ _ G) as [Hs _].
    destruct C as [Ce Cb Cr Cf].
    constructor; sb; intros k v H;
      try (rewrite db_get_set_other by discriminate; auto; fail);
      (apply lru_add_sub in H; destruct H as [[-> ->]|[N H]];
       [apply db_get_set_same|rewrite db_get_set_other by congruence; auto]).
  - unfold b_get_frame. destruct (lru_get r (b_frames b)) as [hit c1] eqn:G.
    destruct (lru_get_sub _ _ _ _ G) as [Hs _].
    destruct hit; sb; [|exact C]. destruct C. constructor; sb; auto.
  - exact C.
  - exact C.
  - exact C.
  - (* reopen *) constructor; sb; contradiction.
Qed.

Lemma cache_ok_run ops : forall b, cache_ok b -> cache_ok (fst (brun b ops)).
Proof.
  induction ops as [|o ops IH]; intros b C; [exact C|].
  cbn [brun]. pose proof (cache_ok_step b o C) as C1.
  destruct (bstep b o) as [b1 x]. specialize (IH b1 C1).
  destruct (brun b1 ops) as [b2 xs]. exact IH.
Qed.

(* ------------------------------------------------------------------------- *)
(* invariants of the reference under the admission discipline                 *)
(* ------------------------------------------------------------------------- *)

Record spec_ok (s : spec) : Prop := mkSpecOk {
  so_event : forall id e, sp_events s id = Some e ->
     ev_id e = id /\ znth (sp_part s (ev_creator e)) (ev_index e) = Some id
     /\ znth (sp_topo s) (ev_topo e) = Some id;
  so_topo : forall i id, znth (sp_topo s) i = Some id ->
     exists e, sp_events s id = Some e /\ ev_topo e = i;
  so_part : forall c i id, znth (sp_part s c) i = Some id ->
     exists e, sp_events s id = Some e /\ ev_creator e = c /\ ev_index e = i;
  so_unknown : forall c, zmem c (sp_parts s) = false -> sp_part s c = [];
  so_nodup : NoDup (sp_parts s) }.

Lemma spec_ok_init : spec_ok sinit.
Proof.
  constructor; cbn; try discriminate; try constructor; auto.
  - intros i id H. apply znth_range in H. cbn in H. lia.
  - intros c i id H. apply znth_range in H. cbn in H. lia.
Qed.

Lemma fupd_same {A} (f : Z -> A) k v : fupd f k v k = v.
Proof. unfold fupd. now rewrite Z.eqb_refl. Qed.
Lemma fupd_other {A} (f : Z -> A) k v k' : k <> k' -> fupd f k v k' = f k'.
Proof. unfold fupd. intros N. destruct (Z.eqb k k') eqn:E; [apply Z.eqb_eq in E; contradiction|reflexivity]. Qed.

Lemma spec_ok_set_event s e : spec_ok s -> wf_op s (OSetEvent e) = true ->
  spec_ok (s_set_event s e).
Proof.
  intros [Se St Sp Su Sn] W. cbn [wf_op] in W. unfold s_set_event.
  destruct (sp_events s (ev_id e)) as [e0|] eqn:E0.
  - (* known id *)
    apply andb_true_iff in W. destruct W as [W Wt]. apply andb_true_iff in W. destruct W as [Wc Wi].
    apply Z.eqb_eq in Wc, Wi, Wt.
    destruct (Se _ _ E0) as (_ & Hp & Ht).
    constructor; cbn; auto.
    + intros id e1 H. destruct (Z.eq_dec (ev_id e) id) as [<-|N].
      * rewrite fupd_same in H. injection H as <-. rewrite Wc, Wi, Wt. auto.
      * rewrite fupd_other in H by exact N. auto.
    + intros i id H. destruct (Z.eq_dec (ev_id e) id) as [<-|N].
      * rewrite fupd_same. exists e. split; [reflexivity|].
        destruct (St _ _ H) as (e1 & H1 & H2). congruence.
      * rewrite fupd_other by exact N. auto.
    + intros c i id H. destruct (Z.eq_dec (ev_id e) id) as [<-|N].
      * rewrite fupd_same. exists e. split; [reflexivity|].
        destruct (Sp _ _ _ H) as (e1 & H1 & H2 & H3). split; congruence.
      * rewrite fupd_other by exact N. auto.
  - (* new id *)
    apply andb_true_iff in W. destruct W as [W Wt]. apply andb_true_iff in W. destruct W as [Wc Wi].
    apply Z.eqb_eq in Wi, Wt.
    constructor; cbn; auto.
    + intros id e1 H. destruct (Z.eq_dec (ev_id e) id) as [<-|N].
      * rewrite fupd_same in H. injection H as <-. rewrite fupd_same, Wi, Wt.
        split; [reflexivity|]. split; apply znth_app_last.
      * rewrite fupd_other in H by exact N. destruct (Se _ _ H) as (H1 & H2 & H3).
        split; [exact H1|]. split; [|now apply znth_app_some].
        destruct (Z.eq_dec (ev_creator e) (ev_creator e1)) as [Ec|Ec].
        -- rewrite <- Ec, fupd_same. apply znth_app_some. now rewrite Ec.
        -- now rewrite fupd_other.
    + intros i id H. destruct (Z.eq_dec i (zlen (sp_topo s))) as [->|Ni].
      * rewrite znth_app_last in H. injection H as <-. exists e. now rewrite fupd_same.
      * rewrite znth_app_other in H by exact Ni.
        destruct (St _ _ H) as (e1 & H1 & H2). exists e1. split; [|exact H2].
        rewrite fupd_other; [exact H1|]. intros Hq. rewrite <- Hq in H1. congruence.
    + intros c i id H.
      assert (Hold : znth (sp_part s c) i = Some id ->
                     exists e1, fupd (sp_events s) (ev_id e) (Some e) id = Some e1 /\
                                ev_creator e1 = c /\ ev_index e1 = i).
      { intros H'. destruct (Sp _ _ _ H') as (e1 & H1 & H2). exists e1. split; [|exact H2].
        rewrite fupd_other; [exact H1|]. intros Hq. rewrite <- Hq in H1. congruence. }
      destruct (Z.eq_dec (ev_creator e) c) as [<-|Nc].
      * rewrite fupd_same in H.
        destruct (Z.eq_dec i (zlen (sp_part s (ev_creator e)))) as [->|Ni].
        -- rewrite znth_app_last in H. injection H as <-. exists e. now rewrite fupd_same.
        -- rewrite znth_app_other in H by exact Ni. auto.
      * rewrite fupd_other in H by exact Nc. auto.
    + intros c H. destruct (Z.eq_dec (ev_creator e) c) as [<-|Nc]; [congruence|].
      rewrite fupd_other by exact Nc. auto.
Qed.

Lemma spec_ok_step s o : spec_ok s -> wf_op s o = true -> spec_ok (fst (sstep s o)).
Proof.
  intros S W. destruct o; cbn [sstep fst]; try exact S.
  - (* add participant *)
    unfold s_add_participant. destruct (zmem c (sp_parts s)) eqn:M; [exact S|].
    destruct S as [Se St Sp Su Sn]. constructor; cbn; auto.
    + intros c0 H. rewrite zmem_app in H. apply orb_false_iff in H. now apply Su.
    + apply NoDup_rev in Sn. rewrite <- (rev_involutive (sp_parts s ++ [c])), rev_app_distr.
      apply NoDup_rev. cbn. constructor; [|exact Sn].
      rewrite <- in_rev. intros H. apply zmem_In in H. congruence.
  - now apply spec_ok_set_event.
  - destruct S. constructor; cbn; auto.
  - destruct S. constructor; cbn; auto.
  - destruct S. constructor; cbn; auto.
Qed.

(* ------------------------------------------------------------------------- *)
(* the rolling index is a window [oldest .. last] of the creator's full list  *)
(* ------------------------------------------------------------------------- *)

Record ri_ok (re : bool) (r : rindex) (L : list Z) : Prop := mkRiOk {
  ro_oldest : 0 <= ri_oldest r;
  ro_empty : ri_items r = [] -> ri_last r = -1;
  ro_items : forall p x, nth_error (ri_items r) p = Some x ->
                         znth L (ri_oldest r + Z.of_nat p) = Some x;
  ro_last : re = false -> ri_last r + 1 = zlen L }.

Lemma ri_ok_new re cs L : (re = false -> L = []) -> ri_ok re (ri_new cs) L.
Proof.
  intros H. constructor; cbn; try reflexivity; try lia.
  - intros p x Hp. destruct p; discriminate.
  - intros E. now rewrite (H E).
Qed.

Lemma ri_ok_weaken re r L : ri_ok re r L -> ri_ok true r L.
Proof. intros [A B C D]. constructor; auto. discriminate. Qed.

Lemma ri_ok_last_le re r L : ri_ok re r L -> ri_last r + 1 <= zlen L.
Proof.
  intros [A B C D]. unfold ri_oldest, ri_len in *.
  destruct (ri_items r) as [|a l] eqn:E.
  - rewrite B by reflexivity. unfold zlen. lia.
  - destruct (nth_error (a :: l) (length l)) as [x|] eqn:N.
    + apply C in N. apply znth_range in N. cbn [length] in *. lia.
    + apply nth_error_None in N. cbn [length] in N. lia.
Qed.

Definition mono (L L' : list Z) : Prop := forall i x, znth L i = Some x -> znth L' i = Some x.

Lemma ri_set_core re r L L' id idx r' :
  ri_ok re r L -> ri_set r id idx = Ok r' -> mono L L' -> znth L' idx = Some id ->
  0 <= ri_oldest r' /\ (ri_items r' = [] -> ri_last r' = -1) /\
  (forall p x, nth_error (ri_items r') p = Some x -> znth L' (ri_oldest r' + Z.of_nat p) = Some x) /\
  ((ri_last r' = idx /\ (ri_last r < 0 \/ idx = ri_last r + 1)) \/
   (ri_last r' = ri_last r /\ idx <= ri_last r)).
Proof.
  intros [A B C D] S M Hid. pose proof (znth_range _ _ _ Hid) as Ridx.
  unfold ri_set in S.
  destruct ((0 <=? ri_last r) && (idx >? ri_last r + 1)) eqn:E1; [discriminate|].
  destruct ((ri_last r <? 0) || (idx =? ri_last r + 1)) eqn:E2.
  - (* append, possibly after roll *)
    set (r1 := if ri_len r >=? ri_size r then ri_roll r else r) in S.
    assert (Hsuf : exists pre, ri_items r = pre ++ ri_items r1).
    { subst r1. destruct (ri_len r >=? ri_size r).
      - exists (firstn (Z.to_nat (ri_size r / 2)) (ri_items r)). cbn. now rewrite firstn_skipn.
      - exists []. reflexivity. }
    destruct Hsuf as [pre Hpre]. injection S as <-. cbn [ri_items ri_last].
    unfold ri_oldest, ri_len in *. cbn [ri_items ri_last].
    rewrite app_length. cbn [length].
    assert (Hlen : length (ri_items r) = (length pre + length (ri_items r1))%nat)
      by (rewrite Hpre at 1; apply app_length).
    assert (Hcase : (ri_last r < 0 /\ ri_items r = []) \/ (0 <= ri_last r /\ idx = ri_last r + 1)).
    { destruct (ri_last r <? 0) eqn:E3.
      - left. split; [lia|]. destruct (ri_items r); [reflexivity|]. cbn [length] in A. lia.
      - right. cbn in E2. lia. }
    split; [|split; [|split]].
    + destruct Hcase as [[H1 H2]|[H1 H2]].
      * rewrite H2 in Hlen. cbn in Hlen. lia.
      * lia.
    + intros H. destruct (ri_items r1); discriminate H.
    + intros p x Hp.
      destruct (Nat.lt_ge_cases p (length (ri_items r1))) as [Hl|Hl].
      * rewrite nth_error_app1 in Hp by exact Hl.
        assert (Hp' : nth_error (ri_items r) (length pre + p) = Some x).
        { rewrite Hpre, nth_error_app2 by lia. now replace (length pre + p - length pre)%nat with p by lia. }
        apply C in Hp'. apply M in Hp'.
        destruct Hcase as [[H1 H2]|[H1 H2]].
        -- rewrite H2 in Hlen. cbn in Hlen. lia.
        -- replace (idx - Z.of_nat (length (ri_items r1) + 1) + 1 + Z.of_nat p)
             with (ri_last r - Z.of_nat (length (ri_items r)) + 1 + Z.of_nat (length pre + p)) by lia.
           exact Hp'.
      * rewrite nth_error_app2 in Hp by exact Hl.
        destruct (p - length (ri_items r1))%nat eqn:Dp; [|destruct n; discriminate Hp].
        cbn in Hp. injection Hp as <-.
        replace (idx - Z.of_nat (length (ri_items r1) + 1) + 1 + Z.of_nat p) with idx by lia.
        exact Hid.
    + left. split; [reflexivity|]. destruct Hcase as [[H1 H2]|[H1 H2]]; lia.
  - (* replace in place *)
    destruct (idx <? ri_oldest r) eqn:E3; [discriminate|]. injection S as <-.
    unfold ri_oldest, ri_len in *. cbn [ri_items ri_last].
    rewrite length_list_set.
    split; [exact A|]. split; [|split].
    + intros H. apply B. destruct (ri_items r); [reflexivity|].
      apply (f_equal (@length Z)) in H. rewrite length_list_set in H. discriminate H.
    + intros p x Hp. rewrite nth_error_list_set in Hp.
      destruct (Nat.eqb p _) eqn:Ep.
      * apply Nat.eqb_eq in Ep. destruct (Nat.ltb _ _); [|discriminate]. injection Hp as <-.
        replace (ri_last r - Z.of_nat (length (ri_items r)) + 1 + Z.of_nat p) with idx by lia.
        exact Hid.
      * apply M, C, Hp.
    + right. split; [reflexivity|]. lia.
Qed.

(* a NEW event of this creator: index = number of its events so far *)
Lemma ri_set_new re r L id r' :
  ri_ok re r L -> ri_set r id (zlen L) = Ok r' -> ri_ok re r' (L ++ [id]).
Proof.
  intros O S. pose proof (ri_ok_last_le _ _ _ O) as Hle.
  destruct (ri_set_core re r L (L ++ [id]) id (zlen L) r' O S) as (A & B & C & D).
  - intros i x. apply znth_app_some.
  - apply znth_app_last.
  - constructor; auto. intros E. rewrite zlen_app1.
    destruct D as [[D1 D2]|[D1 D2]]; [lia|]. pose proof (ro_last _ _ _ O E). lia.
Qed.

(* re-setting a KNOWN event: it already sits at its index in the creator's list *)
Lemma ri_set_known re r L id idx r' :
  ri_ok re r L -> ri_set r id idx = Ok r' -> znth L idx = Some id -> ri_ok re r' L.
Proof.
  intros O S Hid. pose proof (znth_range _ _ _ Hid) as Ridx.
  destruct (ri_set_core re r L L id idx r' O S) as (A & B & C & D).
  - intros i x H. exact H.
  - exact Hid.
  - constructor; auto. intros E. pose proof (ro_last _ _ _ O E) as HL.
    destruct D as [[D1 D2]|[D1 D2]]; [|lia].
    pose proof (ro_oldest _ _ _ O) as HO. unfold ri_oldest, ri_len in HO. lia.
Qed.

Lemma ri_items_eq r L : ri_ok false r L -> ri_items r = skipn (Z.to_nat (ri_oldest r)) L.
Proof.
  intros [A B C D]. specialize (D eq_refl). apply list_ext. intros p.
  rewrite nth_error_skipn'.
  destruct (nth_error (ri_items r) p) as [x|] eqn:N.
  - apply C in N. unfold znth in N. destruct (_ <? 0); [discriminate|].
    rewrite <- N. f_equal. lia.
  - symmetry. apply nth_error_None. apply nth_error_None in N.
    unfold ri_oldest, ri_len, zlen in *. lia.
Qed.

Lemma skipn_skipn' {A} : forall (a b : nat) (l : list A), skipn a (skipn b l) = skipn (b + a) l.
Proof.
  intros a b l. apply list_ext. intros p. rewrite !nth_error_skipn'. f_equal. lia.
Qed.

Lemma ri_get_ok r L skip l : ri_ok false r L -> -1 <= skip ->
  ri_get r skip = Ok l -> l = skipn (Z.to_nat (skip + 1)) L.
Proof.
  intros O Hs G. pose proof (ri_items_eq _ _ O) as HI.
  pose proof (ro_last _ _ _ O eq_refl) as HL. pose proof (ro_oldest _ _ _ O) as HO.
  unfold ri_get in G. destruct (skip >? ri_last r) eqn:E1.
  - injection G as <-. symmetry. apply skipn_all2. unfold zlen in HL. lia.
  - destruct (skip + 1 <? ri_oldest r) eqn:E2; [discriminate|]. injection G as <-.
    rewrite HI at 1. rewrite skipn_skipn'. f_equal. lia.
Qed.

Lemma ri_get_item_ok re r L i x : ri_ok re r L -> ri_get_item r i = Ok x -> znth L i = Some x.
Proof.
  intros O G. unfold ri_get_item in G.
  destruct (i <? ri_oldest r) eqn:E1; [discriminate|].
  destruct (i - ri_oldest r >=? ri_len r) eqn:E2; [discriminate|].
  destruct (nth_error _ _) as [y|] eqn:N; [|discriminate]. injection G as <-.
  apply (ro_items _ _ _ O) in N. rewrite <- N. f_equal. lia.
Qed.

(* ------------------------------------------------------------------------- *)
(* the DB holds exactly the reference                                         *)
(* ------------------------------------------------------------------------- *)

Record db_ok (d : db) (s : spec) : Prop := mkDbOk {
  dk_event : forall id, db_get d (KEvent id) = option_map VEvent (sp_events s id);
  dk_part : forall c i, db_get d (KPart c i) = option_map VId (znth (sp_part s c) i);
  dk_topo : forall i, db_get d (KTopo i) = option_map VId (znth (sp_topo s) i);
  dk_block : forall i, db_get d (KBlock i) = option_map VBlock (sp_blocks s i);
  dk_round : forall r, db_get d (KRound r) = option_map VZ (sp_rounds s r);
  dk_frame : forall r, db_get d (KFrame r) = option_map VZ (sp_frames s r);
  dk_fuel_part : forall c, (length (sp_part s c) <= db_n d)%nat;
  dk_fuel_topo : (length (sp_topo s) <= db_n d)%nat }.

Lemma znth_nil {A} i : znth (@nil A) i = None.
Proof. unfold znth. destruct (i <? 0); [reflexivity|]. now destruct (Z.to_nat i). Qed.

Lemma db_ok_init : db_ok db_empty sinit.
Proof. constructor; cbn; intros; rewrite ?znth_nil; auto. Qed.

Lemma db_ok_set_event d s e : db_ok d s -> wf_op s (OSetEvent e) = true ->
  db_ok (db_set_event d e) (s_set_event s e).
Proof.
  intros [De Dp Dt Db Dr Df Fp Ft] W. cbn [wf_op] in W.
  unfold db_set_event, s_set_event. rewrite De.
  destruct (sp_events s (ev_id e)) as [e0|] eqn:E0; cbn [option_map].
  - constructor; cbn [sp_events sp_part sp_topo sp_blocks sp_rounds sp_frames];
      intros; rewrite ?db_get_set_other by discriminate; auto.
    + destruct (Z.eq_dec (ev_id e) id) as [<-|N].
      * now rewrite db_get_set_same, fupd_same.
      * rewrite db_get_set_other by congruence. now rewrite fupd_other.
    + rewrite db_n_set. specialize (Fp c). lia.
    + rewrite db_n_set. lia.
  - apply andb_true_iff in W. destruct W as [W Wt]. apply andb_true_iff in W. destruct W as [Wc Wi].
    apply Z.eqb_eq in Wi, Wt.
    constructor; cbn [sp_events sp_part sp_topo sp_blocks sp_rounds sp_frames];
      intros; rewrite ?db_n_set.
    + rewrite !db_get_set_other by discriminate.
      destruct (Z.eq_dec (ev_id e) id) as [<-|N].
      * now rewrite db_get_set_same, fupd_same.
      * rewrite db_get_set_other by congruence. now rewrite fupd_other.
    + destruct (Z.eq_dec (ev_creator e) c) as [<-|Nc].
      * rewrite fupd_same. destruct (Z.eq_dec (ev_index e) i) as [<-|Ni].
        -- rewrite db_get_set_same, Wi, znth_app_last. reflexivity.
        -- rewrite !db_get_set_other by (try discriminate; congruence).
           rewrite znth_app_other by lia. apply Dp.
      * rewrite fupd_other by exact Nc.
        rewrite !db_get_set_other by (try discriminate; congruence). apply Dp.
    + rewrite db_get_set_other by discriminate.
      destruct (Z.eq_dec (ev_topo e) i) as [<-|Ni].
      * rewrite db_get_set_same, Wt, znth_app_last. reflexivity.
      * rewrite !db_get_set_other by (try discriminate; congruence).
        rewrite znth_app_other by lia. apply Dt.
    + rewrite !db_get_set_other by discriminate. apply Db.
    + rewrite !db_get_set_other by discriminate. apply Dr.
    + rewrite !db_get_set_other by discriminate. apply Df.
    + unfold fupd. destruct (Z.eqb _ _); [rewrite app_length; cbn; specialize (Fp (ev_creator e))|specialize (Fp c)]; lia.
    + rewrite app_length. cbn. lia.
Qed.

(* the two scans *)
Lemma db_part_scan_ok d s c : db_ok d s -> forall fuel i, 0 <= i ->
  (length (sp_part s c) - Z.to_nat i < fuel)%nat ->
  db_part_scan fuel d c i = skipn (Z.to_nat i) (sp_part s c).
Proof.
  intros D. induction fuel as [|f IH]; intros i Hi Hf; [lia|].
  cbn [db_part_scan]. unfold db_get_id. rewrite (dk_part _ _ D).
  destruct (znth (sp_part s c) i) as [x|] eqn:N; cbn [option_map].
  - rewrite (skipn_znth_cons _ _ _ N). f_equal. pose proof (znth_range _ _ _ N) as R. unfold zlen in R.
    apply IH; lia.
  - symmetry. apply skipn_all2. unfold znth in N. destruct (i <? 0) eqn:E; [lia|].
    now apply nth_error_None in N.
Qed.

Lemma db_participant_events_ok d s c skip : db_ok d s -> -1 <= skip ->
  db_participant_events d c skip = skipn (Z.to_nat (skip + 1)) (sp_part s c).
Proof.
  intros D H. unfold db_participant_events, db_fuel. apply db_part_scan_ok; [exact D|lia|].
  pose proof (dk_fuel_part _ _ D c). lia.
Qed.

Lemma firstn_cons_pos {A} (n : Z) (x : A) l : 0 < n ->
  firstn (Z.to_nat n) (x :: l) = x :: firstn (Z.to_nat (n - 1)) l.
Proof. intros H. replace (Z.to_nat n) with (S (Z.to_nat (n - 1))) by lia. reflexivity. Qed.

Lemma db_topo_scan_ok d s bound : db_ok d s -> spec_ok s -> forall fuel t, 0 <= t ->
  (length (sp_topo s) - Z.to_nat t < fuel)%nat ->
  db_topo_scan fuel d t bound =
  Ok (omap (sp_events s) (firstn (Z.to_nat (bound - t)) (skipn (Z.to_nat t) (sp_topo s)))).
Proof.
  intros D S. induction fuel as [|f IH]; intros t Ht Hf; [lia|].
  cbn [db_topo_scan]. unfold db_get_id. rewrite (dk_topo _ _ D).
  destruct (znth (sp_topo s) t) as [id|] eqn:N; cbn [option_map].
  - pose proof (znth_range _ _ _ N) as R. unfold zlen in R.
    rewrite (skipn_znth_cons _ _ _ N).
    destruct (t <? bound) eqn:E.
    + destruct (so_topo _ S _ _ N) as (e & He & _).
      unfold db_get_event. rewrite (dk_event _ _ D), He. cbn [option_map].
      rewrite IH by lia. rewrite firstn_cons_pos by lia. cbn [omap]. rewrite He.
      replace (bound - (t + 1)) with (bound - t - 1) by lia. reflexivity.
    + replace (Z.to_nat (bound - t)) with O by lia. reflexivity.
  - replace (skipn (Z.to_nat t) (sp_topo s)) with (@nil Z).
    + now rewrite firstn_nil.
    + symmetry. apply skipn_all2. unfold znth in N. destruct (t <? 0) eqn:E; [lia|].
      now apply nth_error_None in N.
Qed.

Lemma db_topological_events_ok d s start count : db_ok d s -> spec_ok s -> 0 <= start ->
  db_topological_events d start count =
  Ok (omap (sp_events s) (firstn (Z.to_nat count) (skipn (Z.to_nat start) (sp_topo s)))).
Proof.
  intros D S H. unfold db_topological_events, db_fuel.
  rewrite (db_topo_scan_ok d s (start + count) D S) by (try lia; pose proof (dk_fuel_topo _ _ D); lia).
  do 3 f_equal. lia.
Qed.

Lemma db_ok_set_block d s bl : db_ok d s ->
  db_ok (db_set (KBlock (bl_index bl)) (VBlock bl) d) (s_set_block s bl).
Proof.
  intros [De Dp Dt Db Dr Df Fp Ft].
  constructor; cbn [s_set_block sp_events sp_part sp_topo sp_blocks sp_rounds sp_frames];
    intros; rewrite ?db_n_set, ?db_get_set_other by discriminate; auto.
  destruct (Z.eq_dec (bl_index bl) i) as [<-|N].
  - now rewrite db_get_set_same, fupd_same.
  - rewrite db_get_set_other by congruence. now rewrite fupd_other.
Qed.

Lemma db_ok_set_round d s r p : db_ok d s -> db_ok (db_set (KRound r) (VZ p) d) (s_set_round s r p).
Proof.
  intros [De Dp Dt Db Dr Df Fp Ft].
  constructor; cbn [s_set_round sp_events sp_part sp_topo sp_blocks sp_rounds sp_frames];
    intros; rewrite ?db_n_set, ?db_get_set_other by discriminate; auto.
  destruct (Z.eq_dec r r0) as [<-|N].
  - now rewrite db_get_set_same, fupd_same.
  - rewrite db_get_set_other by congruence. now rewrite fupd_other.
Qed.

Lemma db_ok_set_frame d s r p : db_ok d s -> db_ok (db_set (KFrame r) (VZ p) d) (s_set_frame s r p).
Proof.
  intros [De Dp Dt Db Dr Df Fp Ft].
  constructor; cbn [s_set_frame sp_events sp_part sp_topo sp_blocks sp_rounds sp_frames];
    intros; rewrite ?db_n_set, ?db_get_set_other by discriminate; auto.
  destruct (Z.eq_dec r r0) as [<-|N].
  - now rewrite db_get_set_same, fupd_same.
  - rewrite db_get_set_other by congruence. now rewrite fupd_other.
Qed.

Lemma db_ok_set_root d s c v : db_ok d s -> db_ok (db_set (KRoot c) v d) s.
Proof.
  intros [De Dp Dt Db Dr Df Fp Ft].
  constructor; intros; rewrite ?db_n_set, ?db_get_set_other by discriminate; auto.
Qed.

(* ------------------------------------------------------------------------- *)
(* the simulation                                                             *)
(* ------------------------------------------------------------------------- *)

Record sim (re : bool) (b : bstore) (s : spec) : Prop := mkSim {
  si_db : db_ok (b_db b) s;
  si_spec : spec_ok s;
  si_cache : cache_ok b;
  si_keys : map fst (b_rim b) = sp_parts s;
  si_rim : forall c r, aget c (b_rim b) = Some r -> ri_ok re r (sp_part s c);
  si_lastb : re = false -> b_last_block b = sp_last_block s }.

Lemma sim_init cs : sim false (binit cs) sinit.
Proof.
  constructor; cbn; auto using db_ok_init, spec_ok_init, cache_ok_init. discriminate.
Qed.

Lemma sim_same re b b' s : sim re b s -> b_db b' = b_db b -> b_rim b' = b_rim b ->
  b_last_block b' = b_last_block b -> cache_ok b' -> sim re b' s.
Proof.
  intros [D S C K R L] E1 E2 E3 C'. constructor; auto; rewrite ?E1, ?E2, ?E3; auto.
Qed.

Lemma s_set_event_parts s e : sp_parts (s_set_event s e) = sp_parts s.
Proof. unfold s_set_event. now destruct (sp_events s (ev_id e)). Qed.
Lemma s_set_event_lastb s e : sp_last_block (s_set_event s e) = sp_last_block s.
Proof. unfold s_set_event. now destruct (sp_events s (ev_id e)). Qed.
Lemma s_set_event_part s e c : sp_part (s_set_event s e) c =
  match sp_events s (ev_id e) with
  | Some _ => sp_part s c
  | None => fupd (sp_part s) (ev_creator e) (sp_part s (ev_creator e) ++ [ev_id e]) c
  end.
Proof. unfold s_set_event. now destruct (sp_events s (ev_id e)). Qed.

Lemma option_map_inj_event o e : option_map VEvent o = Some (VEvent e) -> o = Some e.
Proof. destruct o; cbn; [intros H; now injection H as ->|discriminate]. Qed.
Lemma option_map_inj_block o e : option_map VBlock o = Some (VBlock e) -> o = Some e.
Proof. destruct o; cbn; [intros H; now injection H as ->|discriminate]. Qed.

Lemma sim_set_event re b s e b' : sim re b s -> wf_op s (OSetEvent e) = true ->
  im_set_event b e = Ok b' ->
  sim re (set_db b' (db_set_event (b_db b') e)) (s_set_event s e).
Proof.
  intros Hsim W HI. pose proof Hsim as [D S C K R L].
  pose proof (cache_ok_set_event b e C) as C'. unfold b_set_event in C'. rewrite HI in C'.
  cbn [fst] in C'.
  destruct (im_set_event_ok _ _ _ HI) as (c1 & m' & -> & Hs & Hm). sb.
  constructor; sb.
  - now apply db_ok_set_event.
  - now apply spec_ok_set_event.
  - exact C'.
  - rewrite s_set_event_parts, <- K.
    destruct Hm as [[-> _]|[_ P]]; [reflexivity|].
    unfold pec_set in P. destruct (aget (ev_creator e) (b_rim b)) as [r0|] eqn:G; [|discriminate].
    destruct (ri_set r0 _ _) as [r0'|]; [|discriminate]. injection P as <-.
    apply aset_keys. congruence.
  - intros c r G. rewrite s_set_event_part.
    destruct Hm as [[-> [e1 Hhit]]|[Hmiss P]].
    + (* LRU hit: the id is known *)
      destruct (lru_get (ev_id e) (b_events b)) as [h c2] eqn:LG. cbn in Hhit. subst h.
      destruct (lru_get_sub _ _ _ _ LG) as [_ Hin]. specialize (Hin e1 eq_refl).
      apply (co_events _ C) in Hin. rewrite (dk_event _ _ D) in Hin.
      apply option_map_inj_event in Hin. rewrite Hin. now apply R.
    + unfold pec_set in P. destruct (aget (ev_creator e) (b_rim b)) as [r0|] eqn:G0; [|discriminate].
      destruct (ri_set r0 _ _) as [r0'|] eqn:RS; [|discriminate]. injection P as <-.
      cbn [wf_op] in W.
      destruct (sp_events s (ev_id e)) as [e0|] eqn:E0.
      * apply andb_true_iff in W. destruct W as [W Wt]. apply andb_true_iff in W. destruct W as [Wc Wi].
        apply Z.eqb_eq in Wc, Wi, Wt.
        destruct (Z.eq_dec (ev_creator e) c) as [<-|Nc].
        -- rewrite aget_aset_same in G. injection G as <-.
           eapply ri_set_known; [apply R; exact G0|exact RS|].
           destruct (so_event _ S _ _ E0) as (_ & Hp & _). now rewrite Wc, Wi.
        -- rewrite aget_aset_other in G by exact Nc. now apply R.
      * apply andb_true_iff in W. destruct W as [W Wt]. apply andb_true_iff in W. destruct W as [Wc Wi].
        apply Z.eqb_eq in Wi, Wt.
        destruct (Z.eq_dec (ev_creator e) c) as [<-|Nc].
        -- rewrite aget_aset_same in G. injection G as <-. rewrite fupd_same.
           eapply ri_set_new; [apply R; exact G0|]. now rewrite <- Wi.
        -- rewrite aget_aset_other in G by exact Nc. rewrite fupd_other by exact Nc. now apply R.
  - intros E. rewrite s_set_event_lastb. now apply L.
Qed.

Lemma aget_reset {A} k (l : list (Z * A)) (v0 : A) r :
  aget k (map (fun cr => (fst cr, v0)) l) = Some r -> r = v0.
Proof.
  induction l as [|[k' v'] l IH]; cbn; [discriminate|].
  destruct (Z.eqb k' k); [intros H; now injection H|exact IH].
Qed.

Lemma known_eq (m : rim) (s : spec) :
  NoDup (map fst m) ->
  (forall c r, aget c m = Some r -> ri_ok false r (sp_part s c)) ->
  pec_known m = map (fun c => (c, zlen (sp_part s c) - 1)) (map fst m).
Proof.
  intros ND H. unfold pec_known. rewrite map_map. apply map_ext_in.
  intros [c r] Hin. cbn [fst snd]. f_equal.
  pose proof (aget_In_nodup _ _ _ ND Hin) as G. apply H in G.
  pose proof (ro_last _ _ _ G eq_refl). lia.
Qed.

Lemma sim_step re b s o : sim re b s -> wf_op s o = true ->
  (forall e, o = OSetEvent e -> snd (bstep b o) = RUnit) ->
  sim (re || is_reopen o) (fst (bstep b o)) (fst (sstep s o)) /\
  (observed re o = true -> snd (bstep b o) = snd (sstep s o)).
Proof.
  intros Hsim W Hack. pose proof Hsim as [D S C K R L].
  pose proof (cache_ok_step b o C) as C'.
  pose proof (spec_ok_step s o S W) as S'.
  destruct o; cbn [is_reopen]; rewrite ?orb_false_r.
  - (* OAddParticipant *)
    cbn [bstep sstep fst snd] in *. split; [|reflexivity].
    unfold b_add_participant, s_add_participant in *.
    assert (Hz : zmem c (sp_parts s) = match aget c (b_rim b) with Some _ => true | None => false end).
    { destruct (aget c (b_rim b)) eqn:G.
      - apply zmem_In. rewrite <- K. destruct (in_dec Z.eq_dec c (map fst (b_rim b))) as [i|n]; [exact i|].
        apply aget_none_keys in n. congruence.
      - apply aget_none_keys in G. rewrite K in G.
        destruct (zmem c (sp_parts s)) eqn:Z; [apply zmem_In in Z; contradiction|reflexivity]. }
    rewrite Hz in *.
    destruct (aget c (b_rim b)) as [r0|] eqn:G.
    + destruct (db_get (b_db b) (KRoot c)); [exact Hsim|].
      constructor; sb; auto. now apply db_ok_set_root.
    + assert (Hs1 : sim re (set_rim b (b_rim b ++ [(c, ri_new (b_cs b))]))
                       (mkS (sp_parts s ++ [c]) (sp_events s) (sp_part s) (sp_topo s)
                            (sp_blocks s) (sp_rounds s) (sp_frames s) (sp_last_block s))).
      { constructor; sb; cbn [sp_parts sp_part sp_last_block]; auto.
        - destruct D. constructor; auto.
        - destruct C. constructor; auto.
        - rewrite map_app, K. reflexivity.
        - intros c0 r1 G1. rewrite aget_app in G1. destruct (aget c0 (b_rim b)) eqn:G0.
          + injection G1 as <-. now apply R.
          + destruct (Z.eqb c c0) eqn:E; [|discriminate]. apply Z.eqb_eq in E. subst c0.
            injection G1 as <-. apply ri_ok_new. intros _. now apply (so_unknown _ S). }
      destruct (db_get _ (KRoot c)); [exact Hs1|].
      destruct Hs1 as [D1 S1 C1 K1 R1 L1]. constructor; sb; auto.
      now apply db_ok_set_root.
  - (* OSetEvent *)
    specialize (Hack e eq_refl). cbn [bstep sstep fst snd] in *. unfold b_set_event in *.
    destruct (im_set_event b e) as [b'|x] eqn:HI; cbn [fst snd res_of] in *; [|discriminate].
    split; [|reflexivity]. exact (sim_set_event re b s e b' Hsim W HI).
  - (* OGetEvent *)
    cbn [bstep sstep fst snd] in *. unfold b_get_event in *.
    destruct (lru_get id (b_events b)) as [hit c1] eqn:G.
    destruct (lru_get_sub _ _ _ _ G) as [_ Hin].
    destruct hit as [e|]; cbn [fst snd res_of] in *.
    + split; [eapply sim_same; eauto|]. intros _.
      specialize (Hin e eq_refl). apply (co_events _ C) in Hin. rewrite (dk_event _ _ D) in Hin.
      apply option_map_inj_event in Hin. now rewrite Hin.
    + unfold db_get_event. rewrite (dk_event _ _ D).
      destruct (sp_events s id); cbn; split; auto.
  - (* OParticipantEvents *)
    cbn [bstep sstep fst snd observed wf_op] in *. split; [exact Hsim|]. intros E.
    apply negb_true_iff in E. subst re. f_equal.
    assert (Hskip : -1 <= skip) by lia.
    unfold b_participant_events, pec_get.
    destruct (aget c (b_rim b)) as [r|] eqn:G; [|now apply db_participant_events_ok].
    destruct (ri_get r skip) as [l|x] eqn:RG; [|now apply db_participant_events_ok].
    eapply ri_get_ok; eauto.
  - (* OParticipantEvent *)
    cbn [bstep sstep fst snd] in *. split; [exact Hsim|]. intros _.
    unfold b_participant_event, pec_get_item.
    assert (Hdb : res_of RId (match db_get_id (b_db b) (KPart c index) with
                              | Some x => Ok x | None => Err KeyNotFound end)
                  = opt_res RId (znth (sp_part s c) index)).
    { unfold db_get_id. rewrite (dk_part _ _ D). now destruct (znth (sp_part s c) index). }
    destruct (aget c (b_rim b)) as [r|] eqn:G; [|exact Hdb].
    destruct (ri_get_item r index) as [x|y] eqn:RG; [|exact Hdb].
    rewrite (ri_get_item_ok _ _ _ _ _ (R _ _ G) RG). reflexivity.
  - (* OLastEventFrom *)
    cbn [bstep sstep fst snd observed] in *. split; [exact Hsim|]. intros E.
    apply negb_true_iff in E. subst re. unfold pec_get_last.
    destruct (aget c (b_rim b)) as [r|] eqn:G.
    + replace (zmem c (sp_parts s)) with true.
      2:{ symmetry. apply zmem_In. rewrite <- K.
          destruct (in_dec Z.eq_dec c (map fst (b_rim b))) as [i|n]; [exact i|].
          apply aget_none_keys in n. congruence. }
      pose proof (R _ _ G) as [A B Ci Dl]. specialize (Dl eq_refl).
      unfold ri_oldest, ri_len in *.
      destruct (ri_items r) as [|a l] eqn:EI.
      * rewrite (B eq_refl) in Dl. rewrite znth_none by lia. reflexivity.
      * destruct (nth_error (a :: l) (length (a :: l) - 1)) as [x|] eqn:N.
        -- apply Ci in N. cbn [length] in *.
           replace (zlen (sp_part s c) - 1) with
             (ri_last r - Z.of_nat (Datatypes.S (length l)) + 1 + Z.of_nat (Datatypes.S (length l) - 1)) by lia.
           rewrite N. reflexivity.
        -- apply nth_error_None in N. cbn [length] in N. lia.
    + apply aget_none_keys in G. rewrite K in G.
      destruct (zmem c (sp_parts s)) eqn:Z; [apply zmem_In in Z; contradiction|reflexivity].
  - (* OKnownEvents *)
    cbn [bstep sstep fst snd observed] in *. split; [exact Hsim|]. intros E.
    apply negb_true_iff in E. subst re. f_equal. rewrite <- K. apply known_eq; [|exact R].
    rewrite K. apply (so_nodup _ S).
  - (* OSetBlock *)
    cbn [bstep sstep fst snd] in *. split; [|reflexivity].
    unfold b_set_block in *. destruct (lru_get (bl_index b0) (b_blocks b)) as [hit c1] eqn:G.
    destruct (bl_index b0 >? _) eqn:E; sb; constructor; sb; cbn [s_set_block sp_parts sp_part sp_last_block];
      auto using db_ok_set_block; intros Hre; specialize (L Hre); lia.
  - (* OGetBlock *)
    cbn [bstep sstep fst snd] in *. unfold b_get_block in *.
    destruct (lru_get i (b_blocks b)) as [hit c1] eqn:G.
    destruct (lru_get_sub _ _ _ _ G) as [_ Hin].
    destruct hit as [e|]; cbn [fst snd res_of] in *.
    + split; [eapply sim_same; eauto|]. intros _.
      specialize (Hin e eq_refl). apply (co_blocks _ C) in Hin. rewrite (dk_block _ _ D) in Hin.
      apply option_map_inj_block in Hin. now rewrite Hin.
    + unfold db_get_block. rewrite (dk_block _ _ D).
      destruct (sp_blocks s i); cbn; split; auto.
  - (* OLastBlockIndex *)
    cbn [bstep sstep fst snd observed] in *. split; [exact Hsim|]. intros E.
    apply negb_true_iff in E. subst re. now rewrite L.
  - (* OSetRound *)
    cbn [bstep sstep fst snd] in *. split; [|reflexivity].
    unfold b_set_round in *.
    destruct (r >? _) eqn:E; sb; constructor; sb; cbn [s_set_round sp_parts sp_part sp_last_block];
      auto using db_ok_set_round.
  - (* OGetRound *)
    cbn [bstep sstep fst snd observed] in *. split; [|discriminate].
    unfold b_get_round in *. destruct (lru_get r (b_rounds b)) as [hit c1] eqn:G.
    destruct hit; cbn [fst] in *; [eapply sim_same; eauto|exact Hsim].
  - (* OSetFrame *)
    cbn [bstep sstep fst snd] in *. split; [|reflexivity].
    unfold b_set_frame in *. destruct (lru_get r (b_frames b)) as [hit c1] eqn:G.
    sb; constructor; sb; cbn [s_set_frame sp_parts sp_part sp_last_block];
      auto using db_ok_set_frame.
  - (* OGetFrame *)
    cbn [bstep sstep fst snd observed] in *. split; [|discriminate].
    unfold b_get_frame in *. destruct (lru_get r (b_frames b)) as [hit c1] eqn:G.
    destruct hit; cbn [fst] in *; [eapply sim_same; eauto|exact Hsim].
  - (* ODbGetRound *)
    cbn [bstep sstep fst snd] in *. split; [exact Hsim|]. intros _.
    unfold db_get_z. rewrite (dk_round _ _ D). now destruct (sp_rounds s r).
  - (* ODbGetFrame *)
    cbn [bstep sstep fst snd] in *. split; [exact Hsim|]. intros _.
    unfold db_get_z. rewrite (dk_frame _ _ D). now destruct (sp_frames s r).
  - (* ODbTopological *)
    cbn [bstep sstep fst snd wf_op] in *. split; [exact Hsim|]. intros _.
    rewrite (db_topological_events_ok _ s start count D S) by lia. reflexivity.
  - (* OReopen *)
    cbn [bstep sstep fst snd] in *. rewrite orb_true_r. split; [|reflexivity].
    unfold b_reopen. constructor; sb; auto.
    + rewrite map_map. cbn [fst]. exact K.
    + intros c r G. pose proof (aget_reset _ _ _ _ G) as ->. apply ri_ok_new. discriminate.
    + discriminate.
Qed.

(* a rejected write leaves the whole store untouched *)
Lemma rejected_write_noop b e b' x : bstep b (OSetEvent e) = (b', RErr x) -> b' = b.
Proof.
  cbn [bstep]. unfold b_set_event. destruct (im_set_event b e) as [b1|y]; cbn [res_of].
  - discriminate.
  - intros H. now injection H.
Qed.

(* ------------------------------------------------------------------------- *)
(* runs                                                                       *)
(* ------------------------------------------------------------------------- *)

Definition reopened (re : bool) (ops : list sop) : bool := re || negb (no_reopen ops).

Lemma refines_from : forall ops re b s, sim re b s -> wf_from s ops = true ->
  writes_ok ops (snd (brun b ops)) = true ->
  observe re ops (snd (brun b ops)) = observe re ops (snd (srun s ops)) /\
  sim (reopened re ops) (fst (brun b ops)) (fst (srun s ops)).
Proof.
  induction ops as [|o ops IH]; intros re b s Hsim W A.
  - cbn. split; [reflexivity|]. unfold reopened. cbn. now rewrite orb_false_r.
  - cbn [wf_from] in W. apply andb_true_iff in W. destruct W as [W1 W2].
    cbn [brun srun] in *.
    destruct (bstep b o) as [b1 x] eqn:B. destruct (sstep s o) as [s1 y] eqn:Sx.
    destruct (brun b1 ops) as [b2 xs] eqn:B2. destruct (srun s1 ops) as [s2 ys] eqn:S2.
    cbn [fst snd] in *.
    assert (Hack : forall e, o = OSetEvent e -> snd (bstep b o) = RUnit).
    { intros e ->. rewrite B. cbn [snd]. cbn [writes_ok] in A. destruct x; try discriminate A. reflexivity. }
    assert (A' : writes_ok ops xs = true).
    { cbn [writes_ok] in A. destruct o; try exact A. destruct x; try discriminate A. exact A. }
    destruct (sim_step re b s o Hsim W1 Hack) as [Hsim1 Hres]. rewrite B, Sx in Hsim1, Hres.
    cbn [fst snd] in *.
    specialize (IH (re || is_reopen o) b1 s1 Hsim1 W2). rewrite B2, S2 in IH. cbn [fst snd] in IH.
    destruct (IH A') as [IH1 IH2]. split.
    + cbn [observe]. rewrite IH1. destruct (observed re o) eqn:O; [|reflexivity].
      now rewrite (Hres eq_refl).
    + unfold reopened in *. cbn [no_reopen]. destruct (is_reopen o); cbn in *;
        rewrite ?orb_true_r, ?orb_false_r in *; exact IH2.
Qed.

Definition refines_map_statement : Prop :=
  forall cs ops, wf_ops ops = true ->
    writes_ok ops (snd (brun (binit cs) ops)) = true ->
    observe false ops (snd (brun (binit cs) ops)) = observe false ops (snd (srun sinit ops)).

Lemma refines_map : refines_map_statement.
Proof.
  intros cs ops W A. exact (proj1 (refines_from ops false (binit cs) sinit (sim_init cs) W A)).
Qed.

Lemma cache_coherent : forall cs ops, cache_ok (fst (brun (binit cs) ops)).
Proof. intros cs ops. apply cache_ok_run, cache_ok_init. Qed.

(* ------------------------------------------------------------------------- *)
(* listings                                                                   *)
(* ------------------------------------------------------------------------- *)

Lemma omap_total {A B} (f : A -> option B) : forall (l : list A),
  (forall x, In x l -> f x <> None) ->
  length (omap f l) = length l /\
  forall i, nth_error (omap f l) i = match nth_error l i with Some x => f x | None => None end.
Proof.
  induction l as [|a l IH]; intros H.
  - split; [reflexivity|]. intros i. now destruct i.
  - cbn [omap]. destruct (f a) as [y|] eqn:E; [|exfalso; apply (H a); [now left|exact E]].
    destruct IH as [IH1 IH2]; [intros x Hx; apply H; now right|]. split.
    + cbn. now rewrite IH1.
    + intros [|i]; cbn; [now rewrite E|apply IH2].
Qed.

Lemma znth_nodup {A} (l : list A) :
  (forall i j x, znth l i = Some x -> znth l j = Some x -> i = j) -> NoDup l.
Proof.
  intros H. apply NoDup_nth_error. intros i j Hi E.
  apply nth_error_Some in Hi. destruct (nth_error l i) as [x|] eqn:N; [|congruence].
  apply Nat2Z.inj. apply (H _ _ x); rewrite znth_nth_error; congruence.
Qed.

Lemma nth_error_firstn' {A} : forall (n : nat) (l : list A) (i : nat), (i < n)%nat ->
  nth_error (firstn n l) i = nth_error l i.
Proof.
  induction n as [|n IH]; intros l i H; [lia|].
  destruct l as [|a l]; [now destruct i|]. destruct i as [|i]; [reflexivity|].
  cbn. apply IH. lia.
Qed.

Lemma db_get_event_spec d s id : db_ok d s -> db_get_event d id = sp_events s id.
Proof.
  intros D. unfold db_get_event. rewrite (dk_event _ _ D). now destruct (sp_events s id).
Qed.

Lemma listings_of_sim re b s : sim re b s -> listings_exact (b_db b).
Proof.
  intros [D So C K R L]. split; [|split].
  - intros c. cbn zeta. rewrite (db_participant_events_ok _ s c (-1) D) by lia.
    change (skipn (Z.to_nat (-1 + 1)) (sp_part s c)) with (sp_part s c).
    split; [|split].
    + apply znth_nodup. intros i j x Hi Hj.
      destruct (so_part _ So _ _ _ Hi) as (e1 & H1 & _ & H1i).
      destruct (so_part _ So _ _ _ Hj) as (e2 & H2 & _ & H2i). congruence.
    + intros id e H Hc. rewrite (db_get_event_spec _ s _ D) in H.
      destruct (so_event _ So _ _ H) as (_ & Hp & _). now rewrite <- Hc.
    + intros i id H. destruct (so_part _ So _ _ _ H) as (e & H1 & H2 & H3).
      exists e. rewrite (db_get_event_spec _ s _ D). auto.
  - exists (zlen (sp_topo s)). split; [unfold zlen; lia|]. intros N HN.
    rewrite (db_topological_events_ok _ s 0 N D So) by lia.
    change (skipn (Z.to_nat 0) (sp_topo s)) with (sp_topo s).
    rewrite firstn_all2 by (unfold zlen in HN; lia).
    destruct (omap_total (sp_events s) (sp_topo s)) as [Hlen Hnth].
    { intros x Hx. apply In_nth_error in Hx. destruct Hx as [n Hn].
      rewrite <- znth_nth_error in Hn. destruct (so_topo _ So _ _ Hn) as (e & He & _). congruence. }
    assert (Hz : forall i, znth (omap (sp_events s) (sp_topo s)) i =
                           match znth (sp_topo s) i with Some x => sp_events s x | None => None end).
    { intros i. unfold znth. destruct (i <? 0); [reflexivity|]. apply Hnth. }
    assert (Hb : forall i e, znth (omap (sp_events s) (sp_topo s)) i = Some e ->
                             ev_topo e = i /\ sp_events s (ev_id e) = Some e).
    { intros i e H. rewrite Hz in H. destruct (znth (sp_topo s) i) as [id|] eqn:Nz; [|discriminate].
      destruct (so_topo _ So _ _ Nz) as (e' & He' & Ht). rewrite He' in H. injection H as ->.
      destruct (so_event _ So _ _ He') as (Hid & _). split; [exact Ht|]. now rewrite Hid. }
    eexists. split; [reflexivity|]. split; [unfold zlen; now rewrite Hlen|]. split; [|split].
    + apply znth_nodup. intros i j x Hi Hj. unfold znth in Hi, Hj.
      destruct (i <? 0) eqn:Ei; [discriminate|]. destruct (j <? 0) eqn:Ej; [discriminate|].
      rewrite nth_error_map in Hi, Hj.
      destruct (nth_error _ (Z.to_nat i)) as [e1|] eqn:N1; [|discriminate].
      destruct (nth_error _ (Z.to_nat j)) as [e2|] eqn:N2; [|discriminate].
      cbn in Hi, Hj. injection Hi as Hi. injection Hj as Hj.
      rewrite <- znth_nth_error in N1, N2. apply Hb in N1, N2.
      destruct N1 as [T1 E1]. destruct N2 as [T2 E2].
      rewrite Hi in E1. rewrite Hj in E2. assert (e1 = e2) by congruence. subst e2. lia.
    + intros id e H. rewrite (db_get_event_spec _ s _ D) in H.
      destruct (so_event _ So _ _ H) as (Hid & _ & Ht). split; [exact Hid|].
      now rewrite Hz, Ht.
    + intros i e H. rewrite (db_get_event_spec _ s _ D). now apply Hb.
  - intros id e N H HN. rewrite (db_get_event_spec _ s _ D) in H.
    destruct (so_event _ So _ _ H) as (Hid & _ & Ht). pose proof (znth_range _ _ _ Ht) as Rt.
    rewrite (db_topological_events_ok _ s 0 N D So) by lia.
    change (skipn (Z.to_nat 0) (sp_topo s)) with (sp_topo s).
    eexists. split; [reflexivity|].
    destruct (omap_total (sp_events s) (firstn (Z.to_nat N) (sp_topo s))) as [_ Hnth].
    { intros x Hx. assert (Hx' : In x (sp_topo s)).
      { rewrite <- (firstn_skipn (Z.to_nat N) (sp_topo s)). apply in_or_app. now left. }
      apply In_nth_error in Hx'. destruct Hx' as [n Hn].
      rewrite <- znth_nth_error in Hn. destruct (so_topo _ So _ _ Hn) as (e' & He' & _). congruence. }
    unfold znth in *. destruct (ev_topo e <? 0); [discriminate|].
    rewrite Hnth, nth_error_firstn' by lia. now rewrite Ht.
Qed.

Definition listings_exact_acked_statement : Prop :=
  forall cs ops, wf_ops ops = true ->
    writes_ok ops (snd (brun (binit cs) ops)) = true ->
    listings_exact (b_db (fst (brun (binit cs) ops))).

Lemma listings_exact_acked : listings_exact_acked_statement.
Proof.
  intros cs ops W A.
  exact (listings_of_sim _ _ _ (proj2 (refines_from ops false (binit cs) sinit (sim_init cs) W A))).
Qed.

(* ------------------------------------------------------------------------- *)
(* general form: the reference follows the acknowledged writes only           *)
(* ------------------------------------------------------------------------- *)

Lemma refines_acked_from : forall ops re b s, sim re b s ->
  fst (fst (jrun b s ops)) = true ->
  observe re ops (snd (fst (jrun b s ops))) = observe re ops (snd (jrun b s ops)) /\
  sim (reopened re ops) (fst (jfinal b s ops)) (snd (jfinal b s ops)).
Proof.
  induction ops as [|o ops IH]; intros re b s Hsim W.
  - cbn. split; [reflexivity|]. unfold reopened. cbn. now rewrite orb_false_r.
  - cbn [jrun jfinal] in *. destruct (bstep b o) as [b1 x] eqn:B.
    destruct (rejected o x) eqn:Rj.
    + (* rejected write: nothing happened *)
      destruct o; try discriminate Rj. destruct x; try discriminate Rj.
      pose proof (rejected_write_noop _ _ _ _ B) as ->.
      specialize (IH re b s Hsim).
      destruct (jrun b s ops) as [[w xs] ys]. cbn [fst snd] in *.
      destruct (IH W) as [IH1 IH2]. split.
      * cbn [observe observed is_reopen]. rewrite orb_false_r. now rewrite IH1.
      * unfold reopened in *. cbn [no_reopen is_reopen]. exact IH2.
    + destruct (sstep s o) as [s1 y] eqn:Sx. cbn [fst].
      specialize (IH (re || is_reopen o) b1 s1).
      destruct (jrun b1 s1 ops) as [[w xs] ys]. cbn [fst snd orb] in *.
      apply andb_true_iff in W. destruct W as [W1 W2].
      assert (Hack : forall e, o = OSetEvent e -> snd (bstep b o) = RUnit).
      { intros e ->. rewrite B. cbn [snd]. cbn [bstep] in B. destruct (b_set_event b e) as [b' r].
        injection B as _ <-. destruct r; cbn in *; [reflexivity|discriminate]. }
      destruct (sim_step re b s o Hsim W1 Hack) as [Hsim1 Hres]. rewrite B, Sx in Hsim1, Hres.
      cbn [fst snd] in *. destruct (IH Hsim1 W2) as [IH1 IH2]. split.
      * cbn [observe]. rewrite IH1. destruct (observed re o) eqn:O; [|reflexivity].
        now rewrite (Hres eq_refl).
      * unfold reopened in *. cbn [no_reopen]. destruct (is_reopen o); cbn in *;
          rewrite ?orb_true_r, ?orb_false_r in *; exact IH2.
Qed.

Definition refines_acked_statement : Prop :=
  forall cs ops, fst (fst (jrun (binit cs) sinit ops)) = true ->
    observe false ops (snd (fst (jrun (binit cs) sinit ops))) =
    observe false ops (snd (jrun (binit cs) sinit ops)).

Lemma refines_acked : refines_acked_statement.
Proof.
  intros cs ops W. exact (proj1 (refines_acked_from ops false (binit cs) sinit (sim_init cs) W)).
Qed.

(* the store results of the joint run are those of brun *)
Lemma jrun_brun : forall ops b s, snd (fst (jrun b s ops)) = snd (brun b ops).
Proof.
  induction ops as [|o ops IH]; intros b s; [reflexivity|].
  cbn [jrun brun]. destruct (bstep b o) as [b1 x].
  destruct (if rejected o x then (s, x) else sstep s o) as [s1 y].
  specialize (IH b1 s1). destruct (jrun b1 s1 ops) as [[w xs] ys].
  destruct (brun b1 ops) as [b2 zs]. cbn [fst snd] in *. now rewrite IH.
Qed.

Lemma jfinal_brun : forall ops b s, fst (jfinal b s ops) = fst (brun b ops).
Proof.
  induction ops as [|o ops IH]; intros b s; [reflexivity|].
  cbn [jfinal brun]. destruct (bstep b o) as [b1 x].
  rewrite IH. now destruct (brun b1 ops).
Qed.

Definition listings_exact_general_statement : Prop :=
  forall cs ops, fst (fst (jrun (binit cs) sinit ops)) = true ->
    listings_exact (b_db (fst (brun (binit cs) ops))).

Lemma listings_exact_general : listings_exact_general_statement.
Proof.
  intros cs ops W. rewrite <- (jfinal_brun ops (binit cs) sinit).
  exact (listings_of_sim _ _ _ (proj2 (refines_acked_from ops false (binit cs) sinit (sim_init cs) W))).
Qed.

(* ------------------------------------------------------------------------- *)
(* before the first reopen: which writes can be rejected                      *)
(* ------------------------------------------------------------------------- *)

Lemma zmem_keys_aget (m : rim) c : zmem c (map fst m) = true -> exists r, aget c m = Some r.
Proof.
  intros H. apply zmem_In in H. destruct (aget c m) eqn:G; [eauto|].
  apply aget_none_keys in G. contradiction.
Qed.

(* a NEW event is never rejected *)
Lemma new_never_rejected b s e : sim false b s -> wf_op s (OSetEvent e) = true ->
  sp_events s (ev_id e) = None -> exists b', im_set_event b e = Ok b'.
Proof.
  intros [D So C K R L] W E0. cbn [wf_op] in W. rewrite E0 in W.
  apply andb_true_iff in W. destruct W as [W Wt]. apply andb_true_iff in W. destruct W as [Wc Wi].
  apply Z.eqb_eq in Wi.
  unfold im_set_event. destruct (lru_get (ev_id e) (b_events b)) as [hit c1] eqn:G.
  destruct (lru_get_sub _ _ _ _ G) as [_ Hin].
  destruct hit as [e1|].
  - specialize (Hin e1 eq_refl). apply (co_events _ C) in Hin. rewrite (dk_event _ _ D), E0 in Hin.
    discriminate Hin.
  - rewrite <- K in Wc. destruct (zmem_keys_aget _ _ Wc) as [r Gr].
    unfold pec_set. rewrite Gr. pose proof (ro_last _ _ _ (R _ _ Gr) eq_refl) as HL.
    unfold ri_set.
    replace ((0 <=? ri_last r) && (ev_index e >? ri_last r + 1)) with false by lia.
    replace ((ri_last r <? 0) || (ev_index e =? ri_last r + 1)) with true by lia.
    eauto.
Qed.

(* the only possible rejection: TooLate, for a KNOWN event that is in neither cache *)
Lemma rejection_is_too_late b s e x : sim false b s -> wf_op s (OSetEvent e) = true ->
  im_set_event b e = Err x ->
  x = TooLate /\ sp_events s (ev_id e) <> None /\
  fst (lru_get (ev_id e) (b_events b)) = None /\
  exists r, aget (ev_creator e) (b_rim b) = Some r /\ ev_index e < ri_oldest r.
Proof.
  intros Hsim W HI. pose proof Hsim as [D So C K R L].
  destruct (sp_events s (ev_id e)) as [e0|] eqn:E0.
  2:{ destruct (new_never_rejected b s e Hsim W E0) as [b' Hb]. congruence. }
  cbn [wf_op] in W. rewrite E0 in W.
  apply andb_true_iff in W. destruct W as [W Wt]. apply andb_true_iff in W. destruct W as [Wc Wi].
  apply Z.eqb_eq in Wc, Wi, Wt.
  destruct (so_event _ So _ _ E0) as (_ & Hp & _). rewrite <- Wc, <- Wi in Hp.
  unfold im_set_event in HI. destruct (lru_get (ev_id e) (b_events b)) as [hit c1] eqn:G.
  destruct hit as [e1|]; [discriminate|].
  assert (Wm : zmem (ev_creator e) (sp_parts s) = true).
  { destruct (zmem (ev_creator e) (sp_parts s)) eqn:Z; [reflexivity|].
    rewrite (so_unknown _ So _ Z), znth_nil in Hp. discriminate. }
  rewrite <- K in Wm. destruct (zmem_keys_aget _ _ Wm) as [r Gr].
  unfold pec_set in HI. rewrite Gr in HI.
  pose proof (ro_last _ _ _ (R _ _ Gr) eq_refl) as HL. apply znth_range in Hp.
  unfold ri_set in HI.
  replace ((0 <=? ri_last r) && (ev_index e >? ri_last r + 1)) with false in HI by lia.
  replace ((ri_last r <? 0) || (ev_index e =? ri_last r + 1)) with false in HI by lia.
  destruct (ev_index e <? ri_oldest r) eqn:E3; [|discriminate]. injection HI as <-.
  split; [reflexivity|]. split; [discriminate|]. split; [reflexivity|].
  exists r. split; [exact Gr|lia].
Qed.

(* two references that differ only in event payloads *)
Definition ev_like (e e' : event) : Prop :=
  ev_id e = ev_id e' /\ ev_creator e = ev_creator e' /\ ev_index e = ev_index e' /\ ev_topo e = ev_topo e'.

Record sp_like (s s' : spec) : Prop := mkSpLike {
  sl_parts : sp_parts s = sp_parts s';
  sl_events : forall id, match sp_events s id, sp_events s' id with
                         | None, None => True
                         | Some e, Some e' => ev_like e e'
                         | _, _ => False
                         end;
  sl_part : forall c, sp_part s c = sp_part s' c;
  sl_topo : sp_topo s = sp_topo s' }.

Lemma sp_like_refl s : sp_like s s.
Proof. constructor; auto. intros id. destruct (sp_events s id); [unfold ev_like|]; auto. Qed.

Lemma wf_op_like s s' o : sp_like s s' -> wf_op s o = wf_op s' o.
Proof.
  intros [P E Pt T]. destruct o; cbn [wf_op]; try reflexivity.
  specialize (E (ev_id e)). destruct (sp_events s (ev_id e)) as [e0|], (sp_events s' (ev_id e)) as [e0'|];
    try contradiction.
  - destruct E as (_ & -> & -> & ->). reflexivity.
  - now rewrite P, Pt, T.
Qed.

Lemma sstep_like s s' o : sp_like s s' -> sp_like (fst (sstep s o)) (fst (sstep s' o)).
Proof.
  intros Hl. pose proof Hl as [P E Pt T]. destruct o; cbn [sstep fst]; try exact Hl.
  - unfold s_add_participant. rewrite <- P. destruct (zmem c (sp_parts s)); [exact Hl|].
    constructor; cbn; auto.
  - unfold s_set_event. pose proof (E (ev_id e)) as Ee.
    destruct (sp_events s (ev_id e)) as [e0|], (sp_events s' (ev_id e)) as [e0'|]; try contradiction.
    + constructor; cbn; auto. intros id. unfold fupd. destruct (Z.eqb (ev_id e) id); [|apply E].
      unfold ev_like; auto.
    + constructor; cbn; auto.
      * intros id. unfold fupd. destruct (Z.eqb (ev_id e) id); [|apply E]. unfold ev_like; auto.
      * intros c. unfold fupd. destruct (Z.eqb (ev_creator e) c); [|apply Pt]. now rewrite Pt.
      * now rewrite T.
  - constructor; cbn; auto.
  - constructor; cbn; auto.
  - constructor; cbn; auto.
Qed.

Lemma like_rejected s s' e : sp_like s s' -> spec_ok s' -> wf_op s (OSetEvent e) = true ->
  sp_events s (ev_id e) <> None -> sp_like (s_set_event s e) s'.
Proof.
  intros Hl So' W N. pose proof Hl as [P E Pt T]. cbn [wf_op] in W. unfold s_set_event.
  destruct (sp_events s (ev_id e)) as [e0|] eqn:E0; [|congruence].
  apply andb_true_iff in W. destruct W as [W Wt]. apply andb_true_iff in W. destruct W as [Wc Wi].
  apply Z.eqb_eq in Wc, Wi, Wt.
  constructor; cbn; auto. intros id. unfold fupd. destruct (Z.eqb (ev_id e) id) eqn:Eq; [|apply E].
  apply Z.eqb_eq in Eq. subst id. specialize (E (ev_id e)). rewrite E0 in E.
  destruct (sp_events s' (ev_id e)) as [e0'|] eqn:E0'; [|contradiction].
  destruct (so_event _ So' _ _ E0') as (Hid & _). destruct E as (_ & E2 & E3 & E4).
  unfold ev_like. repeat split; congruence.
Qed.

Lemma no_reopen_from : forall ops b s s', sim false b s' -> sp_like s s' ->
  wf_from s ops = true -> no_reopen ops = true ->
  exists s2, sim false (fst (brun b ops)) s2 /\ sp_like (fst (srun s ops)) s2.
Proof.
  induction ops as [|o ops IH]; intros b s s' Hsim Hl W NR.
  - exists s'. split; assumption.
  - cbn [wf_from no_reopen] in *. apply andb_true_iff in W. destruct W as [W1 W2].
    apply andb_true_iff in NR. destruct NR as [NR1 NR2]. apply negb_true_iff in NR1.
    cbn [brun srun]. destruct (bstep b o) as [b1 x] eqn:B. destruct (sstep s o) as [s1 y] eqn:Sx.
    assert (Hs1 : s1 = fst (sstep s o)) by now rewrite Sx.
    assert (W1' : wf_op s' o = true) by now rewrite <- (wf_op_like s s' o Hl).
    destruct (rejected o x) eqn:Rj.
    + destruct o; try discriminate Rj. destruct x as [|x| | | | | | |]; try discriminate Rj.
      pose proof (rejected_write_noop _ _ _ _ B) as ->.
      assert (HI : im_set_event b e = Err x).
      { cbn [bstep] in B. unfold b_set_event in B. destruct (im_set_event b e); cbn in B; [discriminate|].
        injection B as <-. reflexivity. }
      destruct (rejection_is_too_late b s' e x Hsim W1' HI) as (_ & Hk & _).
      assert (Hk' : sp_events s (ev_id e) <> None).
      { pose proof (sl_events _ _ Hl (ev_id e)) as El. destruct (sp_events s (ev_id e)); [discriminate|].
        destruct (sp_events s' (ev_id e)); [contradiction|congruence]. }
      assert (Hl1 : sp_like s1 s').
      { rewrite Hs1. cbn [sstep fst]. apply like_rejected; auto. apply (si_spec _ _ _ Hsim). }
      destruct (IH b s1 s' Hsim Hl1 W2 NR2) as [s2 [H1 H2]].
      destruct (brun b ops) as [b2 xs]. destruct (srun s1 ops) as [s3 ys]. exists s2. auto.
    + assert (Hack : forall e, o = OSetEvent e -> snd (bstep b o) = RUnit).
      { intros e ->. rewrite B. cbn [snd]. cbn [bstep] in B. destruct (b_set_event b e) as [b' r].
        injection B as _ <-. destruct r; cbn in *; [reflexivity|discriminate]. }
      destruct (sim_step false b s' o Hsim W1' Hack) as [Hsim1 _]. rewrite B, NR1 in Hsim1.
      cbn [fst orb] in Hsim1.
      assert (Hl1 : sp_like s1 (fst (sstep s' o))) by (rewrite Hs1; now apply sstep_like).
      rewrite Hs1 in W2. rewrite <- Hs1 in W2.
      destruct (IH b1 s1 _ Hsim1 Hl1 W2 NR2) as [s2 [H1 H2]].
      destruct (brun b1 ops) as [b2 xs]. destruct (srun s1 ops) as [s3 ys]. exists s2. auto.
Qed.

Definition listings_exact_no_reopen_statement : Prop :=
  forall cs ops, wf_ops ops = true -> no_reopen ops = true ->
    listings_exact (b_db (fst (brun (binit cs) ops))).

Lemma listings_exact_no_reopen : listings_exact_no_reopen_statement.
Proof.
  intros cs ops W NR.
  destruct (no_reopen_from ops (binit cs) sinit sinit (sim_init cs) (sp_like_refl _) W NR) as [s2 [H _]].
  exact (listings_of_sim _ _ _ H).
Qed.

(* before the first reopen a wf write is rejected only with TooLate, only for a known id *)
Definition only_too_late_statement : Prop :=
  forall cs ops e, wf_ops (ops ++ [OSetEvent e]) = true -> no_reopen ops = true ->
    let b := fst (brun (binit cs) ops) in
    forall x, snd (bstep b (OSetEvent e)) = RErr x ->
      x = TooLate /\ sp_events (fst (srun sinit ops)) (ev_id e) <> None.

Lemma wf_from_app : forall ops s o, wf_from s (ops ++ [o]) = true ->
  wf_from s ops = true /\ wf_op (fst (srun s ops)) o = true.
Proof.
  induction ops as [|a ops IH]; intros s o W.
  - cbn in *. apply andb_true_iff in W. tauto.
  - cbn [app wf_from srun] in *. apply andb_true_iff in W. destruct W as [W1 W2].
    destruct (IH _ _ W2) as [H1 H2]. rewrite W1, H1. split; [reflexivity|].
    destruct (sstep s a) as [s1 y]. cbn [fst] in *. now destruct (srun s1 ops).
Qed.

Lemma only_too_late : only_too_late_statement.
Proof.
  intros cs ops e W NR b x Hx. apply wf_from_app in W. destruct W as [W1 W2].
  destruct (no_reopen_from ops (binit cs) sinit sinit (sim_init cs) (sp_like_refl _) W1 NR)
    as [s2 [Hsim Hl]]. fold b in Hsim.
  rewrite (wf_op_like _ _ _ Hl) in W2.
  assert (HI : im_set_event b e = Err x).
  { cbn [bstep] in Hx. unfold b_set_event in Hx. destruct (im_set_event b e); cbn in Hx; [discriminate|].
    now injection Hx as <-. }
  destruct (rejection_is_too_late b s2 e x Hsim W2 HI) as (Hx1 & Hk & _). split; [exact Hx1|].
  pose proof (sl_events _ _ Hl (ev_id e)) as El.
  destruct (sp_events (fst (srun sinit ops)) (ev_id e)); [discriminate|].
  destruct (sp_events s2 (ev_id e)); [contradiction|congruence].
Qed.

(* ------------------------------------------------------------------------- *)
(* statements unfolded for Properties/C16.v, and refutations                  *)
(* ------------------------------------------------------------------------- *)

Lemma cache_coherent_unfolded : forall cs ops,
  let b := fst (brun (binit cs) ops) in
  (forall k e, In (k, e) (lru_items (b_events b)) -> db_get (b_db b) (KEvent k) = Some (VEvent e)) /\
  (forall k bl, In (k, bl) (lru_items (b_blocks b)) -> db_get (b_db b) (KBlock k) = Some (VBlock bl)) /\
  (forall k p, In (k, p) (lru_items (b_rounds b)) -> db_get (b_db b) (KRound k) = Some (VZ p)) /\
  (forall k p, In (k, p) (lru_items (b_frames b)) -> db_get (b_db b) (KFrame k) = Some (VZ p)).
Proof. intros cs ops b. destruct (cache_coherent cs ops) as [A B C D]. auto. Qed.

(* the refinement WITHOUT the "writes were acknowledged" hypothesis is false *)
Definition refines_map_unconditional_statement : Prop :=
  forall cs ops, wf_ops ops = true ->
    observe false ops (snd (brun (binit cs) ops)) = observe false ops (snd (srun sinit ops)).

Lemma refines_map_unconditional_refuted : ~ refines_map_unconditional_statement.
Proof.
  intros H. specialize (H 2 w_reset_rejected eq_refl). vm_compute in H. discriminate H.
Qed.

Definition refines_map_across_reopen_statement : Prop :=
  forall cs ops, wf_ops ops = true -> writes_ok ops (snd (brun (binit cs) ops)) = true ->
    observe_all ops (snd (brun (binit cs) ops)) = observe_all ops (snd (srun sinit ops)).

Lemma refines_map_across_reopen_refuted : ~ refines_map_across_reopen_statement.
Proof.
  intros H. specialize (H 5 w_listing_after_reopen eq_refl eq_refl). vm_compute in H. discriminate H.
Qed.

(* gap-free listings WITHOUT acknowledgement / no-reopen hypothesis are false *)
Definition listings_exact_unconditional_statement : Prop :=
  forall cs ops, wf_ops ops = true -> listings_exact (b_db (fst (brun (binit cs) ops))).

Lemma listings_exact_unconditional_refuted : ~ listings_exact_unconditional_statement.
Proof.
  intros H. destruct (H 5 w_topo_gap eq_refl) as (_ & _ & H3).
  destruct (H3 103 (mkev 103 8 0 3 1) 10 eq_refl eq_refl) as (es & H1 & H2).
  vm_compute in H1. injection H1 as <-. vm_compute in H2. discriminate H2.
Qed.

(* ------------------------------------------------------------------------- *)
(* model adequacy: the fuel of the two DB scans never runs out.               *)
(* For EVERY reachable DB (any operation sequence, disciplined or not) a scan  *)
(* with db_fuel d steps meets a missing key, so more fuel changes nothing: the *)
(* bounded loops are the unbounded Go loops.                                  *)
(* ------------------------------------------------------------------------- *)

Inductive db_reach : db -> Prop :=
| dr_empty : db_reach db_empty
| dr_set : forall k v d, db_reach d -> db_reach (db_set k v d).

Lemma db_reach_set_event d e : db_reach d -> db_reach (db_set_event d e).
Proof.
  intros H. unfold db_set_event. destruct (db_get d (KEvent (ev_id e))); repeat constructor; exact H.
Qed.

Lemma db_reach_step b o : db_reach (b_db b) -> db_reach (b_db (fst (bstep b o))).
Proof.
  intros H. destruct o; cbn [bstep fst]; try exact H.
  - unfold b_add_participant. destruct (aget c (b_rim b)); sb;
      destruct (db_get _ (KRoot c)); sb; try exact H; now constructor.
  - unfold b_set_event. destruct (im_set_event b e) as [b'|x] eqn:HI; cbn [fst]; [|exact H].
    destruct (im_set_event_ok _ _ _ HI) as (c1 & m' & -> & _). sb. now apply db_reach_set_event.
  - unfold b_get_event. destruct (lru_get id (b_events b)) as [[e|] c1]; sb; [exact H|].
    destruct (db_get_event (b_db b) id); exact H.
  - unfold b_set_block. destruct (lru_get (bl_index b0) (b_blocks b)) as [h c1].
    destruct (bl_index b0 >? _); sb; now constructor.
  - unfold b_get_block. destruct (lru_get i (b_blocks b)) as [[e|] c1]; sb; [exact H|].
    destruct (db_get_block (b_db b) i); exact H.
  - unfold b_set_round. destruct (r >? _); sb; now constructor.
  - unfold b_get_round. destruct (lru_get r (b_rounds b)) as [[e|] c1]; sb; exact H.
  - unfold b_set_frame. destruct (lru_get r (b_frames b)) as [h c1]. sb. now constructor.
  - unfold b_get_frame. destruct (lru_get r (b_frames b)) as [[e|] c1]; sb; exact H.
Qed.

Lemma db_reach_run : forall ops b, db_reach (b_db b) -> db_reach (b_db (fst (brun b ops))).
Proof.
  induction ops as [|o ops IH]; intros b H; [exact H|].
  cbn [brun]. pose proof (db_reach_step b o H) as H1. destruct (bstep b o) as [b1 x].
  specialize (IH b1 H1). now destruct (brun b1 ops).
Qed.

Lemma db_reach_support d : db_reach d ->
  exists ks, (length ks <= db_n d)%nat /\ forall k, db_get d k <> None -> In k ks.
Proof.
  induction 1 as [|k v d H (ks & Hl & Hs)].
  - exists []. split; [cbn; lia|]. intros k H. now cbn in H.
  - exists (k :: ks). split; [cbn; lia|]. intros k' Hk.
    destruct (dbkey_eqb k k') eqn:E; [apply dbkey_eqb_eq in E; now left|].
    right. apply Hs. rewrite db_get_set_other in Hk; [exact Hk|].
    intros ->. assert (dbkey_eqb k' k' = true) by now apply dbkey_eqb_eq. congruence.
Qed.

Lemma nodup_map_inj {A B} (f : A -> B) (l : list A) :
  (forall x y, f x = f y -> x = y) -> NoDup l -> NoDup (map f l).
Proof.
  intros Inj. induction 1 as [|a l Hn Hd IH]; cbn; constructor; [|exact IH].
  intros H. apply in_map_iff in H. destruct H as (y & Hy & Hin). apply Inj in Hy. now subst.
Qed.

(* among db_fuel d distinct keys one is missing *)
Lemma db_pigeonhole d (g : nat -> dbkey) : db_reach d ->
  (forall i j, g i = g j -> i = j) -> exists j, (j < db_fuel d)%nat /\ db_get d (g j) = None.
Proof.
  intros R Inj. destruct (db_reach_support d R) as (ks & Hl & Hs). unfold db_fuel.
  assert (Hdec : forall n, (exists j, (j < n)%nat /\ db_get d (g j) = None) \/
                           (forall j, (j < n)%nat -> db_get d (g j) <> None)).
  { induction n as [|n [IH|IH]].
    - right. intros j Hj. lia.
    - left. destruct IH as (j & Hj & Hg). exists j. split; [lia|exact Hg].
    - destruct (db_get d (g n)) eqn:E.
      + right. intros j Hj. destruct (Nat.eq_dec j n) as [->|N]; [congruence|]. apply IH. lia.
      + left. exists n. split; [lia|exact E]. }
  destruct (Hdec (Datatypes.S (db_n d))) as [H|H]; [exact H|]. exfalso.
  assert (Hnd : NoDup (map g (seq 0 (Datatypes.S (db_n d))))).
  { apply nodup_map_inj; [exact Inj|apply seq_NoDup]. }
  assert (Hincl : incl (map g (seq 0 (Datatypes.S (db_n d)))) ks).
  { intros k Hk. apply in_map_iff in Hk. destruct Hk as (j & <- & Hj). apply in_seq in Hj.
    apply Hs, H. lia. }
  pose proof (NoDup_incl_length Hnd Hincl) as Hlen. rewrite map_length, seq_length in Hlen. lia.
Qed.

Lemma part_scan_stable d c : forall f i g,
  (exists j, (j < f)%nat /\ db_get d (KPart c (i + Z.of_nat j)) = None) -> (f <= g)%nat ->
  db_part_scan g d c i = db_part_scan f d c i.
Proof.
  induction f as [|f IH]; intros i g (j & Hj & Hg) Hfg; [lia|].
  destruct g as [|g]; [lia|]. cbn [db_part_scan]. unfold db_get_id.
  destruct (db_get d (KPart c i)) as [v|] eqn:E.
  - destruct v; try reflexivity. f_equal. apply IH; [|lia].
    destruct j as [|j]; [rewrite Z.add_0_r in Hg; congruence|].
    exists j. split; [lia|]. rewrite <- Hg. f_equal. f_equal. lia.
  - reflexivity.
Qed.

Lemma topo_scan_stable d bound : forall f t g,
  (exists j, (j < f)%nat /\ db_get d (KTopo (t + Z.of_nat j)) = None) -> (f <= g)%nat ->
  db_topo_scan g d t bound = db_topo_scan f d t bound.
Proof.
  induction f as [|f IH]; intros t g (j & Hj & Hg) Hfg; [lia|].
  destruct g as [|g]; [lia|]. cbn [db_topo_scan]. unfold db_get_id.
  destruct (db_get d (KTopo t)) as [v|] eqn:E.
  - destruct v; try reflexivity. destruct (t <? bound); [|reflexivity].
    destruct (db_get_event d x); [|reflexivity].
    rewrite (IH (t + 1) g); [reflexivity| |lia].
    destruct j as [|j]; [rewrite Z.add_0_r in Hg; congruence|].
    exists j. split; [lia|]. rewrite <- Hg. f_equal. f_equal. lia.
  - reflexivity.
Qed.

Definition fuel_irrelevant_statement : Prop :=
  forall cs ops c i t bound extra,
    let d := b_db (fst (brun (binit cs) ops)) in
    db_part_scan (db_fuel d + extra) d c i = db_part_scan (db_fuel d) d c i /\
    db_topo_scan (db_fuel d + extra) d t bound = db_topo_scan (db_fuel d) d t bound.
Lemma fuel_irrelevant : fuel_irrelevant_statement.
Proof.
  intros cs ops c i t bound extra d.
  assert (R : db_reach d) by (apply db_reach_run; constructor).
  split.
  - apply part_scan_stable; [|lia].
    apply (db_pigeonhole d (fun j => KPart c (i + Z.of_nat j)) R).
    intros a b H. injection H as H. lia.
  - apply topo_scan_stable; [|lia].
    apply (db_pigeonhole d (fun j => KTopo (t + Z.of_nat j)) R).
    intros a b H. injection H as H. lia.
Qed.
