(* Stage D2 (b), second half: consequences of [cinvD P None] in ONE state (dynamic membership).
   GENERATED from StronglySee.v by text substitution: the strongly-see lemmas hold for ANY set g;
   the quorum lemma reads the set of round j-1. *)
From Coq Require Import ZArith List Bool Lia ZifyBool.
From RecordUpdate Require Import RecordSet.
From V Require Import Model.ZMap Model.Quorum Model.Voting Model.HgImpl
  Proofs.ZMapFacts Proofs.HgFrames Proofs.HgDagFrames Proofs.AdmissionProofs Proofs.InsertShape
  Proofs.Ancestry Proofs.Static Proofs.FirstDesc Proofs.DivInv Proofs.Height Proofs.StronglySee
  Proofs.FirstDescD Proofs.DivInvD.
Import ListNotations RecordSetNotations.
Open Scope Z_scope.

Record goodD (P : Z -> peerset) (st : hg) : Prop := {
  gD_dag : dag_ok st;
  gD_la : la_ok st;
  gD_c : cinvD P None st;
  gD_h : exists h, hmeasure st h
}.

Section One.
  Variables (P : Z -> peerset) (g : peerset) (st : hg).
  Hypothesis G : goodD P st.
  Let OK := gD_dag _ _ G.
  Let LA := gD_la _ _ G.
  Let I := gD_c _ _ G.

  Lemma stored_index_nonnegD x ex : get_event st x = Some ex -> 0 <= e_index (ev_e ex).
  Proof. intros H. destruct (d_listed st OK _ _ H) as [_ [_ [Hge _]]]. exact Hge. Qed.

  (* an event with a last-ancestor entry (i, y) for creator c has every creator-c event of index <= i
     among its ancestors *)
  Lemma la_ancD x ex c i y a ea :
    get_event st x = Some ex -> aget c (ev_la ex) = Some (i, y) ->
    get_event st a = Some ea -> e_creator (ev_e ea) = c -> e_index (ev_e ea) <= i -> anc st x a.
  Proof.
    intros Hx Hg Ha Hc Hi. destruct (la_s st LA _ _ _ _ _ Hx Hg) as [ey [Hy [Hcy [Hiy Hanc]]]].
    eapply anc_trans; [exact Hanc|].
    apply (chain_anc st OK (Z.to_nat (i - e_index (ev_e ea))) y ey a ea Hy Ha); [congruence|lia|lia].
  Qed.

  Lemma anc_storedD x ex y : get_event st x = Some ex -> anc st x y -> exists ey, get_event st y = Some ey.
  Proof.
    intros Hx Ha. revert ex Hx. induction Ha as [x|x p y Hp Ha IH]; intros ex Hx; [eauto|].
    destruct Hp as [ex' [Hx' [Hn Hp]]]. rewrite Hx in Hx'. inversion Hx'; subst ex'.
    destruct Hp as [Hp|Hp].
    - destruct (d_sp st OK _ _ Hx) as [[E _]|[ps [Hps _]]]; [congruence|]. rewrite Hp in Hps. eapply IH; eauto.
    - destruct (d_op st OK _ _ Hx) as [E|[po Hpo]]; [congruence|]. rewrite Hp in Hpo. eapply IH; eauto.
  Qed.

  (** ** completeness of first descendants *)
  Lemma fd_descendD c K a ea : get_event st a = Some ea -> forall n b eb i z t,
    get_event st b = Some eb -> e_creator (ev_e eb) = e_creator (ev_e ea) ->
    e_index (ev_e ea) <= e_index (ev_e eb) <= t ->
    e_index (ev_e eb) - e_index (ev_e ea) = Z.of_nat n ->
    no_wit_between st (e_creator (ev_e ea)) (e_index (ev_e ea)) t ->
    aget c (ev_fd eb) = Some (i, z) -> i <= K ->
    exists i' z', aget c (ev_fd ea) = Some (i', z') /\ i' <= K.
  Proof.
    intros Ha. induction n as [|n IH]; intros b eb i z t Hb Hc Hr Hn Hnw Hg Hle.
    - assert (b = a) by (eapply (dag_ok_no_fork st b a eb ea OK); eauto; lia). subst b.
      rewrite Ha in Hb. inversion Hb; subst eb. eauto.
    - pose proof (stored_index_nonnegD a ea Ha) as Ha0.
      assert (Hwb : wit st b = false) by (apply (Hnw b eb Hb Hc); lia).
      destruct (d_sp st OK _ _ Hb) as [[_ Hi0]|[ps [Hps [Hcp Hip]]]]; [lia|].
      assert (Hsp : e_sp (ev_e eb) <> -1).
      { intros C. rewrite C, get_event_neg in Hps by lia. discriminate. }
      destruct (cd_closed _ _ _ I b eb c i z Hb Hg Hwb Hsp) as [es [i' [z' [Hes [Hg' Hle']]]]].
      rewrite Hps in Hes. inversion Hes; subst es.
      apply (IH (e_sp (ev_e eb)) ps i' z' t Hps); [congruence|lia|lia|exact Hnw|exact Hg'|lia].
  Qed.

  Lemma fd_completeD z ez a ea :
    get_event st z = Some ez -> get_event st a = Some ea -> cond st z a ->
    exists i z', aget (e_creator (ev_e ez)) (ev_fd ea) = Some (i, z') /\ i <= e_index (ev_e ez).
  Proof.
    intros Hz Ha [ez' [ea' [t [y [Hz' [Ha' [Hl [Hi Hnw]]]]]]]].
    rewrite Hz in Hz'. inversion Hz'; subst ez'. rewrite Ha in Ha'. inversion Ha'; subst ea'.
    destruct (cd_top _ _ _ I z ez _ t y Hz Hl) as [ey [i0 [z0 [Hy [Hg0 Hle0]]]]].
    destruct (la_s st LA _ _ _ _ _ Hz Hl) as [ey' [Hy' [Hcy [Hiy _]]]].
    rewrite Hy in Hy'. inversion Hy'; subst ey'.
    apply (fd_descendD (e_creator (ev_e ez)) (e_index (ev_e ez)) a ea Ha
             (Z.to_nat (t - e_index (ev_e ea))) y ey i0 z0 t Hy); [exact Hcy|lia|lia|exact Hnw|exact Hg0|exact Hle0].
  Qed.

  (** ** strongly-see *)




  (* one creator's contribution to strongly-see, semantically *)
  Lemma ssp_ancD x ex w ew p :
    get_event st x = Some ex -> get_event st w = Some ew ->
    ssp (ev_la ex) (ev_fd ew) p = true -> anc st x w.
  Proof.
    intros Hx Hw. unfold ssp.
    destruct (aget p (ev_la ex)) as [[i y]|] eqn:El; [|discriminate].
    destruct (aget p (ev_fd ew)) as [[j z]|] eqn:Ef; [|discriminate]. intros Hji.
    assert (Hle : j <= i) by lia. clear Hji.
    destruct (Z.eq_dec p (e_creator (ev_e ew))) as [->|Hp].
    - rewrite (cd_own _ _ _ I w ew Hw) in Ef. inversion Ef; subst j z.
      apply (la_ancD x ex _ i y w ew Hx El Hw eq_refl Hle).
    - destruct (cd_sound _ _ _ I w ew p j z Hw Ef Hp) as [ez [Hz [Hcz [Hiz Hcond]]]].
      apply anc_trans with z; [apply (la_ancD x ex p i y z ez Hx El Hz Hcz); lia|].
      destruct Hcond as [ez' [ew' [t [y' [Hz' [Hw' [Hl [Hi _]]]]]]]].
      rewrite Hz in Hz'. inversion Hz'; subst ez'. rewrite Hw in Hw'. inversion Hw'; subst ew'.
      apply (la_ancD z ez _ t y' w ew Hz Hl Hw eq_refl Hi).
  Qed.

  Lemma ss_ancD x w : ss_true g st x w = true -> anc st x w.
  Proof.
    unfold ss_true, strongly_see.
    destruct (get_event st x) as [ex|] eqn:Hx; [|discriminate].
    destruct (get_event st w) as [ew|] eqn:Hw; [|discriminate].
    rewrite ss_count_ssp. pose proof (super_majority_pos g).
    destruct (Z.leb_spec (super_majority g) (Z.of_nat (length (filter (ssp (ev_la ex) (ev_fd ew)) (dedup (keys g))))));
      [|discriminate].
    intros _. destruct (filter_nonempty (ssp (ev_la ex) (ev_fd ew)) (dedup (keys g)) ltac:(lia)) as [p [_ Hp]].
    eapply ssp_ancD; eauto.
  Qed.

  (* monotone along ancestry in the first argument *)
  Lemma ss_mono_ancD y' y w ey' :
    get_event st y' = Some ey' -> anc st y' y -> ss_true g st y w = true -> ss_true g st y' w = true.
  Proof.
    intros Hy' Hanc. unfold ss_true, strongly_see. rewrite Hy'.
    destruct (get_event st y) as [ey|] eqn:Hy; [|discriminate].
    destruct (get_event st w) as [ew|] eqn:Hw; [|discriminate].
    rewrite !ss_count_ssp.
    assert (Hm : (length (filter (ssp (ev_la ey) (ev_fd ew)) (dedup (keys g))) <=
                  length (filter (ssp (ev_la ey') (ev_fd ew)) (dedup (keys g))))%nat).
    { apply filter_length_mono. intros p _. unfold ssp.
      destruct (aget p (ev_la ey)) as [[i u]|] eqn:El; [|discriminate].
      destruct (aget p (ev_fd ew)) as [[j z]|]; [|discriminate]. intros Hji.
      destruct (la_s st LA _ _ _ _ _ Hy El) as [eu [Hu [Hcu [Hiu Hau]]]].
      destruct (la_c st LA y' ey' u eu Hy' (anc_trans _ _ _ _ Hanc Hau) Hu) as [i' [u' [El' Hle]]].
      rewrite Hcu in El'. rewrite El'. lia. }
    destruct (Z.leb_spec (super_majority g) (Z.of_nat (length (filter (ssp (ev_la ey) (ev_fd ew)) (dedup (keys g))))));
      [|discriminate].
    intros _. destruct (Z.leb_spec (super_majority g) (Z.of_nat (length (filter (ssp (ev_la ey') (ev_fd ew)) (dedup (keys g))))));
      [reflexivity|lia].
  Qed.
End One.

Section Two.
  Variables (P : Z -> peerset) (st : hg).
  Hypothesis G : goodD P st.
  Let OK := gD_dag _ _ G.
  Let LA := gD_la _ _ G.
  Let I := gD_c _ _ G.

  Lemma memo_ofD x ex : get_event st x = Some ex ->
    exists r w, rmemo st x = Some r /\ wmemo st x = Some w /\ ev_round ex = Some r.
  Proof. intros H. apply (cd_all _ _ _ I x ex H). discriminate. Qed.

  Lemma parent_storedD x ex p : get_event st x = Some ex -> p <> -1 ->
    (e_sp (ev_e ex) = p \/ e_op (ev_e ex) = p) -> exists ep, get_event st p = Some ep.
  Proof.
    intros Hx Hn [Hp|Hp].
    - destruct (d_sp st OK _ _ Hx) as [[E _]|[ps [Hps _]]]; [congruence|]. rewrite Hp in Hps. eauto.
    - destruct (d_op st OK _ _ Hx) as [E|[po Hpo]]; [congruence|]. rewrite Hp in Hpo. eauto.
  Qed.

  (** ** rounds are monotone along ancestry *)
  Lemma round_parent_leD x ex p r rp :
    get_event st x = Some ex -> p <> -1 -> (e_sp (ev_e ex) = p \/ e_op (ev_e ex) = p) ->
    rmemo st x = Some r -> rmemo st p = Some rp -> rp <= r.
  Proof.
    intros Hx Hn Hp Hr Hrp.
    destruct (cd_rdom _ _ _ I x r Hr) as [_ [ex' [Hx' [spr [opr [Hs [Ho [H0 H1]]]]]]]].
    rewrite Hx in Hx'. inversion Hx'; subst ex'.
    destruct (cd_rdom _ _ _ I p rp Hrp) as [Hrp0 _].
    pose proof (prnd_geD _ _ _ _ _ I Hs). pose proof (prnd_geD _ _ _ _ _ I Ho).
    assert (Hmax : rp <= Z.max spr opr).
    { unfold prnd in Hs, Ho. destruct Hp as [Hp|Hp]; rewrite Hp in *.
      - destruct (Z.eqb_spec p (-1)); [contradiction|]. rewrite Hrp in Hs. inversion Hs. lia.
      - destruct (Z.eqb_spec p (-1)); [contradiction|]. rewrite Hrp in Ho. inversion Ho. lia. }
    destruct (Z.eq_dec (Z.max spr opr) (-1)) as [E|Hne]; [lia|].
    destruct (H1 Hne) as [_ ->]. destruct (_ <=? _); lia.
  Qed.

  Lemma round_anc_leD x y : anc st x y -> forall ex r ry,
    get_event st x = Some ex -> rmemo st x = Some r -> rmemo st y = Some ry -> ry <= r.
  Proof.
    induction 1 as [x|x p y Hp Ha IH]; intros ex r ry Hx Hr Hry; [rewrite Hr in Hry; inversion Hry; lia|].
    destruct Hp as [ex' [Hx' [Hn Hp]]]. rewrite Hx in Hx'. inversion Hx'; subst ex'.
    destruct (parent_storedD x ex p Hx Hn Hp) as [ep Hep].
    destruct (memo_ofD p ep Hep) as [rp [_ [Hrp _]]].
    pose proof (round_parent_leD x ex p r rp Hx Hn Hp Hr Hrp).
    pose proof (IH ep rp ry Hep Hrp Hry). lia.
  Qed.

  (** ** one witness per creator and round *)
  Lemma witness_trueD x : wmemo st x = Some true ->
    exists ex r spr, get_event st x = Some ex /\ rmemo st x = Some r /\
      prnd st (e_sp (ev_e ex)) = Some spr /\ spr < r /\ mem_key (e_creator (ev_e ex)) (keys (P r)) = true.
  Proof.
    intros Hw. destruct (cd_wdom _ _ _ I x true Hw) as [ex [r [Hx [Hr [spr [Hs Heq]]]]]].
    symmetry in Heq. apply andb_true_iff in Heq. destruct Heq as [Hm Hlt].
    exists ex, r, spr. repeat split; auto. lia.
  Qed.

  Lemma wit_uniqueD x1 x2 e1 e2 r :
    get_event st x1 = Some e1 -> get_event st x2 = Some e2 ->
    e_creator (ev_e e1) = e_creator (ev_e e2) ->
    wmemo st x1 = Some true -> wmemo st x2 = Some true ->
    rmemo st x1 = Some r -> rmemo st x2 = Some r -> x1 = x2.
  Proof.
    assert (Hlt : forall x1 x2 e1 e2, get_event st x1 = Some e1 -> get_event st x2 = Some e2 ->
              e_creator (ev_e e1) = e_creator (ev_e e2) -> wmemo st x2 = Some true ->
              rmemo st x1 = Some r -> rmemo st x2 = Some r ->
              e_index (ev_e e1) < e_index (ev_e e2) -> False).
    { clear x1 x2 e1 e2. intros x1 x2 e1 e2 H1 H2 Hc Hw2 Hr1 Hr2 Hi.
      destruct (witness_trueD x2 Hw2) as [e2' [r' [spr [H2' [Hr' [Hs [Hsl _]]]]]]].
      rewrite H2 in H2'. inversion H2'; subst e2'. rewrite Hr2 in Hr'. inversion Hr'; subst r'.
      pose proof (stored_index_nonnegD P st G x1 e1 H1) as H10.
      destruct (d_sp st OK _ _ H2) as [[_ Hi0]|[ps [Hps [Hcp Hip]]]]; [lia|].
      assert (Hn : e_sp (ev_e e2) <> -1) by (intros C; rewrite C, get_event_neg in Hps by lia; discriminate).
      unfold prnd in Hs. destruct (Z.eqb_spec (e_sp (ev_e e2)) (-1)); [contradiction|].
      assert (Ha : anc st (e_sp (ev_e e2)) x1).
      { apply (chain_anc st OK (Z.to_nat (e_index (ev_e ps) - e_index (ev_e e1))) _ ps x1 e1 Hps H1); [congruence|lia|lia]. }
      pose proof (round_anc_leD _ _ Ha ps spr r Hps Hs Hr1). lia. }
    intros H1 H2 Hc Hw1 Hw2 Hr1 Hr2.
    destruct (Z.lt_trichotomy (e_index (ev_e e1)) (e_index (ev_e e2))) as [L|[E|L]].
    - exfalso. eapply (Hlt x1 x2); eauto.
    - eapply (dag_ok_no_fork st x1 x2 e1 e2 OK); eauto.
    - exfalso. eapply (Hlt x2 x1); eauto.
  Qed.

  (** ** the witnesses listed for a round *)
  Lemma wits_specD r w : In w (wits st r) <-> rmemo st w = Some r /\ wmemo st w = Some true.
  Proof.
    unfold wits. split.
    - intros H. apply in_map_iff in H. destruct H as [[w' b] [E H]]. cbn in E. subst w'.
      apply filter_In in H. destruct H as [H Hb]. cbn in Hb. subst b. apply (cd_tab _ _ _ I r w true H).
    - intros [Hr Hw]. apply in_map_iff. exists (w, true). split; [reflexivity|].
      apply filter_In. split; [apply (cd_tabc _ _ _ I w r true Hr Hw)|reflexivity].
  Qed.


  Lemma wits_nodupD r : NoDup (wits st r).
  Proof. unfold wits. apply NoDup_map_fst_filter. apply (cd_tabu _ _ _ I). Qed.

  Lemma wits_storedD r w : In w (wits st r) -> exists ew, get_event st w = Some ew.
  Proof.
    intros H. apply wits_specD in H. destruct H as [Hr _].
    destruct (cd_rdom _ _ _ I w r Hr) as [_ [ew [Hw _]]]. eauto.
  Qed.

  (** ** quorumD: every event of round j >= 1 strongly sees a supermajority of round j-1 witnesses *)
  Lemma quorum_natD : forall h, hmeasure st h -> forall n y ey j,
    get_event st y = Some ey -> (Z.to_nat (h y) < n)%nat -> rmemo st y = Some j -> 1 <= j ->
    super_majority (P (j - 1)) <= Z.of_nat (length (filter (ss_true (P (j - 1)) st y) (wits st (j - 1)))).
  Proof.
    intros h Hh. induction n as [|n IH]; intros y ey j Hy Hn Hr Hj; [lia|].
    destruct (cd_rdom _ _ _ I y j Hr) as [_ [ey' [Hy' [spr [opr [Hs [Ho [H0 H1]]]]]]]].
    rewrite Hy in Hy'. inversion Hy'; subst ey'.
    destruct (Z.eq_dec (Z.max spr opr) (-1)) as [E|Hne]; [rewrite (H0 E) in Hj; lia|].
    destruct (H1 Hne) as [_ Hq].
    destruct (Z.leb_spec (super_majority (P (Z.max spr opr))) (cntss (P (Z.max spr opr)) st y (wits st (Z.max spr opr)))) as [Hsm|Hsm].
    - (* the round was incremented at y *)
      replace (j - 1) with (Z.max spr opr) by lia.
      eapply Z.le_trans; [exact Hsm|]. unfold cntss. apply inj_le. apply filter_length_mono.
      intros w _ Hw. apply andb_true_iff in Hw. tauto.
    - (* inherited from a parent of the same round *)
      assert (Hp : exists p, p <> -1 /\ (e_sp (ev_e ey) = p \/ e_op (ev_e ey) = p) /\ rmemo st p = Some j).
      { subst j. unfold prnd in Hs, Ho. destruct (Z.max_spec spr opr) as [[_ E]|[_ E]]; rewrite E in *.
        - destruct (Z.eqb_spec (e_op (ev_e ey)) (-1)); [inversion Ho; lia|]. exists (e_op (ev_e ey)). auto.
        - destruct (Z.eqb_spec (e_sp (ev_e ey)) (-1)); [inversion Hs; lia|]. exists (e_sp (ev_e ey)). auto. }
      destruct Hp as [p [Hpn [Hp Hrp]]].
      destruct (parent_storedD y ey p Hy Hpn Hp) as [ep Hep].
      pose proof (Hh y ey p Hy Hpn Hp) as Hlt.
      pose proof (IH p ep j Hep ltac:(lia) Hrp Hj) as Hq'.
      eapply Z.le_trans; [exact Hq'|]. apply inj_le. apply filter_length_mono.
      intros w _ Hw. apply (ss_mono_ancD P (P (j - 1)) st G y p w ey Hy); [|exact Hw].
      apply anc_step with p; [exists ey; auto|constructor].
  Qed.

  Lemma quorumD y ey j : get_event st y = Some ey -> rmemo st y = Some j -> 1 <= j ->
    super_majority (P (j - 1)) <= Z.of_nat (length (filter (ss_true (P (j - 1)) st y) (wits st (j - 1)))).
  Proof.
    intros Hy Hr Hj. destruct (gD_h _ _ G) as [h Hh].
    apply (quorum_natD h Hh (S (Z.to_nat (h y))) y ey j Hy ltac:(lia) Hr Hj).
  Qed.
End Two.
