(* C02: explicit forms of "consecutive indexes from 0, no gaps", "append-only" and "a delivered
   block never changes except for its signature set", over the whole [hrun] (insertion attempts
   and ProcessSigPool calls).  Corollaries of Proofs/BlockInv.v. *)
From Coq Require Import ZArith List Bool Lia.
From V Require Import Model.ZMap Model.Quorum Model.HgImpl Proofs.BlockInv.
Import ListNotations.
Open Scope Z_scope.

(* [body b = body d] spelled out: every field but b_sigs *)
Lemma body_fields b d : body b = body d ->
  b_index b = b_index d /\ b_rr b = b_rr d /\ b_ts b = b_ts d /\ b_txs b = b_txs d /\
  b_itxs b = b_itxs d /\ b_frame b = b_frame d /\ b_peers b = b_peers d /\
  b_committed b = b_committed d /\ b_receipts b = b_receipts d /\ b_bodyid b = b_bodyid d.
Proof.
  intros H. destruct b, d. unfold body in H. cbn in H. inversion H. cbn. repeat split; reflexivity.
Qed.

(* and conversely: two blocks that agree on those ten fields have the same body *)
Lemma fields_body b d :
  b_index b = b_index d -> b_rr b = b_rr d -> b_ts b = b_ts d -> b_txs b = b_txs d ->
  b_itxs b = b_itxs d -> b_frame b = b_frame d -> b_peers b = b_peers d ->
  b_committed b = b_committed d -> b_receipts b = b_receipts d -> b_bodyid b = b_bodyid d ->
  body b = body d.
Proof. destruct b, d. unfold body. cbn. intros; subst; reflexivity. Qed.

Lemma list_eq_nth {A} (l l' : list A) : (forall k, nth_error l k = nth_error l' k) -> l = l'.
Proof.
  revert l'. induction l as [|a l IH]; intros [|a' l'] H; [reflexivity|specialize (H 0%nat); discriminate|specialize (H 0%nat); discriminate|].
  pose proof (H 0%nat) as H0. cbn in H0. inversion H0; subst. f_equal. apply IH. intros k. exact (H (S k)).
Qed.

Lemma nth_error_seq_lt s n k : (k < n)%nat -> nth_error (seq s n) k = Some (s + k)%nat.
Proof.
  revert s k. induction n as [|n IH]; intros s k H; [lia|]. destruct k as [|k]; cbn [seq nth_error].
  - f_equal. lia.
  - rewrite IH by lia. f_equal. lia.
Qed.

(* the delivery sequence carries the indexes 0, 1, ..., n-1 in this order: consecutive from 0,
   no gap, no repeat; n = last stored index + 1 *)
Theorem delivered_indexes st : binv st ->
  map b_index (delivered st) = map Z.of_nat (seq 0 (length (delivered st))) /\
  Z.of_nat (length (delivered st)) = last_block st + 1.
Proof.
  intros OK. split; [|apply (b_len st OK)].
  apply list_eq_nth. intros k. rewrite !nth_error_map.
  destruct (nth_error (delivered st) k) as [d|] eqn:Hk.
  - assert (Hlt : (k < length (delivered st))%nat) by (apply nth_error_Some; congruence).
    rewrite (nth_error_seq_lt 0 _ k Hlt). cbn [option_map plus]. rewrite (binv_consecutive st OK k d Hk). reflexivity.
  - apply nth_error_None in Hk.
    assert (E : nth_error (seq 0 (length (delivered st))) k = None) by (apply nth_error_None; rewrite seq_length; exact Hk).
    rewrite E. reflexivity.
Qed.

Theorem hrun_delivered_indexes self_ genesis oracle_ ops :
  let st := hrun (init_hg self_ genesis oracle_) ops in
  map b_index (delivered st) = map Z.of_nat (seq 0 (length (delivered st))) /\
  Z.of_nat (length (delivered st)) = last_block st + 1.
Proof. apply delivered_indexes, hrun_binv. Qed.

(* the delivery sequence only grows at its end *)
Theorem hrun_delivered_append_only self_ genesis oracle_ ops ops' :
  exists l, delivered (hrun (init_hg self_ genesis oracle_) (ops ++ ops')) =
            delivered (hrun (init_hg self_ genesis oracle_) ops) ++ l.
Proof. rewrite hrun_app. apply hrun_del, hrun_binv. Qed.

(* once delivered, a block is immutable but for its signature set, field by field: at every
   later point of every continuation (insertions and ProcessSigPool calls) the delivery sequence
   still has it at position k, and the store reports under index k a block with the same index,
   round-received, timestamp, transactions, internal transactions, frame (hash), peers (hash),
   committed flag, receipts and body identifier (state hash), whose signatures include the
   delivered block's *)
Theorem block_immutable_after_delivery self_ genesis oracle_ ops ops' k d :
  nth_error (delivered (hrun (init_hg self_ genesis oracle_) ops)) k = Some d ->
  nth_error (delivered (hrun (init_hg self_ genesis oracle_) (ops ++ ops'))) k = Some d /\
  exists b, zget (Z.of_nat k) (blocks (hrun (init_hg self_ genesis oracle_) (ops ++ ops'))) = Some b /\
    b_index b = b_index d /\ b_rr b = b_rr d /\ b_ts b = b_ts d /\ b_txs b = b_txs d /\
    b_itxs b = b_itxs d /\ b_frame b = b_frame d /\ b_peers b = b_peers d /\
    b_committed b = b_committed d /\ b_receipts b = b_receipts d /\ b_bodyid b = b_bodyid d /\
    (forall v o, aget v (b_sigs d) = Some o -> aget v (b_sigs b) = Some o).
Proof.
  intros H. destruct (delivered_block_immutable self_ genesis oracle_ ops ops' k d H) as [H1 [b [Hb [Eb Si]]]].
  split; [exact H1|]. exists b. split; [exact Hb|].
  destruct (body_fields b d Eb) as [F1 [F2 [F3 [F4 [F5 [F6 [F7 [F8 [F9 F10]]]]]]]]].
  repeat (split; [assumption|]). exact Si.
Qed.

(* the stored copy at two later points: same body *)
Corollary stored_body_stable self_ genesis oracle_ ops ops' k d b b' :
  nth_error (delivered (hrun (init_hg self_ genesis oracle_) ops)) k = Some d ->
  zget (Z.of_nat k) (blocks (hrun (init_hg self_ genesis oracle_) ops)) = Some b ->
  zget (Z.of_nat k) (blocks (hrun (init_hg self_ genesis oracle_) (ops ++ ops'))) = Some b' ->
  body b' = body b.
Proof.
  intros H Hb Hb'.
  destruct (delivered_block_immutable self_ genesis oracle_ ops ops' k d H) as [_ [b2 [Hb2 [Eb2 _]]]].
  destruct (delivered_block_immutable self_ genesis oracle_ ops [] k d H) as [_ [b1 [Hb1 [Eb1 _]]]].
  rewrite app_nil_r in Hb1. congruence.
Qed.
