(* C05, commit side: the stream of committed transactions (the concatenation of the delivered
   blocks' transaction lists) is the concatenation, in commit order, of the payloads of the
   committed events; no event is committed twice; hence no transaction is committed twice when
   the admitted events have pairwise disjoint, duplicate-free payloads; every committed
   transaction is in the payload of an admitted event.  Plus the bridge to Model/NodeModel.v
   (per-node pools) and the purely combinatorial statement that used to be kept as a Definition.
   Uses the global invariant of Proofs/OrderProofs.v and Proofs/RoundOrder.v; no model changed. *)
From Coq Require Import ZArith List Bool Lia Sorted Permutation.
From V Require Import Model.ZMap Model.Quorum Model.HgImpl Model.NodeModel
  Proofs.AdmissionProofs Proofs.BlockInv Proofs.OrderFrames Proofs.OrderProofs Proofs.RoundOrder
  Proofs.NodeProofs.
Import ListNotations.
Open Scope Z_scope.

(** * Lists *)

Lemma flat_map_flat_map {A B C} (f : B -> list C) (g : A -> list B) l :
  flat_map f (flat_map g l) = flat_map (fun a => flat_map f (g a)) l.
Proof.
  induction l as [|a l IH]; cbn [flat_map]; [reflexivity|]. rewrite flat_map_app, IH. reflexivity.
Qed.

Lemma flat_map_map {A B C} (f : B -> list C) (g : A -> B) l :
  flat_map f (map g l) = flat_map (fun a => f (g a)) l.
Proof. induction l as [|a l IH]; cbn [flat_map map]; [reflexivity|]. rewrite IH. reflexivity. Qed.

(* a concatenation is duplicate-free when its pieces are, and pieces at different positions are disjoint *)
Lemma NoDup_flat_map_pos {A B} (f : A -> list B) (l : list A) :
  (forall a, In a l -> NoDup (f a)) ->
  (forall k k' a a' x, nth_error l k = Some a -> nth_error l k' = Some a' -> In x (f a) -> In x (f a') -> k = k') ->
  NoDup (flat_map f l).
Proof.
  induction l as [|a l IH]; intros Hnd Hpos; cbn [flat_map]; [constructor|].
  assert (IH' : NoDup (flat_map f l)).
  { apply IH; [intros b Hb; apply Hnd; right; exact Hb|].
    intros k k' b b' x Hk Hk' Hx Hx'.
    assert (E : S k = S k') by (eapply Hpos; [exact Hk|exact Hk'|exact Hx|exact Hx']). lia. }
  assert (Ha : NoDup (f a)) by (apply Hnd; left; reflexivity).
  assert (Hdis : forall x, In x (f a) -> ~ In x (flat_map f l)).
  { intros x Hx HI. apply in_flat_map in HI. destruct HI as [b [Hb Hxb]].
    destruct (In_nth_error _ _ Hb) as [k Hk].
    assert (E : 0%nat = S k) by (eapply (Hpos 0%nat (S k) a b x); [reflexivity|exact Hk|exact Hx|exact Hxb]).
    discriminate. }
  clear -IH' Ha Hdis. induction (f a) as [|x r IHr]; cbn [app]; [exact IH'|].
  inversion Ha as [|? ? Hx Hr]; subst. constructor.
  - intros HI. apply in_app_or in HI. destruct HI as [HI|HI]; [exact (Hx HI)|].
    exact (Hdis x (or_introl eq_refl) HI).
  - apply IHr; [exact Hr|]. intros y Hy. apply Hdis. right; exact Hy.
Qed.

(* the same for a duplicate-free index list: pieces of different elements are disjoint *)
Lemma NoDup_flat_map_disjoint {A B} (f : A -> list B) (l : list A) :
  NoDup l -> (forall a, In a l -> NoDup (f a)) ->
  (forall a a' x, In a l -> In a' l -> In x (f a) -> In x (f a') -> a = a') ->
  NoDup (flat_map f l).
Proof.
  intros Nl Hnd Hdis. apply NoDup_flat_map_pos; [exact Hnd|].
  intros k k' a a' x Hk Hk' Hx Hx'.
  assert (E : a = a') by (eapply Hdis; [eapply nth_error_In; exact Hk|eapply nth_error_In; exact Hk'|exact Hx|exact Hx']).
  subst a'. eapply (proj1 (NoDup_nth_error l) Nl); [|congruence].
  apply nth_error_Some. congruence.
Qed.

Lemma NoDup_app_l {A} (l l' : list A) : NoDup (l ++ l') -> NoDup l.
Proof.
  induction l as [|a l IH]; intros N; [constructor|]. cbn [app] in N. inversion N as [|? ? Ha Nr]; subst.
  constructor; [intros H; apply Ha; apply in_or_app; left; exact H|exact (IH Nr)].
Qed.
Lemma NoDup_app_r {A} (l l' : list A) : NoDup (l ++ l') -> NoDup l'.
Proof. induction l as [|a l IH]; intros N; [exact N|]. cbn [app] in N. inversion N; subst. auto. Qed.

Lemma NoDup_flat_map_piece {A B} (f : A -> list B) (l : list A) a :
  NoDup (flat_map f l) -> In a l -> NoDup (f a).
Proof.
  induction l as [|b l IH]; intros N HI; [destruct HI|]. cbn [flat_map] in N.
  destruct HI as [->|HI]; [exact (NoDup_app_l _ _ N)|apply IH; [exact (NoDup_app_r _ _ N)|exact HI]].
Qed.

Lemma NoDup_app_disjoint {A} (l l' : list A) x : NoDup (l ++ l') -> In x l -> In x l' -> False.
Proof.
  induction l as [|a l IH]; intros N H H'; [destruct H|]. cbn [app] in N. inversion N as [|? ? Ha Nr]; subst.
  destruct H as [->|H]; [apply Ha; apply in_or_app; right; exact H'|exact (IH Nr H H')].
Qed.

Lemma NoDup_flat_map_pos_inv {A B} (f : A -> list B) (l : list A) :
  NoDup (flat_map f l) ->
  forall k k' a a' x, nth_error l k = Some a -> nth_error l k' = Some a' -> In x (f a) -> In x (f a') -> k = k'.
Proof.
  induction l as [|b l IH]; intros N k k' a a' x Hk Hk' Hx Hx'; [destruct k; discriminate|].
  cbn [flat_map] in N. pose proof (NoDup_app_r _ _ N) as Nl.
  destruct k as [|k], k' as [|k']; cbn [nth_error] in Hk, Hk'.
  - reflexivity.
  - inversion Hk; subst. exfalso. eapply (NoDup_app_disjoint _ _ x N); [exact Hx|].
    apply in_flat_map. exists a'. split; [eapply nth_error_In; exact Hk'|exact Hx'].
  - inversion Hk'; subst. exfalso. eapply (NoDup_app_disjoint _ _ x N); [exact Hx'|].
    apply in_flat_map. exists a. split; [eapply nth_error_In; exact Hk|exact Hx].
  - f_equal. eapply IH; eauto.
Qed.

(** * The combinatorial statement (formerly C05_commit_once_statement) *)

Lemma concat_pieces_equal (events : list (list Z)) l l' t :
  NoDup (concat events) -> In l events -> In l' events -> In t l -> In t l' -> l = l'.
Proof.
  intros N Hl Hl' Ht Ht'. rewrite <- (map_id events), <- flat_map_concat_map in N.
  destruct (In_nth_error _ _ Hl) as [k Hk]. destruct (In_nth_error _ _ Hl') as [k' Hk'].
  assert (E : k = k') by (eapply (NoDup_flat_map_pos_inv (fun x : list Z => x) events N); eauto).
  subst k'. congruence.
Qed.

Theorem commit_once_lists (blocks events : list (list Z)) :
  NoDup (concat events) -> (exists sel, concat blocks = concat sel /\ NoDup sel /\ incl sel events) ->
  NoDup (concat blocks).
Proof.
  intros N [sel [E [Ns Hi]]]. rewrite E. rewrite <- (map_id sel), <- flat_map_concat_map.
  apply NoDup_flat_map_disjoint; [exact Ns| |].
  - intros l Hl. rewrite <- (map_id events), <- flat_map_concat_map in N.
    exact (NoDup_flat_map_piece (fun x : list Z => x) events l N (Hi l Hl)).
  - intros l l' t Hl Hl' Ht Ht'. eapply concat_pieces_equal; eauto.
Qed.

(** * The committed stream of a hashgraph state *)

(* the committed events, in commit order: block after block, frame order inside a block *)
Definition committed_events (st : hg) : list Z :=
  flat_map (fun d => map fe_id (f_events (b_frame d))) (delivered st).
(* the committed transactions, in commit order *)
Definition committed_txs (st : hg) : list Z := flat_map b_txs (delivered st).
(* payload of a stored event *)
Definition etxs (st : hg) (x : Z) : list Z :=
  match get_event st x with Some e => e_txs (ev_e e) | None => [] end.

Lemma txs_of_etxs st fe : txs_of st fe = etxs st (fe_id fe).
Proof. reflexivity. Qed.

(* the committed transaction stream is the concatenation of the committed events' payloads *)
Theorem committed_stream all st :
  ginv all st -> committed_txs st = flat_map (etxs st) (committed_events st).
Proof.
  intros G. unfold committed_txs, committed_events. rewrite flat_map_flat_map.
  apply flat_map_ext_in. intros d Hd.
  destruct (delivered_block_payload all st d G Hd) as [_ [Ht _]]. rewrite Ht, flat_map_map. reflexivity.
Qed.

(* no event is committed twice, neither in two blocks nor twice in one *)
Theorem committed_events_nodup all self_ genesis oracle_ ops :
  ids_determine all -> Forall (hop_ok all) ops ->
  NoDup (committed_events (hrun (init_hg self_ genesis oracle_) ops)).
Proof.
  intros ID Hops. unfold committed_events. apply NoDup_flat_map_pos.
  - intros d Hd. destruct (In_nth_error _ _ Hd) as [k Hk].
    assert (X : exists x, In x (map fe_id (f_events (b_frame d))) \/ map fe_id (f_events (b_frame d)) = []).
    { destruct (map fe_id (f_events (b_frame d))) as [|x r]; [exists 0; right; reflexivity|exists x; left; left; reflexivity]. }
    destruct X as [x [Hx|E]]; [|rewrite E; constructor].
    exact (proj2 (committed_once all self_ genesis oracle_ ops k k d d x ID Hops Hk Hk Hx Hx)).
  - intros k k' d d' x Hk Hk' Hx Hx'.
    exact (proj1 (committed_once all self_ genesis oracle_ ops k k' d d' x ID Hops Hk Hk' Hx Hx')).
Qed.

(* every committed event is a stored (admitted) event *)
Lemma committed_event_stored all st x :
  ginv all st -> In x (committed_events st) -> exists ex, get_event st x = Some ex.
Proof.
  intros G HI. unfold committed_events in HI. apply in_flat_map in HI. destruct HI as [d [Hd Hx]].
  apply in_map_iff in Hx. destruct Hx as [fe [<- Hfe]].
  destruct (delivered_block_payload all st d G Hd) as [Hf _].
  destruct (frame_events_received all st _ _ fe G Hf Hfe) as [_ [_ [ex [Hex _]]]]. eauto.
Qed.

(* payloads of the admitted events: duplicate-free and pairwise disjoint *)
Definition payloads_disjoint (st : hg) : Prop :=
  (forall x ex, get_event st x = Some ex -> NoDup (e_txs (ev_e ex))) /\
  (forall x y ex ey t, get_event st x = Some ex -> get_event st y = Some ey ->
     In t (e_txs (ev_e ex)) -> In t (e_txs (ev_e ey)) -> x = y).

Theorem no_transaction_committed_twice all self_ genesis oracle_ ops :
  ids_determine all -> Forall (hop_ok all) ops ->
  payloads_disjoint (hrun (init_hg self_ genesis oracle_) ops) ->
  NoDup (committed_txs (hrun (init_hg self_ genesis oracle_) ops)).
Proof.
  intros ID Hops [Pn Pd]. pose proof (hrun_ginv all self_ genesis oracle_ ops ID Hops) as G.
  rewrite (committed_stream all _ G).
  apply NoDup_flat_map_disjoint; [apply (committed_events_nodup all); assumption| |].
  - intros x _. unfold etxs. destruct (get_event _ x) as [ex|] eqn:Hx; [eapply Pn; exact Hx|constructor].
  - intros x y t _ _ Hx Hy. unfold etxs in Hx, Hy.
    destruct (get_event _ x) as [ex|] eqn:Ex; [|destruct Hx].
    destruct (get_event _ y) as [ey|] eqn:Ey; [|destruct Hy].
    eapply Pd; eauto.
Qed.

(* every committed transaction is in the payload of a committed event, which is an admitted event:
   stored under its identifier, one of the attempted events, with a valid signature *)
Theorem committed_was_submitted all self_ genesis oracle_ ops t :
  ids_determine all -> Forall (hop_ok all) ops ->
  let st := hrun (init_hg self_ genesis oracle_) ops in
  In t (committed_txs st) ->
  exists x ex, In x (committed_events st) /\ get_event st x = Some ex /\ In t (e_txs (ev_e ex)) /\
               In (ev_e ex) all /\ e_id (ev_e ex) = x /\ e_sigok (ev_e ex) = true.
Proof.
  intros ID Hops st Ht. pose proof (hrun_ginv all self_ genesis oracle_ ops ID Hops) as G. fold st in G.
  rewrite (committed_stream all _ G) in Ht. apply in_flat_map in Ht. destruct Ht as [x [Hx Htx]].
  unfold etxs in Htx. destruct (get_event st x) as [ex|] eqn:Ex; [|destruct Htx].
  exists x, ex. split; [exact Hx|]. split; [exact Ex|]. split; [exact Htx|].
  destruct G as [[D FA _ _] _ _ _].
  split; [exact (FA _ _ Ex)|]. split; [exact (d_id _ D _ _ Ex)|exact (d_sig _ D _ _ Ex)].
Qed.

(* position form: the j-th and j'-th committed transactions are equal only if j = j' *)
Corollary committed_positions all self_ genesis oracle_ ops j j' t :
  ids_determine all -> Forall (hop_ok all) ops ->
  let st := hrun (init_hg self_ genesis oracle_) ops in
  payloads_disjoint st ->
  nth_error (committed_txs st) j = Some t -> nth_error (committed_txs st) j' = Some t -> j = j'.
Proof.
  intros ID Hops st P Hj Hj'.
  pose proof (no_transaction_committed_twice all self_ genesis oracle_ ops ID Hops P) as N. fold st in N.
  eapply (proj1 (NoDup_nth_error _) N); [apply nth_error_Some; congruence|congruence].
Qed.

(** * The hypothesis from the attempted events, and from the nodes' pools *)

(* if the attempted events have duplicate-free payloads and no transaction is in the payload of
   two different attempted events, the admitted ones have, in every reachable state *)
Lemma payloads_disjoint_from_attempts all st :
  ginv all st ->
  (forall e, In e all -> NoDup (e_txs e)) ->
  (forall e e' t, In e all -> In e' all -> In t (e_txs e) -> In t (e_txs e') -> e = e') ->
  payloads_disjoint st.
Proof.
  intros [[D FA _ _] _ _ _] Hn Hd. split.
  - intros x ex Hx. apply Hn. exact (FA _ _ Hx).
  - intros x y ex ey t Hx Hy Ht Ht'.
    assert (E : ev_e ex = ev_e ey) by (eapply Hd; [exact (FA _ _ Hx)|exact (FA _ _ Hy)|exact Ht|exact Ht']).
    rewrite <- (d_id _ D _ _ Hx), <- (d_id _ D _ _ Hy), E. reflexivity.
Qed.

(* Bridge to Model/NodeModel.v.  [P c] is the pool state of the node with key c (any reachable
   one: [prun]); [slot e] says which of its creator's self-events e is.  If every attempted event
   carries the payload that its creator's addSelfEvent put in that self-event, different events of
   one creator are different self-events, and the transactions accepted by the nodes
   (addTransactions) are pairwise distinct within and across nodes, then the attempted events
   have duplicate-free, pairwise disjoint payloads. *)
Definition from_pools (all : list event) (creators : list Z) (P : Z -> pools) (slot : event -> nat) : Prop :=
  (forall e, In e all -> In (e_creator e) creators /\
      nth_error (map fst (p_created (P (e_creator e)))) (slot e) = Some (e_txs e)) /\
  (forall e e', In e all -> In e' all -> e_creator e = e_creator e' -> slot e = slot e' -> e = e').

Lemma created_in_submitted ops l t :
  In l (map fst (p_created (prun ops))) -> In t l -> In t (p_submitted (prun ops)).
Proof.
  intros Hl Ht. destruct (prun_conserved ops) as [E _]. rewrite E. apply in_or_app. left.
  apply in_map_iff in Hl. destruct Hl as [pr [<- Hpr]]. apply in_flat_map. exists pr. split; assumption.
Qed.

Theorem pools_payloads_disjoint all creators (O : Z -> list pop) slot :
  from_pools all creators (fun c => prun (O c)) slot ->
  NoDup creators -> NoDup (flat_map (fun c => p_submitted (prun (O c))) creators) ->
  (forall e, In e all -> NoDup (e_txs e)) /\
  (forall e e' t, In e all -> In e' all -> In t (e_txs e) -> In t (e_txs e') -> e = e').
Proof.
  intros [Hsl Hinj] Nc Ns.
  assert (Own : forall c, In c creators -> NoDup (flat_map fst (p_created (prun (O c))))).
  { intros c Hc. pose proof (NoDup_flat_map_piece _ _ c Ns Hc) as N. cbv beta in N.
    destruct (prun_exactly_once (O c) N) as [N' _]. exact (NoDup_app_l _ _ N'). }
  split.
  - intros e He. destruct (Hsl e He) as [Hc Hn]. specialize (Own _ Hc).
    rewrite <- (flat_map_map (fun l : list Z => l) fst) in Own.
    exact (NoDup_flat_map_piece (fun l : list Z => l) _ (e_txs e) Own (nth_error_In _ _ Hn)).
  - intros e e' t He He' Ht Ht'. destruct (Hsl e He) as [Hc Hn]. destruct (Hsl e' He') as [Hc' Hn'].
    assert (Ec : e_creator e = e_creator e').
    { destruct (In_nth_error _ _ Hc) as [k Hk]. destruct (In_nth_error _ _ Hc') as [k' Hk'].
      assert (E : k = k').
      { eapply (NoDup_flat_map_pos_inv _ _ Ns k k' _ _ t Hk Hk').
        - eapply created_in_submitted; [eapply nth_error_In; exact Hn|exact Ht].
        - eapply created_in_submitted; [eapply nth_error_In; exact Hn'|exact Ht']. }
      subst k'. congruence. }
    apply Hinj; [exact He|exact He'|exact Ec|].
    specialize (Own _ Hc). rewrite <- (flat_map_map (fun l : list Z => l) fst) in Own.
    rewrite <- Ec in Hn'.
    exact (NoDup_flat_map_pos_inv (fun l : list Z => l) _ Own _ _ _ _ t Hn Hn' Ht Ht').
Qed.

(* end to end: pools of the creating nodes + hashgraph of any node *)
Theorem no_transaction_committed_twice_pools all creators O slot self_ genesis oracle_ ops :
  ids_determine all -> Forall (hop_ok all) ops ->
  from_pools all creators (fun c => prun (O c)) slot ->
  NoDup creators -> NoDup (flat_map (fun c => p_submitted (prun (O c))) creators) ->
  NoDup (committed_txs (hrun (init_hg self_ genesis oracle_) ops)).
Proof.
  intros ID Hops FP Nc Ns. apply (no_transaction_committed_twice all); [exact ID|exact Hops|].
  destruct (pools_payloads_disjoint all creators O slot FP Nc Ns) as [Hn Hd].
  eapply payloads_disjoint_from_attempts; [apply hrun_ginv; eassumption|exact Hn|exact Hd].
Qed.

(* with the hypothesis on the attempted events directly *)
Theorem no_transaction_committed_twice_attempts all self_ genesis oracle_ ops :
  ids_determine all -> Forall (hop_ok all) ops ->
  (forall e, In e all -> NoDup (e_txs e)) ->
  (forall e e' t, In e all -> In e' all -> In t (e_txs e) -> In t (e_txs e') -> e = e') ->
  NoDup (committed_txs (hrun (init_hg self_ genesis oracle_) ops)).
Proof.
  intros ID Hops Hn Hd. apply (no_transaction_committed_twice all); [exact ID|exact Hops|].
  eapply payloads_disjoint_from_attempts; [apply hrun_ginv; eassumption|exact Hn|exact Hd].
Qed.

(* a sufficient, checkable form of the hypothesis: the concatenation of all attempted payloads
   is duplicate-free *)
Lemma attempts_nodup_payloads all :
  NoDup (flat_map e_txs all) ->
  (forall e, In e all -> NoDup (e_txs e)) /\
  (forall e e' t, In e all -> In e' all -> In t (e_txs e) -> In t (e_txs e') -> e = e').
Proof.
  intros N. split; [intros e He; exact (NoDup_flat_map_piece _ _ e N He)|].
  intros e e' t He He' Ht Ht'. destruct (In_nth_error _ _ He) as [k Hk]. destruct (In_nth_error _ _ He') as [k' Hk'].
  assert (E : k = k') by (eapply (NoDup_flat_map_pos_inv _ _ N); eauto). subst k'. congruence.
Qed.
