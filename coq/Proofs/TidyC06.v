(* C06, the deterministic core of the termination argument of virtual voting, on the abstract
   voting loop (Model/Voting.v, reference semantics Model/VotingRef.v):
   - unanimity of a round is decided at the next normal round, hence within two rounds;
   - a supermajority of (honest) witnesses voting v before a normal round makes that round
     unanimous (NOT decided: see Properties/C06.v for the counterexample), hence decided within
     two further rounds;
   - what the coin is for: in a coin round a witness flips the coin only if its own tally has no
     supermajority; all supermajority tallies of a round carry the same value; nobody decides in a
     coin round; a unanimous previous round makes the coin irrelevant.
   The probabilistic part (some coin round eventually produces unanimity) is outside. *)
From Coq Require Import ZArith List Bool Lia ZifyBool Permutation.
From V Require Import Model.ZMap Model.Quorum Model.Voting Model.VotingRef Proofs.VotingProofs.
Import ListNotations.
Open Scope Z_scope.
Ltac Zify.zify_post_hook ::= Z.div_mod_to_equations.

(* a view restricted to fewer rounds is a view *)
Lemma view_ok_restrict n r P W J J' : view_ok n r P W J -> r <= J' <= J -> view_ok n r P W J'.
Proof.
  intros HV HJ. destruct HV as [H1 H2 H3 H4 H5 H6 H7 H8 H9 H10]. constructor.
  - exact H1.
  - lia.
  - intros j Hj. apply H3. lia.
  - intros j Hj. apply H4. lia.
  - intros j j' y Hj Hj'. apply H5; lia.
  - intros j Hj. apply H6. lia.
  - intros j Hj. apply H7. lia.
  - intros j y w Hj. apply H8. lia.
  - intros j y Hj. apply H9. lia.
  - intros y Hj. apply H10. lia.
Qed.

Section View.
Variables (n r : Z) (P : vparams) (W : Z -> list Z) (J : Z).
Hypothesis HV : view_ok n r P W J.

Notation s := (sm n).
Notation V := (Vz P W r s).
Notation dec := (decider P W r s).

(* a unanimous round makes every witness of the next NORMAL round a decider, for that value *)
Lemma unanimous_decider j v : r + 2 <= j <= J -> 0 < (j - r) mod 4 ->
  (forall w, In w (W (j - 1)) -> V (j - 1) w = v) ->
  forall y, In y (W j) -> dec j y = true /\ V j y = v.
Proof.
  intros Hj Hn Hu y Hy.
  destruct (unanimous_step n r P W J HV j v Hj Hu y Hy) as [Hv Ht].
  split; [|exact Hv]. unfold decider. rewrite Ht. cbn [snd].
  pose proof (vo_quorum _ _ _ _ _ HV j y Hj Hy) as Hq.
  apply andb_true_intro. split; [apply andb_true_intro; split|]; lia.
Qed.

(* the loop over the rounds up to J' <= J *)
Definition decided_by (J' : Z) (v : bool) : Prop :=
  fame_loop P (fun j => Some (W j)) r (zrange (r + 1) J') [] = Some (Some v).

Lemma decider_decides_by J' j y v : r <= J' <= J -> r + 1 <= j <= J' -> In y (W j) ->
  dec j y = true -> V j y = v -> decided_by J' v.
Proof.
  intros HJ Hj Hy Hd Hv. unfold decided_by.
  apply (proj2 (decision_iff_decider n r P W J' (view_ok_restrict n r P W J J' HV HJ) v)).
  exists j, y. auto.
Qed.

(** (a) all round-(r+1) witnesses vote the same way (all see the candidate, or none does):
    decided at round r+2, as soon as that round has a witness *)
Theorem unanimous_decides_next_round v y :
  r + 2 <= J -> In y (W (r + 2)) ->
  (forall w, In w (W (r + 1)) -> seesb P w = v) ->
  decided_by (r + 2) v /\ decided_by J v.
Proof.
  intros HJ Hy Hu.
  assert (Hu' : forall w, In w (W (r + 2 - 1)) -> V (r + 2 - 1) w = v).
  { replace (r + 2 - 1) with (r + 1) by lia. intros w Hw. rewrite Vz_base. apply Hu; exact Hw. }
  assert (Hn : 0 < (r + 2 - r) mod 4) by (replace (r + 2 - r) with 2 by lia; reflexivity).
  destruct (unanimous_decider (r + 2) v ltac:(lia) Hn Hu' y Hy) as [Hd Hv].
  split; eapply decider_decides_by; try exact Hd; try exact Hv; try exact Hy; lia.
Qed.

(** the general form: unanimity at any round j0 is decided at the next normal round -- j0+1, or
    j0+2 when j0+1 is a coin round -- hence within two rounds *)
Theorem unanimity_decides_within_two_rounds j0 v y1 y2 :
  r + 1 <= j0 -> j0 + 2 <= J -> In y1 (W (j0 + 1)) -> In y2 (W (j0 + 2)) ->
  (forall w, In w (W j0) -> V j0 w = v) ->
  decided_by (j0 + 2) v /\ decided_by J v.
Proof.
  intros Hj0 HJ Hy1 Hy2 Hu.
  assert (Hu1 : forall w, In w (W (j0 + 1 - 1)) -> V (j0 + 1 - 1) w = v).
  { replace (j0 + 1 - 1) with j0 by lia. exact Hu. }
  destruct (Z.eq_dec ((j0 + 1 - r) mod 4) 0) as [Hc|Hn].
  - (* j0+1 is a coin round: still unanimous; j0+2 is normal *)
    assert (Hu2 : forall w, In w (W (j0 + 2 - 1)) -> V (j0 + 2 - 1) w = v).
    { replace (j0 + 2 - 1) with (j0 + 1) by lia. intros w Hw.
      exact (proj1 (unanimous_step n r P W J HV (j0 + 1) v ltac:(lia) Hu1 w Hw)). }
    assert (Hn2 : 0 < (j0 + 2 - r) mod 4) by lia.
    destruct (unanimous_decider (j0 + 2) v ltac:(lia) Hn2 Hu2 y2 Hy2) as [Hd Hv].
    split; eapply decider_decides_by; try exact Hd; try exact Hv; try exact Hy2; lia.
  - assert (Hn1 : 0 < (j0 + 1 - r) mod 4) by lia.
    destruct (unanimous_decider (j0 + 1) v ltac:(lia) Hn1 Hu1 y1 Hy1) as [Hd Hv].
    split; eapply decider_decides_by; try exact Hd; try exact Hv; try exact Hy1; lia.
Qed.

(* the round at which it is decided, exactly *)
Theorem unanimity_decides_at_next_normal_round j0 v j y :
  r + 1 <= j0 -> j0 < j <= J -> 0 < (j - r) mod 4 -> In y (W j) ->
  (forall w, In w (W j0) -> V j0 w = v) ->
  decided_by j v /\ decided_by J v.
Proof.
  intros Hj0 Hj Hn Hy Hu.
  assert (Hu' : forall w, In w (W (j - 1)) -> V (j - 1) w = v).
  { intros w Hw. apply (unanimous_from n r P W J HV j0 v Hj0 Hu (j - 1) w); [lia|exact Hw]. }
  destruct (unanimous_decider j v ltac:(lia) Hn Hu' y Hy) as [Hd Hv].
  split; eapply decider_decides_by; try exact Hd; try exact Hv; try exact Hy; lia.
Qed.

(** (b) U = all witnesses of round j of the history (at most n, one per validator), known to the
    view or not; A = at least a supermajority of them (e.g. the honest ones) whose vote is v as
    far as the view knows them.  If j+1 is a normal round, EVERY witness of round j+1 votes v:
    round j+1 is unanimous (its witnesses need not be deciders: Properties/C06.v) *)
Theorem supermajority_forces_next_round j (U A : list Z) v :
  r + 1 <= j -> j + 1 <= J -> 0 < (j + 1 - r) mod 4 ->
  NoDup U -> Z.of_nat (length U) <= n -> incl (W j) U ->
  NoDup A -> incl A U -> s <= Z.of_nat (length A) ->
  (forall w, In w A -> In w (W j) -> V j w = v) ->
  forall y, In y (W (j + 1)) -> V (j + 1) y = v.
Proof.
  intros Hj HJ Hn HU HUn HWU HA HAU HAs Hv y Hy.
  refine (proj1 (force_round n r P W J HV (j + 1) U A v ltac:(lia) Hn HU HUn _ HA HAU HAs _ y Hy));
    replace (j + 1 - 1) with j by lia; assumption.
Qed.

(* ... and is therefore decided within two further rounds (at j+2 if normal, else at j+3) *)
Theorem supermajority_decides_within_three_rounds j (U A : list Z) v y2 y3 :
  r + 1 <= j -> j + 3 <= J -> 0 < (j + 1 - r) mod 4 ->
  NoDup U -> Z.of_nat (length U) <= n -> incl (W j) U ->
  NoDup A -> incl A U -> s <= Z.of_nat (length A) ->
  (forall w, In w A -> In w (W j) -> V j w = v) ->
  In y2 (W (j + 2)) -> In y3 (W (j + 3)) ->
  decided_by (j + 3) v /\ decided_by J v.
Proof.
  intros Hj HJ Hn HU HUn HWU HA HAU HAs Hv Hy2 Hy3.
  pose proof (supermajority_forces_next_round j U A v Hj ltac:(lia) Hn HU HUn HWU HA HAU HAs Hv) as Hu.
  replace (j + 3) with (j + 1 + 2) by lia.
  apply (unanimity_decides_within_two_rounds (j + 1) v y2 y3); try lia; try exact Hu.
  - replace (j + 1 + 1) with (j + 2) by lia. exact Hy2.
  - replace (j + 1 + 2) with (j + 3) by lia. exact Hy3.
Qed.

(** (c) the coin.  In a coin round j ((j - r) mod 4 = 0) a witness votes the majority value of
    its tally when that tally is a supermajority, and flips its coin otherwise; it never decides *)
Theorem coin_round_vote j y :
  r + 2 <= j -> (j - r) mod 4 = 0 ->
  let vt := tallyf (V (j - 1)) (ssset P W j y) in
  (s <= snd vt -> V j y = fst vt) /\ (snd vt < s -> V j y = vp_coin P y) /\ dec j y = false.
Proof.
  intros Hj Hc vt. rewrite (Vz_step P W r s j y Hj). fold vt.
  replace (0 <? (j - r) mod 4) with false by lia.
  split; [intros H; replace (s <=? snd vt) with true by lia; reflexivity|].
  split; [intros H; replace (s <=? snd vt) with false by lia; reflexivity|].
  unfold decider. replace (0 <? (j - r) mod 4) with false by lia.
  rewrite andb_false_r. reflexivity.
Qed.

(* in any round, a supermajority tally of one witness fixes the majority value of the tally of
   every other witness of that round: two supermajority tallies never disagree *)
Theorem supermajority_tally_unique j y y' :
  r + 2 <= j <= J -> In y (W j) -> In y' (W j) ->
  s <= snd (tallyf (V (j - 1)) (ssset P W j y)) ->
  fst (tallyf (V (j - 1)) (ssset P W j y')) = fst (tallyf (V (j - 1)) (ssset P W j y)).
Proof.
  intros Hj Hy Hy' Hs.
  destruct (majority_voters_props n r P W J HV j y Hj) as [HA1 [HA2 [HA3 HA4]]].
  destruct (view_sm_pos n r P W J HV) as [_ H3s].
  set (v := fst (tallyf (V (j - 1)) (ssset P W j y))) in *.
  assert (Hm : cntv (V (j - 1)) (negb v) (ssset P W j y') < cntv (V (j - 1)) v (ssset P W j y')).
  { apply (majority_forced (W (j - 1)) (majority_voters n r P W j y) (ssset P W j y') (V (j - 1)) v n s).
    - apply (vo_nodup _ _ _ _ _ HV); lia.
    - apply (vo_len _ _ _ _ _ HV); lia.
    - exact H3s.
    - exact HA1.
    - exact HA2.
    - lia.
    - apply (ssset_NoDup n r P W J HV); exact Hj.
    - apply ssset_incl.
    - apply (vo_quorum _ _ _ _ _ HV); assumption.
    - intros w Hw _. apply HA4. exact Hw. }
  rewrite (tallyf_major _ _ _ Hm). reflexivity.
Qed.

(* hence in a coin round in which some witness has a supermajority tally for v, every witness
   votes v or its own coin: the coin matters exactly for the witnesses without a supermajority *)
Theorem coin_round_votes j y y' :
  r + 2 <= j <= J -> (j - r) mod 4 = 0 -> In y (W j) -> In y' (W j) ->
  s <= snd (tallyf (V (j - 1)) (ssset P W j y)) ->
  V j y = fst (tallyf (V (j - 1)) (ssset P W j y)) /\
  (V j y' = fst (tallyf (V (j - 1)) (ssset P W j y)) \/
   (snd (tallyf (V (j - 1)) (ssset P W j y')) < s /\ V j y' = vp_coin P y')).
Proof.
  intros Hj Hc Hy Hy' Hs.
  destruct (coin_round_vote j y ltac:(lia) Hc) as [H1 _].
  split; [apply H1; exact Hs|].
  destruct (coin_round_vote j y' ltac:(lia) Hc) as [H1' [H2' _]].
  destruct (Z_lt_le_dec (snd (tallyf (V (j - 1)) (ssset P W j y'))) s) as [Hlt|Hge].
  - right. split; [exact Hlt|apply H2'; exact Hlt].
  - left. rewrite (H1' Hge). apply supermajority_tally_unique; assumption.
Qed.

(* and when the previous round is unanimous the coin is not used at all *)
Theorem coin_irrelevant_when_unanimous j v y :
  r + 2 <= j <= J -> (forall w, In w (W (j - 1)) -> V (j - 1) w = v) -> In y (W j) ->
  V j y = v /\ s <= snd (tallyf (V (j - 1)) (ssset P W j y)).
Proof.
  intros Hj Hu Hy. destruct (unanimous_step n r P W J HV j v Hj Hu y Hy) as [Hv Ht].
  split; [exact Hv|]. rewrite Ht. cbn [snd]. apply (vo_quorum _ _ _ _ _ HV); assumption.
Qed.

End View.

(** * The stronger reading of (b) is false *)
From V Require Import Model.VotingWitness.

(* "a supermajority of round-j witnesses voting v makes every witness of the normal round j+1 a
   DECIDER": false, a witness of round j+1 strongly sees only a supermajority of round j, of which
   as few as 2 * sm - n vote v *)
Definition supermajority_decides_next_round_statement : Prop :=
  forall n r P W J j A v, view_ok n r P W J ->
    r + 1 <= j -> j + 1 <= J -> 0 < (j + 1 - r) mod 4 ->
    NoDup A -> incl A (W j) -> sm n <= Z.of_nat (length A) ->
    (forall w, In w A -> Vz P W r (sm n) j w = v) ->
    forall y, In y (W (j + 1)) -> decider P W r (sm n) (j + 1) y = true.

Theorem supermajority_decides_next_round_refuted : ~ supermajority_decides_next_round_statement.
Proof.
  intros H.
  assert (HV : view_ok 4 0 c06_P c06_W 3) by (apply view_okb_sound; vm_compute; reflexivity).
  specialize (H 4 0 c06_P c06_W 3 1 [1; 2; 3] true HV).
  assert (D : decider c06_P c06_W 0 (sm 4) (1 + 1) 5 = true).
  { apply H.
    - lia.
    - lia.
    - reflexivity.
    - repeat constructor; cbn; intuition discriminate.
    - intros w Hw. cbn in Hw. cbn. intuition.
    - vm_compute. discriminate.
    - intros w Hw. cbn in Hw. destruct Hw as [<-|[<-|[<-|[]]]]; vm_compute; reflexivity.
    - vm_compute. tauto. }
  vm_compute in D. discriminate D.
Qed.
