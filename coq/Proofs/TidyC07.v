(* C07 over the full operation alphabet: the DAG invariant of Proofs/AdmissionProofs.v holds in
   every state reachable by insertion attempts INTERLEAVED WITH ProcessSigPool calls ([hrun]), not
   only by insertion attempts ([run]): ProcessSigPool does not touch the DAG
   (Proofs/HgDagFrames.v, process_sigpool_frame). *)
From Coq Require Import ZArith List Bool Lia.
From V Require Import Model.ZMap Model.Quorum Model.HgImpl
  Proofs.HgDagFrames Proofs.AdmissionProofs Proofs.BlockInv.
Import ListNotations.
Open Scope Z_scope.

(* the attempted events of an operation sequence *)
Definition attempts_of (ops : list hop) : list event :=
  flat_map (fun o => match o with HInsert e => [e] | HSigPool => [] end) ops.

Lemma hstep_dag_inv st o all :
  dag_ok st -> from_attempts st all -> ids_determine all ->
  (match o with HInsert e => In e all /\ 0 <= e_id e | HSigPool => True end) ->
  dag_ok (hstep st o) /\ from_attempts (hstep st o) all.
Proof.
  intros OK FA ID Ho. destruct o as [e|]; cbn [hstep].
  - destruct Ho as [Hin Hid]. apply step_inv; assumption.
  - pose proof (process_sigpool_frame st) as F.
    split; [eapply dag_ok_frame; eauto|eapply from_attempts_frame; eauto].
Qed.

Lemma init_no_event self_ genesis oracle_ all : from_attempts (init_hg self_ genesis oracle_) all.
Proof.
  intros x es H. exfalso. unfold init_hg in H.
  destruct (set_peerset (empty_hg self_) 0 genesis) as [st|] eqn:S.
  - pose proof (set_peerset_frame _ _ _ _ S) as [Fe _]. specialize (Fe x). unfold get_event in H.
    change (events (RecordSet.set oracle (fun _ => oracle_) (RecordSet.set validators (fun _ => genesis) st))) with (events st) in H.
    rewrite H in Fe. cbn in Fe. unfold empty_hg in Fe. cbn in Fe. rewrite ZMapFacts.zget_empty in Fe. discriminate.
  - unfold get_event, empty_hg in H. cbn in H. rewrite ZMapFacts.zget_empty in H. discriminate.
Qed.

Theorem hrun_dag_ok all self_ genesis oracle_ ops :
  ids_determine all ->
  Forall (fun o => match o with HInsert e => In e all /\ 0 <= e_id e | HSigPool => True end) ops ->
  dag_ok (hrun (init_hg self_ genesis oracle_) ops) /\
  from_attempts (hrun (init_hg self_ genesis oracle_) ops) all.
Proof.
  intros ID H. unfold hrun.
  assert (G : forall st, dag_ok st -> from_attempts st all ->
              dag_ok (fold_left hstep ops st) /\ from_attempts (fold_left hstep ops st) all).
  { induction H as [|o ops Ho Hops IH]; intros st OK FA; cbn [fold_left]; [auto|].
    destruct (hstep_dag_inv st o all OK FA ID Ho) as [OK' FA']. apply IH; assumption. }
  apply G; [apply dag_ok_init|apply init_no_event].
Qed.

(* with the attempted events read off the operation sequence itself *)
Lemma ops_attempts ops :
  (forall e, In e (attempts_of ops) -> 0 <= e_id e) ->
  Forall (fun o => match o with HInsert e => In e (attempts_of ops) /\ 0 <= e_id e | HSigPool => True end) ops.
Proof.
  intros Hpos. apply Forall_forall. intros o Ho. destruct o as [e|]; [|exact I].
  assert (Hin : In e (attempts_of ops)).
  { unfold attempts_of. apply in_flat_map. exists (HInsert e). split; [exact Ho|left; reflexivity]. }
  split; [exact Hin|apply Hpos; exact Hin].
Qed.

Theorem hrun_dag_ok_ops self_ genesis oracle_ ops :
  ids_determine (attempts_of ops) -> (forall e, In e (attempts_of ops) -> 0 <= e_id e) ->
  dag_ok (hrun (init_hg self_ genesis oracle_) ops) /\
  from_attempts (hrun (init_hg self_ genesis oracle_) ops) (attempts_of ops).
Proof. intros ID Hpos. apply hrun_dag_ok; [exact ID|apply ops_attempts; exact Hpos]. Qed.

(* ProcessSigPool on its own preserves the DAG invariant *)
Lemma process_sigpool_dag_ok st : dag_ok st -> dag_ok (process_sigpool st).
Proof. intros OK. eapply dag_ok_frame; [exact OK|apply process_sigpool_frame]. Qed.

(* [run] is [hrun] over insertions only *)
Lemma run_is_hrun st evs : run st evs = hrun st (map HInsert evs).
Proof. revert st. induction evs as [|e evs IH]; intros st; cbn; [reflexivity|apply IH]. Qed.
