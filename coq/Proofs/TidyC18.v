(* C18 end to end: the timestamp of every delivered block is the median (Model/Median.v) of the
   timestamps of the famous witnesses of its round-received -- as the round table and the event
   store of the CURRENT state report them, i.e. the famous-witness set of a processed round and
   the bodies of its members never change afterwards -- hence (Proofs/MedianProofs.v) it lies
   within the range of the honest witnesses' timestamps when fewer than half of them are
   Byzantine.  Invariant over [hrun]; uses the DAG / order invariant (Proofs/OrderProofs.v, for
   "a stored event keeps its body") and the queue invariant (Proofs/RoundOrder.v, for "a round at
   or below the last consensus round is no longer in the fame queue").  No model changed. *)
From Coq Require Import ZArith List Bool Lia ZifyBool Sorted Permutation.
From RecordUpdate Require Import RecordSet.
From V Require Import Model.ZMap Model.Quorum Model.Median Model.MedianAux Model.Voting Model.HgImpl
  Proofs.ZMapFacts Proofs.HgFrames Proofs.HgDagFrames Proofs.HgBlockFrames Proofs.AdmissionProofs
  Proofs.InsertShape Proofs.BlockInv Proofs.RoundOrder Proofs.OrderFrames Proofs.OrderProofs
  Proofs.MedianProofs.
Import ListNotations RecordSetNotations.
Open Scope Z_scope.

(** * Readings *)

(* Body.Timestamp of a stored event (0 when absent, as get_frame reads it) *)
Definition ets (st : hg) (w : Z) : Z :=
  match get_event st w with Some e => e_ts (ev_e e) | None => 0 end.
(* the famous witnesses of round r, as the round table reports them *)
Definition fws (st : hg) (r : Z) : list Z :=
  match get_round st r with Some ri => famous_witnesses ri | None => [] end.
Definition fw_ts (st : hg) (r : Z) : list Z := map (ets st) (fws st r).
(* the events listed in round r (CreatedEvents) *)
Definition ckeys (st : hg) (r : Z) : list Z :=
  match get_round st r with Some ri => map fst (ri_created ri) | None => [] end.
Definition stored (st : hg) (x : Z) : Prop := get_event st x <> None.
(* every event listed in a round is a stored event *)
Definition cs (st : hg) : Prop := forall r x, In x (ckeys st r) -> stored st x.

Lemma fws_ckeys st r x : In x (fws st r) -> In x (ckeys st r).
Proof.
  unfold fws, ckeys. destruct (get_round st r) as [ri|]; [|intros []].
  unfold famous_witnesses. intros H. apply in_map_iff in H. destruct H as [p [<- Hp]].
  apply filter_In in Hp. apply in_map. apply Hp.
Qed.

Lemma fws_rounds st st' : rounds st' = rounds st -> forall q, fws st' q = fws st q.
Proof. intros E q. unfold fws, get_round. rewrite E. reflexivity. Qed.
Lemma ckeys_rounds st st' : rounds st' = rounds st -> forall q, ckeys st' q = ckeys st q.
Proof. intros E q. unfold ckeys, get_round. rewrite E. reflexivity. Qed.

Lemma fws_set_rounds st i ri q :
  fws (st <| rounds := zset i ri (rounds st) |>) q =
  if (i =? q) && (0 <=? i) then famous_witnesses ri else fws st q.
Proof.
  unfold fws, get_round. replace (rounds (st <| rounds := zset i ri (rounds st) |>)) with (zset i ri (rounds st)) by (destruct st; reflexivity).
  rewrite zget_zset. destruct ((i =? q) && (0 <=? i)); reflexivity.
Qed.
Lemma ckeys_set_rounds st i ri q :
  ckeys (st <| rounds := zset i ri (rounds st) |>) q =
  if (i =? q) && (0 <=? i) then map fst (ri_created ri) else ckeys st q.
Proof.
  unfold ckeys, get_round. replace (rounds (st <| rounds := zset i ri (rounds st) |>)) with (zset i ri (rounds st)) by (destruct st; reflexivity).
  rewrite zget_zset. destruct ((i =? q) && (0 <=? i)); reflexivity.
Qed.
Lemma fws_set_round st i ri q :
  fws (set_round st i ri) q = if (i =? q) && (0 <=? i) then famous_witnesses ri else fws st q.
Proof.
  unfold fws, get_round. replace (rounds (set_round st i ri)) with (zset i ri (rounds st)) by (destruct st; reflexivity).
  rewrite zget_zset. destruct ((i =? q) && (0 <=? i)); reflexivity.
Qed.
Lemma ckeys_set_round st i ri q :
  ckeys (set_round st i ri) q = if (i =? q) && (0 <=? i) then map fst (ri_created ri) else ckeys st q.
Proof.
  unfold ckeys, get_round. replace (rounds (set_round st i ri)) with (zset i ri (rounds st)) by (destruct st; reflexivity).
  rewrite zget_zset. destruct ((i =? q) && (0 <=? i)); reflexivity.
Qed.

(* a dag_frame step keeps the stored events and their bodies *)
Lemma stored_frame st st' x : dag_frame st st' -> (stored st x <-> stored st' x).
Proof.
  intros F. destruct (frame_get_event st st' x F) as [B Fw]. unfold stored. split; intros H C; apply H.
  - destruct (get_event st x) as [es|] eqn:E; [|reflexivity]. destruct (Fw es eq_refl) as [es' [E' _]]. congruence.
  - destruct (get_event st' x) as [es'|] eqn:E; [|reflexivity]. destruct (B es' eq_refl) as [es [E0 _]]. congruence.
Qed.
Lemma ets_frame st st' : dag_frame st st' -> forall w, ets st' w = ets st w.
Proof.
  intros F w. destruct (frame_get_event st st' w F) as [B Fw]. unfold ets.
  destruct (get_event st w) as [es|] eqn:E.
  - destruct (Fw es eq_refl) as [es' [E' Ee]]. rewrite E', Ee. reflexivity.
  - destruct (get_event st' w) as [es'|] eqn:E'; [|reflexivity].
    destruct (B es' eq_refl) as [es [E0 _]]. congruence.
Qed.

(** * What a step may do to the round table *)
Record fwkeep (Q : Z -> Prop) (st st' : hg) : Prop := {
  fk_fws : forall r, Q r -> fws st' r = fws st r;
  fk_keys : forall r x, In x (ckeys st' r) -> In x (ckeys st r) \/ stored st' x;
  fk_st : forall x, stored st x -> stored st' x
}.

Lemma fwkeep_refl Q st : fwkeep Q st st.
Proof. constructor; auto. Qed.
Lemma fwkeep_trans Q a b c : fwkeep Q a b -> fwkeep Q b c -> fwkeep Q a c.
Proof.
  intros [A1 A2 A3] [B1 B2 B3]. constructor.
  - intros r Hr. rewrite (B1 r Hr). apply A1; exact Hr.
  - intros r x Hx. destruct (B2 r x Hx) as [H|H]; [|right; exact H].
    destruct (A2 r x H) as [H'|H']; [left; exact H'|right; apply B3; exact H'].
  - auto.
Qed.
Lemma fwkeep_weaken (Q Q' : Z -> Prop) st st' : (forall r, Q' r -> Q r) -> fwkeep Q st st' -> fwkeep Q' st st'.
Proof. intros H [A1 A2 A3]. constructor; auto. Qed.
Lemma fwkeep_same Q st st' :
  rounds st' = rounds st -> (forall x, stored st x -> stored st' x) -> fwkeep Q st st'.
Proof.
  intros E S. constructor; [intros r _; apply fws_rounds; exact E| |exact S].
  intros r x. rewrite (ckeys_rounds _ _ E). auto.
Qed.
Lemma fwkeep_cs Q st st' : fwkeep Q st st' -> cs st -> cs st'.
Proof.
  intros [_ K S] C r x Hx. destruct (K r x Hx) as [H|H]; [apply S, (C r x H)|exact H].
Qed.

(** * Functions that leave the round table alone *)
Lemma rounds_nomemo st st' : nomemo st' = nomemo st -> rounds st' = rounds st.
Proof. apply nomemo_eq_rounds. Qed.
Lemma rounds_set_evst st x e : rounds (set_evst st x e) = rounds st.
Proof. destruct st; reflexivity. Qed.
Lemma rounds_fail st : rounds (fail st) = rounds st.
Proof. destruct st; reflexivity. Qed.

Lemma fd_walk_rounds fuel : forall st c index x ah, rounds (fd_walk fuel st c index x ah) = rounds st.
Proof.
  induction fuel as [|f IH]; intros st c index x ah; cbn [fd_walk]; [reflexivity|].
  destruct (get_event st ah) as [a|]; [|reflexivity].
  destruct (aget c (ev_fd a)); [reflexivity|].
  set (st1 := set_evst st ah _).
  pose proof (rounds_nomemo _ _ (witness_f_nomemo (fuel_of st1) st1 ah)) as F2.
  assert (F1 : rounds st1 = rounds st) by apply rounds_set_evst.
  destruct (witness_f (fuel_of st1) st1 ah) as [[[|]|] st2]; cbn [snd] in F2; try rewrite IH; congruence.
Qed.

Lemma update_ancestor_fd_rounds st e la : rounds (update_ancestor_fd st e la) = rounds st.
Proof.
  unfold update_ancestor_fd. revert st. induction la as [|ce la IH]; intros st; cbn [fold_left]; [reflexivity|].
  rewrite IH. apply fd_walk_rounds.
Qed.

Lemma store_set_event_rounds st es st' : store_set_event st es = Some st' -> rounds st' = rounds st.
Proof.
  unfold store_set_event. destruct (get_event st _).
  - intros H; inversion H. apply rounds_set_evst.
  - destruct (zget _ _); [|discriminate]. destruct (pidx_set _ _ _); [|discriminate].
    intros H; inversion H. rewrite rounds_set_evst. destruct st; reflexivity.
Qed.

Lemma insert_event_rounds st e : rounds (snd (insert_event st e)) = rounds st.
Proof.
  unfold insert_event. destruct (negb _); [reflexivity|].
  destruct (check_self_parent st e); try reflexivity.
  destruct (check_other_parent st e); try reflexivity.
  unfold insert_admitted. cbv zeta.
  destruct (store_set_event _ _) as [st2|] eqn:E; cbn [snd]; [|destruct st; reflexivity].
  apply store_set_event_rounds in E.
  replace (rounds (st <| topo := topo st + 1 |>)) with (rounds st) in E by (destruct st; reflexivity).
  set (st3 := update_ancestor_fd st2 e _).
  assert (E3 : rounds st3 = rounds st) by (subst st3; rewrite update_ancestor_fd_rounds; exact E).
  destruct (is_loaded e); destruct st3; cbn in *; exact E3.
Qed.

(** * DivideRounds: new entries are undecided, and are stored events *)
Lemma add_created_fws ri x w : famous_witnesses (add_created ri x w) = famous_witnesses ri.
Proof.
  unfold add_created. destruct (aget x (ri_created ri)); [reflexivity|].
  unfold famous_witnesses. replace (ri_created (ri <| ri_created := ri_created ri ++ [(x, (w, Undefined))] |>))
    with (ri_created ri ++ [(x, (w, Undefined))]) by (destruct ri; reflexivity).
  rewrite filter_app, map_app. cbn [filter snd]. destruct w; cbn [map]; apply app_nil_r.
Qed.
Lemma add_created_keys ri x w y :
  In y (map fst (ri_created (add_created ri x w))) -> In y (map fst (ri_created ri)) \/ y = x.
Proof.
  unfold add_created. destruct (aget x (ri_created ri)); [auto|].
  replace (ri_created (ri <| ri_created := ri_created ri ++ [(x, (w, Undefined))] |>))
    with (ri_created ri ++ [(x, (w, Undefined))]) by (destruct ri; reflexivity).
  rewrite map_app, in_app_iff. cbn. intuition.
Qed.

Lemma divide_round_fwkeep st x : stored st x -> fwkeep (fun _ => True) st (divide_round st x).
Proof.
  intros Sx. pose proof (divide_round_frame st x) as DF.
  assert (S : forall y, stored st y -> stored (divide_round st x) y) by (intros y; apply (stored_frame _ _ y DF)).
  revert DF S. unfold divide_round.
  pose proof (rounds_nomemo _ _ (round_f_nomemo (fuel_of st) st x)) as Fr.
  destruct (round_f (fuel_of st) st x) as [[r|] s]; cbn [snd] in Fr; intros DF S.
  2:{ apply fwkeep_same; [rewrite rounds_fail; exact Fr|exact S]. }
  cbv zeta in *.
  set (s1 := set_event_round s x r) in *. set (ri := round_or_new s1 r) in *. set (s2 := maybe_queue s1 r ri) in *.
  assert (F1 : rounds s1 = rounds s).
  { subst s1; unfold set_event_round; destruct (get_event s x); [apply rounds_set_evst|reflexivity]. }
  assert (F2 : rounds s2 = rounds s1).
  { subst s2; unfold maybe_queue; destruct (_ && _ && _); [destruct s1; reflexivity|reflexivity]. }
  pose proof (rounds_nomemo _ _ (witness_f_nomemo (fuel_of s2) s2 x)) as Fw.
  destruct (witness_f (fuel_of s2) s2 x) as [[w|] s']; cbn [snd] in Fw.
  2:{ apply fwkeep_same; [rewrite rounds_fail; congruence|exact S]. }
  assert (E' : rounds s' = rounds st) by congruence.
  assert (Eri : famous_witnesses ri = fws st r /\ map fst (ri_created ri) = ckeys st r).
  { subst ri. unfold round_or_new, fws, ckeys, get_round. rewrite F1, Fr.
    destruct (zget r (rounds st)); split; reflexivity. }
  destruct Eri as [Ef Ek].
  constructor; [| |exact S].
  - intros q _. rewrite fws_set_round. destruct ((r =? q) && (0 <=? r)) eqn:C; [|apply fws_rounds; exact E'].
    assert (q = r) by lia. subst q. rewrite add_created_fws. exact Ef.
  - intros q y. rewrite ckeys_set_round. destruct ((r =? q) && (0 <=? r)) eqn:C;
      [|rewrite (ckeys_rounds _ _ E'); auto].
    assert (q = r) by lia. subst q. intros Hy. apply add_created_keys in Hy. destruct Hy as [Hy| ->].
    + left. rewrite <- Ek. exact Hy.
    + right. apply S. exact Sx.
Qed.

Lemma divide_lt_rounds st x : rounds (divide_lt st x) = rounds st.
Proof.
  unfold divide_lt.
  pose proof (rounds_nomemo _ _ (lamport_f_nomemo (fuel_of st) st x)) as Fl.
  destruct (lamport_f (fuel_of st) st x) as [[t|] s]; cbn [snd] in Fl; [|rewrite rounds_fail; exact Fl].
  unfold set_event_lt. destruct (get_event s x); rewrite ?rounds_set_evst; exact Fl.
Qed.

Lemma fwkeep_frame_same Q st st' : rounds st' = rounds st -> dag_frame st st' -> fwkeep Q st st'.
Proof. intros E F. apply fwkeep_same; [exact E|]. intros x. apply (stored_frame _ _ x F). Qed.

Lemma divide_one_fwkeep st x : fwkeep (fun _ => True) st (divide_one st x).
Proof.
  unfold divide_one.
  destruct (failed st); [apply fwkeep_refl|].
  destruct (get_event st x) as [ev|] eqn:Ex; [|apply fwkeep_frame_same; [apply rounds_fail|apply fail_frame]].
  cbv zeta.
  set (st1 := match ev_round ev with Some _ => st | None => divide_round st x end).
  assert (K1 : fwkeep (fun _ => True) st st1).
  { subst st1; destruct (ev_round ev); [apply fwkeep_refl|apply divide_round_fwkeep]. unfold stored. congruence. }
  destruct (failed st1); [exact K1|].
  destruct (get_event st1 x) as [ev1|];
    [|eapply fwkeep_trans; [exact K1|apply fwkeep_frame_same; [apply rounds_fail|apply fail_frame]]].
  destruct (ev_lt ev1); [exact K1|].
  eapply fwkeep_trans; [exact K1|apply fwkeep_frame_same; [apply divide_lt_rounds|apply divide_lt_frame]].
Qed.

Lemma divide_rounds_fwkeep st : fwkeep (fun _ => True) st (divide_rounds st).
Proof.
  unfold divide_rounds. generalize (undetermined st). intros l. revert st.
  induction l as [|x l IH]; intros st; cbn [fold_left]; [apply fwkeep_refl|].
  eapply fwkeep_trans; [apply divide_one_fwkeep|apply IH].
Qed.

(** * DecideFame: only the rounds of the queue are touched *)
Lemma aset_keys {A} k (v : A) l y : In y (map fst (aset k v l)) -> In y (map fst l) \/ y = k.
Proof.
  induction l as [|[k' v'] r IH]; cbn [aset map fst In]; [intuition|].
  destruct (Z.eqb k' k) eqn:E; cbn [map fst In].
  - intros [H|H]; [right; auto|left; right; exact H].
  - intros [H|H]; [left; left; exact H|]. destruct (IH H) as [H'|H']; [left; right; exact H'|right; exact H'].
Qed.

Lemma set_fame_keys ri x f y :
  In y (map fst (ri_created (set_fame ri x f))) -> In y (map fst (ri_created ri)) \/ y = x.
Proof.
  unfold set_fame. destruct (aget x (ri_created ri)) as [[w t]|].
  - replace (ri_created (ri <| ri_created := aset x (w, if f then TTrue else TFalse) (ri_created ri) |>))
      with (aset x (w, if f then TTrue else TFalse) (ri_created ri)) by (destruct ri; reflexivity).
    apply aset_keys.
  - replace (ri_created (ri <| ri_created := ri_created ri ++ [(x, (true, if f then TTrue else TFalse))] |>))
      with (ri_created ri ++ [(x, (true, if f then TTrue else TFalse))]) by (destruct ri; reflexivity).
    rewrite map_app, in_app_iff. cbn. intuition.
Qed.

Lemma witnesses_keys ri x : In x (witnesses ri) -> In x (map fst (ri_created ri)).
Proof.
  unfold witnesses. intros H. apply in_map_iff in H. destruct H as [p [<- Hp]].
  apply filter_In in Hp. apply in_map. apply Hp.
Qed.

Lemma fame_fold_keys s r ws : forall ri0 ri',
  fold_left (fun (a : option rinfo) x =>
     match a with
     | None => None
     | Some ri' => if is_decided ri' x then Some ri'
                   else match fame_of s x r with
                        | None => None
                        | Some None => Some ri'
                        | Some (Some v) => Some (set_fame ri' x v)
                        end
     end) ws (Some ri0) = Some ri' ->
  forall y, In y (map fst (ri_created ri')) -> In y (map fst (ri_created ri0)) \/ In y ws.
Proof.
  induction ws as [|x ws IH]; intros ri0 ri' H y Hy; cbn [fold_left] in H.
  - inversion H; subst. left; exact Hy.
  - destruct (is_decided ri0 x).
    + destruct (IH _ _ H y Hy) as [H'|H']; [left; exact H'|right; right; exact H'].
    + destruct (fame_of s x r) as [[v|]|].
      * destruct (IH _ _ H y Hy) as [H'|H']; [|right; right; exact H'].
        apply set_fame_keys in H'. destruct H' as [H'| ->]; [left; exact H'|right; left; reflexivity].
      * destruct (IH _ _ H y Hy) as [H'|H']; [left; exact H'|right; right; exact H'].
      * exfalso. clear -H. induction ws as [|z ws IHw]; cbn [fold_left] in H; [discriminate|auto].
Qed.

Lemma witnesses_decided_created ri ps : ri_created (snd (witnesses_decided ri ps)) = ri_created ri.
Proof.
  unfold witnesses_decided. destruct (ri_decided ri); [reflexivity|].
  destruct (existsb _ _); [reflexivity|]. destruct ri; reflexivity.
Qed.

Lemma decide_fame_round_fwkeep s dec pr :
  fwkeep (fun q => q <> fst pr) s (fst (decide_fame_round (s, dec) pr)).
Proof.
  pose proof (decide_fame_round_frame s dec pr) as DF. revert DF. unfold decide_fame_round.
  destruct (failed s); [intros; apply fwkeep_refl|].
  destruct (get_round s (fst pr)) as [ri|] eqn:Hri; [|intros DF; apply fwkeep_frame_same; [apply rounds_fail|exact DF]].
  destruct (get_peerset s (fst pr)) as [rps|]; [|intros DF; apply fwkeep_frame_same; [apply rounds_fail|exact DF]].
  match goal with |- context [fold_left ?f ?l ?a] => destruct (fold_left f l a) as [ri'|] eqn:Ef end;
    [|intros DF; apply fwkeep_frame_same; [apply rounds_fail|exact DF]].
  pose proof (witnesses_decided_created ri' rps) as Wc.
  destruct (witnesses_decided ri' rps) as [d ri'']. cbn [fst snd] in *. intros DF.
  constructor.
  - intros q Hq. rewrite fws_set_round. destruct ((fst pr =? q) && (0 <=? fst pr)) eqn:C; [lia|reflexivity].
  - intros q y. rewrite ckeys_set_round. destruct ((fst pr =? q) && (0 <=? fst pr)) eqn:C; [|auto].
    assert (q = fst pr) by lia. subst q. rewrite Wc. intros Hy. left.
    unfold ckeys. rewrite Hri.
    destruct (fame_fold_keys s (fst pr) (witnesses ri) ri ri' Ef y Hy) as [H|H]; [exact H|apply witnesses_keys; exact H].
  - intros x. apply (stored_frame _ _ x DF).
Qed.

Lemma decide_fame_fold_fwkeep l : forall s dec,
  fwkeep (fun q => ~ In q (map fst l)) s (fst (fold_left decide_fame_round l (s, dec))).
Proof.
  induction l as [|pr l IH]; intros s dec; cbn [fold_left]; [apply fwkeep_refl|].
  pose proof (decide_fame_round_fwkeep s dec pr) as K1.
  destruct (decide_fame_round (s, dec) pr) as [s1 dec1]. cbn [fst] in K1.
  eapply fwkeep_trans.
  - eapply fwkeep_weaken; [|exact K1]. intros q Hq E. apply Hq. left. symmetry; exact E.
  - eapply fwkeep_weaken; [|apply IH]. intros q Hq E. apply Hq. right. exact E.
Qed.

Lemma decide_fame_fwkeep st : fwkeep (fun q => ~ In q (prounds st)) st (decide_fame st).
Proof.
  unfold decide_fame, prounds.
  pose proof (decide_fame_fold_fwkeep (pending st) st []) as K.
  destruct (fold_left decide_fame_round (pending st) (st, [])) as [s decided]. cbn [fst] in K.
  destruct (failed s); [exact K|].
  eapply fwkeep_trans; [exact K|]. apply fwkeep_frame_same; [destruct s; reflexivity|apply dag_frame_set_pending].
Qed.

(** * DecideRoundReceived: decided flags and received lists only *)
Lemma rr_loop_fwkeep x : forall is_ st, fwkeep (fun _ => True) st (fst (rr_loop st x is_)).
Proof.
  induction is_ as [|i rest IH]; intros st; cbn [rr_loop]; [apply fwkeep_refl|].
  destruct (get_round st i) as [tr|] eqn:Htr;
    [|destruct (lower_bound st) as [lb0|]; [destruct (i <=? lb0); [apply IH|apply fwkeep_refl]|apply fwkeep_refl]].
  destruct (get_peerset st i) as [tps|]; [|apply fwkeep_frame_same; [apply rounds_fail|apply fail_frame]].
  pose proof (witnesses_decided_created tr tps) as Wc.
  destruct (witnesses_decided tr tps) as [d tr']. cbn [snd] in Wc.
  set (st1 := st <| rounds := zset i tr' (rounds st) |>).
  assert (Ff : forall q, fws st1 q = fws st q).
  { intros q. subst st1. rewrite fws_set_rounds. destruct ((i =? q) && (0 <=? i)) eqn:C; [|reflexivity].
    assert (q = i) by lia. subst q. unfold fws. rewrite Htr. unfold famous_witnesses. rewrite Wc. reflexivity. }
  assert (Fk : forall q, ckeys st1 q = ckeys st q).
  { intros q. subst st1. rewrite ckeys_set_rounds. destruct ((i =? q) && (0 <=? i)) eqn:C; [|reflexivity].
    assert (q = i) by lia. subst q. unfold ckeys. rewrite Htr, Wc. reflexivity. }
  assert (K1 : fwkeep (fun _ => True) st st1).
  { constructor; [intros q _; apply Ff|intros q y; rewrite Fk; auto|].
    intros y. subst st1. apply (stored_frame _ _ y (dag_frame_set_rounds st (zset i tr' (rounds st)))). }
  destruct d; cbn [negb].
  - match goal with |- context [fold_left ?f ?l ?a] => destruct (fold_left f l a) as [sees|] end;
      [|cbn [fst]; eapply fwkeep_trans; [exact K1|apply fwkeep_frame_same; [apply rounds_fail|apply fail_frame]]].
    destruct (_ && _).
    + destruct (get_event st1 x) as [ex|] eqn:Hex; cbn [fst];
        [|eapply fwkeep_trans; [exact K1|apply fwkeep_frame_same; [apply rounds_fail|apply fail_frame]]].
      eapply fwkeep_trans; [exact K1|].
      set (st2 := set_evst st1 x _).
      assert (K2 : fwkeep (fun _ => True) st1 st2).
      { apply fwkeep_frame_same; [apply rounds_set_evst|]. subst st2. eapply dag_frame_set_evst; [exact Hex|destruct ex; reflexivity]. }
      eapply fwkeep_trans; [exact K2|].
      assert (Hst2 : get_round st2 i = get_round st1 i) by (unfold get_round; subst st2; rewrite rounds_set_evst; reflexivity).
      constructor.
      * intros q _. rewrite fws_set_round. destruct ((i =? q) && (0 <=? i)) eqn:C; [|reflexivity].
        assert (q = i) by lia. subst q.
        replace (fws st2 i) with (fws st1 i) by (unfold fws; rewrite Hst2; reflexivity).
        rewrite Ff. unfold fws. rewrite Htr. unfold famous_witnesses. rewrite <- Wc. destruct tr'; reflexivity.
      * intros q y. rewrite ckeys_set_round. destruct ((i =? q) && (0 <=? i)) eqn:C; [|auto].
        assert (q = i) by lia. subst q. intros Hy. left.
        replace (ckeys st2 i) with (ckeys st1 i) by (unfold ckeys; rewrite Hst2; reflexivity).
        rewrite Fk. unfold ckeys. rewrite Htr, <- Wc. destruct tr'; exact Hy.
      * intros y. exact (proj1 (stored_frame _ _ y (dag_frame_set_round st2 i (tr' <| ri_received := ri_received tr' ++ [x] |>)))).
    + eapply fwkeep_trans; [exact K1|apply IH].
  - destruct (lower_bound st1) as [lb|]; [|exact K1].
    destruct (lb <? i); [exact K1|]. eapply fwkeep_trans; [exact K1|apply IH].
Qed.

Lemma decide_rr_one_fwkeep s und x : fwkeep (fun _ => True) s (fst (decide_rr_one (s, und) x)).
Proof.
  unfold decide_rr_one.
  destruct (failed s); [apply fwkeep_refl|].
  pose proof (rounds_nomemo _ _ (round_f_nomemo (fuel_of s) s x)) as Fr.
  pose proof (round_f_frame (fuel_of s) s x) as DF.
  destruct (round_f (fuel_of s) s x) as [[r|] s1]; cbn [snd] in Fr, DF.
  2:{ cbn [fst]. eapply fwkeep_trans; [apply fwkeep_frame_same; [exact Fr|exact DF]|].
      apply fwkeep_frame_same; [apply rounds_fail|apply fail_frame]. }
  pose proof (rr_loop_fwkeep x (zrange (r + 1) (last_round s1)) s1) as Kl.
  destruct (rr_loop s1 x (zrange (r + 1) (last_round s1))) as [s' received]. cbn [fst] in *.
  eapply fwkeep_trans; [apply fwkeep_frame_same; [exact Fr|exact DF]|exact Kl].
Qed.

Lemma decide_round_received_fwkeep st : fwkeep (fun _ => True) st (decide_round_received st).
Proof.
  unfold decide_round_received.
  assert (G : forall l s und, fwkeep (fun _ => True) s (fst (fold_left decide_rr_one l (s, und)))).
  { induction l as [|x l IH]; intros s und; cbn [fold_left]; [apply fwkeep_refl|].
    pose proof (decide_rr_one_fwkeep s und x) as K1.
    destruct (decide_rr_one (s, und) x) as [s1 und1]. cbn [fst] in K1.
    eapply fwkeep_trans; [exact K1|apply IH]. }
  pose proof (G (undetermined st) st []) as K.
  destruct (fold_left decide_rr_one (undetermined st) (st, [])) as [s und]. cbn [fst] in K.
  destruct (failed s); [exact K|].
  eapply fwkeep_trans; [exact K|]. apply fwkeep_frame_same; [destruct s; reflexivity|apply dag_frame_set_undetermined].
Qed.

(** * GetFrame and commit *)
Lemma get_frame_shape st rr f s : get_frame st rr = (Some f, s) ->
  (zget rr (frames st) = Some f /\ s = st) \/
  (zget rr (frames st) = None /\ s = st <| frames := zset rr f (frames st) |> /\
   f_ts f = median (fw_ts st rr)).
Proof.
  unfold get_frame. destruct (zget rr (frames st)) as [g|] eqn:Hg.
  { intros H; inversion H; subst. left; auto. }
  destruct (get_round st rr) as [ri|] eqn:Hri; [|discriminate].
  destruct (get_peerset st rr); [|discriminate].
  match goal with |- context [fold_left ?f ?l ?a] => destruct (fold_left f l a) end; [|discriminate].
  match goal with |- context [fold_left ?f (repertoire st) ?a] => destruct (fold_left f (repertoire st) a) end;
    [|discriminate].
  intros H; inversion H; subst; clear H. right. split; [reflexivity|]. split; [reflexivity|].
  cbn [f_ts]. unfold fw_ts, fws. rewrite Hri. reflexivity.
Qed.

(* timestamp and frame of a block *)
Definition tf (b : block) := (b_ts b, b_frame b).

Lemma sign_block_tf st b bps : tf (fst (sign_block st b bps)) = tf b.
Proof. unfold sign_block. destruct (mem_key _ _); cbn [fst]; [destruct b; reflexivity|reflexivity]. Qed.

Lemma commit_delivered_tf st b : exists bf, delivered (commit st b) = delivered st ++ [bf] /\ tf bf = tf b.
Proof.
  unfold commit. destruct (self st =? -1); [exists b; split; [destruct st; reflexivity|reflexivity]|]. cbv zeta.
  set (st0 := st <| oracle := _ |>).
  assert (F0 : delivered st0 = delivered st) by (destruct st; reflexivity).
  match goal with |- context [store_set_block st0 ?b1] => set (bb := b1) end.
  assert (Rb : tf bb = tf b) by (subst bb; destruct b; reflexivity).
  pose proof (delivered_store st0 bb) as F1.
  destruct (get_peerset (store_set_block st0 bb) (b_rr bb)) as [bps|].
  - pose proof (delivered_sign_block (store_set_block st0 bb) bb bps) as F2.
    pose proof (sign_block_tf (store_set_block st0 bb) bb bps) as R2.
    destruct (sign_block (store_set_block st0 bb) bb bps) as [b2 st2]. cbn [fst snd] in *.
    exists b2. split; [|congruence].
    pose proof (delivered_bl _ _ (process_receipts_bl (set_anchor_block st2 b2) (b_rr b2) (b_itxs b2))) as F4.
    pose proof (delivered_bl _ _ (set_anchor_block_bl st2 b2)) as F3.
    match goal with |- delivered (deliver ?s ?d) = _ => change (delivered (deliver s d)) with (delivered s ++ [d]) end.
    congruence.
  - exists bb. split; [|exact Rb].
    match goal with |- delivered (deliver ?s ?d) = _ => change (delivered (deliver s d)) with (delivered s ++ [d]) end.
    congruence.
Qed.

Lemma process_frame_delivered_tf s f :
  delivered (process_frame s f) = delivered s \/
  exists bf, delivered (process_frame s f) = delivered s ++ [bf] /\ b_ts bf = f_ts f /\ b_frame bf = f.
Proof.
  unfold process_frame. destruct (f_events f) as [|fe rest]; [left; reflexivity|]. cbv zeta.
  set (s1 := fold_left add_consensus_event (fe :: rest) s).
  assert (E1 : delivered s1 = delivered s) by (apply delivered_bl, add_consensus_events_bl).
  set (b := block_of_frame _ _ _).
  assert (Rb : tf b = (f_ts f, f)) by reflexivity.
  assert (C : exists bf, delivered (commit (store_set_block s1 b) b) = delivered s ++ [bf] /\ b_ts bf = f_ts f /\ b_frame bf = f).
  { destruct (commit_delivered_tf (store_set_block s1 b) b) as [bf [Hd Hr]]. exists bf.
    rewrite Hd, delivered_store, E1. split; [reflexivity|]. rewrite Rb in Hr. unfold tf in Hr. inversion Hr. auto. }
  destruct (b_txs b), (b_itxs b); auto.
Qed.

(** * The invariant *)
(* every cached frame is at or below the last consensus round and carries the median of the
   timestamps of its round's famous witnesses, as the state reports them now *)
Definition T1 (st : hg) : Prop :=
  forall rr f, zget rr (frames st) = Some f ->
    (exists l, last_consensus st = Some l /\ rr <= l) /\ f_ts f = median (fw_ts st rr).
(* a delivered block carries its frame's timestamp *)
Definition T2 (st : hg) : Prop := forall d, In d (delivered st) -> b_ts d = f_ts (b_frame d).

Lemma fw_ts_frame st st' : rounds st' = rounds st -> dag_frame st st' -> forall q, fw_ts st' q = fw_ts st q.
Proof.
  intros E F q. unfold fw_ts. rewrite (fws_rounds _ _ E). apply map_ext. apply ets_frame. exact F.
Qed.

Lemma T1_transfer st st' :
  frames st' = frames st -> last_consensus st' = last_consensus st ->
  (forall rr f, zget rr (frames st) = Some f -> fw_ts st' rr = fw_ts st rr) -> T1 st -> T1 st'.
Proof. intros Ef El Hw H rr f. rewrite Ef, El. intros Hf. rewrite (Hw rr f Hf). apply H. exact Hf. Qed.

Lemma T2_transfer st st' : delivered st' = delivered st -> T2 st -> T2 st'.
Proof. intros E H d. rewrite E. apply H. Qed.

Lemma T_fail st : T1 st -> T2 st -> T1 (fail st) /\ T2 (fail st).
Proof.
  intros H1 H2. split.
  - apply (T1_transfer st (fail st)); [destruct st; reflexivity|destruct st; reflexivity| |exact H1].
    intros rr f _. apply fw_ts_frame; [apply rounds_fail|apply fail_frame].
  - apply (T2_transfer st (fail st)); [destruct st; reflexivity|exact H2].
Qed.

Lemma process_round_T s p stop pr :
  rinvA s -> lc_lt s (fst pr) -> T1 s -> T2 s ->
  T1 (fst (fst (process_round (s, p, stop) pr))) /\ T2 (fst (fst (process_round (s, p, stop) pr))).
Proof.
  intros A Hlt H1 H2.
  destruct (process_round_spec s p stop pr A Hlt) as [_ [[Kr _] _]].
  pose proof (process_round_frame s p stop pr) as DF.
  pose proof (fw_ts_frame _ _ Kr DF) as Hw. clear Kr DF.
  revert Hw. unfold process_round.
  destruct (stop || failed s); [auto|].
  destruct (snd pr); cbn [negb]; [|auto].
  destruct (get_round s (fst pr)) as [ri0|]; [|intros _; apply T_fail; assumption].
  destruct (get_frame s (fst pr)) as [[f|] s1] eqn:Hgf.
  2:{ apply get_frame_none in Hgf. subst s1. intros _. apply T_fail; assumption. }
  cbn [fst snd]. set (r := fst pr) in *. set (s2 := process_frame s1 f). intros Hw.
  pose proof (process_frame_cv s1 f) as C2. fold s2 in C2.
  assert (Fr2 : frames s2 = frames s1) by (unfold cv in C2; inversion C2; congruence).
  assert (Lc2 : last_consensus s2 = last_consensus s1) by (unfold cv in C2; inversion C2; congruence).
  destruct (bump_keep s2 r) as [_ [Fr3 Dl3]].
  assert (Efl : (zget r (frames s) = Some f /\ frames s1 = frames s \/
                 zget r (frames s) = None /\ frames s1 = zset r f (frames s) /\ f_ts f = median (fw_ts s r)) /\
                last_consensus s1 = last_consensus s /\ delivered s1 = delivered s).
  { destruct (get_frame_shape s r f s1 Hgf) as [[Hc ->]|[Hn [-> Hts]]]; [auto|].
    split; [right; split; [exact Hn|split; [destruct s; reflexivity|exact Hts]]|split; destruct s; reflexivity]. }
  destruct Efl as [Hsh [Lc1 Dl1]].
  assert (Lc3 : last_consensus (bump_last_consensus s2 r) = Some r).
  { apply bump_lc. unfold lc_lt in *. rewrite Lc2, Lc1. exact Hlt. }
  assert (Old : forall q g, zget q (frames s) = Some g ->
            (exists l, last_consensus (bump_last_consensus s2 r) = Some l /\ q <= l) /\
            f_ts g = median (fw_ts (bump_last_consensus s2 r) q)).
  { intros q g Hq. destruct (H1 q g Hq) as [[l [Hl Hle]] Hts]. split; [|rewrite Hw; exact Hts].
    exists r. split; [exact Lc3|]. unfold lc_lt in Hlt. rewrite Hl in Hlt. lia. }
  split.
  - intros q g. rewrite Fr3, Fr2. destruct Hsh as [[Hc E1]|[Hn [E1 Hts]]]; rewrite E1.
    + apply Old.
    + rewrite zget_zset. destruct ((r =? q) && (0 <=? r)) eqn:C; [|apply Old].
      intros Hg; inversion Hg; subst g. assert (q = r) by lia. subst q.
      split; [exists r; split; [exact Lc3|lia]|rewrite Hw; exact Hts].
  - intros d. rewrite Dl3. destruct (process_frame_delivered_tf s1 f) as [E|[bf [E [Hb1 Hb2]]]]; fold s2 in E; rewrite E, Dl1.
    + apply H2.
    + intros Hin. apply in_app_or in Hin. destruct Hin as [Hin|[<-|[]]]; [apply H2; exact Hin|]. rewrite Hb2. exact Hb1.
Qed.

Lemma process_fold_T l : forall s p stop,
  rinvA s -> StronglySorted Z.lt (map fst l) -> (forall r, In r (map fst l) -> lc_lt s r) ->
  T1 s -> T2 s ->
  let res := fold_left process_round l (s, p, stop) in T1 (fst (fst res)) /\ T2 (fst (fst res)).
Proof.
  induction l as [|pr l IH]; intros s p stop A S Hab H1 H2; cbn [fold_left]; [split; assumption|].
  cbv zeta. inversion S as [|a b S' Fa]; subst.
  assert (Hpr : lc_lt s (fst pr)) by (apply Hab; left; reflexivity).
  destruct (process_round_spec s p stop pr A Hpr) as [A1 [K1 C]].
  destruct (process_round_T s p stop pr A Hpr H1 H2) as [H1' H2'].
  destruct (process_round (s, p, stop) pr) as [[s1 p1] stop1] eqn:E. cbn [fst snd] in *.
  destruct C as [[-> [Hlc Hs]]|[-> [Hd Hlc]]].
  - rewrite (process_fold_stopped l s1 p stop1 Hs). cbn [fst]. split; assumption.
  - apply IH; auto. intros r Hr. unfold lc_lt. rewrite Hlc. rewrite Forall_forall in Fa. apply Fa. exact Hr.
Qed.

Lemma process_decided_rounds_T st : rinv st -> T1 st -> T2 st ->
  T1 (process_decided_rounds st) /\ T2 (process_decided_rounds st).
Proof.
  intros [A B] H1 H2. unfold process_decided_rounds.
  pose proof (process_fold_T (pending st) st [] false A (r_sorted st A) (r_above st B) H1 H2) as G. cbv zeta in G.
  destruct (fold_left process_round (pending st) (st, [], false)) as [[s processed] stop]. cbn [fst] in G.
  destruct G as [G1 G2]. split.
  - apply (T1_transfer s); [destruct s; reflexivity|destruct s; reflexivity| |exact G1].
    intros rr f _. apply fw_ts_frame; [destruct s; reflexivity|apply dag_frame_set_pending].
  - apply (T2_transfer s); [destruct s; reflexivity|exact G2].
Qed.

(** * Whole passes *)
Record tinv (st : hg) : Prop := { t_cs : cs st; t_1 : T1 st; t_2 : T2 st }.

Lemma bview_fields st st' : bview st' = bview st ->
  frames st' = frames st /\ last_consensus st' = last_consensus st /\ delivered st' = delivered st.
Proof. unfold bview. intros H. inversion H. auto. Qed.

(* a step that keeps frames, last consensus round and deliveries, keeps the famous witnesses of
   the rounds Q (which include every round with a cached frame) and the bodies of stored events *)
Lemma tinv_keep (Q : Z -> Prop) st st' :
  fwkeep Q st st' -> bview st' = bview st ->
  (forall w, stored st w -> ets st' w = ets st w) ->
  (forall rr f, zget rr (frames st) = Some f -> Q rr) ->
  tinv st -> tinv st'.
Proof.
  intros K B He HQ [C H1 H2]. destruct (bview_fields _ _ B) as [Ef [El Ed]].
  constructor.
  - eapply fwkeep_cs; eauto.
  - apply (T1_transfer st); [exact Ef|exact El| |exact H1].
    intros rr f Hf. unfold fw_ts. rewrite (fk_fws _ _ _ K rr (HQ rr f Hf)).
    apply map_ext_in. intros w Hw. apply He. apply (C rr). apply fws_ckeys. exact Hw.
  - apply (T2_transfer st); [exact Ed|exact H2].
Qed.

Lemma tinv_keep_frame (Q : Z -> Prop) st st' :
  fwkeep Q st st' -> bview st' = bview st -> dag_frame st st' ->
  (forall rr f, zget rr (frames st) = Some f -> Q rr) -> tinv st -> tinv st'.
Proof. intros K B F HQ T. apply (tinv_keep Q st st' K B); [intros w _; apply ets_frame; exact F|exact HQ|exact T]. Qed.

Lemma process_round_rounds s p stop pr : rounds (fst (fst (process_round (s, p, stop) pr))) = rounds s.
Proof.
  unfold process_round. destruct (stop || failed s); [reflexivity|].
  destruct (negb (snd pr)); [reflexivity|].
  destruct (get_round s (fst pr)) as [ri0|]; [|apply rounds_fail].
  destruct (get_frame s (fst pr)) as [[f|] s1] eqn:H; cbn [fst snd].
  - assert (E1 : rounds s1 = rounds s).
    { destruct (get_frame_shape _ _ _ _ H) as [[_ ->]|[_ [-> _]]]; [reflexivity|destruct s; reflexivity]. }
    assert (Hr : rounds (process_frame s1 f) = rounds s1).
    { pose proof (process_frame_ov s1 f) as O. unfold ov in O. inversion O. congruence. }
    rewrite <- E1, <- Hr. unfold bump_last_consensus.
    destruct (last_consensus (process_frame s1 f)) as [l|]; [destruct (l <? fst pr)|]; try reflexivity;
      generalize (process_frame s1 f); intros s0; destruct s0; reflexivity.
  - apply get_frame_none in H. subst s1. apply rounds_fail.
Qed.

Lemma process_decided_rounds_rounds st : rounds (process_decided_rounds st) = rounds st.
Proof.
  unfold process_decided_rounds.
  assert (G : forall l s p b, rounds (fst (fst (fold_left process_round l (s, p, b)))) = rounds s).
  { induction l as [|pr l IH]; intros s p b; cbn [fold_left]; [reflexivity|].
    pose proof (process_round_rounds s p b pr) as R1.
    destruct (process_round (s, p, b) pr) as [[s1 p1] b1]. cbn [fst] in R1. rewrite IH. exact R1. }
  specialize (G (pending st) st [] false).
  destruct (fold_left process_round (pending st) (st, [], false)) as [[s processed] stop]. cbn [fst] in G.
  rewrite <- G. destruct s; reflexivity.
Qed.

Lemma run_consensus_tinv st : rtop st -> tinv st -> tinv (run_consensus st).
Proof.
  intros [Hs Hi] T. unfold run_consensus.
  destruct (failed st) eqn:Hf.
  { rewrite (divide_rounds_failed st Hf), Hf. exact T. }
  specialize (Hi eq_refl).
  pose proof (divide_rounds_rinv st (or_intror Hi)) as I1.
  assert (T1' : tinv (divide_rounds st)).
  { apply (tinv_keep_frame (fun _ => True) st); [apply divide_rounds_fwkeep|apply divide_rounds_bview|apply divide_rounds_frame|auto|exact T]. }
  destruct (failed (divide_rounds st)) eqn:Hf1; [exact T1'|].
  destruct I1 as [I1|I1]; [congruence|].
  pose proof (decide_fame_rinv _ I1) as I2.
  assert (T2' : tinv (decide_fame (divide_rounds st))).
  { apply (tinv_keep_frame (fun q => ~ In q (prounds (divide_rounds st))) (divide_rounds st));
      [apply decide_fame_fwkeep|apply decide_fame_bview|apply decide_fame_frame| |exact T1'].
    intros rr f Hfr Hin. destruct (t_1 _ T1' rr f Hfr) as [[l [Hl Hle]] _].
    pose proof (r_above _ (proj2 I1) rr Hin) as Hab. unfold lc_lt in Hab. rewrite Hl in Hab. lia. }
  destruct (failed (decide_fame (divide_rounds st))); [exact T2'|].
  assert (I3 : rinv (decide_round_received (decide_fame (divide_rounds st)))).
  { eapply rinv_rstep; [exact I2|]. apply decide_round_received_rstep. apply (rinv_bounded _ I2). }
  assert (T3' : tinv (decide_round_received (decide_fame (divide_rounds st)))).
  { apply (tinv_keep_frame (fun _ => True) (decide_fame (divide_rounds st)));
      [apply decide_round_received_fwkeep|apply decide_round_received_bview|apply decide_round_received_frame|auto|exact T2']. }
  destruct (failed (decide_round_received _)); [exact T3'|].
  set (s3 := decide_round_received (decide_fame (divide_rounds st))) in *.
  destruct (process_decided_rounds_T s3 I3 (t_1 _ T3') (t_2 _ T3')) as [G1 G2].
  constructor; [|exact G1|exact G2].
  eapply (fwkeep_cs (fun _ => True)); [|exact (t_cs _ T3')].
  apply fwkeep_frame_same; [apply process_decided_rounds_rounds|apply process_decided_rounds_frame].
Qed.

Lemma step_tinv all st e :
  ids_determine all -> In e all -> 0 <= e_id e -> ginv all st -> rtop st -> tinv st -> tinv (step st e).
Proof.
  intros ID Hin Hid G R T. destruct G as [C _ _ _]. unfold step, insert_and_run.
  pose proof (insert_event_rstep st e) as S. pose proof (insert_event_failed st e) as Ff.
  pose proof (insert_event_rounds st e) as Er. pose proof (insert_event_bview st e) as Eb.
  destruct (insert_event st e) as [r s] eqn:E. cbn [snd] in *.
  destruct (insert_event_inv st e all r s (g_dag _ _ C) (g_from _ _ C) ID Hin Hid E) as [_ [_ Hns]].
  assert (Hrej : r <> InsOk -> tinv (snd (r, s))).
  { intros Hn. rewrite (insert_reject_noop st e r s E Hn Hns). exact T. }
  destruct r; try (apply Hrej; discriminate). clear Hrej Hns. cbn [snd].
  destruct (insert_event_ok_shape st e all s (g_dag _ _ C) (g_from _ _ C) ID Hin Hid E)
    as [st2 [G2 [Hfresh [DF _]]]]. cbv zeta in G2.
  assert (Hst : forall w, stored st w -> stored s w /\ ets s w = ets st w).
  { intros w Hw. assert (Hne : (w =? e_id e) = false).
    { destruct (Z.eqb_spec w (e_id e)) as [->|]; [contradiction|reflexivity]. }
    split.
    - apply (stored_frame _ _ w DF). unfold stored. rewrite G2, Hne. exact Hw.
    - rewrite (ets_frame _ _ DF). unfold ets. rewrite G2, Hne. reflexivity. }
  assert (Ts : tinv s).
  { apply (tinv_keep (fun _ => True) st); [|exact Eb|intros w Hw; apply Hst; exact Hw|auto|exact T].
    apply fwkeep_same; [exact Er|intros w Hw; apply Hst; exact Hw]. }
  apply run_consensus_tinv; [|exact Ts]. eapply rtop_rstep; eauto.
Qed.

Lemma tinv_ext st st' :
  events st' = events st -> rounds st' = rounds st -> frames st' = frames st ->
  last_consensus st' = last_consensus st -> delivered st' = delivered st -> tinv st -> tinv st'.
Proof.
  intros Ee Er Ef El Ed [C H1 H2].
  assert (Gs : forall x, stored st' x <-> stored st x) by (intros x; unfold stored, get_event; rewrite Ee; reflexivity).
  assert (Gw : forall q, fw_ts st' q = fw_ts st q).
  { intros q. unfold fw_ts. rewrite (fws_rounds _ _ Er). apply map_ext. intros w. unfold ets, get_event. rewrite Ee. reflexivity. }
  constructor.
  - intros r x. rewrite (ckeys_rounds _ _ Er), Gs. apply C.
  - apply (T1_transfer st); auto.
  - apply (T2_transfer st); auto.
Qed.

Lemma process_sigpool_tinv st : tinv st -> tinv (process_sigpool st).
Proof.
  intros T. pose proof (process_sigpool_ov st) as O. unfold ov in O.
  assert (V : forall l st0, rv (fold_left process_sig l st0) = rv st0).
  { induction l as [|sg l IH]; intros st0; cbn [fold_left]; [reflexivity|]. rewrite IH. apply process_sig_rv. }
  specialize (V (sigpool st) st). fold (process_sigpool st) in V. unfold rv, cv in V.
  apply (tinv_ext st); [inversion O; congruence|inversion O; congruence|inversion O; congruence
                       |inversion V; congruence|inversion V; congruence|exact T].
Qed.

(** * Every reachable state *)
Lemma tinv_init self_ genesis oracle_ : tinv (init_hg self_ genesis oracle_).
Proof.
  assert (E : rv (init_hg self_ genesis oracle_) = rv (empty_hg self_)).
  { unfold init_hg. destruct (set_peerset (empty_hg self_) 0 genesis) as [st|] eqn:S; [|reflexivity].
    pose proof (cv_set_peerset _ _ _ _ S) as C. pose proof (delivered_bl _ _ (set_peerset_bl _ _ _ _ S)) as D.
    unfold rv. rewrite <- C, <- D. destruct st; reflexivity. }
  unfold rv, cv in E.
  assert (Er : rounds (init_hg self_ genesis oracle_) = zempty) by (apply (f_equal (fun t => fst (fst (fst (fst (fst (fst (fst t)))))))) in E; exact E).
  assert (Ef : frames (init_hg self_ genesis oracle_) = zempty) by (apply (f_equal (fun t => snd (fst (fst t)))) in E; exact E).
  assert (Ed : delivered (init_hg self_ genesis oracle_) = []) by (apply (f_equal snd) in E; exact E).
  constructor.
  - intros r x. unfold ckeys, get_round. rewrite Er, zget_empty. intros [].
  - intros rr f. rewrite Ef, zget_empty. discriminate.
  - intros d. rewrite Ed. intros [].
Qed.

Lemma hstep_tinv all st o :
  ids_determine all -> hop_ok all o -> ginv all st -> rtop st -> tinv st -> tinv (hstep st o).
Proof.
  intros ID Ho G R T. destruct o as [e|]; cbn [hstep].
  - destruct Ho as [Hin Hid]. apply (step_tinv all); assumption.
  - apply process_sigpool_tinv; exact T.
Qed.

Theorem hrun_tinv all self_ genesis oracle_ ops :
  ids_determine all -> Forall (hop_ok all) ops -> tinv (hrun (init_hg self_ genesis oracle_) ops).
Proof.
  intros ID H.
  assert (G : forall st, ginv all st -> rtop st -> tinv st -> tinv (hrun st ops)).
  { induction H as [|o ops Ho Hops IH]; intros st G R T; cbn [hrun fold_left]; [exact T|].
    apply IH.
    - apply (hstep_ginv all st o ID Ho G).
    - apply hstep_rtop; exact R.
    - apply (hstep_tinv all); assumption. }
  apply G; [apply ginv_init|apply rinv_rtop, rinv_init|apply tinv_init].
Qed.

(** * The theorems *)

(* the timestamp of a delivered block is the median of the timestamps of the famous witnesses of
   its round-received, read in the state at hand (at delivery or at any later time); these
   witnesses are stored events *)
Theorem block_timestamp_is_median all self_ genesis oracle_ ops d :
  ids_determine all -> Forall (hop_ok all) ops ->
  let st := hrun (init_hg self_ genesis oracle_) ops in
  In d (delivered st) ->
  b_ts d = median (map (ets st) (fws st (b_rr d))) /\
  b_ts d = f_ts (b_frame d) /\
  (forall w, In w (fws st (b_rr d)) -> exists ex, get_event st w = Some ex /\ ets st w = e_ts (ev_e ex)).
Proof.
  intros ID Hops st Hd.
  pose proof (hrun_tinv all self_ genesis oracle_ ops ID Hops) as T. fold st in T.
  pose proof (hrun_ginv all self_ genesis oracle_ ops ID Hops) as G. fold st in G.
  destruct (delivered_block_payload all st d G Hd) as [Hf _].
  destruct (t_1 _ T _ _ Hf) as [_ Hts]. pose proof (t_2 _ T d Hd) as Hb.
  split; [rewrite Hb; exact Hts|]. split; [exact Hb|].
  intros w Hw. pose proof (t_cs _ T _ _ (fws_ckeys _ _ _ Hw)) as Sw. unfold stored in Sw.
  unfold ets. destruct (get_event st w) as [ex|]; [eauto|contradiction].
Qed.

Lemma fws_round st r ri : get_round st r = Some ri -> fws st r = famous_witnesses ri.
Proof. intros H. unfold fws. rewrite H. reflexivity. Qed.

(* in a state without store error the round of a delivered block is in the round table *)
Lemma delivered_round_present all self_ genesis oracle_ ops d :
  ids_determine all -> Forall (hop_ok all) ops ->
  let st := hrun (init_hg self_ genesis oracle_) ops in
  failed st = false -> In d (delivered st) -> exists ri, get_round st (b_rr d) = Some ri.
Proof.
  intros ID Hops st Hf Hd. destruct (hrun_rtop self_ genesis oracle_ ops) as [_ Hi]. fold st in Hi.
  destruct (Hi Hf) as [A _]. destruct (r_del_lc st A d Hd) as [l [Hl Hle]].
  pose proof (r_lc st A l Hl) as Hlr.
  pose proof (hrun_ginv all self_ genesis oracle_ ops ID Hops) as G. fold st in G.
  destruct (delivered_block_payload all st d G Hd) as [Hfr _].
  pose proof (zget_some_nonneg _ _ _ Hfr) as H0.
  destruct (get_round st (b_rr d)) as [ri|] eqn:E; [eauto|]. exfalso.
  apply (proj2 (r_contig st A (b_rr d))); [lia|exact E].
Qed.

(** * Byzantine tolerance of the block timestamp *)
Lemma filter_partition_perm {A} (p : A -> bool) l :
  Permutation l (filter (fun x => negb (p x)) l ++ filter p l).
Proof.
  induction l as [|a l IH]; cbn [filter app]; [constructor|].
  destruct (p a); cbn [negb app].
  - apply Permutation_cons_app. exact IH.
  - constructor. exact IH.
Qed.

(* [is_byz] marks the Byzantine famous witnesses of the block's round (their timestamps are
   arbitrary); the others are honest.  If the Byzantine ones are fewer than half and the honest
   timestamps are in the no-wrap range, the block timestamp lies between the smallest and the
   largest honest timestamp. *)
Theorem block_timestamp_in_honest_range all self_ genesis oracle_ ops d (is_byz : Z -> bool) :
  ids_determine all -> Forall (hop_ok all) ops ->
  let st := hrun (init_hg self_ genesis oracle_) ops in
  In d (delivered st) ->
  let fw := fws st (b_rr d) in
  let hon := map (ets st) (filter (fun w => negb (is_byz w)) fw) in
  (2 * length (filter is_byz fw) < length fw)%nat ->
  (forall h, In h hon -> - 2 ^ 62 <= h <= 2 ^ 62 - 1) ->
  list_min hon <= b_ts d <= list_max hon.
Proof.
  intros ID Hops st Hd fw hon Hmaj Hrange.
  destruct (block_timestamp_is_median all self_ genesis oracle_ ops d ID Hops Hd) as [Hm _]. fold st in Hm. fold fw in Hm.
  rewrite Hm. set (byz := map (ets st) (filter is_byz fw)).
  assert (HP : Permutation (map (ets st) fw) (hon ++ byz)).
  { subst hon byz. rewrite <- map_app. apply Permutation_map. apply filter_partition_perm. }
  apply (median_bft hon byz _ HP); [|exact Hrange|].
  - pose proof (Permutation_length HP) as HL. rewrite app_length, map_length in HL.
    subst byz. rewrite map_length in *. lia.
  - intros h Hh. split; [apply list_min_le|apply list_max_ge]; exact Hh.
Qed.

(* for an odd number of famous witnesses no range premise is needed *)
Theorem block_timestamp_in_honest_range_odd all self_ genesis oracle_ ops d (is_byz : Z -> bool) m :
  ids_determine all -> Forall (hop_ok all) ops ->
  let st := hrun (init_hg self_ genesis oracle_) ops in
  In d (delivered st) ->
  let fw := fws st (b_rr d) in
  let hon := map (ets st) (filter (fun w => negb (is_byz w)) fw) in
  length fw = (2 * m + 1)%nat ->
  (2 * length (filter is_byz fw) < length fw)%nat ->
  list_min hon <= b_ts d <= list_max hon.
Proof.
  intros ID Hops st Hd fw hon Hodd Hmaj.
  destruct (block_timestamp_is_median all self_ genesis oracle_ ops d ID Hops Hd) as [Hm _]. fold st in Hm. fold fw in Hm.
  rewrite Hm. set (byz := map (ets st) (filter is_byz fw)).
  assert (HP : Permutation (map (ets st) fw) (hon ++ byz)).
  { subst hon byz. rewrite <- map_app. apply Permutation_map. apply filter_partition_perm. }
  apply (median_bft_odd hon byz _ m HP); [rewrite map_length; exact Hodd| |].
  - pose proof (Permutation_length HP) as HL. rewrite app_length, map_length in HL.
    subst byz. rewrite map_length in *. lia.
  - intros h Hh. split; [apply list_min_le|apply list_max_ge]; exact Hh.
Qed.

(* a fortiori with fewer than a third Byzantine *)
Corollary block_timestamp_in_honest_range_third all self_ genesis oracle_ ops d (is_byz : Z -> bool) :
  ids_determine all -> Forall (hop_ok all) ops ->
  let st := hrun (init_hg self_ genesis oracle_) ops in
  In d (delivered st) ->
  let fw := fws st (b_rr d) in
  let hon := map (ets st) (filter (fun w => negb (is_byz w)) fw) in
  (3 * length (filter is_byz fw) < length fw)%nat ->
  (forall h, In h hon -> - 2 ^ 62 <= h <= 2 ^ 62 - 1) ->
  list_min hon <= b_ts d <= list_max hon.
Proof.
  intros ID Hops st Hd fw hon Hthird Hrange.
  apply (block_timestamp_in_honest_range all self_ genesis oracle_ ops d is_byz ID Hops Hd); [|exact Hrange].
  fold st. fold fw. lia.
Qed.
