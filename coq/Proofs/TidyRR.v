(* Discharging the "round-received increases along the delivered blocks" hypothesis of the C09 /
   C10 lemmas (Proofs/SigProofs.v, Proofs/PeerSetProofs.v) with Proofs/RoundOrder.v, which proves
   it for every reachable state (hrun_rtop).  Nothing here changes a model; the conditional lemmas
   of SigProofs / PeerSetProofs are left as they are and instantiated. *)
From Coq Require Import ZArith List Bool Lia Sorted.
From V Require Import Model.ZMap Model.Quorum Model.HgImpl Model.PeerSetSpec
  Proofs.BlockInv Proofs.RoundOrder Proofs.PeerSetProofs Proofs.SigProofs.
Import ListNotations.
Open Scope Z_scope.

(* every reachable state, whatever the node is (bare hashgraph or core), whatever the operations *)
Lemma reach_rr_increasing self_ genesis oracle_ ops :
  rr_increasing_list (delivered (hrun (init_hg self_ genesis oracle_) ops)).
Proof. exact (proj1 (hrun_rtop self_ genesis oracle_ ops)). Qed.

(** * C09 *)

(* the signer of every recorded signature is in the set the FINAL table gives for the block's
   round-received *)
Theorem recorded_member_final self_ genesis oracle_ ops i b v o :
  self_ <> -1 ->
  zget i (blocks (hrun (init_hg self_ genesis oracle_) ops)) = Some b -> aget v (b_sigs b) = Some o ->
  exists ps, get_peerset (hrun (init_hg self_ genesis oracle_) ops) (b_rr b) = Some ps /\ mem_key v (keys ps) = true.
Proof.
  intros Hs Hb Hv.
  exact (s_members _ _ _ _ (reach_c09inv self_ genesis oracle_ ops Hs)
           (reach_rr_increasing self_ genesis oracle_ ops) i b v o Hb Hv).
Qed.

Theorem recorded_valid self_ genesis oracle_ ops i b v o :
  self_ <> -1 ->
  zget i (blocks (hrun (init_hg self_ genesis oracle_) ops)) = Some b -> aget v (b_sigs b) = Some o ->
  o = b_bodyid b /\
  NoDup (map fst (b_sigs b)) /\
  (exists k ps, In (k, ps) (peersets (hrun (init_hg self_ genesis oracle_) ops)) /\ mem_key v (keys ps) = true) /\
  (exists ps, get_peerset (hrun (init_hg self_ genesis oracle_) ops) (b_rr b) = Some ps /\ mem_key v (keys ps) = true).
Proof.
  intros Hs Hb Hv. pose proof (reach_c09inv self_ genesis oracle_ ops Hs) as I.
  split; [exact (b_valid _ (hrun_binv self_ genesis oracle_ ops) i b Hb v o Hv)|].
  split; [exact (s_nodup _ _ _ _ I i b Hb)|].
  split; [exact (s_members_some _ _ _ _ I i b v o Hb Hv)|].
  exact (recorded_member_final self_ genesis oracle_ ops i b v o Hs Hb Hv).
Qed.

Theorem anchor_trusted self_ genesis oracle_ ops a :
  self_ <> -1 -> anchor (hrun (init_hg self_ genesis oracle_) ops) = Some a ->
  exists b, zget a (blocks (hrun (init_hg self_ genesis oracle_) ops)) = Some b /\
    (exists k ps, In (k, ps) (peersets (hrun (init_hg self_ genesis oracle_) ops)) /\
                  trust_count ps < Z.of_nat (length (b_sigs b))) /\
    (exists ps, get_peerset (hrun (init_hg self_ genesis oracle_) ops) (b_rr b) = Some ps /\
                trust_count ps < Z.of_nat (length (b_sigs b))).
Proof.
  intros Hs Ha.
  destruct (s_anchor _ _ _ _ (reach_c09inv self_ genesis oracle_ ops Hs) a Ha) as [b [Hb [H1 H2]]].
  exists b. split; [exact Hb|]. split; [exact H1|].
  exact (H2 (reach_rr_increasing self_ genesis oracle_ ops)).
Qed.

Theorem anchor_third_reach self_ genesis oracle_ ops a :
  self_ <> -1 -> anchor (hrun (init_hg self_ genesis oracle_) ops) = Some a ->
  exists b ps, zget a (blocks (hrun (init_hg self_ genesis oracle_) ops)) = Some b /\
    get_peerset (hrun (init_hg self_ genesis oracle_) ops) (b_rr b) = Some ps /\
    NoDup (map fst (b_sigs b)) /\
    (forall v, In v (map fst (b_sigs b)) -> In v (keys ps) /\ aget v (b_sigs b) = Some (b_bodyid b)) /\
    3 * Z.of_nat (length (map fst (b_sigs b))) > ps_len ps.
Proof.
  intros Hs Ha.
  exact (anchor_third genesis _ _ _ a (hrun_binv self_ genesis oracle_ ops)
           (reach_c09inv self_ genesis oracle_ ops Hs) (reach_rr_increasing self_ genesis oracle_ ops) Ha).
Qed.

(** * C10 *)

(* THE STATEMENT, unconditionally: the validator set of round r is genesis modified, in block
   order, by exactly the accepted receipts of the delivered blocks with round-received + 6 <= r *)
Theorem lookup_is_effective_prefix self_ genesis oracle_ ops r :
  self_ <> -1 -> 0 <= r ->
  get_peerset (hrun (init_hg self_ genesis oracle_) ops) r =
  Some (validators_at genesis (delivered (hrun (init_hg self_ genesis oracle_) ops)) r).
Proof.
  intros Hs Hr. unfold get_peerset.
  pose proof (f_equal fst (reach_table self_ genesis oracle_ ops Hs)) as E. unfold reach in E. cbn [fst] in E. rewrite E.
  apply lookup_is_prefix_replay; [apply reach_rr_increasing| |exact Hr].
  exact (c10inv_rr_nonneg _ _ (proj2 (hrun_c10inv self_ genesis oracle_ ops Hs))).
Qed.

(* consequence: the "already in the table" branch of SetPeerSet / replay_step is dead in
   reachable states -- a block that carries an accepted receipt always records its new set: the
   table has one entry per delivered block with an accepted receipt, plus genesis *)
Lemma replay_fresh_key genesis ds d :
  rr_increasing_list (ds ++ [d]) -> 0 <= b_rr d ->
  table_has (b_rr d + 6) (fst (replay_genesis genesis ds)) = false.
Proof.
  intros S Hd. destruct (table_has (b_rr d + 6) (fst (replay_genesis genesis ds))) eqn:T; [|reflexivity]. exfalso.
  apply table_has_In in T. destruct T as [p Hp]. unfold replay_genesis in Hp.
  destruct (replay_keys _ _ _ _ _ Hp) as [[p0 [X|[]]]|[d' [A B]]].
  - inversion X. lia.
  - destruct (sorted_snoc_inv _ _ S) as [_ L]. specialize (L d' A). lia.
Qed.
