(* Generic order-independence lemma: if the step function commutes (up to a relation E) on adjacent
   incomparable elements at every state reached by a topological prefix, and E is preserved by
   steps, then folding over ANY two topological enumerations of the same set gives E-related
   results.  (Two topological orders are connected by adjacent transpositions of incomparable
   elements: the head of the target list is bubbled to the front of the source list.) *)
From Coq Require Import List Permutation Lia.
Import ListNotations.

Section TopoPerm.
  Variables (A S : Type).
  Variable step : S -> A -> S.
  Variable E : S -> S -> Prop.           (* "equivalent good states" *)
  Variable before : A -> A -> Prop.      (* before a b : a must come before b (a is an ancestor of b) *)
  Variable s0 : S.

  Definition fold (l : list A) (s : S) : S := fold_left step l s.

  (* topological enumeration: no element is followed by one of its ancestors *)
  Fixpoint topo (l : list A) : Prop :=
    match l with
    | [] => True
    | a :: r => (forall b, In b r -> ~ before b a) /\ topo r
    end.

  Hypothesis E_trans : forall x y z, E x y -> E y z -> E x z.
  Hypothesis E_step : forall s s' a, E s s' -> E (step s a) (step s' a).
  Hypothesis E_refl0 : E s0 s0.
  Hypothesis comm : forall l a b, topo (l ++ [a; b]) -> ~ before a b ->
    E (fold (l ++ [a; b]) s0) (fold (l ++ [b; a]) s0).

  Lemma fold_app l1 l2 s : fold (l1 ++ l2) s = fold l2 (fold l1 s).
  Proof. apply fold_left_app. Qed.

  Lemma E_fold l : forall s s', E s s' -> E (fold l s) (fold l s').
  Proof. induction l as [|a l IH]; intros s s' H; cbn; [exact H|]. apply IH, E_step, H. Qed.

  Lemma topo_app l1 l2 : topo (l1 ++ l2) <-> topo l1 /\ topo l2 /\ (forall a b, In a l1 -> In b l2 -> ~ before b a).
  Proof.
    induction l1 as [|x l1 IH]; cbn [app topo].
    - split; [intros H; split; [exact I|split; [exact H|intros a b []]]|intros [_ [H _]]; exact H].
    - rewrite IH. split.
      + intros [Hx [H1 [H2 H12]]]. split; [split; [intros b Hb; apply Hx, in_or_app; left; exact Hb|exact H1]|].
        split; [exact H2|]. intros a b [<-|Ha] Hb; [apply Hx, in_or_app; right; exact Hb|apply H12; auto].
      + intros [[Hx H1] [H2 H12]]. split; [|split; [exact H1|split; [exact H2|]]].
        * intros b Hb. apply in_app_or in Hb as [Hb|Hb]; [apply Hx; exact Hb|apply H12; [left; reflexivity|exact Hb]].
        * intros a b Ha Hb. apply H12; [right; exact Ha|exact Hb].
  Qed.

  (* one adjacent transposition, anywhere in the list *)
  Lemma swap_step p a b post :
    topo (p ++ a :: b :: post) -> ~ before a b ->
    E (fold (p ++ a :: b :: post) s0) (fold (p ++ b :: a :: post) s0) /\ topo (p ++ b :: a :: post).
  Proof.
    intros T Hab. split.
    - replace (p ++ a :: b :: post) with ((p ++ [a; b]) ++ post) by (rewrite <- app_assoc; reflexivity).
      replace (p ++ b :: a :: post) with ((p ++ [b; a]) ++ post) by (rewrite <- app_assoc; reflexivity).
      rewrite (fold_app (p ++ [a; b]) post), (fold_app (p ++ [b; a]) post). apply E_fold. apply comm; [|exact Hab].
      replace (p ++ a :: b :: post) with ((p ++ [a; b]) ++ post) in T by (rewrite <- app_assoc; reflexivity).
      apply topo_app in T. tauto.
    - apply topo_app in T. destruct T as [Tp [Tabp H]]. apply topo_app. split; [exact Tp|split].
      + cbn [topo] in *. destruct Tabp as [Ha [Hb Tpost]]. split; [|split; [|exact Tpost]].
        * intros x [<-|Hx]; [exact Hab|apply Hb; exact Hx].
        * intros x Hx. apply Ha. right. exact Hx.
      + intros x y Hx Hy. apply H; [exact Hx|]. destruct Hy as [<-|[<-|Hy]]; [right; left; reflexivity|left; reflexivity|right; right; exact Hy].
  Qed.

  (* bubbling an element to the front of a block of elements it is incomparable with *)
  Lemma bubble p : forall pre a post,
    topo (p ++ pre ++ a :: post) -> (forall b, In b pre -> ~ before b a) ->
    E (fold (p ++ pre ++ a :: post) s0) (fold (p ++ a :: pre ++ post) s0) /\ topo (p ++ a :: pre ++ post).
  Proof.
    intros pre. induction pre as [|b pre IH] using rev_ind; intros a post T Hinc.
    - cbn [app] in *. split; [apply E_fold, E_refl0|exact T].
    - rewrite <- app_assoc in T. cbn [app] in T.
      (* swap b and a, then continue with pre *)
      replace (p ++ pre ++ b :: a :: post) with ((p ++ pre) ++ b :: a :: post) in T by (rewrite <- app_assoc; reflexivity).
      destruct (swap_step (p ++ pre) b a post T) as [E1 T1].
      { apply Hinc. apply in_or_app. right. left. reflexivity. }
      rewrite <- !app_assoc in E1. rewrite <- !app_assoc in T1.
      destruct (IH a (b :: post) T1) as [E2 T2].
      { intros x Hx. apply Hinc. apply in_or_app. left. exact Hx. }
      split.
      + rewrite <- !app_assoc. cbn [app]. eapply E_trans; [exact E1|exact E2].
      + rewrite <- !app_assoc. cbn [app]. exact T2.
  Qed.

  Theorem topo_fold_perm : forall l2 p l1,
    Permutation l1 l2 -> topo (p ++ l1) -> topo (p ++ l2) ->
    E (fold (p ++ l1) s0) (fold (p ++ l2) s0).
  Proof.
    induction l2 as [|a l2 IH]; intros p l1 P T1 T2.
    - apply Permutation_sym, Permutation_nil in P. subst. apply E_fold, E_refl0.
    - assert (Hin : In a l1) by (apply (Permutation_in a (Permutation_sym P)); left; reflexivity).
      destruct (in_split a l1 Hin) as [pre [post ->]].
      (* a is first in the target: nothing else in the set must come before it *)
      assert (Hinc : forall b, In b pre -> ~ before b a).
      { intros b Hb. apply topo_app in T2. destruct T2 as [_ [[Ha _] _]]. apply Ha.
        assert (Hb' : In b (a :: l2)) by (apply (Permutation_in b P), in_or_app; left; exact Hb).
        destruct Hb' as [<-|Hb']; [|exact Hb'].
        (* b = a would mean a occurs twice in l1: then a is in l2 too, and Ha applies *)
        pose proof (Permutation_cons_app_inv _ _ (Permutation_sym P)) as P'.
        apply (Permutation_in a (Permutation_sym P')), in_or_app. left. exact Hb. }
      destruct (bubble p pre a post T1 Hinc) as [E1 T1'].
      eapply E_trans; [exact E1|].
      replace (p ++ a :: pre ++ post) with ((p ++ [a]) ++ pre ++ post) by (rewrite <- app_assoc; reflexivity).
      replace (p ++ a :: l2) with ((p ++ [a]) ++ l2) by (rewrite <- app_assoc; reflexivity).
      apply IH.
      + apply Permutation_sym. apply (Permutation_cons_app_inv _ _ (Permutation_sym P)).
      + rewrite <- app_assoc. exact T1'.
      + rewrite <- app_assoc. exact T2.
  Qed.
End TopoPerm.
