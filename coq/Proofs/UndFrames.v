(* Footprint: ProcessDecidedRounds and ProcessSigPool do not change the undetermined list (generated from the
   cw lemmas of CInvRun.v by substituting the projected component). *)
From Coq Require Import ZArith List Bool Lia.
From RecordUpdate Require Import RecordSet.
From V Require Import Model.ZMap Model.Quorum Model.Voting Model.HgImpl Proofs.ZMapFacts Proofs.HgFrames.
Import ListNotations RecordSetNotations.
Open Scope Z_scope.

Definition undv (st : hg) := undetermined st.

Lemma undv_store_set_block st b : undv (store_set_block st b) = undv st.
Proof. destruct st; reflexivity. Qed.
Lemma undv_deliver st b : undv (deliver st b) = undv st.
Proof. destruct st; reflexivity. Qed.
Lemma undv_set_anchor_block st b : undv (set_anchor_block st b) = undv st.
Proof.
  unfold set_anchor_block. destruct (get_peerset st (b_rr b)); [|reflexivity].
  destruct (_ && _); [destruct st|]; reflexivity.
Qed.
Lemma undv_set_peerset st r ps st' : set_peerset st r ps = Some st' -> undv st' = undv st.
Proof.
  unfold set_peerset. destruct (existsb _ _); [discriminate|]. intros H; inversion H; subst; clear H.
  set (st1 := st <| peersets := _ |>).
  assert (E1 : undv st1 = undv st) by (destruct st; reflexivity). rewrite <- E1. generalize st1. clear.
  induction ps as [|p l IH]; intros s; cbn [fold_left]; [reflexivity|]. rewrite IH.
  cbv zeta. destruct (zmem _ _); destruct s; reflexivity.
Qed.
Lemma undv_process_receipts st rr itxs : undv (process_receipts st rr itxs) = undv st.
Proof.
  unfold process_receipts.
  match goal with |- context [fold_left ?f ?l ?a] => destruct (fold_left f l a) as [vals changed] end.
  destruct changed; [|reflexivity].
  destruct (set_peerset st (rr + 6) vals) eqn:E; [|reflexivity].
  rewrite <- (undv_set_peerset _ _ _ _ E). destruct h; reflexivity.
Qed.
Lemma undv_sign_block st b bps : undv (snd (sign_block st b bps)) = undv st.
Proof. unfold sign_block. destruct (mem_key _ _); cbn [snd]; [destruct st|]; reflexivity. Qed.
Lemma undv_commit st b : undv (commit st b) = undv st.
Proof.
  unfold commit. destruct (self st =? -1); [apply undv_deliver|]. cbv zeta.
  set (st0 := st <| oracle := _ |>).
  assert (F0 : undv st0 = undv st) by (destruct st; reflexivity).
  match goal with |- context [store_set_block st0 ?b1] => set (bb := b1) end.
  pose proof (undv_store_set_block st0 bb) as F1.
  destruct (get_peerset (store_set_block st0 bb) (b_rr bb)) as [bps|].
  - pose proof (undv_sign_block (store_set_block st0 bb) bb bps) as F2.
    destruct (sign_block (store_set_block st0 bb) bb bps) as [b2 st2]. cbn [fst snd] in *.
    rewrite undv_deliver, undv_process_receipts, undv_set_anchor_block. congruence.
  - rewrite undv_deliver. congruence.
Qed.
Lemma undv_add_consensus_events l : forall s, undv (fold_left add_consensus_event l s) = undv s.
Proof. induction l as [|fe r IH]; intros s; cbn [fold_left]; [reflexivity|]. rewrite IH. destruct s; reflexivity. Qed.
Lemma undv_process_frame s f : undv (process_frame s f) = undv s.
Proof.
  unfold process_frame. destruct (f_events f) as [|fe rest] eqn:E; [reflexivity|].
  cbv zeta. set (s1 := fold_left add_consensus_event (fe :: rest) s).
  assert (F1 : undv s1 = undv s) by apply undv_add_consensus_events.
  set (b := block_of_frame _ _ _).
  destruct (b_txs b), (b_itxs b); try exact F1; rewrite undv_commit, undv_store_set_block; exact F1.
Qed.
Lemma undv_get_frame st rr : undv (snd (get_frame st rr)) = undv st.
Proof.
  unfold get_frame.
  destruct (zget rr (frames st)); [reflexivity|].
  destruct (get_round st rr); [|reflexivity].
  destruct (get_peerset st rr); [|reflexivity].
  match goal with |- context [fold_left ?f ?l ?a] => destruct (fold_left f l a) end; [|reflexivity].
  match goal with |- context [fold_left ?f (repertoire st) ?a] => destruct (fold_left f (repertoire st) a) end;
    [|reflexivity].
  cbn [snd]. destruct st; reflexivity.
Qed.
Lemma undv_bump s r : undv (bump_last_consensus s r) = undv s.
Proof.
  unfold bump_last_consensus. destruct (last_consensus s) as [l|]; [destruct (l <? r)|];
    try reflexivity; destruct s; reflexivity.
Qed.
Lemma undv_fail s : undv (fail s) = undv s.
Proof. destruct s; reflexivity. Qed.
Lemma undv_process_round s processed stop pr : undv (fst (fst (process_round (s, processed, stop) pr))) = undv s.
Proof.
  unfold process_round.
  destruct (stop || failed s); [reflexivity|].
  destruct (negb (snd pr)); [reflexivity|].
  destruct (get_round s (fst pr)); [|apply undv_fail].
  pose proof (undv_get_frame s (fst pr)) as F.
  destruct (get_frame s (fst pr)) as [[f|] s1]; cbn [fst snd] in *.
  - rewrite undv_bump, undv_process_frame. exact F.
  - rewrite undv_fail. exact F.
Qed.
Lemma undv_process_decided_rounds st : undv (process_decided_rounds st) = undv st.
Proof.
  unfold process_decided_rounds.
  assert (G : forall l s p b, undv (fst (fst (fold_left process_round l (s, p, b)))) = undv s).
  { induction l as [|pr rest IH]; intros s p b; cbn [fold_left]; [reflexivity|].
    pose proof (undv_process_round s p b pr) as F.
    destruct (process_round (s, p, b) pr) as [[s' p'] b']. cbn [fst] in F. rewrite IH. exact F. }
  specialize (G (pending st) st [] false).
  destruct (fold_left process_round (pending st) (st, [], false)) as [[s processed] stop]. cbn [fst] in G.
  rewrite <- G. destruct s; reflexivity.
Qed.
Lemma undv_process_sig st s : undv (process_sig st s) = undv st.
Proof.
  unfold process_sig.
  destruct (zget (bs_index s) (blocks st)) as [b|]; [|reflexivity].
  destruct (get_peerset st (b_rr b)); [|reflexivity].
  destruct (negb (mem_key _ _)); [reflexivity|].
  destruct (negb (_ =? _)); [reflexivity|].
  cbv zeta. set (b' := b <| b_sigs := _ |>).
  transitivity (undv (set_anchor_block (store_set_block st b') b')); [destruct (set_anchor_block _ _); reflexivity|].
  rewrite undv_set_anchor_block. apply undv_store_set_block.
Qed.
Lemma undv_process_sigpool st : undv (process_sigpool st) = undv st.
Proof.
  unfold process_sigpool. generalize (sigpool st) as l. intros l. revert st.
  induction l as [|s r IH]; intros st; cbn [fold_left]; [reflexivity|].
  rewrite IH. apply undv_process_sig.
Qed.

