(* Stage A/B(a): what is known about an event that has NOT been received.
   UN: a stored event without round-received is in the undetermined list.
   U : an undetermined event x of round r, in every reachable state (static membership): there is a
       round j0 > r whose flag is not set, and every round strictly between r and j0 is flagged
       decided and does NOT receive x (its famous witnesses do not all see x, or are too few).
   So DecideRoundReceived is complete: nothing that could be received is left behind. *)
From Coq Require Import ZArith List Bool Lia ZifyBool Permutation.
From RecordUpdate Require Import RecordSet.
From V Require Import Model.ZMap Model.Quorum Model.Voting Model.VotingRef Model.HgImpl
  Proofs.ZMapFacts Proofs.QuorumProofs Proofs.HgFrames Proofs.HgDagFrames Proofs.AdmissionProofs Proofs.Ancestry
  Proofs.BlockInv Proofs.RoundOrder Proofs.OrderFrames Proofs.OrderProofs
  Proofs.VotingProofs Proofs.FameBridge Proofs.Static Proofs.FirstDesc Proofs.FdWalk Proofs.DivInv Proofs.CInvRun
  Proofs.Height Proofs.StronglySee Proofs.RoundFun Proofs.ViewOk Proofs.SameHistory Proofs.Agreement Proofs.NoFail
  Proofs.LrFrames Proofs.FameInv Proofs.LateWitness Proofs.FamousSet Proofs.DecidedFlag Proofs.RoundReceived Proofs.UndFrames.
Import ListNotations RecordSetNotations.
Open Scope Z_scope.

(** * The stop condition of the loop *)
Definition ustop (g : peerset) (st : hg) (x : Z) : Prop :=
  exists r j0, rmemo st x = Some r /\ r < j0 /\ ~ flag st j0 /\ ~ full_dec g st j0 /\
    forall j, r < j < j0 -> flag st j /\ ~ rcond g st j x.

(* WitnessesDecided answers true on a fully decided round *)
Lemma full_dec_witnesses_decided g st i tr : good g st -> get_round st i = Some tr ->
  full_dec g st i -> fst (witnesses_decided tr g) = true.
Proof.
  intros G Hg [Hsm Hall]. unfold witnesses_decided. destruct (ri_decided tr); [reflexivity|].
  destruct (existsb _ _) eqn:Ex.
  - exfalso. apply existsb_exists in Ex. destruct Ex as [[x [w f]] [Hin Hf]]. cbn in Hf.
    destruct w; [|discriminate]. destruct f; try discriminate.
    assert (Hx : In x (wits st i)).
    { rewrite (wits_get_round st i tr Hg). unfold witnesses. apply in_map_iff. exists (x, (true, Undefined)).
      split; [reflexivity|]. apply filter_In. auto. }
    destruct (Hall x Hx) as [v [ri [Hg' Ha]]]. rewrite Hg in Hg'. inversion Hg'; subst ri.
    destruct (witness_entry g st i tr x (gd_c _ _ G) Hg ltac:(rewrite <- (wits_get_round st i tr Hg); exact Hx)) as [f Hf'].
    assert (E : aget x (ri_created tr) = Some (true, Undefined)).
    { apply ukeys_In_aget; [|exact Hin].
      pose proof (c_tabu _ _ _ (gd_c _ _ G) i) as U. unfold wl in U. rewrite Hg in U. unfold wl_of in U.
      rewrite map_map in U. cbn [fst] in U. exact U. }
    rewrite E in Ha. inversion Ha. destruct v; discriminate.
  - cbn [fst]. apply Z.leb_le. rewrite (wits_get_round st i tr Hg) in Hsm. exact Hsm.
Qed.

Lemma full_dec_no_round g st i : get_round st i = None -> ~ full_dec g st i.
Proof.
  intros Hg [Hsm _]. unfold wits, wl in Hsm. rewrite Hg in Hsm. cbn in Hsm. pose proof (super_majority_pos g). lia.
Qed.

Lemma flag_no_round st i : get_round st i = None -> ~ flag st i.
Proof. intros Hg [ri [C _]]. congruence. Qed.

(* full_dec only depends on the created lists *)
Lemma full_dec_crt g s s' j : crt s' j = crt s j -> full_dec g s j -> full_dec g s' j.
Proof.
  intros C [Hsm Hall].
  assert (W : wits s' j = wits s j).
  { unfold wits, wl, crt in *. destruct (get_round s' j) as [r'|], (get_round s j) as [r|]; cbn in C; try discriminate; [|reflexivity].
    inversion C as [E]. unfold wl_of. rewrite E. reflexivity. }
  split; [rewrite W; exact Hsm|]. intros x Hx. rewrite W in Hx. destruct (Hall x Hx) as [v Hv]. exists v.
  apply frec_crt. apply frec_crt in Hv. rewrite C. exact Hv.
Qed.

Lemma failed_fail_true s : failed (fail s) = true.
Proof. destruct s; reflexivity. Qed.

(** * The loop, when it does not receive x *)
Lemma rr_loop_stop g x r : forall n lo st,
  good g st -> lower_bound st = None -> r < lo -> get_round st (lo + Z.of_nat n) = None ->
  (forall j, r < j < lo -> flag st j /\ ~ rcond g st j x) ->
  snd (rr_loop st x (zseq lo n)) = false -> failed (fst (rr_loop st x (zseq lo n))) = false ->
  exists j0, lo <= j0 /\ ~ flag (fst (rr_loop st x (zseq lo n))) j0 /\ ~ full_dec g (fst (rr_loop st x (zseq lo n))) j0 /\
    forall j, r < j < j0 -> flag (fst (rr_loop st x (zseq lo n))) j /\ ~ rcond g (fst (rr_loop st x (zseq lo n))) j x.
Proof.
  induction n as [|n IH]; intros lo st G Hlb Hlo Hend Pre; cbn [zseq rr_loop].
  { cbn [fst snd]. intros _ _. exists lo. replace (lo + Z.of_nat 0) with lo in Hend by lia.
    split; [lia|]. split; [apply flag_no_round; exact Hend|]. split; [apply full_dec_no_round; exact Hend|exact Pre]. }
  rename lo into i.
  destruct (get_round st i) as [tr|] eqn:Hg.
  2:{ rewrite Hlb. cbn [fst snd]. intros _ _. exists i. split; [lia|]. split; [apply flag_no_round; exact Hg|].
      split; [apply full_dec_no_round; exact Hg|exact Pre]. }
  pose proof (c_static _ _ _ (gd_c _ _ G)) as Hst.
  rewrite (get_peerset_static g st i Hst).
  destruct (witnesses_decided_cases tr g) as [Hc [Hs Hn]].
  pose proof (witnesses_decided_true tr g) as Htrue.
  pose proof (full_dec_witnesses_decided g st i tr G Hg) as Hfd.
  pose proof (wl_of_witnesses_decided tr g) as Hwl.
  destruct (witnesses_decided tr g) as [d tr'] eqn:Ewd. cbn [fst snd] in *.
  set (st1 := st <| rounds := zset i tr' (rounds st) |>).
  assert (Hi : 0 <= i) by (eapply get_round_some_nonneg; eauto).
  assert (T1 : tmono st st1).
  { apply (tmono_zset st st1 i tr tr' Hg); [unfold st1; destruct st; reflexivity|exact Hs|rewrite Hc; apply ent_mono_refl]. }
  assert (C1 : forall j, crt st1 j = crt st j) by (intros j; apply (crt_set_rounds st i tr tr' j Hg Hc)).
  assert (S1 : forall w y, see st1 w y = see st w y) by (apply see_events_only; unfold st1; destruct st; reflexivity).
  assert (Hlb1 : lower_bound st1 = None) by (unfold st1; destruct st; exact Hlb).
  assert (K1 : ckeep st st1) by (apply (ckeep_set_rounds st i tr tr' Hg Hwl)).
  assert (G1 : good g st1).
  { apply (good_ckeep_events g st st1 G); try (unfold st1; destruct st; reflexivity). exact K1. }
  assert (F1 : failed st1 = failed st) by (unfold st1; destruct st; reflexivity).
  assert (Eg1 : forall r', get_round st1 r' = if i =? r' then Some tr' else get_round st r').
  { intros r'. apply (get_round_zset st st1 i tr' r' Hi). unfold st1. destruct st; reflexivity. }
  assert (Pre1 : forall j, r < j < i -> flag st1 j /\ ~ rcond g st1 j x).
  { intros j Hj. destruct (Pre j Hj) as [A B]. split; [apply (tmono_flag st st1 j T1 A)|].
    intros Hc'. apply B. apply (rcond_keep g st1 st j x); [symmetry; apply C1|intros w; symmetry; apply S1|exact Hc']. }
  assert (Hend1 : get_round st1 (i + 1 + Z.of_nat n) = None).
  { rewrite Eg1. destruct (Z.eqb_spec i (i + 1 + Z.of_nat n)); [lia|]. replace (i + 1 + Z.of_nat n) with (i + Z.of_nat (S n)) by lia. exact Hend. }
  destruct d; cbn [negb].
  - assert (Fl1 : flag st1 i) by (apply flag_zset; [exact Hi|apply Htrue; reflexivity]).
    assert (Efam : fam st1 i = famous_witnesses tr') by (apply fam_get_round; rewrite Eg1, Z.eqb_refl; reflexivity).
    match goal with |- context [fold_left ?f ?l ?a] => destruct (fold_left f l a) as [sees|] eqn:Hfold end.
    2:{ cbn [fst snd]. intros _ C. rewrite failed_fail_true in C. discriminate. }
    destruct (sees_fold_count st1 x (famous_witnesses tr') 0 sees Hfold) as [Hrange Hall].
    destruct ((sees =? Z.of_nat (length (famous_witnesses tr'))) && (super_majority g <=? sees)) eqn:Hcond.
    + destruct (get_event st1 x) as [ex|]; cbn [fst snd]; [discriminate|].
      intros _ C. rewrite failed_fail_true in C. discriminate.
    + intros Hsnd Hfl.
      destruct (IH (i + 1) st1 G1 Hlb1 ltac:(lia) Hend1) as [j0 [Hj0 R]]; [|exact Hsnd|exact Hfl|exists j0; split; [lia|exact R]].
      intros j Hj. destruct (Z.eq_dec j i) as [->|Hne]; [|apply Pre1; lia].
      split; [exact Fl1|]. intros [A B]. rewrite Efam in A, B.
      assert (E : sees = Z.of_nat (length (famous_witnesses tr'))) by (apply Hall in A; lia).
      rewrite E, Z.eqb_refl in Hcond. cbn [andb] in Hcond. lia.
  - rewrite Hlb1. cbn [fst snd]. intros _ _. exists i. split; [lia|].
    assert (Hnf : ~ full_dec g st i) by (intros D; specialize (Hfd D); discriminate).
    split; [|split; [|exact Pre1]].
    + intros [rj [Hgj Hdj]]. rewrite Eg1, Z.eqb_refl in Hgj. inversion Hgj; subst rj.
      destruct (Hn Hdj) as [Hold|[Ex Hsm]].
      * (* the flag was already set: then WitnessesDecided answers true *)
        unfold witnesses_decided in Ewd. rewrite Hold in Ewd. inversion Ewd.
      * apply Hnf. apply (full_dec_of_table g st i tr G Hg Ex Hsm).
    + intros D. apply Hnf. apply (full_dec_crt g st1 st i); [symmetry; apply C1|exact D].
Qed.

(** * Transport of the stop condition *)
Lemma ustop_keep g s s' x :
  tmono s s' -> (forall j, crt s' j = crt s j) -> (forall w, see s' w x = see s w x) -> rmemo s' x = rmemo s x ->
  (forall j, flag s' j -> flag s j \/ full_dec g s' j) ->
  ustop g s x -> ustop g s' x.
Proof.
  intros T C S M B [r [j0 [Hr [Hlt [Hnf [Hnd Hall]]]]]]. exists r, j0. rewrite M.
  assert (Hnd' : ~ full_dec g s' j0) by (intros D; apply Hnd; apply (full_dec_crt g s' s j0); [symmetry; apply C|exact D]).
  split; [exact Hr|]. split; [exact Hlt|]. split; [intros Hf; destruct (B j0 Hf); contradiction|]. split; [exact Hnd'|].
  intros j Hj. destruct (Hall j Hj) as [A N]. split; [apply (tmono_flag s s' j T A)|].
  intros Hc. apply N. apply (rcond_keep g s' s j x); [symmetry; apply C|intros w; symmetry; apply S|exact Hc].
Qed.

(** * One event *)
Lemma decide_rr_one_full g s und y : good g s -> rinv s -> failed s = false -> get_event s y <> None ->
  failed (fst (decide_rr_one (s, und) y)) = false /\
  (forall x, x <> y -> rr_of (fst (decide_rr_one (s, und) y)) x = rr_of s x) /\
  ((snd (decide_rr_one (s, und) y) = und /\ rr_of (fst (decide_rr_one (s, und) y)) y <> None) \/
   (snd (decide_rr_one (s, und) y) = und ++ [y] /\ rr_of (fst (decide_rr_one (s, und) y)) y = rr_of s y /\
    ustop g (fst (decide_rr_one (s, und) y)) y)).
Proof.
  intros G R Hf Hy.
  pose proof (decide_rr_one_nofail g s und y (gd_c _ _ G) Hf Hy) as Hf'.
  split; [exact Hf'|]. split; [apply (decide_rr_one_rr g s und y G R)|].
  revert Hf'. unfold decide_rr_one. rewrite Hf.
  pose proof (round_f_pure g (Z.to_nat (topo s)) s y (gd_c _ _ G)) as Hp. unfold fuel_of.
  destruct (round_f (S (Z.to_nat (topo s))) s y) as [[r|] s1] eqn:Erf; cbn [snd] in Hp; subst s1.
  2:{ cbn [fst]. rewrite failed_fail_true. discriminate. }
  assert (Hr : rmemo s y = Some r).
  { destruct (rmemo s y) as [r'|] eqn:E.
    - rewrite (round_f_memo_hit _ s y r' E) in Erf. inversion Erf. reflexivity.
    - exfalso. cbn [round_f] in Erf. unfold rmemo in E. rewrite E in Erf.
      destruct (get_event s y) as [ey|] eqn:Hyy; [|contradiction].
      destruct (c_all _ _ _ (gd_c _ _ G) y ey Hyy ltac:(discriminate)) as [r' [w [Hr' _]]]. unfold rmemo in Hr'. congruence. }
  (* the round of y exists, so r <= last_round *)
  assert (Hrl : 0 <= r <= last_round s).
  { destruct (get_event s y) as [ey|] eqn:Hyy; [|contradiction].
    destruct (c_all _ _ _ (gd_c _ _ G) y ey Hyy ltac:(discriminate)) as [r' [w [Hr' [Hw' _]]]].
    rewrite Hr in Hr'. inversion Hr'; subst r'.
    pose proof (c_tabc _ _ _ (gd_c _ _ G) y r w Hr Hw') as Hin.
    apply (rinv_contig _ R). intros D. unfold wl in Hin. rewrite D in Hin. destruct Hin. }
  destruct (rr_loop_spec y (zrange (r + 1) (last_round s)) s) as [Sf St].
  pose proof (rr_loop_stop g y r (Z.to_nat (last_round s - (r + 1) + 1)) (r + 1) s G (r_lb _ (proj1 R)) ltac:(lia)) as Stop.
  rewrite <- zrange_zseq in Stop.
  pose proof (rr_loop_ckeep y (zrange (r + 1) (last_round s)) s) as K.
  destruct (rr_loop s y (zrange (r + 1) (last_round s))) as [s' received]. cbn [fst snd] in *.
  intros Hf'. destruct received.
  - left. split; [reflexivity|]. destruct (St eq_refl) as [i0 [ey [Hyy [Gy _]]]].
    unfold rr_of. rewrite Gy, Z.eqb_refl. destruct ey; discriminate.
  - right. split; [reflexivity|]. pose proof (Sf eq_refl) as Ek.
    split; [unfold rr_of; rewrite (ekeep_get_event _ _ y Ek); reflexivity|].
    destruct Stop as [j0 [Hj0 [Hnf [Hnd Hall]]]]; [| |reflexivity|exact Hf'|].
    + replace (r + 1 + Z.of_nat (Z.to_nat (last_round s - (r + 1) + 1))) with (last_round s + 1) by lia.
      destruct (get_round s (last_round s + 1)) eqn:E; [|reflexivity].
      exfalso. assert (H : get_round s (last_round s + 1) <> None) by congruence. apply (rinv_contig _ R) in H. lia.
    + intros j Hj. lia.
    + exists r, j0. rewrite (ckeep_rmemo s s' y K). split; [exact Hr|]. split; [lia|auto].
Qed.

(** * The pass *)
Definition UN (st : hg) : Prop := forall x, get_event st x <> None -> rr_of st x = None -> In x (undetermined st).

Lemma ustop_same_tables g s s' x : rounds s' = rounds s -> events s' = events s -> round_memo s' = round_memo s ->
  ustop g s x -> ustop g s' x.
Proof.
  intros Ro Ev Rm. apply ustop_keep; [apply tmono_rounds; exact Ro|apply crt_events_only; exact Ro|
    intros w; apply see_events_only; exact Ev|unfold rmemo; rewrite Rm; reflexivity|].
  intros j Hf. left. revert Hf. apply flag_rounds. exact Ro.
Qed.

Lemma decide_round_received_uinv g st : good g st -> rinv st -> failed st = false -> UN st ->
  (forall x, In x (undetermined st) -> get_event st x <> None) ->
  UN (decide_round_received st) /\
  (forall x, get_event (decide_round_received st) x <> None -> rr_of (decide_round_received st) x = None ->
     ustop g (decide_round_received st) x).
Proof.
  intros G R Hf Hun Hst. unfold decide_round_received.
  assert (H : forall l s und, good g s -> rinv s -> failed s = false -> ckeep st s ->
              (forall x, In x l -> get_event st x <> None) ->
              (forall x, In x und -> rr_of s x = None -> ustop g s x) ->
              (forall x, get_event s x <> None -> rr_of s x = None -> In x (und ++ l)) ->
              failed (fst (fold_left decide_rr_one l (s, und))) = false /\
              (forall x, In x (snd (fold_left decide_rr_one l (s, und))) -> rr_of (fst (fold_left decide_rr_one l (s, und))) x = None ->
                 ustop g (fst (fold_left decide_rr_one l (s, und))) x) /\
              (forall x, get_event (fst (fold_left decide_rr_one l (s, und))) x <> None ->
                 rr_of (fst (fold_left decide_rr_one l (s, und))) x = None -> In x (snd (fold_left decide_rr_one l (s, und))))).
  { induction l as [|y l IH]; intros s und Gs Rs Fs Ks Hl A B; cbn [fold_left].
    - cbn [fst snd]. split; [exact Fs|]. split; [exact A|].
      intros x Hx Hr. specialize (B x Hx Hr). rewrite app_nil_r in B. exact B.
    - assert (Hys : get_event s y <> None).
      { pose proof (Hl y (or_introl eq_refl)) as H0. destruct (get_event st y) as [ey|] eqn:E; [|contradiction].
        destruct (ckeep_fwd _ _ _ _ Ks E) as [ey' [E' _]]. rewrite E'. discriminate. }
      destruct (decide_rr_one_full g s und y Gs Rs Fs Hys) as [F1 [Oth Cases]].
      pose proof (decide_rr_one_good g s und y Gs) as G1. pose proof (decide_rr_one_rinv s und y Rs) as R1.
      pose proof (decide_rr_one_ckeep g s und y (gd_c _ _ Gs)) as K1. pose proof (decide_rr_one_tmono s und y) as T1.
      pose proof (fun j => decide_rr_one_crt s und y j) as C1.
      pose proof (fun j => decide_rr_one_flag g s und y j Gs) as B1.
      destruct (decide_rr_one (s, und) y) as [s' und'] eqn:Ed. cbn [fst snd] in *.
      assert (Hst' : forall x, get_event s' x <> None -> get_event s x <> None).
      { intros x Hx. destruct (get_event s' x) as [ex'|] eqn:E; [|contradiction].
        destruct (ckeep_bwd _ _ _ _ K1 E) as [ex [E0 _]]. rewrite E0. discriminate. }
      assert (Keep : forall x, ustop g s x -> ustop g s' x).
      { intros x. apply (ustop_keep g s s' x T1 C1); [intros w; apply ckeep_see; exact K1|apply ckeep_rmemo; exact K1|exact B1]. }
      apply (IH s' und' G1 R1 F1 (ckeep_trans _ _ _ Ks K1)); [intros x Hx; apply Hl; right; exact Hx| |].
      + intros x Hx Hr. destruct Cases as [[Eu Hn]|[Eu [Ery Uy]]]; rewrite Eu in Hx.
        * destruct (Z.eq_dec x y) as [->|Hne]; [contradiction|].
          apply Keep, A; [exact Hx|rewrite <- (Oth x Hne); exact Hr].
        * apply in_app_or in Hx. destruct Hx as [Hx|[<-|[]]]; [|exact Uy].
          destruct (Z.eq_dec x y) as [->|Hne]; [exact Uy|]. apply Keep, A; [exact Hx|rewrite <- (Oth x Hne); exact Hr].
      + intros x Hx Hr. destruct (Z.eq_dec x y) as [->|Hne].
        * destruct Cases as [[_ Hn]|[Eu _]]; [contradiction|]. rewrite Eu. apply in_or_app. left. apply in_or_app. right. left. reflexivity.
        * rewrite (Oth x Hne) in Hr. pose proof (B x (Hst' x Hx) Hr) as Hin.
          apply in_app_or in Hin. destruct Hin as [Hin|[E|Hin]]; [|congruence|apply in_or_app; right; exact Hin].
          apply in_or_app. left. destruct Cases as [[Eu _]|[Eu _]]; rewrite Eu; [exact Hin|apply in_or_app; left; exact Hin]. }
  destruct (H (undetermined st) st [] G R Hf (ckeep_refl st) Hst ltac:(intros x []) ltac:(intros x Hx Hr; cbn [app]; apply Hun; assumption))
    as [F1 [A B]].
  destruct (fold_left decide_rr_one (undetermined st) (st, [])) as [s und]. cbn [fst snd] in *. rewrite F1.
  assert (GE : forall x, get_event (s <| undetermined := und |>) x = get_event s x) by (intros x; destruct s; reflexivity).
  split.
  - intros x Hx Hr. replace (undetermined (s <| undetermined := und |>)) with und by (destruct s; reflexivity).
    unfold rr_of in Hr. rewrite GE in Hx, Hr. apply B; assumption.
  - intros x Hx Hr. unfold rr_of in Hr. rewrite GE in Hx, Hr.
    apply (ustop_same_tables g s _ x); try (destruct s; reflexivity). apply A; [apply B; assumption|exact Hr].
Qed.

(** * Every reachable state *)
Record uinv (g : peerset) (st : hg) : Prop := {
  ui_un : UN st;
  ui_u : forall x, get_event st x <> None -> rr_of st x = None -> ustop g st x
}.

Lemma uinv_same g s s' : events s' = events s -> rounds s' = rounds s -> round_memo s' = round_memo s ->
  undetermined s' = undetermined s -> uinv g s -> uinv g s'.
Proof.
  intros Ev Ro Rm Un [A B].
  assert (GE : forall x, get_event s' x = get_event s x) by (intros x; unfold get_event; rewrite Ev; reflexivity).
  constructor.
  - intros x Hx Hr. rewrite Un. unfold rr_of in Hr. rewrite GE in Hx, Hr. apply A; assumption.
  - intros x Hx Hr. unfold rr_of in Hr. rewrite GE in Hx, Hr. apply (ustop_same_tables g s s' x Ro Ev Rm). apply B; assumption.
Qed.

Lemma hstep_uinv g all st o : ids_determine all -> no_accept all -> hop_ok all o -> nf_inv g all st ->
  uinv g st -> uinv g (hstep st o).
Proof.
  intros ID NA Ho N UI. destruct o as [e|]; cbn [hstep].
  2:{ destruct (cw_fields _ _ (cw_process_sigpool st)) as [Ev [Ro [Rm _]]].
      apply (uinv_same g st); auto. apply undv_process_sigpool. }
  destruct Ho as [Hin Hid]. unfold step, insert_and_run.
  pose proof (g_dag _ _ (gi_core _ _ (nf_g _ _ _ N))) as OK. pose proof (g_from _ _ (gi_core _ _ (nf_g _ _ _ N))) as FA.
  destruct (insert_event st e) as [r0 s] eqn:E.
  destruct (insert_event_inv st e all r0 s OK FA ID Hin Hid E) as [_ [_ Hns]].
  assert (Hrej : r0 <> InsOk -> uinv g (snd (r0, s))).
  { intros Hn. rewrite (insert_reject_noop st e r0 s E Hn Hns). exact UI. }
  destruct r0; try (apply Hrej; discriminate). clear Hrej. cbn [snd].
  destruct (insert_post_ins g all st e s ID Hin Hid N E) as [PI Hsub].
  pose proof (run_consensus_stages g all (e_id e) s NA PI) as SG. rewrite (sg_eq _ _ _ SG).
  set (s1 := divide_rounds s) in *. set (s2 := decide_fame s1) in *. set (s3 := decide_round_received s2) in *.
  pose proof (sg_g1 _ _ _ SG) as G1.
  assert (G2 : good g s2) by (apply (good_step g s1 s2 G1); [apply decide_fame_frame|apply decide_fame_ckeep]).
  destruct (insert_ok_checks st e s E) as [_ [Hsp' _]].
  pose proof (checked_fresh st e all OK FA ID Hin Hsp') as Fresh.
  destruct (insert_ok_shape st e s Fresh Hid E) as [_ [Gs [_ [Us _]]]].
  (* undetermined list and round-received of s2 *)
  assert (U2 : undetermined s2 = undetermined st ++ [e_id e]).
  { unfold s2. rewrite (o_und _ _ (decide_fame_okeep s1)). unfold s1.
    rewrite (q_und _ _ (dk_q _ _ (divide_rounds_dkeep (e_id e) s (pi_d _ _ _ _ PI)))). exact Us. }
  assert (Q2 : forall x, rr_of s2 x = rr_of s x).
  { intros x. transitivity (rr_of s1 x); [apply rr_of_qkeep, okeep_qkeep, decide_fame_okeep|].
    apply rr_of_qkeep, (dk_q _ _ (divide_rounds_dkeep (e_id e) s (pi_d _ _ _ _ PI))). }
  assert (Fr2 : dag_frame s s2) by (eapply dag_frame_trans; [apply divide_rounds_frame|apply decide_fame_frame]).
  assert (St2 : forall x, get_event s2 x <> None -> x = e_id e \/ get_event st x <> None).
  { intros x Hx. destruct (get_event s2 x) as [ex2|] eqn:E2; [|contradiction].
    destruct (proj1 (frame_get_event s s2 x Fr2) _ E2) as [exs [Es _]].
    pose proof (Gs x) as Gx. rewrite Es in Gx. destruct (Z.eqb_spec x (e_id e)) as [->|Hne]; [left; reflexivity|right].
    destruct (get_event st x); [discriminate|discriminate]. }
  assert (UN2 : UN s2).
  { intros x Hx Hr. rewrite U2. rewrite Q2 in Hr. destruct (St2 x Hx) as [->|Hx0]; [apply in_or_app; right; left; reflexivity|].
    apply in_or_app. left. apply (ui_un _ _ UI x Hx0).
    unfold rr_of in *. pose proof (Gs x) as Gx.
    destruct (Z.eqb_spec x (e_id e)) as [->|Hne]; [unfold get_event in Hx0; contradiction|].
    destruct (get_event s x) as [exs|], (get_event st x) as [ex0|]; cbn in Gx; try discriminate; try contradiction.
    unfold ev_b in Gx. inversion Gx. congruence. }
  assert (Hst2 : forall x, In x (undetermined s2) -> get_event s2 x <> None).
  { intros x Hx. rewrite U2 in Hx. apply (stored_frame s s2 x Fr2).
    apply in_app_or in Hx. destruct Hx as [Hx|[<-|[]]].
    - apply Hsub. destruct (u_ex _ (g_o _ _ (gi_core _ _ (nf_g _ _ _ N))) x Hx) as [ex Hex]. rewrite Hex. discriminate.
    - pose proof (Gs (e_id e)) as Gx. rewrite Z.eqb_refl in Gx. destruct (get_event s (e_id e)); [discriminate|discriminate]. }
  destruct (decide_round_received_uinv g s2 G2 (sg_r2 _ _ _ SG) (sg_f2 _ _ _ SG) UN2 Hst2) as [UN3 U3].
  destruct (cw_fields _ _ (cw_process_decided_rounds s3)) as [Ev [Ro [Rm _]]].
  apply (uinv_same g s3); auto; [apply undv_process_decided_rounds|constructor; assumption].
Qed.

Theorem hrun_uinv g all self_ oracle_ ops :
  ids_determine all -> no_accept all -> Forall (hop_ok all) ops -> uinv g (hrun (init_hg self_ g oracle_) ops).
Proof.
  intros ID NA H.
  assert (G : forall st, nf_inv g all st -> uinv g st -> uinv g (hrun st ops) /\ nf_inv g all (hrun st ops)).
  { induction H as [|o ops Ho Hops IH]; intros st N Ui; cbn [hrun fold_left]; [auto|].
    apply IH; [apply hstep_nf; assumption|apply (hstep_uinv g all); assumption]. }
  apply G; [apply (hrun_nf g all self_ oracle_ [] ID NA (Forall_nil _))|].
  assert (E0 : forall x, get_event (init_hg self_ g oracle_) x = None).
  { intros x. destruct (cw_fields _ _ (cw_init self_ g oracle_)) as [Ev _]. unfold get_event. rewrite Ev. cbn. apply zget_empty. }
  constructor; intros x Hx; rewrite E0 in Hx; contradiction.
Qed.
