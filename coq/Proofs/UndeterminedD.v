(* Dynamic membership (model after fix 05eda0b): what is known about an event that has NOT been received, in every
   state of a run that respects the distance bound.
   UN: a stored event without round-received is in the undetermined list.
   U : an undetermined event x of round r: there is a round j0 > r whose flag is not set, and every round strictly
       between r and j0 is flagged decided and does NOT receive x (its famous witnesses do not all see x, or are fewer
       than a super-majority of the set the table gives for that round).
   So DecideRoundReceived is complete.  Adapted from Proofs/Undetermined.v. *)
From Coq Require Import ZArith List Bool Lia ZifyBool Permutation.
From RecordUpdate Require Import RecordSet.
From V Require Import Model.ZMap Model.Quorum Model.Voting Model.VotingRef Model.HgImpl Model.PeerSetSpec Model.Window
  Proofs.ZMapFacts Proofs.QuorumProofs Proofs.HgFrames Proofs.HgDagFrames Proofs.AdmissionProofs Proofs.InsertShape Proofs.Ancestry
  Proofs.HgBlockFrames Proofs.BlockInv Proofs.RoundOrder Proofs.OrderFrames Proofs.OrderProofs
  Proofs.VotingProofs Proofs.FameBridge Proofs.Static Proofs.FirstDesc Proofs.FdWalk Proofs.DivInv Proofs.CInvRun
  Proofs.Height Proofs.StronglySee Proofs.RoundFun Proofs.ViewOk Proofs.SameHistory Proofs.Agreement Proofs.NoFail
  Proofs.LrFrames Proofs.FameInv Proofs.LateWitness Proofs.FamousSet Proofs.DecidedFlag Proofs.RoundReceived Proofs.UndFrames
  Proofs.Undetermined Proofs.PeerSetProofs Proofs.LrMono Proofs.WindowStable Proofs.GapWindow
  Proofs.FirstDescD Proofs.InsertInvD Proofs.DivInvD Proofs.CInvRunD Proofs.StronglySeeD Proofs.RoundFunD Proofs.RoundAgreeD
  Proofs.ViewOkD Proofs.SameHistoryD Proofs.AgreementD Proofs.FameInvD Proofs.LateWitnessD Proofs.FamousSetD Proofs.DecidedFlagD
  Proofs.RoundReceivedD.
Import ListNotations RecordSetNotations.
Open Scope Z_scope.

(** * The stop condition of the loop *)
Definition ustopD (P : Z -> peerset) (st : hg) (x : Z) : Prop :=
  exists r j0, rmemo st x = Some r /\ r < j0 /\ ~ flag st j0 /\ ~ full_decD (P j0) st j0 /\
    forall j, r < j < j0 -> flag st j /\ ~ rcond (P j) st j x.

Lemma full_decD_iff g st r : full_decD g st r <-> full_dec g st r.
Proof. unfold full_decD, full_dec. reflexivity. Qed.

Lemma full_dec_no_roundD g st i : get_round st i = None -> ~ full_decD g st i.
Proof. intros Hg D. apply (full_dec_no_round g st i Hg). apply full_decD_iff. exact D. Qed.

Lemma full_dec_crtD g s s' j : crt s' j = crt s j -> full_decD g s j -> full_decD g s' j.
Proof. intros C D. apply full_decD_iff. apply (full_dec_crt g s s' j C). apply full_decD_iff. exact D. Qed.

(* WitnessesDecided answers true on a fully decided round *)
Lemma full_dec_witnesses_decidedD P g st i tr : cinvD P None st -> get_round st i = Some tr ->
  full_decD g st i -> fst (witnesses_decided tr g) = true.
Proof.
  intros G Hg [Hsm Hall]. unfold witnesses_decided. destruct (ri_decided tr); [reflexivity|].
  destruct (existsb _ _) eqn:Ex.
  - exfalso. apply existsb_exists in Ex. destruct Ex as [[x [w f]] [Hin Hf]]. cbn in Hf.
    destruct w; [|discriminate]. destruct f; try discriminate.
    assert (Hx : In x (wits st i)).
    { rewrite (wits_get_round st i tr Hg). unfold witnesses. apply in_map_iff. exists (x, (true, Undefined)).
      split; [reflexivity|]. apply filter_In. auto. }
    destruct (Hall x Hx) as [v [ri [Hg' Ha]]]. rewrite Hg in Hg'. inversion Hg'; subst ri.
    assert (E : aget x (ri_created tr) = Some (true, Undefined)).
    { apply ukeys_In_aget; [|exact Hin].
      pose proof (cd_tabu _ _ _ G i) as U. unfold wl in U. rewrite Hg in U. unfold wl_of in U.
      rewrite map_map in U. cbn [fst] in U. exact U. }
    rewrite E in Ha. inversion Ha. destruct v; discriminate.
  - cbn [fst]. apply Z.leb_le. rewrite (wits_get_round st i tr Hg) in Hsm. exact Hsm.
Qed.

(** * The loop, when it does not receive x *)
Lemma rr_loop_stopD P x r : forall n lo st,
  gT P st -> lower_bound st = None -> r < lo -> get_round st (lo + Z.of_nat n) = None ->
  (forall j, r < j < lo -> flag st j /\ ~ rcond (P j) st j x) ->
  snd (rr_loop st x (zseq lo n)) = false -> failed (fst (rr_loop st x (zseq lo n))) = false ->
  exists j0, lo <= j0 /\ ~ flag (fst (rr_loop st x (zseq lo n))) j0 /\ ~ full_decD (P j0) (fst (rr_loop st x (zseq lo n))) j0 /\
    forall j, r < j < j0 -> flag (fst (rr_loop st x (zseq lo n))) j /\ ~ rcond (P j) (fst (rr_loop st x (zseq lo n))) j x.
Proof.
  induction n as [|n IH]; intros lo st G Hlb Hlo Hend Pre; cbn [zseq rr_loop].
  { cbn [fst snd]. intros _ _. exists lo. replace (lo + Z.of_nat 0) with lo in Hend by lia.
    split; [lia|]. split; [apply flag_no_round; exact Hend|]. split; [apply full_dec_no_roundD; exact Hend|exact Pre]. }
  rename lo into i.
  destruct (get_round st i) as [tr|] eqn:Hg.
  2:{ rewrite Hlb. cbn [fst snd]. intros _ _. exists i. split; [lia|]. split; [apply flag_no_round; exact Hg|].
      split; [apply full_dec_no_roundD; exact Hg|exact Pre]. }
  assert (Hrng : 0 <= i <= last_round st) by (apply (gt_c _ _ G); rewrite Hg; discriminate).
  rewrite (gt_t _ _ G i Hrng).
  destruct (witnesses_decided_cases tr (P i)) as [Hc [Hs Hn]].
  pose proof (witnesses_decided_true tr (P i)) as Htrue.
  pose proof (full_dec_witnesses_decidedD P (P i) st i tr (gt_i _ _ G) Hg) as Hfd.
  pose proof (wl_of_witnesses_decided tr (P i)) as Hwl.
  destruct (witnesses_decided tr (P i)) as [d tr'] eqn:Ewd. cbn [fst snd] in *.
  set (st1 := st <| rounds := zset i tr' (rounds st) |>).
  assert (Hi : 0 <= i) by (eapply get_round_some_nonneg; eauto).
  assert (T1 : tmono st st1).
  { apply (tmono_zset st st1 i tr tr' Hg); [unfold st1; destruct st; reflexivity|exact Hs|rewrite Hc; apply ent_mono_refl]. }
  assert (C1 : forall j, crt st1 j = crt st j) by (intros j; apply (crt_set_rounds st i tr tr' j Hg Hc)).
  assert (S1 : forall w y, see st1 w y = see st w y) by (apply see_events_only; unfold st1; destruct st; reflexivity).
  assert (Hlb1 : lower_bound st1 = None) by (unfold st1; destruct st; exact Hlb).
  assert (K1 : ckeep st st1) by (apply (ckeep_set_rounds st i tr tr' Hg Hwl)).
  assert (G1 : gT P st1).
  { apply (gT_step P st st1 G); [apply ckeep_ckeepD; exact K1|apply bview_set_rounds|unfold st1; destruct st; reflexivity]. }
  assert (F1 : failed st1 = failed st) by (unfold st1; destruct st; reflexivity).
  assert (Eg1 : forall r', get_round st1 r' = if i =? r' then Some tr' else get_round st r').
  { intros r'. apply (get_round_zset st st1 i tr' r' Hi). unfold st1. destruct st; reflexivity. }
  assert (Pre1 : forall j, r < j < i -> flag st1 j /\ ~ rcond (P j) st1 j x).
  { intros j Hj. destruct (Pre j Hj) as [A B]. split; [apply (tmono_flag st st1 j T1 A)|].
    intros Hc'. apply B. apply (rcond_keep (P j) st1 st j x); [symmetry; apply C1|intros w; symmetry; apply S1|exact Hc']. }
  assert (Hend1 : get_round st1 (i + 1 + Z.of_nat n) = None).
  { rewrite Eg1. destruct (Z.eqb_spec i (i + 1 + Z.of_nat n)); [lia|]. replace (i + 1 + Z.of_nat n) with (i + Z.of_nat (S n)) by lia. exact Hend. }
  destruct d; cbn [negb].
  - assert (Fl1 : flag st1 i) by (apply flag_zset; [exact Hi|apply Htrue; reflexivity]).
    assert (Efam : fam st1 i = famous_witnesses tr') by (apply fam_get_round; rewrite Eg1, Z.eqb_refl; reflexivity).
    match goal with |- context [fold_left ?f ?l ?a] => destruct (fold_left f l a) as [sees|] eqn:Hfold end.
    2:{ cbn [fst snd]. intros _ C. rewrite failed_fail_true in C. discriminate. }
    destruct (sees_fold_count st1 x (famous_witnesses tr') 0 sees Hfold) as [Hrange Hall].
    destruct ((sees =? Z.of_nat (length (famous_witnesses tr'))) && (super_majority (P i) <=? sees)) eqn:Hcond.
    + destruct (get_event st1 x) as [ex|]; cbn [fst snd]; [discriminate|].
      intros _ C. rewrite failed_fail_true in C. discriminate.
    + intros Hsnd Hfl.
      destruct (IH (i + 1) st1 G1 Hlb1 ltac:(lia) Hend1) as [j0 [Hj0 R]]; [|exact Hsnd|exact Hfl|exists j0; split; [lia|exact R]].
      intros j Hj. destruct (Z.eq_dec j i) as [->|Hne]; [|apply Pre1; lia].
      split; [exact Fl1|]. intros [A B]. rewrite Efam in A, B.
      assert (E : sees = Z.of_nat (length (famous_witnesses tr'))) by (apply Hall in A; lia).
      rewrite E, Z.eqb_refl in Hcond. cbn [andb] in Hcond. lia.
  - rewrite Hlb1. cbn [fst snd]. intros _ _. exists i. split; [lia|].
    assert (Hnf : ~ full_decD (P i) st i) by (intros D; specialize (Hfd D); discriminate).
    split; [|split; [|exact Pre1]].
    + intros [rj [Hgj Hdj]]. rewrite Eg1, Z.eqb_refl in Hgj. inversion Hgj; subst rj.
      destruct (Hn Hdj) as [Hold|[Ex Hsm]].
      * (* the flag was already set: then WitnessesDecided answers true *)
        unfold witnesses_decided in Ewd. rewrite Hold in Ewd. inversion Ewd.
      * apply Hnf. apply (full_dec_of_tableD P (P i) st i tr (gt_i _ _ G) Hg Ex Hsm).
    + intros D. apply Hnf. apply (full_dec_crtD (P i) st1 st i); [symmetry; apply C1|exact D].
Qed.


(** * Transport of the stop condition *)
Lemma ustop_keepD P s s' x :
  tmono s s' -> (forall j, crt s' j = crt s j) -> (forall w, see s' w x = see s w x) -> rmemo s' x = rmemo s x ->
  (forall j, flag s' j -> flag s j \/ full_decD (P j) s' j) ->
  ustopD P s x -> ustopD P s' x.
Proof.
  intros T C S M B [r [j0 [Hr [Hlt [Hnf [Hnd Hall]]]]]]. exists r, j0. rewrite M.
  assert (Hnd' : ~ full_decD (P j0) s' j0) by (intros D; apply Hnd; apply (full_dec_crtD (P j0) s' s j0); [symmetry; apply C|exact D]).
  split; [exact Hr|]. split; [exact Hlt|]. split; [intros Hf; destruct (B j0 Hf); contradiction|]. split; [exact Hnd'|].
  intros j Hj. destruct (Hall j Hj) as [A N]. split; [apply (tmono_flag s s' j T A)|].
  intros Hc. apply N. apply (rcond_keep (P j) s' s j x); [symmetry; apply C|intros w; symmetry; apply S|exact Hc].
Qed.

Lemma ckeepD_fwd0 s s' x ex : ckeepD s s' -> get_event s x = Some ex -> exists ex', get_event s' x = Some ex'.
Proof.
  intros K H0. pose proof (kd_ev _ _ K x) as E. rewrite H0 in E.
  destruct (get_event s' x) as [ex'|]; [eauto|discriminate].
Qed.
Lemma ckeepD_bwd0 s s' x ex' : ckeepD s s' -> get_event s' x = Some ex' -> exists ex, get_event s x = Some ex.
Proof. intros K. apply (ckeepD_fwd0 s' s x ex' (ckeepD_sym _ _ K)). Qed.

(** * One event *)
Lemma decide_rr_one_fullD P s und y : gT P s -> rinv s -> failed s = false -> get_event s y <> None ->
  failed (fst (decide_rr_one (s, und) y)) = false ->
  (forall x, x <> y -> rr_of (fst (decide_rr_one (s, und) y)) x = rr_of s x) /\
  ((snd (decide_rr_one (s, und) y) = und /\ rr_of (fst (decide_rr_one (s, und) y)) y <> None) \/
   (snd (decide_rr_one (s, und) y) = und ++ [y] /\ rr_of (fst (decide_rr_one (s, und) y)) y = rr_of s y /\
    ustopD P (fst (decide_rr_one (s, und) y)) y)).
Proof.
  intros G R Hf Hy Hf'.
  split; [apply (decide_rr_one_rrD P s und y G R)|].
  revert Hf'. unfold decide_rr_one. rewrite Hf.
  pose proof (round_f_pureD P (Z.to_nat (topo s)) s y (gt_i _ _ G)) as Hp. unfold fuel_of.
  destruct (round_f (S (Z.to_nat (topo s))) s y) as [[r|] s1] eqn:Erf; cbn [snd] in Hp; subst s1.
  2:{ cbn [fst]. rewrite failed_fail_true. discriminate. }
  assert (Hr : rmemo s y = Some r).
  { destruct (rmemo s y) as [r'|] eqn:E.
    - rewrite (round_f_memo_hit _ s y r' E) in Erf. inversion Erf. reflexivity.
    - exfalso. cbn [round_f] in Erf. unfold rmemo in E. rewrite E in Erf.
      destruct (get_event s y) as [ey|] eqn:Hyy; [|contradiction].
      destruct (cd_all _ _ _ (gt_i _ _ G) y ey Hyy ltac:(discriminate)) as [r' [w [Hr' _]]]. unfold rmemo in Hr'. congruence. }
  assert (Hrl : 0 <= r <= last_round s).
  { destruct (get_event s y) as [ey|] eqn:Hyy; [|contradiction].
    destruct (cd_all _ _ _ (gt_i _ _ G) y ey Hyy ltac:(discriminate)) as [r' [w [Hr' [Hw' _]]]].
    rewrite Hr in Hr'. inversion Hr'; subst r'.
    pose proof (cd_tabc _ _ _ (gt_i _ _ G) y r w Hr Hw') as Hin.
    apply (rinv_contig _ R). intros D. unfold wl in Hin. rewrite D in Hin. destruct Hin. }
  destruct (rr_loop_spec y (zrange (r + 1) (last_round s)) s) as [Sf St].
  pose proof (rr_loop_stopD P y r (Z.to_nat (last_round s - (r + 1) + 1)) (r + 1) s G (r_lb _ (proj1 R)) ltac:(lia)) as Stop.
  rewrite <- zrange_zseq in Stop.
  pose proof (rr_loop_ckeep y (zrange (r + 1) (last_round s)) s) as K.
  destruct (rr_loop s y (zrange (r + 1) (last_round s))) as [s' received]. cbn [fst snd] in *.
  intros Hf'. destruct received.
  - left. split; [reflexivity|]. destruct (St eq_refl) as [i0 [ey [Hyy [Gy _]]]].
    unfold rr_of. rewrite Gy, Z.eqb_refl. destruct ey; discriminate.
  - right. split; [reflexivity|]. pose proof (Sf eq_refl) as Ek.
    split; [unfold rr_of; rewrite (ekeep_get_event _ _ y Ek); reflexivity|].
    destruct Stop as [j0 [Hj0 [Hnf [Hnd Hall]]]]; [| |reflexivity|exact Hf'|].
    + replace (r + 1 + Z.of_nat (Z.to_nat (last_round s - (r + 1) + 1))) with (last_round s + 1) by lia.
      destruct (get_round s (last_round s + 1)) eqn:E; [|reflexivity].
      exfalso. assert (H : get_round s (last_round s + 1) <> None) by congruence. apply (rinv_contig _ R) in H. lia.
    + intros j Hj. lia.
    + exists r, j0. rewrite (ckeep_rmemo s s' y K). split; [exact Hr|]. split; [lia|auto].
Qed.

Lemma decide_rr_one_failed_stuck s und y : failed s = true -> decide_rr_one (s, und) y = (s, und).
Proof. intros Hf. unfold decide_rr_one. rewrite Hf. reflexivity. Qed.

Lemma fold_rr_failed l : forall s und, failed s = true -> failed (fst (fold_left decide_rr_one l (s, und))) = true.
Proof.
  induction l as [|y l IH]; intros s und Hf; cbn [fold_left]; [exact Hf|].
  rewrite (decide_rr_one_failed_stuck s und y Hf). apply IH. exact Hf.
Qed.

(** * The pass *)
Lemma ustop_same_tablesD P s s' x : rounds s' = rounds s -> events s' = events s -> round_memo s' = round_memo s ->
  ustopD P s x -> ustopD P s' x.
Proof.
  intros Ro Ev Rm. apply ustop_keepD; [apply tmono_rounds; exact Ro|apply crt_events_only; exact Ro|
    intros w; apply see_events_only; exact Ev|unfold rmemo; rewrite Rm; reflexivity|].
  intros j Hf. left. revert Hf. apply flag_rounds. exact Ro.
Qed.

Lemma decide_round_received_uinvD P st : gT P st -> rinv st -> failed (decide_round_received st) = false -> UN st ->
  (forall x, In x (undetermined st) -> get_event st x <> None) ->
  UN (decide_round_received st) /\
  (forall x, get_event (decide_round_received st) x <> None -> rr_of (decide_round_received st) x = None ->
     ustopD P (decide_round_received st) x).
Proof.
  intros G R Hfin Hun Hst. revert Hfin. unfold decide_round_received.
  assert (H : forall l s und, gT P s -> rinv s -> ckeepD st s ->
              failed (fst (fold_left decide_rr_one l (s, und))) = false ->
              (forall x, In x l -> get_event st x <> None) ->
              (forall x, In x und -> rr_of s x = None -> ustopD P s x) ->
              (forall x, get_event s x <> None -> rr_of s x = None -> In x (und ++ l)) ->
              (forall x, In x (snd (fold_left decide_rr_one l (s, und))) -> rr_of (fst (fold_left decide_rr_one l (s, und))) x = None ->
                 ustopD P (fst (fold_left decide_rr_one l (s, und))) x) /\
              (forall x, get_event (fst (fold_left decide_rr_one l (s, und))) x <> None ->
                 rr_of (fst (fold_left decide_rr_one l (s, und))) x = None -> In x (snd (fold_left decide_rr_one l (s, und))))).
  { induction l as [|y l IH]; intros s und Gs Rs Ks Ffin Hl A B; cbn [fold_left] in *.
    - cbn [fst snd]. split; [exact A|].
      intros x Hx Hr. specialize (B x Hx Hr). rewrite app_nil_r in B. exact B.
    - assert (Fs : failed s = false).
      { destruct (failed s) eqn:E; [|reflexivity]. rewrite (decide_rr_one_failed_stuck s und y E) in Ffin.
        rewrite (fold_rr_failed l s und E) in Ffin. discriminate. }
      assert (Hys : get_event s y <> None).
      { pose proof (Hl y (or_introl eq_refl)) as H0. destruct (get_event st y) as [ey|] eqn:E; [|contradiction].
        destruct (ckeepD_fwd0 _ _ _ _ Ks E) as [ey' E']. rewrite E'. discriminate. }
      assert (F1 : failed (fst (decide_rr_one (s, und) y)) = false).
      { destruct (failed (fst (decide_rr_one (s, und) y))) eqn:E; [|reflexivity].
        destruct (decide_rr_one (s, und) y) as [s' und'] eqn:Ed. cbn [fst] in E.
        rewrite (fold_rr_failed l s' und' E) in Ffin. discriminate. }
      destruct (decide_rr_one_fullD P s und y Gs Rs Fs Hys F1) as [Oth Cases].
      pose proof (decide_rr_one_gT P s und y Gs) as G1. pose proof (decide_rr_one_rinv s und y Rs) as R1.
      pose proof (decide_rr_one_ckeepD P s und y (gt_i _ _ Gs)) as K1. pose proof (decide_rr_one_tmono s und y) as T1.
      pose proof (fun j => decide_rr_one_crt s und y j) as C1.
      pose proof (fun j => decide_rr_one_flagD P s und y j Gs) as B1.
      destruct (decide_rr_one (s, und) y) as [s' und'] eqn:Ed. cbn [fst snd] in *.
      assert (Hst' : forall x, get_event s' x <> None -> get_event s x <> None).
      { intros x Hx. destruct (get_event s' x) as [ex'|] eqn:E; [|contradiction].
        destruct (ckeepD_bwd0 _ _ _ _ K1 E) as [ex E0]. rewrite E0. discriminate. }
      assert (Keep : forall x, ustopD P s x -> ustopD P s' x).
      { intros x. apply (ustop_keepD P s s' x T1 C1); [intros w; apply ckeepD_see; exact K1|apply ckeepD_rmemo; exact K1|exact B1]. }
      apply (IH s' und' G1 R1 (ckeepD_trans _ _ _ Ks K1) Ffin); [intros x Hx; apply Hl; right; exact Hx| |].
      + intros x Hx Hr. destruct Cases as [[Eu Hn]|[Eu [Ery Uy]]]; rewrite Eu in Hx.
        * destruct (Z.eq_dec x y) as [->|Hne]; [contradiction|].
          apply Keep, A; [exact Hx|rewrite <- (Oth x Hne); exact Hr].
        * apply in_app_or in Hx. destruct Hx as [Hx|[<-|[]]]; [|exact Uy].
          destruct (Z.eq_dec x y) as [->|Hne]; [exact Uy|]. apply Keep, A; [exact Hx|rewrite <- (Oth x Hne); exact Hr].
      + intros x Hx Hr. destruct (Z.eq_dec x y) as [->|Hne].
        * destruct Cases as [[_ Hn]|[Eu _]]; [contradiction|]. rewrite Eu. apply in_or_app. left. apply in_or_app. right. left. reflexivity.
        * rewrite (Oth x Hne) in Hr. pose proof (B x (Hst' x Hx) Hr) as Hin.
          apply in_app_or in Hin. destruct Hin as [Hin|[E|Hin]]; [|congruence|apply in_or_app; right; exact Hin].
          apply in_or_app. left. destruct Cases as [[Eu _]|[Eu _]]; rewrite Eu; [exact Hin|apply in_or_app; left; exact Hin]. }
  intros Hfin.
  assert (Ffold : failed (fst (fold_left decide_rr_one (undetermined st) (st, []))) = false).
  { destruct (fold_left decide_rr_one (undetermined st) (st, [])) as [s und]. cbn [fst] in *.
    destruct (failed s) eqn:E; [congruence|reflexivity]. }
  destruct (H (undetermined st) st [] G R (ckeepD_refl st) Ffold Hst ltac:(intros x []) ltac:(intros x Hx Hr; cbn [app]; apply Hun; assumption))
    as [A B].
  destruct (fold_left decide_rr_one (undetermined st) (st, [])) as [s und]. cbn [fst snd] in *. rewrite Ffold.
  assert (GE : forall x, get_event (s <| undetermined := und |>) x = get_event s x) by (intros x; destruct s; reflexivity).
  split.
  - intros x Hx Hr. replace (undetermined (s <| undetermined := und |>)) with und by (destruct s; reflexivity).
    unfold rr_of in Hr. rewrite GE in Hx, Hr. apply B; assumption.
  - intros x Hx Hr. unfold rr_of in Hr. rewrite GE in Hx, Hr.
    apply (ustop_same_tablesD P s _ x); try (destruct s; reflexivity). apply A; [apply B; assumption|exact Hr].
Qed.

(** * The invariant *)
Record uinvD (P : Z -> peerset) (st : hg) : Prop := {
  uD_un : UN st;
  uD_u : forall x, get_event st x <> None -> rr_of st x = None -> ustopD P st x
}.

Lemma uinv_sameD P s s' : events s' = events s -> rounds s' = rounds s -> round_memo s' = round_memo s ->
  undetermined s' = undetermined s -> uinvD P s -> uinvD P s'.
Proof.
  intros Ev Ro Rm Un [A B].
  assert (GE : forall x, get_event s' x = get_event s x) by (intros x; unfold get_event; rewrite Ev; reflexivity).
  constructor.
  - intros x Hx Hr. rewrite Un. unfold rr_of in Hr. rewrite GE in Hx, Hr. apply A; assumption.
  - intros x Hx Hr. unfold rr_of in Hr. rewrite GE in Hx, Hr. apply (ustop_same_tablesD P s s' x Ro Ev Rm). apply B; assumption.
Qed.

(** * The undetermined list is not touched before DecideRoundReceived *)
Lemma nomemo_eq_und st st' : nomemo st' = nomemo st -> undetermined st' = undetermined st.
Proof. intros H; apply (f_equal undetermined) in H; destruct st, st'; exact H. Qed.

Lemma und_divide_lt st x : undetermined (divide_lt st x) = undetermined st.
Proof.
  unfold divide_lt. pose proof (nomemo_eq_und _ _ (lamport_f_nomemo (fuel_of st) st x)) as E.
  destruct (lamport_f (fuel_of st) st x) as [[t|] s]; cbn [snd] in E.
  - unfold set_event_lt. destruct (get_event s x); [|exact E]. rewrite <- E. unfold set_evst. destruct s; reflexivity.
  - rewrite <- E. destruct s; reflexivity.
Qed.

Lemma und_divide_one st x : undetermined (divide_one st x) = undetermined st.
Proof.
  unfold divide_one. destruct (failed st); [reflexivity|].
  destruct (get_event st x) as [ev|]; [|destruct st; reflexivity]. cbv zeta.
  set (st1 := match ev_round ev with Some _ => st | None => divide_round st x end).
  assert (E1 : undetermined st1 = undetermined st).
  { subst st1. destruct (ev_round ev); [reflexivity|apply (o_und _ _ (divide_round_okeep st x))]. }
  destruct (failed st1); [exact E1|].
  destruct (get_event st1 x) as [ev1|]; [|rewrite <- E1; destruct st1; reflexivity].
  destruct (ev_lt ev1); [exact E1|]. rewrite und_divide_lt. exact E1.
Qed.

Lemma und_divide_rounds st : undetermined (divide_rounds st) = undetermined st.
Proof.
  unfold divide_rounds. generalize (undetermined st) at 1. intros l. revert st.
  induction l as [|x l IH]; intros st; cbn [fold_left]; [reflexivity|]. rewrite IH. apply und_divide_one.
Qed.

(** * One step of the node *)
Section Step.
  Variables (P : Z -> peerset) (all : list event) (st : hg) (o : hop).
  Hypothesis ID : ids_determine all.
  Hypothesis Ho : hop_ok all o.
  Hypothesis Gi : ginv all st.
  Hypothesis LA : la_ok st.
  Hypothesis R : rinv st.
  Hypothesis Hne : peersets st <> [].
  Hypothesis I : cinvD P None st.
  Hypothesis Hf' : failed (hstep st o) = false.
  Hypothesis Tq : forall q, 0 <= q <= last_round (hstep st o) -> get_peerset st q = Some (P q).

  Lemma hstep_uinvD : uinvD P st -> uinvD P (hstep st o).
  Proof.
    intros UI. revert Hf' Tq. destruct o as [e|]; cbn [hstep]; intros Hf' Tq.
    2:{ destruct (cw_fields _ _ (cw_process_sigpool st)) as [Ev [Ro [Rm _]]].
        apply (uinv_sameD P st); auto. apply undv_process_sigpool. }
    destruct Ho as [Hin Hid]. revert Hf' Tq. unfold step, insert_and_run.
    pose proof (g_dag _ _ (gi_core _ _ Gi)) as OK. pose proof (g_from _ _ (gi_core _ _ Gi)) as FA.
    pose proof (insert_event_bview st e) as Bv. pose proof (insert_event_rstep st e) as Sr.
    destruct (insert_event st e) as [r0 s] eqn:E. cbn [snd] in Bv, Sr.
    destruct (insert_event_inv st e all r0 s OK FA ID Hin Hid E) as [OK' [FA' Hns]].
    assert (Hrej : r0 <> InsOk -> uinvD P (snd (r0, s))).
    { intros Hn. rewrite (insert_reject_noop st e r0 s E Hn Hns). exact UI. }
    destruct r0; try (intros _ _; apply Hrej; discriminate). clear Hrej. cbn [snd]. intros Hf' Tq.
    destruct (insert_cinvD P all st e s OK LA FA ID Hin Hid I E) as [Is Hund].
    assert (Rs' : rinv s) by (apply (rinv_rstep st s R Sr)).
    assert (Hnes : peersets s <> []) by (rewrite (bview_peersets _ _ Bv); exact Hne).
    assert (Hpss : forall q, 0 <= q <= last_round (run_consensus s) -> get_peerset s q = Some (P q))
      by (intros q Hq; rewrite (get_peerset_bview _ _ q Bv); apply Tq; exact Hq).
    destruct (run_consensus_stagesD P s (e_id e) OK' Rs' Hnes Hpss Is Hund Hf') as [Hf1 [Hf2 [Hf3 [Eq [I1 [I2 [I3 [R1 R2]]]]]]]].
    cbv zeta in *. rewrite Eq in *.
    set (s1 := divide_rounds s) in *. set (s2 := decide_fame s1) in *. set (s3 := decide_round_received s2) in *.
    assert (L2 : last_round s2 = last_round s1)
      by (apply (fk_lr _ _ (proj1 (decide_fame_fkeep s1 (rinv_contig _ R1))))).
    assert (L3 : last_round s3 = last_round s2)
      by (apply (s_lr _ _ (decide_round_received_rstep s2 (proj1 (rinv_bounded _ R2))))).
    pose proof (lrv_process_decided_rounds s3) as L4. unfold LrFrames.lrv in L4.
    assert (G2 : gT P s2).
    { constructor; [exact I2|apply rinv_contig; exact R2|apply (r_lr _ (proj1 R2))|].
      intros q Hq. unfold s2, s1. rewrite (get_peerset_bview _ _ q (decide_fame_bview _)).
      rewrite (get_peerset_bview _ _ q (divide_rounds_bview _)). apply Hpss. fold s1 s2 in Hq. lia. }
    destruct (insert_ok_checks st e s E) as [_ [Hsp' _]].
    pose proof (checked_fresh st e all OK FA ID Hin Hsp') as Fresh.
    destruct (insert_ok_shape st e s Fresh Hid E) as [_ [Gs [_ [Us _]]]].
    assert (U2 : undetermined s2 = undetermined st ++ [e_id e]).
    { unfold s2. rewrite (o_und _ _ (decide_fame_okeep s1)). unfold s1. rewrite und_divide_rounds. exact Us. }
    assert (Q2 : forall x, rr_of s2 x = rr_of s x).
    { intros x. transitivity (rr_of s1 x); [apply rr_of_okeep, decide_fame_okeep|apply rr_of_divide_rounds]. }
    assert (Fr2 : dag_frame s s2) by (eapply dag_frame_trans; [apply divide_rounds_frame|apply decide_fame_frame]).
    assert (St2 : forall x, get_event s2 x <> None -> x = e_id e \/ get_event st x <> None).
    { intros x Hx. destruct (get_event s2 x) as [ex2|] eqn:E2; [|contradiction].
      destruct (proj1 (frame_get_event s s2 x Fr2) _ E2) as [exs [Es _]].
      pose proof (Gs x) as Gx. rewrite Es in Gx. destruct (Z.eqb_spec x (e_id e)) as [->|Hne']; [left; reflexivity|right].
      destruct (get_event st x); [discriminate|discriminate]. }
    assert (Hsub : forall x, get_event st x <> None -> get_event s x <> None).
    { intros x Hx. pose proof (Gs x) as Gx. destruct (Z.eqb_spec x (e_id e)) as [->|Hne'].
      - destruct (get_event s (e_id e)); [discriminate|discriminate].
      - destruct (get_event st x); [|contradiction]. destruct (get_event s x); [discriminate|discriminate]. }
    assert (UN2 : UN s2).
    { intros x Hx Hr. rewrite U2. rewrite Q2 in Hr. destruct (St2 x Hx) as [->|Hx0]; [apply in_or_app; right; left; reflexivity|].
      apply in_or_app. left. apply (uD_un _ _ UI x Hx0).
      unfold rr_of in *. pose proof (Gs x) as Gx.
      destruct (Z.eqb_spec x (e_id e)) as [->|Hne']; [rewrite Fresh in Hx0; contradiction|].
      destruct (get_event s x) as [exs|], (get_event st x) as [ex0|]; cbn in Gx; try discriminate; try contradiction.
      unfold ev_b in Gx. inversion Gx. congruence. }
    assert (Hst2 : forall x, In x (undetermined s2) -> get_event s2 x <> None).
    { intros x Hx. rewrite U2 in Hx. apply (NoFail.stored_frame s s2 x Fr2).
      apply in_app_or in Hx. destruct Hx as [Hx|[<-|[]]].
      - apply Hsub. destruct (u_ex _ (g_o _ _ (gi_core _ _ Gi)) x Hx) as [ex Hex]. rewrite Hex. discriminate.
      - pose proof (Gs (e_id e)) as Gx. rewrite Z.eqb_refl in Gx. destruct (get_event s (e_id e)); [discriminate|discriminate]. }
    destruct (decide_round_received_uinvD P s2 G2 R2 Hf3 UN2 Hst2) as [UN3 U3].
    destruct (cw_fields _ _ (cw_process_decided_rounds s3)) as [Ev [Ro [Rm _]]].
    apply (uinv_sameD P s3); auto; [apply undv_process_decided_rounds|constructor; assumption].
  Qed.
End Step.

(** * Every state of a run that respects the distance bound *)
Section RunD.
  Variables (self_ : Z) (genesis : peerset) (oracle_ : list Z) (all : list event) (ops : list hop).
  Hypothesis Hs : self_ <> -1.
  Hypothesis ID : ids_determine all.
  Hypothesis H : Forall (hop_ok all) ops.
  Hypothesis Hg : gap_runb (init_hg self_ genesis oracle_) ops = true.
  Variable P : Z -> peerset.
  Hypothesis HP : forall q, 0 <= q <= last_round (hrun (init_hg self_ genesis oracle_) ops) ->
    P q = psat (hrun (init_hg self_ genesis oracle_) ops) q.

  Theorem uinv_preD k : failed (hrun (init_hg self_ genesis oracle_) (firstn k ops)) = false ->
    uinvD P (hrun (init_hg self_ genesis oracle_) (firstn k ops)).
  Proof.
    induction k as [|k IH]; intros Hf.
    - cbn [firstn hrun fold_left].
      assert (E0 : forall x, get_event (init_hg self_ genesis oracle_) x = None).
      { intros x. destruct (cw_fields _ _ (cw_init self_ genesis oracle_)) as [Ev _]. unfold get_event. rewrite Ev. cbn. apply zget_empty. }
      constructor; intros x Hx; rewrite E0 in Hx; contradiction.
    - destruct (Nat.lt_ge_cases k (length ops)) as [Hk|Hk].
      2:{ assert (E : firstn (S k) ops = firstn k ops) by (rewrite !firstn_all2 by lia; reflexivity).
          rewrite E in *. apply IH; assumption. }
      destruct (pre_step self_ genesis oracle_ all ops Hs H Hg P HP k Hk Hf) as [o [Ho [ES [Hfk Tq]]]].
      destruct (pre_facts self_ genesis oracle_ all ops Hs ID H Hg P HP k Hfk) as [Gi [LA [R [Hne [I G]]]]].
      rewrite ES in Hf |- *.
      apply (hstep_uinvD P all _ o ID Ho Gi LA R Hne I Hf Tq). apply IH. exact Hfk.
  Qed.
End RunD.

(* in the final state, with the node's own table *)
Theorem hrun_uinvD self_ genesis oracle_ all ops :
  self_ <> -1 -> ids_determine all -> Forall (hop_ok all) ops ->
  gap_runb (init_hg self_ genesis oracle_) ops = true ->
  failed (hrun (init_hg self_ genesis oracle_) ops) = false ->
  uinvD (psat (hrun (init_hg self_ genesis oracle_) ops)) (hrun (init_hg self_ genesis oracle_) ops).
Proof.
  intros Hs ID H Hg Hf.
  pose proof (uinv_preD self_ genesis oracle_ all ops Hs ID H Hg _ (fun q _ => eq_refl) (length ops)) as Q.
  rewrite firstn_all in Q. exact (Q Hf).
Qed.
