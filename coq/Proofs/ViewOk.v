(* Stage S3: in every state satisfying the coordinate invariant and the round-table invariant,
   the store lookups made by DecideFame form a well-formed view of the voting ([view_ok]). *)
From Coq Require Import ZArith List Bool Lia ZifyBool Permutation.
From RecordUpdate Require Import RecordSet.
From V Require Import Model.ZMap Model.Quorum Model.Voting Model.VotingRef Model.HgImpl
  Proofs.ZMapFacts Proofs.QuorumProofs Proofs.AdmissionProofs Proofs.Ancestry Proofs.BlockInv Proofs.RoundOrder
  Proofs.VotingProofs Proofs.FameBridge Proofs.Static Proofs.FirstDesc Proofs.DivInv Proofs.Height
  Proofs.StronglySee.
Import ListNotations RecordSetNotations.
Open Scope Z_scope.

Lemma NoDup_map_inj_in {A B} (f : A -> B) l :
  NoDup l -> (forall a b, In a l -> In b l -> f a = f b -> a = b) -> NoDup (map f l).
Proof.
  induction l as [|a l IH]; intros N H; cbn [map]; [constructor|].
  inversion N as [|? ? Hn Nl]; subst. constructor.
  - intros C. apply in_map_iff in C. destruct C as [b [E Hb]].
    assert (b = a) by (apply H; [right; exact Hb|left; reflexivity|exact E]). subst b. contradiction.
  - apply IH; [exact Nl|]. intros x y Hx Hy. apply H; right; assumption.
Qed.

(* the parameters of the voting loop with an arbitrary first-round vote; vparams_of st x is the instance
   "y sees x" *)
Definition vparams_with (st : hg) (sees : Z -> option bool) : vparams :=
  mkVP sees
       (fun j => match get_round st (j - 1) with Some ri => Some (witnesses ri) | None => None end)
       (fun j y w => match get_peerset st (j - 1) with
                     | Some pps => strongly_see st y w pps
                     | None => None end)
       (fun j => match get_peerset st (j - 1) with Some ps => Some (super_majority ps) | None => None end)
       (coin_of st).

Lemma vparams_of_with st x : vparams_of st x = vparams_with st (fun y => see st y x).
Proof. reflexivity. Qed.

(* the rounds present in the table are exactly 0 .. last_round *)
Definition contig (st : hg) : Prop := forall r, get_round st r <> None <-> 0 <= r <= last_round st.

Lemma rinv_contig st : rinv st -> contig st.
Proof. intros R r. apply (r_contig st (proj1 R)). Qed.

Section View.
  Variables (g : peerset) (st : hg).
  Hypothesis G : good g st.
  Hypothesis R : contig st.
  Let I := gd_c _ _ G.
  Let S : static g st := c_static _ _ _ I.

  Definition crt (w : Z) : Z := match get_event st w with Some e => e_creator (ev_e e) | None => -1 end.

  Lemma view_witnesses_wits j : view_witnesses st j = wits st j.
  Proof.
    unfold view_witnesses, round_witnesses. rewrite (get_peerset_static g st j S).
    destruct (get_round st j) as [ri|] eqn:E; [symmetry; apply wits_get_round; exact E|].
    unfold wits, wl. rewrite E. reflexivity.
  Qed.

  Lemma round_witnesses_some j : 0 <= j <= last_round st -> round_witnesses st j <> None.
  Proof.
    intros Hj. unfold round_witnesses. rewrite (get_peerset_static g st j S).
    pose proof (proj2 (R j) Hj) as Hg. destruct (get_round st j); [discriminate|contradiction].
  Qed.

  (* the witnesses of a round have distinct creators, all validators *)
  Lemma wits_length j : Z.of_nat (length (wits st j)) <= ps_len g.
  Proof.
    unfold ps_len. apply inj_le. rewrite <- (map_length crt).
    apply NoDup_incl_length.
    - apply NoDup_map_inj_in; [apply (wits_nodup g st G)|].
      intros a b Ha Hb Hc.
      apply (wits_spec g st G) in Ha. apply (wits_spec g st G) in Hb.
      destruct Ha as [Hra Hwa]. destruct Hb as [Hrb Hwb].
      destruct (c_rdom _ _ _ I a j Hra) as [_ [ea [Hea _]]].
      destruct (c_rdom _ _ _ I b j Hrb) as [_ [eb [Heb _]]].
      unfold crt in Hc. rewrite Hea, Heb in Hc.
      apply (wit_unique g st G a b ea eb j Hea Heb Hc Hwa Hwb Hra Hrb).
    - intros c Hc. apply in_map_iff in Hc. destruct Hc as [w [E Hw]].
      apply (wits_spec g st G) in Hw. destruct Hw as [_ Hw].
      destruct (witness_true g st G w Hw) as [ew [r [spr [Hew [_ [_ [_ Hm]]]]]]].
      unfold crt in E. rewrite Hew in E. subst c. apply dedup_In. apply mem_key_In. exact Hm.
  Qed.

  Lemma ssb_ss_true_with sees j y w : ssb (vparams_with st sees) j y w = ss_true g st y w.
  Proof.
    unfold ssb, vparams_with, ss_true. cbn [vp_ss]. rewrite (get_peerset_static g st (j - 1) S).
    destruct (strongly_see st y w g) as [[|]|]; reflexivity.
  Qed.

  Lemma ssb_ss_true x j y w : ssb (vparams_of st x) j y w = ss_true g st y w.
  Proof.
    unfold ssb, vparams_of, ss_true. cbn [vp_ss]. rewrite (get_peerset_static g st (j - 1) S).
    destruct (strongly_see st y w g) as [[|]|]; reflexivity.
  Qed.

  Theorem view_ok_reach_gen sees r :
    1 <= ps_len g -> -1 <= r <= last_round st ->
    (forall y, In y (wits st (r + 1)) -> sees y <> None) ->
    view_ok (ps_len g) r (vparams_with st sees) (view_witnesses st) (last_round st).
  Proof.
    intros Hn Hr Hsees. apply view_ok_intro; [exact Hn|lia| | | | | | |].
    - intros j Hj. rewrite view_witnesses_wits. split; [apply (wits_nodup g st G)|apply wits_length].
    - intros j j' y Hj Hj'. rewrite !view_witnesses_wits. intros H1 H2.
      apply (wits_spec g st G) in H1. apply (wits_spec g st G) in H2. destruct H1 as [H1 _], H2 as [H2 _]. congruence.
    - intros j Hj. unfold vparams_with. cbn [vp_sm]. rewrite (get_peerset_static g st (j - 1) S). reflexivity.
    - intros j Hj. unfold vparams_with. cbn [vp_prev]. rewrite view_witnesses_wits.
      assert (Hg : get_round st (j - 1) <> None) by (apply R; lia).
      destruct (get_round st (j - 1)) as [ri|] eqn:E; [|contradiction].
      rewrite (wits_get_round st _ ri E). reflexivity.
    - intros j y w Hj. rewrite !view_witnesses_wits. intros Hy Hw.
      destruct (wits_stored g st G _ y Hy) as [ey Hey]. destruct (wits_stored g st G _ w Hw) as [ew Hew].
      unfold vparams_with. cbn [vp_ss]. rewrite (get_peerset_static g st (j - 1) S).
      unfold strongly_see. rewrite Hey, Hew. discriminate.
    - intros j y Hj. rewrite view_witnesses_wits. intros Hy. unfold ssset. rewrite view_witnesses_wits.
      apply (wits_spec g st G) in Hy. destruct Hy as [Hry _].
      destruct (c_rdom _ _ _ I y j Hry) as [_ [ey [Hey _]]].
      rewrite (filter_ext _ _ (ssb_ss_true_with sees j y)).
      apply (quorum g st G y ey j Hey Hry). lia.
    - intros y. rewrite view_witnesses_wits. intros Hy. cbn [vparams_with vp_sees]. apply Hsees. exact Hy.
  Qed.

  Theorem view_ok_reach x r ex :
    1 <= ps_len g -> -1 <= r <= last_round st -> get_event st x = Some ex ->
    view_ok (ps_len g) r (vparams_of st x) (view_witnesses st) (last_round st).
  Proof.
    intros Hn Hr Hx. rewrite vparams_of_with. apply view_ok_reach_gen; [exact Hn|exact Hr|].
    intros y Hy. destruct (wits_stored g st G _ y Hy) as [ey Hey].
    unfold see, ancestor. destruct (y =? x); [discriminate|]. rewrite Hey, Hx. discriminate.
  Qed.
End View.
