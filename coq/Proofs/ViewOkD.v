(* Dynamic membership: in every state satisfying the division invariant [cinvD P] whose table answers P q for
   every round q it has, the store lookups made by DecideFame (with the quorum of fix 05eda0b: the
   super-majority of the voters' set) form a well-formed view of the voting with per-round sizes [view_okD].
   Adapted from Proofs/ViewOk.v. *)
From Coq Require Import ZArith List Bool Lia ZifyBool Permutation.
From RecordUpdate Require Import RecordSet.
From V Require Import Model.ZMap Model.Quorum Model.Voting Model.VotingRef Model.VotingRefD Model.HgImpl
  Proofs.ZMapFacts Proofs.QuorumProofs Proofs.AdmissionProofs Proofs.Ancestry Proofs.BlockInv Proofs.RoundOrder
  Proofs.VotingProofs Proofs.VotingProofsD Proofs.FameBridge Proofs.Static Proofs.FirstDesc Proofs.DivInv Proofs.Height
  Proofs.StronglySee Proofs.ViewOk Proofs.FirstDescD Proofs.StronglySeeD.
Import ListNotations RecordSetNotations.
Open Scope Z_scope.

Lemma view_okD_intro n r P W J :
  (forall j, 0 <= n j) -> r <= J ->
  (forall j, r + 1 <= j <= J -> NoDup (W j) /\ Z.of_nat (length (W j)) <= n j) ->
  (forall j j' y, r + 1 <= j <= J -> r + 1 <= j' <= J -> In y (W j) -> In y (W j') -> j = j') ->
  (forall j, r + 2 <= j <= J -> vp_sm P j = Some (smd n j)) ->
  (forall j, r + 2 <= j <= J -> vp_prev P j = Some (W (j - 1))) ->
  (forall j y w, r + 2 <= j <= J -> In y (W j) -> In w (W (j - 1)) -> vp_ss P j y w <> None) ->
  (forall j y, r + 2 <= j <= J -> In y (W j) -> smd n j <= Z.of_nat (length (ssset P W j y))) ->
  (forall y, In y (W (r + 1)) -> vp_sees P y <> None) ->
  view_okD n r P W J.
Proof.
  intros H1 H2 H3 H4 H5 H6 H7 H8 H9. constructor; auto.
  - intros j Hj; apply H3; exact Hj.
  - intros j Hj; apply H3; exact Hj.
  - intros j Hj. exists (W (j - 1)). split; [apply H6; exact Hj|apply Permutation_refl].
Qed.

Section ViewD.
  Variables (P : Z -> peerset) (st : hg).
  Hypothesis G : goodD P st.
  Hypothesis R : contig st.
  (* the table of st answers P on the rounds st has *)
  Hypothesis T : forall q, 0 <= q <= last_round st -> get_peerset st q = Some (P q).
  Let I := gD_c _ _ G.

  Definition nD (q : Z) : Z := ps_len (P q).

  Lemma view_witnesses_witsD j : 0 <= j <= last_round st -> view_witnesses st j = wits st j.
  Proof.
    intros Hj. unfold view_witnesses, round_witnesses. rewrite (T j Hj).
    destruct (get_round st j) as [ri|] eqn:E; [symmetry; apply wits_get_round; exact E|].
    unfold wits, wl. rewrite E. reflexivity.
  Qed.

  Lemma view_witnesses_beyondD j : last_round st < j -> view_witnesses st j = [].
  Proof.
    intros Hj. unfold view_witnesses, round_witnesses.
    destruct (get_round st j) as [ri|] eqn:E; [|reflexivity].
    exfalso. assert (Hg : get_round st j <> None) by (rewrite E; discriminate). apply R in Hg. lia.
  Qed.

  Lemma round_witnesses_someD j : 0 <= j <= last_round st -> round_witnesses st j <> None.
  Proof.
    intros Hj. unfold round_witnesses. rewrite (T j Hj).
    pose proof (proj2 (R j) Hj) as Hg. destruct (get_round st j); [discriminate|contradiction].
  Qed.

  (* the witnesses of a round have distinct creators, all members of the set of that round *)
  Lemma wits_lengthD j : Z.of_nat (length (wits st j)) <= nD j.
  Proof.
    unfold nD, ps_len. apply inj_le. rewrite <- (map_length (crt st)).
    apply NoDup_incl_length.
    - apply NoDup_map_inj_in; [apply (wits_nodupD P st G)|].
      intros a b Ha Hb Hc.
      apply (wits_specD P st G) in Ha. apply (wits_specD P st G) in Hb.
      destruct Ha as [Hra Hwa]. destruct Hb as [Hrb Hwb].
      destruct (cd_rdom _ _ _ I a j Hra) as [_ [ea [Hea _]]].
      destruct (cd_rdom _ _ _ I b j Hrb) as [_ [eb [Heb _]]].
      unfold crt in Hc. rewrite Hea, Heb in Hc.
      apply (wit_uniqueD P st G a b ea eb j Hea Heb Hc Hwa Hwb Hra Hrb).
    - intros c Hc. apply in_map_iff in Hc. destruct Hc as [w [E Hw]].
      apply (wits_specD P st G) in Hw. destruct Hw as [Hrw Hw].
      destruct (witness_trueD P st G w Hw) as [ew [r' [spr [Hew [Hr' [_ [_ Hm]]]]]]].
      rewrite Hrw in Hr'. inversion Hr'; subst r'.
      unfold crt in E. rewrite Hew in E. subst c. apply dedup_In. apply mem_key_In. exact Hm.
  Qed.

  Lemma ssb_ss_true_withD sees j y w : 1 <= j <= last_round st + 1 ->
    ssb (vparams_with st sees) j y w = ss_true (P (j - 1)) st y w.
  Proof.
    intros Hj. unfold ssb, vparams_with, ss_true. cbn [vp_ss]. rewrite (T (j - 1)) by lia.
    destruct (strongly_see st y w (P (j - 1))) as [[|]|]; reflexivity.
  Qed.

  Theorem view_ok_reach_genD sees r :
    -1 <= r <= last_round st ->
    (forall y, In y (wits st (r + 1)) -> sees y <> None) ->
    view_okD nD r (vparams_with st sees) (view_witnesses st) (last_round st).
  Proof.
    intros Hr Hsees. apply view_okD_intro; [intros j; unfold nD, ps_len; lia|lia| | | | | | |].
    - intros j Hj. rewrite view_witnesses_witsD by lia. split; [apply (wits_nodupD P st G)|apply wits_lengthD].
    - intros j j' y Hj Hj'. rewrite !view_witnesses_witsD by lia. intros H1 H2.
      apply (wits_specD P st G) in H1. apply (wits_specD P st G) in H2. destruct H1 as [H1 _], H2 as [H2 _]. congruence.
    - intros j Hj. unfold vparams_with. cbn [vp_sm]. rewrite (T (j - 1)) by lia. reflexivity.
    - intros j Hj. unfold vparams_with. cbn [vp_prev]. rewrite view_witnesses_witsD by lia.
      assert (Hg : get_round st (j - 1) <> None) by (apply R; lia).
      destruct (get_round st (j - 1)) as [ri|] eqn:E; [|contradiction].
      rewrite (wits_get_round st _ ri E). reflexivity.
    - intros j y w Hj. rewrite !view_witnesses_witsD by lia. intros Hy Hw.
      destruct (wits_storedD P st G _ y Hy) as [ey Hey]. destruct (wits_storedD P st G _ w Hw) as [ew Hew].
      unfold vparams_with. cbn [vp_ss]. rewrite (T (j - 1)) by lia.
      unfold strongly_see. rewrite Hey, Hew. discriminate.
    - intros j y Hj. rewrite view_witnesses_witsD by lia. intros Hy. unfold ssset. rewrite view_witnesses_witsD by lia.
      apply (wits_specD P st G) in Hy. destruct Hy as [Hry _].
      destruct (cd_rdom _ _ _ I y j Hry) as [_ [ey [Hey _]]].
      rewrite (filter_ext _ _ (fun w => ssb_ss_true_withD sees j y w ltac:(lia))).
      unfold smd, nD. apply (quorumD P st G y ey j Hey Hry). lia.
    - intros y. destruct (Z_le_gt_dec (r + 1) (last_round st)) as [Hle|Hgt].
      + rewrite view_witnesses_witsD by lia. intros Hy. cbn [vparams_with vp_sees]. apply Hsees. exact Hy.
      + rewrite view_witnesses_beyondD by lia. intros [].
  Qed.

  Theorem view_ok_reachD x r ex :
    -1 <= r <= last_round st -> get_event st x = Some ex ->
    view_okD nD r (vparams_of st x) (view_witnesses st) (last_round st).
  Proof.
    intros Hr Hx. rewrite vparams_of_with. apply view_ok_reach_genD; [exact Hr|].
    intros y Hy. destruct (wits_storedD P st G _ y Hy) as [ey Hey].
    unfold see, ancestor. destruct (y =? x); [discriminate|]. rewrite Hey, Hx. discriminate.
  Qed.
End ViewD.
