(* Safety of the virtual-voting loop (Model/Voting.v) against the reference semantics of
   Model/VotingRef.v, for all parameter values satisfying the quorum hypotheses [view_ok]. *)
From Coq Require Import ZArith List Bool Lia ZifyBool ZifyNat Permutation.
From V Require Import Model.ZMap Model.Quorum Model.Voting Model.VotingRef Proofs.QuorumProofs.
Import ListNotations.
Open Scope Z_scope.
Ltac Zify.zify_post_hook ::= Z.div_mod_to_equations.

(** * Association lists *)

Lemma aget_aset_eq {A} k (v : A) l : aget k (aset k v l) = Some v.
Proof.
  induction l as [|[k' v'] l IH]; cbn [aset aget].
  - rewrite Z.eqb_refl; reflexivity.
  - destruct (Z.eqb_spec k' k) as [E|E]; cbn [aget].
    + rewrite Z.eqb_refl; reflexivity.
    + destruct (Z.eqb_spec k' k); [contradiction|exact IH].
Qed.

Lemma aget_aset_neq {A} k k' (v : A) l : k <> k' -> aget k' (aset k v l) = aget k' l.
Proof.
  intros Hne. induction l as [|[k0 v0] l IH]; cbn [aset aget].
  - destruct (Z.eqb_spec k k'); [contradiction|reflexivity].
  - destruct (Z.eqb_spec k0 k) as [E|E]; cbn [aget].
    + subst k0. destruct (Z.eqb_spec k k'); [contradiction|reflexivity].
    + destruct (Z.eqb_spec k0 k'); [reflexivity|exact IH].
Qed.

(** * Counting *)

Definition cnt (g : Z -> bool) (l : list Z) : Z := Z.of_nat (length (filter g l)).
(* number of members of l whose vote is v *)
Definition cntv (f : Z -> bool) (v : bool) (l : list Z) : Z := cnt (fun w => Bool.eqb (f w) v) l.

Lemma cnt_nonneg g l : 0 <= cnt g l.
Proof. unfold cnt; lia. Qed.

Lemma cnt_le_length g l : cnt g l <= Z.of_nat (length l).
Proof. unfold cnt. pose proof (filter_split g l). lia. Qed.

Lemma cnt_ext g h l : (forall w, In w l -> g w = h w) -> cnt g l = cnt h l.
Proof. intros H; unfold cnt. rewrite (filter_ext_in g h l H). reflexivity. Qed.

Lemma cnt_impl g h l : (forall w, In w l -> g w = true -> h w = true) -> cnt g l <= cnt h l.
Proof.
  unfold cnt. induction l as [|x l IH]; intros H; cbn [filter]; [lia|].
  assert (IH' : Z.of_nat (length (filter g l)) <= Z.of_nat (length (filter h l))).
  { apply IH. intros w Hw; apply H; right; exact Hw. }
  destruct (g x) eqn:Eg.
  - rewrite (H x (or_introl eq_refl) Eg). cbn [length]. lia.
  - destruct (h x); cbn [length]; lia.
Qed.

Lemma cnt_split g l : cnt g l + cnt (fun w => negb (g w)) l = Z.of_nat (length l).
Proof. unfold cnt. pose proof (filter_split g l). lia. Qed.

Lemma filter_perm_length (g : Z -> bool) l l' :
  Permutation l l' -> length (filter g l) = length (filter g l').
Proof.
  induction 1 as [|x l l' Hp IH|x y l|l1 l2 l3 H1 IH1 H2 IH2]; cbn [filter].
  - reflexivity.
  - destruct (g x); cbn [length]; lia.
  - destruct (g x), (g y); cbn [length]; lia.
  - lia.
Qed.

Lemma cnt_perm g l l' : Permutation l l' -> cnt g l = cnt g l'.
Proof. intros H; unfold cnt; rewrite (filter_perm_length g l l' H); reflexivity. Qed.

Lemma cntv_true f l : cntv f true l = cnt f l.
Proof. unfold cntv. apply cnt_ext. intros w _. destruct (f w); reflexivity. Qed.

Lemma cntv_false f l : cntv f false l = cnt (fun w => negb (f w)) l.
Proof. unfold cntv. apply cnt_ext. intros w _. destruct (f w); reflexivity. Qed.

Lemma cntv_split f v l : cntv f v l + cntv f (negb v) l = Z.of_nat (length l).
Proof.
  destruct v; cbn [negb]; rewrite cntv_true, cntv_false; pose proof (cnt_split f l); lia.
Qed.

Lemma cntv_ext f g v l : (forall w, In w l -> f w = g w) -> cntv f v l = cntv g v l.
Proof. intros H; unfold cntv; apply cnt_ext. intros w Hw; rewrite (H w Hw); reflexivity. Qed.

Lemma cntv_perm f v l l' : Permutation l l' -> cntv f v l = cntv f v l'.
Proof. apply cnt_perm. Qed.

Lemma cntv_all f v l : (forall w, In w l -> f w = v) -> cntv f v l = Z.of_nat (length l).
Proof.
  intros H. unfold cntv, cnt.
  assert (E : filter (fun w => Bool.eqb (f w) v) l = l).
  { induction l as [|x l IH]; cbn [filter]; [reflexivity|].
    rewrite (H x (or_introl eq_refl)), eqb_reflx. f_equal. apply IH.
    intros w Hw; apply H; right; exact Hw. }
  rewrite E; reflexivity.
Qed.

(** * tally *)

Lemma tally_tallyf votes ssw : tally votes ssw = tallyf (vote_of votes) ssw.
Proof. reflexivity. Qed.

Lemma tallyf_cnt f l :
  tallyf f l = if cntv f false l <=? cntv f true l then (true, cntv f true l) else (false, cntv f false l).
Proof.
  pose proof (cntv_split f true l) as Hs. cbn [negb] in Hs.
  rewrite cntv_true in *. unfold tallyf. fold (cnt f l).
  replace (Z.of_nat (length l) - cnt f l) with (cntv f false l) by lia.
  destruct (cntv f false l <=? cnt f l); reflexivity.
Qed.

Lemma tallyf_ext f g l : (forall w, In w l -> f w = g w) -> tallyf f l = tallyf g l.
Proof. intros H. rewrite !tallyf_cnt. rewrite !(cntv_ext f g _ l H). reflexivity. Qed.

Lemma tallyf_perm f l l' : Permutation l l' -> tallyf f l = tallyf f l'.
Proof. intros H. rewrite !tallyf_cnt. rewrite !(cntv_perm f _ l l' H). reflexivity. Qed.

(* the tally is the number of voters of the majority value *)
Lemma tallyf_snd f l : snd (tallyf f l) = cntv f (fst (tallyf f l)) l.
Proof. rewrite tallyf_cnt. destruct (cntv f false l <=? cntv f true l); reflexivity. Qed.

(* a strict majority determines the result (ties do not arise) *)
Lemma tallyf_major f l v : cntv f (negb v) l < cntv f v l -> tallyf f l = (v, cntv f v l).
Proof.
  intros H. rewrite tallyf_cnt. destruct v; cbn [negb] in H.
  - destruct (cntv f false l <=? cntv f true l) eqn:E; [reflexivity|lia].
  - destruct (cntv f false l <=? cntv f true l) eqn:E; [lia|reflexivity].
Qed.

Lemma tallyf_unanimous f l v :
  (forall w, In w l -> f w = v) -> 1 <= Z.of_nat (length l) -> tallyf f l = (v, Z.of_nat (length l)).
Proof.
  intros H Hl. pose proof (cntv_all f v l H) as Ha. pose proof (cntv_split f v l) as Hs.
  rewrite <- Ha. apply tallyf_major. lia.
Qed.

(** * The quorum-intersection argument *)

(* U: all witnesses of the previous round (at most n).  A: at least s of them, all voting v
   as far as S knows them.  S: the at-least-s witnesses strongly seen by some y.  Then the
   v-voters form a strict majority of S. *)
Lemma majority_forced (U A S : list Z) (f : Z -> bool) (v : bool) (n s : Z) :
  NoDup U -> Z.of_nat (length U) <= n -> 3 * s > 2 * n ->
  NoDup A -> incl A U -> s <= Z.of_nat (length A) ->
  NoDup S -> incl S U -> s <= Z.of_nat (length S) ->
  (forall w, In w A -> In w S -> f w = v) ->
  cntv f (negb v) S < cntv f v S.
Proof.
  intros HU HUn Hs HA HAU HAs HS HSU HSs Hf.
  pose proof (inter_lower U S A HS HA HSU HAU) as Hi.
  assert (Hc : Z.of_nat (length (inter S A)) <= cntv f v S).
  { unfold inter, cntv. fold (cnt (fun x => mem_key x A) S). apply cnt_impl.
    intros w Hw Hm. apply mem_key_In in Hm. rewrite (Hf w Hm Hw). apply eqb_reflx. }
  pose proof (cntv_split f v S) as Hsp. lia.
Qed.

(** * ss_witnesses *)

Definition ssw_step (P : vparams) (j y : Z) (acc : option (list Z)) (w : Z) : option (list Z) :=
  match acc, P.(vp_ss) j y w with
  | Some l, Some b => Some (if b then l ++ [w] else l)
  | _, _ => None
  end.

Lemma ssw_fold P j y prev acc :
  (forall w, In w prev -> vp_ss P j y w <> None) ->
  fold_left (ssw_step P j y) prev (Some acc) = Some (acc ++ filter (ssb P j y) prev).
Proof.
  revert acc. induction prev as [|w prev IH]; intros acc H; cbn [fold_left filter].
  - rewrite app_nil_r; reflexivity.
  - unfold ssw_step at 2. unfold ssb at 1.
    destruct (vp_ss P j y w) as [b|] eqn:E; [|exfalso; apply (H w (or_introl eq_refl) E)].
    rewrite IH by (intros w' Hw'; apply H; right; exact Hw').
    destruct b; [rewrite <- app_assoc|]; reflexivity.
Qed.

Lemma ss_witnesses_ok P j y prev :
  (forall w, In w prev -> vp_ss P j y w <> None) ->
  ss_witnesses P j y prev = Some (filter (ssb P j y) prev).
Proof. intros H. exact (ssw_fold P j y prev [] H). Qed.

(** * zseq / zrange *)

Lemma In_zseq j lo m : In j (zseq lo m) <-> lo <= j < lo + Z.of_nat m.
Proof.
  revert lo; induction m as [|m IH]; intros lo; cbn [zseq In]; [lia|].
  rewrite IH. lia.
Qed.

Lemma In_zrange j lo hi : In j (zrange lo hi) <-> lo <= j <= hi.
Proof. unfold zrange. rewrite In_zseq. lia. Qed.

(** * The reference vote, by absolute round *)

Lemma Vz_base P W r s y : Vz P W r s (r + 1) y = seesb P y.
Proof. unfold Vz. replace (r + 1 - r - 1) with 0 by lia. reflexivity. Qed.

Lemma Vz_step P W r s j y : r + 2 <= j ->
  Vz P W r s j y =
  (if 0 <? (j - r) mod 4 then fst (tallyf (Vz P W r s (j - 1)) (ssset P W j y))
   else if s <=? snd (tallyf (Vz P W r s (j - 1)) (ssset P W j y))
        then fst (tallyf (Vz P W r s (j - 1)) (ssset P W j y)) else vp_coin P y).
Proof.
  intros Hj. unfold Vz.
  replace (Z.to_nat (j - r - 1)) with (S (Z.to_nat (j - r - 2))) by lia.
  cbn [refvote].
  replace (r + 2 + Z.of_nat (Z.to_nat (j - r - 2))) with j by lia.
  replace (j - 1 - r - 1) with (j - r - 2) by lia.
  reflexivity.
Qed.

(** * Views *)

(* (P, W, J) is a well-formed view of the votes about a candidate witness of round r, with n
   validators.  H3 is slightly more general than "vp_prev P j = Some (W (j-1))": the previous
   round may be listed in any order. *)
Record view_ok (n r : Z) (P : vparams) (W : Z -> list Z) (J : Z) : Prop := {
  vo_n : 1 <= n;
  vo_J : r <= J;
  vo_nodup : forall j, r + 1 <= j <= J -> NoDup (W j);
  vo_len : forall j, r + 1 <= j <= J -> Z.of_nat (length (W j)) <= n;
  vo_distinct : forall j j' y, r + 1 <= j <= J -> r + 1 <= j' <= J ->
      In y (W j) -> In y (W j') -> j = j';
  vo_sm : forall j, r + 2 <= j <= J -> vp_sm P j = Some (sm n);
  vo_prev : forall j, r + 2 <= j <= J ->
      exists prev, vp_prev P j = Some prev /\ Permutation prev (W (j - 1));
  vo_ss : forall j y w, r + 2 <= j <= J -> In y (W j) -> In w (W (j - 1)) ->
      vp_ss P j y w <> None;
  vo_quorum : forall j y, r + 2 <= j <= J -> In y (W j) ->
      sm n <= Z.of_nat (length (ssset P W j y));
  vo_sees : forall y, r + 1 <= J -> In y (W (r + 1)) -> vp_sees P y <> None
}.

Lemma ssset_In P W j y w : In w (ssset P W j y) <-> In w (W (j - 1)) /\ ssb P j y w = true.
Proof. unfold ssset. apply filter_In. Qed.

Lemma ssset_incl P W j y : incl (ssset P W j y) (W (j - 1)).
Proof. intros w Hw. apply ssset_In in Hw. tauto. Qed.

Section View.
Variables (n r : Z) (P : vparams) (W : Z -> list Z) (J : Z).
Hypothesis HV : view_ok n r P W J.

Notation s := (sm n).
Notation V := (Vz P W r s).
Notation dec := (decider P W r s).

Lemma view_sm_pos : 1 <= s /\ 3 * s > 2 * n.
Proof. pose proof (vo_n _ _ _ _ _ HV). unfold sm. lia. Qed.

Lemma ssset_NoDup j y : r + 2 <= j <= J -> NoDup (ssset P W j y).
Proof. intros Hj. unfold ssset. apply NoDup_filter. apply (vo_nodup _ _ _ _ _ HV). lia. Qed.

(** ** Invariants of the votes list *)

(* every recorded vote is the reference vote of a known witness *)
Definition votes_sound (votes : list (Z * bool)) : Prop :=
  forall y b, aget y votes = Some b -> exists j, r + 1 <= j <= J /\ In y (W j) /\ b = V j y.
(* all witnesses of rounds before j0 have their vote recorded *)
Definition votes_complete (votes : list (Z * bool)) (j0 : Z) : Prop :=
  forall j y, r + 1 <= j < j0 -> In y (W j) -> aget y votes = Some (V j y).
Definition votes_done (votes : list (Z * bool)) (j : Z) (done : list Z) : Prop :=
  forall y, In y done -> aget y votes = Some (V j y).

Lemma sound_nil : votes_sound [].
Proof. intros y b H; discriminate H. Qed.

Lemma complete_first votes : votes_complete votes (r + 1).
Proof. intros j y Hj; lia. Qed.

Lemma sound_aset votes j y : r + 1 <= j <= J -> In y (W j) ->
  votes_sound votes -> votes_sound (aset y (V j y) votes).
Proof.
  intros Hj Hy Hs y' b H. destruct (Z.eq_dec y y') as [<-|Hne].
  - rewrite aget_aset_eq in H. injection H as <-. exists j; auto.
  - rewrite aget_aset_neq in H by exact Hne. apply Hs; exact H.
Qed.

Lemma complete_aset votes j y b : r + 1 <= j <= J -> In y (W j) ->
  votes_complete votes j -> votes_complete (aset y b votes) j.
Proof.
  intros Hj Hy Hc j' y' Hj' Hy'. rewrite aget_aset_neq; [apply Hc; assumption|].
  intros ->. pose proof (vo_distinct _ _ _ _ _ HV j j' y' Hj ltac:(lia) Hy Hy'). lia.
Qed.

Lemma done_aset votes j done y : ~ In y done ->
  votes_done votes j done -> votes_done (aset y (V j y) votes) j (done ++ [y]).
Proof.
  intros Hn Hd y' Hy'. apply in_app_iff in Hy' as [Hy'|[<-|[]]].
  - rewrite aget_aset_neq; [apply Hd; exact Hy'|]. intros ->; contradiction.
  - apply aget_aset_eq.
Qed.

Lemma complete_next votes j : r + 1 <= j ->
  votes_complete votes j -> votes_done votes j (W j) -> votes_complete votes (j + 1).
Proof.
  intros Hj Hc Hd j' y Hj' Hy. destruct (Z.eq_dec j' j) as [->|Hne].
  - apply Hd; exact Hy.
  - apply Hc; [lia|exact Hy].
Qed.

(** ** One witness *)

(* with complete votes for the previous round, the tally read from the association list
   is the tally of the reference votes of the strongly-seen set *)
Lemma tally_ref votes j y prev : r + 2 <= j <= J -> In y (W j) ->
  votes_complete votes j -> Permutation prev (W (j - 1)) ->
  tally votes (filter (ssb P j y) prev) = tallyf (V (j - 1)) (ssset P W j y).
Proof.
  intros Hj Hy Hc Hp. rewrite tally_tallyf.
  assert (Hp' : Permutation (filter (ssb P j y) prev) (ssset P W j y)).
  { apply NoDup_Permutation.
    - apply NoDup_filter. apply (Permutation_NoDup (Permutation_sym Hp)).
      apply (vo_nodup _ _ _ _ _ HV). lia.
    - apply ssset_NoDup; exact Hj.
    - intros w. rewrite ssset_In, filter_In. split; intros [H1 H2]; split; auto.
      + apply (Permutation_in _ Hp); exact H1.
      + apply (Permutation_in _ (Permutation_sym Hp)); exact H1. }
  rewrite (tallyf_perm _ _ _ Hp'). apply tallyf_ext.
  intros w Hw. apply ssset_incl in Hw. unfold vote_of.
  rewrite (Hc (j - 1) w ltac:(lia) Hw). reflexivity.
Qed.

Lemma decider_first y : dec (r + 1) y = false.
Proof. unfold decider. replace (r + 1 - r) with 1 by lia. reflexivity. Qed.

Lemma step_spec j y rest votes : r + 1 <= j <= J -> In y (W j) -> votes_complete votes j ->
  fame_round_j P r j (y :: rest) votes =
  if dec j y then Some (aset y (V j y) votes, Some (V j y))
  else fame_round_j P r j rest (aset y (V j y) votes).
Proof.
  intros Hj Hy Hc. destruct (Z.eq_dec j (r + 1)) as [->|Hne].
  - rewrite decider_first. cbn [fame_round_j].
    replace (r + 1 - r =? 1) with true by lia.
    rewrite Vz_base. unfold seesb.
    destruct (vp_sees P y) as [b|] eqn:E; [reflexivity|].
    exfalso. apply (vo_sees _ _ _ _ _ HV y ltac:(lia) Hy E).
  - assert (Hj2 : r + 2 <= j <= J) by lia.
    cbn [fame_round_j].
    replace (j - r =? 1) with false by lia.
    destruct (vo_prev _ _ _ _ _ HV j Hj2) as [prev [Eprev Hperm]].
    rewrite Eprev, (vo_sm _ _ _ _ _ HV j Hj2).
    rewrite ss_witnesses_ok.
    2:{ intros w Hw. apply (vo_ss _ _ _ _ _ HV j y w Hj2 Hy).
        apply (Permutation_in _ Hperm); exact Hw. }
    rewrite (tally_ref votes j y prev Hj2 Hy Hc Hperm).
    rewrite (Vz_step P W r s j y) by lia. unfold decider.
    replace (2 <=? j - r) with true by lia. cbn [andb].
    destruct (tallyf (V (j - 1)) (ssset P W j y)) as [v t]. cbn [fst snd].
    destruct (0 <? (j - r) mod 4); cbn [andb]; destruct (s <=? t); reflexivity.
Qed.

(** ** One round *)

Lemma round_ref_cons j y rest :
  round_ref P W r s j (y :: rest) = if dec j y then Some (V j y) else round_ref P W r s j rest.
Proof. unfold round_ref. cbn [find]. destruct (dec j y); reflexivity. Qed.

Lemma round_spec j : r + 1 <= j <= J ->
  forall ys done votes, W j = done ++ ys ->
  votes_sound votes -> votes_complete votes j -> votes_done votes j done ->
  exists votes', fame_round_j P r j ys votes = Some (votes', round_ref P W r s j ys) /\
    votes_sound votes' /\
    (round_ref P W r s j ys = None -> votes_complete votes' (j + 1)).
Proof.
  intros Hj. induction ys as [|y rest IH]; intros done votes HW Hs Hc Hd.
  - exists votes. cbn [fame_round_j]. split; [reflexivity|]. split; [exact Hs|].
    intros _. apply complete_next; [lia|exact Hc|]. rewrite HW, app_nil_r. exact Hd.
  - assert (Hy : In y (W j)) by (rewrite HW; apply in_app_iff; right; left; reflexivity).
    rewrite (step_spec j y rest votes Hj Hy Hc), round_ref_cons.
    destruct (dec j y) eqn:Ed.
    + eexists. split; [reflexivity|]. split; [apply sound_aset; assumption|discriminate].
    + apply (IH (done ++ [y])).
      * rewrite HW, <- app_assoc. reflexivity.
      * apply sound_aset; assumption.
      * apply (complete_aset votes j y _ Hj Hy Hc).
      * apply done_aset; [|exact Hd].
        pose proof (vo_nodup _ _ _ _ _ HV j Hj) as Hnd. rewrite HW in Hnd.
        apply NoDup_remove_2 in Hnd. intros Hin. apply Hnd. apply in_app_iff; left; exact Hin.
Qed.

(** ** The loop *)

Lemma fame_loop_votes_fst Q rw r0 js votes :
  fame_loop Q rw r0 js votes = option_map snd (fame_loop_votes Q rw r0 js votes).
Proof.
  revert votes. induction js as [|j js IH]; intros votes; cbn [fame_loop fame_loop_votes].
  - reflexivity.
  - destruct (rw j) as [ws|]; [|reflexivity].
    destruct (fame_round_j Q r0 j ws votes) as [[votes' [v|]]|]; [reflexivity|apply IH|reflexivity].
Qed.

Lemma loop_spec_gen m : forall j0 votes, r + 1 <= j0 -> j0 + Z.of_nat m = J + 1 ->
  votes_sound votes -> votes_complete votes j0 ->
  exists votes',
    fame_loop_votes P (fun j => Some (W j)) r (zseq j0 m) votes
      = Some (votes', loop_ref P W r s (zseq j0 m)) /\
    votes_sound votes' /\
    (loop_ref P W r s (zseq j0 m) = None -> votes_complete votes' (J + 1)).
Proof.
  induction m as [|m IH]; intros j0 votes Hj0 Hm Hs Hc.
  - exists votes. cbn [zseq fame_loop_votes loop_ref]. split; [reflexivity|]. split; [exact Hs|].
    intros _. replace (J + 1) with j0 by lia. exact Hc.
  - cbn [zseq fame_loop_votes loop_ref].
    destruct (round_spec j0 ltac:(lia) (W j0) [] votes eq_refl Hs Hc ltac:(intros y [])) as
      [votes1 [E1 [Hs1 Hc1]]].
    rewrite E1. destruct (round_ref P W r s j0 (W j0)) as [v|] eqn:Er.
    + exists votes1. split; [reflexivity|]. split; [exact Hs1|discriminate].
    + apply IH; [lia|lia|exact Hs1|apply Hc1; reflexivity].
Qed.

Theorem loop_votes_spec :
  exists votes',
    fame_loop_votes P (fun j => Some (W j)) r (zrange (r + 1) J) []
      = Some (votes', loop_ref P W r s (zrange (r + 1) J)) /\
    votes_sound votes' /\
    (loop_ref P W r s (zrange (r + 1) J) = None -> votes_complete votes' (J + 1)).
Proof.
  pose proof (vo_J _ _ _ _ _ HV) as HJ. unfold zrange.
  apply loop_spec_gen; [lia|lia|apply sound_nil|apply complete_first].
Qed.

Theorem loop_spec :
  fame_loop P (fun j => Some (W j)) r (zrange (r + 1) J) []
  = Some (loop_ref P W r s (zrange (r + 1) J)).
Proof.
  rewrite fame_loop_votes_fst. destruct loop_votes_spec as [votes' [E _]]. rewrite E. reflexivity.
Qed.

End View.

(** * Characterisation of the reference loop *)

Lemma round_ref_Some P W r s j ys v : round_ref P W r s j ys = Some v ->
  exists y, In y ys /\ decider P W r s j y = true /\ Vz P W r s j y = v.
Proof.
  unfold round_ref. destruct (find (decider P W r s j) ys) as [y|] eqn:E; [|discriminate].
  intros H; injection H as <-. apply find_some in E. exists y; tauto.
Qed.

Lemma round_ref_None P W r s j ys : round_ref P W r s j ys = None <->
  forall y, In y ys -> decider P W r s j y = false.
Proof.
  unfold round_ref. destruct (find (decider P W r s j) ys) as [y|] eqn:E.
  - split; [discriminate|]. intros H. apply find_some in E as [E1 E2].
    rewrite (H y E1) in E2; discriminate.
  - split; [|reflexivity]. intros _ y Hy. apply (find_none _ _ E y Hy).
Qed.

Lemma loop_ref_Some P W r s js v : loop_ref P W r s js = Some v ->
  exists j y, In j js /\ In y (W j) /\ decider P W r s j y = true /\ Vz P W r s j y = v.
Proof.
  induction js as [|j js IH]; cbn [loop_ref]; [discriminate|].
  destruct (round_ref P W r s j (W j)) as [v'|] eqn:E.
  - intros H; injection H as <-. apply round_ref_Some in E as [y [H1 [H2 H3]]].
    exists j, y. cbn [In]; auto.
  - intros H. destruct (IH H) as [j' [y [H1 H2]]]. exists j', y. cbn [In]; auto.
Qed.

Lemma loop_ref_None P W r s js : loop_ref P W r s js = None <->
  forall j y, In j js -> In y (W j) -> decider P W r s j y = false.
Proof.
  induction js as [|j js IH]; cbn [loop_ref].
  - split; [intros _ j y []|reflexivity].
  - destruct (round_ref P W r s j (W j)) as [v'|] eqn:E.
    + split; [discriminate|]. intros H. exfalso.
      apply round_ref_Some in E as [y [H1 [H2 _]]].
      rewrite (H j y (or_introl eq_refl) H1) in H2; discriminate.
    + rewrite IH. rewrite round_ref_None in E. split.
      * intros H j' y [<-|Hj'] Hy; [apply E; exact Hy|apply H; assumption].
      * intros H j' y Hj' Hy. apply H; [right; exact Hj'|exact Hy].
Qed.

(* what a decider's value is: the majority of its tally *)
Lemma decider_inv P W r s j y : decider P W r s j y = true ->
  r + 2 <= j /\ 0 < (j - r) mod 4 /\
  s <= snd (tallyf (Vz P W r s (j - 1)) (ssset P W j y)) /\
  Vz P W r s j y = fst (tallyf (Vz P W r s (j - 1)) (ssset P W j y)).
Proof.
  unfold decider. intros H. apply andb_prop in H as [H H3]. apply andb_prop in H as [H1 H2].
  assert (Hj : r + 2 <= j) by lia.
  rewrite (Vz_step P W r s j y Hj). rewrite H2. repeat split; lia.
Qed.

(** * Unanimity *)

Section View2.
Variables (n r : Z) (P : vparams) (W : Z -> list Z) (J : Z).
Hypothesis HV : view_ok n r P W J.

Notation s := (sm n).
Notation V := (Vz P W r s).
Notation dec := (decider P W r s).

(* Lemma A: if at least s witnesses of round j-1 (within some duplicate-free universe U of
   at most n witnesses containing the view's round j-1) vote v as far as the view knows them,
   every witness of the normal round j votes v. *)
Lemma force_round j (U A : list Z) v :
  r + 2 <= j <= J -> 0 < (j - r) mod 4 ->
  NoDup U -> Z.of_nat (length U) <= n -> incl (W (j - 1)) U ->
  NoDup A -> incl A U -> s <= Z.of_nat (length A) ->
  (forall w, In w A -> In w (W (j - 1)) -> V (j - 1) w = v) ->
  forall y, In y (W j) ->
    V j y = v /\ tallyf (V (j - 1)) (ssset P W j y) = (v, cntv (V (j - 1)) v (ssset P W j y)).
Proof.
  intros Hj Hn HU HUn HWU HA HAU HAs Hv y Hy.
  destruct (view_sm_pos n r P W J HV) as [_ H3s].
  assert (Hm : cntv (V (j - 1)) (negb v) (ssset P W j y) < cntv (V (j - 1)) v (ssset P W j y)).
  { apply (majority_forced U A (ssset P W j y) (V (j - 1)) v n s); auto.
    - apply (ssset_NoDup n r P W J HV); exact Hj.
    - intros w Hw. apply HWU. apply ssset_incl in Hw. exact Hw.
    - apply (vo_quorum _ _ _ _ _ HV); assumption.
    - intros w HwA HwS. apply Hv; [exact HwA|]. apply ssset_incl in HwS. exact HwS. }
  pose proof (tallyf_major _ _ _ Hm) as Ht. split; [|exact Ht].
  rewrite (Vz_step P W r s j y) by lia. rewrite Ht. cbn [fst].
  replace (0 <? (j - r) mod 4) with true by lia. reflexivity.
Qed.

(* Lemma B, one step: a unanimous round forces the next one, normal or coin *)
Lemma unanimous_step j v : r + 2 <= j <= J ->
  (forall w, In w (W (j - 1)) -> V (j - 1) w = v) ->
  forall y, In y (W j) ->
    V j y = v /\
    tallyf (V (j - 1)) (ssset P W j y) = (v, Z.of_nat (length (ssset P W j y))).
Proof.
  intros Hj Hu y Hy.
  destruct (view_sm_pos n r P W J HV) as [Hs1 _].
  pose proof (vo_quorum _ _ _ _ _ HV j y Hj Hy) as Hq.
  assert (Ht : tallyf (V (j - 1)) (ssset P W j y) = (v, Z.of_nat (length (ssset P W j y)))).
  { apply tallyf_unanimous; [|lia]. intros w Hw. apply Hu. apply ssset_incl in Hw. exact Hw. }
  split; [|exact Ht].
  rewrite (Vz_step P W r s j y) by lia. rewrite Ht. cbn [fst snd].
  replace (s <=? Z.of_nat (length (ssset P W j y))) with true by lia.
  destruct (0 <? (j - r) mod 4); reflexivity.
Qed.

Lemma unanimous_forever j0 v : r + 1 <= j0 ->
  (forall w, In w (W j0) -> V j0 w = v) ->
  forall k j, j = j0 + Z.of_nat k -> j <= J -> forall y, In y (W j) -> V j y = v.
Proof.
  intros Hj0 Hu. induction k as [|k IH]; intros j Hj HjJ y Hy.
  - replace j with j0 by lia. apply Hu. replace j0 with j by lia. exact Hy.
  - apply (unanimous_step j v ltac:(lia)); [|exact Hy].
    intros w Hw. apply (IH (j - 1)); [lia|lia|exact Hw].
Qed.

Lemma unanimous_from j0 v : r + 1 <= j0 ->
  (forall w, In w (W j0) -> V j0 w = v) ->
  forall j y, j0 <= j <= J -> In y (W j) -> V j y = v.
Proof.
  intros Hj0 Hu j y Hj Hy.
  apply (unanimous_forever j0 v Hj0 Hu (Z.to_nat (j - j0)) j); [lia|lia|exact Hy].
Qed.

(* the voters for the majority value inside the strongly-seen set of y *)
Definition majority_voters (j y : Z) : list Z :=
  filter (fun w => Bool.eqb (V (j - 1) w) (fst (tallyf (V (j - 1)) (ssset P W j y)))) (ssset P W j y).

Lemma majority_voters_props j y : r + 2 <= j <= J ->
  NoDup (majority_voters j y) /\ incl (majority_voters j y) (W (j - 1)) /\
  Z.of_nat (length (majority_voters j y)) = snd (tallyf (V (j - 1)) (ssset P W j y)) /\
  forall w, In w (majority_voters j y) ->
    V (j - 1) w = fst (tallyf (V (j - 1)) (ssset P W j y)).
Proof.
  intros Hj. unfold majority_voters. repeat split.
  - apply NoDup_filter. apply (ssset_NoDup n r P W J HV); exact Hj.
  - intros w Hw. apply filter_In in Hw as [Hw _]. apply ssset_incl in Hw. exact Hw.
  - rewrite tallyf_snd. reflexivity.
  - intros w Hw. apply filter_In in Hw as [_ Hw]. apply eqb_prop in Hw. exact Hw.
Qed.

(** T2: a supermajority tally in a normal round forces unanimity from then on. *)
Theorem supermajority_forces_unanimity j y v t :
  r + 2 <= j <= J -> In y (W j) -> 0 < (j - r) mod 4 ->
  tallyf (V (j - 1)) (ssset P W j y) = (v, t) -> s <= t ->
  (forall y', In y' (W j) -> V j y' = v) /\
  (forall j' y'', j < j' <= J -> In y'' (W j') -> V j' y'' = v).
Proof.
  intros Hj Hy Hn Ht Hst.
  destruct (majority_voters_props j y Hj) as [HA1 [HA2 [HA3 HA4]]]. rewrite Ht in *. cbn [fst snd] in *.
  assert (Hall : forall y', In y' (W j) -> V j y' = v).
  { intros y' Hy'.
    apply (force_round j (W (j - 1)) (majority_voters j y) v Hj Hn); auto.
    - apply (vo_nodup _ _ _ _ _ HV); lia.
    - apply (vo_len _ _ _ _ _ HV); lia.
    - apply incl_refl.
    - lia. }
  split; [exact Hall|].
  intros j' y'' Hj' Hy''. apply (unanimous_from j v ltac:(lia) Hall j' y''); [lia|exact Hy''].
Qed.

(* all deciders of one view agree (also a special case of cross-view agreement below) *)
Lemma deciders_agree j1 y1 j2 y2 :
  r + 1 <= j1 <= J -> In y1 (W j1) -> dec j1 y1 = true ->
  r + 1 <= j2 <= J -> In y2 (W j2) -> dec j2 y2 = true ->
  j1 <= j2 -> V j1 y1 = V j2 y2.
Proof.
  intros Hj1 Hy1 Hd1 Hj2 Hy2 Hd2 Hle.
  apply decider_inv in Hd1 as [Hr1 [Hn1 [Hs1 Hv1]]].
  destruct (tallyf (V (j1 - 1)) (ssset P W j1 y1)) as [v t] eqn:Et. cbn [fst snd] in *.
  destruct (supermajority_forces_unanimity j1 y1 v t ltac:(lia) Hy1 Hn1 Et Hs1) as [Ha Hb].
  rewrite Hv1. destruct (Z.eq_dec j1 j2) as [<-|Hne].
  - symmetry; apply Ha; exact Hy2.
  - symmetry; apply Hb; [lia|exact Hy2].
Qed.

Lemma loop_ref_Some_iff v :
  loop_ref P W r s (zrange (r + 1) J) = Some v <->
  exists j y, r + 1 <= j <= J /\ In y (W j) /\ dec j y = true /\ V j y = v.
Proof.
  split.
  - intros H. apply loop_ref_Some in H as [j [y [H1 H2]]]. apply In_zrange in H1.
    exists j, y; auto.
  - intros [j [y [Hj [Hy [Hd Hv]]]]].
    destruct (loop_ref P W r s (zrange (r + 1) J)) as [v'|] eqn:E.
    + apply loop_ref_Some in E as [j' [y' [Hj' [Hy' [Hd' Hv']]]]]. apply In_zrange in Hj'.
      f_equal. rewrite <- Hv, <- Hv'.
      destruct (Z.le_ge_cases j j') as [Hle|Hle].
      * symmetry. apply deciders_agree; auto.
      * apply deciders_agree; auto; lia.
    + exfalso. rewrite loop_ref_None in E.
      rewrite (E j y ltac:(apply In_zrange; exact Hj) Hy) in Hd. discriminate.
Qed.

End View2.

(** * Two views of the same history *)

(* G j: all round-j witnesses of the history (at most one per validator).  Both views know
   sub-lists of G j; they read the same sees/coin bits for the witnesses they share, and a
   witness known to both strongly sees the same SET of witnesses of the previous round in
   both (these are ancestors of y, hence known to every view that knows y). *)
Record same_history (n r : Z) (P1 : vparams) (W1 : Z -> list Z) (J1 : Z)
       (P2 : vparams) (W2 : Z -> list Z) (J2 : Z) (G : Z -> list Z) : Prop := {
  sh_sees : forall y, In y (W1 (r + 1)) -> In y (W2 (r + 1)) -> vp_sees P1 y = vp_sees P2 y;
  sh_coin : forall j y, r + 2 <= j <= Z.min J1 J2 -> In y (W1 j) -> In y (W2 j) ->
      vp_coin P1 y = vp_coin P2 y;
  sh_G_nodup : forall j, r + 1 <= j <= Z.min J1 J2 -> NoDup (G j);
  sh_G_len : forall j, r + 1 <= j <= Z.min J1 J2 -> Z.of_nat (length (G j)) <= n;
  sh_W1 : forall j, r + 1 <= j <= Z.min J1 J2 -> incl (W1 j) (G j);
  sh_W2 : forall j, r + 1 <= j <= Z.min J1 J2 -> incl (W2 j) (G j);
  sh_ss : forall j y w, r + 2 <= j <= Z.min J1 J2 -> In y (W1 j) -> In y (W2 j) ->
      (In w (ssset P1 W1 j y) <-> In w (ssset P2 W2 j y))
}.

Lemma same_history_sym n r P1 W1 J1 P2 W2 J2 G :
  same_history n r P1 W1 J1 P2 W2 J2 G -> same_history n r P2 W2 J2 P1 W1 J1 G.
Proof.
  intros [H1 H2 H3 H4 H5 H6 H7]. rewrite Z.min_comm in *.
  constructor; auto.
  - intros y Ha Hb. symmetry; auto.
  - intros j y Hj Ha Hb. symmetry; eauto.
  - intros j y w Hj Ha Hb. symmetry; auto.
Qed.

Section TwoViews.
Variables (n r : Z) (P1 : vparams) (W1 : Z -> list Z) (J1 : Z)
          (P2 : vparams) (W2 : Z -> list Z) (J2 : Z) (G : Z -> list Z).
Hypothesis HV1 : view_ok n r P1 W1 J1.
Hypothesis HV2 : view_ok n r P2 W2 J2.
Hypothesis HS : same_history n r P1 W1 J1 P2 W2 J2 G.

Notation s := (sm n).
Notation V1 := (Vz P1 W1 r s).
Notation V2 := (Vz P2 W2 r s).
Notation M := (Z.min J1 J2).

Lemma ssset_perm j y : r + 2 <= j <= M -> In y (W1 j) -> In y (W2 j) ->
  Permutation (ssset P1 W1 j y) (ssset P2 W2 j y).
Proof.
  intros Hj Hy1 Hy2. apply NoDup_Permutation.
  - apply (ssset_NoDup n r P1 W1 J1 HV1); lia.
  - apply (ssset_NoDup n r P2 W2 J2 HV2); lia.
  - intros w. apply (sh_ss _ _ _ _ _ _ _ _ _ HS); assumption.
Qed.

Lemma tally_agree j y : r + 2 <= j <= M -> In y (W1 j) -> In y (W2 j) ->
  (forall w, In w (W1 (j - 1)) -> In w (W2 (j - 1)) -> V1 (j - 1) w = V2 (j - 1) w) ->
  tallyf (V1 (j - 1)) (ssset P1 W1 j y) = tallyf (V2 (j - 1)) (ssset P2 W2 j y).
Proof.
  intros Hj Hy1 Hy2 Hprev.
  rewrite (tallyf_perm _ _ _ (ssset_perm j y Hj Hy1 Hy2)).
  apply tallyf_ext. intros w Hw2.
  assert (Hw1 : In w (ssset P1 W1 j y)) by (apply (sh_ss _ _ _ _ _ _ _ _ _ HS); assumption).
  apply ssset_incl in Hw1. apply ssset_incl in Hw2. apply Hprev; assumption.
Qed.

(* the reference vote of a shared witness does not depend on the view *)
Lemma V_agree_nat : forall k j, j = r + 1 + Z.of_nat k -> j <= M ->
  forall y, In y (W1 j) -> In y (W2 j) -> V1 j y = V2 j y.
Proof.
  induction k as [|k IH]; intros j Hj HjM y Hy1 Hy2.
  - replace j with (r + 1) in * by lia. rewrite !Vz_base. unfold seesb.
    rewrite (sh_sees _ _ _ _ _ _ _ _ _ HS y Hy1 Hy2). reflexivity.
  - rewrite (Vz_step P1 W1 r s j y) by lia. rewrite (Vz_step P2 W2 r s j y) by lia.
    rewrite (tally_agree j y ltac:(lia) Hy1 Hy2).
    + rewrite (sh_coin _ _ _ _ _ _ _ _ _ HS j y ltac:(lia) Hy1 Hy2). reflexivity.
    + intros w Hw1 Hw2. apply (IH (j - 1)); [lia|lia|assumption|assumption].
Qed.

Lemma V_agree j y : r + 1 <= j <= M -> In y (W1 j) -> In y (W2 j) -> V1 j y = V2 j y.
Proof. intros Hj. apply (V_agree_nat (Z.to_nat (j - r - 1)) j); lia. Qed.

Lemma decider_agree j y : r + 1 <= j <= M -> In y (W1 j) -> In y (W2 j) ->
  decider P1 W1 r s j y = decider P2 W2 r s j y.
Proof.
  intros Hj Hy1 Hy2. destruct (Z.eq_dec j (r + 1)) as [->|Hne].
  - unfold decider. replace (r + 1 - r) with 1 by lia. reflexivity.
  - unfold decider. rewrite (tally_agree j y ltac:(lia) Hy1 Hy2); [reflexivity|].
    intros w Hw1 Hw2. apply V_agree; [lia|assumption|assumption].
Qed.

(* a decision in view 1 at round j1 forces every vote of view 2 from round j1 on *)
Lemma decision_forces_other_view j1 y1 :
  r + 1 <= j1 <= M -> In y1 (W1 j1) -> decider P1 W1 r s j1 y1 = true ->
  forall j2 y2, j1 <= j2 <= J2 -> In y2 (W2 j2) -> V2 j2 y2 = V1 j1 y1.
Proof.
  intros Hj1 Hy1 Hd1 j2 y2 Hj2 Hy2.
  apply decider_inv in Hd1 as [Hr1 [Hn1 [Hs1 Hv1]]].
  destruct (majority_voters_props n r P1 W1 J1 HV1 j1 y1 ltac:(lia)) as [HA1 [HA2 [HA3 HA4]]].
  rewrite Hv1.
  set (v := fst (tallyf (V1 (j1 - 1)) (ssset P1 W1 j1 y1))) in *.
  assert (Hall : forall y', In y' (W2 j1) -> V2 j1 y' = v).
  { intros y' Hy'.
    apply (force_round n r P2 W2 J2 HV2 j1 (G (j1 - 1)) (majority_voters n r P1 W1 j1 y1) v);
      try assumption; try lia.
    - apply (sh_G_nodup _ _ _ _ _ _ _ _ _ HS); lia.
    - apply (sh_G_len _ _ _ _ _ _ _ _ _ HS); lia.
    - apply (sh_W2 _ _ _ _ _ _ _ _ _ HS); lia.
    - intros w Hw. apply (sh_W1 _ _ _ _ _ _ _ _ _ HS (j1 - 1)); [lia|]. apply HA2; exact Hw.
    - intros w HwA Hw2. rewrite <- (V_agree (j1 - 1) w); [apply HA4; exact HwA|lia| |exact Hw2].
      apply HA2; exact HwA. }
  apply (unanimous_from n r P2 W2 J2 HV2 j1 v ltac:(lia) Hall j2 y2); [lia|exact Hy2].
Qed.

End TwoViews.

(** T3: decisions reached on two views of the same history agree. *)
Theorem decisions_agree n r P1 W1 J1 P2 W2 J2 G v1 v2 :
  view_ok n r P1 W1 J1 -> view_ok n r P2 W2 J2 ->
  same_history n r P1 W1 J1 P2 W2 J2 G ->
  fame_loop P1 (fun j => Some (W1 j)) r (zrange (r + 1) J1) [] = Some (Some v1) ->
  fame_loop P2 (fun j => Some (W2 j)) r (zrange (r + 1) J2) [] = Some (Some v2) ->
  v1 = v2.
Proof.
  intros HV1 HV2 HS E1 E2.
  rewrite (loop_spec n r P1 W1 J1 HV1) in E1. rewrite (loop_spec n r P2 W2 J2 HV2) in E2.
  injection E1 as E1. injection E2 as E2.
  apply loop_ref_Some in E1 as [j1 [y1 [Hj1 [Hy1 [Hd1 Hv1]]]]]. apply In_zrange in Hj1.
  apply loop_ref_Some in E2 as [j2 [y2 [Hj2 [Hy2 [Hd2 Hv2]]]]]. apply In_zrange in Hj2.
  rewrite <- Hv1, <- Hv2.
  destruct (Z.le_ge_cases j1 j2) as [Hle|Hle].
  - symmetry.
    apply (decision_forces_other_view n r P1 W1 J1 P2 W2 J2 G HV1 HV2 HS j1 y1); auto; lia.
  - apply (decision_forces_other_view n r P2 W2 J2 P1 W1 J1 G HV2 HV1 (same_history_sym _ _ _ _ _ _ _ _ _ HS) j2 y2);
      auto; lia.
Qed.

(** T4: a decision reached on a view is reached, with the same value, on any larger view. *)
Theorem decision_monotone n r P1 W1 J1 P2 W2 J2 G v :
  view_ok n r P1 W1 J1 -> view_ok n r P2 W2 J2 ->
  same_history n r P1 W1 J1 P2 W2 J2 G ->
  J1 <= J2 -> (forall j, r + 1 <= j <= J1 -> incl (W1 j) (W2 j)) ->
  fame_loop P1 (fun j => Some (W1 j)) r (zrange (r + 1) J1) [] = Some (Some v) ->
  fame_loop P2 (fun j => Some (W2 j)) r (zrange (r + 1) J2) [] = Some (Some v).
Proof.
  intros HV1 HV2 HS HJ Hincl E1.
  pose proof E1 as E1'.
  rewrite (loop_spec n r P1 W1 J1 HV1) in E1'. injection E1' as E1'.
  apply loop_ref_Some in E1' as [j [y [Hj [Hy [Hd Hv]]]]]. apply In_zrange in Hj.
  assert (Hy2 : In y (W2 j)) by (apply (Hincl j Hj); exact Hy).
  pose proof (loop_spec n r P2 W2 J2 HV2) as E2.
  destruct (loop_ref P2 W2 r (sm n) (zrange (r + 1) J2)) as [v2|] eqn:E.
  - rewrite E2. rewrite (decisions_agree n r P1 W1 J1 P2 W2 J2 G v v2 HV1 HV2 HS E1 E2). reflexivity.
  - exfalso. rewrite loop_ref_None in E.
    rewrite (decider_agree n r P1 W1 J1 P2 W2 J2 G HV1 HV2 HS j y ltac:(lia) Hy Hy2) in Hd.
    rewrite (E j y ltac:(apply In_zrange; lia) Hy2) in Hd. discriminate.
Qed.

(** * Iteration order *)

(* two views with the same witnesses in every round compute the same result *)
Lemma loop_ref_same_witnesses n r P1 W1 P2 W2 J G :
  view_ok n r P1 W1 J -> view_ok n r P2 W2 J ->
  same_history n r P1 W1 J P2 W2 J G ->
  (forall j y, r + 1 <= j <= J -> (In y (W1 j) <-> In y (W2 j))) ->
  loop_ref P1 W1 r (sm n) (zrange (r + 1) J) = loop_ref P2 W2 r (sm n) (zrange (r + 1) J).
Proof.
  intros HV1 HV2 HS Hsame.
  assert (HM : Z.min J J = J) by lia.
  destruct (loop_ref P1 W1 r (sm n) (zrange (r + 1) J)) as [v|] eqn:E; symmetry.
  - apply (loop_ref_Some_iff n r P1 W1 J HV1) in E as [j [y [Hj [Hy [Hd Hv]]]]].
    apply (loop_ref_Some_iff n r P2 W2 J HV2). exists j, y.
    assert (Hy2 : In y (W2 j)) by (apply Hsame; assumption).
    split; [exact Hj|]. split; [exact Hy2|]. split.
    + rewrite <- (decider_agree n r P1 W1 J P2 W2 J G HV1 HV2 HS j y); auto; lia.
    + rewrite <- (V_agree n r P1 W1 J P2 W2 J G HV1 HV2 HS j y); auto; lia.
  - rewrite loop_ref_None in E. apply loop_ref_None. intros j y Hj Hy2. apply In_zrange in Hj.
    assert (Hy1 : In y (W1 j)) by (apply Hsame; assumption).
    rewrite <- (decider_agree n r P1 W1 J P2 W2 J G HV1 HV2 HS j y); auto; [|lia].
    apply E; [apply In_zrange; exact Hj|exact Hy1].
Qed.

(* P' reads the same store as P, possibly listing previous rounds in another order *)
Record same_params_upto_order (r J : Z) (P P' : vparams) (W : Z -> list Z) : Prop := {
  spo_sees : forall y, vp_sees P' y = vp_sees P y;
  spo_ss : forall j y w, vp_ss P' j y w = vp_ss P j y w;
  spo_sm : forall j, vp_sm P' j = vp_sm P j;
  spo_coin : forall y, vp_coin P' y = vp_coin P y;
  spo_prev : forall j, r + 2 <= j <= J ->
      exists prev, vp_prev P' j = Some prev /\ Permutation prev (W (j - 1))
}.

Section Perm.
Variables (n r : Z) (P P' : vparams) (W W' : Z -> list Z) (J : Z).
Hypothesis HV : view_ok n r P W J.
Hypothesis HP : same_params_upto_order r J P P' W.
Hypothesis HW : forall j, Permutation (W j) (W' j).

Lemma ssb_same j y w : ssb P' j y w = ssb P j y w.
Proof. unfold ssb. rewrite (spo_ss _ _ _ _ _ HP). reflexivity. Qed.

Lemma ssset_perm_order j y : Permutation (ssset P W j y) (ssset P' W' j y).
Proof.
  unfold ssset. rewrite (filter_ext _ _ (ssb_same j y)).
  generalize (HW (j - 1)). generalize (W (j - 1)) (W' (j - 1)).
  induction 1 as [|x l l' Hp IH|x z l|l1 l2 l3 H1 IH1 H2 IH2]; cbn [filter].
  - constructor.
  - destruct (ssb P j y x); [constructor|]; exact IH.
  - destruct (ssb P j y x), (ssb P j y z); try apply Permutation_refl. constructor.
  - eapply Permutation_trans; eassumption.
Qed.

Lemma view_ok_perm : view_ok n r P' W' J.
Proof.
  constructor.
  - apply (vo_n _ _ _ _ _ HV).
  - apply (vo_J _ _ _ _ _ HV).
  - intros j Hj. apply (Permutation_NoDup (HW j)). apply (vo_nodup _ _ _ _ _ HV); exact Hj.
  - intros j Hj. rewrite <- (Permutation_length (HW j)). apply (vo_len _ _ _ _ _ HV); exact Hj.
  - intros j j' y Hj Hj' Hy Hy'. apply (vo_distinct _ _ _ _ _ HV j j' y Hj Hj').
    + apply (Permutation_in _ (Permutation_sym (HW j))); exact Hy.
    + apply (Permutation_in _ (Permutation_sym (HW j'))); exact Hy'.
  - intros j Hj. rewrite (spo_sm _ _ _ _ _ HP). apply (vo_sm _ _ _ _ _ HV); exact Hj.
  - intros j Hj. destruct (spo_prev _ _ _ _ _ HP j Hj) as [prev [E Hp]].
    exists prev. split; [exact E|]. eapply Permutation_trans; [exact Hp|apply HW].
  - intros j y w Hj Hy Hw. rewrite (spo_ss _ _ _ _ _ HP). apply (vo_ss _ _ _ _ _ HV); [exact Hj| |].
    + apply (Permutation_in _ (Permutation_sym (HW j))); exact Hy.
    + apply (Permutation_in _ (Permutation_sym (HW (j - 1)))); exact Hw.
  - intros j y Hj Hy. rewrite <- (Permutation_length (ssset_perm_order j y)).
    apply (vo_quorum _ _ _ _ _ HV); [exact Hj|].
    apply (Permutation_in _ (Permutation_sym (HW j))); exact Hy.
  - intros y HJ Hy. rewrite (spo_sees _ _ _ _ _ HP). apply (vo_sees _ _ _ _ _ HV); [exact HJ|].
    apply (Permutation_in _ (Permutation_sym (HW (r + 1)))); exact Hy.
Qed.

Lemma same_history_perm : same_history n r P W J P' W' J W.
Proof.
  assert (HM : Z.min J J = J) by lia. rewrite <- HM in HV at 1. 
  constructor.
  - intros y _ _. symmetry. apply (spo_sees _ _ _ _ _ HP).
  - intros j y _ _ _. symmetry. apply (spo_coin _ _ _ _ _ HP).
  - intros j Hj. apply (vo_nodup _ _ _ _ _ HV); lia.
  - intros j Hj. apply (vo_len _ _ _ _ _ HV); lia.
  - intros j Hj. apply incl_refl.
  - intros j Hj w Hw. apply (Permutation_in _ (Permutation_sym (HW j))); exact Hw.
  - intros j y w Hj Hy Hy'. split; intros Hw.
    + apply (Permutation_in _ (ssset_perm_order j y)); exact Hw.
    + apply (Permutation_in _ (Permutation_sym (ssset_perm_order j y))); exact Hw.
Qed.

(** T5: the order in which witnesses are listed is irrelevant. *)
Theorem order_irrelevant :
  fame_loop P' (fun j => Some (W' j)) r (zrange (r + 1) J) []
  = fame_loop P (fun j => Some (W j)) r (zrange (r + 1) J) [].
Proof.
  rewrite (loop_spec n r P W J HV). rewrite (loop_spec n r P' W' J view_ok_perm).
  f_equal. symmetry.
  apply (loop_ref_same_witnesses n r P W P' W' J W HV view_ok_perm same_history_perm).
  intros j y Hj. split; intros Hy.
  - apply (Permutation_in _ (HW j)); exact Hy.
  - apply (Permutation_in _ (Permutation_sym (HW j))); exact Hy.
Qed.

End Perm.

(** * Introduction rules for [view_ok] *)

(* the hypotheses exactly as in the informal setting (H1-H4) *)
Lemma view_ok_intro n r P W J :
  1 <= n -> r <= J ->
  (forall j, r + 1 <= j <= J -> NoDup (W j) /\ Z.of_nat (length (W j)) <= n) ->
  (forall j j' y, r + 1 <= j <= J -> r + 1 <= j' <= J -> In y (W j) -> In y (W j') -> j = j') ->
  (forall j, r + 1 <= j <= J -> vp_sm P j = Some (sm n)) ->
  (forall j, r + 2 <= j <= J -> vp_prev P j = Some (W (j - 1))) ->
  (forall j y w, r + 2 <= j <= J -> In y (W j) -> In w (W (j - 1)) -> vp_ss P j y w <> None) ->
  (forall j y, r + 2 <= j <= J -> In y (W j) -> sm n <= Z.of_nat (length (ssset P W j y))) ->
  (forall y, In y (W (r + 1)) -> vp_sees P y <> None) ->
  view_ok n r P W J.
Proof.
  intros H1 H2 H3 H4 H5 H6 H7 H8 H9. constructor; auto.
  - intros j Hj; apply H3; exact Hj.
  - intros j Hj; apply H3; exact Hj.
  - intros j Hj; apply H5; lia.
  - intros j Hj. exists (W (j - 1)). split; [apply H6; exact Hj|apply Permutation_refl].
Qed.

Lemma zinb_In k l : zinb k l = true <-> In k l.
Proof.
  induction l as [|x t IH]; cbn [zinb In]; [split; [discriminate|tauto]|].
  rewrite orb_true_iff, IH, Z.eqb_eq. tauto.
Qed.

Lemma nodupb_NoDup l : nodupb l = true -> NoDup l.
Proof.
  induction l as [|x t IH]; cbn [nodupb]; intros H; [constructor|].
  apply andb_prop in H as [H1 H2]. constructor; [|apply IH; exact H2].
  intros Hin. apply zinb_In in Hin. rewrite Hin in H1. discriminate.
Qed.

Lemma disjointb_spec a b x : disjointb a b = true -> In x a -> In x b -> False.
Proof.
  unfold disjointb. rewrite forallb_forall. intros H Ha Hb.
  specialize (H x Ha). apply zinb_In in Hb. rewrite Hb in H. discriminate.
Qed.

Lemma is_some_neq {A} (o : option A) : is_some o = true -> o <> None.
Proof. destruct o; [discriminate|discriminate]. Qed.

Lemma view_okb_sound n r P W J : view_okb n r P W J = true -> view_ok n r P W J.
Proof.
  unfold view_okb. intros H.
  apply andb_prop in H as [H H6]. apply andb_prop in H as [H H5].
  apply andb_prop in H as [H H4]. apply andb_prop in H as [H H3].
  apply andb_prop in H as [H1 H2].
  rewrite forallb_forall in H3, H4, H5, H6.
  assert (H5' : forall j, r + 2 <= j <= J ->
    vp_sm P j = Some (sm n) /\ vp_prev P j = Some (W (j - 1)) /\
    forall y, In y (W j) -> (forall w, In w (W (j - 1)) -> vp_ss P j y w <> None) /\
                            sm n <= Z.of_nat (length (ssset P W j y))).
  { intros j Hj. specialize (H5 j ltac:(apply In_zrange; exact Hj)).
    apply andb_prop in H5 as [H5 H5c]. apply andb_prop in H5 as [H5a H5b].
    split; [|split].
    - destruct (vp_sm P j) as [x|]; [|discriminate]. unfold sm. f_equal. lia.
    - destruct (vp_prev P j) as [prev|]; [|discriminate].
      destruct (list_eq_dec Z.eq_dec prev (W (j - 1))) as [->|]; [reflexivity|discriminate].
    - intros y Hy. rewrite forallb_forall in H5c. specialize (H5c y Hy).
      apply andb_prop in H5c as [Ha Hb]. rewrite forallb_forall in Ha. split.
      + intros w Hw. apply is_some_neq. apply Ha; exact Hw.
      + unfold sm. lia. }
  constructor.
  - lia.
  - lia.
  - intros j Hj. specialize (H3 j ltac:(apply In_zrange; exact Hj)).
    apply andb_prop in H3 as [H3 _]. apply nodupb_NoDup; exact H3.
  - intros j Hj. specialize (H3 j ltac:(apply In_zrange; exact Hj)).
    apply andb_prop in H3 as [_ H3]. lia.
  - intros j j' y Hj Hj' Hy Hy'.
    specialize (H4 j ltac:(apply In_zrange; exact Hj)). rewrite forallb_forall in H4.
    specialize (H4 j' ltac:(apply In_zrange; exact Hj')).
    apply orb_prop in H4 as [H4|H4]; [lia|].
    exfalso. exact (disjointb_spec _ _ y H4 Hy Hy').
  - intros j Hj. apply (H5' j Hj).
  - intros j Hj. exists (W (j - 1)). split; [apply (H5' j Hj)|apply Permutation_refl].
  - intros j y w Hj Hy Hw. destruct (H5' j Hj) as [_ [_ H]]. apply (H y Hy); exact Hw.
  - intros j y Hj Hy. destruct (H5' j Hj) as [_ [_ H]]. apply (H y Hy).
  - intros y _ Hy. apply is_some_neq. apply H6; exact Hy.
Qed.

Lemma inclb_incl a b : inclb a b = true -> incl a b.
Proof.
  unfold inclb. rewrite forallb_forall. intros H x Hx. apply zinb_In. apply H; exact Hx.
Qed.

Lemma obool_eqb_eq a b : obool_eqb a b = true -> a = b.
Proof.
  destruct a as [x|], b as [y|]; cbn [obool_eqb]; intros H; try discriminate; [|reflexivity].
  apply eqb_prop in H. rewrite H. reflexivity.
Qed.

Lemma same_historyb_sound n r P1 W1 J1 P2 W2 J2 G :
  same_historyb n r P1 W1 J1 P2 W2 J2 G = true -> same_history n r P1 W1 J1 P2 W2 J2 G.
Proof.
  unfold same_historyb. intros H.
  apply andb_prop in H as [H H3]. apply andb_prop in H as [H1 H2].
  rewrite forallb_forall in H1, H2, H3.
  assert (H2' : forall j y, r + 2 <= j <= Z.min J1 J2 -> In y (W1 j) -> In y (W2 j) ->
     vp_coin P1 y = vp_coin P2 y /\ incl (ssset P1 W1 j y) (ssset P2 W2 j y) /\
     incl (ssset P2 W2 j y) (ssset P1 W1 j y)).
  { intros j y Hj Hy1 Hy2. specialize (H2 j ltac:(apply In_zrange; exact Hj)).
    rewrite forallb_forall in H2. specialize (H2 y Hy1).
    apply zinb_In in Hy2. rewrite Hy2 in H2. cbn [negb orb] in H2.
    apply andb_prop in H2 as [H2 Hc]. apply andb_prop in H2 as [Ha Hb].
    split; [apply eqb_prop; exact Ha|]. split; apply inclb_incl; assumption. }
  assert (H3' : forall j, r + 1 <= j <= Z.min J1 J2 ->
     NoDup (G j) /\ Z.of_nat (length (G j)) <= n /\ incl (W1 j) (G j) /\ incl (W2 j) (G j)).
  { intros j Hj. specialize (H3 j ltac:(apply In_zrange; exact Hj)).
    apply andb_prop in H3 as [H3 Hd]. apply andb_prop in H3 as [H3 Hc].
    apply andb_prop in H3 as [Ha Hb].
    split; [apply nodupb_NoDup; exact Ha|]. split; [lia|]. split; apply inclb_incl; assumption. }
  constructor.
  - intros y Hy1 Hy2. specialize (H1 y Hy1). apply zinb_In in Hy2. rewrite Hy2 in H1.
    apply obool_eqb_eq. exact H1.
  - intros j y Hj Hy1 Hy2. apply (H2' j y Hj Hy1 Hy2).
  - intros j Hj. apply (H3' j Hj).
  - intros j Hj. apply (H3' j Hj).
  - intros j Hj. apply (H3' j Hj).
  - intros j Hj. apply (H3' j Hj).
  - intros j y w Hj Hy1 Hy2. destruct (H2' j y Hj Hy1 Hy2) as [_ [Ha Hb]].
    split; [apply Ha|apply Hb].
Qed.

(** * T1, packaged *)

Theorem loop_no_error_and_votes n r P W J : view_ok n r P W J ->
  let rw := fun j => Some (W j) in
  let js := zrange (r + 1) J in
  fame_loop P rw r js [] = Some (loop_ref P W r (sm n) js) /\
  exists votes res,
    fame_loop_votes P rw r js [] = Some (votes, res) /\
    fame_loop P rw r js [] = Some res /\
    (forall y b, aget y votes = Some b ->
       exists j, r + 1 <= j <= J /\ In y (W j) /\ b = Vz P W r (sm n) j y) /\
    (res = None -> forall j y, r + 1 <= j <= J -> In y (W j) ->
       aget y votes = Some (Vz P W r (sm n) j y)).
Proof.
  intros HV rw js. split; [apply loop_spec; exact HV|].
  destruct (loop_votes_spec n r P W J HV) as [votes [E [Hs Hc]]].
  exists votes, (loop_ref P W r (sm n) js). split; [exact E|].
  split; [apply loop_spec; exact HV|]. split; [exact Hs|].
  intros Hn j y Hj Hy. apply (Hc Hn j y); [lia|exact Hy].
Qed.

Theorem decision_iff_decider n r P W J : view_ok n r P W J -> forall v,
  fame_loop P (fun j => Some (W j)) r (zrange (r + 1) J) [] = Some (Some v) <->
  exists j y, r + 1 <= j <= J /\ In y (W j) /\ decider P W r (sm n) j y = true /\
              Vz P W r (sm n) j y = v.
Proof.
  intros HV v. rewrite (loop_spec n r P W J HV). rewrite <- (loop_ref_Some_iff n r P W J HV v).
  split; [intros H; injection H as H; exact H|intros ->; reflexivity].
Qed.
