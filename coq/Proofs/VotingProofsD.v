(* Safety of the virtual-voting loop (Model/Voting.v) for validator sets that CHANGE FROM ROUND TO ROUND.
   GENERATED from Proofs/VotingProofs.v by text substitution: the single number of validators n becomes a function
   q |-> n q (size of the set of round q); the quorum of voting round j is [smd n j] = the super-majority of the
   VOTERS' set, round j - 1 (what DecideFame uses after fix 05eda0b); view hypotheses [view_okD]:
   at most n j witnesses in round j, vp_sm P j = Some (smd n j), every round-j witness strongly sees at least
   smd n j witnesses of round j - 1.  T2 (a super-majority tally in a normal round forces unanimity), T3 (decisions on
   two views of one history agree), T4 (decisions are monotone in the view). *)
From Coq Require Import ZArith List Bool Lia ZifyBool ZifyNat Permutation.
From V Require Import Model.ZMap Model.Quorum Model.Voting Model.VotingRef Model.VotingRefD Proofs.QuorumProofs Proofs.VotingProofs.
Import ListNotations.
Open Scope Z_scope.
Ltac Zify.zify_post_hook ::= Z.div_mod_to_equations.

(** * The reference vote, by absolute round *)

Lemma Vz_baseD P W r s y : VzD P W r s (r + 1) y = seesb P y.
Proof. unfold VzD. replace (r + 1 - r - 1) with 0 by lia. reflexivity. Qed.

Lemma Vz_stepD P W r s j y : r + 2 <= j ->
  VzD P W r s j y =
  (if 0 <? (j - r) mod 4 then fst (tallyf (VzD P W r s (j - 1)) (ssset P W j y))
   else if s j <=? snd (tallyf (VzD P W r s (j - 1)) (ssset P W j y))
        then fst (tallyf (VzD P W r s (j - 1)) (ssset P W j y)) else vp_coin P y).
Proof.
  intros Hj. unfold VzD.
  replace (Z.to_nat (j - r - 1)) with (S (Z.to_nat (j - r - 2))) by lia.
  cbn [refvoteD].
  replace (r + 2 + Z.of_nat (Z.to_nat (j - r - 2))) with j by lia.
  replace (j - 1 - r - 1) with (j - r - 2) by lia.
  reflexivity.
Qed.

(** * Views *)

(* (P, W, J) is a well-formed view of the votes about a candidate witness of round r; round q has n q validators. *)
Record view_okD (n : Z -> Z) (r : Z) (P : vparams) (W : Z -> list Z) (J : Z) : Prop := {
  vd_n : forall j, 0 <= n j;
  vd_J : r <= J;
  vd_nodup : forall j, r + 1 <= j <= J -> NoDup (W j);
  vd_len : forall j, r + 1 <= j <= J -> Z.of_nat (length (W j)) <= n j;
  vd_distinct : forall j j' y, r + 1 <= j <= J -> r + 1 <= j' <= J ->
      In y (W j) -> In y (W j') -> j = j';
  vd_sm : forall j, r + 2 <= j <= J -> vp_sm P j = Some (smd n j);
  vd_prev : forall j, r + 2 <= j <= J ->
      exists prev, vp_prev P j = Some prev /\ Permutation prev (W (j - 1));
  vd_ss : forall j y w, r + 2 <= j <= J -> In y (W j) -> In w (W (j - 1)) ->
      vp_ss P j y w <> None;
  vd_quorum : forall j y, r + 2 <= j <= J -> In y (W j) ->
      smd n j <= Z.of_nat (length (ssset P W j y));
  vd_sees : forall y, r + 1 <= J -> In y (W (r + 1)) -> vp_sees P y <> None
}.

Section View.
Variables (n : Z -> Z) (r : Z) (P : vparams) (W : Z -> list Z) (J : Z).
Hypothesis HV : view_okD n r P W J.

Notation s := (smd n).
Notation V := (VzD P W r s).
Notation dec := (deciderD P W r s).

Lemma view_sm_posD j : 1 <= s j /\ 3 * s j > 2 * n (j - 1).
Proof. pose proof (vd_n _ _ _ _ _ HV (j - 1)). unfold smd. lia. Qed.

Lemma ssset_NoDupD j y : r + 2 <= j <= J -> NoDup (ssset P W j y).
Proof. intros Hj. unfold ssset. apply NoDup_filter. apply (vd_nodup _ _ _ _ _ HV). lia. Qed.

(** ** Invariants of the votes list *)

(* every recorded vote is the reference vote of a known witness *)
Definition votes_soundD (votes : list (Z * bool)) : Prop :=
  forall y b, aget y votes = Some b -> exists j, r + 1 <= j <= J /\ In y (W j) /\ b = V j y.
(* all witnesses of rounds before j0 have their vote recorded *)
Definition votes_completeD (votes : list (Z * bool)) (j0 : Z) : Prop :=
  forall j y, r + 1 <= j < j0 -> In y (W j) -> aget y votes = Some (V j y).
Definition votes_doneD (votes : list (Z * bool)) (j : Z) (done : list Z) : Prop :=
  forall y, In y done -> aget y votes = Some (V j y).

Lemma sound_nilD : votes_soundD [].
Proof. intros y b H; discriminate H. Qed.

Lemma complete_firstD votes : votes_completeD votes (r + 1).
Proof. intros j y Hj; lia. Qed.

Lemma sound_asetD votes j y : r + 1 <= j <= J -> In y (W j) ->
  votes_soundD votes -> votes_soundD (aset y (V j y) votes).
Proof.
  intros Hj Hy Hs y' b H. destruct (Z.eq_dec y y') as [<-|Hne].
  - rewrite aget_aset_eq in H. injection H as <-. exists j; auto.
  - rewrite aget_aset_neq in H by exact Hne. apply Hs; exact H.
Qed.

Lemma complete_asetD votes j y b : r + 1 <= j <= J -> In y (W j) ->
  votes_completeD votes j -> votes_completeD (aset y b votes) j.
Proof.
  intros Hj Hy Hc j' y' Hj' Hy'. rewrite aget_aset_neq; [apply Hc; assumption|].
  intros ->. pose proof (vd_distinct _ _ _ _ _ HV j j' y' Hj ltac:(lia) Hy Hy'). lia.
Qed.

Lemma done_asetD votes j done y : ~ In y done ->
  votes_doneD votes j done -> votes_doneD (aset y (V j y) votes) j (done ++ [y]).
Proof.
  intros Hn Hd y' Hy'. apply in_app_iff in Hy' as [Hy'|[<-|[]]].
  - rewrite aget_aset_neq; [apply Hd; exact Hy'|]. intros ->; contradiction.
  - apply aget_aset_eq.
Qed.

Lemma complete_nextD votes j : r + 1 <= j ->
  votes_completeD votes j -> votes_doneD votes j (W j) -> votes_completeD votes (j + 1).
Proof.
  intros Hj Hc Hd j' y Hj' Hy. destruct (Z.eq_dec j' j) as [->|Hne].
  - apply Hd; exact Hy.
  - apply Hc; [lia|exact Hy].
Qed.

(** ** One witness *)

(* with complete votes for the previous round, the tally read from the association list
   is the tally of the reference votes of the strongly-seen set *)
Lemma tally_refD votes j y prev : r + 2 <= j <= J -> In y (W j) ->
  votes_completeD votes j -> Permutation prev (W (j - 1)) ->
  tally votes (filter (ssb P j y) prev) = tallyf (V (j - 1)) (ssset P W j y).
Proof.
  intros Hj Hy Hc Hp. rewrite tally_tallyf.
  assert (Hp' : Permutation (filter (ssb P j y) prev) (ssset P W j y)).
  { apply NoDup_Permutation.
    - apply NoDup_filter. apply (Permutation_NoDup (Permutation_sym Hp)).
      apply (vd_nodup _ _ _ _ _ HV). lia.
    - apply ssset_NoDupD; exact Hj.
    - intros w. rewrite ssset_In, filter_In. split; intros [H1 H2]; split; auto.
      + apply (Permutation_in _ Hp); exact H1.
      + apply (Permutation_in _ (Permutation_sym Hp)); exact H1. }
  rewrite (tallyf_perm _ _ _ Hp'). apply tallyf_ext.
  intros w Hw. apply ssset_incl in Hw. unfold vote_of.
  rewrite (Hc (j - 1) w ltac:(lia) Hw). reflexivity.
Qed.

Lemma decider_firstD y : dec (r + 1) y = false.
Proof. unfold deciderD. replace (r + 1 - r) with 1 by lia. reflexivity. Qed.

Lemma step_specD j y rest votes : r + 1 <= j <= J -> In y (W j) -> votes_completeD votes j ->
  fame_round_j P r j (y :: rest) votes =
  if dec j y then Some (aset y (V j y) votes, Some (V j y))
  else fame_round_j P r j rest (aset y (V j y) votes).
Proof.
  intros Hj Hy Hc. destruct (Z.eq_dec j (r + 1)) as [->|Hne].
  - rewrite decider_firstD. cbn [fame_round_j].
    replace (r + 1 - r =? 1) with true by lia.
    rewrite Vz_baseD. unfold seesb.
    destruct (vp_sees P y) as [b|] eqn:E; [reflexivity|].
    exfalso. apply (vd_sees _ _ _ _ _ HV y ltac:(lia) Hy E).
  - assert (Hj2 : r + 2 <= j <= J) by lia.
    cbn [fame_round_j].
    replace (j - r =? 1) with false by lia.
    destruct (vd_prev _ _ _ _ _ HV j Hj2) as [prev [Eprev Hperm]].
    rewrite Eprev, (vd_sm _ _ _ _ _ HV j Hj2).
    rewrite ss_witnesses_ok.
    2:{ intros w Hw. apply (vd_ss _ _ _ _ _ HV j y w Hj2 Hy).
        apply (Permutation_in _ Hperm); exact Hw. }
    rewrite (tally_refD votes j y prev Hj2 Hy Hc Hperm).
    rewrite (Vz_stepD P W r s j y) by lia. unfold deciderD.
    replace (2 <=? j - r) with true by lia. cbn [andb].
    destruct (tallyf (V (j - 1)) (ssset P W j y)) as [v t]. cbn [fst snd].
    destruct (0 <? (j - r) mod 4); cbn [andb]; destruct (s j <=? t); reflexivity.
Qed.

(** ** One round *)

Lemma round_ref_consD j y rest :
  round_refD P W r s j (y :: rest) = if dec j y then Some (V j y) else round_refD P W r s j rest.
Proof. unfold round_refD. cbn [find]. destruct (dec j y); reflexivity. Qed.

Lemma round_specD j : r + 1 <= j <= J ->
  forall ys done votes, W j = done ++ ys ->
  votes_soundD votes -> votes_completeD votes j -> votes_doneD votes j done ->
  exists votes', fame_round_j P r j ys votes = Some (votes', round_refD P W r s j ys) /\
    votes_soundD votes' /\
    (round_refD P W r s j ys = None -> votes_completeD votes' (j + 1)).
Proof.
  intros Hj. induction ys as [|y rest IH]; intros done votes HW Hs Hc Hd.
  - exists votes. cbn [fame_round_j]. split; [reflexivity|]. split; [exact Hs|].
    intros _. apply complete_nextD; [lia|exact Hc|]. rewrite HW, app_nil_r. exact Hd.
  - assert (Hy : In y (W j)) by (rewrite HW; apply in_app_iff; right; left; reflexivity).
    rewrite (step_specD j y rest votes Hj Hy Hc), round_ref_consD.
    destruct (dec j y) eqn:Ed.
    + eexists. split; [reflexivity|]. split; [apply sound_asetD; assumption|discriminate].
    + apply (IH (done ++ [y])).
      * rewrite HW, <- app_assoc. reflexivity.
      * apply sound_asetD; assumption.
      * apply (complete_asetD votes j y _ Hj Hy Hc).
      * apply done_asetD; [|exact Hd].
        pose proof (vd_nodup _ _ _ _ _ HV j Hj) as Hnd. rewrite HW in Hnd.
        apply NoDup_remove_2 in Hnd. intros Hin. apply Hnd. apply in_app_iff; left; exact Hin.
Qed.

(** ** The loop *)

Lemma fame_loop_votes_fst Q rw r0 js votes :
  fame_loop Q rw r0 js votes = option_map snd (fame_loop_votes Q rw r0 js votes).
Proof.
  revert votes. induction js as [|j js IH]; intros votes; cbn [fame_loop fame_loop_votes].
  - reflexivity.
  - destruct (rw j) as [ws|]; [|reflexivity].
    destruct (fame_round_j Q r0 j ws votes) as [[votes' [v|]]|]; [reflexivity|apply IH|reflexivity].
Qed.

Lemma loop_spec_genD m : forall j0 votes, r + 1 <= j0 -> j0 + Z.of_nat m = J + 1 ->
  votes_soundD votes -> votes_completeD votes j0 ->
  exists votes',
    fame_loop_votes P (fun j => Some (W j)) r (zseq j0 m) votes
      = Some (votes', loop_refD P W r s (zseq j0 m)) /\
    votes_soundD votes' /\
    (loop_refD P W r s (zseq j0 m) = None -> votes_completeD votes' (J + 1)).
Proof.
  induction m as [|m IH]; intros j0 votes Hj0 Hm Hs Hc.
  - exists votes. cbn [zseq fame_loop_votes loop_refD]. split; [reflexivity|]. split; [exact Hs|].
    intros _. replace (J + 1) with j0 by lia. exact Hc.
  - cbn [zseq fame_loop_votes loop_refD].
    destruct (round_specD j0 ltac:(lia) (W j0) [] votes eq_refl Hs Hc ltac:(intros y [])) as
      [votes1 [E1 [Hs1 Hc1]]].
    rewrite E1. destruct (round_refD P W r s j0 (W j0)) as [v|] eqn:Er.
    + exists votes1. split; [reflexivity|]. split; [exact Hs1|discriminate].
    + apply IH; [lia|lia|exact Hs1|apply Hc1; reflexivity].
Qed.

Theorem loop_votes_specD :
  exists votes',
    fame_loop_votes P (fun j => Some (W j)) r (zrange (r + 1) J) []
      = Some (votes', loop_refD P W r s (zrange (r + 1) J)) /\
    votes_soundD votes' /\
    (loop_refD P W r s (zrange (r + 1) J) = None -> votes_completeD votes' (J + 1)).
Proof.
  pose proof (vd_J _ _ _ _ _ HV) as HJ. unfold zrange.
  apply loop_spec_genD; [lia|lia|apply sound_nilD|apply complete_firstD].
Qed.

Theorem loop_specD :
  fame_loop P (fun j => Some (W j)) r (zrange (r + 1) J) []
  = Some (loop_refD P W r s (zrange (r + 1) J)).
Proof.
  rewrite fame_loop_votes_fst. destruct loop_votes_specD as [votes' [E _]]. rewrite E. reflexivity.
Qed.

End View.

(** * Characterisation of the reference loop *)

Lemma round_ref_SomeD P W r s j ys v : round_refD P W r s j ys = Some v ->
  exists y, In y ys /\ deciderD P W r s j y = true /\ VzD P W r s j y = v.
Proof.
  unfold round_refD. destruct (find (deciderD P W r s j) ys) as [y|] eqn:E; [|discriminate].
  intros H; injection H as <-. apply find_some in E. exists y; tauto.
Qed.

Lemma round_ref_NoneD P W r s j ys : round_refD P W r s j ys = None <->
  forall y, In y ys -> deciderD P W r s j y = false.
Proof.
  unfold round_refD. destruct (find (deciderD P W r s j) ys) as [y|] eqn:E.
  - split; [discriminate|]. intros H. apply find_some in E as [E1 E2].
    rewrite (H y E1) in E2; discriminate.
  - split; [|reflexivity]. intros _ y Hy. apply (find_none _ _ E y Hy).
Qed.

Lemma loop_ref_SomeD P W r s js v : loop_refD P W r s js = Some v ->
  exists j y, In j js /\ In y (W j) /\ deciderD P W r s j y = true /\ VzD P W r s j y = v.
Proof.
  induction js as [|j js IH]; cbn [loop_refD]; [discriminate|].
  destruct (round_refD P W r s j (W j)) as [v'|] eqn:E.
  - intros H; injection H as <-. apply round_ref_SomeD in E as [y [H1 [H2 H3]]].
    exists j, y. cbn [In]; auto.
  - intros H. destruct (IH H) as [j' [y [H1 H2]]]. exists j', y. cbn [In]; auto.
Qed.

Lemma loop_ref_NoneD P W r s js : loop_refD P W r s js = None <->
  forall j y, In j js -> In y (W j) -> deciderD P W r s j y = false.
Proof.
  induction js as [|j js IH]; cbn [loop_refD].
  - split; [intros _ j y []|reflexivity].
  - destruct (round_refD P W r s j (W j)) as [v'|] eqn:E.
    + split; [discriminate|]. intros H. exfalso.
      apply round_ref_SomeD in E as [y [H1 [H2 _]]].
      rewrite (H j y (or_introl eq_refl) H1) in H2; discriminate.
    + rewrite IH. rewrite round_ref_NoneD in E. split.
      * intros H j' y [<-|Hj'] Hy; [apply E; exact Hy|apply H; assumption].
      * intros H j' y Hj' Hy. apply H; [right; exact Hj'|exact Hy].
Qed.

(* what a deciderD's value is: the majority of its tally *)
Lemma decider_invD P W r s j y : deciderD P W r s j y = true ->
  r + 2 <= j /\ 0 < (j - r) mod 4 /\
  s j <= snd (tallyf (VzD P W r s (j - 1)) (ssset P W j y)) /\
  VzD P W r s j y = fst (tallyf (VzD P W r s (j - 1)) (ssset P W j y)).
Proof.
  unfold deciderD. intros H. apply andb_prop in H as [H H3]. apply andb_prop in H as [H1 H2].
  assert (Hj : r + 2 <= j) by lia.
  rewrite (Vz_stepD P W r s j y Hj). rewrite H2. repeat split; lia.
Qed.

(** * Unanimity *)

Section View2.
Variables (n : Z -> Z) (r : Z) (P : vparams) (W : Z -> list Z) (J : Z).
Hypothesis HV : view_okD n r P W J.

Notation s := (smd n).
Notation V := (VzD P W r s).
Notation dec := (deciderD P W r s).

(* Lemma A: if at least s witnesses of round j-1 (within some duplicate-free universe U of
   at most n witnesses containing the view's round j-1) vote v as far as the view knows them,
   every witness of the normal round j votes v. *)
Lemma force_roundD j (U A : list Z) v :
  r + 2 <= j <= J -> 0 < (j - r) mod 4 ->
  NoDup U -> Z.of_nat (length U) <= n (j - 1) -> incl (W (j - 1)) U ->
  NoDup A -> incl A U -> s j <= Z.of_nat (length A) ->
  (forall w, In w A -> In w (W (j - 1)) -> V (j - 1) w = v) ->
  forall y, In y (W j) ->
    V j y = v /\ tallyf (V (j - 1)) (ssset P W j y) = (v, cntv (V (j - 1)) v (ssset P W j y)).
Proof.
  intros Hj Hn HU HUn HWU HA HAU HAs Hv y Hy.
  destruct (view_sm_posD n r P W J HV j) as [_ H3s].
  assert (Hm : cntv (V (j - 1)) (negb v) (ssset P W j y) < cntv (V (j - 1)) v (ssset P W j y)).
  { apply (majority_forced U A (ssset P W j y) (V (j - 1)) v (n (j - 1)) (s j)); auto.
    - apply (ssset_NoDupD n r P W J HV); exact Hj.
    - intros w Hw. apply HWU. apply ssset_incl in Hw. exact Hw.
    - apply (vd_quorum _ _ _ _ _ HV); assumption.
    - intros w HwA HwS. apply Hv; [exact HwA|]. apply ssset_incl in HwS. exact HwS. }
  pose proof (tallyf_major _ _ _ Hm) as Ht. split; [|exact Ht].
  rewrite (Vz_stepD P W r s j y) by lia. rewrite Ht. cbn [fst].
  replace (0 <? (j - r) mod 4) with true by lia. reflexivity.
Qed.

(* Lemma B, one step: a unanimous round forces the next one, normal or coin *)
Lemma unanimous_stepD j v : r + 2 <= j <= J ->
  (forall w, In w (W (j - 1)) -> V (j - 1) w = v) ->
  forall y, In y (W j) ->
    V j y = v /\
    tallyf (V (j - 1)) (ssset P W j y) = (v, Z.of_nat (length (ssset P W j y))).
Proof.
  intros Hj Hu y Hy.
  destruct (view_sm_posD n r P W J HV j) as [Hs1 _].
  pose proof (vd_quorum _ _ _ _ _ HV j y Hj Hy) as Hq.
  assert (Ht : tallyf (V (j - 1)) (ssset P W j y) = (v, Z.of_nat (length (ssset P W j y)))).
  { apply tallyf_unanimous; [|lia]. intros w Hw. apply Hu. apply ssset_incl in Hw. exact Hw. }
  split; [|exact Ht].
  rewrite (Vz_stepD P W r s j y) by lia. rewrite Ht. cbn [fst snd].
  replace (s j <=? Z.of_nat (length (ssset P W j y))) with true by lia.
  destruct (0 <? (j - r) mod 4); reflexivity.
Qed.

Lemma unanimous_foreverD j0 v : r + 1 <= j0 ->
  (forall w, In w (W j0) -> V j0 w = v) ->
  forall k j, j = j0 + Z.of_nat k -> j <= J -> forall y, In y (W j) -> V j y = v.
Proof.
  intros Hj0 Hu. induction k as [|k IH]; intros j Hj HjJ y Hy.
  - replace j with j0 by lia. apply Hu. replace j0 with j by lia. exact Hy.
  - apply (unanimous_stepD j v ltac:(lia)); [|exact Hy].
    intros w Hw. apply (IH (j - 1)); [lia|lia|exact Hw].
Qed.

Lemma unanimous_fromD j0 v : r + 1 <= j0 ->
  (forall w, In w (W j0) -> V j0 w = v) ->
  forall j y, j0 <= j <= J -> In y (W j) -> V j y = v.
Proof.
  intros Hj0 Hu j y Hj Hy.
  apply (unanimous_foreverD j0 v Hj0 Hu (Z.to_nat (j - j0)) j); [lia|lia|exact Hy].
Qed.

(* the voters for the majority value inside the strongly-seen set of y *)
Definition majority_votersD (j y : Z) : list Z :=
  filter (fun w => Bool.eqb (V (j - 1) w) (fst (tallyf (V (j - 1)) (ssset P W j y)))) (ssset P W j y).

Lemma majority_voters_propsD j y : r + 2 <= j <= J ->
  NoDup (majority_votersD j y) /\ incl (majority_votersD j y) (W (j - 1)) /\
  Z.of_nat (length (majority_votersD j y)) = snd (tallyf (V (j - 1)) (ssset P W j y)) /\
  forall w, In w (majority_votersD j y) ->
    V (j - 1) w = fst (tallyf (V (j - 1)) (ssset P W j y)).
Proof.
  intros Hj. unfold majority_votersD. repeat split.
  - apply NoDup_filter. apply (ssset_NoDupD n r P W J HV); exact Hj.
  - intros w Hw. apply filter_In in Hw as [Hw _]. apply ssset_incl in Hw. exact Hw.
  - rewrite tallyf_snd. reflexivity.
  - intros w Hw. apply filter_In in Hw as [_ Hw]. apply eqb_prop in Hw. exact Hw.
Qed.

(** T2: a supermajority tally in a normal round forces unanimity from then on. *)
Theorem supermajority_forces_unanimityD j y v t :
  r + 2 <= j <= J -> In y (W j) -> 0 < (j - r) mod 4 ->
  tallyf (V (j - 1)) (ssset P W j y) = (v, t) -> s j <= t ->
  (forall y', In y' (W j) -> V j y' = v) /\
  (forall j' y'', j < j' <= J -> In y'' (W j') -> V j' y'' = v).
Proof.
  intros Hj Hy Hn Ht Hst.
  destruct (majority_voters_propsD j y Hj) as [HA1 [HA2 [HA3 HA4]]]. rewrite Ht in *. cbn [fst snd] in *.
  assert (Hall : forall y', In y' (W j) -> V j y' = v).
  { intros y' Hy'.
    apply (force_roundD j (W (j - 1)) (majority_votersD j y) v Hj Hn); auto.
    - apply (vd_nodup _ _ _ _ _ HV); lia.
    - apply (vd_len _ _ _ _ _ HV); lia.
    - apply incl_refl.
    - lia. }
  split; [exact Hall|].
  intros j' y'' Hj' Hy''. apply (unanimous_fromD j v ltac:(lia) Hall j' y''); [lia|exact Hy''].
Qed.

(* all deciders of one view agree (also a special case of cross-view agreement below) *)
Lemma deciders_agreeD j1 y1 j2 y2 :
  r + 1 <= j1 <= J -> In y1 (W j1) -> dec j1 y1 = true ->
  r + 1 <= j2 <= J -> In y2 (W j2) -> dec j2 y2 = true ->
  j1 <= j2 -> V j1 y1 = V j2 y2.
Proof.
  intros Hj1 Hy1 Hd1 Hj2 Hy2 Hd2 Hle.
  apply decider_invD in Hd1 as [Hr1 [Hn1 [Hs1 Hv1]]].
  destruct (tallyf (V (j1 - 1)) (ssset P W j1 y1)) as [v t] eqn:Et. cbn [fst snd] in *.
  destruct (supermajority_forces_unanimityD j1 y1 v t ltac:(lia) Hy1 Hn1 Et Hs1) as [Ha Hb].
  rewrite Hv1. destruct (Z.eq_dec j1 j2) as [<-|Hne].
  - symmetry; apply Ha; exact Hy2.
  - symmetry; apply Hb; [lia|exact Hy2].
Qed.

Lemma loop_ref_Some_iffD v :
  loop_refD P W r s (zrange (r + 1) J) = Some v <->
  exists j y, r + 1 <= j <= J /\ In y (W j) /\ dec j y = true /\ V j y = v.
Proof.
  split.
  - intros H. apply loop_ref_SomeD in H as [j [y [H1 H2]]]. apply In_zrange in H1.
    exists j, y; auto.
  - intros [j [y [Hj [Hy [Hd Hv]]]]].
    destruct (loop_refD P W r s (zrange (r + 1) J)) as [v'|] eqn:E.
    + apply loop_ref_SomeD in E as [j' [y' [Hj' [Hy' [Hd' Hv']]]]]. apply In_zrange in Hj'.
      f_equal. rewrite <- Hv, <- Hv'.
      destruct (Z.le_ge_cases j j') as [Hle|Hle].
      * symmetry. apply deciders_agreeD; auto.
      * apply deciders_agreeD; auto; lia.
    + exfalso. rewrite loop_ref_NoneD in E.
      rewrite (E j y ltac:(apply In_zrange; exact Hj) Hy) in Hd. discriminate.
Qed.

End View2.

(** * Two views of the same history *)

(* G j: all round-j witnesses of the history (at most one per validator).  Both views know
   sub-lists of G j; they read the same sees/coin bits for the witnesses they share, and a
   witness known to both strongly sees the same SET of witnesses of the previous round in
   both (these are ancestors of y, hence known to every view that knows y). *)
Record same_historyD (n : Z -> Z) (r : Z) (P1 : vparams) (W1 : Z -> list Z) (J1 : Z)
       (P2 : vparams) (W2 : Z -> list Z) (J2 : Z) (G : Z -> list Z) : Prop := {
  shd_sees : forall y, In y (W1 (r + 1)) -> In y (W2 (r + 1)) -> vp_sees P1 y = vp_sees P2 y;
  shd_coin : forall j y, r + 2 <= j <= Z.min J1 J2 -> In y (W1 j) -> In y (W2 j) ->
      vp_coin P1 y = vp_coin P2 y;
  shd_G_nodup : forall j, r + 1 <= j <= Z.min J1 J2 -> NoDup (G j);
  shd_G_len : forall j, r + 1 <= j <= Z.min J1 J2 -> Z.of_nat (length (G j)) <= n j;
  shd_W1 : forall j, r + 1 <= j <= Z.min J1 J2 -> incl (W1 j) (G j);
  shd_W2 : forall j, r + 1 <= j <= Z.min J1 J2 -> incl (W2 j) (G j);
  shd_ss : forall j y w, r + 2 <= j <= Z.min J1 J2 -> In y (W1 j) -> In y (W2 j) ->
      (In w (ssset P1 W1 j y) <-> In w (ssset P2 W2 j y))
}.

Lemma same_history_symD n r P1 W1 J1 P2 W2 J2 G :
  same_historyD n r P1 W1 J1 P2 W2 J2 G -> same_historyD n r P2 W2 J2 P1 W1 J1 G.
Proof.
  intros [H1 H2 H3 H4 H5 H6 H7]. rewrite Z.min_comm in *.
  constructor; auto.
  - intros y Ha Hb. symmetry; auto.
  - intros j y Hj Ha Hb. symmetry; eauto.
  - intros j y w Hj Ha Hb. symmetry; auto.
Qed.

Section TwoViews.
Variables (n : Z -> Z) (r : Z) (P1 : vparams) (W1 : Z -> list Z) (J1 : Z)
          (P2 : vparams) (W2 : Z -> list Z) (J2 : Z) (G : Z -> list Z).
Hypothesis HV1 : view_okD n r P1 W1 J1.
Hypothesis HV2 : view_okD n r P2 W2 J2.
Hypothesis HS : same_historyD n r P1 W1 J1 P2 W2 J2 G.

Notation s := (smd n).
Notation V1 := (VzD P1 W1 r s).
Notation V2 := (VzD P2 W2 r s).
Notation M := (Z.min J1 J2).

Lemma ssset_permD j y : r + 2 <= j <= M -> In y (W1 j) -> In y (W2 j) ->
  Permutation (ssset P1 W1 j y) (ssset P2 W2 j y).
Proof.
  intros Hj Hy1 Hy2. apply NoDup_Permutation.
  - apply (ssset_NoDupD n r P1 W1 J1 HV1); lia.
  - apply (ssset_NoDupD n r P2 W2 J2 HV2); lia.
  - intros w. apply (shd_ss _ _ _ _ _ _ _ _ _ HS); assumption.
Qed.

Lemma tally_agreeD j y : r + 2 <= j <= M -> In y (W1 j) -> In y (W2 j) ->
  (forall w, In w (W1 (j - 1)) -> In w (W2 (j - 1)) -> V1 (j - 1) w = V2 (j - 1) w) ->
  tallyf (V1 (j - 1)) (ssset P1 W1 j y) = tallyf (V2 (j - 1)) (ssset P2 W2 j y).
Proof.
  intros Hj Hy1 Hy2 Hprev.
  rewrite (tallyf_perm _ _ _ (ssset_permD j y Hj Hy1 Hy2)).
  apply tallyf_ext. intros w Hw2.
  assert (Hw1 : In w (ssset P1 W1 j y)) by (apply (shd_ss _ _ _ _ _ _ _ _ _ HS); assumption).
  apply ssset_incl in Hw1. apply ssset_incl in Hw2. apply Hprev; assumption.
Qed.

(* the reference vote of a shared witness does not depend on the view *)
Lemma V_agree_natD : forall k j, j = r + 1 + Z.of_nat k -> j <= M ->
  forall y, In y (W1 j) -> In y (W2 j) -> V1 j y = V2 j y.
Proof.
  induction k as [|k IH]; intros j Hj HjM y Hy1 Hy2.
  - replace j with (r + 1) in * by lia. rewrite !Vz_baseD. unfold seesb.
    rewrite (shd_sees _ _ _ _ _ _ _ _ _ HS y Hy1 Hy2). reflexivity.
  - rewrite (Vz_stepD P1 W1 r s j y) by lia. rewrite (Vz_stepD P2 W2 r s j y) by lia.
    rewrite (tally_agreeD j y ltac:(lia) Hy1 Hy2).
    + rewrite (shd_coin _ _ _ _ _ _ _ _ _ HS j y ltac:(lia) Hy1 Hy2). reflexivity.
    + intros w Hw1 Hw2. apply (IH (j - 1)); [lia|lia|assumption|assumption].
Qed.

Lemma V_agreeD j y : r + 1 <= j <= M -> In y (W1 j) -> In y (W2 j) -> V1 j y = V2 j y.
Proof. intros Hj. apply (V_agree_natD (Z.to_nat (j - r - 1)) j); lia. Qed.

Lemma decider_agreeD j y : r + 1 <= j <= M -> In y (W1 j) -> In y (W2 j) ->
  deciderD P1 W1 r s j y = deciderD P2 W2 r s j y.
Proof.
  intros Hj Hy1 Hy2. destruct (Z.eq_dec j (r + 1)) as [->|Hne].
  - unfold deciderD. replace (r + 1 - r) with 1 by lia. reflexivity.
  - unfold deciderD. rewrite (tally_agreeD j y ltac:(lia) Hy1 Hy2); [reflexivity|].
    intros w Hw1 Hw2. apply V_agreeD; [lia|assumption|assumption].
Qed.

(* a decision in view 1 at round j1 forces every vote of view 2 from round j1 on *)
Lemma decision_forces_other_viewD j1 y1 :
  r + 1 <= j1 <= M -> In y1 (W1 j1) -> deciderD P1 W1 r s j1 y1 = true ->
  forall j2 y2, j1 <= j2 <= J2 -> In y2 (W2 j2) -> V2 j2 y2 = V1 j1 y1.
Proof.
  intros Hj1 Hy1 Hd1 j2 y2 Hj2 Hy2.
  apply decider_invD in Hd1 as [Hr1 [Hn1 [Hs1 Hv1]]].
  destruct (majority_voters_propsD n r P1 W1 J1 HV1 j1 y1 ltac:(lia)) as [HA1 [HA2 [HA3 HA4]]].
  rewrite Hv1.
  set (v := fst (tallyf (V1 (j1 - 1)) (ssset P1 W1 j1 y1))) in *.
  assert (Hall : forall y', In y' (W2 j1) -> V2 j1 y' = v).
  { intros y' Hy'.
    apply (force_roundD n r P2 W2 J2 HV2 j1 (G (j1 - 1)) (majority_votersD n r P1 W1 j1 y1) v);
      try assumption; try lia.
    - apply (shd_G_nodup _ _ _ _ _ _ _ _ _ HS); lia.
    - apply (shd_G_len _ _ _ _ _ _ _ _ _ HS); lia.
    - apply (shd_W2 _ _ _ _ _ _ _ _ _ HS); lia.
    - intros w Hw. apply (shd_W1 _ _ _ _ _ _ _ _ _ HS (j1 - 1)); [lia|]. apply HA2; exact Hw.
    - intros w HwA Hw2. rewrite <- (V_agreeD (j1 - 1) w); [apply HA4; exact HwA|lia| |exact Hw2].
      apply HA2; exact HwA. }
  apply (unanimous_fromD n r P2 W2 J2 HV2 j1 v ltac:(lia) Hall j2 y2); [lia|exact Hy2].
Qed.

End TwoViews.

(** T3: decisions reached on two views of the same history agree. *)
Theorem decisions_agreeD n r P1 W1 J1 P2 W2 J2 G v1 v2 :
  view_okD n r P1 W1 J1 -> view_okD n r P2 W2 J2 ->
  same_historyD n r P1 W1 J1 P2 W2 J2 G ->
  fame_loop P1 (fun j => Some (W1 j)) r (zrange (r + 1) J1) [] = Some (Some v1) ->
  fame_loop P2 (fun j => Some (W2 j)) r (zrange (r + 1) J2) [] = Some (Some v2) ->
  v1 = v2.
Proof.
  intros HV1 HV2 HS E1 E2.
  rewrite (loop_specD n r P1 W1 J1 HV1) in E1. rewrite (loop_specD n r P2 W2 J2 HV2) in E2.
  injection E1 as E1. injection E2 as E2.
  apply loop_ref_SomeD in E1 as [j1 [y1 [Hj1 [Hy1 [Hd1 Hv1]]]]]. apply In_zrange in Hj1.
  apply loop_ref_SomeD in E2 as [j2 [y2 [Hj2 [Hy2 [Hd2 Hv2]]]]]. apply In_zrange in Hj2.
  rewrite <- Hv1, <- Hv2.
  destruct (Z.le_ge_cases j1 j2) as [Hle|Hle].
  - symmetry.
    apply (decision_forces_other_viewD n r P1 W1 J1 P2 W2 J2 G HV1 HV2 HS j1 y1); auto; lia.
  - apply (decision_forces_other_viewD n r P2 W2 J2 P1 W1 J1 G HV2 HV1 (same_history_symD _ _ _ _ _ _ _ _ _ HS) j2 y2);
      auto; lia.
Qed.

(** T4: a decision reached on a view is reached, with the same value, on any larger view. *)
Theorem decision_monotoneD n r P1 W1 J1 P2 W2 J2 G v :
  view_okD n r P1 W1 J1 -> view_okD n r P2 W2 J2 ->
  same_historyD n r P1 W1 J1 P2 W2 J2 G ->
  J1 <= J2 -> (forall j, r + 1 <= j <= J1 -> incl (W1 j) (W2 j)) ->
  fame_loop P1 (fun j => Some (W1 j)) r (zrange (r + 1) J1) [] = Some (Some v) ->
  fame_loop P2 (fun j => Some (W2 j)) r (zrange (r + 1) J2) [] = Some (Some v).
Proof.
  intros HV1 HV2 HS HJ Hincl E1.
  pose proof E1 as E1'.
  rewrite (loop_specD n r P1 W1 J1 HV1) in E1'. injection E1' as E1'.
  apply loop_ref_SomeD in E1' as [j [y [Hj [Hy [Hd Hv]]]]]. apply In_zrange in Hj.
  assert (Hy2 : In y (W2 j)) by (apply (Hincl j Hj); exact Hy).
  pose proof (loop_specD n r P2 W2 J2 HV2) as E2.
  destruct (loop_refD P2 W2 r (smd n) (zrange (r + 1) J2)) as [v2|] eqn:E.
  - rewrite E2. rewrite (decisions_agreeD n r P1 W1 J1 P2 W2 J2 G v v2 HV1 HV2 HS E1 E2). reflexivity.
  - exfalso. rewrite loop_ref_NoneD in E.
    rewrite (decider_agreeD n r P1 W1 J1 P2 W2 J2 G HV1 HV2 HS j y ltac:(lia) Hy Hy2) in Hd.
    rewrite (E j y ltac:(apply In_zrange; lia) Hy2) in Hd. discriminate.
Qed.

(** * Iteration order *)


(** * T1, packaged *)

Theorem loop_no_error_and_votesD n r P W J : view_okD n r P W J ->
  let rw := fun j => Some (W j) in
  let js := zrange (r + 1) J in
  fame_loop P rw r js [] = Some (loop_refD P W r (smd n) js) /\
  exists votes res,
    fame_loop_votes P rw r js [] = Some (votes, res) /\
    fame_loop P rw r js [] = Some res /\
    (forall y b, aget y votes = Some b ->
       exists j, r + 1 <= j <= J /\ In y (W j) /\ b = VzD P W r (smd n) j y) /\
    (res = None -> forall j y, r + 1 <= j <= J -> In y (W j) ->
       aget y votes = Some (VzD P W r (smd n) j y)).
Proof.
  intros HV rw js. split; [apply loop_specD; exact HV|].
  destruct (loop_votes_specD n r P W J HV) as [votes [E [Hs Hc]]].
  exists votes, (loop_refD P W r (smd n) js). split; [exact E|].
  split; [apply loop_specD; exact HV|]. split; [exact Hs|].
  intros Hn j y Hj Hy. apply (Hc Hn j y); [lia|exact Hy].
Qed.

Theorem decision_iff_deciderD n r P W J : view_okD n r P W J -> forall v,
  fame_loop P (fun j => Some (W j)) r (zrange (r + 1) J) [] = Some (Some v) <->
  exists j y, r + 1 <= j <= J /\ In y (W j) /\ deciderD P W r (smd n) j y = true /\
              VzD P W r (smd n) j y = v.
Proof.
  intros HV v. rewrite (loop_specD n r P W J HV). rewrite <- (loop_ref_Some_iffD n r P W J HV v).
  split; [intros H; injection H as H; exact H|intros ->; reflexivity].
Qed.
