(* Safety of Hashgraph virtual voting (DecideFame) over the abstract model Model/Voting.v.
   Statements only; every proof is `exact <lemma>`.

   Vocabulary (Model/VotingRef.v, Proofs/VotingProofs.v):
   - view_ok n r P W J : (P, W, J) is a well-formed view of the votes about a candidate
     witness of round r with n validators (hypotheses H1-H4; see VOTE_view_ok_intro);
   - Vz P W r s j y : the reference vote of witness y of round j (recursion on j - r);
   - ssset P W j y : the round-(j-1) witnesses strongly seen by y;
   - tallyf f l : (majority value, its count) of the votes f over l, ties count as true;
   - decider P W r s j y : j - r >= 2, normal round, tally >= s;
   - loop_ref : the first decider's vote, searching rounds and witnesses in listing order;
   - same_history : two views of one history with global witness lists G. *)
From Coq Require Import ZArith List Bool Permutation.
From V Require Import Model.ZMap Model.Quorum Model.Voting Model.VotingRef Model.VotingExamples
                      Proofs.QuorumProofs Proofs.VotingProofs.
Import ListNotations.
Open Scope Z_scope.

(* The view hypotheses in their literal form (H1: duplicate-free rounds of at most n
   witnesses with globally distinct ids; H2: static supermajority; H3: previous round,
   strongly-sees lookups defined, every witness strongly sees >= sm n witnesses of the
   previous round; H4: sees lookups defined) imply view_ok.  (view_ok is slightly weaker:
   vp_prev may list the previous round in any order, vp_sm is needed from r+2 only.) *)
Theorem VOTE_view_ok_intro : forall n r P W J,
  1 <= n -> r <= J ->
  (forall j, r + 1 <= j <= J -> NoDup (W j) /\ Z.of_nat (length (W j)) <= n) ->
  (forall j j' y, r + 1 <= j <= J -> r + 1 <= j' <= J -> In y (W j) -> In y (W j') -> j = j') ->
  (forall j, r + 1 <= j <= J -> vp_sm P j = Some (sm n)) ->
  (forall j, r + 2 <= j <= J -> vp_prev P j = Some (W (j - 1))) ->
  (forall j y w, r + 2 <= j <= J -> In y (W j) -> In w (W (j - 1)) -> vp_ss P j y w <> None) ->
  (forall j y, r + 2 <= j <= J -> In y (W j) -> sm n <= Z.of_nat (length (ssset P W j y))) ->
  (forall y, In y (W (r + 1)) -> vp_sees P y <> None) ->
  view_ok n r P W J.
Proof. exact view_ok_intro. Qed.
Print Assumptions VOTE_view_ok_intro.

(* T1: the loop never hits a store error; its result is the reference loop's; every vote it
   records for a witness y is the reference vote of y; and when it ends undecided every known
   witness has its vote recorded.  (fame_loop_votes is fame_loop returning the votes too.) *)
Theorem VOTE_T1_votes_are_reference_votes : forall n r P W J, view_ok n r P W J ->
  let rw := fun j => Some (W j) in
  let js := zrange (r + 1) J in
  fame_loop P rw r js [] = Some (loop_ref P W r (sm n) js) /\
  exists votes res,
    fame_loop_votes P rw r js [] = Some (votes, res) /\
    fame_loop P rw r js [] = Some res /\
    (forall y b, aget y votes = Some b ->
       exists j, r + 1 <= j <= J /\ In y (W j) /\ b = Vz P W r (sm n) j y) /\
    (res = None -> forall j y, r + 1 <= j <= J -> In y (W j) ->
       aget y votes = Some (Vz P W r (sm n) j y)).
Proof. exact loop_no_error_and_votes. Qed.
Print Assumptions VOTE_T1_votes_are_reference_votes.

(* T1, as an invariant of the votes list preserved by the y loop of any round j, started
   after any prefix `done` of the round: sound = every recorded vote is a reference vote;
   complete j = all witnesses of rounds < j are recorded. *)
Theorem VOTE_T1_round_invariant : forall n r P W J, view_ok n r P W J ->
  forall j, r + 1 <= j <= J ->
  forall ys done votes, W j = done ++ ys ->
  votes_sound n r P W J votes -> votes_complete n r P W votes j ->
  votes_done n r P W votes j done ->
  exists votes', fame_round_j P r j ys votes = Some (votes', round_ref P W r (sm n) j ys) /\
    votes_sound n r P W J votes' /\
    (round_ref P W r (sm n) j ys = None -> votes_complete n r P W votes' (j + 1)).
Proof. exact round_spec. Qed.
Print Assumptions VOTE_T1_round_invariant.

(* the instrumented loop is the loop *)
Theorem VOTE_fame_loop_votes_result : forall P rw r js votes,
  fame_loop P rw r js votes = option_map snd (fame_loop_votes P rw r js votes).
Proof. exact fame_loop_votes_fst. Qed.
Print Assumptions VOTE_fame_loop_votes_result.

(* the tally the loop reads from the association list is the reference tally *)
Theorem VOTE_tally_is_reference_tally : forall n r P W J, view_ok n r P W J ->
  forall votes j y prev, r + 2 <= j <= J -> In y (W j) ->
  votes_complete n r P W votes j -> Permutation prev (W (j - 1)) ->
  tally votes (filter (ssb P j y) prev) = tallyf (Vz P W r (sm n) (j - 1)) (ssset P W j y).
Proof. exact tally_ref. Qed.
Print Assumptions VOTE_tally_is_reference_tally.

(* the reference vote of a witness does not depend on the view (order of listing, other
   known witnesses): two views of the same history give every shared witness the same vote *)
Theorem VOTE_vote_independent_of_view : forall n r P1 W1 J1 P2 W2 J2 G,
  view_ok n r P1 W1 J1 -> view_ok n r P2 W2 J2 -> same_history n r P1 W1 J1 P2 W2 J2 G ->
  forall j y, r + 1 <= j <= Z.min J1 J2 -> In y (W1 j) -> In y (W2 j) ->
  Vz P1 W1 r (sm n) j y = Vz P2 W2 r (sm n) j y.
Proof. exact V_agree. Qed.
Print Assumptions VOTE_vote_independent_of_view.

(* T2: a supermajority tally in a normal round j >= r+2 forces every witness of round j and
   of all later rounds (normal or coin) to vote the tally's value *)
Theorem VOTE_T2_supermajority_forces_unanimity : forall n r P W J, view_ok n r P W J ->
  forall j y v t, r + 2 <= j <= J -> In y (W j) -> 0 < (j - r) mod 4 ->
  tallyf (Vz P W r (sm n) (j - 1)) (ssset P W j y) = (v, t) -> sm n <= t ->
  (forall y', In y' (W j) -> Vz P W r (sm n) j y' = v) /\
  (forall j' y'', j < j' <= J -> In y'' (W j') -> Vz P W r (sm n) j' y'' = v).
Proof. exact supermajority_forces_unanimity. Qed.
Print Assumptions VOTE_T2_supermajority_forces_unanimity.

(* the loop decides v exactly when some known witness is a decider with vote v *)
Theorem VOTE_decision_iff_decider : forall n r P W J, view_ok n r P W J -> forall v,
  fame_loop P (fun j => Some (W j)) r (zrange (r + 1) J) [] = Some (Some v) <->
  exists j y, r + 1 <= j <= J /\ In y (W j) /\ decider P W r (sm n) j y = true /\
              Vz P W r (sm n) j y = v.
Proof. exact decision_iff_decider. Qed.
Print Assumptions VOTE_decision_iff_decider.

(* T3: decisions reached on two views of the same history agree *)
Theorem VOTE_T3_decisions_agree : forall n r P1 W1 J1 P2 W2 J2 G v1 v2,
  view_ok n r P1 W1 J1 -> view_ok n r P2 W2 J2 -> same_history n r P1 W1 J1 P2 W2 J2 G ->
  fame_loop P1 (fun j => Some (W1 j)) r (zrange (r + 1) J1) [] = Some (Some v1) ->
  fame_loop P2 (fun j => Some (W2 j)) r (zrange (r + 1) J2) [] = Some (Some v2) ->
  v1 = v2.
Proof. exact decisions_agree. Qed.
Print Assumptions VOTE_T3_decisions_agree.

(* T4: a decision reached on a view is reached, with the same value, on every larger view *)
Theorem VOTE_T4_decision_monotone : forall n r P1 W1 J1 P2 W2 J2 G v,
  view_ok n r P1 W1 J1 -> view_ok n r P2 W2 J2 -> same_history n r P1 W1 J1 P2 W2 J2 G ->
  J1 <= J2 -> (forall j, r + 1 <= j <= J1 -> incl (W1 j) (W2 j)) ->
  fame_loop P1 (fun j => Some (W1 j)) r (zrange (r + 1) J1) [] = Some (Some v) ->
  fame_loop P2 (fun j => Some (W2 j)) r (zrange (r + 1) J2) [] = Some (Some v).
Proof. exact decision_monotone. Qed.
Print Assumptions VOTE_T4_decision_monotone.

(* T5: the order in which witnesses are listed (Go iterates over a map) is irrelevant, both
   for the y loop (W') and for the previous-round lists read through vp_prev (P') *)
Theorem VOTE_T5_order_irrelevant : forall n r P P' W W' J,
  view_ok n r P W J -> same_params_upto_order r J P P' W ->
  (forall j, Permutation (W j) (W' j)) ->
  fame_loop P' (fun j => Some (W' j)) r (zrange (r + 1) J) []
  = fame_loop P (fun j => Some (W j)) r (zrange (r + 1) J) [].
Proof. exact order_irrelevant. Qed.
Print Assumptions VOTE_T5_order_irrelevant.

(* the executable checkers of the hypotheses are sound *)
Theorem VOTE_view_okb_sound : forall n r P W J, view_okb n r P W J = true -> view_ok n r P W J.
Proof. exact view_okb_sound. Qed.
Print Assumptions VOTE_view_okb_sound.
Theorem VOTE_same_historyb_sound : forall n r P1 W1 J1 P2 W2 J2 G,
  same_historyb n r P1 W1 J1 P2 W2 J2 G = true -> same_history n r P1 W1 J1 P2 W2 J2 G.
Proof. exact same_historyb_sound. Qed.
Print Assumptions VOTE_same_historyb_sound.

(* non-vacuity, n = 4, s = 3, r = 0.
   Example 1: rounds of 4, 4, 3 witnesses; 23 sees a 2-2 tie (votes true); 31 tallies 3 yays
   in round 3 and decides "famous".  With J = 2 the loop ends undecided.  A smaller, permuted
   view of the same history reaches the same decision. *)
Example VOTE_example_decision :
  sm 4 = 3 /\
  view_ok 4 0 ex1_P ex1_W 3 /\
  fame_loop ex1_P (fun j => Some (ex1_W j)) 0 (zrange 1 3) [] = Some (Some true) /\
  fame_loop_votes ex1_P (fun j => Some (ex1_W j)) 0 (zrange 1 3) [] =
    Some ([(11, true); (12, true); (13, false); (14, false);
           (21, true); (22, true); (23, true); (24, false); (31, true)], Some true) /\
  tallyf (Vz ex1_P ex1_W 0 3 1) (ssset ex1_P ex1_W 2 23) = (true, 2) /\
  fame_loop ex1_P (fun j => Some (ex1_W j)) 0 (zrange 1 2) [] = Some None /\
  view_ok 4 0 ex1_P' ex1_W' 3 /\
  same_history 4 0 ex1_P' ex1_W' 3 ex1_P ex1_W 3 ex1_W /\
  fame_loop ex1_P' (fun j => Some (ex1_W' j)) 0 (zrange 1 3) [] = Some (Some true).
Proof.
  repeat (apply conj; [first [apply view_okb_sound|apply same_historyb_sound|idtac]; vm_compute; reflexivity|]).
  vm_compute; reflexivity.
Qed.

(* Example 2: five rounds of four witnesses; rounds 2 and 3 are split with tallies of 2;
   round 4 is a coin round: 41 sees a (true, 2) tally but votes its coin (false); round 5
   decides "not famous" on the coin outcome. *)
Example VOTE_example_coin_round :
  view_ok 4 0 ex2_P ex2_W 5 /\
  (4 - 0) mod 4 = 0 /\
  tallyf (Vz ex2_P ex2_W 0 3 3) (ssset ex2_P ex2_W 4 41) = (true, 2) /\
  vp_coin ex2_P 41 = false /\ Vz ex2_P ex2_W 0 3 4 41 = false /\
  fame_loop_votes ex2_P (fun j => Some (ex2_W j)) 0 (zrange 1 4) [] =
    Some ([(11, true); (12, true); (13, false); (14, false);
           (21, true); (22, true); (23, false); (24, false);
           (31, true); (32, true); (33, false); (34, false);
           (41, false); (42, false); (43, false); (44, true)], None) /\
  fame_loop ex2_P (fun j => Some (ex2_W j)) 0 (zrange 1 5) [] = Some (Some false).
Proof.
  repeat (apply conj; [first [apply view_okb_sound|idtac]; vm_compute; reflexivity|]).
  vm_compute; reflexivity.
Qed.
