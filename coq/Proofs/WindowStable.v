(* Stage D2 (a): under the window premise every validator-set lookup made during a run returns what
   the FINAL table returns.  [window_runb init ops]: every step writes table entries only for
   rounds above every round divided so far (Model/Window.v window_stepb; false in general:
   Properties/C10.v C10_window_refuted).  Then for every prefix of the run and every round r that
   exists at that point (r <= last_round), get_peerset of the prefix state = get_peerset of the
   final state: "the set that governs a round is final when the round is divided". *)
From Coq Require Import ZArith List Bool Lia ZifyBool Sorted.
From V Require Import Model.ZMap Model.Quorum Model.HgImpl Model.PeerSetSpec Model.Window
  Proofs.BlockInv Proofs.HgBlockFrames Proofs.PeerSetProofs Proofs.TidyRR Proofs.LrMono.
Import ListNotations.
Open Scope Z_scope.

Fixpoint window_runb (st : hg) (ops : list hop) : bool :=
  match ops with
  | [] => true
  | o :: r => window_stepb st (hstep st o) && window_runb (hstep st o) r
  end.

(* entries are never removed nor overwritten by the replay *)
Lemma replay_step_keeps acc rr itxs k p : In (k, p) (fst acc) -> In (k, p) (fst (replay_step acc rr itxs)).
Proof.
  intros H. unfold replay_step. destruct (snd (apply_receipts (snd acc) itxs)); [|exact H].
  destruct (table_has (rr + 6) (fst acc)); [exact H|]. cbn [fst]. apply insert_In. right. exact H.
Qed.

Lemma replay_keeps tbl vals ds k p : In (k, p) tbl -> In (k, p) (fst (replay tbl vals ds)).
Proof.
  revert tbl vals. induction ds as [|d ds IH]; intros tbl vals H; [exact H|].
  unfold replay. cbn [fold_left]. pose proof (replay_step_keeps (tbl, vals) (b_rr d) (b_itxs d) k p H) as H1.
  unfold replay_block. destruct (replay_step (tbl, vals) (b_rr d) (b_itxs d)) as [t' v']. apply IH. exact H1.
Qed.

(* a lookup below every key the replay adds is not affected *)
Lemma replay_get_stable ds : forall tbl vals r,
  table_wf tbl -> Forall (fun d => 0 <= b_rr d) ds ->
  (forall k p, In (k, p) (fst (replay tbl vals ds)) -> (exists p0, In (k, p0) tbl) \/ r < k) ->
  ps_table_get r (fst (replay tbl vals ds)) = ps_table_get r tbl.
Proof.
  induction ds as [|d ds IH]; intros tbl vals r W F Hk; [reflexivity|].
  inversion F as [|x l H0 F']; subst.
  pose proof (replay_step_wf (tbl, vals) (b_rr d) (b_itxs d) W H0) as W1.
  pose proof (fun k p => replay_step_keeps (tbl, vals) (b_rr d) (b_itxs d) k p) as K1.
  assert (E : replay tbl vals (d :: ds) = replay (fst (replay_step (tbl, vals) (b_rr d) (b_itxs d)))
                                                 (snd (replay_step (tbl, vals) (b_rr d) (b_itxs d))) ds).
  { unfold replay. cbn [fold_left]. unfold replay_block. destruct (replay_step (tbl, vals) (b_rr d) (b_itxs d)); reflexivity. }
  rewrite E in Hk |- *.
  destruct (replay_step (tbl, vals) (b_rr d) (b_itxs d)) as [t1 v1] eqn:Es. cbn [fst snd] in *.
  assert (S1 : ps_table_get r t1 = ps_table_get r tbl).
  { unfold replay_step in Es. cbn [fst snd] in Es.
    destruct (snd (apply_receipts vals (b_itxs d))); [|inversion Es; reflexivity].
    destruct (table_has (b_rr d + 6) tbl) eqn:T; [inversion Es; reflexivity|].
    inversion Es; subst t1 v1. apply get_insert_wf; [exact W|lia|].
    (* the inserted key is new and survives to the end *)
    assert (Hin : In (b_rr d + 6, fst (apply_receipts vals (b_itxs d)))
                     (fst (replay (ps_table_insert (b_rr d + 6) (fst (apply_receipts vals (b_itxs d))) tbl)
                                  (fst (apply_receipts vals (b_itxs d))) ds))).
    { apply replay_keeps. apply insert_In. left. reflexivity. }
    destruct (Hk _ _ Hin) as [[p0 Hp0]|Hlt]; [|exact Hlt].
    exfalso. apply (proj1 (table_has_false _ _) T p0). exact Hp0. }
  rewrite <- S1. apply IH; [exact W1|exact F'|].
  intros k p Hin. destruct (Hk k p Hin) as [[p0 Hp0]|Hlt]; [left|right; exact Hlt].
  exists p0. apply K1. exact Hp0.
Qed.

(** * One step, then a run *)
Lemma window_step_keys st st' k p : window_stepb st st' = true -> In (k, p) (peersets st') ->
  (exists p0, In (k, p0) (peersets st)) \/ last_round st' < k.
Proof.
  unfold window_stepb, new_entries. rewrite forallb_forall. intros H Hin.
  destruct (existsb (Z.eqb k) (map fst (peersets st))) eqn:E.
  - left. apply existsb_exists in E. destruct E as [k' [Hk' Ek]]. apply Z.eqb_eq in Ek. subst k'.
    apply in_map_iff in Hk'. destruct Hk' as [[k0 p0] [E0 Hp0]]. cbn in E0. subst k0. eauto.
  - right. apply Z.ltb_lt. apply H. apply filter_In. split; [apply in_map_iff; exists (k, p); auto|rewrite E; reflexivity].
Qed.

Section Node.
  Variables (self_ : Z) (genesis : peerset) (oracle_ : list Z).
  Hypothesis Hself : self_ <> -1.
  Notation R := (reach self_ genesis oracle_).

  Lemma window_step_stable ops o r :
    window_stepb (R ops) (hstep (R ops) o) = true -> r <= last_round (hstep (R ops) o) ->
    get_peerset (hstep (R ops) o) r = get_peerset (R ops) r.
  Proof.
    intros Hw Hr.
    assert (E' : hstep (R ops) o = R (ops ++ [o])) by (rewrite reach_app; reflexivity).
    destruct (hrun_c10inv self_ genesis oracle_ ops Hself) as [_ I1]. fold (R ops) in I1.
    destruct (hrun_c10inv self_ genesis oracle_ (ops ++ [o]) Hself) as [_ I2]. fold (R (ops ++ [o])) in I2.
    destruct (hstep_del (R ops) o (hrun_binv self_ genesis oracle_ ops)) as [l Hl].
    pose proof (reach_table self_ genesis oracle_ ops Hself) as T1.
    pose proof (reach_table self_ genesis oracle_ (ops ++ [o]) Hself) as T2.
    rewrite <- E' in T2, I2. rewrite Hl in T2. rewrite replay_app in T2. rewrite <- T1 in T2. cbn [fst snd] in T2.
    assert (F : Forall (fun d => 0 <= b_rr d) l).
    { pose proof (c10inv_rr_nonneg _ _ I2) as F2. rewrite Hl in F2. apply Forall_app in F2. apply F2. }
    unfold get_peerset. apply (f_equal fst) in T2. cbn [fst] in T2. rewrite T2.
    apply replay_get_stable; [apply (c_wf _ _ I1)|exact F|].
    intros k p Hin. rewrite <- T2 in Hin.
    destruct (window_step_keys _ _ k p Hw Hin) as [H|H]; [left; exact H|right; lia].
  Qed.

  Lemma window_run_stable ops2 : forall ops1 r,
    window_runb (R ops1) ops2 = true -> r <= last_round (R ops1) ->
    get_peerset (R (ops1 ++ ops2)) r = get_peerset (R ops1) r.
  Proof.
    induction ops2 as [|o ops2 IH]; intros ops1 r Hw Hr; [rewrite app_nil_r; reflexivity|].
    cbn [window_runb] in Hw. apply andb_prop in Hw. destruct Hw as [Hw1 Hw2].
    assert (E' : hstep (R ops1) o = R (ops1 ++ [o])) by (rewrite reach_app; reflexivity).
    pose proof (hstep_lrq_le (R ops1) o) as Lm.
    replace (ops1 ++ o :: ops2) with ((ops1 ++ [o]) ++ ops2) by (rewrite <- app_assoc; reflexivity).
    rewrite (IH (ops1 ++ [o]) r); [| rewrite <- E'; exact Hw2 | rewrite <- E'; lia].
    rewrite <- E'. apply window_step_stable; [exact Hw1|lia].
  Qed.

  (* THE STABILITY THEOREM: under the window premise, the validator set read for a round that exists
     at some point of the run is the set the final table gives for that round *)
  Theorem window_lookup_final ops k r :
    window_runb (init_hg self_ genesis oracle_) ops = true ->
    r <= last_round (R (firstn k ops)) ->
    get_peerset (R (firstn k ops)) r = get_peerset (R ops) r.
  Proof.
    intros Hw Hr. rewrite <- (firstn_skipn k ops) at 2. symmetry. apply window_run_stable; [|exact Hr].
    (* the suffix of a window-ok run is window-ok *)
    clear Hr. revert Hw. unfold reach. generalize (init_hg self_ genesis oracle_) as st. revert k.
    induction ops as [|o ops IH]; intros k st Hw; [destruct k; reflexivity|].
    destruct k as [|k]; [exact Hw|]. cbn [firstn skipn hrun fold_left].
    cbn [window_runb] in Hw. apply andb_prop in Hw. destruct Hw as [_ Hw2]. apply (IH k (hstep st o) Hw2).
  Qed.

  (* the lookups made DURING step k (division of the new event, fame, round-received, frames of the
     rounds processed by the step) are for rounds up to the last round AFTER the step, against the table
     before the step or a table in between: all of them equal the final answer *)
  Theorem window_lookup_final_step ops k r :
    window_runb (init_hg self_ genesis oracle_) ops = true -> (k < length ops)%nat ->
    r <= last_round (R (firstn (S k) ops)) ->
    get_peerset (R (firstn k ops)) r = get_peerset (R ops) r /\
    get_peerset (R (firstn (S k) ops)) r = get_peerset (R ops) r.
  Proof.
    intros Hw Hk Hr. pose proof (window_lookup_final ops (S k) r Hw Hr) as F. split; [|exact F].
    rewrite <- F.
    destruct (nth_error ops k) as [o|] eqn:Eo; [|apply nth_error_None in Eo; lia].
    assert (E1 : firstn (S k) ops = firstn k ops ++ [o]).
    { clear - Eo. revert k Eo. induction ops as [|a l IH]; intros k Eo; [destruct k; discriminate|].
      destruct k as [|k]; [cbn in Eo; inversion Eo; reflexivity|]. cbn [nth_error] in Eo.
      change (a :: firstn (S k) l = a :: (firstn k l ++ [o])). f_equal. apply IH. exact Eo. }
    rewrite E1 in Hr |- *. rewrite reach_app in Hr |- *. cbn [hrun fold_left] in Hr |- *. symmetry.
    apply window_step_stable; [|exact Hr].
    (* the k-th step of a window-ok run is window-ok *)
    clear Hr F E1. revert Hw Eo. unfold reach. generalize (init_hg self_ genesis oracle_) as st. revert k Hk.
    induction ops as [|a l IH]; intros k Hk st Hw Eo; [destruct k; discriminate|].
    cbn [window_runb] in Hw. apply andb_prop in Hw. destruct Hw as [Hw1 Hw2].
    destruct k as [|k]; [cbn in Eo; inversion Eo; subst a; cbn [firstn hrun fold_left]; exact Hw1|].
    cbn [firstn hrun fold_left]. cbn [nth_error] in Eo. cbn [length] in Hk. apply (IH k ltac:(lia) (hstep st a) Hw2 Eo).
  Qed.
End Node.
