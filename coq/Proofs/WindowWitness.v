(* Stage D1: the "window property" is false, and with it agreement under dynamic membership.
   ww: four genesis validators; 142 valid, fork-free events forming a plain gossip DAG (every event
   after the first four has the creator's previous event as self-parent and another creator's
   latest event as other-parent); every event carries one transaction (its id); the first event of
   creator 0 carries an internal transaction "peer 4 joins" that the application accepts.  The
   coin bit (middle byte of the event hash <> 0) is true except for events 56, 57, 104, 107, 110.
   The fame of the low rounds stays undecided until round 9 exists, so the first block
   (round-received 1) is committed - and the peer set of round 1 + 6 = 7 written - when rounds
   7, 8, 9 have already been divided with the four-peer set.  Node A receives the events in creation
   order, node B first the ancestors of the deciding event 118, then the others (both orders are
   topological).  Events 114 and 116 get round 9 in A and round 8 in B, and the blocks of index 8
   differ.  The same history replayed on two real cores gives the same two forks
   (FINDINGS.md, replay program scratch/gowin). *)
From Coq Require Import ZArith List Bool Permutation.
From V Require Import Model.ZMap Model.Quorum Model.Voting Model.HgImpl Proofs.AdmissionProofs Proofs.BlockInv
  Proofs.OrderProofs Proofs.Static Proofs.Agreement Proofs.BlockAgree.
Import ListNotations.
Open Scope Z_scope.

Definition ww_g : peerset := [mkPeer 100 0; mkPeer 101 1; mkPeer 102 2; mkPeer 103 3].
Definition ww_coin (id : Z) : bool := negb (existsb (Z.eqb id) [56; 57; 104; 107; 110]).
Definition ww_ev (t : Z * Z * Z * Z * Z) : event :=
  match t with (id, c, ix, sp, op) =>
    mkEvent id c ix sp op 0 (ww_coin id) (1000 + id) [id]
            (if (c =? 0) && (ix =? 0) then [mkItx id true (mkPeer 104 4) true true] else []) [] true end.
(* (id, creator, index, self-parent, other-parent), in creation order *)
Definition ww_rows : list (Z * Z * Z * Z * Z) :=
  [(0,0,0,-1,-1); (1,1,0,-1,-1); (2,2,0,-1,-1); (3,3,0,-1,-1); (4,0,1,0,2); (5,2,1,2,1); (6,0,2,4,5);
   (7,2,2,5,6); (8,2,3,7,1); (9,1,1,1,6); (10,0,3,6,8); (11,1,2,9,10); (12,0,4,10,8); (13,1,3,11,8);
   (14,0,5,12,13); (15,0,6,14,13); (16,1,4,13,3); (17,0,7,15,16); (18,1,5,16,3); (19,1,6,18,3); (20,0,8,17,19);
   (21,2,4,8,20); (22,0,9,20,3); (23,2,5,21,22); (24,1,7,19,3); (25,3,1,3,24); (26,0,10,22,24); (27,1,8,24,26);
   (28,0,11,26,25); (29,1,9,27,25); (30,2,6,23,28); (31,0,12,28,29); (32,0,13,31,29); (33,3,2,25,32);
   (34,3,3,33,29); (35,0,14,32,30); (36,3,4,34,35); (37,0,15,35,29); (38,1,10,29,37); (39,0,16,37,38);
   (40,0,17,39,36); (41,0,18,40,30); (42,1,11,38,30); (43,2,7,30,42); (44,1,12,42,41); (45,1,13,44,43);
   (46,3,5,36,45); (47,0,19,41,45); (48,1,14,45,47); (49,3,6,46,47); (50,3,7,49,48); (51,2,8,43,48);
   (52,1,15,48,47); (53,1,16,52,47); (54,1,17,53,50); (55,1,18,54,50); (56,0,20,47,55); (57,2,9,51,55);
   (58,3,8,50,55); (59,3,9,58,55); (60,1,19,55,57); (61,1,20,60,57); (62,2,10,57,61); (63,2,11,62,59);
   (64,2,12,63,61); (65,2,13,64,61); (66,1,21,61,65); (67,1,22,66,59); (68,3,10,59,56); (69,0,21,56,67);
   (70,3,11,68,69); (71,2,14,65,67); (72,1,23,67,69); (73,0,22,69,70); (74,0,23,73,72); (75,1,24,72,74);
   (76,3,12,70,74); (77,3,13,76,75); (78,2,15,71,77); (79,3,14,77,75); (80,2,16,78,75); (81,1,25,75,79);
   (82,2,17,80,79); (83,1,26,81,79); (84,1,27,83,82); (85,1,28,84,74); (86,0,24,74,82); (87,0,25,86,85);
   (88,0,26,87,82); (89,3,15,79,88); (90,1,29,85,82); (91,0,27,88,82); (92,1,30,90,89); (93,0,28,91,89);
   (94,1,31,92,93); (95,3,16,89,82); (96,1,32,94,95); (97,2,18,82,95); (98,0,29,93,97); (99,3,17,95,97);
   (100,3,18,99,98); (101,0,30,98,96); (102,2,19,97,101); (103,1,33,96,100); (104,2,20,102,103);
   (105,3,19,100,104); (106,0,31,101,103); (107,0,32,106,105); (108,0,33,107,103); (109,2,21,104,103);
   (110,1,34,103,105); (111,2,22,109,108); (112,2,23,111,110); (113,1,35,110,108); (114,3,20,105,113);
   (115,0,34,108,113); (116,3,21,114,112); (117,3,22,116,115); (118,2,24,112,115); (119,1,36,113,117);
   (120,3,23,117,118); (121,0,35,115,119); (122,2,25,118,121); (123,3,24,120,121); (124,0,36,121,123);
   (125,1,37,119,122); (126,0,37,124,125); (127,2,26,122,126); (128,1,38,125,127); (129,0,38,126,128);
   (130,1,39,128,127); (131,2,27,127,123); (132,3,25,123,129); (133,0,39,129,130); (134,1,40,130,131);
   (135,2,28,131,132); (136,3,26,132,133); (137,0,40,133,134); (138,1,41,134,135); (139,2,29,135,136);
   (140,3,27,136,137); (141,0,41,137,138)].
Definition ww_all : list event := map ww_ev ww_rows.
(* the second order: the ancestors of event 118 (118 included), then the rest *)
Definition ww_ordb : list Z :=
  [0; 1; 2; 3; 4; 5; 6; 7; 8; 9; 10; 11; 12; 13; 14; 15; 16; 17; 18; 19; 20; 21; 22; 23; 24; 25; 26; 27; 28; 29;
   30; 31; 32; 33; 34; 35; 36; 37; 38; 39; 40; 41; 42; 43; 44; 45; 46; 47; 48; 49; 50; 51; 52; 53; 54; 55; 56;
   57; 58; 59; 60; 61; 62; 63; 64; 65; 66; 67; 68; 69; 70; 71; 72; 73; 74; 75; 76; 77; 78; 79; 80; 81; 82; 83;
   84; 85; 86; 87; 88; 89; 90; 91; 92; 93; 94; 95; 96; 97; 98; 99; 100; 101; 102; 103; 104; 105; 106; 107; 108;
   109; 110; 111; 112; 113; 115; 118; 114; 116; 117; 119; 120; 121; 122; 123; 124; 125; 126; 127; 128; 129; 130;
   131; 132; 133; 134; 135; 136; 137; 138; 139; 140; 141].
Definition ww_all' : list event := map (fun i => nth (Z.to_nat i) ww_all (ww_ev (0, 0, 0, 0, 0))) ww_ordb.

Lemma nth_In_len {A} (n : nat) (l : list A) (d : A) (k : nat) : length l = k -> (n < k)%nat -> In (nth n l d) l.
Proof. intros <- H. apply nth_In. exact H. Qed.

Lemma firstn_In_w {A} (l : list A) i x : In x (firstn i l) -> In x l.
Proof. revert i. induction l as [|a l IH]; intros i H; destruct i; cbn in *; try contradiction. destruct H; [left; assumption|right; eapply IH; eauto]. Qed.

Lemma ww_premises :
  ids_determine ww_all /\ sigkeys_determine ww_all /\ fork_free ww_all /\
  Forall (hop_ok ww_all) (map HInsert ww_all) /\ Forall (hop_ok ww_all) (map HInsert ww_all') /\
  (* the second list is a rearrangement of the first *)
  (length ww_ordb = 142%nat /\ forallb (fun i => existsb (Z.eqb i) ww_ordb) (zseq 0 142) = true).
Proof.
  split; [apply ids_determine_distinct; vm_compute; reflexivity|].
  split; [apply sigkeys_determine_distinct; vm_compute; reflexivity|].
  split; [apply fork_freeb_sound; vm_compute; reflexivity|].
  split; [apply hop_ok_inserts; vm_compute; reflexivity|].
  split; [|vm_compute; split; reflexivity].
  assert (R : forallb (fun i => (0 <=? i) && (i <? 142)) ww_ordb = true) by (vm_compute; reflexivity).
  assert (L : length ww_all = 142%nat) by (vm_compute; reflexivity).
  assert (F : forallb (fun e => 0 <=? e_id e) ww_all = true) by (vm_compute; reflexivity).
  rewrite forallb_forall in R, F.
  apply Forall_forall. intros o Ho. apply in_map_iff in Ho. destruct Ho as [e [<- He]].
  unfold ww_all' in He. apply in_map_iff in He. destruct He as [i [<- Hi]].
  specialize (R i Hi). apply andb_prop in R. destruct R as [R1 R2]. apply Z.leb_le in R1. apply Z.ltb_lt in R2.
  assert (Hin : In (nth (Z.to_nat i) ww_all (ww_ev (0, 0, 0, 0, 0))) ww_all) by (apply (nth_In_len _ _ _ 142%nat L); apply Nat2Z.inj_lt; rewrite Z2Nat.id by exact R1; exact R2).
  cbn [hop_ok]. split; [exact Hin|]. apply Z.leb_le. apply F. exact Hin.
Qed.

Local Notation WA := (hrun (init_hg 0 ww_g []) (map HInsert ww_all)) (only parsing).
Local Notation WB := (hrun (init_hg 1 ww_g []) (map HInsert ww_all')) (only parsing).
(* node A just before and just after the insertion of event 118 *)
Local Notation WA0 := (hrun (init_hg 0 ww_g []) (map HInsert (firstn 118 ww_all))) (only parsing).
Local Notation E118 := (ww_ev (118, 2, 24, 112, 115)) (only parsing).

Definition rnd (st : hg) (x : Z) : option Z := match get_event st x with Some e => ev_round e | None => None end.

(* the window: the entry for round 7 is written when round 9 exists *)
Lemma ww_window_facts :
  nth_error ww_all 118 = Some E118 /\
  let st := WA0 in let st' := hstep st (HInsert E118) in
  map fst (peersets st) = [0] /\ last_consensus st = None /\ delivered st = [] /\ last_round st = 9 /\
  map (fun p => (fst p, map pkey (snd p))) (peersets st') = [(0, [0; 1; 2; 3]); (7, [0; 1; 2; 3; 4])] /\
  last_round st' = 9 /\
  (* events already divided into rounds 7, 8, 9 before the entry for round 7 exists *)
  length (filter (fun x => match rnd st x with Some r => 7 <=? r | None => false end) (zseq 0 142)) = 21%nat /\
  last_consensus st' = Some 7 /\ length (delivered st') = 7%nat.
Proof. vm_compute. repeat split; reflexivity. Qed.

(* the fork *)
Lemma ww_fork_facts :
  let sa := WA in let sb := WB in
  failed sa = false /\ failed sb = false /\
  map (fun p => (fst p, length (snd p))) (peersets sa) = [(0, 4%nat); (7, 5%nat)] /\
  map (fun p => (fst p, length (snd p))) (peersets sb) = [(0, 4%nat); (7, 5%nat)] /\
  map (fun x => (rnd sa x, rnd sb x)) [113; 114; 116] = [(Some 8, Some 8); (Some 9, Some 8); (Some 9, Some 8)] /\
  map (fun b => (b_index b, b_rr b, b_txs b)) (firstn 8 (delivered sa)) = map (fun b => (b_index b, b_rr b, b_txs b)) (firstn 8 (delivered sb)) /\
  option_map (fun b => (b_index b, b_rr b, b_txs b)) (nth_error (delivered sa) 8) = Some (8, 9, [104; 106; 105; 107; 110; 108; 113]) /\
  option_map (fun b => (b_index b, b_rr b, b_txs b)) (nth_error (delivered sb) 8)
    = Some (8, 9, [104; 106; 105; 109; 107; 110; 108; 111; 113; 112; 115]).
Proof. vm_compute. repeat split; reflexivity. Qed.

(** * The refutations *)

(* "a peer-set entry is written only for a round that has not been divided yet" *)
Lemma ww_window_refuted :
  ~ (forall genesis all self_ oracle_ ops o r ps,
       ids_determine all -> fork_free all -> Forall (hop_ok all) (ops ++ [o]) ->
       let st := hrun (init_hg self_ genesis oracle_) ops in
       In (r, ps) (peersets (hstep st o)) -> ~ In r (map fst (peersets st)) -> last_round (hstep st o) < r).
Proof.
  intros S. destruct ww_premises as [ID [_ [FF [H1 _]]]].
  destruct ww_window_facts as [N118 F]. cbv zeta in F. destruct F as [P0 [_ [_ [_ [P1 [L1 _]]]]]].
  assert (Hops : Forall (hop_ok ww_all) (map HInsert (firstn 118 ww_all) ++ [HInsert E118])).
  { rewrite Forall_forall in H1. apply Forall_forall. intros o Ho. apply in_app_or in Ho. destruct Ho as [Ho|[<-|[]]].
    - apply H1. apply in_map_iff in Ho. destruct Ho as [e [<- He]]. apply in_map. eapply firstn_In_w; exact He.
    - apply H1. apply in_map. eapply nth_error_In; exact N118. }
  assert (Hin : exists ps, In (7, ps) (peersets (hstep WA0 (HInsert E118)))).
  { destruct (peersets (hstep WA0 (HInsert E118))) as [|a [|b l]]; try (cbn in P1; discriminate P1).
    cbn [map] in P1. inversion P1 as [[A1 A2 A3 A4]]. destruct b as [r ps]. cbn [fst] in A3. subst r. exists ps. right; left; reflexivity. }
  destruct Hin as [ps Hin].
  specialize (S ww_g ww_all 0 [] (map HInsert (firstn 118 ww_all)) (HInsert E118) 7 ps ID FF Hops). cbv zeta in S.
  specialize (S Hin). rewrite P0, L1 in S.
  assert (C : 9 < 7) by (apply S; intros [E|[]]; discriminate E). discriminate C.
Qed.

(* agreement on the transactions of the delivered blocks WITHOUT the static-membership premise *)
Lemma ww_agreement_refuted :
  ~ (forall genesis all self1 self2 oracle1 oracle2 ops1 ops2 k d1 d2,
       ids_determine all -> sigkeys_determine all -> fork_free all ->
       Forall (hop_ok all) ops1 -> Forall (hop_ok all) ops2 ->
       let st1 := hrun (init_hg self1 genesis oracle1) ops1 in
       let st2 := hrun (init_hg self2 genesis oracle2) ops2 in
       nth_error (delivered st1) k = Some d1 -> nth_error (delivered st2) k = Some d2 -> b_txs d1 = b_txs d2).
Proof.
  intros S. destruct ww_premises as [ID [SK [FF [H1 [H2 _]]]]].
  pose proof ww_fork_facts as F. cbv zeta in F. destruct F as [_ [_ [_ [_ [_ [_ [F1 F2]]]]]]].
  destruct (nth_error (delivered WA) 8) as [d1|] eqn:E1; [|discriminate F1].
  destruct (nth_error (delivered WB) 8) as [d2|] eqn:E2; [|discriminate F2].
  cbn [option_map] in F1, F2. inversion F1 as [[A1 A2 A3]]. inversion F2 as [[B1 B2 B3]].
  specialize (S ww_g ww_all 0 1 [] [] (map HInsert ww_all) (map HInsert ww_all') 8%nat d1 d2 ID SK FF H1 H2).
  cbv zeta in S. specialize (S E1 E2). rewrite A3, B3 in S. discriminate S.
Qed.

(** * The same by SCHEDULING ALONE: every coin bit true *)
(* ws: four validators, 82 gossip events, the join request in event 0, every event's coin bit TRUE (no
   special hash anywhere: the situation of an adversary that only controls the order of delivery).  The
   first block (round-received 1) is committed when event 58 arrives and round 8 exists; node A
   (creation order) and node B (ancestors of 58 first) give event 54 rounds 8 and 7 and deliver
   different blocks of index 7.  Replayed on two real cores: corpus/C01-window-fork-sched.json. *)
Definition ws_ev (t : Z * Z * Z * Z * Z) : event :=
  match t with (id, c, ix, sp, op) =>
    mkEvent id c ix sp op 0 true (1000 + id) [id]
            (if (c =? 0) && (ix =? 0) then [mkItx id true (mkPeer 104 4) true true] else []) [] true end.
Definition ws_rows : list (Z * Z * Z * Z * Z) :=
  [(0,0,0,-1,-1); (1,1,0,-1,-1); (2,2,0,-1,-1); (3,3,0,-1,-1); (4,3,1,3,1); (5,3,2,4,0); (6,1,1,1,5);
   (7,0,1,0,6); (8,3,3,5,7); (9,1,2,6,8); (10,0,2,7,9); (11,2,1,2,8); (12,3,4,8,10); (13,0,3,10,12);
   (14,3,5,12,11); (15,2,2,11,13); (16,1,3,9,14); (17,3,6,14,16); (18,0,4,13,15); (19,3,7,17,18); (20,1,4,16,18);
   (21,0,5,18,19); (22,0,6,21,20); (23,2,3,15,19); (24,3,8,19,22); (25,0,7,22,24); (26,1,5,20,23);
   (27,2,4,23,25); (28,1,6,26,25); (29,3,9,24,28); (30,0,8,25,27); (31,1,7,28,30); (32,1,8,31,29);
   (33,0,9,30,32); (34,2,5,27,32); (35,2,6,34,33); (36,3,10,29,33); (37,1,9,32,35); (38,2,7,35,37);
   (39,0,10,33,36); (40,3,11,36,38); (41,0,11,39,38); (42,2,8,38,41); (43,3,12,40,42); (44,1,10,37,42);
   (45,2,9,42,44); (46,1,11,44,43); (47,3,13,43,45); (48,0,12,41,47); (49,2,10,45,46); (50,3,14,47,49);
   (51,2,11,49,50); (52,1,12,46,51); (53,2,12,51,52); (54,3,15,50,53); (55,1,13,52,48); (56,2,13,53,55);
   (57,1,14,55,56); (58,0,13,48,56); (59,3,16,54,57); (60,1,15,57,59); (61,2,14,56,60); (62,1,16,60,58);
   (63,3,17,59,62); (64,2,15,61,58); (65,0,14,58,64); (66,1,17,62,65); (67,0,15,65,63); (68,2,16,64,67);
   (69,3,18,63,66); (70,1,18,66,69); (71,0,16,67,70); (72,1,19,70,68); (73,2,17,68,69); (74,3,19,69,71);
   (75,0,17,71,72); (76,1,20,72,73); (77,2,18,73,74); (78,3,20,74,75); (79,0,18,75,76); (80,1,21,76,77);
   (81,2,19,77,78)].
Definition ws_all : list event := map ws_ev ws_rows.
Definition ws_ordb : list Z :=
  [0; 1; 2; 3; 4; 5; 6; 7; 8; 9; 10; 11; 12; 13; 14; 15; 16; 17; 18; 19; 20; 21; 22; 23; 24; 25; 26; 27; 28; 29;
   30; 31; 32; 33; 34; 35; 36; 37; 38; 39; 40; 41; 42; 43; 44; 45; 46; 47; 48; 49; 50; 51; 52; 53; 55; 56; 58;
   54; 57; 59; 60; 61; 62; 63; 64; 65; 66; 67; 68; 69; 70; 71; 72; 73; 74; 75; 76; 77; 78; 79; 80; 81].
Definition ws_all' : list event := map (fun i => nth (Z.to_nat i) ws_all (ws_ev (0, 0, 0, 0, 0))) ws_ordb.

Lemma ws_facts :
  forallb e_coin ws_all = true /\
  distinctb (map e_id ws_all) = true /\ distinctb (map e_sigkey ws_all) = true /\ fork_freeb ws_all = true /\
  (length ws_ordb = 82%nat /\ forallb (fun i => existsb (Z.eqb i) ws_ordb) (zseq 0 82) = true) /\
  let sa := hrun (init_hg 0 ww_g []) (map HInsert ws_all) in
  let sb := hrun (init_hg 1 ww_g []) (map HInsert ws_all') in
  failed sa = false /\ failed sb = false /\
  map (fun p => (fst p, length (snd p))) (peersets sa) = [(0, 4%nat); (7, 5%nat)] /\
  map (fun p => (fst p, length (snd p))) (peersets sb) = [(0, 4%nat); (7, 5%nat)] /\
  (rnd sa 54, rnd sb 54) = (Some 8, Some 7) /\
  map (fun b => (b_index b, b_rr b, b_txs b)) (firstn 7 (delivered sa)) = map (fun b => (b_index b, b_rr b, b_txs b)) (firstn 7 (delivered sb)) /\
  option_map (fun b => (b_index b, b_rr b, b_txs b)) (nth_error (delivered sa) 7) = Some (7, 8, [46; 47; 49; 50; 51; 52; 53]) /\
  option_map (fun b => (b_index b, b_rr b, b_txs b)) (nth_error (delivered sb) 7) = Some (7, 8, [46; 47; 49; 48; 50; 51; 52; 53; 55]).
Proof. vm_compute. repeat split; reflexivity. Qed.
